/-
Gas machine (C26). Transcribed from
  fuel-vm/src/interpreter/gas.rs            gas_charge, dependent_gas_charge(_without_base)
  fuel-vm/src/interpreter/flow.rs           PrepareCallCtx::prepare_call (gas part), RetCtx::return_from_context (gas part)
  fuel-tx/.../consensus_parameters/gas.rs   DependentCost::{base, resolve, resolve_without_base}
  fuel-vm/src/interpreter/executors/main.rs run_program (gas_used)
and the per-opcode charge schedule evaluator built on the generated table `Gen.opcodeCharge`.

Words are `Nat`; every Rust operator is mirrored explicitly (`saturating_*`, `checked_*`, plain `-`
which panics on underflow under overflow-checks => error constructor `arith`).
-/
import FuelVerif.Gen.Gas
namespace FuelVerif.Gas

def wordMax : Nat := 2 ^ 64 - 1

/-- `u64::saturating_add` -/
def satAdd (a b : Nat) : Nat := if a + b > wordMax then wordMax else a + b
/-- `u64::saturating_mul` -/
def satMul (a b : Nat) : Nat := if a * b > wordMax then wordMax else a * b

inductive GasErr
  | outOfGas            -- PanicReason::OutOfGas
  | gasCostNotDefined   -- PanicReason::GasCostNotDefined (schedule has no such entry)
  | divByZero           -- `units.checked_div(0).expect(..)` : Rust panic
  | arith               -- plain `-` underflow: Rust panic (overflow-checks) / wrap
  | ctxGasOverflow      -- Bug(ContextGasOverflow)
  | ctxGasUnderflow     -- Bug(ContextGasUnderflow)
  | globalGasUnderflow  -- Bug(GlobalGasUnderflow)
  | unknownOpcode
  deriving DecidableEq, Repr, Inhabited

/-- `DependentCost::base` -/
def DepCost.base : DepCost → Nat
  | .light b _ => b
  | .heavy b _ => b

/-- `DependentCost::resolve_without_base` -/
def DepCost.resolveWithoutBase : DepCost → Nat → Except GasErr Nat
  | .light _ upg, units => if upg = 0 then .error .divByZero else .ok (units / upg)
  | .heavy _ gpu, units => .ok (satMul units gpu)

/-- `DependentCost::resolve` -/
def DepCost.resolve (c : DepCost) (units : Nat) : Except GasErr Nat :=
  match c.resolveWithoutBase units with
  | .error e => .error e
  | .ok d => .ok (satAdd c.base d)

/-- `$cgas`, `$ggas` and, for every call frame (innermost first), the caller's context gas
    stored in the frame (`CallFrame::context_gas`). -/
structure GasState where
  cgas : Nat
  ggas : Nat
  saved : List Nat
  deriving DecidableEq, Repr, Inhabited

/-- `Interpreter::set_gas` as used by `init_inner` -/
def GasState.init (limit : Nat) : GasState := ⟨limit, limit, []⟩

/-- gas.rs `gas_charge`: registers are written before the error is returned, so the state is
    returned in both cases. -/
def gasCharge (s : GasState) (g : Nat) : GasState × Option GasErr :=
  if g > s.cgas then
    ({ s with ggas := s.ggas - s.cgas, cgas := 0 }, some .outOfGas)   -- `saturating_sub`
  else if g > s.ggas then
    (s, some .arith)                                                   -- `ggas_before - gas_to_use` underflows
  else
    ({ s with ggas := s.ggas - g, cgas := s.cgas - g }, none)

/-- consecutive charges of one instruction; stops at the first error -/
def chargeAll (s : GasState) : List Nat → GasState × Option GasErr
  | [] => (s, none)
  | g :: gs =>
    match gasCharge s g with
    | (s', none) => chargeAll s' gs
    | r => r

/-- flow.rs `prepare_call`: `forward = min(cgas, rD)`, `cgas = cgas.checked_sub(forward)` stored in the
    frame, later `cgas = forward` and `frames.push(frame)`. -/
def forwardGas (s : GasState) (fwd : Nat) : GasState × Option GasErr :=
  let f := min s.cgas fwd
  if f > s.cgas then (s, some .ctxGasUnderflow)
  else ({ s with cgas := f, saved := (s.cgas - f) :: s.saved }, none)

/-- `prepare_call` failing after the `checked_sub` but before the frame is pushed
    (CallFrame::new / grow_stack / code read / receipt push): `$cgas` keeps the reduced value. -/
def forwardAbort (s : GasState) (fwd : Nat) : GasState :=
  { s with cgas := s.cgas - min s.cgas fwd }

/-- flow.rs `return_from_context`: `if let Some(frame) = frames.pop() { cgas = cgas.checked_add(frame.context_gas()) … }` -/
def returnGas (s : GasState) : GasState × Option GasErr :=
  match s.saved with
  | [] => (s, none)
  | sv :: rest =>
    if s.cgas + sv > wordMax then ({ s with saved := rest }, some .ctxGasOverflow)
    else ({ s with cgas := s.cgas + sv, saved := rest }, none)

/-- executors/main.rs `run_program`: `gas_limit.checked_sub(self.remaining_gas())` -/
def gasUsed (limit : Nat) (s : GasState) : Except GasErr Nat :=
  if s.ggas > limit then .error .globalGasUnderflow else .ok (limit - s.ggas)

/-! ### Abstract op lists (what the proofs quantify over) -/

inductive GasOp
  | charge (g : Nat)
  | forward (fwd : Nat)
  | forwardAbort (fwd : Nat)
  | ret
  deriving DecidableEq, Repr, Inhabited

def applyOp (s : GasState) : GasOp → GasState × Option GasErr
  | .charge g => gasCharge s g
  | .forward f => forwardGas s f
  | .forwardAbort f => (forwardAbort s f, none)
  | .ret => returnGas s

/-- all states visited (including the first); execution stops at the first error, as a panic ends the script -/
def trace (s : GasState) : List GasOp → List GasState
  | [] => [s]
  | op :: ops =>
    match applyOp s op with
    | (s', none) => s :: trace s' ops
    | (s', some _) => [s, s']

/-! ### Schedule and per-instruction charge list -/

structure Schedule where
  fixed : List (String × Nat)
  dep : List (String × DepCost)
  deriving Repr, Inhabited

def defaultSchedule : Schedule := ⟨Gen.defaultFixed, Gen.defaultDep⟩

def Schedule.fixedCost (sch : Schedule) (f : String) : Except GasErr Nat :=
  match sch.fixed.lookup f with
  | some v => .ok v
  | none => .error .gasCostNotDefined

def Schedule.depCost (sch : Schedule) (f : String) : Except GasErr DepCost :=
  match sch.dep.lookup f with
  | some v => .ok v
  | none => .error .gasCostNotDefined

/-- `(Bytes32::LEN + WORD_SIZE)` in contract.rs/flow.rs and `BALANCE_ENTRY_SIZE` in blockchain.rs (MINT) -/
def balanceEntrySize : Nat := 40

/-- opcodes whose `execute` charges `noop()` and then a run-time dependent sequence of storage
    micro-operation charges (storage.rs) which this model does not enumerate -/
def storageOps : List String :=
  ["SCWQ", "SRW", "SRWQ", "SWW", "SWWQ", "SCLR", "SRDD", "SRDI", "SWRD", "SWRI", "SUPD", "SUPI", "SPLD"]

/-- surcharge `gas_charge(40 * new_storage_per_byte)` made by TR / MINT / CALL when a new balance entry is created -/
def newEntryCharge (sch : Schedule) (flag : Nat) : Except GasErr (List Nat) :=
  if flag = 0 then .ok []
  else match sch.fixedCost "new_storage_per_byte" with
    | .ok p => .ok [satMul balanceEntrySize p]
    | .error e => .error e

/-- The charges one instruction makes, in program order, and whether the list is complete.
    `args`: the operand values in `unpack()` order (register contents, or the immediate itself);
    `sizes`: run-time sizes the schedule depends on — CALL: `[padded code size, new-entry flag]`;
    TR/MINT: `[new-entry flag]`; LDC/CCP/CROO/CSIZ/BSIZ/BLDD: `[charge length]`. -/
def chargeList (sch : Schedule) (mn : String) (args sizes : List Nat) : Except GasErr (List Nat × Bool) :=
  match Gen.opcodeCharge.lookup mn with
  | none => .error .unknownOpcode
  | some .none => .ok ([], false)
  | some (.fixed f) | some (.fixedOpt f) =>
    match sch.fixedCost f with
    | .error e => .error e
    | .ok c =>
      if storageOps.contains mn then .ok ([c], false)
      else if mn = "TR" ∨ mn = "MINT" then
        match newEntryCharge sch (sizes.getD 0 0) with
        | .ok extra => .ok (c :: extra, true)
        | .error e => .error e
      else .ok ([c], true)
  | some (.dep f i) | some (.depOpt f i) =>
    match sch.depCost f with
    | .error e => .error e
    | .ok d =>
      let u := args.getD i 0
      let u := if mn = "ED19" ∧ u = 0 then Gen.ed19ZeroLenUnits else u
      match d.resolve u with
      | .ok c => .ok ([c], true)
      | .error e => .error e
  | some (.baseThenDep f) | some (.baseThenDepOpt f) =>
    match sch.depCost f with
    | .error e => .error e
    | .ok d =>
      match d.resolveWithoutBase (sizes.getD 0 0) with
      | .error e => .error e
      | .ok c2 =>
        if mn = "CALL" then
          match newEntryCharge sch (sizes.getD 1 0) with
          | .ok extra => .ok (d.base :: c2 :: extra, true)
          | .error e => .error e
        else .ok ([d.base, c2], true)

/-- gas effect of one instruction that does not fail for a reason other than gas:
    all charges, then CALL forwards `$rD`, RET/RETD credit the saved context gas back. -/
def instrGas (s : GasState) (mn : String) (args : List Nat) (charges : List Nat) : GasState × Option GasErr :=
  match chargeAll s charges with
  | (s', some e) => (s', some e)
  | (s', none) =>
    if mn = "CALL" then forwardGas s' (args.getD 3 0)
    else if mn = "RET" ∨ mn = "RETD" then returnGas s'
    else (s', none)

/-- the same as a list of abstract ops (used to lift the invariant to instructions) -/
def instrOps (mn : String) (args : List Nat) (charges : List Nat) : List GasOp :=
  charges.map GasOp.charge ++
    (if mn = "CALL" then [GasOp.forward (args.getD 3 0)]
     else if mn = "RET" ∨ mn = "RETD" then [GasOp.ret] else [])

/-- states after `k` successful charges, `k = 0 … charges.length` (while they succeed) -/
def prefixStates (s : GasState) : List Nat → List GasState
  | [] => [s]
  | g :: gs =>
    match gasCharge s g with
    | (s', none) => s :: prefixStates s' gs
    | _ => [s]

/-- after-states admissible when the instruction panicked for a reason other than OutOfGas:
    it stopped between two charges, or (CALL) after the forwarded gas had been deducted, or (RET/RETD in a
    call) after the frame was popped and its gas credited but the receipt push failed. -/
def panicStates (s : GasState) (mn : String) (args : List Nat) (charges : List Nat) : List GasState :=
  let ps := prefixStates s charges
  if ps.length = charges.length + 1 then
    if mn = "CALL" then ps ++ [forwardAbort (ps.getLastD s) (args.getD 3 0)]
    else if mn = "RET" ∨ mn = "RETD" then ps ++ [(returnGas (ps.getLastD s)).1]
    else ps
  else ps

end FuelVerif.Gas
