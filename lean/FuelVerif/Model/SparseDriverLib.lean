/- Shared by the sparse-Merkle driver streams (c12, c13, c14): the node store instance, canonical
printing, and request parsing. -/
import Std.Data.HashMap
import FuelVerif.Basic.Loop
import FuelVerif.Basic.Sha256
import FuelVerif.Model.SparseStore
import FuelVerif.Model.SparseBytes
namespace FuelVerif.Drv.Smt
open FuelVerif FuelVerif.SmtStore

abbrev Store := Std.HashMap Bytes Prim

/-- the `StorageMap<NodesTable>` of the harness as a `StoreOps` instance -/
def storeOps : StoreOps Store := ⟨fun m k => m[k]?, fun m k p => m.insert k p, fun m k => m.erase k⟩

def H : Bytes → Bytes := Sha256.sha256

def sortedEntries (m : Store) : List (Bytes × Prim) :=
  (m.toList.toArray.qsort (fun a b => bytesLt a.1 b.1)).toList

def primBytes (p : Prim) : Bytes := natBE 4 p.height ++ [p.pfx] ++ p.lo ++ p.hi

/-- digest of a list of (hash, primitive) entries in the given order -/
def entriesDigest (es : List (Bytes × Prim)) : String :=
  toHex (H (es.flatMap (fun e => e.1 ++ primBytes e.2)))

def storeSummary (m : Store) : String :=
  s!"{m.size} {entriesDigest (sortedEntries m)}"

def fmtEntry (e : Bytes × Prim) : String :=
  s!"{toHex e.1}:{e.2.height}:{e.2.pfx.toNat}:{toHex e.2.lo}:{toHex e.2.hi}"

def dump (m : Store) : String :=
  let es := sortedEntries m
  if es.isEmpty then "-" else ",".intercalate (es.map fmtEntry)

def resName : Except Err Unit → String
  | .ok _ => "ok"
  | .error e => e.name

/-- `k:v,k:v,...` (`-` = empty list) -/
def parsePairs (s : String) : Option (List (Bytes × Bytes)) :=
  if s == "-" then some []
  else (s.splitOn ",").mapM (fun kv =>
    match kv.splitOn ":" with
    | [k, v] => do let k ← ofHex k; let v ← ofHex v; pure (k, v)
    | _ => none)

def parseList (s : String) : Option (List Bytes) :=
  if s == "-" then some [] else (s.splitOn ",").mapM ofHex

/-- side hashes: in full up to 4, otherwise `len:digest` -/
def fmtSides (s : List Bytes) : String :=
  if s.isEmpty then "-"
  else if s.length ≤ 4 then ",".intercalate (s.map toHex)
  else s!"{s.length}:{toHex (H s.flatten)}"

def fmtProof : Proof → String
  | .inclusion s => s!"incl {fmtSides s}"
  | .exclusion s .placeholder => s!"excl {fmtSides s} ph"
  | .exclusion s (.leaf k v) => s!"excl {fmtSides s} {toHex k}:{toHex v}"

end FuelVerif.Drv.Smt
