/-
C22 — the SPECIFICATION of the 14 wide-integer instructions as one total function `wideSpec`, written in terms of
the mathematical operation on the operand VALUES and an explicit priority list of failures. Nothing here is
transcribed from the implementation (`Model/Wide.lean` is); `Props/C22.lean` proves `execWide = wideSpec`.

Priority of failures (the first one that applies is the panic reported):
  1. invalid immediate                              → InvalidImmediateValue     (nothing changed)
  2. compare only: destination register < 16        → ReservedRegisterNotWritable (nothing changed, no memory access)
  3. operand b, then c, then d (indirect ones only): beyond memory → MemoryOverflow, else not allocated →
     UninitalizedMemoryAccess                                                   (nothing changed)
  4. arithmetic: overflow without WRAPPING → ArithmeticOverflow; zero divisor / modulus without UNSAFEMATH →
     ArithmeticError                                                            (nothing changed)
  5. `$of` / `$err` are written
  6. result write: beyond memory → MemoryOverflow, else not allocated → UninitalizedMemoryAccess, else not owned →
     MemoryOwnership                                                            (`$of`/`$err` stay written, memory untouched)
  7. the W/8 result bytes are stored big-endian, `$pc += 4`.
Every stage is a TOTAL function of the initial state (`Mem.bytes` is total), so "which error wins" is simply the first
`some` of `wideStages`.
-/
import FuelVerif.Model.Wide
namespace FuelVerif.Alu
open FuelVerif FuelVerif.Gen.AluArgs

/-- first `some` of a list of optional failures -/
def firstSome {α : Type} : List (Option α) → Option α
  | [] => none
  | some x :: _ => some x
  | none :: t => firstSome t

/-- why an `n`-byte access at `a` is refused before ownership is looked at: bounds first, then allocation -/
def accessFail (m : Mem) (a n : Nat) : Option Panic :=
  if a + n ≤ memSize then (if a + n ≤ m.stackLen ∨ m.hp ≤ a then none else some .UninitalizedMemoryAccess)
  else some .MemoryOverflow

/-- an operand is read from memory only if it is indirect -/
def operandFail (m : Mem) (ind : Bool) (v n : Nat) : Option Panic := if ind then accessFail m v n else none

/-- the operand as a NUMBER: the big-endian value of the `n` bytes at `v` if indirect, the (zero-extended) register
value itself otherwise. Total: defined whether or not those bytes are readable. -/
def operandVal (m : Mem) (ind : Bool) (v n : Nat) : Nat :=
  if ind then beNat ((List.range n).map (fun i => m.bytes (v + i))) else v

/-- the destination range `[a, a+n)` lies in the frame's stack window `[$ssp, $sp)` (and inside memory) or in its heap
region `[$hp, prev_hp)` (a frame that allocated nothing, `$hp = prev_hp`, owns no heap) -/
def ownsRange (s : VmSt) (a n : Nat) : Bool :=
  s.owner.hasStack a (a + n) || s.owner.hasHeap a (a + n)

/-- refusal of the result write: bounds, then allocation, then ownership -/
def writeFail (s : VmSt) (a n : Nat) : Option Panic :=
  firstSome [accessFail s.mem a n, if ownsRange s a n then none else some .MemoryOwnership]

def cmpModeOfNat : Nat → CmpMode
  | 0 => .EQ | 1 => .NE | 2 => .LT | 3 => .GT | 4 => .LTE | 5 => .GTE | _ => .LZC
def wMathOpOfNat : Nat → WMathOp
  | 0 => .ADD | 1 => .SUB | 2 => .NOT | 3 => .OR | 4 => .XOR | 5 => .AND | 6 => .SHL | _ => .SHR

/-- what an instruction computes -/
inductive WideKind
  | cmp (mode : CmpMode) | math (op : WMathOp) | mul | div | muldiv | addmod | mulmod
  deriving DecidableEq, Repr

def WideKind.isCmp : WideKind → Bool
  | .cmp _ => true
  | _ => false

/-- the decoded instruction: operation, which of the operands b / c are read from memory, whether there is a third
(always indirect) operand d -/
structure WidePlan where
  kind : WideKind
  indB : Bool
  indC : Bool
  third : Bool
  deriving DecidableEq, Repr

/-- closed-form decoding of the 6-bit immediate `x` (for the four-register forms `x` is ignored):
compare: bits 0-2 mode (0..6), bits 3-4 reserved, bit 5 indirect rhs; math: bits 0-4 operation (0..7), bit 5 indirect
rhs; multiply: bits 0-3 reserved, bit 4 indirect lhs, bit 5 indirect rhs; divide: bits 0-4 reserved, bit 5 indirect rhs -/
def widePlan (op : WideOp) (x : Nat) : Option WidePlan :=
  match op with
  | .WDCM | .WQCM =>
    if x / 8 % 4 = 0 ∧ x % 8 ≤ 6 then some ⟨.cmp (cmpModeOfNat (x % 8)), true, decide (x / 32 = 1), false⟩ else none
  | .WDOP | .WQOP =>
    if x % 32 ≤ 7 then some ⟨.math (wMathOpOfNat (x % 32)), true, decide (x / 32 = 1), false⟩ else none
  | .WDML | .WQML =>
    if x % 16 = 0 then some ⟨.mul, decide (x / 16 % 2 = 1), decide (x / 32 = 1), false⟩ else none
  | .WDDV | .WQDV =>
    if x % 32 = 0 then some ⟨.div, true, decide (x / 32 = 1), false⟩ else none
  | .WDMD | .WQMD => some ⟨.muldiv, true, true, true⟩
  | .WDAM | .WQAM => some ⟨.addmod, true, true, true⟩
  | .WDMM | .WQMM => some ⟨.mulmod, true, true, true⟩

/-- result, new `$of`, new `$err` -/
structure WideVal where
  res : Nat
  ofv : Nat
  errv : Nat
  deriving DecidableEq, Repr

/-- the seven comparisons on numbers -/
def cmpMath (W l r : Nat) : CmpMode → Nat
  | .EQ => if l = r then 1 else 0
  | .NE => if l ≠ r then 1 else 0
  | .LT => if l < r then 1 else 0
  | .GT => if l > r then 1 else 0
  | .LTE => if l ≤ r then 1 else 0
  | .GTE => if l ≥ r then 1 else 0
  | .LZC => leadingZeros W l

/-- the eight arithmetic / logic / shift operations on `W`-bit numbers: (result, overflow) -/
def mathOpSpec (W l r : Nat) : WMathOp → Nat × Bool
  | .ADD => ((l + r) % 2 ^ W, decide (2 ^ W ≤ l + r))
  | .SUB => ((if r ≤ l then l - r else l + 2 ^ W - r), decide (l < r))
  | .NOT => (2 ^ W - 1 - l, false)
  | .OR => (l ||| r, false)
  | .XOR => (l ^^^ r, false)
  | .AND => (l &&& r, false)
  | .SHL => (l * 2 ^ r % 2 ^ W, false)
  | .SHR => (l / 2 ^ r, false)

/-- zero divisor / modulus: `ArithmeticError`, or with UNSAFEMATH result 0 and `$err = 1` -/
def divLike (z : Nat) (unsafeMath : Bool) (v : Nat) : Except Panic WideVal :=
  if z = 0 then (if unsafeMath then .ok ⟨0, 0, 1⟩ else .error .ArithmeticError) else .ok ⟨v, 0, 0⟩

/-- **the mathematical outcome** on the operand values `l`, `r`, `t` (third operand) of width `W` -/
def wideMath (W : Nat) (k : WideKind) (l r t : Nat) (wrapping unsafeMath : Bool) : Except Panic WideVal :=
  match k with
  | .cmp mode => .ok ⟨cmpMath W l r mode, 0, 0⟩
  | .math op =>
    if (mathOpSpec W l r op).2 = true ∧ wrapping = false then .error .ArithmeticOverflow
    else .ok ⟨(mathOpSpec W l r op).1, if (mathOpSpec W l r op).2 then 1 else 0, 0⟩
  | .mul =>
    if 2 ^ W ≤ l * r ∧ wrapping = false then .error .ArithmeticOverflow
    else .ok ⟨l * r % 2 ^ W, if 2 ^ W ≤ l * r then 1 else 0, 0⟩
  | .div => divLike r unsafeMath (l / r)
  | .addmod => divLike t unsafeMath ((l + r) % t)
  | .mulmod => divLike t unsafeMath (l * r % t)
  | .muldiv =>
    if t = 0 then .ok ⟨l * r / 2 ^ W, 0, 0⟩                       -- divisor 0 stands for 2^W: always fits
    else if 2 ^ W ≤ l * r / t ∧ wrapping = false then .error .ArithmeticOverflow
    else .ok ⟨l * r / t % 2 ^ W, if 2 ^ W ≤ l * r / t then 1 else 0, 0⟩

/-- `$of := ofv; $err := errv` -/
def setOfErr (r : Regs) (ofv errv : Nat) : Regs := (r.set regOF ofv).set regERR errv

/-- the part of the specification after decoding: `a` is the destination REGISTER index (compare) or the register
holding the destination ADDRESS (all others); `bv cv dv` are the VALUES of registers b c d -/
def wideSpecBody (n : Nat) (s : VmSt) (p : WidePlan) (a bv cv dv : Nat) : WOut :=
  if p.kind.isCmp = true ∧ a < 16 then (s, some .ReservedRegisterNotWritable) else
  match firstSome [operandFail s.mem p.indB bv n, operandFail s.mem p.indC cv n, operandFail s.mem p.third dv n] with
  | some e => (s, some e)
  | none =>
    match wideMath (8 * n) p.kind (operandVal s.mem p.indB bv n) (operandVal s.mem p.indC cv n) (operandVal s.mem p.third dv n)
        (isWrapping (s.regs regFLAG)) (isUnsafeMath (s.regs regFLAG)) with
    | .error e => (s, some e)
    | .ok v =>
      if p.kind.isCmp = true then ({ s with regs := incPc (setOfErr (s.regs.set a v.res) v.ofv v.errv) }, none)
      else
        match writeFail s (s.regs a) n with
        | some e => ({ s with regs := setOfErr s.regs v.ofv v.errv }, some e)
        | none => ({ s with regs := incPc (setOfErr s.regs v.ofv v.errv),
                            mem := s.mem.store (s.regs a) (natBE n v.res) }, none)

/-- **the specification of one wide-integer instruction** with operands `a b c d` (register indices; `d` is the
immediate for the six immediate forms) -/
def wideSpec (op : WideOp) (a b c d : Nat) (s : VmSt) : WOut :=
  match widePlan op d with
  | none => (s, some .InvalidImmediateValue)
  | some p => wideSpecBody op.bytes s p a (s.regs b) (s.regs c) (s.regs d)

/-- the failure stages in priority order, each a total function of the initial state -/
def wideStages (op : WideOp) (a b c d : Nat) (s : VmSt) : List (Option Panic) :=
  let n := op.bytes
  match widePlan op d with
  | none => [some .InvalidImmediateValue]
  | some p =>
    let bv := s.regs b; let cv := s.regs c; let dv := s.regs d
    [ if p.kind.isCmp = true ∧ a < 16 then some .ReservedRegisterNotWritable else none,
      operandFail s.mem p.indB bv n, operandFail s.mem p.indC cv n, operandFail s.mem p.third dv n,
      (match wideMath (8 * n) p.kind (operandVal s.mem p.indB bv n) (operandVal s.mem p.indC cv n) (operandVal s.mem p.third dv n)
          (isWrapping (s.regs regFLAG)) (isUnsafeMath (s.regs regFLAG)) with
        | .error e => some e
        | .ok _ => none),
      if p.kind.isCmp then none else accessFail s.mem (s.regs a) n,
      if p.kind.isCmp || ownsRange s (s.regs a) n then none else some .MemoryOwnership ]

end FuelVerif.Alu
