/-
Executable model of the storage read contract (C36), transcribed from
  fuel-vm/src/storage/memory.rs      `impl StorageRead<_> for MemoryStorage` (three identical impls)
  fuel-vm/src/interpreter/memory.rs  `MemoryInstance::{verify, read, write, grow_stack, memcopy}`,
                                     `OwnershipRegisters`, `copy_from_storage_zero_fill`
  fuel-vm/src/interpreter/blockchain.rs  `LoadContractCodeCtx::{load_contract_code, load_blob_code,
                                     load_memory_code}`, `CodeCopyCtx::code_copy`
  fuel-vm/src/interpreter/blob.rs    `blob_load_data`
  fuel-types/src/bytes.rs            `padded_len_word`
The comparison operators, fill bytes and constants come from `Gen/StoreRead.lean` (regenerated from the
Rust text on every run). Gas charging is NOT modelled here (it is C26's subject; the correspondence
stream runs with free gas costs). Core Lean only.
-/
import FuelVerif.Basic.Util
import FuelVerif.Gen.StoreRead
namespace FuelVerif.StorageRead
open FuelVerif FuelVerif.Gen.StoreRead

/-! ### Rust integer helpers (usize = u64 on the supported targets) -/

def U64_MAX : Nat := 2 ^ 64 - 1
/-- `a.saturating_add(b)` on `u64` / `usize` -/
def satAdd (a b : Nat) : Nat := if a + b > U64_MAX then U64_MAX else a + b
/-- `a.checked_add(b)` on `u64` -/
def checkedAdd (a b : Nat) : Option Nat := if a + b > U64_MAX then none else some (a + b)

/-! ### `StorageRead` for `MemoryStorage` -/

/-- `fuel_storage::StorageReadError` -/
inductive ReadErr | KeyNotFound | OutOfBounds
  deriving DecidableEq, Repr

def ReadErr.name : ReadErr → String
  | .KeyNotFound => "KeyNotFound"
  | .OutOfBounds => "OutOfBounds"

/-- `MemoryStorage::read_exact` (`val` = `self.memory.<table>.get(key)`, `buf` = the caller's buffer).
Returns the new buffer contents and `total_len`. -/
def readExact (val : Option Bytes) (offset : Nat) (buf : Bytes) : Except ReadErr (Bytes × Nat) :=
  match val with
  | none => .error .KeyNotFound
  | some data =>
    let totalLen := data.length
    let end_ := satAdd offset buf.length
    if readExactRejects end_ totalLen then .error .OutOfBounds
    else
      -- buf.copy_from_slice(&data[offset..end])
      .ok ((data.drop offset).take (end_ - offset), totalLen)

/-- `MemoryStorage::read_zerofill` -/
def readZerofill (val : Option Bytes) (offset : Nat) (buf : Bytes) : Except ReadErr (Bytes × Nat) :=
  match val with
  | none => .error .KeyNotFound
  | some data =>
    let totalLen := data.length
    -- data.split_at_checked(offset): `None` iff offset > len
    if offset > data.length then .error .OutOfBounds
    else
      let after := data.drop offset
      let k := min after.length buf.length
      -- dst.copy_from_slice(&after[..dst.len()]); rest.fill(0)
      .ok (after.take k ++ List.replicate (buf.length - k) zerofillByte, totalLen)

/-- `MemoryStorage::read_alloc` -/
def readAlloc (val : Option Bytes) : Option Bytes := val
/-- `MemoryStorage::size_of_value` -/
def sizeOfValue (val : Option Bytes) : Option Nat := val.map (·.length)

/-! ### VM memory (only what the code/blob loading instructions use) -/

/-- `fuel_asm::PanicReason` variants reachable from the modelled functions -/
inductive Panic
  | MemoryOverflow | UninitalizedMemoryAccess | MemoryOwnership | MemoryGrowthOverlap | MemoryWriteOverlap
  | ExpectedUnallocatedStack | ContractMaxSize | ContractNotInInputs | ContractNotFound | BlobNotFound
  | InvalidImmediateValue | ContractInstructionNotAllowed
  deriving DecidableEq, Repr

def Panic.name : Panic → String
  | .MemoryOverflow => "MemoryOverflow" | .UninitalizedMemoryAccess => "UninitalizedMemoryAccess"
  | .MemoryOwnership => "MemoryOwnership" | .MemoryGrowthOverlap => "MemoryGrowthOverlap"
  | .MemoryWriteOverlap => "MemoryWriteOverlap" | .ExpectedUnallocatedStack => "ExpectedUnallocatedStack"
  | .ContractMaxSize => "ContractMaxSize" | .ContractNotInInputs => "ContractNotInInputs"
  | .ContractNotFound => "ContractNotFound" | .BlobNotFound => "BlobNotFound"
  | .InvalidImmediateValue => "InvalidImmediateValue"
  | .ContractInstructionNotAllowed => "ContractInstructionNotAllowed"

/-- `MemoryInstance`: `stack.len()`, `hp`, and the byte at every address (meaningful below `stackLen`
and from `hp`). -/
structure Mem where
  stackLen : Nat
  hp : Nat
  get : Nat → UInt8

/-- bytes `[a, a+n)` -/
def Mem.slice (m : Mem) (a n : Nat) : Bytes := (List.range n).map (fun i => m.get (a + i))

/-- store `bs` at `a` -/
def Mem.store (m : Mem) (a : Nat) (bs : Bytes) : Mem :=
  { m with get := fun p => if h : a ≤ p ∧ p - a < bs.length then bs[p - a]'h.2 else m.get p }

/-- `ToAddr for Word` -/
def toAddr (w : Nat) : Except Panic Nat := if w > memSize then .error .MemoryOverflow else .ok w

/-- `MemoryInstance::verify` → `(start, end)` -/
def Mem.verify (m : Mem) (addr count : Nat) : Except Panic (Nat × Nat) := do
  let start ← toAddr addr
  let len ← toAddr count
  let end_ := satAdd start len
  if end_ > memSize then .error .MemoryOverflow
  else if end_ ≤ m.stackLen ∨ start ≥ m.hp then .ok (start, end_)
  else .error .UninitalizedMemoryAccess

/-- `MemoryInstance::read` -/
def Mem.read (m : Mem) (addr count : Nat) : Except Panic Bytes := do
  let (s, e) ← m.verify addr count
  .ok (m.slice s (e - s))

/-- `OwnershipRegisters` -/
structure Owner where
  sp : Nat
  ssp : Nat
  hp : Nat
  prevHp : Nat

/-- `has_ownership_stack` on `range = start..end` -/
def Owner.ownsStack (o : Owner) (s e : Nat) : Bool :=
  if (¬ s < e) ∧ s = o.ssp then true
  else if ¬ (o.ssp ≤ s ∧ s < o.sp) then false
  else if e > vmMaxRam then false
  else decide (o.ssp ≤ e ∧ e ≤ o.sp)

/-- `has_ownership_heap` -/
def Owner.ownsHeap (o : Owner) (s e : Nat) : Bool :=
  if (¬ s < e) ∧ s = o.hp then true
  else if s < o.hp then false
  else decide (o.hp ≠ o.prevHp ∧ e ≤ o.prevHp)

/-- `verify_ownership` -/
def Owner.verify (o : Owner) (s e : Nat) : Except Panic Unit :=
  if o.ownsStack s e || o.ownsHeap s e then .ok () else .error .MemoryOwnership

/-- `MemoryInstance::write` (the checks; returns the verified range) -/
def Mem.writeRange (m : Mem) (o : Owner) (addr len : Nat) : Except Panic (Nat × Nat) := do
  let (s, e) ← m.verify addr len
  o.verify s e
  .ok (s, e)

/-- `MemoryInstance::grow_stack` -/
def Mem.growStack (m : Mem) (newSp : Nat) : Except Panic Mem :=
  if newSp > vmMaxRam then .error .MemoryOverflow
  else if newSp > m.stackLen then
    if newSp > m.hp then .error .MemoryGrowthOverlap
    else .ok { m with stackLen := newSp, get := fun p => if m.stackLen ≤ p ∧ p < newSp then 0 else m.get p }
  else .ok m

/-- `MemoryInstance::memcopy` -/
def Mem.memcopy (m : Mem) (dst src length : Nat) (o : Owner) : Except Panic Mem := do
  let (ds, de) ← m.verify dst length
  let (ss, se) ← m.verify src length
  if (ds ≤ ss ∧ ss < de) ∨ (ss ≤ ds ∧ ds < se) ∨ (ds < se ∧ se ≤ de) ∨ (ss < de ∧ de ≤ se) then
    .error .MemoryWriteOverlap
  else do
    o.verify ds de
    .ok (m.store ds (m.slice ss (se - ss)))

/-! ### `copy_from_storage_zero_fill` -/

/-- the buffer part: `wb` = current contents of the destination range, `val` = the stored value under
`src_id`, `srcLen` = the length the caller obtained from `size_of_value` -/
def copyZeroFillBuf (wb : Bytes) (val : Option Bytes) (srcOffset srcLen : Nat) (notFound : Panic) :
    Except Panic Bytes :=
  if copyReads srcOffset srcLen then
    -- u32::try_from(src_offset)
    if srcOffset ≥ 2 ^ 32 then .error .MemoryOverflow
    else
      let srcReadLength := min (srcLen - srcOffset) wb.length
      match readZerofill val srcOffset (wb.take srcReadLength) with
      | .ok (rb, _) => .ok (rb ++ List.replicate (wb.length - srcReadLength) copyFillByte)
      | .error .KeyNotFound => .error notFound
      | .error .OutOfBounds =>
        .ok (wb.take copyOobEmptyOffset ++ List.replicate (wb.length - copyOobEmptyOffset) copyFillByte)
  else .ok (List.replicate wb.length copyFillByte)

/-- `copy_from_storage_zero_fill` -/
def copyFromStorageZeroFill (m : Mem) (o : Owner) (val : Option Bytes) (dstAddr dstLen srcOffset srcLen : Nat)
    (notFound : Panic) : Except Panic Mem := do
  let (s, e) ← m.writeRange o dstAddr dstLen
  let out ← copyZeroFillBuf (m.slice s (e - s)) val srcOffset srcLen notFound
  .ok (m.store s out)

/-! ### LDC / CCP / BLDD -/

/-- `fuel_types::bytes::padded_len_word` -/
def paddedLenWord (len : Nat) : Option Nat :=
  let modulo := len % wordSize
  if modulo = 0 then some len else checkedAdd len (wordSize - modulo)

/-- the registers and context the three instructions use -/
structure Vm where
  mem : Mem
  ssp : Nat
  sp : Nat
  hp : Nat
  fp : Nat
  pc : Nat
  /-- `frames.last().registers[HP]`, or `VM_MAX_RAM` in an external context (`OwnershipRegisters::new`) -/
  prevHp : Nat
  isInternal : Bool
  isPredicate : Bool
  contractMaxSize : Nat

/-- storage and transaction inputs, keyed by the 32 id bytes -/
structure Env where
  contracts : Bytes → Option Bytes
  blobs : Bytes → Option Bytes
  inInputs : Bytes → Bool

def beWord (bs : Bytes) : Nat := beNat bs
def wordBE (n : Nat) : Bytes := natBE 8 n

/-- "Update frame code size, if we have a stack frame" (shared tail of the three LDC modes);
`overflowPanics = false` is the `.expect("Code size cannot overflow with padding")` of modes 1 and 2 -/
def bumpCodeSize (v : Vm) (m : Mem) (length : Nat) : Except Panic Mem :=
  if v.isInternal then do
    let ptr := satAdd v.fp codeSizeOffset
    let old ← m.read ptr wordSize
    match paddedLenWord (beWord old) with
    | none => .error .MemoryOverflow
    | some oldPadded =>
      match checkedAdd oldPadded length with
      | none => .error .MemoryOverflow
      | some new =>
        -- write_bytes_noownerchecks
        let (s, _) ← m.verify ptr wordSize
        .ok (m.store s (wordBE new))
  else .ok m

/-- `OwnershipRegisters::only_allow_stack_write(sp, ssp, hp)` -/
def onlyStack (sp ssp hp : Nat) : Owner := { sp := sp, ssp := ssp, hp := hp, prevHp := hp }

/-- `LoadContractCodeCtx::load_contract_code` (LDC mode 0) -/
def loadContractCode (v : Vm) (env : Env) (a b c : Nat) : Except Panic Vm := do
  if v.isPredicate then .error .ContractInstructionNotAllowed
  else if v.ssp ≠ v.sp then .error .ExpectedUnallocatedStack
  else do
    let id ← v.mem.read a contractIdLen
    let length ← match paddedLenWord c with | some l => pure l | none => .error .MemoryOverflow
    if length > v.contractMaxSize then .error .ContractMaxSize
    else if !env.inInputs id then .error .ContractNotInInputs
    else do
      let contractLen ← match sizeOfValue (env.contracts id) with | some l => pure l | none => .error .ContractNotFound
      let newSp := satAdd v.ssp length
      let m ← v.mem.growStack newSp
      let owner := onlyStack newSp v.ssp v.hp
      let m ← copyFromStorageZeroFill m owner (env.contracts id) v.ssp length b contractLen .ContractNotFound
      let m ← bumpCodeSize v m length
      .ok { v with mem := m, sp := newSp, ssp := newSp, pc := v.pc + 4 }

/-- `LoadContractCodeCtx::load_blob_code` (LDC mode 1) -/
def loadBlobCode (v : Vm) (env : Env) (a b c : Nat) : Except Panic Vm := do
  if v.ssp ≠ v.sp then .error .ExpectedUnallocatedStack
  else do
    let id ← v.mem.read a blobIdLen
    let length := (paddedLenWord c).getD U64_MAX     -- `.unwrap_or(Word::MAX)`
    let blobLen ← match sizeOfValue (env.blobs id) with | some l => pure l | none => .error .BlobNotFound
    let newSp := satAdd v.ssp length
    let m ← v.mem.growStack newSp
    let owner := onlyStack newSp v.ssp v.hp
    let m ← copyFromStorageZeroFill m owner (env.blobs id) v.ssp length b blobLen .BlobNotFound
    let m ← bumpCodeSize v m length
    .ok { v with mem := m, sp := newSp, ssp := newSp, pc := v.pc + 4 }

/-- `LoadContractCodeCtx::load_memory_code` (LDC mode 2) -/
def loadMemoryCode (v : Vm) (a b c : Nat) : Except Panic Vm := do
  if v.ssp ≠ v.sp then .error .ExpectedUnallocatedStack
  else if c = 0 then .ok { v with pc := v.pc + 4 }
  else do
    let length := (paddedLenWord c).getD U64_MAX
    let lengthPadding := length - c                 -- saturating_sub
    let newSp := satAdd v.ssp length
    let m ← v.mem.growStack newSp
    let owner := onlyStack newSp v.ssp v.hp
    let src := satAdd a b
    let m ← m.memcopy v.ssp src c owner
    let m ← if lengthPadding > 0 then do
        let (s, e) ← m.writeRange owner (satAdd v.ssp c) lengthPadding
        pure (m.store s (List.replicate (e - s) 0))
      else pure m
    let m ← bumpCodeSize v m length
    .ok { v with mem := m, sp := newSp, ssp := newSp, pc := v.pc + 4 }

/-- `Interpreter::load_contract_code` dispatch on the immediate -/
def ldc (v : Vm) (env : Env) (a b c mode : Nat) : Except Panic Vm :=
  match mode with
  | 0 => loadContractCode v env a b c
  | 1 => loadBlobCode v env a b c
  | 2 => loadMemoryCode v a b c
  | _ => .error .InvalidImmediateValue

/-- `OwnershipRegisters::new` -/
def Vm.owner (v : Vm) : Owner := { sp := v.sp, ssp := v.ssp, hp := v.hp, prevHp := v.prevHp }

/-- `CodeCopyCtx::code_copy` (CCP): `a` dst, `b` id address, `c` offset, `d` length -/
def codeCopy (v : Vm) (env : Env) (a b c d : Nat) : Except Panic Vm := do
  let id ← v.mem.read b contractIdLen
  let _ ← v.mem.writeRange v.owner a d
  if !env.inInputs id then .error .ContractNotInInputs
  else do
    let contractLen ← match sizeOfValue (env.contracts id) with | some l => pure l | none => .error .ContractNotFound
    let m ← copyFromStorageZeroFill v.mem v.owner (env.contracts id) a d c contractLen .ContractNotFound
    .ok { v with mem := m, pc := v.pc + 4 }

/-- `Interpreter::blob_load_data` (BLDD) -/
def blobLoadData (v : Vm) (env : Env) (a b c d : Nat) : Except Panic Vm := do
  let id ← v.mem.read b blobIdLen
  let blobLen ← match sizeOfValue (env.blobs id) with | some l => pure l | none => .error .BlobNotFound
  let m ← copyFromStorageZeroFill v.mem v.owner (env.blobs id) a d c blobLen .BlobNotFound
  .ok { v with mem := m, pc := v.pc + 4 }

/-! ### the specification side (what the English statement says) -/

/-- "copies what exists from the offset and zero-fills the rest": byte `i` of the result -/
def specZeroFill (data : Bytes) (off n : Nat) : Bytes :=
  (List.range n).map (fun i => (data[off + i]?).getD 0)

end FuelVerif.StorageRead
