/-
C06 model, part 3: executable checks over shapes and trees used by the driver and by the obligations on
the generated shapes (`Gen/SerdeShapes.lean`):

* `hasShapeB`   — decidable version of `HasShape` (proved equivalent in `Lemmas/SerdeCheck.lean`);
* `leavesOk`    — the value-level validation a hand-written visitor adds on top of its shape, applied at
                  every `sel` node (for `Policies`: `deSeq` must accept the decoded pair);
* `pcDecode`/`bcDecode` — what `postcard::from_bytes::<T>` / `bincode::deserialize::<T>` accept: the shape
                  decoder, then the leaf validation; both crates' entry points ignore trailing bytes
                  (postcard `from_bytes` drops the rest; `bincode::deserialize` = `DefaultOptions::new()
                  .with_fixint_encoding().allow_trailing_bytes()`), so the rest is returned, not required empty;
* `wfB`         — well-formedness of a shape: every enum has at least one variant and its variant count
                  fits the `u32` index both formats write; `witness` builds a tree of a well-formed shape.
-/
import FuelVerif.Model.Serde
namespace FuelVerif.Serde

mutual
def hasShapeB : Shape → Tree → Bool
  | .u8, .u8 n => decide (n < 2 ^ 8)
  | .u16, .u16 n => decide (n < 2 ^ 16)
  | .u32, .u32 n => decide (n < 2 ^ 32)
  | .u64, .u64 n => decide (n < 2 ^ 64)
  | .u128, .u128 n => decide (n < 2 ^ 128)
  | .bool, .bool _ => true
  | .bytes, .bytes bs => decide (bs.length < 2 ^ 64)
  | .seq e, .seq xs => decide (xs.length < 2 ^ 64) && allShapeB e xs
  | .tuple fs, .tuple xs => listShapeB fs xs
  | .enum vs, .variant idx p => decide (idx < 2 ^ 32) && variantShapeB vs idx p
  | .option _, .none => true
  | .option s, .some t => hasShapeB s t
  | .sel al lg a b, .tuple [.u32 bits, x] =>
    decide (bits < 2 ^ 32) && (if selLegacy al lg bits then hasShapeB a x else hasShapeB b x)
  | _, _ => false
def allShapeB : Shape → List Tree → Bool
  | _, [] => true
  | e, t :: ts => hasShapeB e t && allShapeB e ts
def listShapeB : List Shape → List Tree → Bool
  | [], [] => true
  | s :: ss, t :: ts => hasShapeB s t && listShapeB ss ts
  | _, _ => false
def variantShapeB : List Shape → Nat → Tree → Bool
  | [], _, _ => false
  | s :: _, 0, p => hasShapeB s p
  | _ :: ss, k + 1, p => variantShapeB ss k p
end

/- `v` is applied to the subtree at every `sel` node (the subtree a hand-written visitor decoded). -/
mutual
def leavesOk (v : Tree → Bool) : Shape → Tree → Bool
  | .seq e, .seq xs => leavesOkAll v e xs
  | .tuple fs, .tuple xs => leavesOkList v fs xs
  | .enum vs, .variant idx p => leavesOkVariant v vs idx p
  | .option s, .some t => leavesOk v s t
  | .sel al lg a b, .tuple [.u32 bits, x] =>
    v (.tuple [.u32 bits, x]) && (if selLegacy al lg bits then leavesOk v a x else leavesOk v b x)
  | .sel _ _ _ _, _ => false
  | _, _ => true
def leavesOkAll (v : Tree → Bool) : Shape → List Tree → Bool
  | _, [] => true
  | e, t :: ts => leavesOk v e t && leavesOkAll v e ts
def leavesOkList (v : Tree → Bool) : List Shape → List Tree → Bool
  | s :: ss, t :: ts => leavesOk v s t && leavesOkList v ss ts
  | _, _ => true
def leavesOkVariant (v : Tree → Bool) : List Shape → Nat → Tree → Bool
  | [], _, _ => true
  | s :: _, 0, p => leavesOk v s p
  | _ :: ss, k + 1, p => leavesOkVariant v ss k p
end

/-- `postcard::from_bytes::<T>` (trailing bytes ignored) as far as the binary layer goes -/
def pcDecode (v : Tree → Bool) (s : Shape) (bs : Bytes) : Option (Tree × Bytes) :=
  match pcDec s bs with
  | some (t, r) => if leavesOk v s t then some (t, r) else none
  | none => none

/-- `bincode::deserialize::<T>` (legacy function: fixint, little endian, trailing bytes allowed) -/
def bcDecode (v : Tree → Bool) (s : Shape) (bs : Bytes) : Option (Tree × Bytes) :=
  match bcDec s bs with
  | some (t, r) => if leavesOk v s t then some (t, r) else none
  | none => none

/-! ### well-formed shapes and a tree of each -/

mutual
def wfB : Shape → Bool
  | .seq e => wfB e
  | .tuple fs => wfListB fs
  | .enum vs => !vs.isEmpty && decide (vs.length < 2 ^ 32) && wfListB vs
  | .option s => wfB s
  | .sel _ _ a b => wfB a && wfB b
  | _ => true
def wfListB : List Shape → Bool
  | [] => true
  | s :: ss => wfB s && wfListB ss
end

/- the simplest tree of a shape: zeros, empty sequences, first variant, `none`, bit set 0 -/
mutual
def witness : Shape → Tree
  | .u8 => .u8 0 | .u16 => .u16 0 | .u32 => .u32 0 | .u64 => .u64 0 | .u128 => .u128 0
  | .bool => .bool false
  | .bytes => .bytes []
  | .seq _ => .seq []
  | .tuple fs => .tuple (witnessList fs)
  | .enum vs => .variant 0 (witnessHead vs)
  | .option _ => .none
  | .sel al lg a b => .tuple [.u32 0, if selLegacy al lg 0 then witness a else witness b]
def witnessList : List Shape → List Tree
  | [] => []
  | s :: ss => witness s :: witnessList ss
def witnessHead : List Shape → Tree
  | [] => .tuple []
  | s :: _ => witness s
end

end FuelVerif.Serde
