/-
Text form of `Val` on the line protocol of the codec streams (c01, c02) and the request handler shared
by both. Tokens, space separated, prefix notation:
  `i<decimal>` integer · `b<hex>` bytes (`b-` empty) · `u` unit / empty list · `c<decimal>` capacity
  `p A B` pair · `l A` inl · `r A` inr · `[ A B … ]` right-nested list ending in unit (non-empty)
Requests:
  `enc <type> <value tokens>`  → `<hex of encode> <size_static> <size_dynamic>`
  `dec <type> <hex>`           → `ok <bytes consumed> <value tokens>` | `err <Error variant>`
`<type>` is a name of `TxDesc.registry` or `tx` (the `Transaction` enum).
-/
import FuelVerif.Model.TxDesc
namespace FuelVerif.Canonical.Text
open FuelVerif FuelVerif.Canonical

/-- tokens of a value; proper non-empty lists use the bracket form -/
partial def toTokens : Val → List String
  | .int n => [s!"i{n}"]
  | .bytes bs => ["b" ++ toHex bs]
  | .cap n => [s!"c{n}"]
  | .unit => ["u"]
  | .inl v => "l" :: toTokens v
  | .inr v => "r" :: toTokens v
  | .pair a b =>
    if (Val.pair a b).isList then
      ["["] ++ (Val.pair a b).elems.flatMap toTokens ++ ["]"]
    else "p" :: (toTokens a ++ toTokens b)

def render (v : Val) : String := " ".intercalate (toTokens v)

mutual
/-- parse one value from the front of the token list (`fuel` ≥ number of tokens) -/
def parse : Nat → List String → Option (Val × List String)
  | 0, _ => none
  | _ + 1, [] => none
  | fuel + 1, t :: ts =>
    if t == "u" then some (.unit, ts)
    else if t == "p" then
      match parse fuel ts with
      | some (a, r) =>
        match parse fuel r with
        | some (b, r') => some (.pair a b, r')
        | none => none
      | none => none
    else if t == "l" then (parse fuel ts).map (fun p => (.inl p.1, p.2))
    else if t == "r" then (parse fuel ts).map (fun p => (.inr p.1, p.2))
    else if t == "[" then parseList fuel ts
    else
      match t.toList with
      | 'i' :: ds => (String.ofList ds).toNat?.map (fun n => (.int n, ts))
      | 'c' :: ds => (String.ofList ds).toNat?.map (fun n => (.cap n, ts))
      | 'b' :: hs => (ofHex (String.ofList hs)).map (fun bs => (.bytes bs, ts))
      | _ => none
def parseList : Nat → List String → Option (Val × List String)
  | 0, _ => none
  | _ + 1, [] => none
  | fuel + 1, t :: ts =>
    if t == "]" then some (.unit, ts)
    else
      match parse fuel (t :: ts) with
      | some (a, r) =>
        match parseList fuel r with
        | some (rest, r') => some (.pair a rest, r')
        | none => none
      | none => none
end

def parseAll (ts : List String) : Option Val :=
  match parse (2 * ts.length + 2) ts with
  | some (v, []) => some v
  | _ => none

def handle : List String → String
  | "enc" :: ty :: ts =>
    match parseAll ts with
    | none => "bad-value"
    | some v =>
      if ty == "tx" then s!"{toHex (TxDesc.txEncode v)} {TxDesc.txSizeS v} {TxDesc.txSizeD v}"
      else
        match TxDesc.registry.lookup ty with
        | none => "bad-type"
        | some d => s!"{toHex (encode TxDesc.env d v)} {sizeS TxDesc.env d v} {sizeD TxDesc.env d v}"
  | ["dec", ty, hex] =>
    match ofHex hex with
    | none => "bad-hex"
    | some bs =>
      let res :=
        if ty == "tx" then some (TxDesc.txDecode bs)
        else (TxDesc.registry.lookup ty).map (fun d => decode TxDesc.env d bs)
      match res with
      | none => "bad-type"
      | some (.error e) => s!"err {e.name}"
      | some (.ok (v, rest)) => s!"ok {bs.length - rest.length} {render v}"
  | _ => "bad-op"

end FuelVerif.Canonical.Text
