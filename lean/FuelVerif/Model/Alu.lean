/-
C21 model: the register ALU of fuel-vm, transcribed function by function from
  fuel-vm/src/interpreter/alu.rs            (alu_capture_overflow, alu_boolean_overflow, alu_error, alu_set, alu_clear, exp)
  fuel-vm/src/interpreter/alu/muldiv.rs     (alu_muldiv, muldiv)
  fuel-vm/src/interpreter/alu/narrowint.rs  (alu_narrowint_op, split_overflow, truncate)
  fuel-asm/src/args/narrowint.rs            (MathArgs::from_imm; tables from Gen/AluArgs)
  fuel-vm/src/interpreter/executors/instruction.rs (checked_nth_root)
  fuel-vm/src/interpreter/executors/opcodes_impl.rs (operand wiring of the 33 ALU opcodes)
Gas charging (the first statement of every `execute`) is outside this model: the property excludes the
gas registers; the correspondence presets enough gas.
-/
import FuelVerif.Model.AluBase
import FuelVerif.Model.Instr
namespace FuelVerif.Alu
open FuelVerif.Gen.AluArgs

/-! ### std integer functions used by the ALU (specified, executable) -/

/-- `u64::checked_pow(b, e)`: `Some(b^e)` iff it fits 64 bits. Executable without building huge powers
(`e` can be `2^32-1`): for `b ≥ 2`, `e ≥ 64` the power never fits. -/
def checkedPow (b e : Nat) : Option Nat :=
  if b < 2 then some (if e = 0 then 1 else b)
  else if 64 ≤ e then none
  else if b ^ e < 2 ^ 64 then some (b ^ e) else none

/-- `u64::overflowing_pow(b, e)` as observed by its callers: `(b^e, false)` if it fits, else `(_, true)`.
Every caller (`alu_boolean_overflow`) discards the wrapped value when the overflow flag is set
(`*dest = if overflow { 0 } else { result }`), so the wrapped value is represented by 0. -/
def overflowingPow (b e : Nat) : Nat × Bool :=
  match checkedPow b e with
  | some v => (v, false)
  | none => (0, true)

/-- loop of `u64::checked_ilog` (`n = 0; r = a; while r >= b { r /= b; n += 1 }`), fuel = 64 suffices for `a < 2^64`, `b ≥ 2` -/
def ilogAux (b : Nat) : Nat → Nat → Nat
  | 0, _ => 0
  | fuel + 1, r => if r < b then 0 else 1 + ilogAux b fuel (r / b)

/-- `u64::checked_ilog(a, b)`: `None` if `a == 0` or `b < 2` -/
def checkedIlog (a b : Nat) : Option Nat :=
  if a = 0 ∨ b < 2 then none else some (ilogAux b 64 a)

/-- greatest `r < 2^bits` with `r^n ≤ target`, built bit by bit from the top (the exact integer root;
stands in for the floating-point seed `powf(target, 1/n) as u64` of `checked_nth_root`) -/
def irootBits (target n : Nat) : Nat → Nat → Nat
  | 0, r => r
  | bit + 1, r => if (r + 2 ^ bit) ^ n ≤ target then irootBits target n bit (r + 2 ^ bit) else irootBits target n bit r

def iroot (target n : Nat) : Nat := irootBits target n 64 0

/-- `is_nth_power_below_target` closure of `checked_nth_root`:
`match v.checked_pow(n) { Some(pow) => target < pow, None => true }` -/
def nthPowerBelowTarget (target n v : Nat) : Bool :=
  match checkedPow v n with
  | some pow => target < pow
  | none => true

/-- `checked_nth_root(target, nth_root)`, parametric in the floating-point seed `guess`
(`powf(target as f64, 1/n) as u64`, third-party behaviour: assumed within ±1 of the true root, see
`GuessOk` in Props/C21). `none` = `None` (zeroth root). The `expect` on `guess.checked_add(1)` is
represented by `guess + 1` (proved `< 2^64` under `GuessOk`). -/
def checkedNthRoot (guess : Nat → Nat → Nat) (target nthRoot : Nat) : Option Nat :=
  if nthRoot = 0 then none
  else if nthRoot = 1 ∨ target ≤ 1 then some target
  else if nthRoot ≥ target ∨ nthRoot > 64 then some 1
  else
    let g := guess target nthRoot
    if nthPowerBelowTarget target nthRoot g then some (g - 1)      -- guess.saturating_sub(1)
    else if nthPowerBelowTarget target nthRoot (g + 1) then some g
    else some (g + 1)

/-! ### alu.rs helpers -/

/-- `alu_capture_overflow` with `result = f(b, c).0 : u128` already computed -/
def aluCaptureOverflow (r : Regs) (ra : Nat) (result : Nat) : Out :=
  match writeRegKey ra with
  | .error p => (r, some p)
  | .ok k =>
    if result > u64Max ∧ ¬ isWrapping (r regFLAG) then (r, some .ArithmeticOverflow)
    else
      let r := r.set regOF ((result / 2 ^ 64) % 2 ^ 64)   -- (result >> 64) as u64
      let r := r.set regERR 0
      let r := r.set k (result % 2 ^ 64)                   -- result & u64::MAX
      (incPc r, none)

/-- `alu_boolean_overflow` with `(result, overflow) = f(b, c)` -/
def aluBooleanOverflow (r : Regs) (ra : Nat) (res : Nat × Bool) : Out :=
  match writeRegKey ra with
  | .error p => (r, some p)
  | .ok k =>
    if res.2 ∧ ¬ isWrapping (r regFLAG) then (r, some .ArithmeticOverflow)
    else
      let r := r.set regOF (if res.2 then 1 else 0)
      let r := r.set regERR 0
      let r := r.set k (if res.2 then 0 else res.1)
      (incPc r, none)

/-- `alu_error`; `f` is the (lazily evaluated) `f(b, c)`, `none` = its `expect` would fire -/
def aluError (r : Regs) (ra : Nat) (f : Option Nat) (errBool : Bool) : Out :=
  match writeRegKey ra with
  | .error p => (r, some p)
  | .ok k =>
    if errBool ∧ ¬ isUnsafeMath (r regFLAG) then (r, some .ArithmeticError)
    else
      let r := r.set regOF 0
      let r := r.set regERR (if errBool then 1 else 0)
      if errBool then (incPc (r.set k 0), none)
      else match f with
        | some v => (incPc (r.set k v), none)
        | none => (r, some .HostPanic)

/-- `alu_set` -/
def aluSet (r : Regs) (ra : Nat) (b : Nat) : Out :=
  match writeRegKey ra with
  | .error p => (r, some p)
  | .ok k =>
    let r := r.set regOF 0
    let r := r.set regERR 0
    let r := r.set k b
    (incPc r, none)

/-- `alu_clear` -/
def aluClear (r : Regs) : Out :=
  let r := r.set regOF 0
  let r := r.set regERR 0
  (incPc r, none)

/-- `alu::exp(b, c)` -/
def expFn (b c : Nat) : Nat × Bool :=
  if c < 2 ^ 32 then overflowingPow b c     -- u32::try_from(c)
  else if b < 2 then (b, false)
  else (0, true)

/-! ### muldiv.rs -/

/-- `muldiv(lhs, rhs, divider) -> (result, overflow)` -/
def muldiv (lhs rhs divider : Nat) : Nat × Nat :=
  let intermediate := lhs * rhs            -- u128, cannot overflow
  if divider ≠ 0 then                      -- checked_div
    let result := intermediate / divider
    (result % 2 ^ 64, (result / 2 ^ 64) % 2 ^ 64)
  else ((intermediate / 2 ^ 64) % 2 ^ 64, 0)

/-- `alu_muldiv` -/
def aluMuldiv (r : Regs) (ra lhs rhs divider : Nat) : Out :=
  match writeRegKey ra with
  | .error p => (r, some p)
  | .ok k =>
    let (result, overflow) := muldiv lhs rhs divider
    if overflow ≠ 0 ∧ ¬ isWrapping (r regFLAG) then (r, some .ArithmeticOverflow)
    else
      let r := r.set regOF overflow
      let r := r.set regERR 0
      let r := r.set k result
      (incPc r, none)

/-! ### narrowint -/

inductive NarrowOp | add | sub | mul | exp | sll | xnor
  deriving DecidableEq, Repr
inductive Width | u8 | u16 | u32
  deriving DecidableEq, Repr

def Width.bits : Width → Nat
  | .u8 => 8 | .u16 => 16 | .u32 => 32

/-- `strum::FromRepr` of `narrowint::MathOp`, through the generated discriminant table -/
def narrowOpFromRepr (n : Nat) : Option NarrowOp :=
  match narrowMathOps.find? (fun p => p.1 == n) with
  | some (_, "ADD") => some .add
  | some (_, "SUB") => some .sub
  | some (_, "MUL") => some .mul
  | some (_, "EXP") => some .exp
  | some (_, "SLL") => some .sll
  | some (_, "XNOR") => some .xnor
  | _ => none

def widthFromRepr (n : Nat) : Option Width :=
  match narrowOpWidths.find? (fun p => p.1 == n) with
  | some (_, "U8") => some .u8
  | some (_, "U16") => some .u16
  | some (_, "U32") => some .u32
  | _ => none

/-- `narrowint::MathArgs::from_imm` -/
def narrowFromImm (bits : Nat) : Option (NarrowOp × Width) :=
  match narrowOpFromRepr (bits &&& narrowOpMask) with
  | none => none
  | some op =>
    match widthFromRepr ((bits >>> narrowWidthShift) &&& narrowWidthMask) with
    | none => none
    | some w => some (op, w)

/-- `split_overflow(value, width)`: `(value & MAX_w, value >> bits_w)` -/
def splitOverflow (value : Nat) (w : Width) : Nat × Nat := (value % 2 ^ w.bits, value / 2 ^ w.bits)

/-- `truncate(value, width)` -/
def truncate (value : Nat) (w : Width) : Nat := (splitOverflow value w).1

/-- the `match args.op` of `alu_narrowint_op` on the already truncated operands: `(wrapped, overflow)` -/
def narrowCompute (op : NarrowOp) (w : Width) (lhs rhs : Nat) : Nat × Nat :=
  let rhsU32 := rhs % 2 ^ 32
  match op with
  | .add => splitOverflow (lhs + rhs) w
  | .sub =>
    -- lhs.overflowing_sub(rhs) on u64
    let wrapped := (lhs + 2 ^ 64 - rhs) % 2 ^ 64
    (truncate wrapped w, if lhs < rhs then u64Max else 0)
  | .mul => splitOverflow (lhs * rhs) w
  | .exp =>
    match checkedPow lhs rhsU32 with
    | some v =>
      let (wrapped, overflow) := splitOverflow v w
      if overflow ≠ 0 then (0, 1) else (wrapped, 0)
    | none => (0, 1)
  | .sll =>
    -- lhs.checked_shl(rhs_u32).unwrap_or(0)
    (truncate (if rhsU32 < 64 then (lhs <<< rhsU32) % 2 ^ 64 else 0) w, 0)
  | .xnor => (truncate (lhs ^^^ (u64Max - rhs)) w, 0)

/-- `alu_narrowint_op` -/
def aluNarrowintOp (r : Regs) (dst lhs rhs : Nat) (op : NarrowOp) (w : Width) : Out :=
  match writeRegKey dst with
  | .error p => (r, some p)
  | .ok k =>
    let lhs := truncate lhs w
    let rhs := truncate rhs w
    let (wrapped, overflow) := narrowCompute op w lhs rhs
    if overflow ≠ 0 ∧ ¬ isWrapping (r regFLAG) then (r, some .ArithmeticOverflow)
    else
      let r := r.set k wrapped
      let r := r.set regOF overflow
      let r := r.set regERR 0
      (incPc r, none)

/-! ### opcodes_impl.rs: the 33 register-ALU instructions -/

inductive AluOp
  | ADD | ADDI | AND | ANDI | DIV | DIVI | EQ | EXP | EXPI | GT | LT | MLOG | MOD | MODI | MOVE | MOVI
  | MROO | MUL | MULI | MLDV | NIOP | NOOP | NOT | OR | ORI | SLL | SLLI | SRL | SRLI | SUB | SUBI | XOR | XORI
  deriving DecidableEq, Repr

def AluOp.ofName : String → Option AluOp
  | "ADD" => some .ADD | "ADDI" => some .ADDI | "AND" => some .AND | "ANDI" => some .ANDI
  | "DIV" => some .DIV | "DIVI" => some .DIVI | "EQ" => some .EQ | "EXP" => some .EXP | "EXPI" => some .EXPI
  | "GT" => some .GT | "LT" => some .LT | "MLOG" => some .MLOG | "MOD" => some .MOD | "MODI" => some .MODI
  | "MOVE" => some .MOVE | "MOVI" => some .MOVI | "MROO" => some .MROO | "MUL" => some .MUL | "MULI" => some .MULI
  | "MLDV" => some .MLDV | "NIOP" => some .NIOP | "NOOP" => some .NOOP | "NOT" => some .NOT | "OR" => some .OR
  | "ORI" => some .ORI | "SLL" => some .SLL | "SLLI" => some .SLLI | "SRL" => some .SRL | "SRLI" => some .SRLI
  | "SUB" => some .SUB | "SUBI" => some .SUBI | "XOR" => some .XOR | "XORI" => some .XORI
  | _ => none

/-- the argument shape each ALU opcode has in `impl_instructions!` (checked against the generated table in Props/C21) -/
def AluOp.shape : AluOp → List Instr.ArgKind
  | .ADD | .AND | .DIV | .EQ | .EXP | .GT | .LT | .MLOG | .MOD | .MROO | .MUL | .OR | .SLL | .SRL | .SUB | .XOR => [.reg, .reg, .reg]
  | .ADDI | .ANDI | .DIVI | .EXPI | .MODI | .MULI | .ORI | .SLLI | .SRLI | .SUBI | .XORI => [.reg, .reg, .imm12]
  | .MOVE | .NOT => [.reg, .reg]
  | .MOVI => [.reg, .imm18]
  | .MLDV => [.reg, .reg, .reg, .reg]
  | .NIOP => [.reg, .reg, .reg, .imm06]
  | .NOOP => []

/-- `u128::overflowing_add(b, c).0` -/
def u128Add (b c : Nat) : Nat := (b + c) % 2 ^ 128
/-- `u128::overflowing_sub(b, c).0` -/
def u128Sub (b c : Nat) : Nat := (b + 2 ^ 128 - c) % 2 ^ 128
/-- `u128::overflowing_mul(b, c).0` -/
def u128Mul (b c : Nat) : Nat := (b * c) % 2 ^ 128

/-- `Word::div` (the `/` operator: a zero divisor is a Rust panic, `none` here) -/
def wordDiv (b c : Nat) : Option Nat := if c = 0 then none else some (b / c)
/-- `Word::wrapping_rem` (zero divisor panics) -/
def wordRem (b c : Nat) : Option Nat := if c = 0 then none else some (b % c)

def boolWord (b : Bool) : Nat := if b then 1 else 0

/-- `if let Ok(c) = c.try_into() { Word::checked_shl(b, c).unwrap_or_default() } else { 0 }` -/
def shlWord (b c : Nat) : Nat := if c < 2 ^ 32 then (if c < 64 then (b <<< c) % 2 ^ 64 else 0) else 0
/-- same with `checked_shr` -/
def shrWord (b c : Nat) : Nat := if c < 2 ^ 32 then (if c < 64 then b >>> c else 0) else 0

/-- one ALU instruction (`impl Execute for op::X`, after the gas charge) on decoded arguments `args`
(register ids / immediates in declaration order); `guess` is the floating-point seed used by MROO. -/
def execAlu (guess : Nat → Nat → Nat) (op : AluOp) (args : List Nat) (r : Regs) : Out :=
  match op, args with
  | .ADD, [a, b, c] => aluCaptureOverflow r a (u128Add (r b) (r c))
  | .ADDI, [a, b, imm] => aluCaptureOverflow r a (u128Add (r b) imm)
  | .AND, [a, b, c] => aluSet r a (r b &&& r c)
  | .ANDI, [a, b, imm] => aluSet r a (r b &&& imm)
  | .DIV, [a, b, c] => aluError r a (wordDiv (r b) (r c)) (r c == 0)
  | .DIVI, [a, b, imm] => aluError r a (wordDiv (r b) imm) (imm == 0)
  | .EQ, [a, b, c] => aluSet r a (boolWord (r b == r c))
  | .EXP, [a, b, c] => aluBooleanOverflow r a (expFn (r b) (r c))
  | .EXPI, [a, b, imm] => aluBooleanOverflow r a (overflowingPow (r b) imm)
  | .GT, [a, b, c] => aluSet r a (boolWord (decide (r b > r c)))
  | .LT, [a, b, c] => aluSet r a (boolWord (decide (r b < r c)))
  | .MLOG, [a, b, c] => aluError r a (checkedIlog (r b) (r c)) (r b == 0 || decide (r c ≤ 1))
  | .MOD, [a, b, c] => aluError r a (wordRem (r b) (r c)) (r c == 0)
  | .MODI, [a, b, imm] => aluError r a (wordRem (r b) imm) (imm == 0)
  | .MOVE, [a, b] => aluSet r a (r b)
  | .MOVI, [a, imm] => aluSet r a imm
  | .MROO, [a, b, c] => aluError r a (checkedNthRoot guess (r b) (r c)) (r c == 0)
  | .MUL, [a, b, c] => aluCaptureOverflow r a (u128Mul (r b) (r c))
  | .MULI, [a, b, imm] => aluCaptureOverflow r a (u128Mul (r b) imm)
  | .MLDV, [a, b, c, d] => aluMuldiv r a (r b) (r c) (r d)
  | .NIOP, [a, b, c, imm] =>
    match narrowFromImm imm with
    | none => (r, some .InvalidImmediateValue)
    | some (op, w) => aluNarrowintOp r a (r b) (r c) op w
  | .NOOP, [] => aluClear r
  | .NOT, [a, b] => aluSet r a (u64Max - r b)
  | .OR, [a, b, c] => aluSet r a (r b ||| r c)
  | .ORI, [a, b, imm] => aluSet r a (r b ||| imm)
  | .SLL, [a, b, c] => aluSet r a (shlWord (r b) (r c))
  | .SLLI, [a, b, imm] => aluSet r a (shlWord (r b) imm)
  | .SRL, [a, b, c] => aluSet r a (shrWord (r b) (r c))
  | .SRLI, [a, b, imm] => aluSet r a (shrWord (r b) imm)
  | .SUB, [a, b, c] => aluCaptureOverflow r a (u128Sub (r b) (r c))
  | .SUBI, [a, b, imm] => aluCaptureOverflow r a (u128Sub (r b) imm)
  | .XOR, [a, b, c] => aluSet r a (r b ^^^ r c)
  | .XORI, [a, b, imm] => aluSet r a (r b ^^^ imm)
  | _, _ => (r, some .HostPanic)   -- argument list does not match the opcode's shape (excluded by the table check)

/-- `instruction_inner` restricted to the ALU opcodes: `Opcode::try_from(raw[0])`, `from_raw_args`
(both failures are `InvalidInstruction`; the decoder is the C08 model over the generated table), then
`execute`. `none` = the opcode is not one of the 33 ALU instructions. -/
def stepAlu (guess : Nat → Nat → Nat) (w : Nat) (r : Regs) : Option Out :=
  match Instr.decode w with
  | none => some (r, some .InvalidInstruction)
  | some i =>
    match Instr.lookup i.op with
    | none => some (r, some .InvalidInstruction)
    | some row =>
      match AluOp.ofName row.name with
      | some op => some (execAlu guess op i.args r)
      | none => none

end FuelVerif.Alu
