/-
C06 model, part 5: the JSON (human readable) side of the hand-written `Policies` serde —
`StructVisitor::visit_map` fed by serde_json, at the level of "object = fields in document order":

* `PoliciesBits` is written by bitflags' serde support as TEXT (`bitflags::parser::to_writer`):
  the names of the set flags in declaration order joined by " | ", then `0x<hex>` of the bits that belong
  to no flag; and read back by `bitflags::parser::from_str` (split on '|', trim, `0x` prefix = hex via
  `u32::from_str_radix(_, 16)`, otherwise an exact flag name; the union of all parts);
* `values` is a JSON array of numbers: `[Word; 4]` (exactly four) in the legacy layout, `Vec<Word>` else;
* field order, duplicates, missing fields as in `visit_map` (`deMapAux` in Model/PoliciesSerde.lean; here the
  same loop over JSON values).

NOT modelled: serde_json's text layer (tokens, escapes, number syntax): a `JVal` is what the parser hands to
the visitor. Whitespace for `trim` is ASCII whitespace (Rust trims Unicode White_Space).
-/
import FuelVerif.Model.PoliciesSerde
namespace FuelVerif.PoliciesJson
open FuelVerif.Serde FuelVerif.PoliciesSerde FuelVerif.Gen.Policies

/-- an element of a JSON array as the `u64` visitor sees it: a non-negative integer literal, or anything else
(negative, fractional, string, null, ...) -/
inductive JElem | num (n : Nat) | other
  deriving DecidableEq, Repr

inductive JVal
  | str (cs : List Char)
  | num (n : Nat)
  | arr (xs : List JElem)
  | other
  deriving DecidableEq, Repr

/-! ### bitflags text format -/

/-- `iter_names()`: names of the set flags in declaration order -/
def namesOf (bits : Nat) : List (String × Nat × Nat) → List (List Char)
  | [] => []
  | (n, b, _) :: fs => if bits.testBit b then n.toList :: namesOf bits fs else namesOf bits fs

/-- `iter.remaining().bits()`: the bits that belong to no flag -/
def remainingBits (bits : Nat) : Nat := bits - (bits &&& allMask)

def joinBar : List (List Char) → List Char
  | [] => []
  | [x] => x
  | x :: y :: r => x ++ [' ', '|', ' '] ++ joinBar (y :: r)

/-- `bitflags::parser::to_writer` (`{:x}` = lowercase hex without leading zeros) -/
def bitsToChars (bits : Nat) : List Char :=
  let r := remainingBits bits
  joinBar (namesOf bits flags ++ (if r = 0 then [] else [['0', 'x'] ++ Nat.toDigits 16 r]))

def isWs (c : Char) : Bool := c = ' ' || c = '\t' || c = '\n' || c = '\r' || c.toNat = 11 || c.toNat = 12

def dropWs : List Char → List Char
  | [] => []
  | c :: cs => if isWs c then dropWs cs else c :: cs

/-- `str::trim` -/
def trim (cs : List Char) : List Char := (dropWs (dropWs cs).reverse).reverse

/-- `input.split('|')` -/
def splitBar : List Char → List (List Char)
  | [] => [[]]
  | c :: cs =>
    if c = '|' then [] :: splitBar cs
    else match splitBar cs with
      | [] => [[c]]
      | h :: t => (c :: h) :: t

def hexDigitVal (c : Char) : Option Nat :=
  if '0' ≤ c ∧ c ≤ '9' then some (c.toNat - 48)
  else if 'a' ≤ c ∧ c ≤ 'f' then some (c.toNat - 87)
  else if 'A' ≤ c ∧ c ≤ 'F' then some (c.toNat - 55)
  else none

def hexDigits : List Char → Nat → Option Nat
  | [], acc => some acc
  | c :: cs, acc => match hexDigitVal c with
    | some d => hexDigits cs (acc * 16 + d)
    | none => none

/-- `u32::from_str_radix(s, 16)`: optional leading `+`, at least one digit, no overflow -/
def parseHexU32 (cs : List Char) : Option Nat :=
  let ds := match cs with | '+' :: r => r | _ => cs
  if ds.isEmpty then none
  else match hexDigits ds 0 with
    | some n => if n < 2 ^ 32 then some n else none
    | none => none

/-- `B::from_name` -/
def flagByName (name : List Char) : List (String × Nat × Nat) → Option Nat
  | [] => none
  | (n, b, _) :: fs => if n.toList = name then some (2 ^ b) else flagByName name fs

def parseFlag (cs : List Char) : Option Nat :=
  match cs with
  | '0' :: 'x' :: r => parseHexU32 r
  | _ => flagByName cs flags

def parseFlags : List (List Char) → Nat → Option Nat
  | [], acc => some acc
  | f :: fs, acc =>
    let f := trim f
    if f.isEmpty then none
    else match parseFlag f with
      | some b => parseFlags fs (acc ||| b)
      | none => none

/-- `bitflags::parser::from_str` -/
def charsToBits (cs : List Char) : Option Nat :=
  if (trim cs).isEmpty then some 0 else parseFlags (splitBar cs) 0

/-! ### the object -/

def numsOf : List JElem → Option (List Nat)
  | [] => some []
  | .num n :: r => if n < 2 ^ 64 then (numsOf r).map (n :: ·) else none
  | .other :: _ => none

/-- `map.next_value::<[Word; 4]>()` / `map.next_value::<Vec<Word>>()` on a JSON value, then the shared loop -/
def decodeValuesJson (mask bits : Nat) (v : JVal) : Except Err (List Nat) :=
  match v with
  | .arr xs =>
    match numsOf xs with
    | some vs =>
      decodeValues mask bits (if isLegacy mask bits then .tuple (vs.map .u64) else .seq (vs.map .u64)) .wrongType
    | none => .error .wrongType
  | _ => .error .wrongType

/-- `StructVisitor::visit_map` over JSON values -/
def deJsonAux : List (String × JVal) → MapState → Except Err MapState
  | [], st => .ok st
  | (k, v) :: rest, st =>
    if k = "bits" then
      match st.bits, v with
      | some _, _ => .error .duplicateBits
      | none, .str cs =>
        match charsToBits cs with
        | some b => deJsonAux rest { st with bits := some b }
        | none => .error .wrongType
      | none, _ => .error .wrongType
    else if k = "values" then
      match st.values, st.bits with
      | some _, _ => .error .duplicateValues
      | none, none => .error .bitsBeforeValues
      | none, some b =>
        match decodeValuesJson legacyMaskMap b v with
        | .ok vals => deJsonAux rest { st with values := some vals }
        | .error e => .error e
    else deJsonAux rest st

/-- `serde_json::from_str::<Policies>` after parsing -/
def deJson (fields : List (String × JVal)) : Except Err Policies :=
  match deJsonAux fields {} with
  | .error e => .error e
  | .ok st =>
    match st.bits, st.values with
    | none, _ => .error .missingBits
    | some _, none => .error .missingValues
    | some b, some v => .ok ⟨b, v⟩

/-- `serde_json::to_string(&policies)` before rendering: `impl Serialize for Policies` with a human-readable
serializer -/
def serJson (p : Policies) : List (String × JVal) :=
  [("bits", .str (bitsToChars p.bits)),
   ("values", .arr ((if isLegacy legacyMaskSer p.bits then p.values.take 4 else gather p.bits p.values flagBits).map .num))]

end FuelVerif.PoliciesJson
