/-
The abstract specification C23 refines to: a flat byte array with a stack extent `sl` and a heap pointer
`hp` (`Flat`), its operations, and the declarative ownership predicate (`Ownership.owns`, C24).
Nothing here mentions the two vectors, the over-allocation or the heap offset of `MemoryInstance`.
Not used by the driver (specification only); imports the model for `Err`, `Ownership`, `slice`, `putAt`.
-/
import FuelVerif.Model.Memory
namespace FuelVerif.Memory

/-- flat memory: all `M` bytes, the highest stack extent not yet overtaken by the heap, the heap pointer -/
structure Flat where
  bytes : Nat → UInt8
  sl : Nat
  hp : Nat

/-- the two ranges `[ds,de)` and `[ss,se)` share a byte -/
def shareByte (ds de ss se : Nat) : Prop := ∃ x, ds ≤ x ∧ x < de ∧ ss ≤ x ∧ x < se

section
variable (M : Nat)

/-- C24: the range `[s,e)` (`s ≤ e`) is owned by the frame with registers `o`:
non-empty ranges lie inside the stack region `[ssp,sp)` or inside the heap region `[hp,prevHp)` of a frame
that has one (`hp ≠ prevHp`); an empty range is owned iff its address is `ssp`, lies in `[ssp,sp)`, is `hp`, or
lies in `[hp,prevHp]` of a frame with a heap region. -/
def Ownership.owns (o : Ownership) (s e : Nat) : Prop :=
  (s < e ∧ ((o.ssp ≤ s ∧ e ≤ o.sp ∧ e ≤ M) ∨ (o.hp ≤ s ∧ e ≤ o.prevHp ∧ o.hp ≠ o.prevHp)))
  ∨ (s = e ∧ (s = o.ssp ∨ (o.ssp ≤ s ∧ s < o.sp ∧ s ≤ M) ∨ s = o.hp ∨ (o.hp ≤ s ∧ s ≤ o.prevHp ∧ o.hp ≠ o.prevHp)))

instance (o : Ownership) (s e : Nat) : Decidable (o.owns M s e) := by unfold Ownership.owns; infer_instance

/-- zero-initialised, nothing allocated -/
def Flat.init : Flat := { bytes := fun _ => 0, sl := 0, hp := M }

/-- a range is accessible exactly when it lies entirely below the stack extent or entirely at/above `hp` -/
def Flat.accessible (f : Flat) (a b : Nat) : Prop := b ≤ M ∧ (b ≤ f.sl ∨ f.hp ≤ a)

instance (f : Flat) (a b : Nat) : Decidable (f.accessible M a b) := by unfold Flat.accessible; infer_instance

/-- reuse of the instance: nothing is allocated any more (contents irrelevant: growth zeroes) -/
def Flat.reset (f : Flat) : Flat := { f with sl := 0, hp := M }

/-- stack growth: the extent only ever rises, must not pass `hp`; the new bytes `[sl,n)` read zero -/
def Flat.growStack (f : Flat) (n : Nat) : Except Err Flat :=
  if n > M then .error .MemoryOverflow
  else if n ≤ f.sl then .ok f
  else if n > f.hp then .error .MemoryGrowthOverlap
  else .ok { f with sl := n, bytes := fun a => if f.sl ≤ a ∧ a < n then 0 else f.bytes a }

/-- heap allocation of `amount` bytes below `hp` (not below the stack pointer register `spReg`); the new bytes
`[hp-amount, hp)` read zero; a stack extent above the new `hp` is overtaken (cut down to it) -/
def Flat.growHeap (f : Flat) (spReg amount : Nat) : Except Err Flat :=
  if f.hp < amount then .error .MemoryOverflow
  else if f.hp - amount < spReg then .error .MemoryGrowthOverlap
  else .ok { hp := f.hp - amount, sl := min f.sl (f.hp - amount),
             bytes := fun a => if f.hp - amount ≤ a ∧ a < f.hp then 0 else f.bytes a }

def Flat.verify (f : Flat) (a c : Nat) : Except Err (Nat × Nat) :=
  if a > M ∨ c > M ∨ a + c > M then .error .MemoryOverflow
  else if f.accessible M a (a + c) then .ok (a, a + c)
  else .error .UninitalizedMemoryAccess

def Flat.read (f : Flat) (a c : Nat) : Except Err Bytes :=
  match f.verify M a c with
  | .error e => .error e
  | .ok (s, e) => .ok (slice f.bytes s e)

def Flat.write (f : Flat) (a len : Nat) (vals : Nat → UInt8) : Except Err Flat :=
  match f.verify M a len with
  | .error e => .error e
  | .ok (s, e) => .ok { f with bytes := putAt f.bytes s (e - s) vals }

/-- owner-checked write -/
def Flat.writeOwned (f : Flat) (o : Ownership) (a len : Nat) (vals : Nat → UInt8) : Except Err Flat :=
  match f.verify M a len with
  | .error e => .error e
  | .ok (s, e) => if o.owns M s e then .ok { f with bytes := putAt f.bytes s (e - s) vals } else .error .MemoryOwnership

/-- copy `len` bytes: both ranges accessible, refused when they share a byte, destination owned -/
def Flat.memcopy (f : Flat) (dst src len : Nat) (o : Ownership) : Except Err Flat :=
  match f.verify M dst len with
  | .error e => .error e
  | .ok (ds, de) =>
    match f.verify M src len with
    | .error e => .error e
    | .ok (ss, se) =>
      if ds < se ∧ ss < de ∧ 0 < len then .error .MemoryWriteOverlap
      else if o.owns M ds de then
        .ok { f with bytes := fun a => if ds ≤ a ∧ a < de then f.bytes (ss + (a - ds)) else f.bytes a }
      else .error .MemoryOwnership

/-- same extents and same accessible contents -/
def Flat.sameAccessible (f g : Flat) : Prop :=
  f.sl = g.sl ∧ f.hp = g.hp ∧ (∀ a, a < f.sl → f.bytes a = g.bytes a) ∧ (∀ a, a < M → f.hp ≤ a → f.bytes a = g.bytes a)

instance (f g : Flat) : Decidable (f.sameAccessible M g) := by unfold Flat.sameAccessible; infer_instance

/-- state of an abstract history: the flat memory and the snapshots taken so far -/
structure AState where
  cur : Flat
  snaps : List Flat

def AState.init : AState := { cur := Flat.init M, snaps := [] }

/-- The specification of one history step. Rolling back to snapshot `k` makes the memory that snapshot again
(and drops the snapshots taken after it, which are no longer ancestors). The two refusals of the implementation
are part of this specification so that it can be stated for ALL histories: a snapshot whose heap pointer is
below the current one (documented: "We only allow shrinking of the heap during rollback"), and — only while the
code has the shape flagged by `Gen.rollbackSlicesCurrentStackToSp` — a snapshot whose stack extent is above the
current one (NOT documented — see `C23.rollback_full_statement_false`). -/
def stepA (s : AState) : Op → AState × Out
  | .reset => ({ s with cur := s.cur.reset M }, .ok)
  | .growStack n =>
    match s.cur.growStack M n with
    | .ok f => ({ s with cur := f }, .ok)
    | .error e => (s, .err e)
  | .growHeap sp a =>
    match s.cur.growHeap sp a with
    | .ok f => ({ s with cur := f }, .hp f.hp)
    | .error e => (s, .err e)
  | .verify a c =>
    match s.cur.verify M a c with
    | .ok (x, y) => (s, .range x y)
    | .error e => (s, .err e)
  | .read a c =>
    match s.cur.read M a c with
    | .ok b => (s, .bytes b)
    | .error e => (s, .err e)
  | .write a data =>
    match s.cur.write M a data.length (fun j => data.getD j 0) with
    | .ok f => ({ s with cur := f }, .ok)
    | .error e => (s, .err e)
  | .memcopy d sr l o =>
    match s.cur.memcopy M d sr l o with
    | .ok f => ({ s with cur := f }, .ok)
    | .error e => (s, .err e)
  | .snapshot => ({ s with snaps := s.snaps ++ [s.cur] }, .ok)
  | .rollback k =>
    match s.snaps[k]? with
    | none => (s, .noSlot)
    | some snap =>
      if s.cur.sameAccessible M snap then (s, .noChange)
      else if snap.hp < s.cur.hp ∨ (Gen.rollbackSlicesCurrentStackToSp = true ∧ snap.sl > s.cur.sl) then (s, .err .RustPanic)
      else ({ cur := snap, snaps := s.snaps.take (k + 1) }, .ok)

def runA : AState → List Op → AState × List Out
  | s, [] => (s, [])
  | s, op :: ops =>
    let (s1, o) := stepA M s op
    let (s2, os) := runA s1 ops
    (s2, o :: os)

end
end FuelVerif.Memory
