/-
C05 — in-VM transaction introspection: `GTF` (fuel-vm/src/interpreter/metadata.rs `GTFInput::get_transaction_field`),
`GM` (`metadata`), and the memory the VM is initialised with (initialization.rs `init_inner`, balances.rs `to_vm`,
fuel-tx `TxParameters::tx_offset`).

The transaction the VM holds is the one `init_inner` builds: `tx.prepare_sign()` (witnesses are KEPT — only `id()`
removes them), placed in memory at `tx_offset` as `tx.to_bytes()`, below it the size word, the balances area, the base
asset id and the transaction id.

The 82-arm match of `get_transaction_field` is factored: `specOf` says, for each selector NAME of the regenerated table
(`Gen/Gtf.lean`, from fuel-asm/src/args.rs), which of a few dozen shapes (`Spec`) the arm has — e.g. "filter coin inputs,
take `InputRepr::owner_offset`, add `inputs_offset_at(b)` and the tx offset" is `inputReprPtr .coin "owner_offset"` — and
`evalSpec` transcribes each shape once. Offsets are the functions of Model/Offsets.lean (C04). `usize::saturating_add` is
`+` (see there). The text of the Rust functions transcribed here is pinned by tools/gen/gtf.py.
-/
import FuelVerif.Model.TxId
import FuelVerif.Gen.Gtf
namespace FuelVerif.Gtf
open FuelVerif FuelVerif.Canonical FuelVerif.Canonical.Resolve FuelVerif.Canonical.TxDesc FuelVerif.Offsets FuelVerif.TxId

/-- `PanicReason`s these instructions can raise -/
inductive Panic
  | inputNotFound | outputNotFound | witnessNotFound | policyIsNotSet | invalidMetadataIdentifier | storageSlotsNotFound
  | proofInUploadNotFound | transactionValidity | expectedInternalContext | expectedNestedCaller
  | canNotGetGasPriceInPredicate | ownerIsUnknown
  deriving DecidableEq, Repr, Inhabited

def Panic.name : Panic → String
  | .inputNotFound => "InputNotFound" | .outputNotFound => "OutputNotFound" | .witnessNotFound => "WitnessNotFound"
  | .policyIsNotSet => "PolicyIsNotSet" | .invalidMetadataIdentifier => "InvalidMetadataIdentifier"
  | .storageSlotsNotFound => "StorageSlotsNotFound" | .proofInUploadNotFound => "ProofInUploadNotFound"
  | .transactionValidity => "TransactionValidity" | .expectedInternalContext => "ExpectedInternalContext"
  | .expectedNestedCaller => "ExpectedNestedCaller" | .canNotGetGasPriceInPredicate => "CanNotGetGasPriceInPredicate"
  | .ownerIsUnknown => "OwnerIsUnknown"

/-! ### accessors of fuel-tx used by the arms (input.rs, output.rs, utxo_id.rs, policies.rs) -/

def _root_.FuelVerif.Offsets.InputKind.isCoin : InputKind → Bool | .coinSigned | .coinPredicate => true | _ => false
def _root_.FuelVerif.Offsets.InputKind.isMessage (k : InputKind) : Bool := InputRepr.fromInput k == .message
def _root_.FuelVerif.Offsets.InputKind.isContract : InputKind → Bool | .contract => true | _ => false
def _root_.FuelVerif.Offsets.InputKind.signed : InputKind → Bool | .coinSigned | .messageCoinSigned | .messageDataSigned => true | _ => false
def _root_.FuelVerif.Offsets.InputKind.predicate : InputKind → Bool | .coinPredicate | .messageCoinPredicate | .messageDataPredicate => true | _ => false

/-- `Input::amount` -/
def inputAmount (k : InputKind) (i : Val) : Option Nat := if k.isContract then none else some (intOf (inputField k "amount" i))
/-- `Input::witness_index` -/
def inputWitnessIndex (k : InputKind) (i : Val) : Option Nat := if k.signed then some (intOf (inputField k "witness_index" i)) else none
/-- `Input::predicate_gas_used` -/
def inputPredicateGasUsed (k : InputKind) (i : Val) : Option Nat := if k.predicate then some (intOf (inputField k "predicate_gas_used" i)) else none
/-- `Input::predicate_data_len` -/
def inputPredicateDataLen (k : InputKind) (i : Val) : Option Nat :=
  if k.predicate then some (bytesOf (inputField k "predicate_data" i)).length else if k.signed then some 0 else none
/-- `Input::input_data_len` -/
def inputDataLen (k : InputKind) (i : Val) : Option Nat :=
  match k with
  | .messageDataSigned | .messageDataPredicate => some (bytesOf (inputField k "data" i)).length
  | .messageCoinSigned | .messageCoinPredicate => some 0
  | _ => none
/-- `Input::utxo_id().map(UtxoId::output_index)` -/
def inputUtxoOutputIndex (k : InputKind) (i : Val) : Option Nat :=
  if k.isCoin || k.isContract then some (intOf (fieldOf "UtxoId" "output_index" (inputField k "utxo_id" i))) else none
/-- `Input::input_owner` as present / absent (the address itself is read from memory) -/
def inputHasOwner (k : InputKind) : Bool := !k.isContract
def inputOwnerBytes (k : InputKind) (i : Val) : Bytes :=
  bytesOf (inputField k (if k.isCoin then "owner" else "recipient") i)

/-- position of field `f` of variant `v` of enum `e` in the regenerated table -/
def enumField (e v f : String) (payload : Val) : Val :=
  match Gen.Canonical.enums.find? (fun r => r.name == e) with
  | some er =>
    match er.variants.find? (fun r => r.name == v) with
    | some vr =>
      match vr.fields.findIdx? (fun r => r.name == f) with
      | some j => (payload.field j).getD .unit
      | none => .unit
    | none => .unit
  | none => .unit

/-- `OutputRepr as Word` -/
def outputDisc : OutputKind → Nat
  | .coin => 0 | .contract => 1 | .change => 2 | .variable => 3 | .contractCreated => 4

/-- `Output::amount` -/
def outputAmount (k : OutputKind) (o : Val) : Option Nat :=
  match k with
  | .coin | .change | .variable => some (intOf (enumField "Output" k.name "amount" (outputPayload o)))
  | _ => none
/-- `Output::input_index` -/
def outputInputIndex (k : OutputKind) (o : Val) : Option Nat :=
  match k with
  | .contract => some (intOf (fieldOf "OutputContract" "input_index" (enumField "Output" k.name "0" (outputPayload o))))
  | _ => none

/-- `Policies::bits()` and `Policies::get(PolicyType::<name>)` on the policy value `[bits, v₀ … v₅]` -/
def policyBits : Val → Nat
  | .pair (.int b) _ => b
  | _ => 0
def policyGet (p : Val) (name : String) : Option Nat :=
  match p with
  | .pair (.int b) vs => Policies.get b vs.elems (Policies.indexOf name)
  | _ => none

/-! ### the VM after `init_script` / `init_predicate` -/

/-- `Context::Script` or `Context::PredicateVerification / PredicateEstimation { program }` with the predicate's input index -/
inductive Context
  | script
  | predicate (idx : Nat)
  deriving DecidableEq, Repr, Inhabited

structure Vm where
  /-- `self.tx`: kind and the prepared value -/
  tx : Tx
  txOffset : Nat
  chainId : Nat
  gasPrice : Nat
  context : Context
  ownerPtr : Option Nat
  /-- `input_contracts_index_to_output_index` (a `BTreeMap<u16, u16>`: a later output wins) -/
  contractOutputIndex : List (Nat × Nat)
  /-- the initialised stack: id, base asset id, balances area, size word, transaction bytes -/
  mem : Bytes
  deriving Repr, Inhabited

/-- `prepare_sign()` as `init_inner` calls it: the id mask with the witnesses kept -/
def vmMask (k : Kind) : Mask :=
  match chargeableMask k with
  | .pair b (.pair p (.pair i (.pair o (.pair _ r)))) => .pair b (.pair p (.pair i (.pair o (.pair .keep r))))
  | m => m

/-- `TxParameters::tx_offset`: balances area + tx id + size word + base asset id -/
def txOffsetOf (maxInputs : Nat) : Nat := satAdd (maxInputs * (Gen.Offsets.AssetId_LEN + Gen.Offsets.WORD_SIZE))
  (Gen.Offsets.Bytes32_LEN + Gen.Offsets.WORD_SIZE + Gen.Offsets.AssetId_LEN)

/-- `RuntimeError::Bug(..)` raised by `init_inner` for an owner policy that does not name an input with an owner -/
inductive InitError | ownerIndexOutOfBounds | ownerInputHasNoOwner (index : Nat)
  deriving DecidableEq, Repr, Inhabited

/-- the owner search of `init_inner` when the policy is not set: the first input with an owner, `None` as soon as
another owner differs -/
def commonOwner : List Val → Nat → Option (Nat × Bytes) → Option (Nat × Bytes)
  | [], _, acc => acc
  | i :: rest, idx, acc =>
    match inputKind i with
    | some k =>
      if inputHasOwner k then
        match acc with
        | none => commonOwner rest (idx + 1) (some (idx, inputOwnerBytes k i))
        | some (j, cached) => if inputOwnerBytes k i != cached then none else commonOwner rest (idx + 1) (some (j, cached))
      else commonOwner rest (idx + 1) acc
    | none => commonOwner rest (idx + 1) acc

/-- `init_inner`'s `owner`: index of the owning input -/
def ownerIndex (t : Tx) : Except InitError (Option Nat) :=
  match policyGet t.policies "Owner" with
  | some ownerIdx =>
    if ownerIdx > 2 ^ 32 - 1 then .error .ownerIndexOutOfBounds
    else if ownerIdx ≥ t.inputs.length then .error .ownerIndexOutOfBounds
    else
      match (t.inputs[ownerIdx]?).bind (fun i => (inputKind i).map inputHasOwner) with
      | some true => .ok (some ownerIdx)
      | _ => .error (.ownerInputHasNoOwner ownerIdx)
  | none => .ok ((commonOwner t.inputs 0 none).map (·.1))

/-- `owner_ptr`: `tx_offset + inputs_offset_at(idx) + repr.owner_offset()` -/
def ownerPtrOf (t : Tx) (txOffset : Nat) (idx : Nat) : Option Nat :=
  ((t.inputs[idx]?).bind inputKind).bind (fun k =>
    ((InputRepr.fromInput k).offset "owner_offset").bind (fun ofs =>
      (t.inputsOffsetAt idx).map (fun o => satAdd txOffset (satAdd o ofs))))

/-- the map built from the outputs: `Output::Contract { input_index, .. }` at position `j` gives `(input_index, j)` -/
def contractOutputs (outs : List Val) : List (Nat × Nat) :=
  (outs.zipIdx.filterMap (fun p => (outputKind p.1).bind (fun k => (outputInputIndex k p.1).map (fun ii => (ii, p.2)))))

/-- `BTreeMap::get` after `collect()`: the last pair with that key -/
def mapGet (m : List (Nat × Nat)) (key : Nat) : Option Nat := (m.reverse.lookup key)

/-- `init_inner` (then `init_script` / `init_predicate`): prepare the transaction, find the owner, lay out the stack.
`id` = the transaction id pushed first, `balances` = what `RuntimeBalances::to_vm` wrote (`max_inputs` entries of 40 bytes). -/
def initVm (k : Kind) (v : Val) (maxInputs chainId gasPrice : Nat) (context : Context) (id baseAsset balances : Bytes) : Except InitError Vm :=
  let t : Tx := { kind := k, val := (vmMask k).apply v, metadata := none }
  let txOffset := txOffsetOf maxInputs
  match ownerIndex t with
  | .error e => .error e
  | .ok owner =>
    let txBytes := encode env k.desc t.val
    .ok { tx := t, txOffset := txOffset, chainId := chainId, gasPrice := gasPrice, context := context,
          ownerPtr := owner.bind (ownerPtrOf t txOffset),
          contractOutputIndex := contractOutputs t.outputs,
          mem := id ++ baseAsset ++ balances ++ natBE 8 (size env k.desc t.val) ++ txBytes }

/-! ### GTF -/

inductive InFilter | coin | contract | message
  deriving DecidableEq, Repr, Inhabited
def InFilter.ok : InFilter → InputKind → Bool
  | .coin, k => k.isCoin
  | .contract, k => k.isContract
  | .message, k => k.isMessage

inductive InVal | outputIndex | amount | witnessIndex | predicateLength | predicateDataLength | predicateGasUsed | dataLength
  deriving DecidableEq, Repr, Inhabited

/-- the shapes of the arms of `get_transaction_field` -/
inductive Spec
  | txType | scriptGasLimit | policyTypes | policy (name : String)
  | inputsCount | outputsCount | witnessesCount | inputAt | outputAt | witnessAt | txLength
  | inputType
  /-- `.filter(f).map(Input::repr).and_then(|r| r.<method>())` + `inputs_offset_at(b)` + tx offset -/
  | inputReprPtr (f : InFilter) (method : String)
  /-- `.filter(f).and_then(Input::predicate_offset / predicate_data_offset)` + `inputs_offset_at(b)` + tx offset -/
  | inputPredPtr (f : InFilter) (data : Bool)
  | inputVal (f : InFilter) (w : InVal)
  | inputContractOutputIndex
  | outputType
  /-- `.filter(coin or change | contract created).map(Output::repr).and_then(|r| r.<method>())` + `outputs_offset_at(b)` + tx offset -/
  | outputReprPtr (created : Bool) (method : String)
  | outputCoinAmount | outputContractInputIndex
  | witnessDataLength | witnessData
  | scriptLength | scriptDataLength | script | scriptData
  | createBytecodeWitnessIndex | createStorageSlotsCount | createSalt | createStorageSlotAt
  | blobId | blobWitnessIndex
  | uploadRoot | uploadWitnessIndex | uploadSubsectionIndex | uploadSubsectionsCount | uploadProofSetCount | uploadProofSetAt
  | upgradePurpose
  deriving DecidableEq, Repr, Inhabited

/-- the arm of each selector (by the variant name of `GTFArgs`) -/
def specOf : String → Option Spec
  | "Type" => some .txType
  | "ScriptGasLimit" => some .scriptGasLimit
  | "PolicyTypes" => some .policyTypes
  | "PolicyTip" => some (.policy "Tip")
  | "PolicyWitnessLimit" => some (.policy "WitnessLimit")
  | "PolicyMaturity" => some (.policy "Maturity")
  | "PolicyExpiration" => some (.policy "Expiration")
  | "PolicyMaxFee" => some (.policy "MaxFee")
  | "PolicyOwner" => some (.policy "Owner")
  | "ScriptInputsCount" | "CreateInputsCount" | "TxInputsCount" => some .inputsCount
  | "ScriptOutputsCount" | "CreateOutputsCount" | "TxOutputsCount" => some .outputsCount
  | "ScriptWitnessesCount" | "CreateWitnessesCount" | "TxWitnessesCount" => some .witnessesCount
  | "ScriptInputAtIndex" | "CreateInputAtIndex" | "TxInputAtIndex" => some .inputAt
  | "ScriptOutputAtIndex" | "CreateOutputAtIndex" | "TxOutputAtIndex" => some .outputAt
  | "ScriptWitnessAtIndex" | "CreateWitnessAtIndex" | "TxWitnessAtIndex" => some .witnessAt
  | "TxLength" => some .txLength
  | "InputType" => some .inputType
  | "InputCoinTxId" => some (.inputReprPtr .coin "utxo_id_offset")
  | "InputCoinOutputIndex" => some (.inputVal .coin .outputIndex)
  | "InputCoinOwner" => some (.inputReprPtr .coin "owner_offset")
  | "InputCoinAmount" => some (.inputVal .coin .amount)
  | "InputCoinAssetId" => some (.inputReprPtr .coin "asset_id_offset")
  | "InputCoinTxPointer" => some (.inputReprPtr .coin "tx_pointer_offset")
  | "InputCoinWitnessIndex" => some (.inputVal .coin .witnessIndex)
  | "InputCoinPredicateLength" => some (.inputVal .coin .predicateLength)
  | "InputCoinPredicateDataLength" => some (.inputVal .coin .predicateDataLength)
  | "InputCoinPredicateGasUsed" => some (.inputVal .coin .predicateGasUsed)
  | "InputCoinPredicate" => some (.inputPredPtr .coin false)
  | "InputCoinPredicateData" => some (.inputPredPtr .coin true)
  | "InputContractTxId" => some (.inputReprPtr .contract "utxo_id_offset")
  | "InputContractOutputIndex" => some .inputContractOutputIndex
  | "InputContractId" => some (.inputReprPtr .contract "contract_id_offset")
  | "InputMessageSender" => some (.inputReprPtr .message "message_sender_offset")
  | "InputMessageRecipient" => some (.inputReprPtr .message "message_recipient_offset")
  | "InputMessageAmount" => some (.inputVal .message .amount)
  | "InputMessageNonce" => some (.inputReprPtr .message "message_nonce_offset")
  | "InputMessageWitnessIndex" => some (.inputVal .message .witnessIndex)
  | "InputMessageDataLength" => some (.inputVal .message .dataLength)
  | "InputMessagePredicateLength" => some (.inputVal .message .predicateLength)
  | "InputMessagePredicateDataLength" => some (.inputVal .message .predicateDataLength)
  | "InputMessagePredicateGasUsed" => some (.inputVal .message .predicateGasUsed)
  | "InputMessageData" => some (.inputReprPtr .message "data_offset")
  | "InputMessagePredicate" => some (.inputPredPtr .message false)
  | "InputMessagePredicateData" => some (.inputPredPtr .message true)
  | "OutputType" => some .outputType
  | "OutputCoinTo" => some (.outputReprPtr false "to_offset")
  | "OutputCoinAmount" => some .outputCoinAmount
  | "OutputCoinAssetId" => some (.outputReprPtr false "asset_id_offset")
  | "OutputContractInputIndex" => some .outputContractInputIndex
  | "OutputContractCreatedContractId" => some (.outputReprPtr true "contract_id_offset")
  | "OutputContractCreatedStateRoot" => some (.outputReprPtr true "contract_created_state_root_offset")
  | "WitnessDataLength" => some .witnessDataLength
  | "WitnessData" => some .witnessData
  | "ScriptLength" => some .scriptLength
  | "ScriptDataLength" => some .scriptDataLength
  | "Script" => some .script
  | "ScriptData" => some .scriptData
  | "CreateBytecodeWitnessIndex" => some .createBytecodeWitnessIndex
  | "CreateStorageSlotsCount" => some .createStorageSlotsCount
  | "CreateSalt" => some .createSalt
  | "CreateStorageSlotAtIndex" => some .createStorageSlotAt
  | "BlobId" => some .blobId
  | "BlobWitnessIndex" => some .blobWitnessIndex
  | "UploadRoot" => some .uploadRoot
  | "UploadWitnessIndex" => some .uploadWitnessIndex
  | "UploadSubsectionIndex" => some .uploadSubsectionIndex
  | "UploadSubsectionsCount" => some .uploadSubsectionsCount
  | "UploadProofSetCount" => some .uploadProofSetCount
  | "UploadProofSetAtIndex" => some .uploadProofSetAt
  | "UpgradePurpose" => some .upgradePurpose
  | _ => none

def okOr {α : Type} (o : Option α) (p : Panic) : Except Panic α :=
  match o with
  | some a => .ok a
  | none => .error p

/-- an input of the filtered kinds at index `b` -/
def inputAtFiltered (t : Tx) (f : InFilter) (b : Nat) : Option (InputKind × Val) :=
  (t.inputs[b]?).bind (fun i => (inputKind i).bind (fun k => if f.ok k then some (k, i) else none))

def inVal (w : InVal) (k : InputKind) (i : Val) : Option Nat :=
  match w with
  | .outputIndex => inputUtxoOutputIndex k i
  | .amount => inputAmount k i
  | .witnessIndex => inputWitnessIndex k i
  | .predicateLength => predicateLen i
  | .predicateDataLength => inputPredicateDataLen k i
  | .predicateGasUsed => inputPredicateGasUsed k i
  | .dataLength => inputDataLen k i

/-- one arm: `b` is already `usize` (`b ≤ u32::MAX`) -/
def evalSpec (vm : Vm) (b : Nat) : Spec → Except Panic Nat
  | .txType => .ok vm.tx.kind.idx
  | .scriptGasLimit => .ok (if vm.tx.kind = .script then intOf (fieldOf "ScriptBody" "script_gas_limit" vm.tx.body) else 0)
  | .policyTypes => .ok (policyBits vm.tx.policies)
  | .policy name => okOr (policyGet vm.tx.policies name) .policyIsNotSet
  | .inputsCount => .ok vm.tx.inputs.length
  | .outputsCount => .ok vm.tx.outputs.length
  | .witnessesCount => .ok vm.tx.witnesses.length
  | .inputAt => (okOr (vm.tx.inputsOffsetAt b) .inputNotFound).map (satAdd vm.txOffset)
  | .outputAt => (okOr (vm.tx.outputsOffsetAt b) .outputNotFound).map (satAdd vm.txOffset)
  | .witnessAt => (okOr (vm.tx.witnessesOffsetAt b) .witnessNotFound).map (satAdd vm.txOffset)
  | .txLength => .ok (size env vm.tx.kind.desc vm.tx.val)
  | .inputType => okOr (((vm.tx.inputs[b]?).bind inputKind).map (fun k => match InputRepr.fromInput k with | .coin => 0 | .contract => 1 | .message => 2)) .inputNotFound
  | .inputReprPtr f method =>
    (okOr ((inputAtFiltered vm.tx f b).bind (fun p => ((InputRepr.fromInput p.1).offset method).bind (fun ofs =>
      (vm.tx.inputsOffsetAt b).map (fun o => satAdd o ofs)))) .inputNotFound).map (satAdd vm.txOffset)
  | .inputPredPtr f data =>
    (okOr ((inputAtFiltered vm.tx f b).bind (fun p => (if data then predicateDataOffset p.2 else predicateOffset p.2).bind (fun ofs =>
      (vm.tx.inputsOffsetAt b).map (fun o => satAdd o ofs)))) .inputNotFound).map (satAdd vm.txOffset)
  | .inputVal f w => okOr ((inputAtFiltered vm.tx f b).bind (fun p => inVal w p.1 p.2)) .inputNotFound
  | .inputContractOutputIndex =>
    if b > 2 ^ 16 - 1 then .error .invalidMetadataIdentifier else okOr (mapGet vm.contractOutputIndex b) .inputNotFound
  | .outputType => okOr (((vm.tx.outputs[b]?).bind outputKind).map outputDisc) .outputNotFound
  | .outputReprPtr created method =>
    (okOr (((vm.tx.outputs[b]?).bind outputKind).bind (fun k =>
      if (if created then k == .contractCreated else (k == .coin || k == .change)) then
        (k.offset method).bind (fun ofs => (vm.tx.outputsOffsetAt b).map (fun o => satAdd o ofs))
      else none)) .outputNotFound).map (satAdd vm.txOffset)
  | .outputCoinAmount =>
    okOr ((vm.tx.outputs[b]?).bind (fun o => (outputKind o).bind (fun k => if k == .coin then outputAmount k o else none))) .outputNotFound
  | .outputContractInputIndex =>
    okOr ((vm.tx.outputs[b]?).bind (fun o => (outputKind o).bind (fun k => if k == .contract then outputInputIndex k o else none))) .inputNotFound
  | .witnessDataLength => okOr ((vm.tx.witnesses[b]?).map (fun w => (bytesOf w).length)) .witnessNotFound
  | .witnessData => okOr ((vm.tx.witnessesOffsetAt b).map (fun w => satAdd (satAdd vm.txOffset w) Gen.Offsets.WORD_SIZE)) .witnessNotFound
  -- `match (tx.executable_type(), specific_args)`: anything else is `InvalidMetadataIdentifier`
  | .scriptLength => if vm.tx.kind = .script then .ok (bytesOf (fieldOf "ScriptBody" "script" vm.tx.body)).length else .error .invalidMetadataIdentifier
  | .scriptDataLength => if vm.tx.kind = .script then .ok (bytesOf (fieldOf "ScriptBody" "script_data" vm.tx.body)).length else .error .invalidMetadataIdentifier
  | .script => if vm.tx.kind = .script then .ok (satAdd vm.txOffset Gen.Offsets.Script.script_offset_static) else .error .invalidMetadataIdentifier
  | .scriptData => if vm.tx.kind = .script then .ok (satAdd vm.txOffset vm.tx.scriptDataOffset) else .error .invalidMetadataIdentifier
  | .createBytecodeWitnessIndex =>
    if vm.tx.kind = .create then .ok (intOf (fieldOf "CreateBody" "bytecode_witness_index" vm.tx.body)) else .error .invalidMetadataIdentifier
  | .createStorageSlotsCount => if vm.tx.kind = .create then .ok vm.tx.storageSlots.length else .error .invalidMetadataIdentifier
  | .createSalt => if vm.tx.kind = .create then .ok (satAdd vm.txOffset Gen.Offsets.Create.salt_offset_static) else .error .invalidMetadataIdentifier
  | .createStorageSlotAt =>
    if vm.tx.kind = .create then (okOr (vm.tx.storageSlotsOffsetAt b) .storageSlotsNotFound).map (satAdd vm.txOffset) else .error .invalidMetadataIdentifier
  | .blobId => if vm.tx.kind = .blob then .ok (satAdd vm.txOffset Gen.Offsets.Blob.blob_id_offset_static) else .error .invalidMetadataIdentifier
  | .blobWitnessIndex => if vm.tx.kind = .blob then .ok (intOf (fieldOf "BlobBody" "witness_index" vm.tx.body)) else .error .invalidMetadataIdentifier
  | .uploadRoot => if vm.tx.kind = .upload then .ok (satAdd vm.txOffset Gen.Offsets.Upload.bytecode_root_offset_static) else .error .invalidMetadataIdentifier
  | .uploadWitnessIndex => if vm.tx.kind = .upload then .ok (intOf (fieldOf "UploadBody" "witness_index" vm.tx.body)) else .error .invalidMetadataIdentifier
  | .uploadSubsectionIndex => if vm.tx.kind = .upload then .ok (intOf (fieldOf "UploadBody" "subsection_index" vm.tx.body)) else .error .invalidMetadataIdentifier
  | .uploadSubsectionsCount => if vm.tx.kind = .upload then .ok (intOf (fieldOf "UploadBody" "subsections_number" vm.tx.body)) else .error .invalidMetadataIdentifier
  | .uploadProofSetCount => if vm.tx.kind = .upload then .ok vm.tx.proofSet.length else .error .invalidMetadataIdentifier
  | .uploadProofSetAt =>
    if vm.tx.kind = .upload then (okOr (vm.tx.proofSetOffsetAt b) .proofInUploadNotFound).map (satAdd vm.txOffset) else .error .invalidMetadataIdentifier
  | .upgradePurpose => if vm.tx.kind = .upgrade then .ok (satAdd vm.txOffset Gen.Offsets.Upgrade.upgrade_purpose_offset_static) else .error .invalidMetadataIdentifier

/-- `GTFInput::get_transaction_field`: `b` = the value of register `rB`, `imm` = the 12-bit immediate; the result goes to `rA` -/
def gtf (vm : Vm) (b imm : Nat) : Except Panic Nat :=
  -- `convert::to_usize(b)`: through `u32`
  if b > 2 ^ 32 - 1 then .error .invalidMetadataIdentifier
  else
    -- `GTFArgs::try_from(imm)?`
    match Gen.Gtf.gtfArgs.find? (fun r => r.2 == imm) with
    | none => .error .invalidMetadataIdentifier
    | some r =>
      match specOf r.1 with
      | none => .error .invalidMetadataIdentifier   -- unreachable: every name has an arm (Props/C05 `every_selector_has_an_arm`)
      | some s => evalSpec vm b s

/-- `metadata(..)` (GM) outside a call frame: `parent = None` (`context.is_internal()` is false for script and predicate contexts) -/
def gm (vm : Vm) (imm : Nat) : Except Panic Nat :=
  match (Gen.Gtf.gmArgs.find? (fun r => r.2 == imm)).map (·.1) with
  | some "GetVerifyingPredicate" => (match vm.context with | .predicate idx => .ok idx | .script => .error .transactionValidity)
  | some "GetChainId" => .ok vm.chainId
  | some "BaseAssetId" => .ok Gen.Offsets.Bytes32_LEN   -- `VM_MEMORY_BASE_ASSET_ID_OFFSET`
  | some "TxStart" => .ok vm.txOffset
  | some "GetCaller" => .error .expectedInternalContext
  | some "IsCallerExternal" => .error .expectedInternalContext
  | some "GetGasPrice" => (match vm.context with | .predicate _ => .error .canNotGetGasPriceInPredicate | .script => .ok vm.gasPrice)
  | some "GetOwner" => okOr vm.ownerPtr .ownerIsUnknown
  | _ => .error .invalidMetadataIdentifier

/-- `n` bytes of VM memory at `p` -/
def readMem (vm : Vm) (p n : Nat) : Bytes := (vm.mem.drop p).take n

end FuelVerif.Gtf
