/-
Generic model of the canonical codec (DESIGN §5.A): `fuel-types/src/canonical.rs` (traits `Serialize`,
`Deserialize`, the impls for primitives, `Vec<T>`, `[u8; N]`, `impl Input for &[u8]`) and the code the
derive macros of `fuel-derive/src/canonical/{serialize,deserialize}.rs` generate for structs and enums.

A Rust type that implements the two traits is a *descriptor* `Desc`; its values are `Val`s. The two-phase
scheme of the traits is kept: every type has a static part (`encS` / `decS` = `encode_static` /
`decode_static`) and a dynamic part (`encD` / `decD` = `encode_dynamic` / `decode_dynamic`);
`encode = static ++ dynamic`, `decode = decode_static; decode_dynamic` on the value produced by the
static phase. Sizes (`sizeS`, `sizeD`) transcribe `size_static` / `size_dynamic` (which Rust computes
separately from the encoding — that they agree is a theorem, Props/C01).

Hand-written `impl Serialize/Deserialize` (Policies, Input) are plugged in as `Desc.custom k`, looked up
in an environment `Env` of `Codec`s (Model/Policies.lean, Model/InputCodec.lean).

Deviations, all stated where they occur:
 * lengths and sizes are `Nat` (Rust: `usize` with saturating adds). Every theorem is under `wt`,
   which bounds every vector by `VEC_DECODE_LIMIT`, far below saturation.
 * `Vec::encode_static` returns `Err(AllocationLimit)` when `len > VEC_DECODE_LIMIT` (and `to_bytes`
   then panics); the model's encoder is total and `wt` excludes such values.
 * `Vec::with_capacity(cap).capacity() == cap` and `vec![0u8; cap].capacity() == cap` (true for the
   global allocator for non-zero-sized element types; all element types here have non-zero size).

Import-free apart from Basic/Gen so the driver links natively.
-/
import FuelVerif.Basic.Util
import FuelVerif.Gen.Canonical
namespace FuelVerif.Canonical
open FuelVerif

/-- `canonical::Error` (the payload of `Unknown` is dropped). `shape` is model-internal: `decD` was
applied to a value that `decS` of the same descriptor cannot produce (proved unreachable). -/
inductive Err
  | bufferIsTooShort | unknownDiscriminant | invalidPrefix | allocationLimit | unknown | shape
  deriving DecidableEq, Repr, Inhabited

def Err.name : Err → String
  | .bufferIsTooShort => "BufferIsTooShort"
  | .unknownDiscriminant => "UnknownDiscriminant"
  | .invalidPrefix => "InvalidPrefix"
  | .allocationLimit => "AllocationLimit"
  | .unknown => "Unknown"
  | .shape => "ModelShape"

abbrev R (α : Type) := Except Err α

instance {α} [DecidableEq α] : DecidableEq (R α) := fun a b =>
  match a, b with
  | .ok x, .ok y => if h : x = y then isTrue (by rw [h]) else isFalse (by intro e; cases e; exact h rfl)
  | .error x, .error y => if h : x = y then isTrue (by rw [h]) else isFalse (by intro e; cases e; exact h rfl)
  | .ok _, .error _ => isFalse (by intro e; cases e)
  | .error _, .ok _ => isFalse (by intro e; cases e)

/-- `pub const ALIGN` / `VEC_DECODE_LIMIT` (regenerated from canonical.rs) -/
def ALIGN : Nat := Gen.Canonical.ALIGN
def VEC_DECODE_LIMIT : Nat := Gen.Canonical.VEC_DECODE_LIMIT

/-- `const fn alignment_bytes(len)` -/
def alignmentBytes (len : Nat) : Nat :=
  let modulo := len % ALIGN
  if modulo = 0 then 0 else ALIGN - modulo

/-- `pub const fn aligned_size(len)` (no saturation, see header) -/
def alignedSize (len : Nat) : Nat := len + alignmentBytes len

/-! ### `impl Input for &[u8]` -/

/-- `Input::skip` -/
def skip (n : Nat) (bs : Bytes) : R Bytes :=
  if n > bs.length then .error .bufferIsTooShort else .ok (bs.drop n)

/-- `Input::read` into a buffer of `n` bytes -/
def read (n : Nat) (bs : Bytes) : R (Bytes × Bytes) :=
  if n > bs.length then .error .bufferIsTooShort else .ok (bs.take n, bs.drop n)

/-- `Input::peek` into a buffer of `n` bytes -/
def peek (n : Nat) (bs : Bytes) : R Bytes :=
  if n > bs.length then .error .bufferIsTooShort else .ok (bs.take n)

/-- `impl_for_primitives!`: `encode_static` of an `n`-byte unsigned integer: left zero padding to the
alignment, then big-endian bytes -/
def encUint (n x : Nat) : Bytes := zeros (alignmentBytes n) ++ natBE n x

/-- `impl_for_primitives!`: `decode_static`: skip the padding (its content is NOT checked), read `n` bytes -/
def decUint (n : Nat) (bs : Bytes) : R (Nat × Bytes) :=
  match skip (alignmentBytes n) bs with
  | .error e => .error e
  | .ok r =>
    match read n r with
    | .error e => .error e
    | .ok (x, r') => .ok (beNat x, r')

/-- `u64::encode` / `u64::decode`, used for vector lengths, discriminants and prefixes -/
def encU64 (x : Nat) : Bytes := encUint 8 x
def decU64 (bs : Bytes) : R (Nat × Bytes) := decUint 8 bs

/-! ### descriptors and values -/

/-- A type implementing `Serialize + Deserialize`. Field lists and variant lists are right-nested
(`pair f₁ (pair f₂ … unit)`, `alt k₁ d₁ (alt k₂ d₂ … void)`), see `Desc.structOf` / `Desc.enumOf`. -/
inductive Desc
  /-- `u8`/`u16`/`u32`/`u64`/`u128`: an `n`-byte big-endian integer -/
  | uint (n : Nat)
  /-- `[u8; n]` -/
  | bytesN (n : Nat)
  /-- `Vec<u8>` (`T::UNALIGNED_BYTES`) -/
  | vecBytes
  /-- `Vec<T>`, `T` not `u8` -/
  | vec (d : Desc)
  /-- end of a field list / `()` -/
  | unit
  /-- a field followed by the remaining fields of a struct or of an enum variant -/
  | pair (a b : Desc)
  /-- struct with `#[canonical(prefix = p)]` -/
  | pre (p : Nat) (d : Desc)
  /-- derived enum: u64 discriminant, then the fields of the variant -/
  | enum (alts : Desc)
  /-- variant with discriminant `k` and fields `d`, followed by the remaining variants -/
  | alt (k : Nat) (d rest : Desc)
  /-- no more variants -/
  | void
  /-- field marked `#[canonical(skip)]`: not on the wire, `Default::default()` after decoding -/
  | skipped
  /-- `Empty<T>` (fuel-tx input.rs): encodes `T::default()`'s static part, decodes and discards a `T` static part -/
  | empty (d : Desc)
  /-- hand-written impl number `k` of the environment -/
  | custom (k : Nat)
  deriving DecidableEq, Repr, Inhabited

/-- Values, and the partially decoded values that exist between `decode_static` and `decode_dynamic`. -/
inductive Val
  | int (n : Nat)
  | bytes (bs : Bytes)
  /-- between the phases: a vector whose length word has been read (`Vec::with_capacity(n)` /
  `vec![0u8; n]`) but whose content has not -/
  | cap (n : Nat)
  /-- `()`, the empty field list, the empty vector, a skipped / `Empty` field -/
  | unit
  /-- field lists and vectors: head and tail -/
  | pair (a b : Val)
  /-- enum value: this variant … -/
  | inl (v : Val)
  /-- … or one of the later ones -/
  | inr (v : Val)
  deriving DecidableEq, Repr, Inhabited

namespace Val
/-- the elements of a right-nested list value (`Vec<T>`, field list) -/
def elems : Val → List Val
  | pair a r => a :: elems r
  | _ => []
/-- is the value a proper right-nested list ending in `unit` -/
def isList : Val → Bool
  | unit => true
  | pair _ r => isList r
  | _ => false
def ofList : List Val → Val
  | [] => unit
  | a :: r => pair a (ofList r)
/-- `n`-th field of a field list -/
def field (v : Val) (n : Nat) : Option Val := v.elems[n]?
/-- `n`-th variant of an enum carrying payload `v` -/
def variant : Nat → Val → Val
  | 0, v => inl v
  | n + 1, v => inr (variant n v)
end Val

namespace Desc
def structOf (pre : Option Nat) (fields : List Desc) : Desc :=
  let body := fields.foldr pair unit
  match pre with
  | none => body
  | some p => .pre p body
def enumOf (variants : List (Nat × Desc)) : Desc :=
  .enum (variants.foldr (fun v acc => alt v.1 v.2 acc) void)
end Desc

/-- A hand-written `impl Serialize` + `impl Deserialize` pair, with the predicates the theorems about it
are stated with (`wt`: the values it is claimed to round-trip; `pwt`: the partial values its `decS`
produces; `partialOf`: what `decS` returns on `encS v`). -/
structure Codec where
  encS : Val → Bytes
  encD : Val → Bytes
  sizeS : Val → Nat
  sizeD : Val → Nat
  decS : Bytes → R (Val × Bytes)
  decD : Val → Bytes → R (Val × Bytes)
  wt : Val → Bool
  pwt : Val → Bool
  partialOf : Val → Val

abbrev Env := Nat → Codec

/-- the codec that is never used (out-of-range `custom` index): rejects everything -/
def Codec.none : Codec where
  encS _ := []
  encD _ := []
  sizeS _ := 0
  sizeD _ := 0
  decS _ := .error .shape
  decD _ _ := .error .shape
  wt _ := false
  pwt _ := false
  partialOf v := v

/-- `T::default()` for the types used under `Empty<T>` (integers, byte vectors, structs of those) -/
def dflt : Desc → Val
  | .uint _ => .int 0
  | .bytesN n => .bytes (zeros n)
  | .vecBytes => .bytes []
  | .pair a b => .pair (dflt a) (dflt b)
  | .pre _ d => dflt d
  | _ => .unit


/-! ### `Serialize` -/

/-- `Serialize::encode_static` -/
def encS (env : Env) : Desc → Val → Bytes
  | .uint n, .int x => encUint n x
  -- `[u8; N]`: the bytes, then zero padding to the alignment
  | .bytesN n, .bytes bs => bs ++ zeros (alignmentBytes n)
  -- `Vec<T>::encode_static`: only the length, as u64
  | .vecBytes, .bytes bs => encU64 bs.length
  | .vec _, v => encU64 v.elems.length
  | .unit, _ => []
  -- derive: fields in declaration order
  | .pair a b, .pair va vb => encS env a va ++ encS env b vb
  -- derive (struct): `<_ as Serialize>::encode(&prefix)` first
  | .pre p d, v => encU64 p ++ encS env d v
  | .enum a, v => encS env a v
  -- derive (enum): `u64::encode(&discriminant)` then the variant's fields
  | .alt k d _, .inl v => encU64 k ++ encS env d v
  | .alt _ _ rest, .inr v => encS env rest v
  | .skipped, _ => []
  -- `Empty<T>::encode_static` = `T::default().encode_static`
  | .empty d, _ => encS env d (dflt d)
  | .custom k, v => (env k).encS v
  | _, _ => []

/-- `Serialize::encode_dynamic` -/
def encD (env : Env) : Desc → Val → Bytes
  -- `Vec<u8>`: the bytes, then zero padding
  | .vecBytes, .bytes bs => bs ++ zeros (alignmentBytes bs.length)
  -- `Vec<T>`: `e.encode(buffer)` for every element (static then dynamic part of each)
  | .vec d, v => v.elems.flatMap (fun e => encS env d e ++ encD env d e)
  | .pair a b, .pair va vb => encD env a va ++ encD env b vb
  | .pre _ d, v => encD env d v
  | .enum a, v => encD env a v
  | .alt _ d _, .inl v => encD env d v
  | .alt _ _ rest, .inr v => encD env rest v
  | .custom k, v => (env k).encD v
  | _, _ => []

/-- `Serialize::encode` -/
def encode (env : Env) (d : Desc) (v : Val) : Bytes := encS env d v ++ encD env d v

/-- `Serialize::size_static` -/
def sizeS (env : Env) : Desc → Val → Nat
  | .uint n, _ => alignedSize n
  | .bytesN n, _ => alignedSize n
  | .vecBytes, _ => 8
  | .vec _, _ => 8
  | .pair a b, .pair va vb => sizeS env a va + sizeS env b vb
  -- derive (struct with prefix): `let mut size = 8usize`
  | .pre _ d, v => 8 + sizeS env d v
  | .enum a, v => 8 + sizeS env a v
  | .alt _ d _, .inl v => sizeS env d v
  | .alt _ _ rest, .inr v => sizeS env rest v
  | .empty d, _ => sizeS env d (dflt d)
  | .custom k, v => (env k).sizeS v
  | _, _ => 0

/-- `Serialize::size_dynamic` -/
def sizeD (env : Env) : Desc → Val → Nat
  | .vecBytes, .bytes bs => alignedSize bs.length
  -- `aligned_size(sum of e.size())`
  | .vec d, v => alignedSize ((v.elems.map (fun e => sizeS env d e + sizeD env d e)).sum)
  | .pair a b, .pair va vb => sizeD env a va + sizeD env b vb
  | .pre _ d, v => sizeD env d v
  | .enum a, v => sizeD env a v
  | .alt _ d _, .inl v => sizeD env d v
  | .alt _ _ rest, .inr v => sizeD env rest v
  | .custom k, v => (env k).sizeD v
  | _, _ => 0

/-- `Serialize::size` -/
def size (env : Env) (d : Desc) (v : Val) : Nat := sizeS env d v + sizeD env d v

/-! ### `Deserialize` -/

/-- the loop of `Vec<T>::decode_dynamic`: `for _ in 0..self.capacity() { self.push(T::decode(buffer)?) }` -/
def decElems (f : Bytes → R (Val × Bytes)) : Nat → Bytes → R (List Val × Bytes)
  | 0, bs => .ok ([], bs)
  | n + 1, bs =>
    match f bs with
    | .error e => .error e
    | .ok (a, r) =>
      match decElems f n r with
      | .error e => .error e
      | .ok (as, r') => .ok (a :: as, r')

/-- `Vec<T>::decode_static`: the capacity word with its two checks -/
def decCap (bs : Bytes) : R (Val × Bytes) :=
  match decU64 bs with
  | .error e => .error e
  | .ok (cap, r) =>
    -- `cap.try_into::<usize>()` cannot fail on a 64-bit target
    if cap > VEC_DECODE_LIMIT then .error .allocationLimit else .ok (.cap cap, r)

mutual
/-- `Deserialize::decode_static` -/
def decS (env : Env) : Desc → Bytes → R (Val × Bytes)
  | .uint n, bs =>
    match decUint n bs with
    | .error e => .error e
    | .ok (x, r) => .ok (.int x, r)
  -- `[u8; N]`: read N bytes, skip the padding
  | .bytesN n, bs =>
    match read n bs with
    | .error e => .error e
    | .ok (x, r) =>
      match skip (alignmentBytes n) r with
      | .error e => .error e
      | .ok r' => .ok (.bytes x, r')
  | .vecBytes, bs => decCap bs
  | .vec _, bs => decCap bs
  | .unit, bs => .ok (.unit, bs)
  | .pair a b, bs =>
    match decS env a bs with
    | .error e => .error e
    | .ok (va, r) =>
      match decS env b r with
      | .error e => .error e
      | .ok (vb, r') => .ok (.pair va vb, r')
  -- derive (struct): `if prefix != Ok(expected) { return Err(InvalidPrefix) }` — any failure to read it too
  | .pre p d, bs =>
    match decU64 bs with
    | .error _ => .error .invalidPrefix
    | .ok (p', r) => if p' = p then decS env d r else .error .invalidPrefix
  -- derive (enum): `match <u64>::decode(buffer)? { V0 => .., _ => Err(UnknownDiscriminant) }`
  | .enum a, bs =>
    match decU64 bs with
    | .error e => .error e
    | .ok (w, r) => decAlt env a w r
  | .alt _ _ _, _ => .error .shape
  | .void, _ => .error .shape
  | .skipped, bs => .ok (.unit, bs)
  -- `Empty<T>::decode_static`: `Type::decode_static(buffer)?; Ok(Default::default())`
  | .empty d, bs =>
    match decS env d bs with
    | .error e => .error e
    | .ok (_, r) => .ok (.unit, r)
  | .custom k, bs => (env k).decS bs
/-- the match on the discriminant word `w` -/
def decAlt (env : Env) : Desc → Nat → Bytes → R (Val × Bytes)
  | .alt k d rest, w, bs =>
    if w = k then
      match decS env d bs with
      | .error e => .error e
      | .ok (v, r) => .ok (.inl v, r)
    else
      match decAlt env rest w bs with
      | .error e => .error e
      | .ok (v, r) => .ok (.inr v, r)
  | _, _, _ => .error .unknownDiscriminant
end

/-- `Deserialize::decode_dynamic(&mut self)`: `p` is the value the static phase produced -/
def decD (env : Env) : Desc → Val → Bytes → R (Val × Bytes)
  | .uint _, .int x, bs => .ok (.int x, bs)
  | .bytesN _, .bytes x, bs => .ok (.bytes x, bs)
  -- `Vec<u8>`: `buffer.read(self)` then `buffer.skip(alignment_bytes(self.capacity()))`
  | .vecBytes, .cap n, bs =>
    match read n bs with
    | .error e => .error e
    | .ok (x, r) =>
      match skip (alignmentBytes n) r with
      | .error e => .error e
      | .ok r' => .ok (.bytes x, r')
  | .vec d, .cap n, bs =>
    match decElems (fun b =>
        match decS env d b with
        | .error e => .error e
        | .ok (p, r) => decD env d p r) n bs with
    | .error e => .error e
    | .ok (vs, r) => .ok (Val.ofList vs, r)
  | .unit, .unit, bs => .ok (.unit, bs)
  | .pair a b, .pair pa pb, bs =>
    match decD env a pa bs with
    | .error e => .error e
    | .ok (va, r) =>
      match decD env b pb r with
      | .error e => .error e
      | .ok (vb, r') => .ok (.pair va vb, r')
  | .pre _ d, p, bs => decD env d p bs
  | .enum a, p, bs => decD env a p bs
  | .alt _ d _, .inl p, bs =>
    match decD env d p bs with
    | .error e => .error e
    | .ok (v, r) => .ok (.inl v, r)
  | .alt _ _ rest, .inr p, bs =>
    match decD env rest p bs with
    | .error e => .error e
    | .ok (v, r) => .ok (.inr v, r)
  -- struct: `*binding = Default::default()`; enum: left as `decode_static` made it
  | .skipped, _, bs => .ok (.unit, bs)
  -- `Empty<T>`: default `decode_dynamic` does nothing
  | .empty _, _, bs => .ok (.unit, bs)
  | .custom k, p, bs => (env k).decD p bs
  | _, _, _ => .error .shape

/-- `Deserialize::decode` -/
def decode (env : Env) (d : Desc) (bs : Bytes) : R (Val × Bytes) :=
  match decS env d bs with
  | .error e => .error e
  | .ok (p, r) => decD env d p r

/-- `Deserialize::from_bytes` (remaining bytes are ignored by Rust; kept here as the observable
"bytes consumed") -/
def fromBytes (env : Env) (d : Desc) (bs : Bytes) : R (Val × Bytes) := decode env d bs

/-! ### predicates the theorems are stated with -/

/-- the value is a value of the Rust type (and every vector is within `VEC_DECODE_LIMIT`, the only
values the encoder accepts) -/
def wt (env : Env) : Desc → Val → Bool
  | .uint n, .int x => x < 256 ^ n
  | .bytesN n, .bytes bs => bs.length = n
  | .vecBytes, .bytes bs => bs.length ≤ VEC_DECODE_LIMIT
  | .vec d, v => v.isList && v.elems.all (fun e => wt env d e) && v.elems.length ≤ VEC_DECODE_LIMIT
  | .unit, .unit => true
  | .pair a b, .pair va vb => wt env a va && wt env b vb
  | .pre _ d, v => wt env d v
  | .enum a, v => wt env a v
  | .alt _ d _, .inl v => wt env d v
  | .alt _ _ rest, .inr v => wt env rest v
  | .skipped, _ => true
  | .empty _, .unit => true
  | .custom k, v => (env k).wt v
  | _, _ => false

/-- the partial values `decS` produces: integers and byte arrays already read, vectors as a capacity
within the limit, skipped / `Empty` fields defaulted -/
def pwt (env : Env) : Desc → Val → Bool
  | .uint n, .int x => x < 256 ^ n
  | .bytesN n, .bytes bs => bs.length = n
  | .vecBytes, .cap n => n ≤ VEC_DECODE_LIMIT
  | .vec _, .cap n => n ≤ VEC_DECODE_LIMIT
  | .unit, .unit => true
  | .pair a b, .pair va vb => pwt env a va && pwt env b vb
  | .pre _ d, v => pwt env d v
  | .enum a, v => pwt env a v
  | .alt _ d _, .inl v => pwt env d v
  | .alt _ _ rest, .inr v => pwt env rest v
  | .skipped, .unit => true
  | .empty _, .unit => true
  | .custom k, v => (env k).pwt v
  | _, _ => false

/-- what `decode_static` returns on the static part of `v`'s encoding -/
def partialOf (env : Env) : Desc → Val → Val
  | .vecBytes, .bytes bs => .cap bs.length
  | .vec _, v => .cap v.elems.length
  | .pair a b, .pair va vb => .pair (partialOf env a va) (partialOf env b vb)
  | .pre _ d, v => partialOf env d v
  | .enum a, v => partialOf env a v
  | .alt _ d _, .inl v => .inl (partialOf env d v)
  | .alt _ _ rest, .inr v => .inr (partialOf env rest v)
  | .skipped, _ => .unit
  | .empty _, _ => .unit
  | .custom k, v => (env k).partialOf v
  | _, v => v

/-- the value with every `#[canonical(skip)]` field replaced by its default: what a round trip returns -/
def erase (env : Env) : Desc → Val → Val
  | .vec d, v => Val.ofList (v.elems.map (fun e => erase env d e))
  | .pair a b, .pair va vb => .pair (erase env a va) (erase env b vb)
  | .pre _ d, v => erase env d v
  | .enum a, v => erase env a v
  | .alt _ d _, .inl v => .inl (erase env d v)
  | .alt _ _ rest, .inr v => .inr (erase env rest v)
  | .skipped, _ => .unit
  | _, v => v


/-- discriminants of a variant list -/
def Desc.discs : Desc → List Nat
  | .alt k _ rest => k :: rest.discs
  | _ => []

/-- the types `Empty<T>` is used around: integers, byte arrays / vectors and structs of those
(`T::default()` is then `dflt` and is well-typed) -/
def Desc.simple : Desc → Bool
  | .uint _ => true
  | .bytesN _ => true
  | .vecBytes => true
  | .unit => true
  | .pair a b => a.simple && b.simple
  | _ => false

mutual
/-- well-formedness of a descriptor: prefixes and discriminants fit a u64, variant lists only under
`enum` (and well-formed: `wfAlts`), `Empty<T>` only around `simple` types. -/
def Desc.wf : Desc → Bool
  | .vec d => d.wf
  | .pair a b => a.wf && b.wf
  | .pre p d => decide (p < 2 ^ 64) && d.wf
  | .enum a => a.wfAlts
  | .alt _ _ _ => false
  | .void => false
  | .empty d => d.simple
  | _ => true
def Desc.wfAlts : Desc → Bool
  | .alt k d rest => decide (k < 2 ^ 64) && d.wf && rest.wfAlts
  | .void => true
  | _ => false
end

/-- the discriminants of every enum are pairwise distinct (Rust: the match arms `V0 .. Vn` of the derived
decoder are distinct constants; with a repeated one the first arm would win) -/
def Desc.nodup : Desc → Bool
  | .vec d => d.nodup
  | .pair a b => a.nodup && b.nodup
  | .pre _ d => d.nodup
  | .enum a => a.nodup
  | .alt k d rest => !(rest.discs.contains k) && d.nodup && rest.nodup
  | _ => true

end FuelVerif.Canonical
