/-
Executable model of contract storage with the per-transaction slot cache (C33), transcribed from
  fuel-vm/src/interpreter/storage.rs   storage_read_slot, storage_slot_len_no_gas, storage_write_slot,
                                       storage_clear_slot_range, storage_read_to_memory,
                                       storage_write_from_memory, storage_update_from_memory,
                                       storage_preload, key_range
  fuel-vm/src/interpreter/executors/opcodes_impl.rs   SCWQ SRW SRWQ SWW SWWQ SCLR SRDD/SRDI SWRD/SWRI SUPD/SUPI SPLD
  fuel-vm/src/storage/memory.rs        contract_state_remove_range, write_bytes / read_alloc of ContractsState
  fuel-vm/src/interpreter/initialization.rs   `storage_slot_cache.clear()` in init_inner
Slot keys are `U256` values (`Nat < 2^256`), contract ids are byte strings. VM memory is not part of this
model: an instruction receives the bytes it reads from memory as an argument and returns the bytes it
stores to memory (memory checks are C23/C24; the correspondence stream only uses valid pointers).
Gas is not modelled (the property says the cache only changes gas). Core Lean only.
-/
import FuelVerif.Basic.Util
import FuelVerif.Gen.StorageSites
namespace FuelVerif.Storage
open FuelVerif

def U256 : Nat := 2 ^ 256
def U64_MAX : Nat := 2 ^ 64 - 1
def satAdd (a b : Nat) : Nat := if a + b > U64_MAX then U64_MAX else a + b

/-- `convert::to_usize`: `usize::try_from(u32::try_from(value).ok()?).ok()` -/
def toUsize (v : Nat) : Option Nat := if v < 2 ^ Gen.StorageSites.toUsizeBits then some v else none

/-- (contract id, slot key) — `ContractsStateKey` / the cache key `(ContractId, Bytes32)` -/
abbrev Slot := Bytes × Nat

inductive Panic | StorageOutOfBounds | TooManySlots | MemoryOverflow
  deriving DecidableEq, Repr
def Panic.name : Panic → String
  | .StorageOutOfBounds => "StorageOutOfBounds" | .TooManySlots => "TooManySlots" | .MemoryOverflow => "MemoryOverflow"

/-- persistent `contract_state` table and `Interpreter.storage_slot_cache`.
`cacheOn = false` is the cache-less reference implementation (every lookup misses): the plain key-value map. -/
structure St where
  store : Slot → Option Bytes
  cache : Slot → Option (Option Bytes)
  cacheOn : Bool
  /-- `MemoryStorage.transacted.contract_state`: the state as of the last committed transaction -/
  committed : Slot → Option Bytes

def upd {α : Type} (f : Slot → α) (k : Slot) (v : α) : Slot → α := fun k' => if k' = k then v else f k'

/-- `self.storage_slot_cache.get(&cache_key)` -/
def St.cacheGet (s : St) (k : Slot) : Option (Option Bytes) := if s.cacheOn then s.cache k else none

/-- `storage_read_slot` (the closure `f` is applied by the caller to the returned value) -/
def readSlot (s : St) (k : Slot) : St × Option Bytes :=
  match s.cacheGet k with
  | some v => (s, v)                                         -- cache hit
  | none =>
    let value := s.store k                                   -- read_alloc
    ({ s with cache := upd s.cache k (some value) }, value)  -- cache miss: insert

/-- `storage_slot_len_no_gas` -/
def slotLenNoGas (s : St) (k : Slot) : St × Nat :=
  match s.cacheGet k with
  | some v => (s, (v.map (·.length)).getD 0)
  | none =>
    let value := s.store k
    ({ s with cache := upd s.cache k (some value) }, (value.map (·.length)).getD 0)

/-- `storage_write_slot` -/
def writeSlot (maxLen : Nat) (s : St) (k : Slot) (value : Bytes) : St × Except Panic Unit :=
  let (s, _oldLen) := slotLenNoGas s k
  if value.length > maxLen then (s, .error .StorageOutOfBounds)
  else
    -- contract_state_insert; storage_slot_cache.insert(cache_key, Some(value))
    ({ s with store := upd s.store k (some value), cache := upd s.cache k (some (some value)) }, .ok ())

/-- `key_range`: `start_key.checked_add(i)` for `i` in `0..range` -/
def keyRange (key range : Nat) : List (Option Nat) :=
  (List.range range).map (fun i => if key + i < U256 then some (key + i) else none)

/-- `MemoryStorage::contract_state_remove_range`: `for i in 0..range { remove(start + i) }` -/
def removeRange (store : Slot → Option Bytes) (cid : Bytes) (key : Nat) : Nat → Slot → Option Bytes
  | 0 => store
  | n + 1 => upd (removeRange store cid key n) (cid, key + n) none

/-- the cache loop of `storage_clear_slot_range` -/
def cacheClear (cache : Slot → Option (Option Bytes)) (cid : Bytes) : List (Option Nat) → Except Panic (Slot → Option (Option Bytes))
  | [] => .ok cache
  | none :: _ => .error .TooManySlots
  | some k :: rest => cacheClear (upd cache (cid, k) (some none)) cid rest

/-- `storage_clear_slot_range` -/
def clearRange (s : St) (cid : Bytes) (key range : Nat) : St × Except Panic Unit :=
  if range > 1 ∧ key + (range - 1) ≥ U256 then (s, .error .TooManySlots)
  else
    let s := { s with store := removeRange s.store cid key range }
    match cacheClear s.cache cid (keyRange key range) with
    | .error e => (s, .error e)
    | .ok c => ({ s with cache := c }, .ok ())

/-! ### the thirteen storage instructions -/

/-- SRW: `(value, flag)` written to `$rA`, `$rB` -/
def srw (s : St) (cid : Bytes) (key offset : Nat) : St × Except Panic (Nat × Nat) :=
  let (s, v) := readSlot s (cid, key)
  match v with
  | some bytes =>
    let offsetBytes := offset * 8
    let endBytes := offsetBytes + 8
    if bytes.length < endBytes then (s, .error .StorageOutOfBounds)
    else (s, .ok (beNat ((bytes.drop offsetBytes).take 8), 1))
  | none => (s, .ok (0, 0))

/-- SRWQ loop: bytes stored to memory so far, `all_previously_set` -/
def srwqLoop (s : St) (cid : Bytes) : List (Option Nat) → Bytes → Bool → St × Except Panic (Bytes × Nat)
  | [], acc, flag => (s, .ok (acc, if flag then 1 else 0))
  | none :: _, _, _ => (s, .error .TooManySlots)
  | some k :: rest, acc, flag =>
    let (s, v) := readSlot s (cid, k)
    match v with
    | some bytes =>
      if bytes.length ≠ 32 then (s, .error .StorageOutOfBounds)
      else srwqLoop s cid rest (acc ++ bytes) flag
    | none => srwqLoop s cid rest (acc ++ zeros 32) false

/-- SRWQ: the `32 * range` bytes stored at `$rA`, and the flag for `$rB` -/
def srwq (s : St) (cid : Bytes) (key range : Nat) : St × Except Panic (Bytes × Nat) :=
  match toUsize range with
  | none => (s, .error .TooManySlots)
  | some range => srwqLoop s cid (keyRange key range) [] true

/-- SWW: writes the word (left-aligned in 32 bytes), returns `created_new` -/
def sww (maxLen : Nat) (s : St) (cid : Bytes) (key word : Nat) : St × Except Panic Nat :=
  let value := natBE 8 word ++ zeros 24
  let (s, v) := readSlot s (cid, key)
  let createdNew := v.isNone
  match writeSlot maxLen s (cid, key) value with
  | (s, .error e) => (s, .error e)
  | (s, .ok ()) => (s, .ok (if createdNew then 1 else 0))

/-- SWWQ loop over the key range; `vals` = the 32-byte chunks read from memory -/
def swwqLoop (maxLen : Nat) (s : St) (cid : Bytes) : List (Option Nat) → List Bytes → Nat → St × Except Panic Nat
  | [], _, n => (s, .ok n)
  | none :: _, _, _ => (s, .error .TooManySlots)
  | some k :: rest, vals, n =>
    let (s, v) := readSlot s (cid, k)
    let n := if v.isSome then n else n + 1
    match writeSlot maxLen s (cid, k) (vals.headD []) with
    | (s, .error e) => (s, .error e)
    | (s, .ok ()) => swwqLoop maxLen s cid rest vals.tail n

/-- SWWQ: `num_previously_unset` -/
def swwq (maxLen : Nat) (s : St) (cid : Bytes) (key range : Nat) (vals : List Bytes) : St × Except Panic Nat :=
  match toUsize range with
  | none => (s, .error .TooManySlots)
  | some range => swwqLoop maxLen s cid (keyRange key range) vals 0

/-- SCWQ read loop: `all_previously_set` -/
def scwqLoop (s : St) (cid : Bytes) : List (Option Nat) → Bool → St × Except Panic Bool
  | [], flag => (s, .ok flag)
  | none :: _, _ => (s, .error .TooManySlots)
  | some k :: rest, flag =>
    let (s, v) := readSlot s (cid, k)
    scwqLoop s cid rest (flag && v.isSome)

/-- SCWQ: flag, then `storage_clear_slot_range` -/
def scwq (s : St) (cid : Bytes) (key range : Nat) : St × Except Panic Nat :=
  match toUsize range with
  | none => (s, .error .TooManySlots)
  | some range =>
    match scwqLoop s cid (keyRange key range) true with
    | (s, .error e) => (s, .error e)
    | (s, .ok flag) =>
      match clearRange s cid key range with
      | (s, .error e) => (s, .error e)
      | (s, .ok ()) => (s, .ok (if flag then 1 else 0))

/-- SCLR -/
def sclr (s : St) (cid : Bytes) (key range : Nat) : St × Except Panic Unit :=
  match toUsize range with
  | none => (s, .error .TooManySlots)
  | some range => clearRange s cid key range

/-- SRDD / SRDI (`storage_read_to_memory`): `some bytes` = stored to memory with `$err = 0`; `none` = `$err = 1` -/
def srdd (s : St) (cid : Bytes) (key offset len : Nat) : St × Except Panic (Option Bytes) :=
  match toUsize offset, toUsize len with
  | some offset, some len =>
    let (s, v) := readSlot s (cid, key)
    match v with
    | some value =>
      -- value.get(offset..offset.saturating_add(len))
      let end_ := satAdd offset len
      if offset ≤ end_ ∧ end_ ≤ value.length then (s, .ok (some ((value.drop offset).take (end_ - offset))))
      else (s, .error .StorageOutOfBounds)
    | none => (s, .ok none)
  | _, _ => (s, .error .MemoryOverflow)

/-- SWRD / SWRI (`storage_write_from_memory`): `value` = the bytes read from memory -/
def swrd (maxLen : Nat) (s : St) (cid : Bytes) (key : Nat) (value : Bytes) : St × Except Panic Unit :=
  writeSlot maxLen s (cid, key) value

/-- SUPD / SUPI (`storage_update_from_memory`): `src` = the `write_len` bytes read from memory
(`write_len < 2^32`, otherwise the instruction panics `MemoryOverflow` before the memory read) -/
def supd (maxLen : Nat) (s : St) (cid : Bytes) (key offset : Nat) (src : Bytes) : St × Except Panic Unit :=
  let (s, v) := readSlot s (cid, key)
  let value := v.getD []                       -- v.unwrap_or_default().to_vec()
  match (if offset = U64_MAX then some value.length else toUsize offset) with
  | none => (s, .error .MemoryOverflow)
  | some offset =>
  if offset > value.length then (s, .error .StorageOutOfBounds)
  else
    let lenAfter := satAdd offset src.length
    if lenAfter > maxLen then (s, .error .StorageOutOfBounds)
    else
      let value := if lenAfter > value.length then value ++ zeros (lenAfter - value.length) else value
      -- value[offset..len_after].copy_from_slice(src)
      let value := value.take offset ++ src ++ value.drop lenAfter
      writeSlot maxLen s (cid, key) value

/-- SPLD (`storage_preload`): `(len, $err)` -/
def spld (s : St) (cid : Bytes) (key : Nat) : St × (Nat × Nat) :=
  let (s, v) := readSlot s (cid, key)
  match v with
  | some data => (s, (data.length, 0))
  | none => (s, (0, 1))

/-! ### histories -/

/-- one storage instruction with the operands it took from registers / memory -/
inductive Op
  | srw (cid : Bytes) (key offset : Nat)
  | srwq (cid : Bytes) (key range : Nat)
  | sww (cid : Bytes) (key word : Nat)
  | swwq (cid : Bytes) (key range : Nat) (vals : List Bytes)
  | scwq (cid : Bytes) (key range : Nat)
  | sclr (cid : Bytes) (key range : Nat)
  | srdd (cid : Bytes) (key offset len : Nat)
  | swrd (cid : Bytes) (key : Nat) (value : Bytes)
  | supd (cid : Bytes) (key offset : Nat) (src : Bytes)
  | spld (cid : Bytes) (key : Nat)
  /-- end of a transaction (`MemoryClient::transact`: `storage.revert()` if it reverted, else `storage.commit()`) and start
  of the next one (`init_inner`: `storage_slot_cache.clear()`) -/
  | tx (revert : Bool)

/-- observable result of an instruction -/
inductive Out
  | panic (p : Panic)
  | unit
  | regs (a b : Nat)          -- SRW: value, flag; SPLD: len, err
  | flag (n : Nat)            -- SWW / SWWQ / SCWQ
  | mem (bytes : Bytes) (flag : Nat)   -- SRWQ
  | dyn (r : Option Bytes)    -- SRDD/SRDI: `none` ⇒ `$err = 1`
  deriving DecidableEq, Repr

def outOf {α : Type} (f : α → Out) : Except Panic α → Out
  | .ok a => f a
  | .error p => .panic p

def step (maxLen : Nat) (s : St) : Op → St × Out
  | .srw cid key off => let (s, r) := srw s cid key off; (s, outOf (fun p => .regs p.1 p.2) r)
  | .srwq cid key range => let (s, r) := srwq s cid key range; (s, outOf (fun p => .mem p.1 p.2) r)
  | .sww cid key w => let (s, r) := sww maxLen s cid key w; (s, outOf .flag r)
  | .swwq cid key range vals => let (s, r) := swwq maxLen s cid key range vals; (s, outOf .flag r)
  | .scwq cid key range => let (s, r) := scwq s cid key range; (s, outOf .flag r)
  | .sclr cid key range => let (s, r) := sclr s cid key range; (s, outOf (fun _ => .unit) r)
  | .srdd cid key off len => let (s, r) := srdd s cid key off len; (s, outOf .dyn r)
  | .swrd cid key v => let (s, r) := swrd maxLen s cid key v; (s, outOf (fun _ => .unit) r)
  | .supd cid key off src => let (s, r) := supd maxLen s cid key off src; (s, outOf (fun _ => .unit) r)
  | .spld cid key => let (s, r) := spld s cid key; (s, .regs r.1 r.2)
  | .tx revert =>
    let s := if revert then { s with store := s.committed } else { s with committed := s.store }
    ({ s with cache := fun _ => none }, .unit)

/-- run a history, collecting the observable results -/
def run (maxLen : Nat) : St → List Op → St × List Out
  | s, [] => (s, [])
  | s, op :: rest =>
    let (s1, o) := step maxLen s op
    let (s2, os) := run maxLen s1 rest
    (s2, o :: os)

def St.empty (cacheOn : Bool) : St :=
  { store := fun _ => none, cache := fun _ => none, cacheOn := cacheOn, committed := fun _ => none }

end FuelVerif.Storage
