/-
Model of CALL / RET / RETD at the level of registers, call frames and stack memory (C34).

Transcribed from
  fuel-vm/src/interpreter/flow.rs    PrepareCallCtx::prepare_call, RetCtx::{ret, ret_data, return_from_context}
  fuel-vm/src/call.rs                Call, CallFrame (layout from Gen/VmConsts.lean = translator `vm_consts`)
  fuel-vm/src/context.rs             Context::update_from_frame_pointer
  fuel-vm/src/interpreter/internal.rs set_frame_pointer, inc_pc
  fuel-vm/src/interpreter/gas.rs     gas_charge
  fuel-vm/src/interpreter/memory.rs  MemoryInstance::{verify, read, grow_stack, write_noownerchecks} (only what the
                                     call path uses; the memory properties proper are C23/C24)

What the storage, the balances, the gas schedule and the verifier answer during `prepare_call` is not
modelled here (C26/C27/C30/C33): it enters as the parameter `CallEnv`. Receipts (C28) are left out.
-/
import FuelVerif.Basic.Util
import FuelVerif.Gen.VmConsts
namespace FuelVerif.Call
open FuelVerif.Gen

inductive Err where
  | MemoryOverflow | UninitalizedMemoryAccess | MemoryGrowthOverlap | OutOfGas
  | ContractNotInInputs | ContractNotFound
  | BugContextGasUnderflow | BugContextGasOverflow | BugCodeSizeOverflow
  | Env (name : String)      -- failure of a storage / balance step (named by the caller of the model)
deriving DecidableEq, Repr

abbrev Regs := Nat → Nat

def setReg (r : Regs) (i v : Nat) : Regs := fun j => if j = i then v else r j

/-- `MemoryInstance` as far as the call path is concerned: contents, `stack.len()`, `hp` -/
structure Mem where
  bytes : Nat → UInt8
  stackLen : Nat
  hp : Nat

/-- `MemoryInstance::verify` -/
def Mem.verify (m : Mem) (start len : Nat) : Except Err Unit :=
  if start + len > memSize then .error .MemoryOverflow
  else if start + len ≤ m.stackLen ∨ start ≥ m.hp then .ok ()
  else .error .UninitalizedMemoryAccess

/-- `MemoryInstance::read` -/
def Mem.read (m : Mem) (start len : Nat) : Except Err Bytes :=
  match m.verify start len with
  | .error e => .error e
  | .ok () => .ok ((List.range len).map (fun i => m.bytes (start + i)))

/-- `MemoryInstance::grow_stack` (new bytes are zero: `stack.resize(new_sp, 0)`) -/
def Mem.growStack (m : Mem) (newSp : Nat) : Except Err Mem :=
  if newSp > vmMaxRam then .error .MemoryOverflow
  else if newSp > m.stackLen then
    if newSp > m.hp then .error .MemoryGrowthOverlap
    else .ok { m with stackLen := newSp, bytes := fun a => if m.stackLen ≤ a ∧ a < newSp then 0 else m.bytes a }
  else .ok m

/-- `MemoryInstance::write_noownerchecks(addr, len)` followed by filling the slice with `data` -/
def Mem.writeNoOwner (m : Mem) (start : Nat) (data : Bytes) : Except Err Mem :=
  match m.verify start data.length with
  | .error e => .error e
  | .ok () => .ok { m with bytes := fun a => if start ≤ a ∧ a < start + data.length then data.getD (a - start) 0 else m.bytes a }

/-- call.rs `CallFrame` -/
structure Frame where
  to : Bytes
  assetId : Bytes
  registers : Regs
  codeSizePadded : Nat
  a : Nat
  b : Nat

/-- canonical serialization of `CallFrame` (field order of the struct; words big-endian) -/
def Frame.toBytes (f : Frame) : Bytes :=
  f.to ++ f.assetId ++ (List.range vmRegisterCount).flatMap (fun i => natBE wordSize (f.registers i))
    ++ natBE wordSize f.codeSizePadded ++ natBE wordSize f.a ++ natBE wordSize f.b

structure VM where
  regs : Regs
  mem : Mem
  frames : List Frame
  /-- `Context::Call` (true) or `Context::Script` (false); other contexts do not execute CALL -/
  ctxIsCall : Bool

/-- `set_frame_pointer` = `Context::update_from_frame_pointer(fp)` + `$fp := fp`.
Script→Call when fp ≠ 0, Call→Script when fp = 0. -/
def setFramePointer (ctx : Bool) (r : Regs) (fp : Nat) : Bool × Regs :=
  (if ctx then (if fp = 0 then false else true) else (if fp ≠ 0 then true else false), setReg r regFp fp)

/-- `gas_charge(cgas, ggas, g)` (success path; on failure the transaction ends with OutOfGas) -/
def gasCharge (r : Regs) (g : Nat) : Except Err Regs :=
  if g > r regCgas then .error .OutOfGas
  else .ok (setReg (setReg r regGgas (r regGgas - g)) regCgas (r regCgas - g))

/-- `padded_len_usize`: round up to a multiple of 8 -/
def padded (n : Nat) : Nat := (n + 7) / 8 * 8

/-- what the parts of the interpreter not modelled here answer during `prepare_call` -/
structure CallEnv where
  /-- `contract_size(storage, call.to())`; an error (ContractNotFound / storage) is `inl` -/
  codeSize : Except Err Nat
  /-- `gas_costs.call().base()`, charged by `Interpreter::prepare_call` before the context is built -/
  charge0 : Nat
  /-- `resolve_without_base(code_size_padded)` of the CALL cost -/
  charge1 : Nat
  /-- internal context: `balance_decrease(storage, current contract, asset, coins)` -/
  debitInternal : Except Err Unit
  /-- external context: `external_asset_id_balance_sub` → `RuntimeBalances::checked_balance_sub`; on success the new
  balance is also written into the balance table of VM memory (`set_memory_balance_inner`): address of the value word
  and its 8 bytes; `none` when the asset has no entry and the amount is 0 -/
  debitExternal : Except Err (Option (Nat × Bytes))
  /-- `input_contracts.contains(call.to())` -/
  listed : Bool
  /-- `balance_increase`: error, or whether a new balance entry was created -/
  credit : Except Err Bool
  /-- `(32 + 8) * new_storage_per_byte` -/
  charge2 : Nat
  /-- `ContractsRawCode.read_exact(to, 0, code_size)`; `none` = KeyNotFound -/
  code : Option Bytes

/-- the state `prepare_call` builds once every check has passed -/
def buildCallee (vm : VM) (to asset : Bytes) (ca cb : Nat) (coins fwd : Nat) (regsCharged : Regs)
    (codePadded : Nat) (mem' : Mem) : VM :=
  let oldSp := vm.regs callFrameBaseReg                                       -- `let old_sp = *…system_registers.<reg>` (Gen)
  let newSp := oldSp + (frameSize + codePadded)
  let saved := setReg regsCharged regCgas (regsCharged regCgas - fwd)       -- cgas -= forward_gas_amount
  let frame : Frame := ⟨to, asset, saved, codePadded, ca, cb⟩               -- copy_registers() + context/global gas
  let r := setReg saved regSp newSp
  let r := setReg r regSsp newSp
  let r := (setFramePointer vm.ctxIsCall r oldSp).2
  let r := setReg r regPc (oldSp + frameSize)
  let r := setReg r regBal coins
  let r := setReg r regIs (oldSp + frameSize)
  let r := setReg r regCgas fwd
  let r := setReg r regFlag 0
  { regs := r, mem := mem', frames := frame :: vm.frames,
    ctxIsCall := (setFramePointer vm.ctxIsCall saved oldSp).1 }

/-- `if !c { return Err(e) }` -/
def check (c : Bool) (e : Err) : Except Err Unit := if c then .ok () else .error e

/-- `.ok_or(e)?` -/
def orErr {α : Type} (o : Option α) (e : Err) : Except Err α :=
  match o with
  | some x => .ok x
  | none => .error e

/-- the debit of the forwarded coins: storage in an internal context, the in-memory balance table in an external one -/
def debit (env : CallEnv) (vm : VM) : Except Err Mem :=
  if vm.ctxIsCall then
    match env.debitInternal with
    | .error e => .error e
    | .ok () => .ok vm.mem
  else
    match env.debitExternal with
    | .error e => .error e
    | .ok none => .ok vm.mem
    | .ok (some (off, bs)) => vm.mem.writeNoOwner off bs

/-- the bytes of VM memory the debit may write: `(start, length)` -/
def debitRange (env : CallEnv) (vm : VM) : Nat × Nat :=
  if vm.ctxIsCall then (0, 0)
  else match env.debitExternal with
    | .ok (some (off, bs)) => (off, bs.length)
    | _ => (0, 0)

/-- `PrepareCallCtx::prepare_call` with `$rA = a` (call struct pointer), `$rB = b` (coins), `$rC = c`
(asset id pointer), `$rD = d` (gas to forward), in the order of the Rust code -/
def prepareCall (a b c d : Nat) (env : CallEnv) (vm : VM) : Except Err VM := do
  let r0 ← gasCharge vm.regs env.charge0
  let callBytes ← vm.mem.read a callLen
  let to := callBytes.take 32
  let ca := beNat ((callBytes.drop 32).take 8)
  let cb := beNat ((callBytes.drop 40).take 8)
  let asset ← vm.mem.read c 32
  let codeSize ← env.codeSize
  let codePadded := padded codeSize
  check (decide (frameSize + codePadded < 2 ^ 64)) .BugCodeSizeOverflow      -- checked_add
  let r1 ← gasCharge r0 env.charge1
  let m0 ← debit env vm
  check env.listed .ContractNotInInputs                                      -- Verifier::check_contract_in_inputs (Normal)
  let created ← env.credit
  let r2 ← (if created then gasCharge r1 env.charge2 else pure r1)
  let fwd := min (r2 regCgas) d
  check (decide (fwd ≤ r2 regCgas)) .BugContextGasUnderflow                  -- checked_sub
  let oldSp := vm.regs callFrameBaseReg                                       -- `let old_sp = *…system_registers.<reg>` (Gen)
  let newSp := min (oldSp + (frameSize + codePadded)) (2 ^ 64 - 1)           -- saturating_add
  let m1 ← m0.growStack newSp
  m1.verify oldSp (frameSize + codePadded)                                    -- write_noownerchecks(fp, total_size_in_stack)
  let code ← orErr env.code .ContractNotFound
  let saved := setReg r2 regCgas (r2 regCgas - fwd)
  let frame : Frame := ⟨to, asset, saved, codePadded, ca, cb⟩
  let m2 ← m1.writeNoOwner oldSp (frame.toBytes ++ code.take codeSize ++ zeros (codePadded - codeSize))
  pure (buildCallee vm to asset ca cb b fwd r2 codePadded m2)

/-- how the context is left -/
inductive RetKind where
  | ret (a : Nat)
  | retData (a b : Nat)

/-- `RetCtx::ret` / `ret_data`: `$ret`, `$retl` -/
def setRet (k : RetKind) (r : Regs) : Regs :=
  match k with
  | .ret a => setReg (setReg r regRet a) regRetl 0
  | .retData a b => setReg (setReg r regRet a) regRetl b

/-- `registers.copy_from_slice(frame.registers())` surrounded by saving and writing back
`$cgas` (with the frame's context gas added), `$ggas`, `$ret`, `$retl`, `$hp` -/
def restoreRegs (r0 : Regs) (frame : Frame) : Regs :=
  let r := frame.registers
  let r := setReg r regCgas (r0 regCgas + frame.registers regCgas)
  let r := setReg r regGgas (r0 regGgas)
  let r := setReg r regRet (r0 regRet)
  let r := setReg r regRetl (r0 regRetl)
  setReg r regHp (r0 regHp)

/-- `inc_pc`: `$pc.saturating_add(4)` -/
def incPc (r : Regs) : Regs := setReg r regPc (min (r regPc + 4) (2 ^ 64 - 1))

/-- `RetCtx::return_from_context` after `ret`/`ret_data` set `$ret`/`$retl` (receipt push left out) -/
def returnFromContext (k : RetKind) (vm : VM) : Except Err VM :=
  let r0 := setRet k vm.regs
  match vm.frames with
  | [] => .ok { vm with regs := incPc r0 }                       -- no frame: only inc_pc
  | frame :: rest =>
    if r0 regCgas + frame.registers regCgas ≥ 2 ^ 64 then .error .BugContextGasOverflow   -- checked_add
    else
      let r := restoreRegs r0 frame
      let sf := setFramePointer vm.ctxIsCall r (r regFp)
      .ok { regs := incPc sf.2, mem := vm.mem, frames := rest, ctxIsCall := sf.1 }

end FuelVerif.Call
