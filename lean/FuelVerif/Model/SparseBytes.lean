/-
The structural layer (`Model/SparseTree.lean`) instantiated at fuel-merkle's types: keys = 32-byte
strings read MSB first (`common/msb.rs`), value = 32-byte value hash, hashes = `sparse/hash.rs`
over an arbitrary `H` (SHA-256 in the driver).
-/
import FuelVerif.Model.SparseTree
import FuelVerif.Model.SparseStore
namespace FuelVerif.SmtBytes
open FuelVerif FuelVerif.SmtStore FuelVerif.Gen.Sparse

/-- bit `i` (from the MSB) of a key; `false` beyond the key (never read for `i < 8 * key.length`) -/
def bitOf (k : Bytes) (i : Nat) : Bool := (getBitAtIndexFromMsb k i).getD false

/-- `zero_sum`, `calculate_leaf_hash`, `calculate_node_hash` -/
def hashes (H : Bytes → Bytes) : Smt.Hashes Bytes Bytes Bytes :=
  ⟨zeroSum, calculateLeafHash H, calculateNodeHash H⟩

/-- key width in bits -/
def width : Nat := maxHeight

end FuelVerif.SmtBytes
