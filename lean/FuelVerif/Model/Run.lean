/-
The script run loop with its error classification and gas bookkeeping (C29).

Transcribed from
  fuel-vm/src/error.rs                                InterpreterError::{from_runtime, instruction_result}, RuntimeError
  fuel-vm/src/interpreter/executors/instruction.rs   instruction_per_inner's `map_err(from_runtime)`, fetch_instruction
  fuel-vm/src/interpreter/executors/main.rs          run_program (loop = Model/Debug.lean `loop`/`plainLoop`; the
                                                      `gas_limit.checked_sub(remaining_gas)` after the loop)
  fuel-vm/src/interpreter/gas.rs                      gas_charge
Per-opcode behaviour is abstract (`Sem`), except for the one fact C29 is about: every instruction implementation
starts by charging a positive amount of gas (table regenerated from opcodes_impl.rs: Gen/VmGas.lean).
-/
import FuelVerif.Model.Debug
namespace FuelVerif.Run
open FuelVerif.Debug

/-- error.rs `RuntimeError` (payloads that do not matter here are dropped) -/
inductive RuntimeError where
  | recoverable (reason : String)
  | bug (variant : String)
  | storage
deriving DecidableEq, Repr

/-- error.rs `InterpreterError`, the variants reachable from `run_program` -/
inductive IErr where
  | panicInstruction (reason : String) (raw : Nat)
  | panic (reason : String)
  | bug (variant : String)
  | storage
  | debugStateNotInitialized
deriving DecidableEq, Repr

/-- `InterpreterError::from_runtime` -/
def fromRuntime (e : RuntimeError) (raw : Nat) : IErr :=
  match e with
  | .recoverable reason => .panicInstruction reason raw
  | .bug v => .bug v          -- `Self::from(error)`
  | .storage => .storage

/-- `InterpreterError::instruction_result` -/
def instructionResult : IErr → Option (String × Nat)
  | .panicInstruction r raw => some (r, raw)
  | _ => none

/-- `gas_charge(cgas, ggas, g)`: new `(cgas, ggas)` and whether it ran out of gas -/
def gasCharge (cgas ggas g : Nat) : (Nat × Nat) × Bool :=
  if g > cgas then ((0, ggas - cgas), false)          -- ggas.saturating_sub(cgas); cgas = 0; Err(OutOfGas)
  else ((cgas - g, ggas - g), true)

/-- instruction semantics at `RuntimeError` level, with the gas registers visible -/
structure Sem (σ : Type) where
  /-- `fetch_instruction`: the raw word, or the reason of the fetch panic -/
  fetch : σ → Except String Nat
  cgas : σ → Nat
  ggas : σ → Nat
  setGas : σ → Nat × Nat → σ
  /-- the amount of the first `gas_charge` of the implementation selected by `raw` (opcode, state) -/
  cost : Nat → σ → Nat
  /-- everything the implementation does after its first charge succeeded -/
  body : Nat → σ → σ × Except RuntimeError InstrOut
  loc : σ → Option ContractId × Nat
  inCall : σ → Bool
  appendPanicReceipt : String × Nat → σ → σ
  scriptEmpty : Bool
  retOne : σ → σ × Option IErr
  finish : ScriptResult → ProgramState → σ → σ × Option IErr

/-- laws of the gas registers that C29 relies on (C26 proves them for the real bookkeeping). `σ` is the set of
states in which `$cgas ≤ $ggas` (`inv`); accordingly `get_set` speaks about the pairs `gas_charge` writes, which keep
that order (an earlier version asked `get_set` for ALL pairs, which contradicts `inv`: take `g = (1, 0)` — the laws
were unsatisfiable and the theorems below vacuous; Props/C29 `spinLaws` now exhibits a lawful machine). -/
structure GasLaws {σ : Type} (m : Sem σ) : Prop where
  get_set : ∀ s g, g.1 ≤ g.2 → m.cgas (m.setGas s g) = g.1 ∧ m.ggas (m.setGas s g) = g.2
  /-- ggas ≥ cgas is kept by the body (so `ggas - g` cannot underflow), and the body never raises `$ggas` -/
  body_mono : ∀ raw s, m.ggas (m.body raw s).1 ≤ m.ggas s
  receipt_gas : ∀ r s, m.ggas (m.appendPanicReceipt r s) = m.ggas s
  inv : ∀ s, m.cgas s ≤ m.ggas s

/-- `instruction_inner` + `from_runtime`: charge first, then the body -/
def Sem.exec {σ : Type} (m : Sem σ) (raw : Nat) (s : σ) : σ × Except IErr InstrOut :=
  match gasCharge (m.cgas s) (m.ggas s) (m.cost raw s) with
  | (g, false) => (m.setGas s g, .error (fromRuntime (.recoverable "OutOfGas") raw))
  | (g, true) =>
    match m.body raw (m.setGas s g) with
    | (s', .ok o) => (s', .ok o)
    | (s', .error e) => (s', .error (fromRuntime e raw))

/-- the interpreter as the `Machine` of Model/Debug.lean (whose `loop`/`plainLoop` transcribe `run_program`) -/
def Sem.machine {σ : Type} (m : Sem σ) : Machine σ IErr where
  fetch := fun s => match m.fetch s with
    | .ok raw => .ok raw
    | .error reason => .error (.panicInstruction reason 0)
  exec := m.exec
  loc := m.loc
  inCall := m.inCall
  panicReceipt := fun e s => (instructionResult e).map (fun r => m.appendPanicReceipt r s)
  scriptEmpty := m.scriptEmpty
  retOne := m.retOne
  finish := m.finish
  debugNotInit := .debugStateNotInitialized

/-- `gas_limit.checked_sub(self.remaining_gas()).ok_or(Bug(GlobalGasUnderflow))` -/
def gasUsed (gasLimit remaining : Nat) : Except IErr Nat :=
  if remaining ≤ gasLimit then .ok (gasLimit - remaining) else .error (.bug "GlobalGasUnderflow")

end FuelVerif.Run
