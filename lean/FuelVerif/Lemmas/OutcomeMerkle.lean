/-
C28 ∘ C09: the Merkle root calculator of `Model/Outcome.lean` (stack of (height, hash) nodes, total) is simulated
by the calculator of `Model/BinaryMerkle.lean` (stack of (position, hash) nodes, fallible, the one C09's theorems are
about): forgetting positions (`abs`) commutes with `push` on every stack satisfying C09's MMR invariant `Stk`, and
with `root`. Hence the Outcome calculator's root over any list of fewer than 2^63 leaves is the RFC 6962 tree hash
`BMT.mth` — for every hash function, with no assumption on `H []` (both sides are `H []` for the empty list).
-/
import FuelVerif.Lemmas.BinaryMerkle
import FuelVerif.Model.Outcome
namespace FuelVerif.OutcomeMerkle
open FuelVerif

/-- forget the position of a node, keep its height -/
def absNode (n : BMT.Node) : Outcome.Node := ⟨BMT.height n.pos, n.hash⟩
def abs (st : List BMT.Node) : List Outcome.Node := st.map absNode

theorem leafHash_eq (H : Bytes → Bytes) (d : Bytes) : Outcome.leafHash H d = BMT.leafSum H d := rfl
theorem nodeHash_eq (H : Bytes → Bytes) (l r : Bytes) : Outcome.nodeHash H l r = BMT.nodeSum H l r := rfl

theorem mergeTop_single (H : Bytes → Bytes) (fuel : Nat) (x : Outcome.Node) : Outcome.mergeTop H fuel [x] = [x] := by
  cases fuel <;> rfl

/-- the `while` loop of `push_with_callback`, on both models, from a stack satisfying C09's invariant -/
theorem mergeTop_sim {H : BMT.HashFn} {seg : List Bytes → Bytes} (hseg : BMT.SegOk H seg) {m : Nat} (hm : m ≤ 1) :
    ∀ (rest : List BMT.Node) (h : Nat) (L S : List Bytes),
      BMT.Stk seg m h L rest → S.length = 2 ^ h → L.length + S.length < 2 ^ 63 →
      ∀ fuel, rest.length ≤ fuel →
      ∃ st created, BMT.mergeLoop H ⟨BMT.peakPos m L.length h, seg S⟩ rest = .ok (st, created) ∧
        Outcome.mergeTop H fuel (⟨h, seg S⟩ :: abs rest) = abs st := by
  intro rest
  induction rest with
  | nil =>
    intro h L S hstk hS hb fuel _
    cases hstk
    have hh : h < 63 := BMT.pow_lt_63 (n := ([] : List Bytes).length + S.length) (by omega) hb
    refine ⟨_, _, rfl, ?_⟩
    simp only [abs, List.map_nil, List.map_cons, absNode, mergeTop_single]
    rw [BMT.peakPos_height (by omega)]
  | cons lhs rest' ih =>
    intro h L S hstk hS hb fuel hfuel
    cases hstk with
    | @cons _ h' L' S' _ h1 h2 h3 =>
      have hh : h < 63 := BMT.pow_lt_63 (n := (L' ++ S').length + S.length) (by omega) hb
      have hx := Nat.pow_pos (n := h) (show 0 < 2 by decide)
      have hh' : h' < 63 := BMT.pow_lt_63 (n := (L' ++ S').length + S.length) (by rw [List.length_append]; omega) hb
      obtain ⟨f, rfl⟩ : ∃ f, fuel = f + 1 := ⟨fuel - 1, by simp only [List.length_cons] at hfuel; omega⟩
      simp only [List.length_cons] at hfuel
      unfold BMT.mergeLoop
      simp only [BMT.peakPos_height (show h < 64 by omega), BMT.peakPos_height (show h' < 64 by omega)]
      by_cases heq : h = h'
      · subst heq
        simp only [ne_eq, not_true_eq_false, if_false]
        rw [List.length_append] at hb
        rw [BMT.peakPos_parent hm h3.dvd (by omega)]
        simp only [BMT.createNode]
        rw [← hseg h S' S h2 (by omega) (by omega)]
        obtain ⟨st, created, hrun, hsim⟩ := ih (h + 1) L' (S' ++ S) h3
          (by rw [List.length_append, h2, hS, Nat.pow_succ]; omega)
          (by rw [List.length_append]; omega) f (by omega)
        rw [hrun]
        refine ⟨st, _, rfl, ?_⟩
        rw [← hsim]
        simp only [abs, List.map_cons, absNode, BMT.peakPos_height (show h < 64 by omega)]
        rw [Outcome.mergeTop]
        simp only [if_true, nodeHash_eq]
        rw [hseg h S' S h2 (by omega) (by omega)]
      · simp only [ne_eq, heq, not_false_eq_true, if_true]
        refine ⟨_, _, rfl, ?_⟩
        simp only [abs, List.map_cons, absNode, BMT.peakPos_height (show h < 64 by omega),
          BMT.peakPos_height (show h' < 64 by omega)]
        rw [Outcome.mergeTop]
        simp only [heq, if_false]

/-- one `MerkleRootCalculator::push` on both models -/
theorem calcPush_sim (H : BMT.HashFn) {L : List Bytes} {st : List BMT.Node} (d : Bytes)
    (hst : BMT.Stk (BMT.mth H) 0 0 L st) (hb : L.length + 1 < 2 ^ 63) :
    ∃ st', BMT.Stk (BMT.mth H) 0 0 (L ++ [d]) st' ∧ Outcome.calcPush H (abs st) d = abs st' := by
  obtain ⟨st', hpush, hst'⟩ := BMT.calcPush_stk H d hst hb
  obtain ⟨st2, created, hrun, hsim⟩ := mergeTop_sim (BMT.segOk_mth H) (Nat.zero_le 1) st 0 L [d] hst rfl
    (by simpa using hb) (st.length + 1) (by omega)
  rw [BMT.peakPos_zero_leaf, BMT.mth_singleton] at hrun
  have : st' = st2 := by
    simp only [BMT.calcPush, BMT.createLeaf, BMT.fromLeafIndex, BMT.pushWithCallback] at hpush
    simp only [show (2 * 0 < 2 ^ 64) by decide, if_true, Option.map_some, hrun] at hpush
    cases hpush; rfl
  subst this
  refine ⟨st', hst', ?_⟩
  rw [← hsim]
  simp only [Outcome.calcPush, abs, List.length_map, leafHash_eq, BMT.mth_singleton]

/-- any number of pushes -/
theorem foldl_sim (H : BMT.HashFn) : ∀ (ds L : List Bytes) (st : List BMT.Node),
    BMT.Stk (BMT.mth H) 0 0 L st → L.length + ds.length < 2 ^ 63 →
    ∃ st', BMT.Stk (BMT.mth H) 0 0 (L ++ ds) st' ∧ ds.foldl (Outcome.calcPush H) (abs st) = abs st'
  | [], L, st, hst, _ => ⟨st, by simpa using hst, rfl⟩
  | d :: ds, L, st, hst, hb => by
    simp only [List.length_cons] at hb
    obtain ⟨st1, hst1, h1⟩ := calcPush_sim H d hst (by omega)
    obtain ⟨st2, hst2, h2⟩ := foldl_sim H ds (L ++ [d]) st1 hst1
      (by simp only [List.length_append, List.length_singleton]; omega)
    refine ⟨st2, by simpa using hst2, ?_⟩
    simp only [List.foldl_cons, h1, h2]

/-- the hash `MerkleRootCalculator::root` folds does not depend on positions -/
theorem calcRootLoop_hash (H : BMT.HashFn) : ∀ (lefts : List BMT.Node) (right n : BMT.Node),
    BMT.calcRootLoop H right lefts = .ok n →
    n.hash = lefts.foldl (fun acc l => BMT.nodeSum H l.hash acc) right.hash
  | [], right, n, h => by simp only [BMT.calcRootLoop] at h; cases h; rfl
  | left :: rest, right, n, h => by
    unfold BMT.calcRootLoop at h
    split at h
    · cases h
    · rename_i pp hpp
      have := calcRootLoop_hash H rest _ n h
      simpa [BMT.createNode] using this

theorem calcRoot_sim (H : BMT.HashFn) (st : List BMT.Node) (hne : st ≠ []) (r : Bytes)
    (h : BMT.calcRoot H st = .ok r) : Outcome.calcRoot H (abs st) = r := by
  cases st with
  | nil => exact absurd rfl hne
  | cons top rest =>
    simp only [BMT.calcRoot] at h
    split at h
    · cases h
    · rename_i n hn
      cases h
      rw [calcRootLoop_hash H rest top n hn]
      simp only [abs, List.map_cons, Outcome.calcRoot, absNode, List.foldl_map]
      rfl

/-- **the Outcome model's calculator computes the RFC 6962 tree hash** (by simulation with C09's calculator) -/
theorem outcome_root_eq_mth (H : Bytes → Bytes) (encs : List Bytes) (hn : encs.length < 2 ^ 63) :
    Outcome.calcRoot H (encs.foldl (Outcome.calcPush H) []) = BMT.mth H encs := by
  by_cases he : encs = []
  · subst he; rw [BMT.mth]; rfl
  · obtain ⟨st, hst, hf⟩ := foldl_sim H encs [] [] (.nil 0) (by simpa using hn)
    simp only [List.nil_append] at hst
    have hroot := BMT.calcRoot_stk (BMT.segOk_mth H) (Nat.zero_le 1) hst hn
    rw [if_neg he] at hroot
    have hne : st ≠ [] := by
      intro hc; subst hc; cases hst; exact he rfl
    have := calcRoot_sim H st hne _ hroot
    simpa [abs] using hf ▸ this

end FuelVerif.OutcomeMerkle
