/-
Bit-level facts about `common_prefix_count` and the `Ord` of byte strings (`bytesLt`) used by the proof of
`from_set` (`Lemmas/SparseFromSet.lean`): symmetry and uniqueness of the first differing bit, the ultrametric
step, and "the smaller of two ordered keys has 0 at their first differing bit".
-/
import FuelVerif.Lemmas.SparseBits
namespace FuelVerif.SmtBytes
open FuelVerif FuelVerif.SmtStore

/-! ### order of naturals from their bits -/

theorem nat_lt_of_testBit {x y t : Nat} (hx : x.testBit t = false) (hy : y.testBit t = true)
    (hj : ∀ j, t < j → x.testBit j = y.testBit j) : x < y := by
  have hq : x / 2 ^ (t + 1) = y / 2 ^ (t + 1) := by
    apply Nat.eq_of_testBit_eq
    intro i
    rw [Nat.testBit_div_two_pow, Nat.testBit_div_two_pow]
    exact hj _ (by omega)
  rw [Nat.testBit_eq_decide_div_mod_eq] at hx hy
  simp only [decide_eq_false_iff_not, decide_eq_true_eq] at hx hy
  apply Nat.lt_of_div_lt_div (c := 2 ^ t)
  have e1 : x / 2 ^ t / 2 = x / 2 ^ (t + 1) := by rw [Nat.div_div_eq_div_mul, Nat.pow_succ]
  have e2 : y / 2 ^ t / 2 = y / 2 ^ (t + 1) := by rw [Nat.div_div_eq_div_mul, Nat.pow_succ]
  omega

/-! ### `common_prefix_count` -/

theorem cpc_comm : ∀ (a b : Bytes), commonPrefixCount a b = commonPrefixCount b a
  | [], [] => rfl
  | [], _ :: _ => rfl
  | _ :: _, [] => rfl
  | x :: as, y :: bs => by
    unfold commonPrefixCount
    by_cases e : x = y
    · subst e; simp only [↓reduceIte]; rw [cpc_comm as bs]
    · have e' : ¬ y = x := fun h => e h.symm
      simp only [e, e', ↓reduceIte]
      rw [UInt8.xor_comm]

/-- the first differing bit is unique -/
theorem cpc_unique (a b : Bytes) (hl : a.length = b.length) (i : Nat)
    (hbelow : ∀ j, j < i → bitOf a j = bitOf b j) (hat : bitOf a i ≠ bitOf b i) :
    commonPrefixCount a b = i := by
  have hne : a ≠ b := fun h => hat (by rw [h])
  obtain ⟨_, h2, h3⟩ := cpc_spec a b hl hne
  have h4 : ¬ commonPrefixCount a b < i := fun h => h3 (hbelow _ h)
  have h5 : ¬ i < commonPrefixCount a b := fun h => hat (h2 _ h)
  omega

/-- ultrametric step: if `a`, `b` first differ at `p` and `b`, `c` first differ at `q < p`, then `a`, `c`
first differ at `q` -/
theorem cpc_ultra (a b c : Bytes) (hab : a.length = b.length) (hbc : b.length = c.length)
    (hne1 : a ≠ b) (hne2 : b ≠ c) (h : commonPrefixCount b c < commonPrefixCount a b) :
    commonPrefixCount a c = commonPrefixCount b c := by
  obtain ⟨_, a2, _⟩ := cpc_spec a b hab hne1
  obtain ⟨_, b2, b3⟩ := cpc_spec b c hbc hne2
  apply cpc_unique a c (hab.trans hbc)
  · intro j hj
    rw [a2 j (by omega), b2 j hj]
  · rw [a2 _ h]; exact b3

/-! ### `bytesLt` (lexicographic order of equal-length byte strings) -/

theorem bytesLt_irrefl : ∀ a : Bytes, bytesLt a a = false
  | [] => rfl
  | x :: as => by
    unfold bytesLt
    have : ¬ x < x := UInt8.lt_irrefl x
    simp only [this, ↓reduceIte]
    exact bytesLt_irrefl as

theorem bytesLt_ne {a b : Bytes} (h : bytesLt a b = true) : a ≠ b := by
  intro e; subst e; rw [bytesLt_irrefl] at h; cases h

theorem bytesLt_total : ∀ (a b : Bytes), a.length = b.length → a ≠ b → bytesLt a b = true ∨ bytesLt b a = true
  | [], [], _, hne => absurd rfl hne
  | [], _ :: _, hl, _ => by simp at hl
  | _ :: _, [], hl, _ => by simp at hl
  | x :: as, y :: bs, hl, hne => by
    unfold bytesLt
    by_cases h1 : x < y
    · left; simp only [h1, ↓reduceIte]
    · by_cases h2 : y < x
      · right; simp only [h2, ↓reduceIte]
      · have e : x = y := by
          apply UInt8.toNat_inj.mp
          have a1 : ¬ x.toNat < y.toNat := fun h => h1 (UInt8.lt_iff_toNat_lt.mpr h)
          have a2 : ¬ y.toNat < x.toNat := fun h => h2 (UInt8.lt_iff_toNat_lt.mpr h)
          omega
        subst e
        simp only [h1, ↓reduceIte]
        exact bytesLt_total as bs (by simpa using hl) (fun h => hne (by rw [h]))

theorem bytesLt_trans : ∀ (a b c : Bytes), bytesLt a b = true → bytesLt b c = true → bytesLt a c = true
  | [], [], _, h, _ => by simp [bytesLt] at h
  | [], _ :: _, [], _, h => by simp [bytesLt] at h
  | [], _ :: _, _ :: _, _, _ => by simp [bytesLt]
  | _ :: _, [], _, h, _ => by simp [bytesLt] at h
  | _ :: _, _ :: _, [], _, h => by simp [bytesLt] at h
  | x :: as, y :: bs, z :: cs, h1, h2 => by
    unfold bytesLt at h1 h2 ⊢
    by_cases xy : x < y
    · by_cases yz : y < z
      · have : x < z := UInt8.lt_trans xy yz
        simp only [this, ↓reduceIte]
      · simp only [yz, ↓reduceIte] at h2
        by_cases zy : z < y
        · simp [zy] at h2
        · have e : y = z := by
            apply UInt8.toNat_inj.mp
            have a1 : ¬ y.toNat < z.toNat := fun h => yz (UInt8.lt_iff_toNat_lt.mpr h)
            have a2 : ¬ z.toNat < y.toNat := fun h => zy (UInt8.lt_iff_toNat_lt.mpr h)
            omega
          subst e
          simp only [xy, ↓reduceIte]
    · simp only [xy, ↓reduceIte] at h1
      by_cases yx : y < x
      · simp [yx] at h1
      · have e : x = y := by
          apply UInt8.toNat_inj.mp
          have a1 : ¬ x.toNat < y.toNat := fun h => xy (UInt8.lt_iff_toNat_lt.mpr h)
          have a2 : ¬ y.toNat < x.toNat := fun h => yx (UInt8.lt_iff_toNat_lt.mpr h)
          omega
        subst e
        simp only [yx, ↓reduceIte] at h1
        by_cases xz : x < z
        · simp only [xz, ↓reduceIte]
        · simp only [xz, ↓reduceIte] at h2 ⊢
          by_cases zx : z < x
          · simp [zx] at h2
          · simp only [zx, ↓reduceIte] at h2 ⊢
            exact bytesLt_trans as bs cs h1 h2

/-- **of two ordered keys the smaller has 0 and the larger 1 at their first differing bit** -/
theorem bytesLt_bit : ∀ (a b : Bytes), a.length = b.length → bytesLt a b = true →
    bitOf a (commonPrefixCount a b) = false ∧ bitOf b (commonPrefixCount a b) = true
  | [], [], _, h => by simp [bytesLt] at h
  | [], _ :: _, hl, _ => by simp at hl
  | _ :: _, [], hl, _ => by simp at hl
  | x :: as, y :: bs, hl, h => by
    unfold bytesLt at h
    unfold commonPrefixCount
    by_cases e : x = y
    · subst e
      have : ¬ x < x := UInt8.lt_irrefl x
      simp only [this, ↓reduceIte] at h
      obtain ⟨i1, i2⟩ := bytesLt_bit as bs (by simpa using hl) h
      simp only [↓reduceIte]
      rw [bitOf_cons_ge _ _ _ (by omega), bitOf_cons_ge _ _ _ (by omega)]
      have : 8 + commonPrefixCount as bs - 8 = commonPrefixCount as bs := by omega
      rw [this]
      exact ⟨i1, i2⟩
    · simp only [e, ↓reduceIte]
      obtain ⟨l1, l2, l3⟩ := lz_spec e
      have hxy : x < y := by
        by_cases xy : x < y
        · exact xy
        · simp only [xy, ↓reduceIte] at h
          by_cases yx : y < x
          · simp [yx] at h
          · exfalso; apply e
            apply UInt8.toNat_inj.mp
            have a1 : ¬ x.toNat < y.toNat := fun h => xy (UInt8.lt_iff_toNat_lt.mpr h)
            have a2 : ¬ y.toNat < x.toNat := fun h => yx (UInt8.lt_iff_toNat_lt.mpr h)
            omega
      rw [bitOf_cons_lt _ _ _ l1, bitOf_cons_lt _ _ _ l1]
      -- bits above position `7 - lz` agree, so the byte with the 1 there is the larger one
      have hhigh : ∀ j, 7 - leadingZeros8 (x ^^^ y) < j → x.toNat.testBit j = y.toNat.testBit j := by
        intro j hj
        by_cases h8 : j < 8
        · have := l2 (7 - j) (by omega)
          have e7 : 7 - (7 - j) = j := by omega
          rw [e7] at this; exact this
        · have p8 : (2 : Nat) ^ 8 ≤ 2 ^ j := Nat.pow_le_pow_right (by decide) (by omega)
          rw [Nat.testBit_lt_two_pow (Nat.lt_of_lt_of_le x.toNat_lt p8),
            Nat.testBit_lt_two_pow (Nat.lt_of_lt_of_le y.toNat_lt p8)]
      cases hbx : x.toNat.testBit (7 - leadingZeros8 (x ^^^ y)) with
      | false =>
        cases hby : y.toNat.testBit (7 - leadingZeros8 (x ^^^ y)) with
        | false => exact absurd (hbx.trans hby.symm) l3
        | true => exact ⟨rfl, rfl⟩
      | true =>
        cases hby : y.toNat.testBit (7 - leadingZeros8 (x ^^^ y)) with
        | true => exact absurd (hbx.trans hby.symm) l3
        | false =>
          exfalso
          have := nat_lt_of_testBit hby hbx (fun j hj => (hhigh j hj).symm)
          have := UInt8.lt_iff_toNat_lt.mp hxy
          omega

end FuelVerif.SmtBytes
