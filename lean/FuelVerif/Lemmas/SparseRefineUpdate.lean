/-
Refinement, part 2: the "merge side nodes" loop of `update_with_path_set` / `delete_with_path_set` on a
represented tree rebuilds the path from the replaced terminal upwards.
-/
import FuelVerif.Lemmas.SparseRefine
namespace FuelVerif.SmtRefine
open FuelVerif FuelVerif.SmtStore FuelVerif.SmtBytes FuelVerif.Gen.Sparse FuelVerif.Smt

variable (H : Bytes → Bytes) {U : T → Prop} (hok : HashOn H U) {σ : Type} (S : StoreOps σ)

/-- the old path nodes above the terminal, leaf-to-root -/
def upParents (k : Key32) : Nat → T → List Node
  | d, .node l r =>
    (if bit32 k d then upParents k (d + 1) r else upParents k (d + 1) l) ++ [nodeOf H hok d (.node l r)]
  | _, _ => []

/-- the subtree the path of `k` ends at (a leaf or a placeholder) and its depth -/
def term (k : Key32) : Nat → T → T
  | d, .node l r => if bit32 k d then term k (d + 1) r else term k (d + 1) l
  | _, t => t

def termDepth (k : Key32) : Nat → T → Nat
  | d, .node l r => if bit32 k d then termDepth k (d + 1) r else termDepth k (d + 1) l
  | d, _ => d

/-- the tree with the terminal replaced by `c` -/
def replace (k : Key32) (c : T) : Nat → T → T
  | d, .node l r =>
    if bit32 k d then .node l (replace k c (d + 1) r) else .node (replace k c (d + 1) l) r
  | _, _ => c

/-- hashes of the old path nodes above the terminal -/
def spine (k : Key32) : Nat → T → List Bytes
  | d, .node l r => hb H hok (.node l r) :: (if bit32 k d then spine k (d + 1) r else spine k (d + 1) l)
  | _, _ => []

/-- hashes of the new path nodes above the replaced terminal -/
def newSpine (k : Key32) (c : T) : Nat → T → List Bytes
  | d, .node l r => hb H hok (replace k c d (.node l r)) ::
      (if bit32 k d then newSpine k c (d + 1) r else newSpine k c (d + 1) l)
  | _, _ => []

/-- the new path nodes above the replaced terminal are stored with the heights of their depths -/
def SpineStored (st : σ) (k : Key32) (c : T) : Nat → T → Prop
  | d, .node l r =>
    S.get st (hb H hok (replace k c d (.node l r))) =
        some (nodeOf H hok d (replace k c d (.node l r))).toPrim ∧
      (if bit32 k d then SpineStored st k c (d + 1) r else SpineStored st k c (d + 1) l)
  | _, _ => True

/-- the siblings hanging off the path are stored -/
def OffStored (st : σ) (k : Key32) : Nat → T → Prop
  | d, .node l r =>
    if bit32 k d then Stored H hok S st (d + 1) l ∧ OffStored st k (d + 1) r
    else Stored H hok S st (d + 1) r ∧ OffStored st k (d + 1) l
  | _, _ => True

/-- hashes of all nodes of the siblings hanging off the path -/
def offHashes (k : Key32) : Nat → T → List Bytes
  | d, .node l r =>
    if bit32 k d then hashesOf H hok l ++ offHashes k (d + 1) r
    else hashesOf H hok r ++ offHashes k (d + 1) l
  | _, _ => []

theorem upNodes_eq (k : Key32) :
    ∀ (t : T) (d : Nat),
      upNodes H hok k d t = nodeOf H hok (termDepth k d t) (term k d t) :: upParents H hok k d t
  | .empty, _ => rfl
  | .leaf _ _, _ => rfl
  | .node l r, d => by
    unfold upNodes upParents term termDepth
    by_cases hb' : bit32 k d = true
    · simp only [hb', ↓reduceIte]; rw [upNodes_eq k r (d + 1)]; rfl
    · simp only [hb', Bool.false_eq_true, ↓reduceIte]; rw [upNodes_eq k l (d + 1)]; rfl

theorem upSides_length (k : Key32) :
    ∀ (t : T) (d : Nat), (upSides H hok k d t).length = (upParents H hok k d t).length
  | .empty, _ => rfl
  | .leaf _ _, _ => rfl
  | .node l r, d => by
    unfold upSides upParents
    by_cases hb' : bit32 k d = true
    · simp only [hb', ↓reduceIte, List.length_append]; rw [upSides_length k r (d + 1)]; rfl
    · simp only [hb', Bool.false_eq_true, ↓reduceIte, List.length_append]; rw [upSides_length k l (d + 1)]; rfl

theorem termDepth_eq (k : Key32) :
    ∀ (t : T) (d : Nat), termDepth k d t = d + (upSides H hok k d t).length
  | .empty, _ => rfl
  | .leaf _ _, _ => rfl
  | .node l r, d => by
    unfold termDepth upSides
    by_cases hb' : bit32 k d = true
    · simp only [hb', ↓reduceIte, List.length_append, List.length_cons, List.length_nil]
      rw [termDepth_eq k r (d + 1)]; omega
    · simp only [hb', Bool.false_eq_true, ↓reduceIte, List.length_append, List.length_cons, List.length_nil]
      rw [termDepth_eq k l (d + 1)]; omega

theorem mergeSides_append (rm : Bool) (s : Bytes) (p : Node) :
    ∀ (sides : List Bytes) (parents : List Node) (cur : Node) (st : σ),
      sides.length = parents.length →
      mergeSides H S rm (sides ++ [s]) (parents ++ [p]) cur st =
        mergeSides H S rm [s] [p] (mergeSides H S rm sides parents cur st).1
          (mergeSides H S rm sides parents cur st).2
  | [], [], _, _, _ => rfl
  | [], _ :: _, _, _, h => by simp at h
  | _ :: _, [], _, _, h => by simp at h
  | x :: sides, y :: parents, cur, st, h => by
    simp only [List.cons_append, mergeSides]
    exact mergeSides_append rm s p sides parents _ _ (by simpa using h)

/-- the two children of a canonical internal node have different hashes -/
theorem canon_children_ne {d : Nat} {l r : T} (hc : Canon bit32 width d (.node l r))
    (hU : ∀ u, IsSub u (.node l r) → U u) : hb H hok l ≠ hb H hok r := by
  intro e
  have e' := hb_inj_sub H hok hU hU (child_left_sub l r) (child_right_sub l r) e
  subst e'
  obtain ⟨_, hl, hr, hsz, _, _⟩ := hc
  obtain ⟨k, h1, h2⟩ := exists_of_all (t := l) (by omega) hl hr
  rw [h1] at h2
  cases h2

theorem mergeSides_single (rm : Bool) (s : Bytes) (p cur : Node) (st : σ) :
    mergeSides H S rm [s] [p] cur st =
      (let np := if p.bytesLo = s then Node.createNodeFromHashes H s cur.hash p.height
                 else Node.createNodeFromHashes H cur.hash s p.height
       (np, if rm then S.remove (putNode S st np) p.hash else putNode S st np)) := by
  simp only [mergeSides]

theorem spineStored_congr {st st' : σ} (k : Key32) (c : T) :
    ∀ (t : T) (d : Nat), SpineStored H hok S st k c d t →
      (∀ h, h ∈ newSpine H hok k c d t → S.get st' h = S.get st h) → SpineStored H hok S st' k c d t
  | .empty, _, _, _ => trivial
  | .leaf _ _, _, _, _ => trivial
  | .node l r, d, hs, hg => by
    unfold SpineStored at hs ⊢
    unfold newSpine at hg
    refine ⟨by rw [hg _ (by simp)]; exact hs.1, ?_⟩
    by_cases hb' : bit32 k d = true
    · simp only [hb', ↓reduceIte] at hs hg ⊢
      exact spineStored_congr k c r (d + 1) hs.2 (fun h hm => hg h (by simp [hm]))
    · simp only [hb', Bool.false_eq_true, ↓reduceIte] at hs hg ⊢
      exact spineStored_congr k c l (d + 1) hs.2 (fun h hm => hg h (by simp [hm]))

variable (laws : StoreLaws S)
include laws

/-- **the merge-side-nodes loop rebuilds the path**: started from the node of the new terminal `c`, it
returns the node of the tree with the terminal replaced, touches only the old and new path hashes, and
leaves every new path node stored -/
theorem mergeSides_replace (rm : Bool) (k : Key32) (c : T) :
    ∀ (t : T) (d : Nat) (st : σ), Canon bit32 width d t → (∀ u, IsSub u t → U u) →
      (rm = true → ∀ h, h ∈ spine H hok k d t → h ∉ newSpine H hok k c d t) →
      (newSpine H hok k c d t).Nodup →
      (mergeSides H S rm (upSides H hok k d t) (upParents H hok k d t)
          (nodeOf H hok (termDepth k d t) c) st).1 = nodeOf H hok d (replace k c d t) ∧
      (∀ h, (rm = true → h ∉ spine H hok k d t) → h ∉ newSpine H hok k c d t →
        S.get (mergeSides H S rm (upSides H hok k d t) (upParents H hok k d t)
          (nodeOf H hok (termDepth k d t) c) st).2 h = S.get st h) ∧
      SpineStored H hok S (mergeSides H S rm (upSides H hok k d t) (upParents H hok k d t)
          (nodeOf H hok (termDepth k d t) c) st).2 k c d t
  | .empty, d, st, _, _, _, _ => by
    simp [upSides, upParents, termDepth, mergeSides, replace, SpineStored]
  | .leaf _ _, d, st, _, _, _, _ => by
    simp [upSides, upParents, termDepth, mergeSides, replace, SpineStored]
  | .node l r, d, st, hc, hU, hp1, hnd => by
    have hcn := hc
    obtain ⟨hdn, hl, hr, hsz, hcl, hcr⟩ := hc
    have hne := canon_children_ne H hok hcn hU
    by_cases hb' : bit32 k d = true
    · -- the path goes right; the side node is the left child
      have e1 : upSides H hok k d (.node l r) = upSides H hok k (d + 1) r ++ [hb H hok l] := by
        simp [upSides, hb']
      have e2 : upParents H hok k d (.node l r) =
          upParents H hok k (d + 1) r ++ [nodeOf H hok d (.node l r)] := by simp [upParents, hb']
      have e3 : termDepth k d (.node l r) = termDepth k (d + 1) r := by simp [termDepth, hb']
      have e4 : replace k c d (.node l r) = .node l (replace k c (d + 1) r) := by simp [replace, hb']
      have e5 : spine H hok k d (.node l r) = hb H hok (.node l r) :: spine H hok k (d + 1) r := by
        simp [spine, hb']
      have e6 : newSpine H hok k c d (.node l r) =
          hb H hok (.node l (replace k c (d + 1) r)) :: newSpine H hok k c (d + 1) r := by
        simp [newSpine, hb', e4]
      rw [e6] at hnd hp1
      rw [e5] at hp1
      obtain ⟨ih1, ih2, ih3⟩ := mergeSides_replace rm k c r (d + 1) st hcr (fun u hu => hU u (.inr (.inr hu)))
        (fun hrm h hm hn => hp1 hrm h (by simp [hm]) (by simp [hn]))
        (List.nodup_cons.mp hnd).2
      rw [e1, e2, e3, mergeSides_append H S rm _ _ _ _ _ _ (upSides_length H hok k r (d + 1)),
        mergeSides_single]
      generalize hm : mergeSides H S rm (upSides H hok k (d + 1) r) (upParents H hok k (d + 1) r)
        (nodeOf H hok (termDepth k (d + 1) r) c) st = res at ih1 ih2 ih3
      have hlo : (nodeOf H hok d (Tree.node l r)).bytesLo = hb H hok l := rfl
      have hht : (nodeOf H hok d (Tree.node l r)).height = maxHeight - d := rfl
      have hhs : (nodeOf H hok d (Tree.node l r)).hash = hb H hok (.node l r) := rfl
      have hnp : Node.createNodeFromHashes H (hb H hok l) res.1.hash (maxHeight - d) =
          nodeOf H hok d (.node l (replace k c (d + 1) r)) := by
        rw [ih1, nodeOf_hash]; rfl
      simp only [hlo, ↓reduceIte, hht, hhs, hnp]
      have hnph : (nodeOf H hok d (.node l (replace k c (d + 1) r))).hash =
          hb H hok (.node l (replace k c (d + 1) r)) := rfl
      refine ⟨by rw [e4], ?_, ?_⟩
      · intro h h1 h2
        rw [e5] at h1
        rw [e6] at h2
        simp only [List.mem_cons, not_or] at h1 h2
        have hin : S.get (putNode S res.2 (nodeOf H hok d (.node l (replace k c (d + 1) r)))) h =
            S.get st h := by
          unfold putNode
          rw [laws.get_insert, hnph, if_neg (fun e => h2.1 e.symm)]
          exact ih2 h (fun hrm => (h1 hrm).2) h2.2
        cases rm with
        | false => simpa using hin
        | true =>
          simp only [↓reduceIte]
          rw [laws.get_remove, if_neg (fun e => (h1 rfl).1 e.symm)]
          exact hin
      · unfold SpineStored
        rw [e4]
        simp only [hb', ↓reduceIte]
        have htop : S.get (putNode S res.2 (nodeOf H hok d (.node l (replace k c (d + 1) r))))
            (hb H hok (.node l (replace k c (d + 1) r))) =
            some (nodeOf H hok d (.node l (replace k c (d + 1) r))).toPrim := by
          unfold putNode; rw [laws.get_insert, hnph]; simp
        have hinner : ∀ h, h ∈ newSpine H hok k c (d + 1) r →
            S.get (putNode S res.2 (nodeOf H hok d (.node l (replace k c (d + 1) r)))) h =
              S.get res.2 h := by
          intro h hm
          unfold putNode
          rw [laws.get_insert, hnph, if_neg]
          intro e; rw [← e] at hm; exact (List.nodup_cons.mp hnd).1 hm
        cases rm with
        | false =>
          simp only [Bool.false_eq_true, ↓reduceIte]
          exact ⟨htop, spineStored_congr H hok S k c r (d + 1) ih3 hinner⟩
        | true =>
          simp only [↓reduceIte]
          have hold : hb H hok (.node l r) ∉
              hb H hok (.node l (replace k c (d + 1) r)) :: newSpine H hok k c (d + 1) r :=
            hp1 rfl _ (by simp)
          simp only [List.mem_cons, not_or] at hold
          refine ⟨by rw [laws.get_remove, if_neg hold.1]; exact htop, ?_⟩
          apply spineStored_congr H hok S k c r (d + 1) ih3
          intro h hm
          rw [laws.get_remove, if_neg (fun e => hold.2 (by rw [e]; exact hm))]
          exact hinner h hm
    · -- the path goes left; the side node is the right child
      have hbf : bit32 k d = false := by simpa using hb'
      have e1 : upSides H hok k d (.node l r) = upSides H hok k (d + 1) l ++ [hb H hok r] := by
        simp [upSides, hbf]
      have e2 : upParents H hok k d (.node l r) =
          upParents H hok k (d + 1) l ++ [nodeOf H hok d (.node l r)] := by simp [upParents, hbf]
      have e3 : termDepth k d (.node l r) = termDepth k (d + 1) l := by simp [termDepth, hbf]
      have e4 : replace k c d (.node l r) = .node (replace k c (d + 1) l) r := by simp [replace, hbf]
      have e5 : spine H hok k d (.node l r) = hb H hok (.node l r) :: spine H hok k (d + 1) l := by
        simp [spine, hbf]
      have e6 : newSpine H hok k c d (.node l r) =
          hb H hok (.node (replace k c (d + 1) l) r) :: newSpine H hok k c (d + 1) l := by
        simp [newSpine, hbf, e4]
      rw [e6] at hnd hp1
      rw [e5] at hp1
      obtain ⟨ih1, ih2, ih3⟩ := mergeSides_replace rm k c l (d + 1) st hcl (fun u hu => hU u (.inr (.inl hu)))
        (fun hrm h hm hn => hp1 hrm h (by simp [hm]) (by simp [hn]))
        (List.nodup_cons.mp hnd).2
      rw [e1, e2, e3, mergeSides_append H S rm _ _ _ _ _ _ (upSides_length H hok k l (d + 1)),
        mergeSides_single]
      generalize hm : mergeSides H S rm (upSides H hok k (d + 1) l) (upParents H hok k (d + 1) l)
        (nodeOf H hok (termDepth k (d + 1) l) c) st = res at ih1 ih2 ih3
      have hlo : (nodeOf H hok d (Tree.node l r)).bytesLo = hb H hok l := rfl
      have hht : (nodeOf H hok d (Tree.node l r)).height = maxHeight - d := rfl
      have hhs : (nodeOf H hok d (Tree.node l r)).hash = hb H hok (.node l r) := rfl
      have hnp : Node.createNodeFromHashes H res.1.hash (hb H hok r) (maxHeight - d) =
          nodeOf H hok d (.node (replace k c (d + 1) l) r) := by
        rw [ih1, nodeOf_hash]; rfl
      simp only [hlo, if_neg hne, hht, hhs, hnp]
      have hnph : (nodeOf H hok d (.node (replace k c (d + 1) l) r)).hash =
          hb H hok (.node (replace k c (d + 1) l) r) := rfl
      refine ⟨by rw [e4], ?_, ?_⟩
      · intro h h1 h2
        rw [e5] at h1
        rw [e6] at h2
        simp only [List.mem_cons, not_or] at h1 h2
        have hin : S.get (putNode S res.2 (nodeOf H hok d (.node (replace k c (d + 1) l) r))) h =
            S.get st h := by
          unfold putNode
          rw [laws.get_insert, hnph, if_neg (fun e => h2.1 e.symm)]
          exact ih2 h (fun hrm => (h1 hrm).2) h2.2
        cases rm with
        | false => simpa using hin
        | true =>
          simp only [↓reduceIte]
          rw [laws.get_remove, if_neg (fun e => (h1 rfl).1 e.symm)]
          exact hin
      · unfold SpineStored
        rw [e4]
        simp only [hbf, Bool.false_eq_true, ↓reduceIte]
        have htop : S.get (putNode S res.2 (nodeOf H hok d (.node (replace k c (d + 1) l) r)))
            (hb H hok (.node (replace k c (d + 1) l) r)) =
            some (nodeOf H hok d (.node (replace k c (d + 1) l) r)).toPrim := by
          unfold putNode; rw [laws.get_insert, hnph]; simp
        have hinner : ∀ h, h ∈ newSpine H hok k c (d + 1) l →
            S.get (putNode S res.2 (nodeOf H hok d (.node (replace k c (d + 1) l) r))) h =
              S.get res.2 h := by
          intro h hm
          unfold putNode
          rw [laws.get_insert, hnph, if_neg]
          intro e; rw [← e] at hm; exact (List.nodup_cons.mp hnd).1 hm
        cases rm with
        | false =>
          simp only [Bool.false_eq_true, ↓reduceIte]
          exact ⟨htop, spineStored_congr H hok S k c l (d + 1) ih3 hinner⟩
        | true =>
          simp only [↓reduceIte]
          have hold : hb H hok (.node l r) ∉
              hb H hok (.node (replace k c (d + 1) l) r) :: newSpine H hok k c (d + 1) l :=
            hp1 rfl _ (by simp)
          simp only [List.mem_cons, not_or] at hold
          refine ⟨by rw [laws.get_remove, if_neg hold.1]; exact htop, ?_⟩
          apply spineStored_congr H hok S k c l (d + 1) ih3
          intro h hm
          rw [laws.get_remove, if_neg (fun e => hold.2 (by rw [e]; exact hm))]
          exact hinner h hm

end FuelVerif.SmtRefine
