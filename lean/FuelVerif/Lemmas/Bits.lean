/- Bit-operation lemmas turning the shifts, masks and ORs of the models into `/`, `%`, `*`, `+` for `omega`. -/
namespace FuelVerif.Bits

theorem mul_or (a b k : Nat) (h : b < 2 ^ k) : a * 2 ^ k ||| b = a * 2 ^ k + b := by
  have := Nat.shiftLeft_add_eq_or_of_lt h a
  simp only [Nat.shiftLeft_eq] at this
  exact this.symm

theorem shl_or (a b k : Nat) (h : b < 2 ^ k) : a <<< k ||| b = a * 2 ^ k + b := by
  rw [Nat.shiftLeft_eq]; exact mul_or a b k h

theorem and_mask (x n : Nat) : x &&& (2 ^ n - 1) = x % 2 ^ n := Nat.and_two_pow_sub_one_eq_mod x n

theorem and63 (x : Nat) : x &&& 63 = x % 64 := and_mask x 6
theorem and4095 (x : Nat) : x &&& 4095 = x % 4096 := and_mask x 12
theorem and262143 (x : Nat) : x &&& 262143 = x % 262144 := and_mask x 18
theorem and16777215 (x : Nat) : x &&& 16777215 = x % 16777216 := and_mask x 24

end FuelVerif.Bits

namespace FuelVerif.Bits
theorem mulor6 (a b : Nat) (h : b < 64) : a * 64 ||| b = a * 64 + b := mul_or a b 6 h
theorem mulor12 (a b : Nat) (h : b < 4096) : a * 4096 ||| b = a * 4096 + b := mul_or a b 12 h
theorem mulor18 (a b : Nat) (h : b < 262144) : a * 262144 ||| b = a * 262144 + b := mul_or a b 18 h
theorem mulor24 (a b : Nat) (h : b < 16777216) : a * 16777216 ||| b = a * 16777216 + b := mul_or a b 24 h
end FuelVerif.Bits
