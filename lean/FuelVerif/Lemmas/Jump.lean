/- Helper lemmas for C25: saturating arithmetic as `min`, the taken-jump skeleton, per-mode target lemmas. -/
import FuelVerif.Model.Jump
import FuelVerif.Lemmas.Alu
namespace FuelVerif.Alu
open FuelVerif.Gen.AluArgs FuelVerif.Gen.Fetch

theorem satAdd_eq_min (a b : Nat) : satAdd a b = min (a + b) (2 ^ 64 - 1) := by
  unfold satAdd; split <;> omega

theorem satMul4_eq_min (a : Nat) : satMul a instrSize = min (a * 4) (2 ^ 64 - 1) := by
  unfold satMul instrSize; split <;> omega

theorem jump_untaken (a : JumpArgs) (r : Regs) (hc : a.condition = false) : jump a r = (incPc r, none) := by
  simp [jump, hc]

theorem jump_taken (a : JumpArgs) (r : Regs) (hc : a.condition = true) (t : Nat)
    (ht : jumpTarget a (r regIS) (r regPC) = .ok t) :
    jump a r = if t < vmMaxRam then (r.set regPC t, none) else (r, some .MemoryOverflow) := by
  simp only [jump, hc, ht, not_true_eq_false, if_false]
  by_cases h : t < vmMaxRam
  · rw [if_neg (by omega), if_pos h]
  · rw [if_pos (by omega), if_neg h]

/-- absolute mode: `$is + 4·(dyn + fixed)`, exact arithmetic; any saturated intermediate is `≥ VM_MAX_RAM`
and therefore panics exactly when the exact target is out of memory -/
theorem jump_abs_core (r : Regs) (dyn fixed : Nat) (c : Bool) :
    jump { mode := .RelativeIS, condition := c, dynamic := dyn, fixed := fixed } r =
      if c = false then (incPc r, none)
      else if r regIS + 4 * (dyn + fixed) < vmMaxRam then (r.set regPC (r regIS + 4 * (dyn + fixed)), none)
      else (r, some .MemoryOverflow) := by
  cases c
  · simp [jump]
  · rw [jump_taken _ r rfl (satAdd (r regIS) (satMul (satAdd dyn fixed) instrSize)) rfl]
    simp only [satAdd_eq_min, satMul4_eq_min, vmMaxRam]
    by_cases h : r regIS + 4 * (dyn + fixed) < 67108864
    · have : min (r regIS + min (min (dyn + fixed) (2 ^ 64 - 1) * 4) (2 ^ 64 - 1)) (2 ^ 64 - 1) = r regIS + 4 * (dyn + fixed) := by omega
      simp [this, h]
    · have : ¬ min (r regIS + min (min (dyn + fixed) (2 ^ 64 - 1) * 4) (2 ^ 64 - 1)) (2 ^ 64 - 1) < 67108864 := by omega
      simp [this, h]

/-- relative forwards: `$pc + 4·(dyn + fixed + 1)` -/
theorem jump_fwd_core (r : Regs) (dyn fixed : Nat) (c : Bool) :
    jump { mode := .RelativeForwards, condition := c, dynamic := dyn, fixed := fixed } r =
      if c = false then (incPc r, none)
      else if r regPC + 4 * (dyn + fixed + 1) < vmMaxRam then (r.set regPC (r regPC + 4 * (dyn + fixed + 1)), none)
      else (r, some .MemoryOverflow) := by
  cases c
  · simp [jump]
  · rw [jump_taken _ r rfl (satAdd (r regPC) (satMul (satAdd (satAdd dyn fixed) 1) instrSize)) rfl]
    simp only [satAdd_eq_min, satMul4_eq_min, vmMaxRam]
    by_cases h : r regPC + 4 * (dyn + fixed + 1) < 67108864
    · have : min (r regPC + min (min (min (dyn + fixed) (2 ^ 64 - 1) + 1) (2 ^ 64 - 1) * 4) (2 ^ 64 - 1)) (2 ^ 64 - 1) = r regPC + 4 * (dyn + fixed + 1) := by omega
      simp [this, h]
    · have : ¬ min (r regPC + min (min (min (dyn + fixed) (2 ^ 64 - 1) + 1) (2 ^ 64 - 1) * 4) (2 ^ 64 - 1)) (2 ^ 64 - 1) < 67108864 := by omega
      simp [this, h]

/-- relative backwards: `$pc − 4·(dyn + fixed + 1)`, panic on underflow. Needs `$pc < VM_MAX_RAM` (true of any
fetched instruction): only at `$pc = u64::MAX` could a saturated offset pass the `checked_sub`. -/
theorem jump_bwd_core (r : Regs) (dyn fixed : Nat) (c : Bool) (hpc : r regPC < vmMaxRam) :
    jump { mode := .RelativeBackwards, condition := c, dynamic := dyn, fixed := fixed } r =
      if c = false then (incPc r, none)
      else if 4 * (dyn + fixed + 1) ≤ r regPC then (r.set regPC (r regPC - 4 * (dyn + fixed + 1)), none)
      else (r, some .MemoryOverflow) := by
  cases c
  · simp [jump]
  · simp only [vmMaxRam] at hpc
    by_cases h : 4 * (dyn + fixed + 1) ≤ r regPC
    · have ht : jumpTarget { mode := .RelativeBackwards, condition := true, dynamic := dyn, fixed := fixed } (r regIS) (r regPC)
          = .ok (r regPC - 4 * (dyn + fixed + 1)) := by
        simp only [jumpTarget, satAdd_eq_min, satMul4_eq_min]
        have e : min (min (min (dyn + fixed) (2 ^ 64 - 1) + 1) (2 ^ 64 - 1) * 4) (2 ^ 64 - 1) = 4 * (dyn + fixed + 1) := by omega
        rw [e, if_pos h]
      rw [jump_taken _ r rfl _ ht]
      have : r regPC - 4 * (dyn + fixed + 1) < vmMaxRam := by simp only [vmMaxRam]; omega
      simp [this, h]
    · have ht : jumpTarget { mode := .RelativeBackwards, condition := true, dynamic := dyn, fixed := fixed } (r regIS) (r regPC)
          = .error .MemoryOverflow := by
        simp only [jumpTarget, satAdd_eq_min, satMul4_eq_min]
        rw [if_neg (by omega)]
      simp [jump, ht, h]

/-- assign mode (JAL): `dyn + 4·fixed` -/
theorem jump_assign_core (r : Regs) (dyn fixed : Nat) :
    jump { mode := .Assign, dynamic := dyn, fixed := fixed } r =
      if dyn + 4 * fixed < vmMaxRam then (r.set regPC (dyn + 4 * fixed), none)
      else (r, some .MemoryOverflow) := by
  rw [jump_taken _ r rfl (satAdd dyn (satMul fixed instrSize)) rfl]
  simp only [satAdd_eq_min, satMul4_eq_min, vmMaxRam]
  by_cases h : dyn + 4 * fixed < 67108864
  · have : min (dyn + min (fixed * 4) (2 ^ 64 - 1)) (2 ^ 64 - 1) = dyn + 4 * fixed := by omega
    simp [this, h]
  · have : ¬ min (dyn + min (fixed * 4) (2 ^ 64 - 1)) (2 ^ 64 - 1) < 67108864 := by omega
    simp [this, h]

/-- `MemoryInstance::verify` in closed form -/
theorem verify_eq (m : Mem) (a n : Nat) (hn : n ≤ memSize) :
    m.verify a n =
      if a + n ≤ memSize then
        (if a + n ≤ m.stackLen ∨ m.hp ≤ a then .ok (a, a + n) else .error .UninitalizedMemoryAccess)
      else .error .MemoryOverflow := by
  unfold Mem.verify toAddr
  by_cases h1 : a > memSize
  · have : ¬ a + n ≤ memSize := by omega
    simp [h1, this]
  · have hn' : ¬ n > memSize := by omega
    by_cases h2 : a + n > memSize
    · have : ¬ a + n ≤ memSize := by omega
      simp [h1, hn', h2, this]
    · have : a + n ≤ memSize := by omega
      simp [h1, hn', h2, this]

theorem range4_map (f : Nat → UInt8) : (List.range 4).map f = [f 0, f 1, f 2, f 3] := by
  simp [List.range, List.range.loop]

/-- the rejecting condition regenerated from the Rust text is exactly "below `$is` or at/after `$ssp`"
(this is the obligation that breaks when the bound registers of `fetch_instruction` are edited) -/
theorem fetchRejected_iff (r : Regs) : fetchRejected r = true ↔ (r regPC < r regIS ∨ r regPC ≥ r regSSP) := by
  simp [fetchRejected, fetchLowerBoundRegs, fetchUpperBoundRegs, fetchAddrReg, regPC, regIS, regSSP]
  constructor
  · rintro (h | h)
    · exact Or.inl (of_decide_eq_true h)
    · exact Or.inr h
  · rintro (h | h)
    · exact Or.inl (decide_eq_true h)
    · exact Or.inr h

/-- `fetch_instruction` in closed form -/
theorem fetch_eq (m : Mem) (r : Regs) :
    fetchInstruction m r =
      if r regPC + 4 ≤ memSize then
        (if r regPC + 4 ≤ m.stackLen ∨ m.hp ≤ r regPC then
          (if r regPC < r regIS ∨ r regPC ≥ r regSSP then .error .MemoryNotExecutable
           else .ok [m.bytes (r regPC), m.bytes (r regPC + 1), m.bytes (r regPC + 2), m.bytes (r regPC + 3)])
         else .error .UninitalizedMemoryAccess)
      else .error .MemoryOverflow := by
  have hb : fetchBytes = 4 := rfl
  have ha : fetchAddrReg = regPC := rfl
  have hp : fetchRangePanic = Panic.MemoryNotExecutable := rfl
  unfold fetchInstruction Mem.readBytes
  rw [hb, ha, hp, verify_eq m _ 4 (by decide)]
  by_cases h1 : r regPC + 4 ≤ memSize
  · rw [if_pos h1, if_pos h1]
    by_cases h2 : r regPC + 4 ≤ m.stackLen ∨ m.hp ≤ r regPC
    · rw [if_pos h2, if_pos h2]
      simp only [range4_map, Nat.add_zero]
      by_cases h3 : r regPC < r regIS ∨ r regPC ≥ r regSSP
      · rw [if_pos ((fetchRejected_iff r).mpr h3), if_pos h3]
      · rw [if_neg (fun h => h3 ((fetchRejected_iff r).mp h)), if_neg h3]
    · rw [if_neg h2, if_neg h2]
  · rw [if_neg h1, if_neg h1]

theorem incPc_pc (r : Regs) (h : r regPC + 4 < 2 ^ 64) : incPc r regPC = r regPC + 4 := by
  simp [incPc, Regs.set, satAdd, instrSize, h]

theorem incPc_other (r : Regs) (j : Nat) (h : j ≠ regPC) : incPc r j = r j := by
  simp [incPc, Regs.set, h]

end FuelVerif.Alu
