/- Helper lemmas for C27 (asset ledger conservation). -/
import FuelVerif.Model.Ledger
namespace FuelVerif.Ledger

/-- well-formedness: the input-contract set has no duplicates and every running contract is one of the inputs
    (established by `check_contract_in_inputs` before a frame is pushed) -/
def WF (s : Ledger) : Prop := s.cids.Nodup ∧ ∀ c ∈ s.ctx, c ∈ s.cids

theorem csum_updB_other (cids : List Nat) (bal : Nat → Nat → Option Nat) (c a v a' : Nat) (h : a' ≠ a) :
    csum cids (updB bal c a v) a' = csum cids bal a' := by
  unfold csum updB
  congr 1
  apply List.map_congr_left
  intro x _
  simp [h]

theorem csum_updB_notmem (cids : List Nat) (bal : Nat → Nat → Option Nat) (c a v a' : Nat) (h : c ∉ cids) :
    csum cids (updB bal c a v) a' = csum cids bal a' := by
  unfold csum updB
  congr 1
  apply List.map_congr_left
  intro x hx
  have : x ≠ c := fun e => h (e ▸ hx)
  simp [this]

theorem csum_updB_same (cids : List Nat) (bal : Nat → Nat → Option Nat) (c a v : Nat)
    (hn : cids.Nodup) (hc : c ∈ cids) :
    csum cids (updB bal c a v) a + (bal c a).getD 0 = csum cids bal a + v := by
  induction cids with
  | nil => simp at hc
  | cons x xs ih =>
    rw [List.nodup_cons] at hn
    have hcons : ∀ f : Nat → Nat → Option Nat, csum (x :: xs) f a = (f x a).getD 0 + csum xs f a := by
      intro f; simp [csum]
    rw [hcons, hcons]
    by_cases hx : x = c
    · subst hx
      have h1 := csum_updB_notmem xs bal x a v a hn.1
      rw [h1]
      simp [updB]
      omega
    · have hc' : c ∈ xs := by
        rcases List.mem_cons.mp hc with e | e
        · exact absurd e.symm hx
        · exact e
      have := ih hn.2 hc'
      have h2 : (updB bal c a v x a) = bal x a := by simp [updB, hx]
      rw [h2]
      omega

theorem varSum_set (vs : List (Nat × Nat)) (idx a amt a' x : Nat) (h : vs[idx]? = some (x, 0)) :
    varSum (vs.set idx (a, amt)) a' = varSum vs a' + (if a = a' then amt else 0) := by
  induction vs generalizing idx with
  | nil => simp at h
  | cons p ps ih =>
    cases idx with
    | zero =>
      simp only [List.getElem?_cons_zero, Option.some.injEq] at h
      subst h
      simp [varSum]
      omega
    | succ k =>
      simp only [List.getElem?_cons_succ] at h
      have := ih k h
      simp only [varSum, List.set_cons_succ, List.map_cons, List.sum_cons] at this ⊢
      omega

theorem varSum_zeroed (vs : List (Nat × Nat)) (a : Nat) : varSum (vs.map (fun p => (p.1, 0))) a = 0 := by
  induction vs with
  | nil => rfl
  | cons p ps ih =>
    simp only [varSum, List.map_cons, List.sum_cons] at ih ⊢
    rw [ih]; simp

/-- fields not touched by the balance helpers -/
def SameFrame (s t : Ledger) : Prop :=
  t.base = s.base ∧ t.cids = s.cids ∧ t.code = s.code ∧ t.varOut = s.varOut ∧ t.minted = s.minted ∧
  t.burned = s.burned ∧ t.msgOut = s.msgOut ∧ t.ctx = s.ctx

theorem SameFrame.refl (s : Ledger) : SameFrame s s := ⟨rfl, rfl, rfl, rfl, rfl, rfl, rfl, rfl⟩

theorem balanceDecrease_spec {s t : Ledger} {c a amt : Nat} (hw : s.cids.Nodup) (hc : c ∈ s.cids)
    (h : balanceDecrease s c a amt = .ok t) :
    SameFrame s t ∧ t.free = s.free ∧ t.mem = s.mem ∧
    (∀ a', csum t.cids t.bal a' + (if a' = a then amt else 0) = csum s.cids s.bal a') := by
  unfold balanceDecrease at h
  split at h
  · rename_i hz
    cases h
    refine ⟨SameFrame.refl _, rfl, rfl, ?_⟩
    intro a'; simp [hz]
  · split at h
    · cases h
    · rename_i v hv
      cases h
      refine ⟨SameFrame.refl _, rfl, rfl, ?_⟩
      intro a'
      simp only
      unfold checkedSub at hv
      split at hv
      · cases hv
      · cases hv
        by_cases ha : a' = a
        · subst ha
          have := csum_updB_same s.cids s.bal c a' (balance s c a' - amt) hw hc
          unfold balance at *
          simp only [if_true]
          omega
        · rw [csum_updB_other _ _ _ _ _ _ ha]
          simp [ha]

theorem balanceIncrease_spec {s t : Ledger} {c a amt : Nat} (hw : s.cids.Nodup) (hc : c ∈ s.cids)
    (h : balanceIncrease s c a amt = .ok t) :
    SameFrame s t ∧ t.free = s.free ∧ t.mem = s.mem ∧
    (∀ a', csum t.cids t.bal a' = csum s.cids s.bal a' + (if a' = a then amt else 0)) := by
  unfold balanceIncrease at h
  split at h
  · rename_i hz
    cases h
    refine ⟨SameFrame.refl _, rfl, rfl, ?_⟩
    intro a'; simp [hz]
  · split at h
    · cases h
    · rename_i v hv
      cases h
      refine ⟨SameFrame.refl _, rfl, rfl, ?_⟩
      intro a'
      simp only
      unfold checkedAdd at hv
      split at hv
      · cases hv
      · cases hv
        by_cases ha : a' = a
        · subst ha
          have := csum_updB_same s.cids s.bal c a' (balance s c a' + amt) hw hc
          unfold balance at *
          simp only [if_true]
          omega
        · rw [csum_updB_other _ _ _ _ _ _ ha]
          simp [ha]

theorem externalSub_spec {s t : Ledger} {a amt : Nat} (h : externalSub s a amt = .ok t) :
    SameFrame s t ∧ t.bal = s.bal ∧
    (∀ a', (t.free a').getD 0 + (if a' = a then amt else 0) = (s.free a').getD 0) ∧
    (s.mem = s.free → t.mem = t.free) := by
  unfold externalSub at h
  split at h
  · rename_i v hv
    split at h
    · rename_i v' hv'
      cases h
      refine ⟨SameFrame.refl _, rfl, ?_, ?_⟩
      · intro a'
        unfold checkedSub at hv'
        split at hv'
        · cases hv'
        · cases hv'
          by_cases ha : a' = a
          · subst ha; simp [updF, hv]; omega
          · simp [updF, ha]
      · intro hm; simp only; rw [hm]
    · split at h
      · rename_i hz
        cases h
        exact ⟨SameFrame.refl _, rfl, fun a' => by simp [hz], fun hm => hm⟩
      · cases h
  · split at h
    · rename_i hz
      cases h
      exact ⟨SameFrame.refl _, rfl, fun a' => by simp [hz], fun hm => hm⟩
    · cases h

theorem debit_spec {s t : Ledger} {a amt : Nat} (hw : WF s) (h : debit s a amt = .ok t) :
    SameFrame s t ∧
    (∀ a', (t.free a').getD 0 + csum t.cids t.bal a' + (if a' = a then amt else 0)
            = (s.free a').getD 0 + csum s.cids s.bal a') ∧
    (s.mem = s.free → t.mem = t.free) := by
  unfold debit at h
  split at h
  · rename_i c rest hctx
    have hc : c ∈ s.cids := hw.2 c (by rw [hctx]; exact List.mem_cons_self)
    obtain ⟨hf, hfree, hmem, hsum⟩ := balanceDecrease_spec hw.1 hc h
    refine ⟨hf, ?_, ?_⟩
    · intro a'; rw [hfree]; have := hsum a'; omega
    · intro hm; rw [hmem, hfree]; exact hm
  · obtain ⟨hf, hbal, hfree, hmem⟩ := externalSub_spec h
    refine ⟨hf, ?_, hmem⟩
    intro a'
    rw [hbal, hf.2.1]
    have := hfree a'
    omega

/-- pointwise effect of `balance_decrease` -/
theorem balanceDecrease_point {s t : Ledger} {c a amt : Nat} (h : balanceDecrease s c a amt = .ok t) :
    balance t c a + amt = balance s c a ∧ t.free = s.free ∧ t.ctx = s.ctx ∧ t.cids = s.cids ∧
    (∀ c' a', ¬ (c' = c ∧ a' = a) → t.bal c' a' = s.bal c' a') := by
  unfold balanceDecrease at h
  split at h
  · rename_i hz; cases h; exact ⟨by omega, rfl, rfl, rfl, fun _ _ _ => rfl⟩
  · split at h
    · cases h
    · rename_i v hv
      cases h
      unfold checkedSub at hv
      split at hv
      · cases hv
      · cases hv
        refine ⟨?_, rfl, rfl, rfl, ?_⟩
        · simp only [balance, updB, and_self, if_true, Option.getD_some] at *; omega
        · intro c' a' hne; simp [updB, hne]

/-- pointwise effect of `balance_increase` -/
theorem balanceIncrease_point {s t : Ledger} {c a amt : Nat} (h : balanceIncrease s c a amt = .ok t) :
    balance t c a = balance s c a + amt ∧ t.free = s.free ∧ t.ctx = s.ctx ∧ t.cids = s.cids ∧
    (∀ c' a', ¬ (c' = c ∧ a' = a) → t.bal c' a' = s.bal c' a') := by
  unfold balanceIncrease at h
  split at h
  · rename_i hz; cases h; exact ⟨by omega, rfl, rfl, rfl, fun _ _ _ => rfl⟩
  · split at h
    · cases h
    · rename_i v hv
      cases h
      unfold checkedAdd at hv
      split at hv
      · cases hv
      · cases hv
        refine ⟨?_, rfl, rfl, rfl, ?_⟩
        · simp only [balance, updB, and_self, if_true, Option.getD_some] at *
        · intro c' a' hne; simp [updB, hne]

/-- balance of the funding source designated by a frame stack -/
def srcOf (ctx : List Nat) (s : Ledger) (a : Nat) : Nat :=
  match ctx with
  | c :: _ => balance s c a
  | [] => (s.free a).getD 0

/-- pointwise effect of `debit` on its source, and nothing else in storage moves -/
theorem debit_point {s t : Ledger} {a amt : Nat} (h : debit s a amt = .ok t) :
    srcOf s.ctx t a + amt = srcOf s.ctx s a ∧ t.ctx = s.ctx ∧ t.cids = s.cids ∧
    (∀ c' a', s.ctx.head? ≠ some c' → t.bal c' a' = s.bal c' a') := by
  unfold debit at h
  split at h
  · rename_i c rest hctx
    obtain ⟨h1, _, h3, h4, h5⟩ := balanceDecrease_point h
    refine ⟨by simp only [srcOf, hctx]; exact h1, h3, h4, ?_⟩
    intro c' a' hne
    apply h5
    intro ⟨e, _⟩
    rw [hctx] at hne; simp [e] at hne
  · rename_i hctx
    obtain ⟨_, hb, hf, _⟩ := externalSub_spec h
    have hfa := hf a
    simp only [if_true] at hfa
    refine ⟨by simp only [srcOf, hctx]; exact hfa, ?_, ?_, ?_⟩
    · unfold externalSub at h
      split at h
      · split at h
        · cases h; rfl
        · split at h
          · cases h; rfl
          · cases h
      · split at h
        · cases h; rfl
        · cases h
    · unfold externalSub at h
      split at h
      · split at h
        · cases h; rfl
        · split at h
          · cases h; rfl
          · cases h
      · split at h
        · cases h; rfl
        · cases h
    · intro c' a' _; rw [hb]

theorem change_amount_spec_aux (s : Ledger) (initial : Nat → Option Nat) (refund a v : Nat)
    (h : changeAmount s initial true refund a = some v) :
    v = (initial a).getD 0 + (if a = s.base then refund else 0) := by
  unfold changeAmount at h
  simp only [if_true] at h
  split at h
  · cases h
  · rename_i v0 hv0
    rw [hv0]
    split at h
    · rename_i hb
      unfold checkedAdd at h
      split at h
      · cases h
      · cases h; simp [hb]
    · rename_i hb
      cases h; simp [hb]

end FuelVerif.Ledger
