/-
Bridge between the structural verifiers over raw byte strings (`bitOf`, `hashes H`: what
`SmtBytes.verifyInclusion_bytes` / `verifyExclusion_bytes` relate the transcribed `proof.rs` verifiers to) and
over 32-byte keys / hashes (`bit32`, `hashes32`: where collision freedom and the history theorems live).
A proof set whose entries are all 32 bytes (the Rust type `Vec<Bytes32>`) is the image of a `List Hash32`.
-/
import FuelVerif.Lemmas.SparseRefine
namespace FuelVerif.SmtBytes
open FuelVerif FuelVerif.SmtStore FuelVerif.Gen.Sparse FuelVerif.Smt

variable (H : Bytes → Bytes) (hl : ∀ x, (H x).length = keyBytes)

theorem foldUp_val (d : Nat) (k : Key32) : ∀ (s : List Hash32) (cur : Hash32),
    (foldUp bit32 (hashes32 H hl) d k s cur).val =
      foldUp bitOf (hashes H) d k.val (s.map Subtype.val) cur.val
  | [], _ => rfl
  | x :: rest, cur => by
    simp only [foldUp, List.map_cons, List.length_map]
    rw [foldUp_val d k rest]
    by_cases hb : bit32 k (d + rest.length) = true
    · have hb2 : bitOf k.val (d + rest.length) = true := hb
      simp only [hb, hb2, ↓reduceIte]; rfl
    · have hb2 : ¬ bitOf k.val (d + rest.length) = true := hb
      simp only [hb, hb2, ↓reduceIte]; rfl

/-- the verifier over bytes, on a proof set of 32-byte entries, is the verifier over `Hash32` -/
theorem verifyInclusion32_eq (n : Nat) (root : Hash32) (k : Key32) (v : Hash32) (ps : List Hash32) :
    Smt.verifyInclusion bitOf (hashes H) n root.val k.val v.val (ps.map Subtype.val) =
      Smt.verifyInclusion bit32 (hashes32 H hl) n root k v ps := by
  unfold Smt.verifyInclusion
  simp only [List.length_map]
  by_cases hlen : ps.length > n
  · simp [hlen]
  · simp only [hlen, ↓reduceIte]
    have e := foldUp_val H hl 0 k ps ((hashes32 H hl).leafH k v)
    have e2 : ((hashes32 H hl).leafH k v).val = (hashes H).leafH k.val v.val := rfl
    rw [e2] at e
    rw [← e]
    by_cases h : foldUp bit32 (hashes32 H hl) 0 k ps ((hashes32 H hl).leafH k v) = root
    · simp [h]
    · have h' : ¬ (foldUp bit32 (hashes32 H hl) 0 k ps ((hashes32 H hl).leafH k v)).val = root.val :=
        fun e3 => h (Subtype.ext e3)
      simp [h, h']

/-- an exclusion leaf over 32-byte keys / hashes as the verifier over bytes sees it -/
def exLeafB : ExLeaf Key32 Hash32 → ExLeaf Bytes Bytes
  | .leaf k v => .leaf k.val v.val
  | .placeholder => .placeholder

theorem verifyExclusion32_eq (n : Nat) (root : Hash32) (k : Key32) (ps : List Hash32)
    (leaf : ExLeaf Key32 Hash32) :
    Smt.verifyExclusion bitOf (hashes H) n root.val k.val (ps.map Subtype.val) (exLeafB leaf) =
      Smt.verifyExclusion bit32 (hashes32 H hl) n root k ps leaf := by
  have key : ∀ start : Hash32,
      decide (foldUp bitOf (hashes H) 0 k.val (ps.map Subtype.val) start.val = root.val) =
        decide (foldUp bit32 (hashes32 H hl) 0 k ps start = root) := by
    intro start
    rw [← foldUp_val H hl 0 k ps start]
    by_cases h : foldUp bit32 (hashes32 H hl) 0 k ps start = root
    · simp [h]
    · have h' : ¬ (foldUp bit32 (hashes32 H hl) 0 k ps start).val = root.val := fun e3 => h (Subtype.ext e3)
      simp [h, h']
  cases leaf with
  | leaf k' v' =>
    simp only [Smt.verifyExclusion, exLeafB, List.length_map]
    by_cases e : k' = k
    · have e' : k'.val = k.val := by rw [e]
      simp [e, e']
    · have e' : ¬ k'.val = k.val := fun h => e (Subtype.ext h)
      simp only [e, e', ↓reduceIte]
      by_cases hlen : ps.length > n
      · simp [hlen]
      · simp only [hlen, ↓reduceIte]
        exact key ((hashes32 H hl).leafH k' v')
  | placeholder =>
    simp only [Smt.verifyExclusion, exLeafB, List.length_map]
    by_cases hlen : ps.length > n
    · simp [hlen]
    · simp only [hlen, ↓reduceIte]
      exact key (hashes32 H hl).zero

/-- a list of 32-byte strings is the image of a list of `Hash32` -/
theorem lift32 : ∀ (ps : List Bytes), (∀ x ∈ ps, x.length = keyBytes) →
    ∃ ps' : List Hash32, ps'.map Subtype.val = ps
  | [], _ => ⟨[], rfl⟩
  | x :: ps, h => by
    obtain ⟨ps', e⟩ := lift32 ps (fun y hy => h y (List.mem_cons_of_mem _ hy))
    exact ⟨⟨x, h x List.mem_cons_self⟩ :: ps', by simp [e]⟩

end FuelVerif.SmtBytes
