/-
Lemmas for C10/C11: `PositionPathIter` (model `positionPath`) over aligned blocks. The side positions
`MerkleTree::prove` and `peak_positions` obtain are the positions of the RFC 6962 audit path in the
"collapsed" tree (a node whose right half holds no leaf is identified with its left child).
-/
import FuelVerif.Lemmas.BinaryMerkleVerifyB
namespace FuelVerif.BMT
open FuelVerif

/-- in-order position of the aligned block of `2^h` leaves starting at leaf `a` -/
def bpos (a h : Nat) : Nat := 2 * a + 2 ^ h - 1

/-- the block passes `PositionPathIter`'s test `in_order_index ≤ rightmost` in an `n`-leaf tree -/
def validB (n a h : Nat) : Prop := bpos a h ≤ 2 * (n - 1)

instance (n a h : Nat) : Decidable (validB n a h) := by unfold validB; exact inferInstance

theorem validB_zero {n a : Nat} (hn : 1 ≤ n) : validB n a 0 ↔ a < n := by
  unfold validB bpos; simp only [Nat.pow_zero]; omega

theorem validB_succ {n a h : Nat} (hn : 1 ≤ n) : validB n a (h + 1) ↔ a + 2 ^ h < n := by
  have hp := Nat.pow_pos (n := h) (show 0 < 2 by decide)
  unfold validB bpos; rw [Nat.pow_succ]; omega

theorem bpos_left (a h : Nat) : bpos a (h + 1) - 2 ^ h = bpos a h := by
  have hp := Nat.pow_pos (n := h) (show 0 < 2 by decide)
  unfold bpos; rw [Nat.pow_succ]; omega

theorem bpos_right (a h : Nat) : bpos a (h + 1) + 2 ^ h = bpos (a + 2 ^ h) h := by
  have hp := Nat.pow_pos (n := h) (show 0 < 2 by decide)
  unfold bpos; rw [Nat.pow_succ]; omega

theorem bpos_eq_canon {a h : Nat} (hd : 2 ^ h ∣ a) : bpos a h = canonPos (a / 2 ^ h) h := by
  obtain ⟨c, rfl⟩ := hd
  have hp := Nat.pow_pos (n := h) (show 0 < 2 by decide)
  rw [Nat.mul_div_cancel_left _ hp]
  unfold bpos canonPos
  have : (2 * c + 1) * 2 ^ h = 2 * (2 ^ h * c) + 2 ^ h := by grind
  rw [this]

theorem bpos_height {a h : Nat} (hd : 2 ^ h ∣ a) (hh : h < 64) : height (bpos a h) = h := by
  rw [bpos_eq_canon hd]; exact height_canon hh

theorem bpos_eq_peakPos {a h : Nat} (hd : 2 ^ h ∣ a) : bpos a h = peakPos 1 a h := by
  rw [bpos_eq_canon hd]; unfold peakPos; rw [Nat.one_mul]

/-- height of the first block at `a`, going down-left from height `h`, that passes the test -/
def rh (n a : Nat) : Nat → Nat
  | 0 => 0
  | h + 1 => if validB n a (h + 1) then h + 1 else rh n a h

def rpos (n a h : Nat) : Nat := bpos a (rh n a h)

theorem rh_valid {n a : Nat} (hn : 1 ≤ n) (ha : a < n) : ∀ h, validB n a (rh n a h)
  | 0 => (validB_zero hn).mpr ha
  | h + 1 => by
    unfold rh
    by_cases hv : validB n a (h + 1)
    · rw [if_pos hv]; exact hv
    · rw [if_neg hv]; exact rh_valid hn ha h

theorem rh_of_valid {n a h : Nat} (hv : validB n a h) : rh n a h = h := by
  cases h with
  | zero => rfl
  | succ h => unfold rh; rw [if_pos hv]

theorem rh_le (n a : Nat) : ∀ h, rh n a h ≤ h
  | 0 => Nat.le_refl _
  | h + 1 => by
    unfold rh
    by_cases hv : validB n a (h + 1)
    · rw [if_pos hv]; exact Nat.le_refl _
    · rw [if_neg hv]; exact Nat.le_succ_of_le (rh_le n a h)

/-- the `while side > rightmost { side = side.child(Left) }` loop from an aligned block -/
theorem descendLeft_bpos {n a : Nat} (hn : 1 ≤ n) (ha : a < n) : ∀ h,
    descendLeft (2 * (n - 1)) h (bpos a h) = .ok (rpos n a h)
  | 0 => by
    have : ¬ (bpos a 0 > 2 * (n - 1)) := by
      have := (validB_zero hn).mpr ha; unfold validB at this; omega
    simp only [descendLeft, this, if_false, rpos, rh]
  | h + 1 => by
    unfold descendLeft rpos rh
    by_cases hv : validB n a (h + 1)
    · have : ¬ (bpos a (h + 1) > 2 * (n - 1)) := by unfold validB at hv; omega
      simp only [this, if_false, hv, if_true]
    · have : bpos a (h + 1) > 2 * (n - 1) := by unfold validB at hv; omega
      simp only [this, if_true, hv, if_false, bpos_left]
      exact descendLeft_bpos hn ha h

/-- the collapsed-tree audit path of leaf `i` below the block `(a, h)`, as sibling blocks, leaf first:
a block whose right half holds no leaf is identified with its left child -/
def ab (n i : Nat) : Nat → Nat → List (Nat × Nat)
  | 0, _ => []
  | h + 1, a =>
    if n ≤ a + 2 ^ h then ab n i h a
    else if i < a + 2 ^ h then ab n i h a ++ [(a + 2 ^ h, h)]
    else ab n i h (a + 2 ^ h) ++ [(a, h)]

theorem bit_of_block {i a h : Nat} (hd : 2 ^ (h + 1) ∣ a) (h1 : a ≤ i) (h2 : i < a + 2 ^ (h + 1)) :
    (i / 2 ^ h) % 2 = 1 ↔ a + 2 ^ h ≤ i := by
  obtain ⟨q, rfl⟩ := hd
  have hp := Nat.pow_pos (n := h) (show 0 < 2 by decide)
  have e : 2 ^ (h + 1) * q = 2 ^ h * (2 * q) := by grind
  rw [e] at h1 h2 ⊢
  rw [Nat.pow_succ] at h2
  obtain ⟨r, rfl⟩ : ∃ r, i = 2 ^ h * (2 * q) + r := ⟨i - 2 ^ h * (2 * q), by omega⟩
  rw [Nat.mul_add_div hp]
  rcases Nat.lt_or_ge r (2 ^ h) with hr | hr
  · rw [Nat.div_eq_of_lt hr]; omega
  · have : r / 2 ^ h = 1 := Nat.div_eq_of_lt_le (by omega) (by omega)
    rw [this]; omega

theorem dvd_add_pow {a h : Nat} (hd : 2 ^ (h + 1) ∣ a) : 2 ^ h ∣ a + 2 ^ h ∧ 2 ^ h ∣ a := by
  have : 2 ^ h ∣ 2 ^ (h + 1) := Nat.pow_dvd_pow 2 (Nat.le_succ h)
  exact ⟨Nat.dvd_add (Nat.dvd_trans this hd) (Nat.dvd_refl _), Nat.dvd_trans this hd⟩

theorem rawPath_succ_right {h a i : Nat} (hb : (i / 2 ^ h) % 2 = 1) :
    rawPath (h + 1) (bpos a (h + 1)) i = (bpos (a + 2 ^ h) h, bpos a h) :: rawPath h (bpos (a + 2 ^ h) h) i := by
  rw [rawPath, if_pos hb, bpos_left, bpos_right]

theorem rawPath_succ_left {h a i : Nat} (hb : ¬ (i / 2 ^ h) % 2 = 1) :
    rawPath (h + 1) (bpos a (h + 1)) i = (bpos a h, bpos (a + 2 ^ h) h) :: rawPath h (bpos a h) i := by
  rw [rawPath, if_neg hb, bpos_left, bpos_right]

theorem ab_succ_collapse {n i h a : Nat} (hge : n ≤ a + 2 ^ h) : ab n i (h + 1) a = ab n i h a := by
  rw [ab, if_pos hge]

theorem ab_succ_left {n i h a : Nat} (h1 : ¬ n ≤ a + 2 ^ h) (h2 : i < a + 2 ^ h) :
    ab n i (h + 1) a = ab n i h a ++ [(a + 2 ^ h, h)] := by
  rw [ab, if_neg h1, if_pos h2]

theorem ab_succ_right {n i h a : Nat} (h1 : ¬ n ≤ a + 2 ^ h) (h2 : ¬ i < a + 2 ^ h) :
    ab n i (h + 1) a = ab n i h (a + 2 ^ h) ++ [(a, h)] := by
  rw [ab, if_neg h1, if_neg h2]

/-- `PositionPathIter` below an aligned block containing the leaf: the side positions, leaf first, are
the (resolved) positions of the collapsed-tree audit path, followed by the resolved pending side -/
theorem filterPath_ab {n i : Nat} (hi : i < n) :
    ∀ (h a : Nat) (saved : Option Nat) (tail : List Nat), 2 ^ h ∣ a → a ≤ i → i < a + 2 ^ h → h < 64 →
      ((validB n a h ∧ saved = none ∧ tail = []) ∨
       (¬ validB n a h ∧ ∃ x rx, saved = some x ∧ descendLeft (2 * (n - 1)) (height x) x = .ok rx ∧ tail = [rx])) →
      ∃ pairs, filterPath (2 * (n - 1)) saved (rawPath h (bpos a h) i) = .ok pairs ∧
        (pairs.map (·.2)).reverse = (ab n i h a).map (fun b => rpos n b.1 b.2) ++ tail := by
  have hn : 1 ≤ n := by omega
  intro h
  induction h with
  | zero =>
    intro a saved tail _ h1 h2 _ hc
    have hv : validB n a 0 := (validB_zero hn).mpr (by simp only [Nat.pow_zero] at h2; omega)
    rcases hc with ⟨_, _, ht⟩ | ⟨hnv, _⟩
    · subst ht; exact ⟨[], by simp [rawPath, filterPath, ab]⟩
    · exact absurd hv hnv
  | succ h ih =>
    intro a saved tail hd h1 h2 hh hc
    have hp := Nat.pow_pos (n := h) (show 0 < 2 by decide)
    obtain ⟨hdr, hdl⟩ := dvd_add_pow hd
    have hbit := bit_of_block hd h1 h2
    have e2 : 2 ^ (h + 1) = 2 ^ h + 2 ^ h := by rw [Nat.pow_succ]; omega
    rcases hc with ⟨hv, hs, ht⟩ | ⟨hnv, x, rx, hs, hx, ht⟩
    · -- the block is a real interior node: both halves hold leaves
      subst hs; subst ht
      have hlt : a + 2 ^ h < n := (validB_succ hn).mp hv
      by_cases hright : a + 2 ^ h ≤ i
      · -- leaf in the right half: sibling = complete left half
        rw [rawPath_succ_right (hbit.mpr hright), ab_succ_right (by omega) (by omega)]
        have hSv : validB n a h := by
          cases h with
          | zero => exact (validB_zero hn).mpr (by omega)
          | succ h' => rw [validB_succ hn]; have := Nat.pow_pos (n := h') (show 0 < 2 by decide); rw [Nat.pow_succ] at hlt; omega
        by_cases hCv : validB n (a + 2 ^ h) h
        · obtain ⟨pairs, hrun, hsides⟩ := ih (a + 2 ^ h) none [] hdr hright (by omega) (by omega) (Or.inl ⟨hCv, rfl, rfl⟩)
          have hle : bpos (a + 2 ^ h) h ≤ 2 * (n - 1) := hCv
          refine ⟨(bpos (a + 2 ^ h) h, rpos n a h) :: pairs, ?_, ?_⟩
          · simp only [filterPath, hle, if_true, bpos_height hdl (by omega : h < 64),
              descendLeft_bpos hn (by omega : a < n) h, hrun]
          · simp only [List.map_cons, List.reverse_cons, hsides, List.append_nil, List.map_append, List.map_nil]
        · obtain ⟨pairs, hrun, hsides⟩ := ih (a + 2 ^ h) (some (bpos a h)) [rpos n a h] hdr hright (by omega) (by omega)
            (Or.inr ⟨hCv, bpos a h, rpos n a h, rfl, by rw [bpos_height hdl (by omega)]; exact descendLeft_bpos hn (by omega) h, rfl⟩)
          have hle : ¬ bpos (a + 2 ^ h) h ≤ 2 * (n - 1) := hCv
          refine ⟨pairs, ?_, ?_⟩
          · simp only [filterPath, hle, if_false, hrun]
          · simp only [hsides, List.map_append, List.map_cons, List.map_nil, List.append_nil]
      · -- leaf in the left half: sibling = right half (may stick out of the tree)
        have hnb : ¬ ((i / 2 ^ h) % 2 = 1) := fun hb => hright (hbit.mp hb)
        rw [rawPath_succ_left hnb, ab_succ_left (by omega) (by omega)]
        have hCv : validB n a h := by
          cases h with
          | zero => exact (validB_zero hn).mpr (by omega)
          | succ h' => rw [validB_succ hn]; have := Nat.pow_pos (n := h') (show 0 < 2 by decide); rw [Nat.pow_succ] at hlt; omega
        obtain ⟨pairs, hrun, hsides⟩ := ih a none [] hdl h1 (by omega) (by omega) (Or.inl ⟨hCv, rfl, rfl⟩)
        have hle : bpos a h ≤ 2 * (n - 1) := hCv
        refine ⟨(bpos a h, rpos n (a + 2 ^ h) h) :: pairs, ?_, ?_⟩
        · simp only [filterPath, hle, if_true, bpos_height hdr (by omega : h < 64),
            descendLeft_bpos hn hlt h, hrun]
        · simp only [List.map_cons, List.reverse_cons, hsides, List.append_nil, List.map_append, List.map_nil]
    · -- the right half holds no leaf: the block is collapsed into its left child
      subst hs; subst ht
      have hge : n ≤ a + 2 ^ h := by
        rcases Nat.lt_or_ge (a + 2 ^ h) n with hlt | hge
        · exact absurd ((validB_succ hn).mpr hlt) hnv
        · exact hge
      have hnb : ¬ ((i / 2 ^ h) % 2 = 1) := fun hb => by have := hbit.mp hb; omega
      rw [rawPath_succ_left hnb, ab_succ_collapse hge]
      by_cases hCv : validB n a h
      · obtain ⟨pairs, hrun, hsides⟩ := ih a none [] hdl h1 (by omega) (by omega) (Or.inl ⟨hCv, rfl, rfl⟩)
        have hle : bpos a h ≤ 2 * (n - 1) := hCv
        refine ⟨(bpos a h, rx) :: pairs, ?_, ?_⟩
        · simp only [filterPath, hle, if_true, hx, hrun]
        · simp only [List.map_cons, List.reverse_cons, hsides, List.append_nil]
      · obtain ⟨pairs, hrun, hsides⟩ := ih a (some x) [rx] hdl h1 (by omega) (by omega)
          (Or.inr ⟨hCv, x, rx, rfl, hx, rfl⟩)
        have hle : ¬ bpos a h ≤ 2 * (n - 1) := hCv
        refine ⟨pairs, ?_, hsides⟩
        simp only [filterPath, hle, if_false, hrun]

/-- height of the full tree `PositionPath` starts from: `root_position(n)` = `2^(treeHt n) - 1` -/
def treeHt (n : Nat) : Nat := Nat.log2 n + 1

theorem rootPosition_eq {n : Nat} (hn : 1 ≤ n) (hb : n < 2 ^ 63) :
    rootPosition n = some (bpos 0 (treeHt n)) ∧ n < 2 ^ treeHt n ∧ treeHt n < 64 := by
  have hlt := @Nat.lt_log2_self n
  have hlog : Nat.log2 n < 63 := (Nat.log2_lt (by omega)).mpr hb
  refine ⟨?_, hlt, by unfold treeHt; omega⟩
  unfold rootPosition nextPow2 bpos treeHt
  have : n + 1 < 2 ^ 64 := by omega
  simp only [this, if_true, show ¬ (n + 1 ≤ 1) by omega, if_false, Nat.add_sub_cancel, Nat.mul_zero, Nat.zero_add]

/-- `root.path(&leaf, n)` for the tree's own root: the side positions after `reverse(); pop()` -/
theorem positionPath_sides {n i : Nat} (hi : i < n) (hb : n < 2 ^ 63) :
    ∃ pairs, positionPath (bpos 0 (treeHt n)) (2 * i) n = .ok pairs ∧
      ((pairs.map (·.2)).reverse.dropLast) = (ab n i (treeHt n) 0).map (fun b => rpos n b.1 b.2) := by
  have hn : 1 ≤ n := by omega
  obtain ⟨_, hlt, h64⟩ := rootPosition_eq hn hb
  have hd0 : 2 ^ treeHt n ∣ 0 := Nat.dvd_zero _
  unfold positionPath
  rw [if_neg (by omega), bpos_height hd0 h64, Nat.mul_div_cancel_left _ (by decide : 0 < 2)]
  by_cases hv : validB n 0 (treeHt n)
  · obtain ⟨pairs, hrun, hsides⟩ := filterPath_ab hi (treeHt n) 0 none [] hd0 (Nat.zero_le _) (by omega) h64 (Or.inl ⟨hv, rfl, rfl⟩)
    have hle : bpos 0 (treeHt n) ≤ 2 * (n - 1) := hv
    have hdesc := descendLeft_bpos hn (by omega : 0 < n) (treeHt n)
    refine ⟨(bpos 0 (treeHt n), rpos n 0 (treeHt n)) :: pairs, ?_, ?_⟩
    · simp only [filterPath, hle, if_true, bpos_height hd0 h64, hdesc, hrun]
    · simp only [List.map_cons, List.reverse_cons, hsides, List.append_nil, List.dropLast_concat]
  · have hdesc := descendLeft_bpos hn (by omega : 0 < n) (treeHt n)
    obtain ⟨pairs, hrun, hsides⟩ := filterPath_ab hi (treeHt n) 0 (some (bpos 0 (treeHt n))) [rpos n 0 (treeHt n)] hd0
      (Nat.zero_le _) (by omega) h64
      (Or.inr ⟨hv, _, _, rfl, by rw [bpos_height hd0 h64]; exact hdesc, rfl⟩)
    have hle : ¬ bpos 0 (treeHt n) ≤ 2 * (n - 1) := hv
    refine ⟨pairs, ?_, ?_⟩
    · simp only [filterPath, hle, if_false, hrun]
    · rw [hsides, List.dropLast_concat]

/-! ### blocks ↦ RFC 6962 audit path -/

/-- the leaves of the block `(a, h)` that exist in `D` -/
def seg (D : List Bytes) (a h : Nat) : List Bytes := (D.drop a).take (2 ^ h)

theorem seg_length (D : List Bytes) (a h : Nat) : (seg D a h).length = min (2 ^ h) (D.length - a) := by
  simp [seg, List.length_take, List.length_drop]

theorem seg_collapse {D : List Bytes} {a h : Nat} (hge : D.length ≤ a + 2 ^ h) : seg D a (h + 1) = seg D a h := by
  unfold seg
  have hp := Nat.pow_pos (n := h) (show 0 < 2 by decide)
  have hl : (D.drop a).length ≤ 2 ^ h := by rw [List.length_drop]; omega
  rw [List.take_of_length_le hl, List.take_of_length_le (by rw [Nat.pow_succ]; omega)]

theorem seg_take (D : List Bytes) (a h : Nat) : (seg D a (h + 1)).take (2 ^ h) = seg D a h := by
  unfold seg
  have hp := Nat.pow_pos (n := h) (show 0 < 2 by decide)
  rw [List.take_take, Nat.min_eq_left (by rw [Nat.pow_succ]; omega)]

theorem seg_drop (D : List Bytes) (a h : Nat) : (seg D a (h + 1)).drop (2 ^ h) = seg D (a + 2 ^ h) h := by
  unfold seg
  have hp := Nat.pow_pos (n := h) (show 0 < 2 by decide)
  rw [List.drop_take, List.drop_drop]
  congr 1
  rw [Nat.pow_succ]; omega

theorem seg_rh {D : List Bytes} {a : Nat} : ∀ h, seg D a (rh D.length a h) = seg D a h
  | 0 => rfl
  | h + 1 => by
    unfold rh
    by_cases hv : validB D.length a (h + 1)
    · rw [if_pos hv]
    · rw [if_neg hv]
      rcases Nat.eq_zero_or_pos D.length with h0 | hpos
      · have hD : D = [] := List.eq_nil_of_length_eq_zero h0
        subst hD
        simp [seg]
      · have hge : D.length ≤ a + 2 ^ h := by
          rcases Nat.lt_or_ge (a + 2 ^ h) D.length with hlt | hge
          · exact absurd ((validB_succ hpos).mpr hlt) hv
          · exact hge
        rw [seg_collapse hge]; exact seg_rh h

/-- the collapsed-tree sibling blocks hash to the RFC 6962 audit path of the block's leaves -/
theorem ab_auditPath (H : HashFn) (D : List Bytes) {i : Nat} (hi : i < D.length) :
    ∀ (h a : Nat), a ≤ i → i < a + 2 ^ h →
      (ab D.length i h a).map (fun b => mth H (seg D b.1 b.2)) = auditPath H (i - a) (seg D a h)
  | 0, a, h1, h2 => by
    have hai : a = i := by simp only [Nat.pow_zero] at h2; omega
    subst hai
    have hl : (seg D a 0).length = 1 := by rw [seg_length]; simp only [Nat.pow_zero]; omega
    match hs : seg D a 0, hl with
    | [x], _ => simp [ab, auditPath]
  | h + 1, a, h1, h2 => by
    have hp := Nat.pow_pos (n := h) (show 0 < 2 by decide)
    have e2 : 2 ^ (h + 1) = 2 ^ h + 2 ^ h := by rw [Nat.pow_succ]; omega
    by_cases hge : D.length ≤ a + 2 ^ h
    · rw [ab_succ_collapse hge, seg_collapse hge]
      exact ab_auditPath H D hi h a h1 (by omega)
    · have hlen : (seg D a (h + 1)).length = 2 ^ h + (min (2 ^ h) (D.length - a - 2 ^ h)) := by
        rw [seg_length, e2]; omega
      have hsp : splitPoint (seg D a (h + 1)).length = 2 ^ h := by
        rw [hlen]; exact splitPoint_pow2_add (by omega) (Nat.min_le_left _ _)
      rw [auditPath_unfold H _ _ (by rw [hlen]; omega), hsp, seg_take, seg_drop]
      by_cases hl : i < a + 2 ^ h
      · rw [ab_succ_left hge hl, if_pos (by omega), List.map_append, ab_auditPath H D hi h a h1 hl]
        rfl
      · rw [ab_succ_right hge hl, if_neg (by omega), List.map_append,
          ab_auditPath H D hi h (a + 2 ^ h) (by omega) (by omega)]
        have : i - (a + 2 ^ h) = i - a - 2 ^ h := by omega
        rw [this]; rfl

/-- every block of the collapsed audit path is aligned and starts at an existing leaf -/
theorem ab_good {n i : Nat} : ∀ (h a : Nat), 2 ^ h ∣ a → a ≤ i → i < n → ∀ b ∈ ab n i h a,
    2 ^ b.2 ∣ b.1 ∧ b.1 < n ∧ b.2 < h
  | 0, a, _, _, _, b, hb => by simp [ab] at hb
  | h + 1, a, hd, h1, hi, b, hb => by
    obtain ⟨hdr, hdl⟩ := dvd_add_pow hd
    by_cases hge : n ≤ a + 2 ^ h
    · rw [ab_succ_collapse hge] at hb
      obtain ⟨x, y, z⟩ := ab_good h a hdl h1 hi b hb
      exact ⟨x, y, by omega⟩
    · by_cases hl : i < a + 2 ^ h
      · rw [ab_succ_left hge hl, List.mem_append] at hb
        rcases hb with hb | hb
        · obtain ⟨x, y, z⟩ := ab_good h a hdl h1 hi b hb
          exact ⟨x, y, by omega⟩
        · simp only [List.mem_singleton] at hb; subst hb
          exact ⟨hdr, by simp only; omega, by simp⟩
      · rw [ab_succ_right hge hl, List.mem_append] at hb
        rcases hb with hb | hb
        · obtain ⟨x, y, z⟩ := ab_good h (a + 2 ^ h) hdr (by omega) hi b hb
          exact ⟨x, y, by omega⟩
        · simp only [List.mem_singleton] at hb; subst hb
          exact ⟨hdl, by simp only; omega, by simp⟩

/-! ### `prove` from the lookups -/

/-- the lookup of `prove`: scratch storage first, then the tree's storage -/
def lookNode (scratch storage : Storage) (key : Nat) : Option Node :=
  match scratch.get key with
  | some n => some n
  | none => storage.get key

/-- every aligned block that passes the `≤ rightmost` test is found, with the tree hash of its leaves -/
def LookOk (H : HashFn) (D : List Bytes) (scratch storage : Storage) : Prop :=
  ∀ a h, 2 ^ h ∣ a → h < 64 → validB D.length a h →
    ∃ nd, lookNode scratch storage (bpos a h) = some nd ∧ nd.hash = mth H (seg D a h)

theorem lookupSides_blocks (H : HashFn) (D : List Bytes) (scratch storage : Storage) :
    ∀ (blocks : List (Nat × Nat)),
      (∀ b ∈ blocks, ∃ nd, lookNode scratch storage (rpos D.length b.1 b.2) = some nd ∧ nd.hash = mth H (seg D b.1 b.2)) →
      lookupSides scratch storage (blocks.map (fun b => rpos D.length b.1 b.2)) =
        .ok (blocks.map (fun b => mth H (seg D b.1 b.2)))
  | [], _ => rfl
  | b :: bs, hb => by
    obtain ⟨nd, hnd, hh⟩ := hb b (List.mem_cons_self)
    have ih := lookupSides_blocks H D scratch storage bs (fun b' hb' => hb b' (List.mem_cons_of_mem _ hb'))
    simp only [List.map_cons, lookupSides]
    unfold lookNode at hnd
    cases hs : scratch.get (rpos D.length b.1 b.2) with
    | some n =>
      simp only [hs, Option.some.injEq] at hnd ⊢
      subst hnd
      simp only [ih, hh]
    | none =>
      simp only [hs] at hnd ⊢
      rw [hnd]
      simp only [ih, hh]

theorem pow_dvd_of_le_dvd {a h h' : Nat} (hle : h' ≤ h) (hd : 2 ^ h ∣ a) : 2 ^ h' ∣ a :=
  Nat.dvd_trans (Nat.pow_dvd_pow 2 hle) hd

/-- **`MerkleTree::prove` returns the RFC 6962 audit path**, provided the tree's stack yields the root
and the lookups (scratch of `root_node`, then storage) find every valid aligned block -/
theorem prove_of_lookOk (H : HashFn) (t : Tree) (D : List Bytes) (i : Nat) (hi : i < D.length)
    (hb : D.length < 2 ^ 63) (hc : t.leavesCount = D.length)
    (rootN : Node) (scratch : Storage) (hroot : t.rootNode H = .ok (some rootN, scratch))
    (hrh : rootN.hash = mth H D) (hlk : LookOk H D scratch t.storage) :
    t.prove H i = .ok (mth H D, auditPath H i D) := by
  have hn : 1 ≤ D.length := by omega
  obtain ⟨hrp, hlt, h64⟩ := rootPosition_eq hn hb
  obtain ⟨pairs, hpp, hsides⟩ := positionPath_sides hi hb
  have hblocks : ∀ b ∈ ab D.length i (treeHt D.length) 0,
      ∃ nd, lookNode scratch t.storage (rpos D.length b.1 b.2) = some nd ∧ nd.hash = mth H (seg D b.1 b.2) := by
    intro b hbm
    obtain ⟨hd, hlt', hh⟩ := ab_good (treeHt D.length) 0 (Nat.dvd_zero _) (Nat.zero_le _) hi b hbm
    have hv := rh_valid hn hlt' b.2
    have hle := rh_le D.length b.1 b.2
    obtain ⟨nd, h1, h2⟩ := hlk b.1 (rh D.length b.1 b.2) (pow_dvd_of_le_dvd hle hd) (by omega) hv
    exact ⟨nd, h1, by rw [h2, seg_rh]⟩
  have hlook := lookupSides_blocks H D scratch t.storage _ hblocks
  have hseg : seg D 0 (treeHt D.length) = D := by
    unfold seg; rw [List.drop_zero, List.take_of_length_le (by omega)]
  have haudit := ab_auditPath H D hi (treeHt D.length) 0 (Nat.zero_le _) (by omega)
  rw [hseg, Nat.sub_zero] at haudit
  unfold Tree.prove
  rw [if_neg (by omega), hc, hrp]
  simp only [fromLeafIndex, show 2 * i < 2 ^ 64 by omega, if_true, hpp, hsides, hroot, hlook, haudit, hrh]

end FuelVerif.BMT
