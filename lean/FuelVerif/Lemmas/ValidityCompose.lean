/-
Helper lemmas for C19's composition with C10 / C15: the declarative predicate `CommonOk / MetadataOk / KindOk` and the
balance conditions depend on the cryptographic verdict flags of a summary only through "every flag that is present is
true". `Tx.eraseFlags` sets every flag to true; `Tx.FlagsTrue` says they were true.
-/
import FuelVerif.Lemmas.ValidityRules
import FuelVerif.Model.ValidityCompose
namespace FuelVerif.Validity
open FuelVerif.Fee

/-- set the verdict of a `ContractCreated` output to "matches" -/
def Output.eraseFlag : Output → Output
  | .contractCreated _ => .contractCreated true
  | o => o

/-- set the verdicts of a body to "passes" -/
def Body.eraseFlags : Body → Body
  | .upgradeConsensus wi _ d => .upgradeConsensus wi true d
  | .upload wi n _ => .upload wi n true
  | .blob wi _ => .blob wi true
  | b => b

def Tx.eraseFlags (tx : Tx) : Tx :=
  { tx with body := tx.body.eraseFlags, outputs := tx.outputs.map Output.eraseFlag }

/-- the verdicts the kind reads are all "passes" (the deserialisation verdict of Upgrade is not erased: it is not a
hash comparison and stays part of the skeleton) -/
def Tx.FlagsTrue (tx : Tx) : Prop :=
  (match tx.body with
   | .upgradeConsensus _ c _ => c = true
   | .upload _ _ ok => ok = true
   | .blob _ ok => ok = true
   | _ => True) ∧
  ∀ b, Output.contractCreated b ∈ tx.outputs → b = true

/-! ### functions of the outputs that do not see the flag -/

theorem changeCount_erase (l : List Output) (a : Nat) : changeCount (l.map Output.eraseFlag) a = changeCount l a := by
  unfold changeCount
  induction l with
  | nil => rfl
  | cons o rest ih =>
    cases o <;> simp only [List.map_cons, Output.eraseFlag, List.filter_cons] <;> (try split) <;> simp_all

theorem contractOutputCount_erase (l : List Output) (i : Nat) :
    contractOutputCount (l.map Output.eraseFlag) i = contractOutputCount l i := by
  unfold contractOutputCount
  induction l with
  | nil => rfl
  | cons o rest ih =>
    cases o <;> simp only [List.map_cons, Output.eraseFlag, List.filter_cons] <;> (try split) <;> simp_all

theorem coinOut_erase (l : List Output) (a : Nat) : coinOut (l.map Output.eraseFlag) a = coinOut l a := by
  unfold coinOut
  induction l with
  | nil => rfl
  | cons o rest ih =>
    simp only [List.map_cons, List.sum_cons] at ih ⊢
    rw [ih]
    cases o <;> rfl

theorem createdCount_erase (l : List Output) : createdCount (l.map Output.eraseFlag) = createdCount l := by
  unfold createdCount
  induction l with
  | nil => rfl
  | cons o rest ih =>
    cases o <;> simp only [List.map_cons, Output.eraseFlag, List.filter_cons, Output.isContractCreated] <;> simp_all

theorem isContractCreated_erase (o : Output) : o.eraseFlag.isContractCreated = o.isContractCreated := by
  cases o <;> rfl

theorem plainOutput_erase (p : Params) (o : Output) : PlainOutput p o.eraseFlag ↔ PlainOutput p o := by
  cases o <;> simp [Output.eraseFlag, PlainOutput]

theorem createOutput_erase (p : Params) (o : Output) :
    CreateOutput p o ↔ (CreateOutput p o.eraseFlag ∧ ∀ b, o = .contractCreated b → b = true) := by
  cases o <;> simp [Output.eraseFlag, CreateOutput]

theorem feeView_erase (tx : Tx) : feeView tx.eraseFlags = feeView tx := by
  unfold feeView feeKind Tx.eraseFlags
  cases hb : tx.body <;> simp [Body.eraseFlags]

theorem outputOk_erase (p : Params) (tx : Tx) (o : Output) : OutputOk p tx.eraseFlags o.eraseFlag ↔ OutputOk p tx o := by
  cases o <;> simp [Output.eraseFlag, OutputOk, Tx.eraseFlags]

theorem inputOk_erase (p : Params) (tx : Tx) (idx : Nat) (i : Input) : InputOk p tx.eraseFlags idx i ↔ InputOk p tx idx i := by
  cases i <;> simp [InputOk, Tx.eraseFlags, contractOutputCount_erase]

theorem ownerOk_erase (tx : Tx) : OwnerOk tx.eraseFlags ↔ OwnerOk tx := by
  simp [OwnerOk, Tx.eraseFlags]

/-- the common part does not read the flags at all -/
theorem commonOk_erase (p : Params) (h : Nat) (tx : Tx) : CommonOk p h tx.eraseFlags ↔ CommonOk p h tx := by
  unfold CommonOk
  rw [feeView_erase, ownerOk_erase]
  have e1 : tx.eraseFlags.size = tx.size := rfl
  have e2 : tx.eraseFlags.policies = tx.policies := rfl
  have e3 : tx.eraseFlags.inputs = tx.inputs := rfl
  have e4 : tx.eraseFlags.witnesses = tx.witnesses := rfl
  have e5 : tx.eraseFlags.outputs = tx.outputs.map Output.eraseFlag := rfl
  simp only [e1, e2, e3, e4, inputOk_erase]
  rw [e5]
  simp only [List.length_map, changeCount_erase]
  have ho : (∀ (idx : Nat) (o : Output), (tx.outputs.map Output.eraseFlag)[idx]? = some o → OutputOk p tx.eraseFlags o) ↔
      (∀ (idx : Nat) (o : Output), tx.outputs[idx]? = some o → OutputOk p tx o) := by
    constructor
    · intro hh idx o ho
      have := hh idx o.eraseFlag (by simp [ho])
      exact (outputOk_erase p tx o).mp this
    · intro hh idx o ho
      simp only [List.getElem?_map, Option.map_eq_some_iff] at ho
      obtain ⟨o', ho', rfl⟩ := ho
      exact (outputOk_erase p tx o').mpr (hh idx o' ho')
  rw [ho]

theorem metadataOk_erase (tx : Tx) :
    MetadataOk tx ↔ (MetadataOk tx.eraseFlags ∧ ∀ wi c d, tx.body = .upgradeConsensus wi c d → c = true) := by
  unfold MetadataOk Tx.eraseFlags
  cases hb : tx.body <;> simp [Body.eraseFlags]
  case upgradeConsensus wi c d => constructor <;> (intro h; simp_all)

theorem kindOk_erase (p : Params) (tx : Tx) :
    KindOk p tx ↔ (KindOk p tx.eraseFlags ∧
      (∀ wi n ok, tx.body = .upload wi n ok → ok = true) ∧ (∀ wi ok, tx.body = .blob wi ok → ok = true) ∧
      ∀ b, Output.contractCreated b ∈ tx.outputs → b = true) := by
  have hin : tx.eraseFlags.inputs = tx.inputs := rfl
  have hw : tx.eraseFlags.witnesses = tx.witnesses := rfl
  have hout : tx.eraseFlags.outputs = tx.outputs.map Output.eraseFlag := rfl
  have hplain : (∀ o ∈ tx.outputs.map Output.eraseFlag, PlainOutput p o) ↔ (∀ o ∈ tx.outputs, PlainOutput p o) := by
    simp only [List.mem_map, forall_exists_index, and_imp, forall_apply_eq_imp_iff₂, plainOutput_erase]
  have hnocc : (∀ o ∈ tx.outputs, PlainOutput p o) → ∀ b, Output.contractCreated b ∈ tx.outputs → b = true := by
    intro h b hb; exact absurd (h _ hb) (by simp [PlainOutput])
  unfold KindOk
  cases hb : tx.body with
  | script g sl sdl =>
    have e : tx.eraseFlags.body = .script g sl sdl := by simp [Tx.eraseFlags, hb, Body.eraseFlags]
    simp only [e, hout, reduceCtorEq, false_imp_iff, implies_true, true_and]
    have hs : (∀ o ∈ tx.outputs.map Output.eraseFlag, o.isContractCreated = false) ↔ (∀ o ∈ tx.outputs, o.isContractCreated = false) := by
      simp only [List.mem_map, forall_exists_index, and_imp, forall_apply_eq_imp_iff₂, isContractCreated_erase]
    rw [hs]
    constructor
    · rintro ⟨h1, h2, h3⟩
      exact ⟨⟨h1, h2, h3⟩, fun b hb' => absurd (h3 _ hb') (by simp [Output.isContractCreated])⟩
    · rintro ⟨h, _⟩; exact h
  | create bwi slots =>
    have e : tx.eraseFlags.body = .create bwi slots := by simp [Tx.eraseFlags, hb, Body.eraseFlags]
    simp only [e, hin, hw, hout, createdCount_erase, reduceCtorEq, false_imp_iff, implies_true, true_and]
    have hc : (∀ o ∈ tx.outputs, CreateOutput p o) ↔
        ((∀ o ∈ tx.outputs.map Output.eraseFlag, CreateOutput p o) ∧ ∀ b, Output.contractCreated b ∈ tx.outputs → b = true) := by
      simp only [List.mem_map, forall_exists_index, and_imp, forall_apply_eq_imp_iff₂]
      constructor
      · intro h
        exact ⟨fun o ho => ((createOutput_erase p o).mp (h o ho)).1, fun b hb' => ((createOutput_erase p _).mp (h _ hb')).2 b rfl⟩
      · rintro ⟨h1, h2⟩ o ho
        exact (createOutput_erase p o).mpr ⟨h1 o ho, fun b hb' => h2 b (hb' ▸ ho)⟩
    rw [hc]
    constructor
    · rintro ⟨h1, h2, h3, h4, ⟨h5, h6⟩, h7⟩; exact ⟨⟨h1, h2, h3, h4, h5, h7⟩, h6⟩
    · rintro ⟨⟨h1, h2, h3, h4, h5, h7⟩, h6⟩; exact ⟨h1, h2, h3, h4, ⟨h5, h6⟩, h7⟩
  | upgradeConsensus wi c d =>
    have e : tx.eraseFlags.body = .upgradeConsensus wi true d := by simp [Tx.eraseFlags, hb, Body.eraseFlags]
    simp only [e, hin, hout, hplain, reduceCtorEq, false_imp_iff, implies_true, true_and]
    constructor
    · rintro ⟨h1, h2, h3⟩; exact ⟨⟨h1, h2, h3⟩, hnocc h3⟩
    · rintro ⟨h, _⟩; exact h
  | upgradeState =>
    have e : tx.eraseFlags.body = .upgradeState := by simp [Tx.eraseFlags, hb, Body.eraseFlags]
    simp only [e, hin, hout, hplain, reduceCtorEq, false_imp_iff, implies_true, true_and]
    constructor
    · rintro ⟨h1, h2, h3⟩; exact ⟨⟨h1, h2, h3⟩, hnocc h3⟩
    · rintro ⟨h, _⟩; exact h
  | upload wi n ok =>
    have e : tx.eraseFlags.body = .upload wi n true := by simp [Tx.eraseFlags, hb, Body.eraseFlags]
    simp only [e, hin, hw, hout, hplain, reduceCtorEq, false_imp_iff, implies_true, true_and]
    constructor
    · rintro ⟨h1, h2, h3, h4, h5⟩; exact ⟨⟨h1, h2, h4, h5⟩, by intro a b c h; simp_all, hnocc h5⟩
    · rintro ⟨⟨h1, h2, h4, h5⟩, h3, _⟩; exact ⟨h1, h2, h3 wi n ok rfl, h4, h5⟩
  | blob wi ok =>
    have e : tx.eraseFlags.body = .blob wi true := by simp [Tx.eraseFlags, hb, Body.eraseFlags]
    simp only [e, hin, hw, hout, hplain, reduceCtorEq, false_imp_iff, implies_true, true_and]
    constructor
    · rintro ⟨h1, h2, h4, h5⟩; exact ⟨⟨h1, h4, h5⟩, by intro a b h; simp_all, hnocc h5⟩
    · rintro ⟨⟨h1, h4, h5⟩, h2, _⟩; exact ⟨h1, h2 wi ok rfl, h4, h5⟩

end FuelVerif.Validity
