/-
Helper lemmas for C23/C24: representation invariant of `MemoryInstance`, the simulation relation to the flat
specification, and one refinement lemma per operation.
-/
import FuelVerif.Model.MemorySpec
namespace FuelVerif.Memory

/-! ### arithmetic helpers -/

theorem nextPow2Go_ge (n : Nat) : ∀ (fuel p : Nat), n ≤ p * 2 ^ fuel → n ≤ nextPow2Go n fuel p
  | 0, p, h => by simpa [nextPow2Go] using h
  | fuel + 1, p, h => by
    unfold nextPow2Go
    split
    · assumption
    · apply nextPow2Go_ge n fuel (2 * p)
      rw [Nat.pow_succ] at h
      calc n ≤ p * (2 ^ fuel * 2) := h
        _ = 2 * p * 2 ^ fuel := by ac_rfl

/-- `next_power_of_two` does not go below its argument (no overflow below `2^64`) -/
theorem le_nextPow2 {n : Nat} (h : n ≤ 2 ^ 64) : n ≤ nextPow2 n := by
  unfold nextPow2
  exact nextPow2Go_ge n 64 1 (by simpa using h)

theorem clamp_bounds {x lo hi : Nat} (h : lo ≤ hi) : lo ≤ clamp x lo hi ∧ clamp x lo hi ≤ hi ∧ min x hi ≤ clamp x lo hi := by
  unfold clamp
  split
  · omega
  · split <;> omega

/-! ### representation invariant and simulation -/

/-- what every reachable `MemoryInstance` satisfies: the heap vector is at most `M` long, `hp` lies inside it,
the stack vector ends at or below `hp` -/
structure Inv (M : Nat) (m : Mem) : Prop where
  heapLen_le : m.heapLen ≤ M
  off_le_hp : M - m.heapLen ≤ m.hp
  hp_le : m.hp ≤ M
  stack_le : m.stackLen ≤ m.hp

/-- the instance `m` represents the flat memory `f`: same extents, same byte at every accessible address
(stack vector below `sl`; heap vector at `addr - heap_offset` from `hp` up) -/
structure Sim (M : Nat) (m : Mem) (f : Flat) : Prop where
  inv : Inv M m
  sl : m.stackLen = f.sl
  hp : m.hp = f.hp
  stack : ∀ a, a < m.stackLen → m.stack a = f.bytes a
  heap : ∀ a, m.hp ≤ a → a < M → m.heap (a - (M - m.heapLen)) = f.bytes a

/-- results of a concrete and an abstract operation agree: same error, or related successor states -/
def RefRes (M : Nat) : Except Err Mem → Except Err Flat → Prop
  | .ok m', .ok f' => Sim M m' f'
  | .error e, .error e' => e = e'
  | _, _ => False

theorem sim_new (M : Nat) : Sim M (Mem.new M) (Flat.init M) := by
  refine ⟨⟨?_, ?_, ?_, ?_⟩, rfl, rfl, ?_, ?_⟩ <;> simp [Mem.new, Flat.init]

theorem reset_refines {M : Nat} {m : Mem} {f : Flat} (h : Sim M m f) : Sim M (m.reset M) (f.reset M) := by
  obtain ⟨⟨h1, h2, h3, h4⟩, hsl, hhp, hst, hhe⟩ := h
  refine ⟨⟨h1, ?_, ?_, ?_⟩, rfl, rfl, ?_, ?_⟩ <;> simp only [Mem.reset, Flat.reset]
  · omega
  · omega
  · omega
  · intro a ha; omega
  · intro a ha hb; omega

theorem growStack_refines {M : Nat} {m : Mem} {f : Flat} (h : Sim M m f) (n : Nat) :
    RefRes M (m.growStack M n) (f.growStack M n) := by
  obtain ⟨⟨h1, h2, h3, h4⟩, hsl, hhp, hst, hhe⟩ := h
  unfold Mem.growStack Flat.growStack
  rw [← hsl, ← hhp]
  by_cases c1 : n > M
  · simp [c1, RefRes]
  · by_cases c2 : n > m.stackLen
    · by_cases c3 : n > m.hp
      · simp [c1, c2, c3, Nat.not_le.mpr c2, RefRes]
      · simp only [c1, c2, c3, Nat.not_le.mpr c2, if_false, if_true, RefRes]
        refine ⟨⟨h1, h2, h3, ?_⟩, rfl, rfl, ?_, ?_⟩ <;> dsimp only
        · omega
        · intro a ha
          grind [resize0]
        · intro a ha hb
          grind
    · simp only [c1, c2, Nat.not_lt.mp c2, if_false, if_true, RefRes]
      exact ⟨⟨h1, h2, h3, h4⟩, hsl, hhp, hst, hhe⟩

theorem growHeapBy_refines {M minCap : Nat} (hM : M ≤ 2 ^ 64) (hcap : minCap ≤ M) {m : Mem} {f : Flat}
    (h : Sim M m f) (sp amt : Nat) :
    RefRes M (m.growHeapBy M minCap sp amt) (f.growHeap sp amt) := by
  obtain ⟨⟨h1, h2, h3, h4⟩, hsl, hhp, hst, hhe⟩ := h
  unfold Mem.growHeapBy Flat.growHeap
  rw [← hsl, ← hhp]
  by_cases c1 : m.hp < amt
  · simp [c1, RefRes]
  · by_cases c2 : m.hp - amt < sp
    · simp [c1, c2, RefRes]
    · have c3 : ¬ M < m.hp - amt := by omega
      simp only [c1, c2, c3, if_false, Mem.heapOffset]
      by_cases c4 : m.heapLen ≥ M - (m.hp - amt)
      · have c5 : ¬ (m.hp - amt < M - m.heapLen ∨ m.hp < M - m.heapLen ∨ m.hp - (M - m.heapLen) > m.heapLen) := by omega
        simp only [c4, c5, if_true, if_false, RefRes]
        refine ⟨⟨h1, ?_, ?_, ?_⟩, rfl, rfl, ?_, ?_⟩ <;> dsimp only
        · omega
        · omega
        · omega
        · intro a ha
          have := hst a (by omega)
          grind
        · intro a ha hb
          have := hhe a
          grind [fill0]
      · have c5 : ¬ (m.hp - (M - m.heapLen) > m.heapLen) := by omega
        have c6 : ¬ M < minCap := by omega
        have hb := clamp_bounds (x := nextPow2 (M - (m.hp - amt))) hcap
        have hnp := le_nextPow2 (n := M - (m.hp - amt)) (by omega)
        have c7 : ¬ clamp (nextPow2 (M - (m.hp - amt))) minCap M < m.heapLen := by omega
        simp only [c4, c5, c6, c7, h2, true_and, if_true, if_false, RefRes]
        generalize clamp (nextPow2 (M - (m.hp - amt))) minCap M = cap at *
        refine ⟨⟨?_, ?_, ?_, ?_⟩, rfl, rfl, ?_, ?_⟩ <;> dsimp only
        · omega
        · omega
        · omega
        · omega
        · intro a ha
          have := hst a (by omega)
          grind
        · intro a ha hb'
          have := hhe a
          simp only [fill0, copyFrom, resize0]
          grind

/-! ### verify / read / write / memcopy -/

theorem verify_refines {M : Nat} {m : Mem} {f : Flat} (h : Sim M m f) (a c : Nat) :
    m.verify M a c = f.verify M a c := by
  obtain ⟨_, hsl, hhp, _, _⟩ := h
  unfold Mem.verify Flat.verify
  by_cases c1 : a > M
  · simp [c1]
  · by_cases c2 : c > M
    · simp [c1, c2]
    · by_cases c3 : a + c > M
      · simp [c1, c2, c3]
      · have : a + c ≤ M := by omega
        simp [c1, c2, c3, this, Flat.accessible, hsl, hhp]

theorem verify_ok {M : Nat} {m : Mem} {a c s e : Nat} (h : m.verify M a c = .ok (s, e)) :
    s = a ∧ e = a + c ∧ e ≤ M ∧ (e ≤ m.stackLen ∨ m.hp ≤ s) := by
  unfold Mem.verify at h
  split at h; · cases h
  split at h; · cases h
  split at h; · cases h
  split at h
  · simp only [Except.ok.injEq, Prod.mk.injEq] at h
    omega
  · cases h

theorem slice_congr {f g : Buf} {s e s' e' : Nat} (hl : e - s = e' - s')
    (h : ∀ i, i < e - s → f (s + i) = g (s' + i)) : slice f s e = slice g s' e' := by
  unfold slice
  rw [← hl]
  apply List.map_congr_left
  intro i hi
  exact h i (List.mem_range.mp hi)

theorem slice_length (f : Buf) (s e : Nat) : (slice f s e).length = e - s := by simp [slice]

theorem slice_getElem (f : Buf) (s e i : Nat) (h : i < (slice f s e).length) : (slice f s e)[i] = f (s + i) := by
  simp [slice]

theorem read_refines {M : Nat} {m : Mem} {f : Flat} (h : Sim M m f) (a c : Nat) :
    m.read M a c = f.read M a c := by
  unfold Mem.read Flat.read
  rw [← verify_refines h a c]
  cases hv : m.verify M a c with
  | error e => rfl
  | ok r =>
    obtain ⟨s, e⟩ := r
    obtain ⟨rfl, rfl, hM, hacc⟩ := verify_ok hv
    obtain ⟨⟨h1, h2, h3, h4⟩, hsl, hhp, hst, hhe⟩ := h
    simp only [Mem.heapOffset]
    by_cases c1 : s + c ≤ m.stackLen
    · simp only [c1, if_true]
      congr 1
      apply slice_congr rfl
      intro i hi
      exact hst _ (by omega)
    · have c2 : s ≥ M - m.heapLen := by omega
      have c3 : ¬ (s + c - (M - m.heapLen) > m.heapLen) := by omega
      simp only [c1, c2, c3, if_true, if_false]
      congr 1
      apply slice_congr (by omega)
      intro i hi
      have := hhe (s + i) (by omega) (by omega)
      rw [← this]
      congr 1
      omega

theorem Flat.read_one {M : Nat} {f : Flat} {a : Nat} (h1 : a + 1 ≤ M) (h2 : a + 1 ≤ f.sl ∨ f.hp ≤ a) :
    f.read M a 1 = .ok [f.bytes a] := by
  unfold Flat.read Flat.verify
  have n1 : ¬ (a > M ∨ 1 > M ∨ a + 1 > M) := by omega
  have n2 : f.accessible M a (a + 1) := ⟨h1, h2⟩
  rw [if_neg n1, if_pos n2]
  simp [slice]

theorem Flat.verify_cases (M : Nat) (f : Flat) (a c : Nat) :
    (f.verify M a c = .ok (a, a + c) ∧ f.accessible M a (a + c)) ∨ (∃ e, f.verify M a c = .error e) := by
  unfold Flat.verify
  split
  · exact Or.inr ⟨_, rfl⟩
  · split
    · rename_i h; exact Or.inl ⟨rfl, h⟩
    · exact Or.inr ⟨_, rfl⟩

theorem writeNoOwnerChecks_refines {M : Nat} {m : Mem} {f : Flat} (h : Sim M m f) (a len : Nat) (vals : Nat → UInt8) :
    RefRes M (m.writeNoOwnerChecks M a len vals) (f.write M a len vals) := by
  unfold Mem.writeNoOwnerChecks Flat.write
  rw [← verify_refines h a len]
  cases hv : m.verify M a len with
  | error e => simp [RefRes]
  | ok r =>
    obtain ⟨s, e⟩ := r
    obtain ⟨rfl, rfl, hM, hacc⟩ := verify_ok hv
    obtain ⟨⟨h1, h2, h3, h4⟩, hsl, hhp, hst, hhe⟩ := h
    simp only [Mem.heapOffset]
    by_cases c1 : s + len ≤ m.stackLen
    · simp only [c1, if_true, RefRes]
      refine ⟨⟨h1, h2, h3, h4⟩, hsl, hhp, ?_, ?_⟩ <;> dsimp only
      · intro x hx
        have := hst x hx
        grind [putAt]
      · intro x hx hx'
        have := hhe x hx hx'
        grind [putAt]
    · have c2 : s ≥ M - m.heapLen := by omega
      have c3 : ¬ (s + len - (M - m.heapLen) > m.heapLen) := by omega
      simp only [c1, c2, c3, if_true, if_false, RefRes]
      refine ⟨⟨h1, h2, h3, h4⟩, hsl, hhp, ?_, ?_⟩ <;> dsimp only
      · intro x hx
        have := hst x hx
        grind [putAt]
      · intro x hx hx'
        have := hhe x hx hx'
        simp only [putAt]
        grind

/-! ### ownership: the transcribed predicate is exactly the declarative one -/

theorem hasRange_iff_owns (M : Nat) (o : Ownership) {s e : Nat} (hse : s ≤ e) :
    o.hasRange M s e = true ↔ o.owns M s e := by
  unfold Ownership.hasRange Ownership.hasStack Ownership.hasHeap Ownership.owns
  simp only [Bool.or_eq_true]
  by_cases c1 : s < e
  · have n1 : ¬ (e ≤ s ∧ s = o.ssp) := by omega
    have n2 : ¬ (e ≤ s ∧ s = o.hp) := by omega
    simp only [n1, n2, if_false]
    split <;> split <;> (try split) <;> simp <;> omega
  · have : s = e := by omega
    subst this
    split <;> split <;> (try split) <;> (try split) <;> simp <;> omega

theorem verifyOwnership_ok_iff (M : Nat) (o : Ownership) {s e : Nat} (hse : s ≤ e) :
    o.verifyOwnership M s e = .ok () ↔ o.owns M s e := by
  rw [← hasRange_iff_owns M o hse]
  unfold Ownership.verifyOwnership
  split <;> simp_all

theorem verifyOwnership_cases (M : Nat) (o : Ownership) (s e : Nat) :
    o.verifyOwnership M s e = .ok () ∨ o.verifyOwnership M s e = .error .MemoryOwnership := by
  unfold Ownership.verifyOwnership
  split <;> simp

/-- the four-way test of `memcopy` is exactly "the two ranges share a byte" (for ranges of equal length) -/
theorem memcopyOverlap_iff {ds ss len : Nat} :
    memcopyOverlap ds (ds + len) ss (ss + len) = true ↔ (ds < ss + len ∧ ss < ds + len ∧ 0 < len) := by
  unfold memcopyOverlap
  simp only [Bool.or_eq_true, Bool.and_eq_true, decide_eq_true_eq]
  omega

theorem shareByte_iff {ds ss len : Nat} :
    shareByte ds (ds + len) ss (ss + len) ↔ (ds < ss + len ∧ ss < ds + len ∧ 0 < len) := by
  unfold shareByte
  constructor
  · rintro ⟨x, h1, h2, h3, h4⟩; omega
  · intro h
    exact ⟨max ds ss, by omega, by omega, by omega, by omega⟩

theorem write_refines {M : Nat} {m : Mem} {f : Flat} (h : Sim M m f) (o : Ownership) (a len : Nat) (vals : Nat → UInt8) :
    RefRes M (m.write M o a len vals) (f.writeOwned M o a len vals) := by
  unfold Mem.write Flat.writeOwned
  rw [← verify_refines h a len]
  cases hv : m.verify M a len with
  | error e => simp [RefRes]
  | ok r =>
    obtain ⟨s, e⟩ := r
    obtain ⟨rfl, rfl, hM, hacc⟩ := verify_ok hv
    dsimp only
    rcases verifyOwnership_cases M o s (s + len) with ho | ho
    · have := (verifyOwnership_ok_iff M o (by omega : s ≤ s + len)).mp ho
      simp only [ho, this, if_true]
      have hw := writeNoOwnerChecks_refines h s (s + len - s) vals
      unfold Flat.write at hw
      rw [← verify_refines h] at hw
      have hv' : m.verify M s (s + len - s) = .ok (s, s + len) := by
        rw [show s + len - s = len by omega]; exact hv
      rw [hv'] at hw
      exact hw
    · have : ¬ o.owns M s (s + len) := by
        intro hc
        rw [(verifyOwnership_ok_iff M o (by omega : s ≤ s + len)).mpr hc] at ho
        cases ho
      simp [ho, this, RefRes]

theorem memcopy_refines {M : Nat} {m : Mem} {f : Flat} (h : Sim M m f) (dst src len : Nat) (o : Ownership) :
    RefRes M (m.memcopy M dst src len o) (f.memcopy M dst src len o) := by
  unfold Mem.memcopy Flat.memcopy
  rw [← verify_refines h dst len, ← verify_refines h src len]
  cases hv : m.verify M dst len with
  | error e => simp [RefRes]
  | ok r =>
    obtain ⟨ds, de⟩ := r
    obtain ⟨rfl, rfl, hM, hacc⟩ := verify_ok hv
    cases hv2 : m.verify M src len with
    | error e => simp [RefRes]
    | ok r2 =>
      obtain ⟨ss, se⟩ := r2
      obtain ⟨rfl, rfl, hM2, hacc2⟩ := verify_ok hv2
      dsimp only
      by_cases hov : memcopyOverlap ds (ds + len) ss (ss + len) = true
      · have := memcopyOverlap_iff.mp hov
        simp [hov, this, RefRes]
      · have hn : ¬ (ds < ss + len ∧ ss < ds + len ∧ 0 < len) := fun hc => hov (memcopyOverlap_iff.mpr hc)
        simp only [hov, hn, if_false, Bool.false_eq_true]
        rcases verifyOwnership_cases M o ds (ds + len) with ho | ho
        · have hown := (verifyOwnership_ok_iff M o (by omega : ds ≤ ds + len)).mp ho
          simp only [ho, hown, if_true, Mem.heapOffset]
          obtain ⟨⟨h1, h2, h3, h4⟩, hsl, hhp, hst, hhe⟩ := h
          by_cases c1 : ss + len ≤ m.stackLen
          · by_cases c2 : ds + len ≤ m.stackLen
            · simp only [c1, c2, if_true, RefRes]
              refine ⟨⟨h1, h2, h3, h4⟩, hsl, hhp, ?_, ?_⟩ <;> dsimp only
              · intro x hx
                have := hst x hx
                have := hst (ss + (x - ds))
                grind [copyFrom]
              · intro x hx hx'
                have := hhe x hx hx'
                grind
            · have c3 : ds ≥ M - m.heapLen := by omega
              have c4 : ¬ (ds + len - (M - m.heapLen) > m.heapLen) := by omega
              simp only [c1, c2, c3, c4, if_true, if_false, RefRes]
              refine ⟨⟨h1, h2, h3, h4⟩, hsl, hhp, ?_, ?_⟩ <;> dsimp only
              · intro x hx
                have := hst x hx
                grind
              · intro x hx hx'
                have := hhe x hx hx'
                have := hst (ss + (x - ds))
                simp only [copyFrom]
                grind
          · have c2 : ss ≥ M - m.heapLen := by omega
            by_cases c3 : ds + len ≤ m.stackLen
            · have c4 : ¬ (ss + len - (M - m.heapLen) > m.heapLen) := by omega
              simp only [c1, c2, c3, c4, if_true, if_false, RefRes]
              refine ⟨⟨h1, h2, h3, h4⟩, hsl, hhp, ?_, ?_⟩ <;> dsimp only
              · intro x hx
                have := hst x hx
                have := hhe (ss + (x - ds))
                simp only [copyFrom]
                grind
              · intro x hx hx'
                have := hhe x hx hx'
                grind
            · have c5 : ds ≥ M - m.heapLen := by omega
              have c6 : ¬ (ss + len - (M - m.heapLen) > m.heapLen ∨ ds + len - (M - m.heapLen) > m.heapLen) := by omega
              simp only [c1, c2, c3, c5, c6, if_true, if_false, RefRes]
              refine ⟨⟨h1, h2, h3, h4⟩, hsl, hhp, ?_, ?_⟩ <;> dsimp only
              · intro x hx
                have := hst x hx
                grind
              · intro x hx hx'
                have := hhe x hx hx'
                have := hhe (ss + (x - ds))
                simp only [copyFrom]
                grind
        · have : ¬ o.owns M ds (ds + len) := by
            intro hc
            rw [(verifyOwnership_ok_iff M o (by omega : ds ≤ ds + len)).mpr hc] at ho
            cases ho
          simp [ho, this, RefRes]
