/- Tree-level round trips of the postcard and bincode models (mutual structural induction). -/
import FuelVerif.Lemmas.Serde
namespace FuelVerif.Serde

theorem le_roundtrip8 (n : Nat) (h : n < 2 ^ 8) (r : Bytes) : leDec 1 (leEnc 1 n ++ r) = some (n, r) :=
  le_roundtrip 1 n (by simpa using h) r
theorem le_roundtrip16 (n : Nat) (h : n < 2 ^ 16) (r : Bytes) : leDec 2 (leEnc 2 n ++ r) = some (n, r) :=
  le_roundtrip 2 n (by simpa using h) r
theorem le_roundtrip32 (n : Nat) (h : n < 2 ^ 32) (r : Bytes) : leDec 4 (leEnc 4 n ++ r) = some (n, r) :=
  le_roundtrip 4 n (by simpa using h) r
theorem le_roundtrip64 (n : Nat) (h : n < 2 ^ 64) (r : Bytes) : leDec 8 (leEnc 8 n ++ r) = some (n, r) :=
  le_roundtrip 8 n (by simpa using h) r
theorem le_roundtrip128 (n : Nat) (h : n < 2 ^ 128) (r : Bytes) : leDec 16 (leEnc 16 n ++ r) = some (n, r) :=
  le_roundtrip 16 n (by simpa using h) r

theorem pcEnc_cons_append (t : Tree) (ts : List Tree) (r : Bytes) :
    pcEncList (t :: ts) ++ r = pcEnc t ++ (pcEncList ts ++ r) := by
  simp [pcEncList, List.append_assoc]

mutual
theorem pc_roundtrip : ∀ (t : Tree) (s : Shape) (r : Bytes), HasShape s t → pcDec s (pcEnc t ++ r) = some (t, r)
  | .u8 n, s, r, h => by
    cases s <;> simp only [HasShape] at h
    simp [pcEnc, pcDec, u8_ofNat_toNat n h]
  | .u16 n, s, r, h => by
    cases s <;> simp only [HasShape] at h
    simp [pcEnc, pcDec, varint_roundtrip16 n h r]
  | .u32 n, s, r, h => by
    cases s <;> simp only [HasShape] at h
    simp [pcEnc, pcDec, varint_roundtrip32 n h r]
  | .u64 n, s, r, h => by
    cases s <;> simp only [HasShape] at h
    simp [pcEnc, pcDec, varint_roundtrip64 n h r]
  | .u128 n, s, r, h => by
    cases s <;> simp only [HasShape] at h
    simp [pcEnc, pcDec, varint_roundtrip128 n h r]
  | .bool b, s, r, h => by
    cases s <;> simp only [HasShape] at h
    cases b <;> simp [pcEnc, pcDec]
  | .bytes bs, s, r, h => by
    cases s <;> simp only [HasShape] at h
    simp [pcEnc, pcDec, List.append_assoc, varint_roundtrip64 _ h, takeN_append]
  | .seq xs, s, r, h => by
    cases s <;> simp only [HasShape] at h
    simp [pcEnc, pcDec, List.append_assoc, varint_roundtrip64 _ h.1, pc_roundtrip_all xs _ r h.2]
  | .tuple xs, s, r, h => by
    cases s with
    | tuple fs =>
      simp only [HasShape] at h
      simp [pcEnc, pcDec, pc_roundtrip_list xs _ r h]
    | sel al lg a b =>
      rcases xs with _ | ⟨y, _ | ⟨x, _ | ⟨z, zs⟩⟩⟩
      · simp [HasShape] at h
      · simp [HasShape] at h
      · cases y <;> try (simp [HasShape] at h; done)
        rename_i bits
        simp only [HasShape] at h
        obtain ⟨hb, hx⟩ := h
        by_cases hs : selLegacy al lg bits = true
        · simp only [hs, if_true] at hx
          simp [pcEnc, pcEncList, pcDec, List.append_assoc, varint_roundtrip32 _ hb, hs, pc_roundtrip x a r hx]
        · have hs' : selLegacy al lg bits = false := by simpa using hs
          simp only [hs', Bool.false_eq_true, if_false] at hx
          simp [pcEnc, pcEncList, pcDec, List.append_assoc, varint_roundtrip32 _ hb, hs', pc_roundtrip x b r hx]
      · simp [HasShape] at h
    | _ => simp only [HasShape] at h
  | .variant idx p, s, r, h => by
    cases s <;> simp only [HasShape] at h
    simp [pcEnc, pcDec, List.append_assoc, varint_roundtrip32 _ h.1, pc_roundtrip_variant p _ idx idx r h.2]
  | .none, s, r, h => by
    cases s <;> simp only [HasShape] at h
    simp [pcEnc, pcDec]
  | .some t, s, r, h => by
    cases s <;> simp only [HasShape] at h
    simp [pcEnc, pcDec, pc_roundtrip t _ r h]
theorem pc_roundtrip_all : ∀ (ts : List Tree) (e : Shape) (r : Bytes), AllShape e ts →
    decN (pcDec e) ts.length (pcEncList ts ++ r) = some (ts, r)
  | [], e, r, _ => by simp [decN, pcEncList]
  | t :: ts, e, r, h => by
    simp only [AllShape] at h
    simp [decN, pcEncList, List.append_assoc, pc_roundtrip t e _ h.1, pc_roundtrip_all ts e r h.2]
theorem pc_roundtrip_list : ∀ (ts : List Tree) (ss : List Shape) (r : Bytes), ListShape ss ts →
    pcDecList ss (pcEncList ts ++ r) = some (ts, r)
  | [], ss, r, h => by
    cases ss <;> simp only [ListShape] at h
    simp [pcDecList, pcEncList]
  | t :: ts, ss, r, h => by
    cases ss with
    | nil => simp only [ListShape] at h
    | cons s ss =>
      simp only [ListShape] at h
      simp [pcDecList, pcEncList, List.append_assoc, pc_roundtrip t s _ h.1, pc_roundtrip_list ts ss r h.2]
theorem pc_roundtrip_variant : ∀ (p : Tree) (vs : List Shape) (k idx : Nat) (r : Bytes), VariantShape vs k p →
    pcDecVariant vs k idx (pcEnc p ++ r) = some (.variant idx p, r)
  | p, [], k, idx, r, h => by simp only [VariantShape] at h
  | p, s :: ss, 0, idx, r, h => by
    simp only [VariantShape] at h
    simp [pcDecVariant, pc_roundtrip p s r h]
  | p, s :: ss, k + 1, idx, r, h => by
    simp only [VariantShape] at h
    simp [pcDecVariant, pc_roundtrip_variant p ss k idx r h]
end


theorem bcEnc_cons_append (t : Tree) (ts : List Tree) (r : Bytes) :
    bcEncList (t :: ts) ++ r = bcEnc t ++ (bcEncList ts ++ r) := by
  simp [bcEncList, List.append_assoc]

mutual
theorem bc_roundtrip : ∀ (t : Tree) (s : Shape) (r : Bytes), HasShape s t → bcDec s (bcEnc t ++ r) = some (t, r)
  | .u8 n, s, r, h => by
    cases s <;> simp only [HasShape] at h
    simp [bcEnc, bcDec, le_roundtrip8 n h r]
  | .u16 n, s, r, h => by
    cases s <;> simp only [HasShape] at h
    simp [bcEnc, bcDec, le_roundtrip16 n h r]
  | .u32 n, s, r, h => by
    cases s <;> simp only [HasShape] at h
    simp [bcEnc, bcDec, le_roundtrip32 n h r]
  | .u64 n, s, r, h => by
    cases s <;> simp only [HasShape] at h
    simp [bcEnc, bcDec, le_roundtrip64 n h r]
  | .u128 n, s, r, h => by
    cases s <;> simp only [HasShape] at h
    simp [bcEnc, bcDec, le_roundtrip128 n h r]
  | .bool b, s, r, h => by
    cases s <;> simp only [HasShape] at h
    cases b <;> simp [bcEnc, bcDec]
  | .bytes bs, s, r, h => by
    cases s <;> simp only [HasShape] at h
    simp [bcEnc, bcDec, List.append_assoc, le_roundtrip64 _ h, takeN_append]
  | .seq xs, s, r, h => by
    cases s <;> simp only [HasShape] at h
    simp [bcEnc, bcDec, List.append_assoc, le_roundtrip64 _ h.1, bc_roundtrip_all xs _ r h.2]
  | .tuple xs, s, r, h => by
    cases s with
    | tuple fs =>
      simp only [HasShape] at h
      simp [bcEnc, bcDec, bc_roundtrip_list xs _ r h]
    | sel al lg a b =>
      rcases xs with _ | ⟨y, _ | ⟨x, _ | ⟨z, zs⟩⟩⟩
      · simp [HasShape] at h
      · simp [HasShape] at h
      · cases y <;> try (simp [HasShape] at h; done)
        rename_i bits
        simp only [HasShape] at h
        obtain ⟨hb, hx⟩ := h
        by_cases hs : selLegacy al lg bits = true
        · simp only [hs, if_true] at hx
          simp [bcEnc, bcEncList, bcDec, List.append_assoc, le_roundtrip32 _ hb, hs, bc_roundtrip x a r hx]
        · have hs' : selLegacy al lg bits = false := by simpa using hs
          simp only [hs', Bool.false_eq_true, if_false] at hx
          simp [bcEnc, bcEncList, bcDec, List.append_assoc, le_roundtrip32 _ hb, hs', bc_roundtrip x b r hx]
      · simp [HasShape] at h
    | _ => simp only [HasShape] at h
  | .variant idx p, s, r, h => by
    cases s <;> simp only [HasShape] at h
    simp [bcEnc, bcDec, List.append_assoc, le_roundtrip32 _ h.1, bc_roundtrip_variant p _ idx idx r h.2]
  | .none, s, r, h => by
    cases s <;> simp only [HasShape] at h
    simp [bcEnc, bcDec]
  | .some t, s, r, h => by
    cases s <;> simp only [HasShape] at h
    simp [bcEnc, bcDec, bc_roundtrip t _ r h]
theorem bc_roundtrip_all : ∀ (ts : List Tree) (e : Shape) (r : Bytes), AllShape e ts →
    decN (bcDec e) ts.length (bcEncList ts ++ r) = some (ts, r)
  | [], e, r, _ => by simp [decN, bcEncList]
  | t :: ts, e, r, h => by
    simp only [AllShape] at h
    simp [decN, bcEncList, List.append_assoc, bc_roundtrip t e _ h.1, bc_roundtrip_all ts e r h.2]
theorem bc_roundtrip_list : ∀ (ts : List Tree) (ss : List Shape) (r : Bytes), ListShape ss ts →
    bcDecList ss (bcEncList ts ++ r) = some (ts, r)
  | [], ss, r, h => by
    cases ss <;> simp only [ListShape] at h
    simp [bcDecList, bcEncList]
  | t :: ts, ss, r, h => by
    cases ss with
    | nil => simp only [ListShape] at h
    | cons s ss =>
      simp only [ListShape] at h
      simp [bcDecList, bcEncList, List.append_assoc, bc_roundtrip t s _ h.1, bc_roundtrip_list ts ss r h.2]
theorem bc_roundtrip_variant : ∀ (p : Tree) (vs : List Shape) (k idx : Nat) (r : Bytes), VariantShape vs k p →
    bcDecVariant vs k idx (bcEnc p ++ r) = some (.variant idx p, r)
  | p, [], k, idx, r, h => by simp only [VariantShape] at h
  | p, s :: ss, 0, idx, r, h => by
    simp only [VariantShape] at h
    simp [bcDecVariant, bc_roundtrip p s r h]
  | p, s :: ss, k + 1, idx, r, h => by
    simp only [VariantShape] at h
    simp [bcDecVariant, bc_roundtrip_variant p ss k idx r h]
end


end FuelVerif.Serde
