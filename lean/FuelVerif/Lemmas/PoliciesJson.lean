/- Helper lemmas for the JSON side of the Policies serde (C06). -/
import FuelVerif.Model.PoliciesJson
import FuelVerif.Lemmas.PoliciesSerde
namespace FuelVerif.PoliciesJson
open FuelVerif.Serde FuelVerif.PoliciesSerde FuelVerif.Gen.Policies

theorem numsOf_map : ∀ (vs : List Nat), (∀ v ∈ vs, v < 2 ^ 64) → numsOf (vs.map .num) = some vs
  | [], _ => rfl
  | v :: vs, h => by
    have hv : v < 2 ^ 64 := h v (by simp)
    simp [numsOf, hv, numsOf_map vs (fun x hx => h x (by simp [hx]))]

/-- the complete table of the 64 masks made of defined flags: text → bits inverts bits → text -/
theorem bits_text_table : (List.range 64).all (fun b => charsToBits (bitsToChars b) == some b) = true := by
  decide +kernel

theorem bits_text_roundtrip (b : Nat) (h : b < 64) : charsToBits (bitsToChars b) = some b := by
  have := List.all_eq_true.mp bits_text_table b (List.mem_range.mpr h)
  simpa using this

/-- the second field `impl Serialize` writes, as a tree -/
def valuesTree (p : Policies) : Tree :=
  if isLegacy legacyMaskSer p.bits then .tuple ((p.values.take 4).map .u64)
  else .seq ((gather p.bits p.values flagBits).map .u64)

theorem ser_eq (p : Policies) : ser p = .tuple [.u32 p.bits, valuesTree p] := rfl

end FuelVerif.PoliciesJson
