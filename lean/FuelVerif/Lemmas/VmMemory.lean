/- Helper lemmas for C31: each `MemoryInstance` operation characterised through the accessible memory only. -/
import FuelVerif.Model.VmMemory
namespace FuelVerif.VmMemory
open FuelVerif.Gen

theorem le_nextPow2Go (n : Nat) : ∀ (fuel p : Nat), n ≤ p * 2 ^ fuel → n ≤ nextPow2Go n fuel p := by
  intro fuel
  induction fuel with
  | zero => intro p h; simpa [nextPow2Go] using h
  | succ f ih =>
    intro p h
    unfold nextPow2Go
    split
    · assumption
    · apply ih
      have : 2 * p * 2 ^ f = p * 2 ^ (f + 1) := by
        rw [Nat.pow_succ]; simp [Nat.mul_assoc, Nat.mul_comm, Nat.mul_left_comm]
      omega

theorem le_nextPow2 (n : Nat) (h : n ≤ 2 ^ 64) : n ≤ nextPow2 n :=
  le_nextPow2Go n 64 1 (by omega)

/-- what a successful `grow_heap_by` did, in terms of accessible memory -/
structure GrowHeapSpec (m m' : MemI) (sp n : Nat) : Prop where
  hn : n ≤ m.hp
  hsp : sp ≤ m.hp - n
  hp : m'.hp = m.hp - n
  stackLen : m'.stackLen = min m.stackLen (m.hp - n)
  stack : ∀ i, m'.stack i = m.stack i
  fresh : ∀ x, m'.hp ≤ x → x < m.hp → m'.heap (x - m'.heapOffset) = 0
  old : ∀ x, m.hp ≤ x → x < memSize → m'.heap (x - m'.heapOffset) = m.heap (x - m.heapOffset)
  wf : m'.Wf

theorem growHeapBy_spec {m m' : MemI} {sp n : Nat} (hw : m.Wf) (h : m.growHeapBy sp n = .ok m') :
    GrowHeapSpec m m' sp n := by
  obtain ⟨w1, w2, w3, w4⟩ := hw
  have hM : memSize = 67108864 := rfl
  unfold MemI.heapOffset at w2
  unfold MemI.growHeapBy at h
  split at h
  · cases h
  · rename_i hn
    simp only at h
    split at h
    · cases h
    · rename_i hsp
      by_cases hb : m.heapLen ≥ memSize - (m.hp - n)
      · rw [if_pos hb] at h
        cases h
        refine ⟨by omega, by omega, rfl, rfl, fun _ => rfl, fun x h1 h2 => ?_, fun x h1 h2 => ?_, ?_⟩
        · simp only
          split
          · rfl
          · rename_i hc; exfalso; apply hc; simp only [MemI.heapOffset] at *; omega
        · simp only
          split
          · rename_i hc; exfalso; simp only [MemI.heapOffset] at *; omega
          · rfl
        · refine ⟨w1, ?_, ?_, ?_⟩ <;> simp only [MemI.heapOffset] <;> omega
      · rw [if_neg hb] at h
        cases h
        have hc := le_nextPow2 (memSize - (m.hp - n)) (by omega)
        generalize nextPow2 (memSize - (m.hp - n)) = P at hc
        have hw2 : m.heapOffset ≤ m.hp := w2
        refine ⟨by omega, by omega, rfl, rfl, fun _ => rfl, fun x h1 h2 => ?_, fun x h1 h2 => ?_, ?_⟩
        · simp only [if_pos hw2]
          split
          · rfl
          · split
            · rfl
            · rename_i c1 c2; exfalso; simp only [MemI.heapOffset] at *; omega
        · simp only [if_pos hw2]
          split
          · rename_i c1; exfalso; simp only [MemI.heapOffset] at *; omega
          · split
            · rename_i c1 c2; exfalso; simp only [MemI.heapOffset] at *; omega
            · congr 1; simp only [MemI.heapOffset] at *; omega
        · refine ⟨?_, ?_, ?_, ?_⟩ <;> simp only [MemI.heapOffset] <;> omega

theorem growHeapBy_err {m : MemI} {sp n : Nat} {e : Err} (h : m.growHeapBy sp n = .error e) :
    (n > m.hp ∧ e = .MemoryOverflow) ∨ (n ≤ m.hp ∧ m.hp - n < sp ∧ e = .MemoryGrowthOverlap) := by
  unfold MemI.growHeapBy at h
  split at h
  · cases h; left; exact ⟨by assumption, rfl⟩
  · simp only at h
    split at h
    · cases h; right; exact ⟨by omega, by assumption, rfl⟩
    · cases h

theorem growHeapBy_ok_of {m : MemI} {sp n : Nat} (h1 : n ≤ m.hp) (h2 : sp ≤ m.hp - n) :
    ∃ m', m.growHeapBy sp n = .ok m' := by
  unfold MemI.growHeapBy
  rw [if_neg (by omega)]
  simp only
  rw [if_neg (by omega)]
  exact ⟨_, rfl⟩

theorem equiv_refl (m : MemI) : m.Equiv m := ⟨rfl, fun _ _ => rfl, rfl, fun _ _ _ => rfl⟩

/-- `reset` of ANY memory, however dirty, is equal (in the sense of the Rust `PartialEq`) to a new one -/
theorem reset_equiv_new (m : MemI) : m.reset.Equiv MemI.new := by
  refine ⟨rfl, fun i hi => ?_, rfl, fun x h1 h2 => ?_⟩
  · simp [MemI.reset] at hi
  · simp only [MemI.reset] at h1; omega

theorem reset_wf {m : MemI} (hw : m.Wf) : m.reset.Wf := by
  obtain ⟨w1, w2, w3, w4⟩ := hw
  have hM : memSize = 67108864 := rfl
  simp only [MemI.Wf, MemI.reset, MemI.heapOffset] at *
  omega

theorem new_wf : MemI.new.Wf := by
  simp [MemI.Wf, MemI.new, MemI.heapOffset, memSize]

/-- one operation respects the equivalence: same observation, equivalent (and well-formed) next memories -/
theorem applyOp_equiv {a b : MemI} (ha : a.Wf) (hb : b.Wf) (he : a.Equiv b) (op : Op) :
    (applyOp a op).2 = (applyOp b op).2 ∧ (applyOp a op).1.Equiv (applyOp b op).1 ∧
    (applyOp a op).1.Wf ∧ (applyOp b op).1.Wf := by
  obtain ⟨e1, e2, e3, e4⟩ := he
  obtain ⟨sl, st, hl, hh, hp⟩ := a
  obtain ⟨sl', st', hl', hh', hp'⟩ := b
  simp only at e1 e2 e3 e4
  subst e1 e3
  have hM : memSize = 67108864 := rfl
  cases op with
  | reset =>
    refine ⟨rfl, ?_, reset_wf ha, reset_wf hb⟩
    refine ⟨rfl, fun i hi => ?_, rfl, fun x h1 h2 => ?_⟩
    · exact absurd hi (Nat.not_lt_zero _)
    · exact absurd h1 (by show ¬(memSize ≤ x); omega)
  | growStack n =>
    simp only [applyOp, MemI.growStack]
    by_cases h1 : n > vmMaxRam
    · simp only [h1, if_true]; exact ⟨trivial, ⟨rfl, e2, rfl, e4⟩, ha, hb⟩
    · simp only [h1, if_false]
      by_cases h2 : n > sl
      · simp only [h2, if_true]
        by_cases h3 : n > hp
        · simp only [h3, if_true]; exact ⟨trivial, ⟨rfl, e2, rfl, e4⟩, ha, hb⟩
        · simp only [h3, if_false]
          refine ⟨trivial, ⟨rfl, fun i hi => ?_, rfl, e4⟩, ?_, ?_⟩
          · simp only
            by_cases h4 : i < sl
            · rw [if_pos h4, if_pos h4]; exact e2 i h4
            · rw [if_neg h4, if_neg h4]
          · obtain ⟨w1, w2, w3, w4⟩ := ha
            exact ⟨w1, w2, w3, by simp only at *; omega⟩
          · obtain ⟨w1, w2, w3, w4⟩ := hb
            exact ⟨w1, w2, w3, by simp only at *; omega⟩
      · simp only [h2, if_false]; exact ⟨trivial, ⟨rfl, e2, rfl, e4⟩, ha, hb⟩
  | growHeapBy sp n =>
    simp only [applyOp]
    cases hga : MemI.growHeapBy ⟨sl, st, hl, hh, hp⟩ sp n with
    | error ea =>
      cases hgb : MemI.growHeapBy ⟨sl, st', hl', hh', hp⟩ sp n with
      | error eb =>
        simp only
        refine ⟨?_, ⟨rfl, e2, rfl, e4⟩, ha, hb⟩
        rcases growHeapBy_err hga with ⟨x1, rfl⟩ | ⟨x1, x2, rfl⟩ <;>
          rcases growHeapBy_err hgb with ⟨y1, rfl⟩ | ⟨y1, y2, rfl⟩ <;> first | rfl | (simp only at *; omega)
      | ok mb =>
        have S := growHeapBy_spec hb hgb
        rcases growHeapBy_err hga with ⟨x1, _⟩ | ⟨x1, x2, _⟩
        · have := S.hn; simp only at *; omega
        · have := S.hsp; have := S.hn; simp only at *; omega
    | ok ma =>
      have Sa := growHeapBy_spec ha hga
      cases hgb : MemI.growHeapBy ⟨sl, st', hl', hh', hp⟩ sp n with
      | error eb =>
        rcases growHeapBy_err hgb with ⟨x1, _⟩ | ⟨x1, x2, _⟩
        · have := Sa.hn; simp only at *; omega
        · have := Sa.hsp; have := Sa.hn; simp only at *; omega
      | ok mb =>
        have Sb := growHeapBy_spec hb hgb
        simp only
        have s1 := Sa.stackLen; have s2 := Sb.stackLen; have p1 := Sa.hp; have p2 := Sb.hp
        simp only at s1 s2 p1 p2
        refine ⟨trivial, ⟨by rw [s1, s2], fun i hi => ?_, by rw [p1, p2], fun x h1 h2 => ?_⟩, Sa.wf, Sb.wf⟩
        · rw [Sa.stack, Sb.stack]
          exact e2 i (by omega)
        · by_cases hx : x < hp
          · rw [Sa.fresh x h1 hx, Sb.fresh x (by rw [p2, ← p1]; exact h1) hx]
          · rw [Sa.old x (by simp only; omega) h2, Sb.old x (by simp only; omega) h2]
            exact e4 x (by omega) h2
  | read s n =>
    simp only [applyOp]
    refine ⟨?_, ⟨rfl, e2, rfl, e4⟩, ha, hb⟩
    unfold MemI.read MemI.verify
    simp only
    by_cases h1 : s + n > memSize
    · simp [h1]
    · simp only [h1, if_false]
      by_cases h2 : s + n ≤ sl ∨ s ≥ hp
      · simp only [h2, if_true]
        by_cases h3 : s + n ≤ sl
        · simp only [h3, if_true]
          congr 1
          apply List.map_congr_left
          intro i hi
          exact e2 _ (by have := List.mem_range.mp hi; omega)
        · simp only [h3, if_false]
          congr 1
          apply List.map_congr_left
          intro i hi
          have := List.mem_range.mp hi
          exact e4 (s + i) (by omega) (by omega)
      · simp [h2]
  | write s d =>
    simp only [applyOp]
    unfold MemI.write MemI.verify
    simp only
    by_cases h1 : s + d.length > memSize
    · simp only [h1, if_true]; exact ⟨trivial, ⟨rfl, e2, rfl, e4⟩, ha, hb⟩
    · simp only [h1, if_false]
      by_cases h2 : s + d.length ≤ sl ∨ s ≥ hp
      · simp only [h2, if_true]
        by_cases h3 : s + d.length ≤ sl
        · simp only [h3, if_true]
          refine ⟨trivial, ⟨rfl, fun i hi => ?_, rfl, e4⟩, ha, hb⟩
          simp only
          split
          · rfl
          · exact e2 i hi
        · simp only [h3, if_false]
          obtain ⟨a1, a2, a3, a4⟩ := ha
          obtain ⟨b1, b2, b3, b4⟩ := hb
          refine ⟨trivial, ⟨rfl, e2, rfl, fun x x1 x2 => ?_⟩, ⟨a1, a2, a3, a4⟩, ⟨b1, b2, b3, b4⟩⟩
          simp only [MemI.heapOffset] at a1 a2 a3 a4 b1 b2 b3 b4 e4
          simp only at x1
          show (if s - (memSize - hl) ≤ x - (memSize - hl) ∧ x - (memSize - hl) < s - (memSize - hl) + d.length
                then d.getD (x - (memSize - hl) - (s - (memSize - hl))) 0 else hh (x - (memSize - hl)))
             = (if s - (memSize - hl') ≤ x - (memSize - hl') ∧ x - (memSize - hl') < s - (memSize - hl') + d.length
                then d.getD (x - (memSize - hl') - (s - (memSize - hl'))) 0 else hh' (x - (memSize - hl')))
          by_cases hx : s ≤ x ∧ x < s + d.length
          · split
            · split
              · congr 1; omega
              · rename_i c1 c2; exfalso; omega
            · rename_i c1; exfalso; omega
          · split
            · rename_i c1; exfalso; omega
            · split
              · rename_i c1 c2; exfalso; omega
              · exact e4 x x1 x2
      · simp only [h2, if_false]; exact ⟨trivial, ⟨rfl, e2, rfl, e4⟩, ha, hb⟩

end FuelVerif.VmMemory
