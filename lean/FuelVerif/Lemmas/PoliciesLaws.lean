/- The hand-written `Policies` codec (Model/Policies.lean) satisfies `CodecLaws`, for every bit mask and all values. -/
import FuelVerif.Lemmas.Canonical
import FuelVerif.Model.Policies
namespace FuelVerif.Canonical.Policies
open FuelVerif FuelVerif.Canonical

theorem N_eq : N = 6 := by decide

theorem countOnes_eq : ∀ bits, bits < 64 → countOnes bits = (List.range' 0 6).countP (hasBit bits) := by decide

theorem encValues_length (bits : Nat) : ∀ (vs : List Val) (i : Nat), valuesOk bits i vs = true →
    (encValues bits i vs).length = 8 * ((List.range' i vs.length).countP (hasBit bits)) := by
  intro vs
  induction vs with
  | nil => intro i _; simp [encValues]
  | cons a vs ih =>
    intro i h
    cases a <;> simp [valuesOk] at h
    rename_i v
    simp only [encValues, List.length_append, List.length_cons, List.range'_succ, List.countP_cons]
    rw [ih (i + 1) h.2]
    by_cases hb : hasBit bits i = true
    · simp [hb, encU64_length]; omega
    · simp [hb]

theorem decValues_encValues (bits : Nat) : ∀ (vs : List Val) (i : Nat) (r : Bytes), valuesOk bits i vs = true →
    decValues bits i vs.length (encValues bits i vs ++ r) = .ok (vs, r) := by
  intro vs
  induction vs with
  | nil => intro i r _; simp [encValues, decValues]
  | cons a vs ih =>
    intro i r h
    cases a <;> simp [valuesOk] at h
    rename_i v
    simp only [encValues, List.length_cons, decValues]
    by_cases hb : hasBit bits i = true
    · simp only [hb, if_true, List.append_assoc]
      rw [decU64_encU64 v _ h.1.1]
      simp only
      rw [ih (i + 1) r h.2]
    · have hv : v = 0 := by
        rcases h.1.2 with h' | h'
        · exact absurd h' hb
        · exact h'
      simp only [hb, Bool.false_eq_true, if_false, List.nil_append]
      rw [ih (i + 1) r h.2, hv]

theorem decValues_sound (bits : Nat) : ∀ (n i : Nat) (bs : Bytes) (vs : List Val) (r : Bytes),
    decValues bits i n bs = .ok (vs, r) →
      ∃ u, bs = u ++ r ∧ u.length = 8 * ((List.range' i n).countP (hasBit bits)) ∧ vs.length = n ∧
        valuesOk bits i vs = true := by
  intro n
  induction n with
  | zero =>
    intro i bs vs r h
    simp only [decValues, Except.ok.injEq, Prod.mk.injEq] at h
    obtain ⟨rfl, rfl⟩ := h
    exact ⟨[], by simp, by simp, rfl, by simp [valuesOk]⟩
  | succ n ih =>
    intro i bs vs r h
    simp only [decValues] at h
    by_cases hb : hasBit bits i = true
    · simp only [hb, if_true] at h
      split at h
      · cases h
      · rename_i v r1 h1
        split at h
        · cases h
        · rename_i vs' r2 h2
          simp only [Except.ok.injEq, Prod.mk.injEq] at h
          obtain ⟨rfl, rfl⟩ := h
          obtain ⟨u1, hu1, hl1, hv⟩ := decU64_sound h1
          obtain ⟨u2, hu2, hl2, hn, hok⟩ := ih _ _ _ _ h2
          refine ⟨u1 ++ u2, by rw [hu1, hu2, List.append_assoc], ?_, by simp [hn], by simp [valuesOk, hv, hb, hok]⟩
          simp [List.range'_succ, List.countP_cons, hb, hl1, hl2]; omega
    · simp only [hb, Bool.false_eq_true, if_false] at h
      split at h
      · cases h
      · rename_i vs' r2 h2
        simp only [Except.ok.injEq, Prod.mk.injEq] at h
        obtain ⟨rfl, rfl⟩ := h
        obtain ⟨u2, hu2, hl2, hn, hok⟩ := ih _ _ _ _ h2
        refine ⟨u2, hu2, ?_, by simp [hn], by simp [valuesOk, hok]⟩
        simp [List.range'_succ, List.countP_cons, hb, hl2]

theorem wt_cases {v : Val} (h : wt v = true) : ∃ bits vs, v = .pair (.int bits) vs ∧ bits < 2 ^ N ∧ vs.isList = true ∧
    vs.elems.length = N ∧ valuesOk bits 0 vs.elems = true ∧ limitsOk bits vs.elems = true := by
  cases v <;> simp [wt] at h
  rename_i a vs
  cases a <;> simp [wt] at h
  rename_i bits
  exact ⟨bits, vs, rfl, h.1.1.1.1, h.1.1.1.2, h.1.1.2, h.1.2, h.2⟩

theorem pwt_cases {v : Val} (h : pwt v = true) :
    ∃ bits, v = .pair (.int bits) (Val.ofList (List.replicate N (.int 0))) ∧ bits < 2 ^ N := by
  cases v <;> simp [pwt] at h
  rename_i a vs
  cases a <;> simp [pwt] at h
  rename_i bits
  exact ⟨bits, by rw [h.2], h.1⟩

theorem sizeD_eq (bits : Nat) (vs : Val) (h : bits < 2 ^ N) :
    Policies.sizeD (.pair (.int bits) vs) = 8 * ((List.range' 0 N).countP (hasBit bits)) := by
  rw [N_eq] at h ⊢
  simp only [sizeD, alignedSize_8]
  rw [countOnes_eq bits (by simpa using h)]
  omega

theorem laws : CodecLaws codec where
  sizeS_len := by
    intro v h
    obtain ⟨bits, vs, rfl, _⟩ := wt_cases h
    simp [codec, encS, sizeS, encUint_length]
  sizeD_len := by
    intro v h
    obtain ⟨bits, vs, rfl, hb, _, hl, hok, _⟩ := wt_cases h
    simp only [codec]
    rw [sizeD_eq bits vs hb]
    simp only [encD]
    have ht : vs.elems.take N = vs.elems := by rw [List.take_of_length_le (by omega)]
    rw [ht, encValues_length bits vs.elems 0 hok, hl]
  sizeS_al := by
    intro v _
    exact alignedSize_dvd 4
  sizeD_al := by
    intro v h
    obtain ⟨bits, vs, rfl, hb, _⟩ := wt_cases h
    simp only [codec]
    rw [sizeD_eq bits vs hb]
    exact Nat.dvd_mul_right 8 _
  decS_encS := by
    intro v r h
    obtain ⟨bits, vs, rfl, hb, _⟩ := wt_cases h
    simp only [codec]
    simp only [Policies.encS, Policies.decS, Policies.partialOf]
    have h32 : bits < 256 ^ 4 := by rw [N_eq] at hb; omega
    rw [decUint_encUint 4 bits r h32]
    simp [hb]
  decD_encD := by
    intro v r h
    obtain ⟨bits, vs, rfl, hb, hlist, hl, hok, hlim⟩ := wt_cases h
    simp only [codec]
    simp only [Policies.partialOf, Policies.decD, Policies.encD]
    have ht : vs.elems.take N = vs.elems := by rw [List.take_of_length_le (by omega)]
    rw [ht]
    have := decValues_encValues bits vs.elems 0 r hok
    rw [hl] at this
    rw [this]
    simp [hlim, Val.ofList_elems vs hlist]
  decS_sound := by
    intro bs p r h
    simp only [codec, decS] at h
    split at h
    · cases h
    · rename_i bits r1 h1
      split at h
      · rename_i hb
        simp only [Except.ok.injEq, Prod.mk.injEq] at h
        obtain ⟨rfl, rfl⟩ := h
        obtain ⟨u, hu, hl, _⟩ := decUint_sound h1
        exact ⟨u, hu, by simp [codec, sizeS, hl], by simp [codec, pwt, hb]⟩
      · cases h
  decD_sound := by
    intro p bs v r hp h
    obtain ⟨bits, rfl, hb⟩ := pwt_cases hp
    simp only [codec, decD] at h
    split at h
    · cases h
    · rename_i vs r1 h1
      split at h
      · rename_i hlim
        simp only [Except.ok.injEq, Prod.mk.injEq] at h
        obtain ⟨rfl, rfl⟩ := h
        obtain ⟨u, hu, hl, hn, hok⟩ := decValues_sound bits _ _ _ _ _ h1
        refine ⟨u, hu, ?_, by simp [codec, sizeS], ?_⟩
        · simp only [codec]
          rw [sizeD_eq bits _ hb, hl]
        · simp [codec, wt, partialOf, hb, Val.isList_ofList, Val.elems_ofList, hn, hok, hlim]
      · cases h

end FuelVerif.Canonical.Policies
