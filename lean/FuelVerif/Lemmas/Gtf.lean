import FuelVerif.Model.Gtf
import FuelVerif.Lemmas.TxId
import FuelVerif.Lemmas.OffsetsCached
namespace FuelVerif.Gtf
open FuelVerif FuelVerif.Canonical FuelVerif.Offsets FuelVerif.TxId
open FuelVerif.Canonical.TxDesc (env envLaws)
open FuelVerif.Canonical.InputCodec (env0 encDesc)

/-! ### the transaction the VM holds -/

theorem vmMasks_ok : Kind.all.all (fun k => !k.chargeable || maskOk env okCustom (vmMask k) k.desc) = true := by decide +kernel

/-- `prepare_sign` keeps the transaction a transaction of its kind -/
theorem vm_tx_wt (k : Kind) (hk : k.chargeable = true) (v : Val) (hv : wt env k.desc v = true) : wt env k.desc ((vmMask k).apply v) = true := by
  have := vmMasks_ok
  simp only [List.all_eq_true] at this
  have h := this k (by cases k <;> simp [Kind.all])
  simp only [hk, Bool.not_true, Bool.false_or] at h
  exact apply_wt env okCustom okCustom_sound k.desc (vmMask k) v h hv

/-- what `init_inner` establishes -/
structure VmOk (vm : Vm) : Prop where
  chargeable : vm.tx.kind.chargeable = true
  nometa : vm.tx.metadata = none
  wt : wt env vm.tx.kind.desc vm.tx.val = true
  layout : ∃ pre : Bytes, vm.mem = pre ++ encode env vm.tx.kind.desc vm.tx.val ∧ pre.length = vm.txOffset

theorem txOffsetOf_eq (n : Nat) : txOffsetOf n = n * 40 + 72 := by
  simp [txOffsetOf, satAdd, Gen.Offsets.AssetId_LEN, Gen.Offsets.WORD_SIZE, Gen.Offsets.Bytes32_LEN]

/-- **memory after initialisation**: transaction id at 0, base asset id at 32, the size word just below `tx_offset`, the
canonical bytes of the prepared transaction at `tx_offset` -/
theorem initVm_layout (k : Kind) (hk : k.chargeable = true) (v : Val) (hv : wt env k.desc v = true) (maxInputs chainId gasPrice : Nat) (context : Context)
    (id baseAsset balances : Bytes) (hid : id.length = 32) (hb : baseAsset.length = 32) (hbal : balances.length = maxInputs * 40) (vm : Vm)
    (h : initVm k v maxInputs chainId gasPrice context id baseAsset balances = .ok vm) :
    VmOk vm ∧ vm.tx.kind = k ∧ vm.tx.val = (vmMask k).apply v ∧ vm.chainId = chainId ∧ vm.gasPrice = gasPrice ∧ vm.context = context ∧
    vm.txOffset = txOffsetOf maxInputs ∧
    At vm.mem 0 id ∧ At vm.mem 32 baseAsset ∧ At vm.mem (vm.txOffset - 8) (natBE 8 (size env k.desc vm.tx.val)) ∧
    At vm.mem vm.txOffset (encode env k.desc vm.tx.val) := by
  simp only [initVm] at h
  split at h
  · cases h
  · cases h
    have hoff := txOffsetOf_eq maxInputs
    generalize hT : encode env k.desc ((vmMask k).apply v) = T
    generalize hW : natBE 8 (size env k.desc ((vmMask k).apply v)) = W
    have hWl : W.length = 8 := by rw [← hW, length_natBE]
    refine ⟨⟨hk, rfl, vm_tx_wt k hk v hv, id ++ baseAsset ++ balances ++ W, by simp [hT], ?_⟩, rfl, rfl, rfl, rfl, rfl, rfl, ?_, ?_, ?_, ?_⟩
    · simp [hid, hb, hbal, hWl, hoff]; omega
    · exact ⟨[], baseAsset ++ balances ++ W ++ T, by simp, rfl⟩
    · exact ⟨id, balances ++ W ++ T, by simp, hid⟩
    · exact ⟨id ++ baseAsset ++ balances, T, by simp, by simp [hid, hb, hbal, hoff]; omega⟩
    · exact ⟨id ++ baseAsset ++ balances ++ W, [], by simp, by simp [hid, hb, hbal, hWl, hoff]; omega⟩

/-- an offset into the transaction's bytes is an address `tx_offset + offset` of VM memory -/
theorem VmOk.lift {vm : Vm} (h : VmOk vm) {off : Nat} {x : Bytes} (hx : At (encode env vm.tx.kind.desc vm.tx.val) off x) :
    At vm.mem (vm.txOffset + off) x := by
  obtain ⟨pre, hm, hl⟩ := h.layout
  rw [hm, ← hl]
  exact At.append_left pre hx

theorem VmOk.tx_eta {vm : Vm} (h : VmOk vm) : vm.tx = { kind := vm.tx.kind, val := vm.tx.val, metadata := none } := by
  have := h.nometa
  cases hv : vm.tx with
  | mk k v m => simp [hv] at this; simp [this]

theorem VmOk.offsets {vm : Vm} (h : VmOk vm) : ChargeableOffsets vm.tx (encode env vm.tx.kind.desc vm.tx.val) := by
  have := chargeable_offsets vm.tx.kind h.chargeable vm.tx.val h.wt
  rwa [← h.tx_eta] at this

/-! ### GTF: the selector table -/

/-- a `GTF` with an index that fits `u32` and a known immediate evaluates the arm of that selector -/
theorem gtf_eq_evalSpec (vm : Vm) (b imm : Nat) (hb : b ≤ 2 ^ 32 - 1) (name : String) (s : Spec)
    (hn : Gen.Gtf.gtfArgs.find? (fun r => r.2 == imm) = some (name, imm)) (hs : specOf name = some s) :
    gtf vm b imm = evalSpec vm b s := by
  simp [gtf, show ¬ b > 2 ^ 32 - 1 by omega, hn, hs]

theorem gtf_large_index (vm : Vm) (b imm : Nat) (hb : b > 2 ^ 32 - 1) : gtf vm b imm = .error .invalidMetadataIdentifier := by
  simp [gtf, hb]

theorem gtf_unknown_selector (vm : Vm) (b imm : Nat) (h : Gen.Gtf.gtfArgs.all (fun r => r.2 != imm) = true) :
    gtf vm b imm = .error .invalidMetadataIdentifier := by
  have : Gen.Gtf.gtfArgs.find? (fun r => r.2 == imm) = none := by
    rw [List.find?_eq_none]
    intro r hr
    simp only [List.all_eq_true] at h
    simpa using h r hr
  simp only [gtf, this]
  split <;> rfl

/-! ### pointer arms -/

theorem okOr_ok {α : Type} {o : Option α} {p : Panic} {a : α} (h : okOr o p = .ok a) : o = some a := by
  cases o <;> simp [okOr] at h; exact congrArg some h

theorem map_ok {f : Nat → Nat} {r : Except Panic Nat} {p : Nat} (h : r.map f = .ok p) : ∃ q, r = .ok q ∧ p = f q := by
  cases r with
  | error e => simp [Except.map] at h
  | ok q => simp [Except.map] at h; exact ⟨q, rfl, h.symm⟩

/-- **`TxInputAtIndex` / `ScriptInputAtIndex` / `CreateInputAtIndex`**: the pointer holds the input's canonical bytes; the
panic is `InputNotFound` exactly for indices past the end -/
theorem input_at_sound {vm : Vm} (h : VmOk vm) (b : Nat) :
    (∀ p, evalSpec vm b .inputAt = .ok p → ∃ x, vm.tx.inputs[b]? = some x ∧ At vm.mem p (encode env TxDesc.input x)) ∧
    (evalSpec vm b .inputAt = .error .inputNotFound ↔ vm.tx.inputs.length ≤ b) ∧ (∀ e, evalSpec vm b .inputAt = .error e → e = .inputNotFound) := by
  have C := h.offsets
  simp only [evalSpec]
  cases ho : vm.tx.inputsOffsetAt b with
  | none =>
    have := (C.inputNone b).mp ho
    simp [okOr, Except.map, this]
  | some o =>
    have hlt : ¬ vm.tx.inputs.length ≤ b := by intro hc; have := (C.inputNone b).mpr hc; rw [ho] at this; cases this
    have hx : ∃ x, vm.tx.inputs[b]? = some x := ⟨vm.tx.inputs[b]'(by omega), by simp [List.getElem?_eq_getElem (show b < vm.tx.inputs.length by omega)]⟩
    obtain ⟨x, hx⟩ := hx
    simp only [okOr, Except.map, satAdd, hlt, iff_false, reduceCtorEq, not_false_eq_true, false_implies, implies_true, and_true]
    intro p hp
    simp only [Except.ok.injEq] at hp; subst hp
    exact ⟨x, hx, h.lift (C.inputAt b o x ho hx)⟩

theorem output_at_sound {vm : Vm} (h : VmOk vm) (b : Nat) :
    (∀ p, evalSpec vm b .outputAt = .ok p → ∃ x, vm.tx.outputs[b]? = some x ∧ At vm.mem p (encode env TxDesc.output x)) ∧
    (evalSpec vm b .outputAt = .error .outputNotFound ↔ vm.tx.outputs.length ≤ b) ∧ (∀ e, evalSpec vm b .outputAt = .error e → e = .outputNotFound) := by
  have C := h.offsets
  simp only [evalSpec]
  cases ho : vm.tx.outputsOffsetAt b with
  | none =>
    have := (C.outputNone b).mp ho
    simp [okOr, Except.map, this]
  | some o =>
    have hlt : ¬ vm.tx.outputs.length ≤ b := by intro hc; have := (C.outputNone b).mpr hc; rw [ho] at this; cases this
    have hx : ∃ x, vm.tx.outputs[b]? = some x := ⟨vm.tx.outputs[b]'(by omega), by simp [List.getElem?_eq_getElem (show b < vm.tx.outputs.length by omega)]⟩
    obtain ⟨x, hx⟩ := hx
    simp only [okOr, Except.map, satAdd, hlt, iff_false, reduceCtorEq, not_false_eq_true, false_implies, implies_true, and_true]
    intro p hp
    simp only [Except.ok.injEq] at hp; subst hp
    exact ⟨x, hx, h.lift (C.outputAt b o x ho hx)⟩

theorem witness_at_sound {vm : Vm} (h : VmOk vm) (b : Nat) :
    (∀ p, evalSpec vm b .witnessAt = .ok p → ∃ x, vm.tx.witnesses[b]? = some x ∧ At vm.mem p (encode env TxDesc.witness x)) ∧
    (evalSpec vm b .witnessAt = .error .witnessNotFound ↔ vm.tx.witnesses.length ≤ b) ∧ (∀ e, evalSpec vm b .witnessAt = .error e → e = .witnessNotFound) := by
  have C := h.offsets
  simp only [evalSpec]
  cases ho : vm.tx.witnessesOffsetAt b with
  | none =>
    have := (C.witnessNone b).mp ho
    simp [okOr, Except.map, this]
  | some o =>
    have hlt : ¬ vm.tx.witnesses.length ≤ b := by intro hc; have := (C.witnessNone b).mpr hc; rw [ho] at this; cases this
    have hx : ∃ x, vm.tx.witnesses[b]? = some x := ⟨vm.tx.witnesses[b]'(by omega), by simp [List.getElem?_eq_getElem (show b < vm.tx.witnesses.length by omega)]⟩
    obtain ⟨x, hx⟩ := hx
    simp only [okOr, Except.map, satAdd, hlt, iff_false, reduceCtorEq, not_false_eq_true, false_implies, implies_true, and_true]
    intro p hp
    simp only [Except.ok.injEq] at hp; subst hp
    exact ⟨x, hx, h.lift (C.witnessAt b o x ho hx)⟩


theorem inputs_wt {vm : Vm} (h : VmOk vm) : ∀ i ∈ vm.tx.inputs, wt env0 encDesc i = true := by
  obtain ⟨hd, hb, _⟩ := kind_desc vm.tx.kind h.chargeable
  have hv := h.wt
  rw [hd] at hv
  have := (chargeable_layout vm.tx.kind.body vm.tx.kind vm.tx.val hv hb).2.2.1
  rw [← h.tx_eta] at this
  exact fun i hi => input_wt0 (this i hi)

theorem outputs_wt {vm : Vm} (h : VmOk vm) : ∀ o ∈ vm.tx.outputs, wt env TxDesc.output o = true := by
  obtain ⟨hd, hb, _⟩ := kind_desc vm.tx.kind h.chargeable
  have hv := h.wt
  rw [hd] at hv
  have := (chargeable_layout vm.tx.kind.body vm.tx.kind vm.tx.val hv hb).2.2.2.1
  rw [← h.tx_eta] at this
  exact this

theorem inputAtFiltered_some {t : Tx} {f : InFilter} {b : Nat} {k : InputKind} {i : Val} (h : inputAtFiltered t f b = some (k, i)) :
    t.inputs[b]? = some i ∧ inputKind i = some k ∧ f.ok k = true := by
  simp only [inputAtFiltered] at h
  cases hi : t.inputs[b]? with
  | none => simp [hi] at h
  | some x =>
    simp only [hi, Option.bind_some] at h
    cases hk : inputKind x with
    | none => simp [hk] at h
    | some k' =>
      simp only [hk, Option.bind_some] at h
      split at h
      · simp at h; obtain ⟨rfl, rfl⟩ := h; exact ⟨rfl, hk, by assumption⟩
      · cases h

/-- **pointers into an input** (`InputCoinTxId`, `InputCoinOwner`, `InputCoinAssetId`, `InputCoinTxPointer`, `InputContractTxId`,
`InputContractId`, `InputMessageSender`, `InputMessageRecipient`, `InputMessageNonce`): for every row (method, repr, field) of
C04's `inputStaticMeaning`, the returned address holds the canonical bytes of that field of input `b` -/
theorem input_repr_ptr_sound {vm : Vm} (h : VmOk vm) (b : Nat) (f : InFilter) (e : String × InputRepr × String) (he : e ∈ inputStaticMeaning) (p : Nat)
    (hp : evalSpec vm b (.inputReprPtr f e.1) = .ok p) :
    ∃ k i, vm.tx.inputs[b]? = some i ∧ inputKind i = some k ∧ f.ok k = true ∧
      (InputRepr.fromInput k = e.2.1 → At vm.mem p (encS env0 (k.fieldDesc e.2.2) (inputField k e.2.2 i))) := by
  simp only [evalSpec] at hp
  obtain ⟨q, hq, rfl⟩ := map_ok hp
  have hq' := okOr_ok hq
  cases hf : inputAtFiltered vm.tx f b with
  | none => simp [hf] at hq'
  | some ki =>
    obtain ⟨k, i⟩ := ki
    obtain ⟨hi, hk, hfk⟩ := inputAtFiltered_some hf
    simp only [hf, Option.bind_some] at hq'
    cases hofs : (InputRepr.fromInput k).offset e.1 with
    | none => simp [hofs] at hq'
    | some ofs =>
      simp only [hofs, Option.bind_some] at hq'
      cases ho : vm.tx.inputsOffsetAt b with
      | none => simp [ho] at hq'
      | some o =>
        simp only [ho, Option.map_some, Option.some.injEq] at hq'
        subst hq'
        refine ⟨k, i, hi, hk, hfk, fun hr => ?_⟩
        have hwi := inputs_wt h i (List.mem_of_getElem? hi)
        obtain ⟨off, h1, _, h3⟩ := input_static_offset e he i hwi k hk hr
        rw [hr] at hofs
        rw [hofs] at h1
        cases h1
        exact h.lift (At.trans (h.offsets.inputAt b o i ho hi) h3)

/-- **predicate / predicate data pointers** (`InputCoinPredicate`, `InputCoinPredicateData`, `InputMessagePredicate`,
`InputMessagePredicateData`): the address holds the padded predicate (data) of input `b` -/
theorem input_pred_ptr_sound {vm : Vm} (h : VmOk vm) (b : Nat) (f : InFilter) (data : Bool) (p : Nat)
    (hp : evalSpec vm b (.inputPredPtr f data) = .ok p) :
    ∃ k i, vm.tx.inputs[b]? = some i ∧ inputKind i = some k ∧ f.ok k = true ∧ k.hasPredicate = true ∧
      At vm.mem p (padded (bytesOf (inputField k (if data then "predicate_data" else "predicate") i))) := by
  simp only [evalSpec] at hp
  obtain ⟨q, hq, rfl⟩ := map_ok hp
  have hq' := okOr_ok hq
  cases hf : inputAtFiltered vm.tx f b with
  | none => simp [hf] at hq'
  | some ki =>
    obtain ⟨k, i⟩ := ki
    obtain ⟨hi, hk, hfk⟩ := inputAtFiltered_some hf
    simp only [hf, Option.bind_some] at hq'
    have hwi := inputs_wt h i (List.mem_of_getElem? hi)
    cases hofs : (if data then predicateDataOffset i else predicateOffset i) with
    | none => simp [hofs] at hq'
    | some ofs =>
      simp only [hofs, Option.bind_some] at hq'
      cases ho : vm.tx.inputsOffsetAt b with
      | none => simp [ho] at hq'
      | some o =>
        simp only [ho, Option.map_some, Option.some.injEq] at hq'
        subst hq'
        have hAt := h.offsets.inputAt b o i ho hi
        cases data with
        | true =>
          simp only [if_true] at hofs ⊢
          obtain ⟨h1, h2⟩ := predicate_data_offset_at hwi k hk
          rw [hofs] at h1
          exact ⟨k, i, hi, hk, hfk, h1.symm, h.lift (At.trans hAt (h2 ofs hofs))⟩
        | false =>
          simp only [Bool.false_eq_true, if_false] at hofs ⊢
          obtain ⟨h1, h2⟩ := predicate_offset_at hwi k hk
          rw [hofs] at h1
          exact ⟨k, i, hi, hk, hfk, h1.symm, h.lift (At.trans hAt (h2 ofs hofs))⟩

/-- **`InputMessageData`**: the address holds the padded message data of message input `b` -/
theorem input_message_data_sound {vm : Vm} (h : VmOk vm) (b p : Nat) (hp : evalSpec vm b (.inputReprPtr .message "data_offset") = .ok p) :
    ∃ k i, vm.tx.inputs[b]? = some i ∧ inputKind i = some k ∧ k.isMessage = true ∧ At vm.mem p (padded (bytesOf (inputField k "data" i))) := by
  simp only [evalSpec] at hp
  obtain ⟨q, hq, rfl⟩ := map_ok hp
  have hq' := okOr_ok hq
  cases hf : inputAtFiltered vm.tx .message b with
  | none => simp [hf] at hq'
  | some ki =>
    obtain ⟨k, i⟩ := ki
    obtain ⟨hi, hk, hfk⟩ := inputAtFiltered_some hf
    simp only [hf, Option.bind_some] at hq'
    have hr : InputRepr.fromInput k = .message := by simpa [InFilter.ok, InputKind.isMessage] using hfk
    have hwi := inputs_wt h i (List.mem_of_getElem? hi)
    obtain ⟨o', h1, h2⟩ := input_data_offset hwi k hk hr
    rw [hr, h1] at hq'
    simp only [Option.bind_some] at hq'
    cases ho : vm.tx.inputsOffsetAt b with
    | none => simp [ho] at hq'
    | some o =>
      simp only [ho, Option.map_some, Option.some.injEq] at hq'
      subst hq'
      exact ⟨k, i, hi, hk, hfk, h.lift (At.trans (h.offsets.inputAt b o i ho hi) h2)⟩

/-- **pointers into an output** (`OutputCoinTo`, `OutputCoinAssetId`, `OutputContractCreatedContractId`,
`OutputContractCreatedStateRoot`): for every row of C04's `outputMeaning` with that method -/
theorem output_repr_ptr_sound {vm : Vm} (h : VmOk vm) (b : Nat) (created : Bool) (e : String × OutputKind × List String) (he : e ∈ outputMeaning) (p : Nat)
    (hp : evalSpec vm b (.outputReprPtr created e.1) = .ok p) :
    ∃ k o, vm.tx.outputs[b]? = some o ∧ outputKind o = some k ∧ (if created then k = .contractCreated else (k = .coin ∨ k = .change)) ∧
      (k = e.2.1 → ∃ path fd fv, outputPath k e.2.2 = some path ∧ valPath (outputPayload o) path = some fv ∧ At vm.mem p (encS env fd fv)) := by
  simp only [evalSpec] at hp
  obtain ⟨q, hq, rfl⟩ := map_ok hp
  have hq' := okOr_ok hq
  cases ho : vm.tx.outputs[b]? with
  | none => simp [ho] at hq'
  | some o =>
    simp only [ho, Option.bind_some] at hq'
    cases hk : outputKind o with
    | none => simp [hk] at hq'
    | some k =>
      simp only [hk, Option.bind_some] at hq'
      by_cases hfil : (if created = true then k == OutputKind.contractCreated else k == OutputKind.coin || k == OutputKind.change) = true
      · rw [if_pos hfil] at hq'
        cases hofs : k.offset e.1 with
        | none => simp [hofs] at hq'
        | some ofs =>
          simp only [hofs, Option.bind_some] at hq'
          cases hoo : vm.tx.outputsOffsetAt b with
          | none => simp [hoo] at hq'
          | some oo =>
            simp only [hoo, Option.map_some, Option.some.injEq] at hq'
            subst hq'
            refine ⟨k, o, rfl, hk, ?_, fun hke => ?_⟩
            · cases created <;> simpa using hfil
            · subst hke
              have hwo := outputs_wt h o (List.mem_of_getElem? ho)
              obtain ⟨off, path, fd, fv, h1, h2, h3, _, h5⟩ := output_offset e he o hwo hk
              rw [hofs] at h1; cases h1
              exact ⟨path, fd, fv, h2, h3, h.lift (At.trans (h.offsets.outputAt b oo o hoo ho) h5)⟩
      · rw [if_neg hfil] at hq'; cases hq'

end FuelVerif.Gtf
