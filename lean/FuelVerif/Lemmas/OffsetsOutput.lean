import FuelVerif.Lemmas.OffsetsInput
namespace FuelVerif.Offsets
open FuelVerif FuelVerif.Canonical
open FuelVerif.Canonical.InputCodec (unVariant)
open FuelVerif.Canonical.TxDesc (env envLaws)

/-! ### nested static fields -/

/-- offset and descriptor of the field reached by a path of field positions -/
def pathS0 (cs : Nat → Option Nat) : Desc → List Nat → Option (Nat × Desc)
  | d, [] => some (0, d)
  | d, j :: rest =>
    match fieldS0 cs d j with
    | some (o, fd) => (pathS0 cs fd rest).map (fun p => (o + p.1, p.2))
    | none => none

def valPath : Val → List Nat → Option Val
  | v, [] => some v
  | v, j :: rest => (v.field j).bind (fun x => valPath x rest)

theorem pathS0_at (e : Env) (L : EnvLaws e) (cs : Nat → Option Nat) (hcs : CsOk e cs) : ∀ (path : List Nat) (d : Desc) (o : Nat) (fd : Desc),
    pathS0 cs d path = some (o, fd) → d.wf = true → ∀ v, wt e d v = true →
    ∃ fv, valPath v path = some fv ∧ wt e fd fv = true ∧ fd.wf = true ∧ At (encS e d v) o (encS e fd fv) := by
  intro path
  induction path with
  | nil =>
    intro d o fd h hw v hv
    simp [pathS0] at h
    obtain ⟨rfl, rfl⟩ := h
    exact ⟨v, rfl, hv, hw, At.refl _⟩
  | cons j rest ih =>
    intro d o fd h hw v hv
    simp only [pathS0] at h
    split at h
    · rename_i o1 d1 h1
      simp only [Option.map_eq_some_iff] at h
      obtain ⟨⟨o2, d2⟩, h2, he⟩ := h
      simp at he
      obtain ⟨rfl, rfl⟩ := he
      obtain ⟨x, a1, a2, a3, a4⟩ := fieldS0_at e L cs hcs d j o1 d1 h1 hw v hv
      obtain ⟨fv, b1, b2, b3, b4⟩ := ih d1 o2 d2 h2 a3 x a2
      exact ⟨fv, by simp [valPath, a1, b1], b2, b3, At.trans a4 b4⟩
    · cases h

/-! ### outputs -/

def outputAlts : Desc := match TxDesc.output with | .enum a => a | _ => .void
def OutputKind.idx : OutputKind → Nat
  | .coin => 0 | .contract => 1 | .change => 2 | .variable => 3 | .contractCreated => 4
def OutputKind.payload (k : OutputKind) : Desc := ((altAt outputAlts k.idx).map (·.2)).getD .void
def OutputKind.disc (k : OutputKind) : Nat := ((altAt outputAlts k.idx).map (·.1)).getD 0

theorem output_enum : TxDesc.output = .enum outputAlts := by decide +kernel
theorem outputAlts_wf : outputAlts.wfAlts = true ∧ outputAlts.discs.length = 5 := by decide +kernel
theorem okinds_ok : OutputKind.all.all (fun k => altAt outputAlts k.idx == some (k.disc, k.payload) && OutputKind.all[k.idx]? == some k &&
    k.payload.wf && noDyn k.payload) = true := by decide +kernel

theorem okind_ok (k : OutputKind) : altAt outputAlts k.idx = some (k.disc, k.payload) ∧ OutputKind.all[k.idx]? = some k ∧
    k.payload.wf = true ∧ noDyn k.payload = true := by
  have := okinds_ok
  simp only [List.all_eq_true, Bool.and_eq_true, beq_iff_eq] at this
  have hk : k ∈ OutputKind.all := by cases k <;> simp [OutputKind.all]
  obtain ⟨⟨⟨a, b⟩, c⟩, d⟩ := this k hk
  exact ⟨a, b, c, d⟩

/-- every output is one of the five variants; its encoding is the discriminant word and the static part of the variant's fields -/
theorem output_cases {o : Val} (h : wt env TxDesc.output o = true) :
    ∃ k p, o = Val.variant k.idx p ∧ outputKind o = some k ∧ outputPayload o = p ∧ wt env k.payload p = true ∧
      encode env TxDesc.output o = encU64 k.disc ++ encS env k.payload p := by
  rw [output_enum] at h ⊢
  simp only [wt] at h
  obtain ⟨n, disc, pd, x, rfl, ha, hx, _⟩ := wt_alts_cases env outputAlts o h outputAlts_wf.1
  have hn := altAt_lt _ _ _ ha
  rw [outputAlts_wf.2] at hn
  have hk : ∃ k : OutputKind, k.idx = n := by
    have : n = 0 ∨ n = 1 ∨ n = 2 ∨ n = 3 ∨ n = 4 := by omega
    rcases this with rfl | rfl | rfl | rfl | rfl
    · exact ⟨.coin, rfl⟩
    · exact ⟨.contract, rfl⟩
    · exact ⟨.change, rfl⟩
    · exact ⟨.variable, rfl⟩
    · exact ⟨.contractCreated, rfl⟩
  obtain ⟨k, rfl⟩ := hk
  obtain ⟨k1, k2, _, k4⟩ := okind_ok k
  rw [k1] at ha
  simp only [Option.some.injEq, Prod.mk.injEq] at ha
  obtain ⟨rfl, rfl⟩ := ha
  obtain ⟨e1, e2, _, _, _⟩ := variant_enc env k.idx outputAlts k.disc k.payload k1 x
  refine ⟨k, x, rfl, ?_, ?_, hx, ?_⟩
  · simp [outputKind, unVariant_variant, k2]
  · simp [outputPayload, unVariant_variant]
  · simp [encode, encS, encD, e1, e2, (sizeD_noDyn env k.payload k4 x).2]

/-- position of field `f` of variant `v` of enum `e` in the regenerated table -/
def enumFieldIndex (e v f : String) : Option Nat :=
  match Gen.Canonical.enums.find? (fun r => r.name == e) with
  | some er =>
    match er.variants.find? (fun r => r.name == v) with
    | some vr => vr.fields.findIdx? (fun r => r.name == f)
    | none => none
  | none => none

/-- the field (as a path of names) each `OutputRepr::x_offset()` points at -/
def outputMeaning : List (String × OutputKind × List String) := [
  ("to_offset", .coin, ["to"]), ("to_offset", .change, ["to"]), ("to_offset", .variable, ["to"]),
  ("asset_id_offset", .coin, ["asset_id"]), ("asset_id_offset", .change, ["asset_id"]), ("asset_id_offset", .variable, ["asset_id"]),
  ("contract_balance_root_offset", .contract, ["0", "balance_root"]), ("contract_state_root_offset", .contract, ["0", "state_root"]),
  ("contract_created_state_root_offset", .contractCreated, ["state_root"]), ("contract_id_offset", .contractCreated, ["contract_id"])]

/-- names to positions (`Output::Contract(Contract)`: second name is a field of `OutputContract`) -/
def outputPath (k : OutputKind) : List String → Option (List Nat)
  | [f] => (enumFieldIndex "Output" k.name f).map (fun j => [j])
  | [f, g] =>
    match enumFieldIndex "Output" k.name f, Resolve.fieldIndex "OutputContract" g with
    | some j, some j' => some [j, j']
    | _, _ => none
  | _ => none

def outputRowOk (e : String × OutputKind × List String) : Bool :=
  match outputPath e.2.1 e.2.2 with
  | some path =>
    match pathS0 cs0 e.2.1.payload path with
    | some (o, _) => e.2.1.offset e.1 == some (8 + o)
    | none => false
  | none => false

theorem output_rows_ok : outputMeaning.all outputRowOk = true := by decide +kernel

theorem output_table_none_iff : Gen.Offsets.outputReprOffsets.all (fun row => OutputKind.all.all (fun k =>
    (k.offset row.1).isSome == outputMeaning.any (fun e => e.1 == row.1 && e.2.1 == k))) = true := by decide +kernel

theorem cs0_ok_env : CsOk env cs0 := by intro k n h; simp [cs0] at h

/-- **output fields**: the offset `OutputRepr` reports for a field is where the output's encoding holds that field -/
theorem output_offset (e : String × OutputKind × List String) (he : e ∈ outputMeaning) (o : Val)
    (ho : wt env TxDesc.output o = true) (hk : outputKind o = some e.2.1) :
    ∃ off path fd fv, e.2.1.offset e.1 = some off ∧ outputPath e.2.1 e.2.2 = some path ∧ valPath (outputPayload o) path = some fv ∧
      wt env fd fv = true ∧ At (encode env TxDesc.output o) off (encS env fd fv) := by
  obtain ⟨k', p, rfl, hk', hp, hwp, henc⟩ := output_cases ho
  rw [hk'] at hk; cases hk
  have := output_rows_ok
  simp only [List.all_eq_true] at this
  have hrow := this e he
  simp only [outputRowOk] at hrow
  split at hrow
  · rename_i path hpath
    split at hrow
    · rename_i off fd hf
      simp only [beq_iff_eq] at hrow
      obtain ⟨fv, h1, h2, _, h4⟩ := pathS0_at env envLaws cs0 cs0_ok_env path _ off fd hf (okind_ok _).2.2.1 p hwp
      refine ⟨8 + off, path, fd, fv, hrow, hpath, by rw [hp]; exact h1, h2, ?_⟩
      rw [henc]
      have := At.append_left (encU64 e.2.1.disc) h4
      rwa [encU64_length] at this
    · cases hrow
  · cases hrow

end FuelVerif.Offsets
