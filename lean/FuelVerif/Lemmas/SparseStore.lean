/-
Lemmas about the storage-level sparse Merkle model (`Model/SparseStore.lean`): store laws, node
well-formedness, `load`.
-/
import Std.Data.HashMap
import FuelVerif.Model.SparseStore
namespace FuelVerif.SmtStore
open FuelVerif FuelVerif.Gen.Sparse

variable {σ : Type}

/-- the node table behaves as a finite map (what `StorageMap`, a `hashbrown::HashMap`, provides) -/
structure StoreLaws (S : StoreOps σ) : Prop where
  get_insert : ∀ st k p k', S.get (S.insert st k p) k' = if k = k' then some p else S.get st k'
  get_remove : ∀ st k k', S.get (S.remove st k) k' = if k = k' then none else S.get st k'

/-- a lawful node table exists: the table as a function (used for non-vacuity examples and counterexamples) -/
def funStore : StoreOps (Bytes → Option Prim) :=
  ⟨fun st k => st k, fun st k p k' => if k = k' then some p else st k',
   fun st k k' => if k = k' then none else st k'⟩

theorem funStore_laws : StoreLaws funStore := ⟨fun _ _ _ _ => rfl, fun _ _ _ => rfl⟩

/-- the two prefix bytes are distinct, so `Prefix::try_from(u8::from(p)) = Ok(p)` -/
theorem prefix_roundtrip : ∀ p : Prefix, Prefix.ofByte p.byte = some p := by
  intro p; cases p <;> decide

theorem prefix_byte_injective : ∀ p q : Prefix, p.byte = q.byte → p = q := by
  intro p q; cases p <;> cases q <;> decide

variable (H : Bytes → Bytes)

/-- the cached `hash` field of a node is the hash of its content (`Node::new`, `create_leaf`,
`create_node*` all establish it) -/
def Node.Wf : Node → Prop
  | .node h _ p lo hi => h = calculateHash H p lo hi
  | .placeholder => True

theorem Node.ofPrim_toPrim {nd : Node} (hw : nd.Wf H) (hp : nd ≠ .placeholder) :
    Node.ofPrim H nd.toPrim = .ok nd := by
  cases nd with
  | placeholder => exact absurd rfl hp
  | node h ht p lo hi =>
    simp only [Node.Wf] at hw
    simp only [Node.ofPrim, Node.toPrim, Node.pfx, Node.height, Node.bytesLo, Node.bytesHi,
      prefix_roundtrip, Node.new, hw]

theorem createLeaf_wf (k d : Bytes) : (Node.createLeaf H k d).Wf H := by
  simp [Node.createLeaf, Node.Wf, calculateLeafHash]

theorem createNode_wf (l r : Node) (h : Nat) : (Node.createNode H l r h).Wf H := by
  simp [Node.createNode, Node.Wf, calculateNodeHash]

theorem createNodeFromHashes_wf (l r : Bytes) (h : Nat) : (Node.createNodeFromHashes H l r h).Wf H := by
  simp [Node.createNodeFromHashes, Node.Wf, calculateNodeHash]

theorem new_wf (ht : Nat) (p : Prefix) (lo hi : Bytes) : (Node.new H ht p lo hi).Wf H := by
  simp [Node.new, Node.Wf]

variable (S : StoreOps σ)

/-- the tree's root is recoverable from the storage: a placeholder, or a well-formed node stored under
its own (non-zero) hash -/
def RootPersisted (t : SMT σ) : Prop :=
  t.root = .placeholder ∨
    (t.root.Wf H ∧ t.root.hash ≠ zeroSum ∧ S.get t.storage t.root.hash = some t.root.toPrim)

end FuelVerif.SmtStore
