/- Helper lemmas for C06: varint and little-endian round trips. -/
import FuelVerif.Model.Serde
namespace FuelVerif.Serde

theorem u8_ofNat_toNat (n : Nat) (h : n < 256) : (UInt8.ofNat n).toNat = n := by
  simp [Nat.mod_eq_of_lt h]

/-- core varint lemma: with `f` bytes of budget left, a value that fits `7(f-1)+e` bits decodes back,
where `e = bits % 7` is the number of payload bits postcard allows in the last byte -/
theorem varintDecAux_enc (bits e : Nat) (he : e = bits % 7) (he0 : 0 < e) (r : Bytes) :
    ∀ (f i n : Nat), 1 ≤ f → n < 2 ^ (7 * (f - 1) + e) →
      varintDecAux bits f i (varintEnc f n ++ r) = some (n * 2 ^ (7 * i), r) := by
  intro f
  induction f with
  | zero => intro i n h; omega
  | succ f ih =>
    intro i n _ hn
    have he7 : e < 7 := by omega
    by_cases hlt : n < 128
    · have hb : (UInt8.ofNat n).toNat = n := u8_ofNat_toNat n (by omega)
      simp only [varintEnc, hlt, if_true, List.cons_append, List.nil_append, varintDecAux, hb]
      have hmod : n % 128 = n := Nat.mod_eq_of_lt hlt
      by_cases hf : f = 0
      · subst hf
        have hn2 : n < 2 ^ e := by simpa using hn
        have : ¬ (n > maxOfLastByte bits) := by
          unfold maxOfLastByte; rw [← he]
          have : 0 < 2 ^ e := Nat.two_pow_pos e
          omega
        simp [this, hmod]
      · simp [hf, hmod]
    · have hb : (UInt8.ofNat (n % 128 + 128)).toNat = n % 128 + 128 := u8_ofNat_toNat _ (by omega)
      have hf : 1 ≤ f := by
        rcases Nat.eq_zero_or_pos f with h0 | h0
        · subst h0
          have hn2 : n < 2 ^ e := by simpa using hn
          have : 2 ^ e ≤ 2 ^ 6 := Nat.pow_le_pow_right (by decide) (by omega)
          omega
        · exact h0
      have hn' : n / 128 < 2 ^ (7 * (f - 1) + e) := by
        have h1 : 7 * (f + 1 - 1) + e = (7 * (f - 1) + e) + 7 := by omega
        rw [h1, Nat.pow_add] at hn
        apply Nat.div_lt_of_lt_mul
        rw [Nat.mul_comm]; exact hn
      have hrec := ih (i + 1) (n / 128) hf hn'
      simp only [varintEnc, hlt, if_false, List.cons_append, varintDecAux, hb]
      have hge : ¬ (n % 128 + 128 < 128) := by omega
      simp only [hge, if_false, hrec]
      have hmm : (n % 128 + 128) % 128 = n % 128 := by omega
      rw [hmm]
      congr 2
      have hp : 2 ^ (7 * (i + 1)) = 128 * 2 ^ (7 * i) := by
        rw [show 7 * (i + 1) = 7 + 7 * i by omega, Nat.pow_add]
      rw [hp]
      generalize 2 ^ (7 * i) = P
      have hdm : n = 128 * (n / 128) + n % 128 := (Nat.div_add_mod n 128).symm
      conv => rhs; rw [hdm]
      rw [Nat.add_mul, Nat.add_comm, Nat.mul_assoc, Nat.mul_left_comm]

theorem varint_roundtrip16 (n : Nat) (h : n < 2 ^ 16) (r : Bytes) : varintDec 16 (varintEnc 3 n ++ r) = some (n, r) := by
  have := varintDecAux_enc 16 2 (by decide) (by decide) r 3 0 n (by decide) (by simpa using h)
  simpa [varintDec, varintMax] using this
theorem varint_roundtrip32 (n : Nat) (h : n < 2 ^ 32) (r : Bytes) : varintDec 32 (varintEnc 5 n ++ r) = some (n, r) := by
  have := varintDecAux_enc 32 4 (by decide) (by decide) r 5 0 n (by decide) (by simpa using h)
  simpa [varintDec, varintMax] using this
theorem varint_roundtrip64 (n : Nat) (h : n < 2 ^ 64) (r : Bytes) : varintDec 64 (varintEnc 10 n ++ r) = some (n, r) := by
  have := varintDecAux_enc 64 1 (by decide) (by decide) r 10 0 n (by decide) (by simpa using h)
  simpa [varintDec, varintMax] using this
theorem varint_roundtrip128 (n : Nat) (h : n < 2 ^ 128) (r : Bytes) : varintDec 128 (varintEnc 19 n ++ r) = some (n, r) := by
  have := varintDecAux_enc 128 2 (by decide) (by decide) r 19 0 n (by decide) (by simpa using h)
  simpa [varintDec, varintMax] using this

theorem leEnc_length (len n : Nat) : (leEnc len n).length = len := by
  induction len generalizing n with
  | zero => rfl
  | succ k ih => simp [leEnc, ih]

theorem leVal_leEnc (len n : Nat) (h : n < 256 ^ len) : leVal (leEnc len n) = n := by
  induction len generalizing n with
  | zero => simp at h; simp [leEnc, leVal, h]
  | succ k ih =>
    have hk : n / 256 < 256 ^ k := by
      apply Nat.div_lt_of_lt_mul
      rw [Nat.pow_succ, Nat.mul_comm] at h; exact h
    simp only [leEnc, leVal, ih _ hk, u8_ofNat_toNat (n % 256) (Nat.mod_lt _ (by decide))]
    omega

theorem takeN_append (a r : Bytes) : takeN a.length (a ++ r) = some (a, r) := by
  simp [takeN]

theorem le_roundtrip (len n : Nat) (h : n < 256 ^ len) (r : Bytes) :
    leDec len (leEnc len n ++ r) = some (n, r) := by
  have := takeN_append (leEnc len n) r
  rw [leEnc_length] at this
  simp [leDec, this, leVal_leEnc len n h]

end FuelVerif.Serde
