/- Byte-level lemmas for the canonical codec: big-endian integers, alignment, `read`/`skip`, `encUint`/`decUint`. -/
import FuelVerif.Model.Canonical
namespace FuelVerif.Canonical
open FuelVerif

theorem length_zeros (n : Nat) : (zeros n).length = n := by simp [zeros]

theorem length_natBE (n x : Nat) : (natBE n x).length = n := by
  induction n generalizing x with
  | zero => simp [natBE]
  | succ n ih => simp [natBE, ih]

theorem beNat_append_single (a : Bytes) (b : UInt8) : beNat (a ++ [b]) = beNat a * 256 + b.toNat := by
  simp [beNat, List.foldl_append]

theorem beNat_natBE (n x : Nat) (h : x < 256 ^ n) : beNat (natBE n x) = x := by
  induction n generalizing x with
  | zero => simp [natBE, beNat] at *; omega
  | succ n ih =>
    rw [natBE, beNat_append_single, ih (x / 256) (by rw [Nat.pow_succ] at h; omega)]
    have : (UInt8.ofNat (x % 256)).toNat = x % 256 := by
      simp [UInt8.toNat_ofNat']
    rw [this]; omega

theorem foldl_be_lt (bs : Bytes) (acc : Nat) :
    bs.foldl (fun acc b => acc * 256 + b.toNat) acc < (acc + 1) * 256 ^ bs.length := by
  induction bs generalizing acc with
  | nil => simp
  | cons b bs ih =>
    simp only [List.foldl_cons, List.length_cons]
    have h1 := ih (acc * 256 + b.toNat)
    have hb := b.toNat_lt
    have h2 : (acc * 256 + b.toNat + 1) * 256 ^ bs.length ≤ ((acc + 1) * 256) * 256 ^ bs.length :=
      Nat.mul_le_mul_right _ (by omega)
    rw [Nat.pow_succ, Nat.mul_comm (256 ^ bs.length) 256, ← Nat.mul_assoc]
    omega

theorem beNat_lt (bs : Bytes) : beNat bs < 256 ^ bs.length := by
  have := foldl_be_lt bs 0
  simpa [beNat] using this

theorem alignmentBytes_lt (n : Nat) : alignmentBytes n < 8 := by
  unfold alignmentBytes ALIGN Gen.Canonical.ALIGN; simp only; split <;> omega

theorem alignedSize_dvd (n : Nat) : 8 ∣ alignedSize n := by
  unfold alignedSize alignmentBytes ALIGN Gen.Canonical.ALIGN; simp only; split <;> omega

theorem alignedSize_of_dvd (n : Nat) (h : 8 ∣ n) : alignedSize n = n := by
  unfold alignedSize alignmentBytes ALIGN Gen.Canonical.ALIGN; simp only; split <;> omega

theorem alignedSize_8 : alignedSize 8 = 8 := by decide

/-! `read` / `skip` -/

theorem read_append (a r : Bytes) : read a.length (a ++ r) = .ok (a, r) := by
  simp [read]

theorem skip_append (a r : Bytes) : skip a.length (a ++ r) = .ok r := by
  simp [skip]

theorem read_sound {n : Nat} {bs x r : Bytes} (h : read n bs = .ok (x, r)) : bs = x ++ r ∧ x.length = n := by
  unfold read at h
  split at h
  · cases h
  · simp only [Except.ok.injEq, Prod.mk.injEq] at h
    obtain ⟨rfl, rfl⟩ := h
    exact ⟨(List.take_append_drop n bs).symm, by simp; omega⟩

theorem skip_sound {n : Nat} {bs r : Bytes} (h : skip n bs = .ok r) : ∃ u, bs = u ++ r ∧ u.length = n := by
  unfold skip at h
  split at h
  · cases h
  · simp only [Except.ok.injEq] at h
    subst h
    exact ⟨bs.take n, (List.take_append_drop n bs).symm, by simp; omega⟩

/-! integers -/

theorem encUint_length (n x : Nat) : (encUint n x).length = alignedSize n := by
  simp [encUint, length_zeros, length_natBE, alignedSize]; omega

theorem decUint_encUint (n x : Nat) (r : Bytes) (h : x < 256 ^ n) : decUint n (encUint n x ++ r) = .ok (x, r) := by
  unfold decUint encUint
  have h1 : skip (alignmentBytes n) (zeros (alignmentBytes n) ++ natBE n x ++ r) = .ok (natBE n x ++ r) := by
    have := skip_append (zeros (alignmentBytes n)) (natBE n x ++ r)
    rw [length_zeros] at this
    simpa [List.append_assoc] using this
  rw [h1]
  have h2 : read n (natBE n x ++ r) = .ok (natBE n x, r) := by
    have := read_append (natBE n x) r
    rwa [length_natBE] at this
  simp only [h2, beNat_natBE n x h]

theorem decUint_sound {n : Nat} {bs r : Bytes} {x : Nat} (h : decUint n bs = .ok (x, r)) :
    ∃ u, bs = u ++ r ∧ u.length = alignedSize n ∧ x < 256 ^ n := by
  unfold decUint at h
  split at h
  · cases h
  · rename_i r1 h1
    split at h
    · cases h
    · rename_i y r2 h2
      simp only [Except.ok.injEq, Prod.mk.injEq] at h
      obtain ⟨rfl, rfl⟩ := h
      obtain ⟨u, hu, hul⟩ := skip_sound h1
      obtain ⟨hy, hyl⟩ := read_sound h2
      refine ⟨u ++ y, by rw [hu, hy, List.append_assoc], by simp [hul, hyl, alignedSize]; omega, ?_⟩
      have := beNat_lt y
      rwa [hyl] at this

end FuelVerif.Canonical
