/- Helper lemmas: `ser p` has the generated shape of `Policies`. -/
import FuelVerif.Model.PoliciesWire
import FuelVerif.Lemmas.PoliciesSerde
import FuelVerif.Lemmas.SerdeCheck
namespace FuelVerif.PoliciesSerde
open FuelVerif.Serde FuelVerif.Gen.Policies FuelVerif.Gen.SerdeShapes

theorem listShape_replicate_u64 : ∀ (vs : List Nat), (∀ v ∈ vs, v < 2 ^ 64) →
    ListShape (List.replicate vs.length .u64) (vs.map .u64)
  | [], _ => by simp [ListShape]
  | v :: vs, h => by
    simp only [List.length_cons, List.replicate_succ, List.map_cons, ListShape, HasShape]
    exact ⟨h v (by simp), listShape_replicate_u64 vs (fun x hx => h x (by simp [hx]))⟩

theorem allShape_u64 : ∀ (vs : List Nat), (∀ v ∈ vs, v < 2 ^ 64) → AllShape .u64 (vs.map .u64)
  | [], _ => by simp [AllShape]
  | v :: vs, h => by
    simp only [List.map_cons, AllShape, HasShape]
    exact ⟨h v (by simp), allShape_u64 vs (fun x hx => h x (by simp [hx]))⟩

theorem gather_mem (bits : Nat) : ∀ (vs fb : List Nat) (x : Nat), x ∈ gather bits vs fb → x ∈ vs
  | [], _, x, h => by simp [gather] at h
  | _ :: _, [], x, h => by simp [gather] at h
  | v :: vs, b :: bs, x, h => by
    simp only [gather] at h
    split at h
    · rcases List.mem_cons.mp h with h | h
      · simp [h]
      · exact List.mem_cons_of_mem _ (gather_mem bits vs bs x h)
    · exact List.mem_cons_of_mem _ (gather_mem bits vs bs x h)

theorem gather_length_le (bits : Nat) : ∀ (vs fb : List Nat), (gather bits vs fb).length ≤ fb.length
  | [], _ => by simp [gather]
  | _ :: _, [] => by simp [gather]
  | v :: vs, b :: bs => by
    have := gather_length_le bits vs bs
    simp only [gather]
    split <;> simp <;> omega

theorem isLegacy_eq_selLegacy (mask bits : Nat) : isLegacy mask bits = selLegacy allMask mask bits := rfl

end FuelVerif.PoliciesSerde
