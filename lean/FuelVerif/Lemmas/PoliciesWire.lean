/- Helper lemmas: `ser p` has the generated shape of `Policies`. -/
import FuelVerif.Model.PoliciesWire
import FuelVerif.Lemmas.PoliciesSerde
import FuelVerif.Lemmas.SerdeCheck
namespace FuelVerif.PoliciesSerde
open FuelVerif.Serde FuelVerif.Gen.Policies FuelVerif.Gen.SerdeShapes

theorem listShape_replicate_u64 : ∀ (vs : List Nat), (∀ v ∈ vs, v < 2 ^ 64) →
    ListShape (List.replicate vs.length .u64) (vs.map .u64)
  | [], _ => by simp [ListShape]
  | v :: vs, h => by
    simp only [List.length_cons, List.replicate_succ, List.map_cons, ListShape, HasShape]
    exact ⟨h v (by simp), listShape_replicate_u64 vs (fun x hx => h x (by simp [hx]))⟩

theorem allShape_u64 : ∀ (vs : List Nat), (∀ v ∈ vs, v < 2 ^ 64) → AllShape .u64 (vs.map .u64)
  | [], _ => by simp [AllShape]
  | v :: vs, h => by
    simp only [List.map_cons, AllShape, HasShape]
    exact ⟨h v (by simp), allShape_u64 vs (fun x hx => h x (by simp [hx]))⟩

theorem gather_mem (bits : Nat) : ∀ (vs fb : List Nat) (x : Nat), x ∈ gather bits vs fb → x ∈ vs
  | [], _, x, h => by simp [gather] at h
  | _ :: _, [], x, h => by simp [gather] at h
  | v :: vs, b :: bs, x, h => by
    simp only [gather] at h
    split at h
    · rcases List.mem_cons.mp h with h | h
      · simp [h]
      · exact List.mem_cons_of_mem _ (gather_mem bits vs bs x h)
    · exact List.mem_cons_of_mem _ (gather_mem bits vs bs x h)

theorem gather_length_le (bits : Nat) : ∀ (vs fb : List Nat), (gather bits vs fb).length ≤ fb.length
  | [], _ => by simp [gather]
  | _ :: _, [] => by simp [gather]
  | v :: vs, b :: bs => by
    have := gather_length_le bits vs bs
    simp only [gather]
    split <;> simp <;> omega

theorem leavesOkList_u64 (v : Tree → Bool) : ∀ (n : Nat) (xs : List Tree),
    leavesOkList v (List.replicate n .u64) xs = true
  | 0, xs => by simp [leavesOkList]
  | n + 1, [] => by simp [List.replicate_succ, leavesOkList]
  | n + 1, x :: xs => by
    simp only [List.replicate_succ, leavesOkList, Bool.and_eq_true]
    exact ⟨by cases x <;> simp [leavesOk], leavesOkList_u64 v n xs⟩

theorem leavesOkAll_u64 (v : Tree → Bool) : ∀ (xs : List Tree), leavesOkAll v .u64 xs = true
  | [] => by simp [leavesOkAll]
  | x :: xs => by
    simp only [leavesOkAll, Bool.and_eq_true]
    exact ⟨by cases x <;> simp [leavesOk], leavesOkAll_u64 v xs⟩

/-- the two value layouts of `Policies` contain no further hand-written leaves -/
theorem leavesOk_values (v : Tree → Bool) (t : Tree) :
    leavesOk v (.tuple (List.replicate 4 .u64)) t = true ∧ leavesOk v (.seq .u64) t = true := by
  constructor
  · cases t <;> simp only [leavesOk]
    exact leavesOkList_u64 v 4 _
  · cases t <;> simp only [leavesOk]
    exact leavesOkAll_u64 v _

theorem isLegacy_eq_selLegacy (mask bits : Nat) : isLegacy mask bits = selLegacy allMask mask bits := rfl

end FuelVerif.PoliciesSerde
