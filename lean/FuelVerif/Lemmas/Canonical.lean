/-
Generic lemmas about the canonical codec model (Model/Canonical.lean), by induction on descriptors.
The hand-written codecs of the environment enter through `EnvLaws`: the same statements, per codec.
-/
import FuelVerif.Lemmas.CanonicalBytes
namespace FuelVerif.Canonical
open FuelVerif

/-- what the generic theorems need from every hand-written codec of the environment -/
structure CodecLaws (c : Codec) : Prop where
  sizeS_len : ∀ v, c.wt v = true → (c.encS v).length = c.sizeS v
  sizeD_len : ∀ v, c.wt v = true → (c.encD v).length = c.sizeD v
  sizeS_al : ∀ v, c.wt v = true → 8 ∣ c.sizeS v
  sizeD_al : ∀ v, c.wt v = true → 8 ∣ c.sizeD v
  decS_encS : ∀ v r, c.wt v = true → c.decS (c.encS v ++ r) = .ok (c.partialOf v, r)
  decD_encD : ∀ v r, c.wt v = true → c.decD (c.partialOf v) (c.encD v ++ r) = .ok (v, r)
  decS_sound : ∀ bs p r, c.decS bs = .ok (p, r) → ∃ u, bs = u ++ r ∧ u.length = c.sizeS p ∧ c.pwt p = true
  decD_sound : ∀ p bs v r, c.pwt p = true → c.decD p bs = .ok (v, r) →
    ∃ u, bs = u ++ r ∧ u.length = c.sizeD v ∧ c.sizeS v = c.sizeS p ∧ c.wt v = true

def EnvLaws (env : Env) : Prop := ∀ k, CodecLaws (env k)

theorem CodecLaws.none : CodecLaws Codec.none where
  sizeS_len := by intro v h; cases h
  sizeD_len := by intro v h; cases h
  sizeS_al := by intro v h; cases h
  sizeD_al := by intro v h; cases h
  decS_encS := by intro v r h; cases h
  decD_encD := by intro v r h; cases h
  decS_sound := by intro bs p r h; cases h
  decD_sound := by intro p bs v r h; cases h

theorem simple_wf : ∀ d : Desc, d.simple = true → d.wf = true := by
  intro d
  induction d with
  | pair a b iha ihb =>
    intro h
    simp only [Desc.simple, Bool.and_eq_true] at h
    simp only [Desc.wf, Bool.and_eq_true]
    exact ⟨iha h.1, ihb h.2⟩
  | _ => intro h; first | rfl | (simp [Desc.simple] at h)

theorem wt_dflt (env : Env) : ∀ d : Desc, d.simple = true → wt env d (dflt d) = true := by
  intro d
  induction d with
  | pair a b iha ihb =>
    intro h
    simp only [Desc.simple, Bool.and_eq_true] at h
    simp only [dflt, wt, Bool.and_eq_true]
    exact ⟨iha h.1, ihb h.2⟩
  | uint n => intro _; simp only [dflt, wt, decide_eq_true_eq]; exact Nat.pow_pos (by decide)
  | bytesN n => intro _; simp [dflt, wt, length_zeros]
  | vecBytes => intro _; simp [dflt, wt]
  | unit => intro _; simp [dflt, wt]
  | _ => intro h; simp [Desc.simple] at h

/-- for `simple` types the static part does not look at the value -/
theorem sizeS_simple (env : Env) : ∀ d : Desc, d.simple = true → ∀ v w, wt env d v = true → wt env d w = true →
    sizeS env d v = sizeS env d w := by
  intro d
  induction d with
  | pair a b iha ihb =>
    intro h v w hv hw
    simp only [Desc.simple, Bool.and_eq_true] at h
    cases v <;> simp [wt] at hv
    cases w <;> simp [wt] at hw
    simp only [sizeS]
    rw [iha h.1 _ _ hv.1 hw.1, ihb h.2 _ _ hv.2 hw.2]
  | uint n => intro _ v w _ _; simp [sizeS]
  | bytesN n => intro _ v w _ _; simp [sizeS]
  | vecBytes => intro _ v w _ _; simp [sizeS]
  | unit => intro _ v w _ _; simp [sizeS]
  | _ => intro h; simp [Desc.simple] at h

/-! ### sizes are word aligned -/

theorem size_aligned_aux (env : Env) (L : EnvLaws env) : ∀ d : Desc,
    (d.wf = true ∨ d.wfAlts = true) → ∀ v, wt env d v = true → 8 ∣ sizeS env d v ∧ 8 ∣ sizeD env d v := by
  intro d
  induction d with
  | uint n => intro _ v hv; cases v <;> simp [wt] at hv; simp [sizeS, sizeD, alignedSize_dvd]
  | bytesN n => intro _ v hv; cases v <;> simp [wt] at hv; simp [sizeS, sizeD, alignedSize_dvd]
  | vecBytes => intro _ v hv; cases v <;> simp [wt] at hv; simp [sizeS, sizeD, alignedSize_dvd]
  | vec d _ => intro _ v _; simp [sizeS, sizeD, alignedSize_dvd]
  | unit => intro _ v hv; cases v <;> simp [wt] at hv; simp [sizeS, sizeD]
  | pair a b iha ihb =>
    intro hw v hv
    have hw : a.wf = true ∧ b.wf = true := by
      rcases hw with hw | hw <;> simp [Desc.wf, Desc.wfAlts] at hw; exact hw
    cases v <;> simp [wt] at hv
    rename_i va vb
    obtain ⟨h1, h2⟩ := iha (Or.inl hw.1) va hv.1
    obtain ⟨h3, h4⟩ := ihb (Or.inl hw.2) vb hv.2
    simp only [sizeS, sizeD]
    exact ⟨Nat.dvd_add h1 h3, Nat.dvd_add h2 h4⟩
  | pre p d ih =>
    intro hw v hv
    have hw : d.wf = true := by
      rcases hw with hw | hw <;> simp [Desc.wf, Desc.wfAlts] at hw; exact hw.2
    simp only [wt] at hv
    obtain ⟨h1, h2⟩ := ih (Or.inl hw) v hv
    simp only [sizeS, sizeD]
    exact ⟨by omega, h2⟩
  | enum a ih =>
    intro hw v hv
    have hw : a.wfAlts = true := by
      rcases hw with hw | hw <;> simp [Desc.wf, Desc.wfAlts] at hw; exact hw
    simp only [wt] at hv
    obtain ⟨h1, h2⟩ := ih (Or.inr hw) v hv
    simp only [sizeS, sizeD]
    exact ⟨by omega, h2⟩
  | alt k d rest ihd ihr =>
    intro hw v hv
    have hw : d.wf = true ∧ rest.wfAlts = true := by
      rcases hw with hw | hw <;> simp [Desc.wf, Desc.wfAlts] at hw; exact ⟨hw.1.2, hw.2⟩
    cases v <;> simp [wt] at hv
    · simp only [sizeS, sizeD]; exact ihd (Or.inl hw.1) _ hv
    · simp only [sizeS, sizeD]; exact ihr (Or.inr hw.2) _ hv
  | void => intro _ v hv; cases v <;> simp [wt] at hv
  | skipped => intro _ v _; simp [sizeS, sizeD]
  | empty d ih =>
    intro hw v hv
    have hw : d.simple = true := by
      rcases hw with hw | hw <;> simp [Desc.wf, Desc.wfAlts] at hw; exact hw
    simp only [sizeS, sizeD]
    exact ⟨(ih (Or.inl (simple_wf d hw)) _ (wt_dflt env d hw)).1, by simp⟩
  | custom k =>
    intro _ v hv
    simp only [wt] at hv
    simp only [sizeS, sizeD]
    exact ⟨(L k).sizeS_al v hv, (L k).sizeD_al v hv⟩


theorem size_aligned (env : Env) (L : EnvLaws env) (d : Desc) (hd : d.wf = true) (v : Val) (hv : wt env d v = true) :
    8 ∣ sizeS env d v ∧ 8 ∣ sizeD env d v := size_aligned_aux env L d (Or.inl hd) v hv

/-! ### list helpers -/

theorem Val.elems_ofList (l : List Val) : (Val.ofList l).elems = l := by
  induction l with
  | nil => rfl
  | cons a l ih => simp [Val.ofList, Val.elems, ih]

theorem Val.isList_ofList (l : List Val) : (Val.ofList l).isList = true := by
  induction l with
  | nil => rfl
  | cons a l ih => simp [Val.ofList, Val.isList, ih]

theorem Val.ofList_elems : ∀ v : Val, v.isList = true → Val.ofList v.elems = v := by
  intro v
  induction v with
  | pair a b _ ihb => intro h; simp only [Val.isList] at h; simp [Val.elems, Val.ofList, ihb h]
  | unit => intro _; rfl
  | _ => intro h; simp [Val.isList] at h

theorem dvd_sum_map {α : Type} (l : List α) (f : α → Nat) (h : ∀ x ∈ l, 8 ∣ f x) : 8 ∣ (l.map f).sum := by
  induction l with
  | nil => simp
  | cons a l ih =>
    simp only [List.map_cons, List.sum_cons]
    exact Nat.dvd_add (h a (by simp)) (ih (fun x hx => h x (by simp [hx])))

theorem length_flatMap_eq {α : Type} (l : List α) (g : α → Bytes) (f : α → Nat) (h : ∀ x ∈ l, (g x).length = f x) :
    (l.flatMap g).length = (l.map f).sum := by
  induction l with
  | nil => simp
  | cons a l ih =>
    simp only [List.flatMap_cons, List.length_append, List.map_cons, List.sum_cons]
    rw [h a (by simp), ih (fun x hx => h x (by simp [hx]))]

/-! ### the encoding has the length the value reports -/

theorem encU64_length (x : Nat) : (encU64 x).length = 8 := by
  simp [encU64, encUint_length, alignedSize_8]

/-- `wf` side: lengths are the reported sizes; `wfAlts` side (a variant list): the static part also
carries the 8-byte discriminant that `sizeS (enum _)` accounts for -/
theorem enc_length_aux (env : Env) (L : EnvLaws env) : ∀ d : Desc,
    (d.wf = true → ∀ v, wt env d v = true →
      (encS env d v).length = sizeS env d v ∧ (encD env d v).length = sizeD env d v) ∧
    (d.wfAlts = true → ∀ v, wt env d v = true →
      (encS env d v).length = 8 + sizeS env d v ∧ (encD env d v).length = sizeD env d v) := by
  intro d
  induction d with
  | uint n =>
    refine ⟨fun _ v hv => ?_, fun h => by simp [Desc.wfAlts] at h⟩
    cases v <;> simp [wt] at hv; simp [encS, encD, sizeS, sizeD, encUint_length]
  | bytesN n =>
    refine ⟨fun _ v hv => ?_, fun h => by simp [Desc.wfAlts] at h⟩
    cases v <;> simp [wt] at hv
    simp [encS, encD, sizeS, sizeD, length_zeros, alignedSize, hv]
  | vecBytes =>
    refine ⟨fun _ v hv => ?_, fun h => by simp [Desc.wfAlts] at h⟩
    cases v <;> simp [wt] at hv
    simp [encS, encD, sizeS, sizeD, length_zeros, alignedSize, encU64_length]
  | vec d ih =>
    refine ⟨fun hw v hv => ?_, fun h => by simp [Desc.wfAlts] at h⟩
    simp only [Desc.wf] at hw
    simp only [wt, Bool.and_eq_true, List.all_eq_true, decide_eq_true_eq] at hv
    obtain ⟨⟨_, hall⟩, _⟩ := hv
    refine ⟨by simp [encS, sizeS, encU64_length], ?_⟩
    simp only [encD, sizeD]
    have h1 := length_flatMap_eq v.elems (fun e => encS env d e ++ encD env d e) (fun e => sizeS env d e + sizeD env d e)
      (fun e he => by
        obtain ⟨a, b⟩ := ih.1 hw e (hall e he)
        simp [a, b])
    rw [h1]
    have h2 := dvd_sum_map v.elems (fun e => sizeS env d e + sizeD env d e) (fun e he => by
      obtain ⟨a, b⟩ := size_aligned env L d hw e (hall e he)
      exact Nat.dvd_add a b)
    exact (alignedSize_of_dvd _ h2).symm
  | unit =>
    refine ⟨fun _ v hv => ?_, fun h => by simp [Desc.wfAlts] at h⟩
    cases v <;> simp [wt] at hv; simp [encS, encD, sizeS, sizeD]
  | pair a b iha ihb =>
    refine ⟨fun hw v hv => ?_, fun h => by simp [Desc.wfAlts] at h⟩
    simp only [Desc.wf, Bool.and_eq_true] at hw
    cases v <;> simp [wt] at hv
    rename_i va vb
    obtain ⟨h1, h2⟩ := iha.1 hw.1 va hv.1
    obtain ⟨h3, h4⟩ := ihb.1 hw.2 vb hv.2
    simp [encS, encD, sizeS, sizeD, h1, h2, h3, h4]
  | pre p d ih =>
    refine ⟨fun hw v hv => ?_, fun h => by simp [Desc.wfAlts] at h⟩
    simp only [Desc.wf, Bool.and_eq_true] at hw
    simp only [wt] at hv
    obtain ⟨h1, h2⟩ := ih.1 hw.2 v hv
    simp [encS, encD, sizeS, sizeD, h1, h2, encU64_length]
  | enum a ih =>
    refine ⟨fun hw v hv => ?_, fun h => by simp [Desc.wfAlts] at h⟩
    simp only [Desc.wf] at hw
    simp only [wt] at hv
    obtain ⟨h1, h2⟩ := ih.2 hw v hv
    simp [encS, encD, sizeS, sizeD, h1, h2]
  | alt k d rest ihd ihr =>
    refine ⟨fun h => by simp [Desc.wf] at h, fun hw v hv => ?_⟩
    simp only [Desc.wfAlts, Bool.and_eq_true] at hw
    cases v <;> simp [wt] at hv
    · obtain ⟨h1, h2⟩ := ihd.1 hw.1.2 _ hv
      simp [encS, encD, sizeS, sizeD, h1, h2, encU64_length]
    · obtain ⟨h1, h2⟩ := ihr.2 hw.2 _ hv
      simp [encS, encD, sizeS, sizeD, h1, h2]
  | void => exact ⟨fun h => by simp [Desc.wf] at h, fun _ v hv => by cases v <;> simp [wt] at hv⟩
  | skipped =>
    refine ⟨fun _ v _ => ?_, fun h => by simp [Desc.wfAlts] at h⟩
    simp [encS, encD, sizeS, sizeD]
  | empty d ih =>
    refine ⟨fun hw v _ => ?_, fun h => by simp [Desc.wfAlts] at h⟩
    simp only [Desc.wf] at hw
    simp only [encS, encD, sizeS, sizeD]
    exact ⟨(ih.1 (simple_wf d hw) _ (wt_dflt env d hw)).1, by simp⟩
  | custom k =>
    refine ⟨fun _ v hv => ?_, fun h => by simp [Desc.wfAlts] at h⟩
    simp only [wt] at hv
    simp only [encS, encD, sizeS, sizeD]
    exact ⟨(L k).sizeS_len v hv, (L k).sizeD_len v hv⟩

theorem enc_length (env : Env) (L : EnvLaws env) (d : Desc) (hd : d.wf = true) (v : Val) (hv : wt env d v = true) :
    (encode env d v).length = size env d v := by
  obtain ⟨h1, h2⟩ := (enc_length_aux env L d).1 hd v hv
  simp [encode, size, h1, h2]


/-! ### decoding the static part of an encoding -/

theorem decU64_encU64 (x : Nat) (r : Bytes) (h : x < 2 ^ 64) : decU64 (encU64 x ++ r) = .ok (x, r) :=
  decUint_encUint 8 x r (by simpa using h)

theorem limit_lt : VEC_DECODE_LIMIT < 2 ^ 64 := by decide

theorem simple_nodup : ∀ d : Desc, d.simple = true → d.nodup = true := by
  intro d
  induction d with
  | pair a b iha ihb =>
    intro h
    simp only [Desc.simple, Bool.and_eq_true] at h
    simp only [Desc.nodup, Bool.and_eq_true]
    exact ⟨iha h.1, ihb h.2⟩
  | _ => intro h; first | rfl | (simp [Desc.simple] at h)

theorem decS_encS_aux (env : Env) (L : EnvLaws env) : ∀ d : Desc,
    (d.wf = true → d.nodup = true → ∀ v r, wt env d v = true →
      decS env d (encS env d v ++ r) = .ok (partialOf env d v, r)) ∧
    (d.wfAlts = true → d.nodup = true → ∀ v, wt env d v = true →
      ∃ k body, k ∈ d.discs ∧ k < 2 ^ 64 ∧ encS env d v = encU64 k ++ body ∧
        ∀ r, decAlt env d k (body ++ r) = .ok (partialOf env d v, r)) := by
  intro d
  induction d with
  | uint n =>
    refine ⟨fun _ _ v r hv => ?_, fun h => by simp [Desc.wfAlts] at h⟩
    cases v <;> simp [wt] at hv
    simp [decS, encS, partialOf, decUint_encUint _ _ _ hv]
  | bytesN n =>
    refine ⟨fun _ _ v r hv => ?_, fun h => by simp [Desc.wfAlts] at h⟩
    cases v <;> simp [wt] at hv
    rename_i bs
    subst hv
    have h1 : read bs.length (bs ++ (zeros (alignmentBytes bs.length) ++ r)) = .ok (bs, zeros (alignmentBytes bs.length) ++ r) :=
      read_append _ _
    have h2 : skip (alignmentBytes bs.length) (zeros (alignmentBytes bs.length) ++ r) = .ok r := by
      have := skip_append (zeros (alignmentBytes bs.length)) r
      rwa [length_zeros] at this
    simp only [decS, encS, partialOf, List.append_assoc, h1, h2]
  | vecBytes =>
    refine ⟨fun _ _ v r hv => ?_, fun h => by simp [Desc.wfAlts] at h⟩
    cases v <;> simp [wt] at hv
    rename_i bs
    have hlt : bs.length < 2 ^ 64 := by have := limit_lt; omega
    simp only [decS, encS, partialOf, decCap]
    rw [decU64_encU64 _ r hlt]
    simp [Nat.not_lt.mpr hv]
  | vec d _ =>
    refine ⟨fun _ _ v r hv => ?_, fun h => by simp [Desc.wfAlts] at h⟩
    simp only [wt, Bool.and_eq_true, decide_eq_true_eq] at hv
    have hlt : v.elems.length < 2 ^ 64 := by have := limit_lt; omega
    simp only [decS, encS, partialOf, decCap]
    rw [decU64_encU64 _ r hlt]
    simp [Nat.not_lt.mpr hv.2]
  | unit =>
    refine ⟨fun _ _ v r hv => ?_, fun h => by simp [Desc.wfAlts] at h⟩
    cases v <;> simp [wt] at hv; simp [decS, encS, partialOf]
  | pair a b iha ihb =>
    refine ⟨fun hw hn v r hv => ?_, fun h => by simp [Desc.wfAlts] at h⟩
    simp only [Desc.wf, Bool.and_eq_true] at hw
    simp only [Desc.nodup, Bool.and_eq_true] at hn
    cases v <;> simp [wt] at hv
    rename_i va vb
    simp only [decS, encS, partialOf, List.append_assoc]
    rw [iha.1 hw.1 hn.1 va _ hv.1]
    simp only
    rw [ihb.1 hw.2 hn.2 vb _ hv.2]
  | pre p d ih =>
    refine ⟨fun hw hn v r hv => ?_, fun h => by simp [Desc.wfAlts] at h⟩
    simp only [Desc.wf, Bool.and_eq_true, decide_eq_true_eq] at hw
    simp only [Desc.nodup] at hn
    simp only [wt] at hv
    simp only [decS, encS, partialOf, List.append_assoc]
    rw [decU64_encU64 _ _ hw.1]
    simp only [if_true]
    exact ih.1 hw.2 hn v r hv
  | enum a ih =>
    refine ⟨fun hw hn v r hv => ?_, fun h => by simp [Desc.wfAlts] at h⟩
    simp only [Desc.wf] at hw
    simp only [Desc.nodup] at hn
    simp only [wt] at hv
    obtain ⟨k, body, _, hk, he, hd⟩ := ih.2 hw hn v hv
    simp only [decS, encS, partialOf, he, List.append_assoc]
    rw [decU64_encU64 _ _ hk]
    exact hd r
  | alt k d rest ihd ihr =>
    refine ⟨fun h => by simp [Desc.wf] at h, fun hw hn v hv => ?_⟩
    simp only [Desc.wfAlts, Bool.and_eq_true, decide_eq_true_eq] at hw
    simp only [Desc.nodup, Bool.and_eq_true, Bool.not_eq_true', List.contains_eq_mem, decide_eq_false_iff_not] at hn
    cases v <;> simp [wt] at hv
    · rename_i x
      refine ⟨k, encS env d x, by simp [Desc.discs], hw.1.1, by simp [encS], fun r => ?_⟩
      simp only [decAlt, if_true, partialOf]
      rw [ihd.1 hw.1.2 hn.1.2 x r hv]
    · rename_i x
      obtain ⟨k', body, hmem, hk', he, hd⟩ := ihr.2 hw.2 hn.2 x hv
      refine ⟨k', body, by simp [Desc.discs, hmem], hk', by simp [encS, he], fun r => ?_⟩
      have hne : k' ≠ k := fun e => hn.1.1 (e ▸ hmem)
      simp only [decAlt, if_neg hne, partialOf]
      rw [hd r]
  | void => exact ⟨fun h => by simp [Desc.wf] at h, fun _ _ v hv => by cases v <;> simp [wt] at hv⟩
  | skipped =>
    refine ⟨fun _ _ v r _ => ?_, fun h => by simp [Desc.wfAlts] at h⟩
    simp [decS, encS, partialOf]
  | empty d ih =>
    refine ⟨fun hw _ v r _ => ?_, fun h => by simp [Desc.wfAlts] at h⟩
    simp only [Desc.wf] at hw
    simp only [decS, encS, partialOf]
    rw [ih.1 (simple_wf d hw) (simple_nodup d hw) _ r (wt_dflt env d hw)]
  | custom k =>
    refine ⟨fun _ _ v r hv => ?_, fun h => by simp [Desc.wfAlts] at h⟩
    simp only [wt] at hv
    simp only [decS, encS, partialOf]
    exact (L k).decS_encS v r hv


theorem decS_encS (env : Env) (L : EnvLaws env) (d : Desc) (hd : d.wf = true) (hn : d.nodup = true)
    (v : Val) (r : Bytes) (hv : wt env d v = true) :
    decS env d (encS env d v ++ r) = .ok (partialOf env d v, r) := (decS_encS_aux env L d).1 hd hn v r hv

/-! ### decoding the dynamic part of an encoding -/

theorem decElems_enc (f : Bytes → R (Val × Bytes)) (g : Val → Bytes) (h : Val → Val) (l : List Val) (r : Bytes)
    (hf : ∀ e ∈ l, ∀ r, f (g e ++ r) = .ok (h e, r)) :
    decElems f l.length (l.flatMap g ++ r) = .ok (l.map h, r) := by
  induction l with
  | nil => simp [decElems]
  | cons a l ih =>
    simp only [List.length_cons, decElems, List.flatMap_cons, List.append_assoc]
    rw [hf a (by simp)]
    simp only
    rw [ih (fun e he => hf e (by simp [he]))]
    simp

theorem decD_encD_aux (env : Env) (L : EnvLaws env) : ∀ d : Desc,
    (d.wf = true ∨ d.wfAlts = true) → d.nodup = true → ∀ v r, wt env d v = true →
      decD env d (partialOf env d v) (encD env d v ++ r) = .ok (erase env d v, r) := by
  intro d
  induction d with
  | uint n => intro _ _ v r hv; cases v <;> simp [wt] at hv; simp [decD, encD, partialOf, erase]
  | bytesN n => intro _ _ v r hv; cases v <;> simp [wt] at hv; simp [decD, encD, partialOf, erase]
  | vecBytes =>
    intro _ _ v r hv
    cases v <;> simp [wt] at hv
    rename_i bs
    have h1 : read bs.length (bs ++ (zeros (alignmentBytes bs.length) ++ r)) = .ok (bs, zeros (alignmentBytes bs.length) ++ r) :=
      read_append _ _
    have h2 : skip (alignmentBytes bs.length) (zeros (alignmentBytes bs.length) ++ r) = .ok r := by
      have := skip_append (zeros (alignmentBytes bs.length)) r
      rwa [length_zeros] at this
    simp only [decD, encD, partialOf, erase, List.append_assoc, h1, h2]
  | vec d ih =>
    intro hw hn v r hv
    have hw : d.wf = true := by
      rcases hw with hw | hw <;> simp [Desc.wf, Desc.wfAlts] at hw; exact hw
    simp only [Desc.nodup] at hn
    simp only [wt, Bool.and_eq_true, List.all_eq_true, decide_eq_true_eq] at hv
    obtain ⟨⟨_, hall⟩, _⟩ := hv
    simp only [decD, encD, partialOf, erase]
    rw [decElems_enc _ (fun e => encS env d e ++ encD env d e) (fun e => erase env d e) v.elems r]
    intro e he r'
    simp only [List.append_assoc]
    rw [decS_encS env L d hw hn e _ (hall e he)]
    exact ih (Or.inl hw) hn e r' (hall e he)
  | unit => intro _ _ v r hv; cases v <;> simp [wt] at hv; simp [decD, encD, partialOf, erase]
  | pair a b iha ihb =>
    intro hw hn v r hv
    have hw : a.wf = true ∧ b.wf = true := by
      rcases hw with hw | hw <;> simp [Desc.wf, Desc.wfAlts] at hw; exact hw
    simp only [Desc.nodup, Bool.and_eq_true] at hn
    cases v <;> simp [wt] at hv
    rename_i va vb
    simp only [decD, encD, partialOf, erase, List.append_assoc]
    rw [iha (Or.inl hw.1) hn.1 va _ hv.1]
    simp only
    rw [ihb (Or.inl hw.2) hn.2 vb _ hv.2]
  | pre p d ih =>
    intro hw hn v r hv
    have hw : d.wf = true := by
      rcases hw with hw | hw <;> simp [Desc.wf, Desc.wfAlts] at hw; exact hw.2
    simp only [Desc.nodup] at hn
    simp only [wt] at hv
    simp only [decD, encD, partialOf, erase]
    exact ih (Or.inl hw) hn v r hv
  | enum a ih =>
    intro hw hn v r hv
    have hw : a.wfAlts = true := by
      rcases hw with hw | hw <;> simp [Desc.wf, Desc.wfAlts] at hw; exact hw
    simp only [Desc.nodup] at hn
    simp only [wt] at hv
    simp only [decD, encD, partialOf, erase]
    exact ih (Or.inr hw) hn v r hv
  | alt k d rest ihd ihr =>
    intro hw hn v r hv
    have hw : d.wf = true ∧ rest.wfAlts = true := by
      rcases hw with hw | hw <;> simp [Desc.wf, Desc.wfAlts] at hw; exact ⟨hw.1.2, hw.2⟩
    simp only [Desc.nodup, Bool.and_eq_true] at hn
    cases v <;> simp [wt] at hv
    · simp only [decD, encD, partialOf, erase]
      rw [ihd (Or.inl hw.1) hn.1.2 _ r hv]
    · simp only [decD, encD, partialOf, erase]
      rw [ihr (Or.inr hw.2) hn.2 _ r hv]
  | void => intro _ _ v r hv; cases v <;> simp [wt] at hv
  | skipped => intro _ _ v r _; simp [decD, encD, partialOf, erase]
  | empty d _ => intro _ _ v r hv; cases v <;> simp [wt] at hv; simp [decD, encD, partialOf, erase]
  | custom k =>
    intro _ _ v r hv
    simp only [wt] at hv
    simp only [decD, encD, partialOf, erase]
    exact (L k).decD_encD v r hv

/-- **round trip**: decoding an encoding followed by anything returns the value (skipped fields
defaulted) and exactly the rest -/
theorem dec_enc (env : Env) (L : EnvLaws env) (d : Desc) (hd : d.wf = true) (hn : d.nodup = true)
    (v : Val) (r : Bytes) (hv : wt env d v = true) :
    decode env d (encode env d v ++ r) = .ok (erase env d v, r) := by
  simp only [decode, encode, List.append_assoc]
  rw [decS_encS env L d hd hn v _ hv]
  exact decD_encD_aux env L d (Or.inl hd) hn v r hv

end FuelVerif.Canonical
