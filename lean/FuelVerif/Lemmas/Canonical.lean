/-
Generic lemmas about the canonical codec model (Model/Canonical.lean), by induction on descriptors.
The hand-written codecs of the environment enter through `EnvLaws`: the same statements, per codec.
-/
import FuelVerif.Lemmas.CanonicalBytes
namespace FuelVerif.Canonical
open FuelVerif

/-- what the generic theorems need from every hand-written codec of the environment -/
structure CodecLaws (c : Codec) : Prop where
  sizeS_len : ∀ v, c.wt v = true → (c.encS v).length = c.sizeS v
  sizeD_len : ∀ v, c.wt v = true → (c.encD v).length = c.sizeD v
  sizeS_al : ∀ v, c.wt v = true → 8 ∣ c.sizeS v
  sizeD_al : ∀ v, c.wt v = true → 8 ∣ c.sizeD v
  decS_encS : ∀ v r, c.wt v = true → c.decS (c.encS v ++ r) = .ok (c.partialOf v, r)
  decD_encD : ∀ v r, c.wt v = true → c.decD (c.partialOf v) (c.encD v ++ r) = .ok (v, r)
  decS_sound : ∀ bs p r, c.decS bs = .ok (p, r) → ∃ u, bs = u ++ r ∧ u.length = c.sizeS p ∧ c.pwt p = true
  decD_sound : ∀ p bs v r, c.pwt p = true → c.decD p bs = .ok (v, r) →
    ∃ u, bs = u ++ r ∧ u.length = c.sizeD v ∧ c.sizeS v = c.sizeS p ∧ c.wt v = true ∧ c.partialOf v = p

def EnvLaws (env : Env) : Prop := ∀ k, CodecLaws (env k)

theorem CodecLaws.none : CodecLaws Codec.none where
  sizeS_len := by intro v h; cases h
  sizeD_len := by intro v h; cases h
  sizeS_al := by intro v h; cases h
  sizeD_al := by intro v h; cases h
  decS_encS := by intro v r h; cases h
  decD_encD := by intro v r h; cases h
  decS_sound := by intro bs p r h; cases h
  decD_sound := by intro p bs v r h; cases h

theorem simple_wf : ∀ d : Desc, d.simple = true → d.wf = true := by
  intro d
  induction d with
  | pair a b iha ihb =>
    intro h
    simp only [Desc.simple, Bool.and_eq_true] at h
    simp only [Desc.wf, Bool.and_eq_true]
    exact ⟨iha h.1, ihb h.2⟩
  | _ => intro h; first | rfl | (simp [Desc.simple] at h)

theorem wt_dflt (env : Env) : ∀ d : Desc, d.simple = true → wt env d (dflt d) = true := by
  intro d
  induction d with
  | pair a b iha ihb =>
    intro h
    simp only [Desc.simple, Bool.and_eq_true] at h
    simp only [dflt, wt, Bool.and_eq_true]
    exact ⟨iha h.1, ihb h.2⟩
  | uint n => intro _; simp only [dflt, wt, decide_eq_true_eq]; exact Nat.pow_pos (by decide)
  | bytesN n => intro _; simp [dflt, wt, length_zeros]
  | vecBytes => intro _; simp [dflt, wt]
  | unit => intro _; simp [dflt, wt]
  | _ => intro h; simp [Desc.simple] at h

/-- for `simple` types the static part does not look at the value -/
theorem sizeS_simple (env : Env) : ∀ d : Desc, d.simple = true → ∀ v w, wt env d v = true → wt env d w = true →
    sizeS env d v = sizeS env d w := by
  intro d
  induction d with
  | pair a b iha ihb =>
    intro h v w hv hw
    simp only [Desc.simple, Bool.and_eq_true] at h
    cases v <;> simp [wt] at hv
    cases w <;> simp [wt] at hw
    simp only [sizeS]
    rw [iha h.1 _ _ hv.1 hw.1, ihb h.2 _ _ hv.2 hw.2]
  | uint n => intro _ v w _ _; simp [sizeS]
  | bytesN n => intro _ v w _ _; simp [sizeS]
  | vecBytes => intro _ v w _ _; simp [sizeS]
  | unit => intro _ v w _ _; simp [sizeS]
  | _ => intro h; simp [Desc.simple] at h

/-! ### sizes are word aligned -/

theorem size_aligned_aux (env : Env) (L : EnvLaws env) : ∀ d : Desc,
    (d.wf = true ∨ d.wfAlts = true) → ∀ v, wt env d v = true → 8 ∣ sizeS env d v ∧ 8 ∣ sizeD env d v := by
  intro d
  induction d with
  | uint n => intro _ v hv; cases v <;> simp [wt] at hv; simp [sizeS, sizeD, alignedSize_dvd]
  | bytesN n => intro _ v hv; cases v <;> simp [wt] at hv; simp [sizeS, sizeD, alignedSize_dvd]
  | vecBytes => intro _ v hv; cases v <;> simp [wt] at hv; simp [sizeS, sizeD, alignedSize_dvd]
  | vec d _ => intro _ v _; simp [sizeS, sizeD, alignedSize_dvd]
  | unit => intro _ v hv; cases v <;> simp [wt] at hv; simp [sizeS, sizeD]
  | pair a b iha ihb =>
    intro hw v hv
    have hw : a.wf = true ∧ b.wf = true := by
      rcases hw with hw | hw <;> simp [Desc.wf, Desc.wfAlts] at hw; exact hw
    cases v <;> simp [wt] at hv
    rename_i va vb
    obtain ⟨h1, h2⟩ := iha (Or.inl hw.1) va hv.1
    obtain ⟨h3, h4⟩ := ihb (Or.inl hw.2) vb hv.2
    simp only [sizeS, sizeD]
    exact ⟨Nat.dvd_add h1 h3, Nat.dvd_add h2 h4⟩
  | pre p d ih =>
    intro hw v hv
    have hw : d.wf = true := by
      rcases hw with hw | hw <;> simp [Desc.wf, Desc.wfAlts] at hw; exact hw.2
    simp only [wt] at hv
    obtain ⟨h1, h2⟩ := ih (Or.inl hw) v hv
    simp only [sizeS, sizeD]
    exact ⟨by omega, h2⟩
  | enum a ih =>
    intro hw v hv
    have hw : a.wfAlts = true := by
      rcases hw with hw | hw <;> simp [Desc.wf, Desc.wfAlts] at hw; exact hw
    simp only [wt] at hv
    obtain ⟨h1, h2⟩ := ih (Or.inr hw) v hv
    simp only [sizeS, sizeD]
    exact ⟨by omega, h2⟩
  | alt k d rest ihd ihr =>
    intro hw v hv
    have hw : d.wf = true ∧ rest.wfAlts = true := by
      rcases hw with hw | hw <;> simp [Desc.wf, Desc.wfAlts] at hw; exact ⟨hw.1.2, hw.2⟩
    cases v <;> simp [wt] at hv
    · simp only [sizeS, sizeD]; exact ihd (Or.inl hw.1) _ hv
    · simp only [sizeS, sizeD]; exact ihr (Or.inr hw.2) _ hv
  | void => intro _ v hv; cases v <;> simp [wt] at hv
  | skipped => intro _ v _; simp [sizeS, sizeD]
  | empty d ih =>
    intro hw v hv
    have hw : d.simple = true := by
      rcases hw with hw | hw <;> simp [Desc.wf, Desc.wfAlts] at hw; exact hw
    simp only [sizeS, sizeD]
    exact ⟨(ih (Or.inl (simple_wf d hw)) _ (wt_dflt env d hw)).1, by simp⟩
  | custom k =>
    intro _ v hv
    simp only [wt] at hv
    simp only [sizeS, sizeD]
    exact ⟨(L k).sizeS_al v hv, (L k).sizeD_al v hv⟩


theorem size_aligned (env : Env) (L : EnvLaws env) (d : Desc) (hd : d.wf = true) (v : Val) (hv : wt env d v = true) :
    8 ∣ sizeS env d v ∧ 8 ∣ sizeD env d v := size_aligned_aux env L d (Or.inl hd) v hv

/-! ### list helpers -/

theorem Val.elems_ofList (l : List Val) : (Val.ofList l).elems = l := by
  induction l with
  | nil => rfl
  | cons a l ih => simp [Val.ofList, Val.elems, ih]

theorem Val.isList_ofList (l : List Val) : (Val.ofList l).isList = true := by
  induction l with
  | nil => rfl
  | cons a l ih => simp [Val.ofList, Val.isList, ih]

theorem Val.ofList_elems : ∀ v : Val, v.isList = true → Val.ofList v.elems = v := by
  intro v
  induction v with
  | pair a b _ ihb => intro h; simp only [Val.isList] at h; simp [Val.elems, Val.ofList, ihb h]
  | unit => intro _; rfl
  | _ => intro h; simp [Val.isList] at h

theorem dvd_sum_map {α : Type} (l : List α) (f : α → Nat) (h : ∀ x ∈ l, 8 ∣ f x) : 8 ∣ (l.map f).sum := by
  induction l with
  | nil => simp
  | cons a l ih =>
    simp only [List.map_cons, List.sum_cons]
    exact Nat.dvd_add (h a (by simp)) (ih (fun x hx => h x (by simp [hx])))

theorem length_flatMap_eq {α : Type} (l : List α) (g : α → Bytes) (f : α → Nat) (h : ∀ x ∈ l, (g x).length = f x) :
    (l.flatMap g).length = (l.map f).sum := by
  induction l with
  | nil => simp
  | cons a l ih =>
    simp only [List.flatMap_cons, List.length_append, List.map_cons, List.sum_cons]
    rw [h a (by simp), ih (fun x hx => h x (by simp [hx]))]

/-! ### the encoding has the length the value reports -/

theorem encU64_length (x : Nat) : (encU64 x).length = 8 := by
  simp [encU64, encUint_length, alignedSize_8]

/-- `wf` side: lengths are the reported sizes; `wfAlts` side (a variant list): the static part also
carries the 8-byte discriminant that `sizeS (enum _)` accounts for -/
theorem enc_length_aux (env : Env) (L : EnvLaws env) : ∀ d : Desc,
    (d.wf = true → ∀ v, wt env d v = true →
      (encS env d v).length = sizeS env d v ∧ (encD env d v).length = sizeD env d v) ∧
    (d.wfAlts = true → ∀ v, wt env d v = true →
      (encS env d v).length = 8 + sizeS env d v ∧ (encD env d v).length = sizeD env d v) := by
  intro d
  induction d with
  | uint n =>
    refine ⟨fun _ v hv => ?_, fun h => by simp [Desc.wfAlts] at h⟩
    cases v <;> simp [wt] at hv; simp [encS, encD, sizeS, sizeD, encUint_length]
  | bytesN n =>
    refine ⟨fun _ v hv => ?_, fun h => by simp [Desc.wfAlts] at h⟩
    cases v <;> simp [wt] at hv
    simp [encS, encD, sizeS, sizeD, length_zeros, alignedSize, hv]
  | vecBytes =>
    refine ⟨fun _ v hv => ?_, fun h => by simp [Desc.wfAlts] at h⟩
    cases v <;> simp [wt] at hv
    simp [encS, encD, sizeS, sizeD, length_zeros, alignedSize, encU64_length]
  | vec d ih =>
    refine ⟨fun hw v hv => ?_, fun h => by simp [Desc.wfAlts] at h⟩
    simp only [Desc.wf] at hw
    simp only [wt, Bool.and_eq_true, List.all_eq_true, decide_eq_true_eq] at hv
    obtain ⟨⟨_, hall⟩, _⟩ := hv
    refine ⟨by simp [encS, sizeS, encU64_length], ?_⟩
    simp only [encD, sizeD]
    have h1 := length_flatMap_eq v.elems (fun e => encS env d e ++ encD env d e) (fun e => sizeS env d e + sizeD env d e)
      (fun e he => by
        obtain ⟨a, b⟩ := ih.1 hw e (hall e he)
        simp [a, b])
    rw [h1]
    have h2 := dvd_sum_map v.elems (fun e => sizeS env d e + sizeD env d e) (fun e he => by
      obtain ⟨a, b⟩ := size_aligned env L d hw e (hall e he)
      exact Nat.dvd_add a b)
    exact (alignedSize_of_dvd _ h2).symm
  | unit =>
    refine ⟨fun _ v hv => ?_, fun h => by simp [Desc.wfAlts] at h⟩
    cases v <;> simp [wt] at hv; simp [encS, encD, sizeS, sizeD]
  | pair a b iha ihb =>
    refine ⟨fun hw v hv => ?_, fun h => by simp [Desc.wfAlts] at h⟩
    simp only [Desc.wf, Bool.and_eq_true] at hw
    cases v <;> simp [wt] at hv
    rename_i va vb
    obtain ⟨h1, h2⟩ := iha.1 hw.1 va hv.1
    obtain ⟨h3, h4⟩ := ihb.1 hw.2 vb hv.2
    simp [encS, encD, sizeS, sizeD, h1, h2, h3, h4]
  | pre p d ih =>
    refine ⟨fun hw v hv => ?_, fun h => by simp [Desc.wfAlts] at h⟩
    simp only [Desc.wf, Bool.and_eq_true] at hw
    simp only [wt] at hv
    obtain ⟨h1, h2⟩ := ih.1 hw.2 v hv
    simp [encS, encD, sizeS, sizeD, h1, h2, encU64_length]
  | enum a ih =>
    refine ⟨fun hw v hv => ?_, fun h => by simp [Desc.wfAlts] at h⟩
    simp only [Desc.wf] at hw
    simp only [wt] at hv
    obtain ⟨h1, h2⟩ := ih.2 hw v hv
    simp [encS, encD, sizeS, sizeD, h1, h2]
  | alt k d rest ihd ihr =>
    refine ⟨fun h => by simp [Desc.wf] at h, fun hw v hv => ?_⟩
    simp only [Desc.wfAlts, Bool.and_eq_true] at hw
    cases v <;> simp [wt] at hv
    · obtain ⟨h1, h2⟩ := ihd.1 hw.1.2 _ hv
      simp [encS, encD, sizeS, sizeD, h1, h2, encU64_length]
    · obtain ⟨h1, h2⟩ := ihr.2 hw.2 _ hv
      simp [encS, encD, sizeS, sizeD, h1, h2]
  | void => exact ⟨fun h => by simp [Desc.wf] at h, fun _ v hv => by cases v <;> simp [wt] at hv⟩
  | skipped =>
    refine ⟨fun _ v _ => ?_, fun h => by simp [Desc.wfAlts] at h⟩
    simp [encS, encD, sizeS, sizeD]
  | empty d ih =>
    refine ⟨fun hw v _ => ?_, fun h => by simp [Desc.wfAlts] at h⟩
    simp only [Desc.wf] at hw
    simp only [encS, encD, sizeS, sizeD]
    exact ⟨(ih.1 (simple_wf d hw) _ (wt_dflt env d hw)).1, by simp⟩
  | custom k =>
    refine ⟨fun _ v hv => ?_, fun h => by simp [Desc.wfAlts] at h⟩
    simp only [wt] at hv
    simp only [encS, encD, sizeS, sizeD]
    exact ⟨(L k).sizeS_len v hv, (L k).sizeD_len v hv⟩

theorem enc_length (env : Env) (L : EnvLaws env) (d : Desc) (hd : d.wf = true) (v : Val) (hv : wt env d v = true) :
    (encode env d v).length = size env d v := by
  obtain ⟨h1, h2⟩ := (enc_length_aux env L d).1 hd v hv
  simp [encode, size, h1, h2]


/-! ### decoding the static part of an encoding -/

theorem decU64_encU64 (x : Nat) (r : Bytes) (h : x < 2 ^ 64) : decU64 (encU64 x ++ r) = .ok (x, r) :=
  decUint_encUint 8 x r (by simpa using h)

theorem limit_lt : VEC_DECODE_LIMIT < 2 ^ 64 := by decide

theorem simple_nodup : ∀ d : Desc, d.simple = true → d.nodup = true := by
  intro d
  induction d with
  | pair a b iha ihb =>
    intro h
    simp only [Desc.simple, Bool.and_eq_true] at h
    simp only [Desc.nodup, Bool.and_eq_true]
    exact ⟨iha h.1, ihb h.2⟩
  | _ => intro h; first | rfl | (simp [Desc.simple] at h)

theorem decS_encS_aux (env : Env) (L : EnvLaws env) : ∀ d : Desc,
    (d.wf = true → d.nodup = true → ∀ v r, wt env d v = true →
      decS env d (encS env d v ++ r) = .ok (partialOf env d v, r)) ∧
    (d.wfAlts = true → d.nodup = true → ∀ v, wt env d v = true →
      ∃ k body, k ∈ d.discs ∧ k < 2 ^ 64 ∧ encS env d v = encU64 k ++ body ∧
        ∀ r, decAlt env d k (body ++ r) = .ok (partialOf env d v, r)) := by
  intro d
  induction d with
  | uint n =>
    refine ⟨fun _ _ v r hv => ?_, fun h => by simp [Desc.wfAlts] at h⟩
    cases v <;> simp [wt] at hv
    simp [decS, encS, partialOf, decUint_encUint _ _ _ hv]
  | bytesN n =>
    refine ⟨fun _ _ v r hv => ?_, fun h => by simp [Desc.wfAlts] at h⟩
    cases v <;> simp [wt] at hv
    rename_i bs
    subst hv
    have h1 : read bs.length (bs ++ (zeros (alignmentBytes bs.length) ++ r)) = .ok (bs, zeros (alignmentBytes bs.length) ++ r) :=
      read_append _ _
    have h2 : skip (alignmentBytes bs.length) (zeros (alignmentBytes bs.length) ++ r) = .ok r := by
      have := skip_append (zeros (alignmentBytes bs.length)) r
      rwa [length_zeros] at this
    simp only [decS, encS, partialOf, List.append_assoc, h1, h2]
  | vecBytes =>
    refine ⟨fun _ _ v r hv => ?_, fun h => by simp [Desc.wfAlts] at h⟩
    cases v <;> simp [wt] at hv
    rename_i bs
    have hlt : bs.length < 2 ^ 64 := by have := limit_lt; omega
    simp only [decS, encS, partialOf, decCap]
    rw [decU64_encU64 _ r hlt]
    simp [Nat.not_lt.mpr hv]
  | vec d _ =>
    refine ⟨fun _ _ v r hv => ?_, fun h => by simp [Desc.wfAlts] at h⟩
    simp only [wt, Bool.and_eq_true, decide_eq_true_eq] at hv
    have hlt : v.elems.length < 2 ^ 64 := by have := limit_lt; omega
    simp only [decS, encS, partialOf, decCap]
    rw [decU64_encU64 _ r hlt]
    simp [Nat.not_lt.mpr hv.2]
  | unit =>
    refine ⟨fun _ _ v r hv => ?_, fun h => by simp [Desc.wfAlts] at h⟩
    cases v <;> simp [wt] at hv; simp [decS, encS, partialOf]
  | pair a b iha ihb =>
    refine ⟨fun hw hn v r hv => ?_, fun h => by simp [Desc.wfAlts] at h⟩
    simp only [Desc.wf, Bool.and_eq_true] at hw
    simp only [Desc.nodup, Bool.and_eq_true] at hn
    cases v <;> simp [wt] at hv
    rename_i va vb
    simp only [decS, encS, partialOf, List.append_assoc]
    rw [iha.1 hw.1 hn.1 va _ hv.1]
    simp only
    rw [ihb.1 hw.2 hn.2 vb _ hv.2]
  | pre p d ih =>
    refine ⟨fun hw hn v r hv => ?_, fun h => by simp [Desc.wfAlts] at h⟩
    simp only [Desc.wf, Bool.and_eq_true, decide_eq_true_eq] at hw
    simp only [Desc.nodup] at hn
    simp only [wt] at hv
    simp only [decS, encS, partialOf, List.append_assoc]
    rw [decU64_encU64 _ _ hw.1]
    simp only [if_true]
    exact ih.1 hw.2 hn v r hv
  | enum a ih =>
    refine ⟨fun hw hn v r hv => ?_, fun h => by simp [Desc.wfAlts] at h⟩
    simp only [Desc.wf] at hw
    simp only [Desc.nodup] at hn
    simp only [wt] at hv
    obtain ⟨k, body, _, hk, he, hd⟩ := ih.2 hw hn v hv
    simp only [decS, encS, partialOf, he, List.append_assoc]
    rw [decU64_encU64 _ _ hk]
    exact hd r
  | alt k d rest ihd ihr =>
    refine ⟨fun h => by simp [Desc.wf] at h, fun hw hn v hv => ?_⟩
    simp only [Desc.wfAlts, Bool.and_eq_true, decide_eq_true_eq] at hw
    simp only [Desc.nodup, Bool.and_eq_true, Bool.not_eq_true', List.contains_eq_mem, decide_eq_false_iff_not] at hn
    cases v <;> simp [wt] at hv
    · rename_i x
      refine ⟨k, encS env d x, by simp [Desc.discs], hw.1.1, by simp [encS], fun r => ?_⟩
      simp only [decAlt, if_true, partialOf]
      rw [ihd.1 hw.1.2 hn.1.2 x r hv]
    · rename_i x
      obtain ⟨k', body, hmem, hk', he, hd⟩ := ihr.2 hw.2 hn.2 x hv
      refine ⟨k', body, by simp [Desc.discs, hmem], hk', by simp [encS, he], fun r => ?_⟩
      have hne : k' ≠ k := fun e => hn.1.1 (e ▸ hmem)
      simp only [decAlt, if_neg hne, partialOf]
      rw [hd r]
  | void => exact ⟨fun h => by simp [Desc.wf] at h, fun _ _ v hv => by cases v <;> simp [wt] at hv⟩
  | skipped =>
    refine ⟨fun _ _ v r _ => ?_, fun h => by simp [Desc.wfAlts] at h⟩
    simp [decS, encS, partialOf]
  | empty d ih =>
    refine ⟨fun hw _ v r _ => ?_, fun h => by simp [Desc.wfAlts] at h⟩
    simp only [Desc.wf] at hw
    simp only [decS, encS, partialOf]
    rw [ih.1 (simple_wf d hw) (simple_nodup d hw) _ r (wt_dflt env d hw)]
  | custom k =>
    refine ⟨fun _ _ v r hv => ?_, fun h => by simp [Desc.wfAlts] at h⟩
    simp only [wt] at hv
    simp only [decS, encS, partialOf]
    exact (L k).decS_encS v r hv


theorem decS_encS (env : Env) (L : EnvLaws env) (d : Desc) (hd : d.wf = true) (hn : d.nodup = true)
    (v : Val) (r : Bytes) (hv : wt env d v = true) :
    decS env d (encS env d v ++ r) = .ok (partialOf env d v, r) := (decS_encS_aux env L d).1 hd hn v r hv

/-! ### decoding the dynamic part of an encoding -/

theorem decElems_enc (f : Bytes → R (Val × Bytes)) (g : Val → Bytes) (h : Val → Val) (l : List Val) (r : Bytes)
    (hf : ∀ e ∈ l, ∀ r, f (g e ++ r) = .ok (h e, r)) :
    decElems f l.length (l.flatMap g ++ r) = .ok (l.map h, r) := by
  induction l with
  | nil => simp [decElems]
  | cons a l ih =>
    simp only [List.length_cons, decElems, List.flatMap_cons, List.append_assoc]
    rw [hf a (by simp)]
    simp only
    rw [ih (fun e he => hf e (by simp [he]))]
    simp

/-- distinct discriminants are only needed below vectors (where whole elements are decoded) -/
def Desc.vecNodup : Desc → Bool
  | .vec d => d.nodup
  | .pair a b => a.vecNodup && b.vecNodup
  | .pre _ d => d.vecNodup
  | .enum a => a.vecNodup
  | .alt _ d rest => d.vecNodup && rest.vecNodup
  | _ => true

theorem nodup_vecNodup : ∀ d : Desc, d.nodup = true → d.vecNodup = true := by
  intro d
  induction d with
  | vec d _ => intro h; simpa [Desc.nodup, Desc.vecNodup] using h
  | pair a b iha ihb =>
    intro h; simp only [Desc.nodup, Bool.and_eq_true] at h
    simp [Desc.vecNodup, iha h.1, ihb h.2]
  | pre p d ih => intro h; simp only [Desc.nodup] at h; simp [Desc.vecNodup, ih h]
  | enum a ih => intro h; simp only [Desc.nodup] at h; simp [Desc.vecNodup, ih h]
  | alt k d rest ihd ihr =>
    intro h; simp only [Desc.nodup, Bool.and_eq_true] at h
    simp [Desc.vecNodup, ihd h.1.2, ihr h.2]
  | _ => intro _; rfl

theorem decD_encD_aux (env : Env) (L : EnvLaws env) : ∀ d : Desc,
    (d.wf = true ∨ d.wfAlts = true) → d.vecNodup = true → ∀ v r, wt env d v = true →
      decD env d (partialOf env d v) (encD env d v ++ r) = .ok (erase env d v, r) := by
  intro d
  induction d with
  | uint n => intro _ _ v r hv; cases v <;> simp [wt] at hv; simp [decD, encD, partialOf, erase]
  | bytesN n => intro _ _ v r hv; cases v <;> simp [wt] at hv; simp [decD, encD, partialOf, erase]
  | vecBytes =>
    intro _ _ v r hv
    cases v <;> simp [wt] at hv
    rename_i bs
    have h1 : read bs.length (bs ++ (zeros (alignmentBytes bs.length) ++ r)) = .ok (bs, zeros (alignmentBytes bs.length) ++ r) :=
      read_append _ _
    have h2 : skip (alignmentBytes bs.length) (zeros (alignmentBytes bs.length) ++ r) = .ok r := by
      have := skip_append (zeros (alignmentBytes bs.length)) r
      rwa [length_zeros] at this
    simp only [decD, encD, partialOf, erase, List.append_assoc, h1, h2]
  | vec d ih =>
    intro hw hn v r hv
    have hw : d.wf = true := by
      rcases hw with hw | hw <;> simp [Desc.wf, Desc.wfAlts] at hw; exact hw
    simp only [Desc.vecNodup] at hn
    simp only [wt, Bool.and_eq_true, List.all_eq_true, decide_eq_true_eq] at hv
    obtain ⟨⟨_, hall⟩, _⟩ := hv
    simp only [decD, encD, partialOf, erase]
    rw [decElems_enc _ (fun e => encS env d e ++ encD env d e) (fun e => erase env d e) v.elems r]
    intro e he r'
    simp only [List.append_assoc]
    rw [decS_encS env L d hw hn e _ (hall e he)]
    exact ih (Or.inl hw) (nodup_vecNodup d hn) e r' (hall e he)
  | unit => intro _ _ v r hv; cases v <;> simp [wt] at hv; simp [decD, encD, partialOf, erase]
  | pair a b iha ihb =>
    intro hw hn v r hv
    have hw : a.wf = true ∧ b.wf = true := by
      rcases hw with hw | hw <;> simp [Desc.wf, Desc.wfAlts] at hw; exact hw
    simp only [Desc.vecNodup, Bool.and_eq_true] at hn
    cases v <;> simp [wt] at hv
    rename_i va vb
    simp only [decD, encD, partialOf, erase, List.append_assoc]
    rw [iha (Or.inl hw.1) hn.1 va _ hv.1]
    simp only
    rw [ihb (Or.inl hw.2) hn.2 vb _ hv.2]
  | pre p d ih =>
    intro hw hn v r hv
    have hw : d.wf = true := by
      rcases hw with hw | hw <;> simp [Desc.wf, Desc.wfAlts] at hw; exact hw.2
    simp only [Desc.vecNodup] at hn
    simp only [wt] at hv
    simp only [decD, encD, partialOf, erase]
    exact ih (Or.inl hw) hn v r hv
  | enum a ih =>
    intro hw hn v r hv
    have hw : a.wfAlts = true := by
      rcases hw with hw | hw <;> simp [Desc.wf, Desc.wfAlts] at hw; exact hw
    simp only [Desc.vecNodup] at hn
    simp only [wt] at hv
    simp only [decD, encD, partialOf, erase]
    exact ih (Or.inr hw) hn v r hv
  | alt k d rest ihd ihr =>
    intro hw hn v r hv
    have hw : d.wf = true ∧ rest.wfAlts = true := by
      rcases hw with hw | hw <;> simp [Desc.wf, Desc.wfAlts] at hw; exact ⟨hw.1.2, hw.2⟩
    simp only [Desc.vecNodup, Bool.and_eq_true] at hn
    cases v <;> simp [wt] at hv
    · simp only [decD, encD, partialOf, erase]
      rw [ihd (Or.inl hw.1) hn.1 _ r hv]
    · simp only [decD, encD, partialOf, erase]
      rw [ihr (Or.inr hw.2) hn.2 _ r hv]
  | void => intro _ _ v r hv; cases v <;> simp [wt] at hv
  | skipped => intro _ _ v r _; simp [decD, encD, erase]
  | empty d _ => intro _ _ v r hv; cases v <;> simp [wt] at hv; simp [decD, encD, erase]
  | custom k =>
    intro _ _ v r hv
    simp only [wt] at hv
    simp only [decD, encD, partialOf, erase]
    exact (L k).decD_encD v r hv

/-- **round trip**: decoding an encoding followed by anything returns the value (skipped fields
defaulted) and exactly the rest -/
theorem dec_enc (env : Env) (L : EnvLaws env) (d : Desc) (hd : d.wf = true) (hn : d.nodup = true)
    (v : Val) (r : Bytes) (hv : wt env d v = true) :
    decode env d (encode env d v ++ r) = .ok (erase env d v, r) := by
  simp only [decode, encode, List.append_assoc]
  rw [decS_encS env L d hd hn v _ hv]
  exact decD_encD_aux env L d (Or.inl hd) (nodup_vecNodup d hn) v r hv


/-! ### what a successful decode consumed (arbitrary bytes) -/

theorem decU64_sound {bs r : Bytes} {x : Nat} (h : decU64 bs = .ok (x, r)) : ∃ u, bs = u ++ r ∧ u.length = 8 ∧ x < 2 ^ 64 := by
  obtain ⟨u, h1, h2, h3⟩ := decUint_sound h
  exact ⟨u, h1, by rw [h2, alignedSize_8], by simpa using h3⟩

theorem decCap_sound {bs r : Bytes} {p : Val} (h : decCap bs = .ok (p, r)) :
    ∃ u n, bs = u ++ r ∧ u.length = 8 ∧ p = .cap n ∧ n ≤ VEC_DECODE_LIMIT := by
  unfold decCap at h
  split at h
  · cases h
  · rename_i cap r1 h1
    split at h
    · cases h
    · rename_i hle
      simp only [Except.ok.injEq, Prod.mk.injEq] at h
      obtain ⟨rfl, rfl⟩ := h
      obtain ⟨u, hu, hl, _⟩ := decU64_sound h1
      exact ⟨u, cap, hu, hl, rfl, Nat.le_of_not_lt hle⟩

/-- the static size of a `simple` type is the same for every value or partial value of it -/
theorem sizeS_simple' (env : Env) : ∀ d : Desc, d.simple = true → ∀ v w,
    (wt env d v = true ∨ pwt env d v = true) → (wt env d w = true ∨ pwt env d w = true) →
    sizeS env d v = sizeS env d w := by
  intro d
  induction d with
  | pair a b iha ihb =>
    intro h v w hv hw
    simp only [Desc.simple, Bool.and_eq_true] at h
    cases v <;> simp [wt, pwt] at hv
    cases w <;> simp [wt, pwt] at hw
    simp only [sizeS]
    rw [iha h.1 _ _ (hv.imp And.left And.left) (hw.imp And.left And.left),
        ihb h.2 _ _ (hv.imp And.right And.right) (hw.imp And.right And.right)]
  | uint n => intro _ v w _ _; simp [sizeS]
  | bytesN n => intro _ v w _ _; simp [sizeS]
  | vecBytes => intro _ v w _ _; simp [sizeS]
  | unit => intro _ v w _ _; simp [sizeS]
  | _ => intro h; simp [Desc.simple] at h

theorem decS_sound_aux (env : Env) (L : EnvLaws env) : ∀ d : Desc,
    (d.wf = true → ∀ bs p r, decS env d bs = .ok (p, r) →
      ∃ u, bs = u ++ r ∧ u.length = sizeS env d p ∧ pwt env d p = true) ∧
    (d.wfAlts = true → ∀ w bs p r, decAlt env d w bs = .ok (p, r) →
      ∃ u, bs = u ++ r ∧ u.length = sizeS env d p ∧ pwt env d p = true) := by
  intro d
  induction d with
  | uint n =>
    refine ⟨fun _ bs p r h => ?_, fun h => by simp [Desc.wfAlts] at h⟩
    simp only [decS] at h
    split at h
    · cases h
    · rename_i x r1 h1
      simp only [Except.ok.injEq, Prod.mk.injEq] at h
      obtain ⟨rfl, rfl⟩ := h
      obtain ⟨u, hu, hl, hx⟩ := decUint_sound h1
      exact ⟨u, hu, by simp [sizeS, hl], by simp [pwt, hx]⟩
  | bytesN n =>
    refine ⟨fun _ bs p r h => ?_, fun h => by simp [Desc.wfAlts] at h⟩
    simp only [decS] at h
    split at h
    · cases h
    · rename_i x r1 h1
      split at h
      · cases h
      · rename_i r2 h2
        simp only [Except.ok.injEq, Prod.mk.injEq] at h
        obtain ⟨rfl, rfl⟩ := h
        obtain ⟨hx, hxl⟩ := read_sound h1
        obtain ⟨u, hu, hul⟩ := skip_sound h2
        exact ⟨x ++ u, by rw [hx, hu, List.append_assoc], by simp [sizeS, alignedSize, hxl, hul], by simp [pwt, hxl]⟩
  | vecBytes =>
    refine ⟨fun _ bs p r h => ?_, fun h => by simp [Desc.wfAlts] at h⟩
    simp only [decS] at h
    obtain ⟨u, n, hu, hl, rfl, hn⟩ := decCap_sound h
    exact ⟨u, hu, by simp [sizeS, hl], by simp [pwt, hn]⟩
  | vec d _ =>
    refine ⟨fun _ bs p r h => ?_, fun h => by simp [Desc.wfAlts] at h⟩
    simp only [decS] at h
    obtain ⟨u, n, hu, hl, rfl, hn⟩ := decCap_sound h
    exact ⟨u, hu, by simp [sizeS, hl], by simp [pwt, hn]⟩
  | unit =>
    refine ⟨fun _ bs p r h => ?_, fun h => by simp [Desc.wfAlts] at h⟩
    simp only [decS, Except.ok.injEq, Prod.mk.injEq] at h
    obtain ⟨rfl, rfl⟩ := h
    exact ⟨[], by simp, by simp [sizeS], by simp [pwt]⟩
  | pair a b iha ihb =>
    refine ⟨fun hw bs p r h => ?_, fun h => by simp [Desc.wfAlts] at h⟩
    simp only [Desc.wf, Bool.and_eq_true] at hw
    simp only [decS] at h
    split at h
    · cases h
    · rename_i va r1 h1
      split at h
      · cases h
      · rename_i vb r2 h2
        simp only [Except.ok.injEq, Prod.mk.injEq] at h
        obtain ⟨rfl, rfl⟩ := h
        obtain ⟨u1, hu1, hl1, hp1⟩ := iha.1 hw.1 _ _ _ h1
        obtain ⟨u2, hu2, hl2, hp2⟩ := ihb.1 hw.2 _ _ _ h2
        exact ⟨u1 ++ u2, by rw [hu1, hu2, List.append_assoc], by simp [sizeS, hl1, hl2], by simp [pwt, hp1, hp2]⟩
  | pre p d ih =>
    refine ⟨fun hw bs q r h => ?_, fun h => by simp [Desc.wfAlts] at h⟩
    simp only [Desc.wf, Bool.and_eq_true] at hw
    simp only [decS] at h
    split at h
    · cases h
    · rename_i p' r1 h1
      split at h
      · obtain ⟨u1, hu1, hl1, _⟩ := decU64_sound h1
        obtain ⟨u2, hu2, hl2, hp2⟩ := ih.1 hw.2 _ _ _ h
        exact ⟨u1 ++ u2, by rw [hu1, hu2, List.append_assoc], by simp [sizeS, hl1, hl2], by simp [pwt, hp2]⟩
      · cases h
  | enum a ih =>
    refine ⟨fun hw bs q r h => ?_, fun h => by simp [Desc.wfAlts] at h⟩
    simp only [Desc.wf] at hw
    simp only [decS] at h
    split at h
    · cases h
    · rename_i w r1 h1
      obtain ⟨u1, hu1, hl1, _⟩ := decU64_sound h1
      obtain ⟨u2, hu2, hl2, hp2⟩ := ih.2 hw _ _ _ _ h
      exact ⟨u1 ++ u2, by rw [hu1, hu2, List.append_assoc], by simp [sizeS, hl1, hl2], by simp [pwt, hp2]⟩
  | alt k d rest ihd ihr =>
    refine ⟨fun h => by simp [Desc.wf] at h, fun hw w bs q r h => ?_⟩
    simp only [Desc.wfAlts, Bool.and_eq_true] at hw
    simp only [decAlt] at h
    split at h
    · split at h
      · cases h
      · rename_i v r1 h1
        simp only [Except.ok.injEq, Prod.mk.injEq] at h
        obtain ⟨rfl, rfl⟩ := h
        obtain ⟨u, hu, hl, hp⟩ := ihd.1 hw.1.2 _ _ _ h1
        exact ⟨u, hu, by simp [sizeS, hl], by simp [pwt, hp]⟩
    · split at h
      · cases h
      · rename_i v r1 h1
        simp only [Except.ok.injEq, Prod.mk.injEq] at h
        obtain ⟨rfl, rfl⟩ := h
        obtain ⟨u, hu, hl, hp⟩ := ihr.2 hw.2 _ _ _ _ h1
        exact ⟨u, hu, by simp [sizeS, hl], by simp [pwt, hp]⟩
  | void =>
    exact ⟨fun h => by simp [Desc.wf] at h, fun _ w bs q r h => by simp [decAlt] at h⟩
  | skipped =>
    refine ⟨fun _ bs p r h => ?_, fun h => by simp [Desc.wfAlts] at h⟩
    simp only [decS, Except.ok.injEq, Prod.mk.injEq] at h
    obtain ⟨rfl, rfl⟩ := h
    exact ⟨[], by simp, by simp [sizeS], by simp [pwt]⟩
  | empty d ih =>
    refine ⟨fun hw bs p r h => ?_, fun h => by simp [Desc.wfAlts] at h⟩
    simp only [Desc.wf] at hw
    simp only [decS] at h
    split at h
    · cases h
    · rename_i q r1 h1
      simp only [Except.ok.injEq, Prod.mk.injEq] at h
      obtain ⟨rfl, rfl⟩ := h
      obtain ⟨u, hu, hl, hp⟩ := ih.1 (simple_wf d hw) _ _ _ h1
      refine ⟨u, hu, ?_, by simp [pwt]⟩
      simp only [sizeS]
      rw [hl]
      exact sizeS_simple' env d hw _ _ (Or.inr hp) (Or.inl (wt_dflt env d hw))
  | custom k =>
    refine ⟨fun _ bs p r h => ?_, fun h => by simp [Desc.wfAlts] at h⟩
    simp only [decS] at h
    obtain ⟨u, hu, hl, hp⟩ := (L k).decS_sound _ _ _ h
    exact ⟨u, hu, by simp [sizeS, hl], by simp [pwt, hp]⟩

theorem decS_sound (env : Env) (L : EnvLaws env) (d : Desc) (hd : d.wf = true) {bs r : Bytes} {p : Val}
    (h : decS env d bs = .ok (p, r)) : ∃ u, bs = u ++ r ∧ u.length = sizeS env d p ∧ pwt env d p = true :=
  (decS_sound_aux env L d).1 hd bs p r h


theorem decElems_sound (f : Bytes → R (Val × Bytes)) (sz : Val → Nat) (Q : Val → Prop)
    (hf : ∀ bs a r, f bs = .ok (a, r) → ∃ u, bs = u ++ r ∧ u.length = sz a ∧ Q a) :
    ∀ n bs l r, decElems f n bs = .ok (l, r) →
      ∃ u, bs = u ++ r ∧ u.length = (l.map sz).sum ∧ l.length = n ∧ ∀ a ∈ l, Q a := by
  intro n
  induction n with
  | zero =>
    intro bs l r h
    simp only [decElems, Except.ok.injEq, Prod.mk.injEq] at h
    obtain ⟨rfl, rfl⟩ := h
    exact ⟨[], by simp, by simp, rfl, by simp⟩
  | succ n ih =>
    intro bs l r h
    simp only [decElems] at h
    split at h
    · cases h
    · rename_i a r1 h1
      split at h
      · cases h
      · rename_i as r2 h2
        simp only [Except.ok.injEq, Prod.mk.injEq] at h
        obtain ⟨rfl, rfl⟩ := h
        obtain ⟨u1, hu1, hl1, hq⟩ := hf _ _ _ h1
        obtain ⟨u2, hu2, hl2, hn, hall⟩ := ih _ _ _ h2
        refine ⟨u1 ++ u2, by rw [hu1, hu2, List.append_assoc], by simp [hl1, hl2], by simp [hn], ?_⟩
        intro x hx
        simp only [List.mem_cons] at hx
        rcases hx with rfl | hx
        · exact hq
        · exact hall x hx

theorem map_id_of_forall {l : List Val} {f : Val → Val} (h : ∀ a ∈ l, f a = a) : l.map f = l := by
  induction l with
  | nil => rfl
  | cons a l ih => simp [h a (by simp), ih (fun x hx => h x (by simp [hx]))]

theorem decD_sound_aux (env : Env) (L : EnvLaws env) : ∀ d : Desc,
    (d.wf = true ∨ d.wfAlts = true) → ∀ p bs v r, pwt env d p = true → decD env d p bs = .ok (v, r) →
      ∃ u, bs = u ++ r ∧ u.length = sizeD env d v ∧ sizeS env d v = sizeS env d p ∧
        wt env d v = true ∧ erase env d v = v ∧ partialOf env d v = p := by
  intro d
  induction d with
  | uint n =>
    intro _ p bs v r hp h
    cases p <;> simp [pwt] at hp
    simp only [decD, Except.ok.injEq, Prod.mk.injEq] at h
    obtain ⟨rfl, rfl⟩ := h
    exact ⟨[], by simp, by simp [sizeD], rfl, by simp [wt, hp], by simp [erase], by simp [partialOf]⟩
  | bytesN n =>
    intro _ p bs v r hp h
    cases p <;> simp [pwt] at hp
    simp only [decD, Except.ok.injEq, Prod.mk.injEq] at h
    obtain ⟨rfl, rfl⟩ := h
    exact ⟨[], by simp, by simp [sizeD], rfl, by simp [wt, hp], by simp [erase], by simp [partialOf]⟩
  | vecBytes =>
    intro _ p bs v r hp h
    cases p <;> simp [pwt] at hp
    simp only [decD] at h
    split at h
    · cases h
    · rename_i x r1 h1
      split at h
      · cases h
      · rename_i r2 h2
        simp only [Except.ok.injEq, Prod.mk.injEq] at h
        obtain ⟨rfl, rfl⟩ := h
        obtain ⟨hx, hxl⟩ := read_sound h1
        obtain ⟨u, hu, hul⟩ := skip_sound h2
        exact ⟨x ++ u, by rw [hx, hu, List.append_assoc], by simp [sizeD, alignedSize, hxl, hul], by simp [sizeS],
          by simp [wt, hxl, hp], by simp [erase], by simp [partialOf, hxl]⟩
  | vec d ih =>
    intro hw p bs v r hp h
    have hw : d.wf = true := by
      rcases hw with hw | hw <;> simp [Desc.wf, Desc.wfAlts] at hw; exact hw
    cases p <;> simp [pwt] at hp
    rename_i n
    simp only [decD] at h
    split at h
    · cases h
    · rename_i l r1 h1
      simp only [Except.ok.injEq, Prod.mk.injEq] at h
      obtain ⟨rfl, rfl⟩ := h
      obtain ⟨u, hu, hl, hn, hall⟩ := decElems_sound _ (fun e => sizeS env d e + sizeD env d e)
        (fun e => wt env d e = true ∧ erase env d e = e) (by
          intro bs a r hfa
          split at hfa
          · cases hfa
          · rename_i q r2 h2
            obtain ⟨u1, hu1, hl1, hq⟩ := decS_sound env L d hw h2
            obtain ⟨u2, hu2, hl2, hs, hwt, her, _⟩ := ih (Or.inl hw) _ _ _ _ hq hfa
            exact ⟨u1 ++ u2, by rw [hu1, hu2, List.append_assoc], by simp [hl1, hl2, hs], hwt, her⟩) _ _ _ _ h1
      have h2 := dvd_sum_map l (fun e => sizeS env d e + sizeD env d e) (fun e he => by
        obtain ⟨a, b⟩ := size_aligned env L d hw e (hall e he).1
        exact Nat.dvd_add a b)
      refine ⟨u, hu, ?_, by simp [sizeS], ?_, ?_, by simp [partialOf, Val.elems_ofList, hn]⟩
      · simp only [sizeD, Val.elems_ofList]
        rw [alignedSize_of_dvd _ h2, hl]
      · simp only [wt, Val.elems_ofList, Val.isList_ofList, Bool.and_eq_true, List.all_eq_true, decide_eq_true_eq, true_and]
        exact ⟨fun e he => (hall e he).1, by omega⟩
      · simp only [erase, Val.elems_ofList]
        rw [map_id_of_forall (fun a ha => (hall a ha).2)]
  | unit =>
    intro _ p bs v r hp h
    cases p <;> simp [pwt] at hp
    simp only [decD, Except.ok.injEq, Prod.mk.injEq] at h
    obtain ⟨rfl, rfl⟩ := h
    exact ⟨[], by simp, by simp [sizeD], rfl, by simp [wt], by simp [erase], by simp [partialOf]⟩
  | pair a b iha ihb =>
    intro hw p bs v r hp h
    have hw : a.wf = true ∧ b.wf = true := by
      rcases hw with hw | hw <;> simp [Desc.wf, Desc.wfAlts] at hw; exact hw
    cases p <;> simp [pwt] at hp
    simp only [decD] at h
    split at h
    · cases h
    · rename_i va r1 h1
      split at h
      · cases h
      · rename_i vb r2 h2
        simp only [Except.ok.injEq, Prod.mk.injEq] at h
        obtain ⟨rfl, rfl⟩ := h
        obtain ⟨u1, hu1, hl1, hs1, hw1, he1, hp1⟩ := iha (Or.inl hw.1) _ _ _ _ hp.1 h1
        obtain ⟨u2, hu2, hl2, hs2, hw2, he2, hp2⟩ := ihb (Or.inl hw.2) _ _ _ _ hp.2 h2
        exact ⟨u1 ++ u2, by rw [hu1, hu2, List.append_assoc], by simp [sizeD, hl1, hl2], by simp [sizeS, hs1, hs2],
          by simp [wt, hw1, hw2], by simp [erase, he1, he2], by simp [partialOf, hp1, hp2]⟩
  | pre p' d ih =>
    intro hw p bs v r hp h
    have hw : d.wf = true := by
      rcases hw with hw | hw <;> simp [Desc.wf, Desc.wfAlts] at hw; exact hw.2
    simp only [pwt] at hp
    simp only [decD] at h
    obtain ⟨u, hu, hl, hs, hwt, he, hpo⟩ := ih (Or.inl hw) _ _ _ _ hp h
    exact ⟨u, hu, by simp [sizeD, hl], by simp [sizeS, hs], by simp [wt, hwt], by simp [erase, he], by simp [partialOf, hpo]⟩
  | enum a ih =>
    intro hw p bs v r hp h
    have hw : a.wfAlts = true := by
      rcases hw with hw | hw <;> simp [Desc.wf, Desc.wfAlts] at hw; exact hw
    simp only [pwt] at hp
    simp only [decD] at h
    obtain ⟨u, hu, hl, hs, hwt, he, hpo⟩ := ih (Or.inr hw) _ _ _ _ hp h
    exact ⟨u, hu, by simp [sizeD, hl], by simp [sizeS, hs], by simp [wt, hwt], by simp [erase, he], by simp [partialOf, hpo]⟩
  | alt k d rest ihd ihr =>
    intro hw p bs v r hp h
    have hw : d.wf = true ∧ rest.wfAlts = true := by
      rcases hw with hw | hw <;> simp [Desc.wf, Desc.wfAlts] at hw; exact ⟨hw.1.2, hw.2⟩
    cases p <;> simp [pwt] at hp
    · simp only [decD] at h
      split at h
      · cases h
      · rename_i x r1 h1
        simp only [Except.ok.injEq, Prod.mk.injEq] at h
        obtain ⟨rfl, rfl⟩ := h
        obtain ⟨u, hu, hl, hs, hwt, he, hpo⟩ := ihd (Or.inl hw.1) _ _ _ _ hp h1
        exact ⟨u, hu, by simp [sizeD, hl], by simp [sizeS, hs], by simp [wt, hwt], by simp [erase, he], by simp [partialOf, hpo]⟩
    · simp only [decD] at h
      split at h
      · cases h
      · rename_i x r1 h1
        simp only [Except.ok.injEq, Prod.mk.injEq] at h
        obtain ⟨rfl, rfl⟩ := h
        obtain ⟨u, hu, hl, hs, hwt, he, hpo⟩ := ihr (Or.inr hw.2) _ _ _ _ hp h1
        exact ⟨u, hu, by simp [sizeD, hl], by simp [sizeS, hs], by simp [wt, hwt], by simp [erase, he], by simp [partialOf, hpo]⟩
  | void => intro _ p bs v r hp h; cases p <;> simp [pwt] at hp
  | skipped =>
    intro _ p bs v r hp h
    cases p <;> simp [pwt] at hp
    simp only [decD, Except.ok.injEq, Prod.mk.injEq] at h
    obtain ⟨rfl, rfl⟩ := h
    exact ⟨[], by simp, by simp [sizeD], by simp [sizeS], by simp [wt], by simp [erase], by simp [partialOf]⟩
  | empty d _ =>
    intro _ p bs v r hp h
    cases p <;> simp [pwt] at hp
    simp only [decD, Except.ok.injEq, Prod.mk.injEq] at h
    obtain ⟨rfl, rfl⟩ := h
    exact ⟨[], by simp, by simp [sizeD], by simp [sizeS], by simp [wt], by simp [erase], by simp [partialOf]⟩
  | custom k =>
    intro _ p bs v r hp h
    simp only [pwt] at hp
    simp only [decD] at h
    obtain ⟨u, hu, hl, hs, hwt, hpo⟩ := (L k).decD_sound _ _ _ _ hp h
    exact ⟨u, hu, by simp [sizeD, hl], by simp [sizeS, hs], by simp [wt, hwt], by simp [erase], by simp [partialOf, hpo]⟩

/-- **arbitrary bytes**: a successful decode consumed exactly `size` of the value it returned, and that
value is a well-typed value with its skipped fields at their defaults -/
theorem decode_sound (env : Env) (L : EnvLaws env) (d : Desc) (hd : d.wf = true) {bs rest : Bytes} {v : Val}
    (h : decode env d bs = .ok (v, rest)) :
    ∃ used, bs = used ++ rest ∧ used.length = size env d v ∧ wt env d v = true ∧ erase env d v = v := by
  simp only [decode] at h
  split at h
  · cases h
  · rename_i p r1 h1
    obtain ⟨u1, hu1, hl1, hp⟩ := decS_sound env L d hd h1
    obtain ⟨u2, hu2, hl2, hs, hwt, he, _⟩ := decD_sound_aux env L d (Or.inl hd) _ _ _ _ hp h
    exact ⟨u1 ++ u2, by rw [hu1, hu2, List.append_assoc], by simp [size, hl1, hl2, hs], hwt, he⟩

/-- **fixed point**: re-encoding a decoded value and decoding again gives the same value, consuming everything -/
theorem dec_fixpoint (env : Env) (L : EnvLaws env) (d : Desc) (hd : d.wf = true) (hn : d.nodup = true)
    {bs rest : Bytes} {v : Val} (h : decode env d bs = .ok (v, rest)) :
    decode env d (encode env d v) = .ok (v, []) := by
  obtain ⟨_, _, _, hwt, he⟩ := decode_sound env L d hd h
  have := dec_enc env L d hd hn v [] hwt
  rwa [List.append_nil, he] at this

/-- the encoding determines the value up to the skipped fields -/
theorem encode_injective (env : Env) (L : EnvLaws env) (d : Desc) (hd : d.wf = true) (hn : d.nodup = true)
    (v w : Val) (hv : wt env d v = true) (hw : wt env d w = true) (h : encode env d v = encode env d w) :
    erase env d v = erase env d w := by
  have h1 := dec_enc env L d hd hn v [] hv
  have h2 := dec_enc env L d hd hn w [] hw
  rw [h, h2] at h1
  simp only [Except.ok.injEq, Prod.mk.injEq, and_true] at h1
  exact h1.symm


/-! ### descriptors without skipped fields: the round trip returns the value itself -/

def Desc.noSkip : Desc → Bool
  | .vec d => d.noSkip
  | .pair a b => a.noSkip && b.noSkip
  | .pre _ d => d.noSkip
  | .enum a => a.noSkip
  | .alt _ d rest => d.noSkip && rest.noSkip
  | .skipped => false
  | _ => true

theorem erase_noSkip (env : Env) : ∀ d : Desc, d.noSkip = true → ∀ v, wt env d v = true → erase env d v = v := by
  intro d
  induction d with
  | vec d ih =>
    intro hs v hv
    simp only [Desc.noSkip] at hs
    simp only [wt, Bool.and_eq_true, List.all_eq_true, decide_eq_true_eq] at hv
    simp only [erase]
    rw [map_id_of_forall (fun a ha => ih hs a (hv.1.2 a ha)), Val.ofList_elems v hv.1.1]
  | pair a b iha ihb =>
    intro hs v hv
    simp only [Desc.noSkip, Bool.and_eq_true] at hs
    cases v <;> simp [wt] at hv
    simp [erase, iha hs.1 _ hv.1, ihb hs.2 _ hv.2]
  | pre p d ih => intro hs v hv; simp only [Desc.noSkip] at hs; simp only [wt] at hv; simp [erase, ih hs v hv]
  | enum a ih => intro hs v hv; simp only [Desc.noSkip] at hs; simp only [wt] at hv; simp [erase, ih hs v hv]
  | alt k d rest ihd ihr =>
    intro hs v hv
    simp only [Desc.noSkip, Bool.and_eq_true] at hs
    cases v <;> simp [wt] at hv
    · simp [erase, ihd hs.1 _ hv]
    · simp [erase, ihr hs.2 _ hv]
  | skipped => intro hs; simp [Desc.noSkip] at hs
  | _ => intro _ v _; simp [erase]

end FuelVerif.Canonical
