/-
Refinement, part 3: the node store under the bottom-up rebuild of a path.

* `path_set`'s lists in zipper form (`upSides_frames`, `upParents_frames`);
* the "merge side nodes" loop over ANY zipper (full path or the suffix left after the orphan-leaf collapse of
  `delete_with_path_set`) returns the node of the re-plugged tree and an explicitly known store
  (`mergeSides_plug`, `mergeStore`);
* that store holds the re-plugged tree (`stored_mergeStore`), given the hash-disjointness side conditions, which
  follow from canonical form of the new tree (`spineH_nodup`, `spineH_fresh`) and, when old path nodes are
  removed, from a discriminating subtree (`old_spine_fresh`).
-/
import FuelVerif.Lemmas.SparseZipper
namespace FuelVerif.SmtRefine
open FuelVerif FuelVerif.SmtStore FuelVerif.SmtBytes FuelVerif.Gen.Sparse FuelVerif.Smt

variable (H : Bytes → Bytes) {U : T → Prop} (hok : HashOn H U) {σ : Type} (S : StoreOps σ)

/-! ### `path_set` in zipper form -/

/-- the side hashes of the frames, bottom first -/
def sideHashes (fs : List Frame) : List Bytes := fs.map (fun f => hb H hok f.sib)

theorem upSides_frames (k : Key32) :
    ∀ (t : T) (d : Nat), upSides H hok k d t = sideHashes H hok (frames k d t)
  | .empty, _ => rfl
  | .leaf _ _, _ => rfl
  | .node l r, d => by
    unfold upSides frames
    by_cases hb' : bit32 k d = true
    · simp only [hb', ↓reduceIte]
      rw [upSides_frames k r (d + 1)]
      simp [sideHashes]
    · simp only [hb', Bool.false_eq_true, ↓reduceIte]
      rw [upSides_frames k l (d + 1)]
      simp [sideHashes]

/-- the `Node`s of the path above the focus `c` (top of the zipper at depth `d0`), bottom first -/
def pnodes (d0 : Nat) : T → List Frame → List Node
  | _, [] => []
  | c, f :: fs => nodeOf H hok (d0 + fs.length) (f.plug c) :: pnodes d0 (f.plug c) fs

theorem pnodes_append (d0 : Nat) : ∀ (A B : List Frame) (c : T),
    pnodes H hok d0 c (A ++ B) = pnodes H hok (d0 + B.length) c A ++ pnodes H hok d0 (plug c A) B
  | [], B, c => by simp [pnodes, plug]
  | f :: A, B, c => by
    have e : d0 + (A ++ B).length = d0 + B.length + A.length := by
      simp only [List.length_append]; omega
    simp only [List.cons_append, pnodes, plug, e]
    rw [pnodes_append d0 A B (f.plug c)]

theorem upParents_frames (k : Key32) :
    ∀ (t : T) (d : Nat), upParents H hok k d t = pnodes H hok d (term k d t) (frames k d t)
  | .empty, _ => rfl
  | .leaf _ _, _ => rfl
  | .node l r, d => by
    unfold upParents term frames
    by_cases hb' : bit32 k d = true
    · simp only [hb', ↓reduceIte]
      rw [pnodes_append, upParents_frames k r (d + 1), plug_frames]
      simp [pnodes, Frame.plug]
    · simp only [hb', Bool.false_eq_true, ↓reduceIte]
      rw [pnodes_append, upParents_frames k l (d + 1), plug_frames]
      simp [pnodes, Frame.plug]

theorem termDepth_frames (k : Key32) : ∀ (t : T) (d : Nat), termDepth k d t = d + (frames k d t).length
  | .empty, _ => rfl
  | .leaf _ _, _ => rfl
  | .node l r, d => by
    unfold termDepth frames
    by_cases hb' : bit32 k d = true
    · simp only [hb', ↓reduceIte, List.length_append, List.length_cons, List.length_nil]
      rw [termDepth_frames k r (d + 1)]; omega
    · simp only [hb', Bool.false_eq_true, ↓reduceIte, List.length_append, List.length_cons, List.length_nil]
      rw [termDepth_frames k l (d + 1)]; omega

/-- hashes of the path nodes above the focus, bottom first -/
def spineH (c : T) (fs : List Frame) : List Bytes := (spineT c fs).map (hb H hok)

theorem pnodes_hash (d0 : Nat) : ∀ (fs : List Frame) (c : T),
    (pnodes H hok d0 c fs).map Node.hash = spineH H hok c fs
  | [], _ => rfl
  | f :: fs, c => by
    simp only [pnodes, spineH, spineT, List.map_cons, nodeOf_hash]
    rw [pnodes_hash d0 fs (f.plug c)]
    rfl

theorem mem_spineH {c : T} {fs : List Frame} {h : Bytes} :
    h ∈ spineH H hok c fs ↔ ∃ u ∈ spineT c fs, hb H hok u = h := by
  simp [spineH]

/-- the path nodes have pairwise different hashes (strictly nested trees) -/
theorem spineH_nodup : ∀ (fs : List Frame) (c : T), (∀ u, IsSub u (plug c fs) → U u) →
    (spineH H hok c fs).Nodup
  | [], _, _ => by simp [spineH, spineT]
  | f :: fs, c, hU => by
    show (hb H hok (f.plug c) :: spineH H hok (f.plug c) fs).Nodup
    refine List.nodup_cons.mpr ⟨?_, spineH_nodup fs (f.plug c) hU⟩
    intro hm
    obtain ⟨u, hu, e⟩ := (mem_spineH H hok).mp hm
    have h1 : U u := hU u (spineT_spec fs (f.plug c) u hu).1
    have h2 : U (f.plug c) := hU _ (isSub_plug fs _ _ (IsSub.refl (plug1_ne_empty f c)))
    rw [hb_injective H hok h1 h2 e] at hu
    exact spineT_head_not_mem f fs c hu

/-- in a canonical tree the hashes of the path nodes occur neither in the focus nor in any sibling -/
theorem spineH_fresh {fs : List Frame} {c : T} {d0 : Nat} (hc : Canon bit32 width d0 (plug c fs))
    (hU : ∀ u, IsSub u (plug c fs) → U u) :
    ∀ h ∈ spineH H hok c fs, h ∉ hashesOf H hok c ∧ ∀ g ∈ fs, h ∉ hashesOf H hok g.sib := by
  intro h hm
  obtain ⟨u, hu, e⟩ := (mem_spineH H hok).mp hm
  subst e
  have hUu : U u := hU u (spineT_spec fs c u hu).1
  exact ⟨not_mem_hashesOf H hok hUu (fun x hx => hU x (isSub_plug fs c x hx)) (spineT_not_sub_focus hu),
    fun g hg => not_mem_hashesOf H hok hUu (fun x hx => hU x (isSub_plug_sib fs c x g hg hx))
      (spine_not_in_sib fs c d0 hc u hu g hg)⟩

/-- the hash of a non-empty focus does not occur in any sibling -/
theorem focus_fresh {fs : List Frame} {c : T} {d0 : Nat} (hc : Canon bit32 width d0 (plug c fs))
    (hU : ∀ u, IsSub u (plug c fs) → U u)
    (hne : c ≠ .empty) : ∀ g ∈ fs, hb H hok c ∉ hashesOf H hok g.sib :=
  fun g hg => not_mem_hashesOf H hok (hU c (isSub_plug fs c c (IsSub.refl hne)))
    (fun x hx => hU x (isSub_plug_sib fs c x g hg hx))
    (sub_not_in_sib fs c d0 hc c (IsSub.refl hne) g hg)

/-- **old path nodes against the new tree**: if the new focus `c` contains a subtree `x` that the old tree
does not contain, and every subtree of `c` is a leaf or contains `x`, then no old path node occurs anywhere in
the new tree -/
theorem old_spine_fresh {fs : List Frame} {c0 c : T} {d0 : Nat} (hc0 : Canon bit32 width d0 (plug c0 fs))
    (hU0 : ∀ u, IsSub u (plug c0 fs) → U u) (hU : ∀ u, IsSub u (plug c fs) → U u)
    (x : T) (hx : IsSub x c) (hnx : ¬ IsSub x (plug c0 fs))
    (hcsub : ∀ u, IsSub u c → (∃ k v, u = .leaf k v) ∨ IsSub x u) :
    ∀ h ∈ spineH H hok c0 fs,
      h ∉ spineH H hok c fs ∧ h ∉ hashesOf H hok c ∧ ∀ g ∈ fs, h ∉ hashesOf H hok g.sib := by
  intro h hm
  obtain ⟨o, ho, e⟩ := (mem_spineH H hok).mp hm
  subst e
  obtain ⟨ho1, _, _, l, r, ho4⟩ := spineT_spec fs c0 o ho
  have hUo : U o := hU0 o ho1
  refine ⟨?_, ?_, fun g hg => not_mem_hashesOf H hok hUo (fun x hx => hU0 x (isSub_plug_sib fs c0 x g hg hx))
    (spine_not_in_sib fs c0 d0 hc0 o ho g hg)⟩
  · intro hm2
    obtain ⟨u, hu, e⟩ := (mem_spineH H hok).mp hm2
    rw [hb_injective H hok (hU u (spineT_spec fs c u hu).1) hUo e] at hu
    exact hnx (IsSub.trans ((spineT_spec fs c o hu).2.2.1 x hx) ho1)
  · intro hm2
    obtain ⟨u, hu, e⟩ := mem_hashesOf H hok hm2
    rw [hb_injective H hok (hU u (isSub_plug fs c u hu)) hUo e] at hu
    rcases hcsub o hu with ⟨k, v, e2⟩ | hxo
    · rw [ho4] at e2; cases e2
    · exact hnx (IsSub.trans hxo ho1)

/-! ### the merge-side-nodes loop over a zipper -/

/-- the store after the loop: bottom-up, every new path node is written and (update only) the old one removed -/
def mergeStore (rm : Bool) (d0 : Nat) : T → T → List Frame → σ → σ
  | _, _, [], st => st
  | c0, c, f :: fs, st =>
    mergeStore rm d0 (f.plug c0) (f.plug c) fs
      (if rm then S.remove (putNode S st (nodeOf H hok (d0 + fs.length) (f.plug c))) (hb H hok (f.plug c0))
       else putNode S st (nodeOf H hok (d0 + fs.length) (f.plug c)))

/-- at every level the old on-path child and the sibling have different hashes (so the
`old_parent.bytes_lo() == side_node` test finds the side) -/
def SibNe : T → List Frame → Prop
  | _, [] => True
  | c0, f :: fs => hb H hok c0 ≠ hb H hok f.sib ∧ SibNe (f.plug c0) fs

theorem sibNe_of_canon : ∀ (fs : List Frame) (c0 : T) (d0 : Nat), Canon bit32 width d0 (plug c0 fs) →
    (∀ u, IsSub u (plug c0 fs) → U u) → SibNe H hok c0 fs
  | [], _, _, _, _ => trivial
  | f :: fs, c0, d0, hc, hU => by
    refine ⟨fun e => canon_frame_ne (canon_plug_cons hc) ?_, sibNe_of_canon fs (f.plug c0) d0 hc hU⟩
    have hUn : ∀ u, IsSub u (f.plug c0) → U u := fun u hu => hU u (isSub_plug fs _ u hu)
    have h1 : c0 = .empty ∨ IsSub c0 (f.plug c0) := by
      by_cases e0 : c0 = .empty
      · exact .inl e0
      · exact .inr (isSub_plug1 (IsSub.refl e0))
    have h2 : f.sib = .empty ∨ IsSub f.sib (f.plug c0) := by
      by_cases e0 : f.sib = .empty
      · exact .inl e0
      · exact .inr (isSub_plug1_sib (IsSub.refl e0))
    exact hb_inj_sub H hok hUn hUn h1 h2 e

theorem mergeSides_cons (rm : Bool) (s : Bytes) (sides : List Bytes) (p : Node) (parents : List Node)
    (cur : Node) (st : σ) :
    mergeSides H S rm (s :: sides) (p :: parents) cur st =
      mergeSides H S rm sides parents
        (if p.bytesLo = s then Node.createNodeFromHashes H s cur.hash p.height
         else Node.createNodeFromHashes H cur.hash s p.height)
        (if rm then S.remove (putNode S st (if p.bytesLo = s then Node.createNodeFromHashes H s cur.hash p.height
            else Node.createNodeFromHashes H cur.hash s p.height)) p.hash
         else putNode S st (if p.bytesLo = s then Node.createNodeFromHashes H s cur.hash p.height
            else Node.createNodeFromHashes H cur.hash s p.height)) := by
  simp only [mergeSides]

/-- one step of the loop builds the node of the re-plugged frame -/
theorem merge_step_node (f : Frame) (c0 c : T) (e e' : Nat) (hne : hb H hok c0 ≠ hb H hok f.sib) :
    (if (nodeOf H hok e (f.plug c0)).bytesLo = hb H hok f.sib
      then Node.createNodeFromHashes H (hb H hok f.sib) (nodeOf H hok e' c).hash (nodeOf H hok e (f.plug c0)).height
      else Node.createNodeFromHashes H (nodeOf H hok e' c).hash (hb H hok f.sib) (nodeOf H hok e (f.plug c0)).height)
      = nodeOf H hok e (f.plug c) := by
  rw [nodeOf_hash]
  cases f with
  | mk right sib =>
    cases right with
    | true =>
      simp only [Frame.plug, ↓reduceIte, nodeOf, Node.bytesLo, Node.height, Node.createNodeFromHashes]
    | false =>
      simp only at hne
      simp only [Frame.plug, Bool.false_eq_true, ↓reduceIte, nodeOf, Node.bytesLo, Node.height,
        Node.createNodeFromHashes, if_neg hne]

/-- **the merge-side-nodes loop over a zipper**: started from the node of the new focus `c`, over the side
hashes and old path nodes of the zipper `(c0, fs)`, it returns the node of `plug c fs` and the store
`mergeStore` -/
theorem mergeSides_plug (rm : Bool) : ∀ (fs : List Frame) (c0 c : T) (d0 : Nat) (st : σ),
    SibNe H hok c0 fs →
    mergeSides H S rm (sideHashes H hok fs) (pnodes H hok d0 c0 fs) (nodeOf H hok (d0 + fs.length) c) st =
      (nodeOf H hok d0 (plug c fs), mergeStore H hok S rm d0 c0 c fs st)
  | [], _, _, _, _, _ => by simp [sideHashes, pnodes, mergeSides, plug, mergeStore]
  | f :: fs, c0, c, d0, st, hne => by
    rw [show sideHashes H hok (f :: fs) = hb H hok f.sib :: sideHashes H hok fs from rfl,
      show pnodes H hok d0 c0 (f :: fs) =
        nodeOf H hok (d0 + fs.length) (f.plug c0) :: pnodes H hok d0 (f.plug c0) fs from rfl,
      mergeSides_cons, merge_step_node H hok f c0 c _ _ hne.1, nodeOf_hash,
      mergeSides_plug rm fs (f.plug c0) (f.plug c) d0 _ hne.2]
    rfl

/-! ### what the store holds afterwards -/

variable (laws : StoreLaws S)
include laws

theorem get_putNode (st : σ) (n : Node) (h : Bytes) :
    S.get (putNode S st n) h = if n.hash = h then some n.toPrim else S.get st h := by
  unfold putNode; exact laws.get_insert _ _ _ _

/-- the loop touches only old and new path hashes -/
theorem mergeStore_frame (rm : Bool) : ∀ (fs : List Frame) (c0 c : T) (d0 : Nat) (st : σ) (h : Bytes),
    h ∉ spineH H hok c fs → (rm = true → h ∉ spineH H hok c0 fs) →
    S.get (mergeStore H hok S rm d0 c0 c fs st) h = S.get st h
  | [], _, _, _, _, _, _, _ => rfl
  | f :: fs, c0, c, d0, st, h, h1, h2 => by
    have h1' : h ≠ hb H hok (f.plug c) ∧ h ∉ spineH H hok (f.plug c) fs := by
      simpa [spineH, spineT] using h1
    have h2' : rm = true → h ≠ hb H hok (f.plug c0) ∧ h ∉ spineH H hok (f.plug c0) fs := by
      intro e; simpa [spineH, spineT] using h2 e
    simp only [mergeStore]
    rw [mergeStore_frame rm fs (f.plug c0) (f.plug c) d0 _ h h1'.2 (fun e => (h2' e).2)]
    cases rm with
    | false =>
      simp only [Bool.false_eq_true, ↓reduceIte]
      rw [get_putNode S laws, nodeOf_hash, if_neg (Ne.symm h1'.1)]
    | true =>
      simp only [↓reduceIte]
      rw [laws.get_remove, if_neg (Ne.symm (h2' rfl).1), get_putNode S laws, nodeOf_hash,
        if_neg (Ne.symm h1'.1)]

omit laws in
/-- the new path nodes above the focus are stored with the heights of their depths -/
def NewStored (st : σ) (d0 : Nat) : T → List Frame → Prop
  | _, [] => True
  | c, f :: fs =>
    S.get st (hb H hok (f.plug c)) = some (nodeOf H hok (d0 + fs.length) (f.plug c)).toPrim ∧
      NewStored st d0 (f.plug c) fs

theorem mergeStore_new (rm : Bool) : ∀ (fs : List Frame) (c0 c : T) (d0 : Nat) (st : σ),
    (spineH H hok c fs).Nodup → (rm = true → ∀ h ∈ spineH H hok c0 fs, h ∉ spineH H hok c fs) →
    NewStored H hok S (mergeStore H hok S rm d0 c0 c fs st) d0 c fs
  | [], _, _, _, _, _, _ => trivial
  | f :: fs, c0, c, d0, st, hN, hO => by
    have hN' : hb H hok (f.plug c) ∉ spineH H hok (f.plug c) fs ∧ (spineH H hok (f.plug c) fs).Nodup :=
      List.nodup_cons.mp hN
    have hO1 : rm = true → hb H hok (f.plug c0) ≠ hb H hok (f.plug c) ∧
        hb H hok (f.plug c0) ∉ spineH H hok (f.plug c) fs := by
      intro e
      have := hO e (hb H hok (f.plug c0)) (by simp [spineH, spineT])
      simpa [spineH, spineT] using this
    have hO2 : rm = true → ∀ h ∈ spineH H hok (f.plug c0) fs, h ∉ spineH H hok (f.plug c) fs := by
      intro e h hm
      have := hO e h (by simp only [spineH, spineT, List.map_cons, List.mem_cons]; exact .inr hm)
      intro hm2
      exact this (by simp only [spineH, spineT, List.map_cons, List.mem_cons]; exact .inr hm2)
    have hO3 : rm = true → hb H hok (f.plug c) ∉ spineH H hok (f.plug c0) fs := by
      intro e hm
      have := hO e _ (by simp only [spineH, spineT, List.map_cons, List.mem_cons]; exact .inr hm)
      exact this (by simp [spineH, spineT])
    refine ⟨?_, mergeStore_new rm fs (f.plug c0) (f.plug c) d0 _ hN'.2 hO2⟩
    simp only [mergeStore]
    rw [mergeStore_frame H hok S laws rm fs (f.plug c0) (f.plug c) d0 _ _ hN'.1 hO3]
    cases rm with
    | false =>
      simp only [Bool.false_eq_true, ↓reduceIte]
      rw [get_putNode S laws, nodeOf_hash, if_pos rfl]
    | true =>
      simp only [↓reduceIte]
      rw [laws.get_remove, if_neg (hO1 rfl).1, get_putNode S laws, nodeOf_hash, if_pos rfl]

omit laws in
/-- the siblings hanging off the path are stored -/
def SibsStored (st : σ) (d0 : Nat) : List Frame → Prop
  | [] => True
  | f :: fs => Stored H hok S st (d0 + fs.length + 1) f.sib ∧ SibsStored st d0 fs

omit laws in
theorem sibsStored_suffix {st : σ} {d0 : Nat} : ∀ (A B : List Frame),
    SibsStored H hok S st d0 (A ++ B) → SibsStored H hok S st d0 B
  | [], _, h => h
  | _ :: A, B, h => sibsStored_suffix A B h.2

omit laws in
theorem sibsStored_congr {st st' : σ} {d0 : Nat} : ∀ (fs : List Frame), SibsStored H hok S st d0 fs →
    (∀ g ∈ fs, ∀ h ∈ hashesOf H hok g.sib, S.get st' h = S.get st h) → SibsStored H hok S st' d0 fs
  | [], _, _ => trivial
  | f :: fs, hs, hg =>
    ⟨stored_congr H hok S hs.1 (fun h hm => hg f List.mem_cons_self h hm),
      sibsStored_congr fs hs.2 (fun g hgm h hm => hg g (List.mem_cons_of_mem _ hgm) h hm)⟩

omit laws in
theorem stored_plug1 {st : σ} {f : Frame} {c : T} {e : Nat} :
    Stored H hok S st e (f.plug c) ↔
      S.get st (hb H hok (f.plug c)) = some (nodeOf H hok e (f.plug c)).toPrim ∧
        Stored H hok S st (e + 1) c ∧ Stored H hok S st (e + 1) f.sib := by
  cases f with
  | mk right sib =>
    cases right with
    | true =>
      show (_ ∧ Stored H hok S st (e + 1) sib ∧ Stored H hok S st (e + 1) c) ↔ _
      constructor
      · rintro ⟨h1, h2, h3⟩; exact ⟨h1, h3, h2⟩
      · rintro ⟨h1, h2, h3⟩; exact ⟨h1, h3, h2⟩
    | false => exact Iff.rfl

omit laws in
/-- a plugged tree is stored iff the focus, the path nodes and the siblings are -/
theorem stored_plug {st : σ} : ∀ (fs : List Frame) (c : T) (d0 : Nat),
    Stored H hok S st d0 (plug c fs) ↔
      Stored H hok S st (d0 + fs.length) c ∧ NewStored H hok S st d0 c fs ∧ SibsStored H hok S st d0 fs
  | [], c, d0 => by simp [plug, NewStored, SibsStored]
  | f :: fs, c, d0 => by
    simp only [plug, NewStored, SibsStored]
    rw [stored_plug fs (f.plug c) d0, stored_plug1]
    have e : d0 + (f :: fs).length = d0 + fs.length + 1 := by simp only [List.length_cons]; omega
    rw [e]
    constructor
    · rintro ⟨⟨h1, h2, h3⟩, h4, h5⟩; exact ⟨h2, ⟨h1, h4⟩, h3, h5⟩
    · rintro ⟨h2, ⟨h1, h4⟩, h3, h5⟩; exact ⟨⟨h1, h2, h3⟩, h4, h5⟩

/-- **the store after the loop holds the re-plugged tree** -/
theorem stored_mergeStore (rm : Bool) (fs : List Frame) (c0 c : T) (d0 : Nat) (st : σ)
    (hU : ∀ u, IsSub u (plug c fs) → U u)
    (hS : ∀ h ∈ spineH H hok c fs, h ∉ hashesOf H hok c ∧ ∀ g ∈ fs, h ∉ hashesOf H hok g.sib)
    (hO : rm = true → ∀ h ∈ spineH H hok c0 fs,
      h ∉ spineH H hok c fs ∧ h ∉ hashesOf H hok c ∧ ∀ g ∈ fs, h ∉ hashesOf H hok g.sib)
    (hc : Stored H hok S st (d0 + fs.length) c) (hs : SibsStored H hok S st d0 fs) :
    Stored H hok S (mergeStore H hok S rm d0 c0 c fs st) d0 (plug c fs) := by
  rw [stored_plug]
  refine ⟨?_, ?_, ?_⟩
  · exact stored_congr H hok S hc (fun h hm => mergeStore_frame H hok S laws rm fs c0 c d0 st h
      (fun hin => (hS h hin).1 hm) (fun e hin => (hO e h hin).2.1 hm))
  · exact mergeStore_new H hok S laws rm fs c0 c d0 st (spineH_nodup H hok fs c hU)
      (fun e h hm => (hO e h hm).1)
  · exact sibsStored_congr H hok S fs hs (fun g hg h hm => mergeStore_frame H hok S laws rm fs c0 c d0 st h
      (fun hin => (hS h hin).2 g hg hm) (fun e hin => (hO e h hin).2.2 g hg hm))

/-! ### removing a list of nodes (`delete_with_path_set`'s first loop) -/

theorem get_removeNodes : ∀ (nds : List Node) (st : σ) (h : Bytes),
    S.get (nds.foldl (fun st nd => S.remove st nd.hash) st) h =
      if h ∈ nds.map Node.hash then none else S.get st h
  | [], _, _ => by simp
  | nd :: nds, st, h => by
    simp only [List.foldl_cons, List.map_cons, List.mem_cons]
    rw [get_removeNodes nds (S.remove st nd.hash) h, laws.get_remove]
    by_cases e1 : h ∈ nds.map Node.hash
    · simp [e1]
    · by_cases e2 : nd.hash = h
      · simp [e2]
      · have e3 : ¬ h = nd.hash := fun e => e2 e.symm
        simp [e1, e2, e3]

end FuelVerif.SmtRefine
