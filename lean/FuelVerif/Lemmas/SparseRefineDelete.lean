/-
Refinement, part 5: `MerkleTree::delete` / `delete_with_path_set` of the storage-level transcription keep the
state a representation (`Rep`) of the structural tree, and implement the structural `delete` (with the
orphan-leaf collapse).

ORDER OF EFFECTS the proof relies on (`Gen/Sparse.lean` `deleteEffects`, extracted from the Rust text):
`delete_with_path_set` removes ALL old path nodes first, then reads the first side node, then writes the new path
nodes. The new path nodes may coincide with old ones (deleting the absent all-zero key over a placeholder
re-creates the very same path), so removing after writing would lose them; and the first side node is read after
the removal, so it must not be a path node (`sub_not_in_sib` / `spine_not_in_sib`).
-/
import FuelVerif.Lemmas.SparseRefineInsert
namespace FuelVerif.SmtRefine
open FuelVerif FuelVerif.SmtStore FuelVerif.SmtBytes FuelVerif.Gen.Sparse FuelVerif.Smt

variable (H : Bytes → Bytes) {U : T → Prop} (hok : HashOn H U) {σ : Type} (S : StoreOps σ)

/-! ### `Iterator::find` -/

theorem iterFind_skip {α : Type} (p : α → Bool) : ∀ (A B : List α), (∀ a ∈ A, p a = false) →
    iterFind p (A ++ B) = iterFind p B
  | [], _, _ => rfl
  | a :: A, B, h => by
    simp only [List.cons_append, iterFind, h a List.mem_cons_self, Bool.false_eq_true, ↓reduceIte]
    exact iterFind_skip p A B (fun x hx => h x (List.mem_cons_of_mem _ hx))

theorem iterFind_hit {α : Type} (p : α → Bool) (x : α) (B : List α) (h : p x = true) :
    iterFind p (x :: B) = (some x, B) := by
  simp [iterFind, h]

/-! ### the structural side: a delete that changes nothing, the shape of the siblings -/

/-- a canonical tree with at least two leaves is an internal node -/
theorem canon_size_two {d : Nat} {t : T} (hc : Canon bit32 width d t) (h : 2 ≤ t.size) :
    ∃ a b, t = .node a b := by
  cases t with
  | empty => simp [Tree.size] at h
  | leaf _ _ => simp [Tree.size] at h
  | node a b => exact ⟨a, b, rfl⟩

/-- re-plugging a terminal with collapse into its own canonical context collapses nothing -/
theorem plugC_canon_noop {fs : List Frame} {c : T} {d0 : Nat} (hc : Canon bit32 width d0 (plug c fs))
    (hterm : c = .empty ∨ ∃ k v, c = .leaf k v) : plugC c fs = plug c fs := by
  cases fs with
  | nil => rfl
  | cons f fs =>
    obtain ⟨_, _, _, hsz, _, hcs⟩ := canon_frame (canon_plug_cons hc)
    simp only [plugC, plug]
    rcases hterm with e | ⟨k, v, e⟩
    · subst e
      obtain ⟨a, b, e2⟩ := canon_size_two hcs (by simp only [Tree.size] at hsz; omega)
      rw [plugC1_empty_node f a b e2]
      exact plugC_node fs _ (plug1_isNode f _)
    · subst e
      have hne : f.sib ≠ .empty := by
        intro e2; rw [e2] at hsz; simp [Tree.size] at hsz
      rw [plugC1_leaf_nonempty f k v hne]
      exact plugC_node fs _ (plug1_isNode f _)

/-- split the frames above the terminal's parent at the first non-placeholder sibling -/
theorem split_empty_prefix : ∀ (fs : List Frame), ∃ zs rest, fs = zs ++ rest ∧ (∀ z ∈ zs, z.sib = .empty) ∧
    (rest = [] ∨ ∃ g fs2, rest = g :: fs2 ∧ g.sib ≠ .empty)
  | [] => ⟨[], [], rfl, fun _ h => (by cases h), .inl rfl⟩
  | f :: fs => by
    by_cases e : f.sib = .empty
    · obtain ⟨zs, rest, h1, h2, h3⟩ := split_empty_prefix fs
      refine ⟨f :: zs, rest, by rw [h1]; rfl, ?_, h3⟩
      intro z hz
      rcases List.mem_cons.mp hz with e2 | hz'
      · rw [e2]; exact e
      · exact h2 z hz'
    · exact ⟨[], f :: fs, rfl, fun _ h => (by cases h), .inr ⟨f, fs, rfl, e⟩⟩

/-- the children of the path nodes over a prefix of the frames are placeholders or subtrees of the plugged
prefix -/
theorem pnodes_children (d0 : Nat) : ∀ (A : List Frame) (c : T) (nd : Node), nd ∈ pnodes H hok d0 c A →
    ∃ a b : T, nd.bytesLo = hb H hok a ∧ nd.bytesHi = hb H hok b ∧
      (a = .empty ∨ IsSub a (plug c A)) ∧ (b = .empty ∨ IsSub b (plug c A))
  | [], _, _, h => by cases h
  | f :: A, c, nd, h => by
    have hsub : ∀ x : T, IsSub x (f.plug c) → (x = .empty ∨ IsSub x (plug (f.plug c) A)) :=
      fun x hx => .inr (isSub_plug A _ _ hx)
    have hself : ∀ x : T, x = .empty ∨ IsSub x x := fun x => by
      by_cases e : x = .empty
      · exact .inl e
      · exact .inr (IsSub.refl e)
    rcases List.mem_cons.mp h with e | h'
    · subst e
      cases f with
      | mk right sib =>
        cases right with
        | true =>
          refine ⟨sib, c, rfl, rfl, ?_, ?_⟩
          · rcases hself sib with e | e
            · exact .inl e
            · exact hsub _ (.inr (.inl e))
          · rcases hself c with e | e
            · exact .inl e
            · exact hsub _ (.inr (.inr e))
        | false =>
          refine ⟨c, sib, rfl, rfl, ?_, ?_⟩
          · rcases hself c with e | e
            · exact .inl e
            · exact hsub _ (.inr (.inl e))
          · rcases hself sib with e | e
            · exact .inl e
            · exact hsub _ (.inr (.inr e))
    · exact pnodes_children d0 A (f.plug c) nd h'

/-! ### `delete_with_path_set` -/

omit hok in
/-- the part of `delete_with_path_set` between the removal of the path nodes and the merge-side-nodes loop:
load the first side node, collapse an orphaned leaf -/
def deleteR (st : σ) (sideNodes : List Bytes) (pathIter0 : List Node) :
    Except Err (Node × List Bytes × List Node × σ) :=
  match sideNodes with
  | [] => .ok (.placeholder, sideNodes, pathIter0, st)
  | first :: sidesRest =>
    match S.get st first with
    | none => .error .LoadError
    | some p =>
      match Node.ofPrim H p with
      | .error e => .error e
      | .ok firstNode =>
        if firstNode.isLeaf then
          match iterFind (fun s => s != zeroSum) sidesRest with
          | (none, sides') => .ok (firstNode, sides', pathIter0, st)
          | (some side, sides') =>
            match iterFind (fun (parent : Node) => parent.bytesLo == side || parent.bytesHi == side)
                pathIter0 with
            | (none, parents') => .ok (firstNode, sides', parents', st)
            | (some oldParent, parents') =>
              let newParent :=
                if oldParent.bytesLo = side then
                  Node.createNodeFromHashes H side firstNode.hash oldParent.height
                else Node.createNodeFromHashes H firstNode.hash side oldParent.height
              .ok (newParent, sides', parents', putNode S st newParent)
        else .ok (.placeholder, sideNodes, pathIter0, st)

omit hok in
theorem deleteWithPathSet_unfold (t : SMT σ) (pathNodes : List Node) (sideNodes : List Bytes) :
    deleteWithPathSet H S t pathNodes sideNodes =
      match deleteR H S (pathNodes.foldl (fun st nd => S.remove st nd.hash) t.storage) sideNodes
          (pathNodes.drop 1) with
      | .error e => ({ t with storage := pathNodes.foldl (fun st nd => S.remove st nd.hash) t.storage }, .error e)
      | .ok (cur, sides, parents, st) =>
        (⟨(mergeSides H S false sides parents cur st).1, (mergeSides H S false sides parents cur st).2⟩,
          .ok ()) := by
  rfl

omit hok in
theorem delete_finish (t : SMT σ) (nd : Node) (pathRest : List Node) (sideNodes : List Bytes) (st1 : σ)
    (hst1 : (nd :: pathRest).foldl (fun st nd => S.remove st nd.hash) t.storage = st1)
    (cur : Node) (sides : List Bytes) (parents : List Node) (st' : σ)
    (hR : deleteR H S st1 sideNodes pathRest = .ok (cur, sides, parents, st'))
    (X : Node) (Y : σ) (hm : mergeSides H S false sides parents cur st' = (X, Y)) :
    deleteWithPathSet H S t (nd :: pathRest) sideNodes = (⟨X, Y⟩, .ok ()) := by
  rw [deleteWithPathSet_unfold, hst1]
  simp only [List.drop_succ_cons, List.drop_zero, hR, hm]

theorem nodeOf_ne_placeholder {d : Nat} {t : T} (h : t ≠ .empty) : nodeOf H hok d t ≠ .placeholder := by
  cases t with
  | empty => exact absurd rfl h
  | leaf _ _ => simp [nodeOf]
  | node _ _ => simp [nodeOf]

/-- reading a stored non-empty subtree's node back from the store -/
theorem load_stored {st : σ} {e : Nat} {x : T} (hx : x ≠ .empty) (hs : Stored H hok S st e x) :
    S.get st (hb H hok x) = some (nodeOf H hok e x).toPrim ∧
      Node.ofPrim H (nodeOf H hok e x).toPrim = .ok (nodeOf H hok e x) :=
  ⟨Stored.top H hok S hs hx, Node.ofPrim_toPrim H (nodeOf_wf H hok e x) (nodeOf_ne_placeholder H hok hx)⟩

theorem zero_bne (x : T) (hx : x = .empty) : (hb H hok x != zeroSum) = false := by
  subst hx; simp [hb_empty]

theorem nonzero_bne (x : T) (hU : U x) (hx : x ≠ .empty) : (hb H hok x != zeroSum) = true := by
  simp [hb_ne_zero H hok hU hx]

variable (laws : StoreLaws S)
include laws

/-- **`delete_with_path_set` on a represented tree** whose path for `k` ends at the leaf of `k` (or, for the
all-zero key, at a placeholder) implements the structural `delete`: the terminal becomes a placeholder and an
orphaned leaf moves up -/
theorem deletePath_rep (fs : List Frame) (c0 : T) (st0 : σ)
    (hcan : Canon bit32 width 0 (plug c0 fs)) (hcn : Canon bit32 width 0 (plugC .empty fs))
    (hU0 : ∀ u, IsSub u (plug c0 fs) → U u) (hUn : ∀ u, IsSub u (plugC .empty fs) → U u)
    (hst : Stored H hok S st0 0 (plug c0 fs)) (hc0 : c0 = .empty ∨ ∃ k v, c0 = .leaf k v) :
    ∃ s', deleteWithPathSet H S ⟨nodeOf H hok 0 (plug c0 fs), st0⟩
        (nodeOf H hok (0 + fs.length) c0 :: pnodes H hok 0 c0 fs) (sideHashes H hok fs) = (s', .ok ()) ∧
      Rep H hok S s' (plugC .empty fs) := by
  generalize hst1 : (nodeOf H hok (0 + fs.length) c0 :: pnodes H hok 0 c0 fs).foldl
    (fun st nd => S.remove st nd.hash) st0 = st1
  have hget1 : ∀ h, S.get st1 h = if h ∈ hb H hok c0 :: spineH H hok c0 fs then none else S.get st0 h := by
    intro h
    rw [← hst1, get_removeNodes S laws]
    simp only [List.map_cons, nodeOf_hash, pnodes_hash]
  have hsibs0 := ((stored_plug H hok S fs c0 0).mp hst).2.2
  have hsibs1 : SibsStored H hok S st1 0 fs := by
    refine sibsStored_congr H hok S fs hsibs0 (fun g hg h hm => ?_)
    rw [hget1, if_neg]
    simp only [List.mem_cons, not_or]
    refine ⟨?_, fun hin => (spineH_fresh H hok hcan hU0 h hin).2 g hg hm⟩
    rcases hc0 with e | ⟨k, v, e⟩
    · subst e; exact mem_hashesOf_ne_zero H hok (fun x hx => hU0 x (isSub_plug_sib fs _ x g hg hx)) hm
    · subst e
      intro e2; rw [e2] at hm
      exact focus_fresh H hok hcan hU0 (by intro h; cases h) g hg hm
  cases fs with
  | nil =>
    refine ⟨⟨.placeholder, st1⟩, delete_finish H S _ _ _ _ st1 hst1 .placeholder [] [] st1 rfl _ _ rfl, ?_⟩
    exact ⟨trivial, rfl, trivial, fun u hu => absurd hu id⟩
  | cons f0 fs1 =>
    obtain ⟨_, _, _, hsz, _, hcs⟩ := canon_frame (canon_plug_cons hcan)
    have hc0sz : c0.size ≤ 1 := by
      rcases hc0 with e | ⟨k, v, e⟩ <;> subst e <;> simp [Tree.size]
    have hsibne : f0.sib ≠ .empty := by
      intro e2; rw [e2] at hsz; simp only [Tree.size] at hsz; omega
    obtain ⟨hg0, hof0⟩ := load_stored H hok S hsibne hsibs1.1
    cases hsib : f0.sib with
    | empty => exact absurd hsib hsibne
    | node a b =>
      -- the sibling is an internal node: nothing collapses
      have hR : deleteR H S st1 (sideHashes H hok (f0 :: fs1)) (pnodes H hok 0 c0 (f0 :: fs1)) =
          .ok (.placeholder, sideHashes H hok (f0 :: fs1), pnodes H hok 0 c0 (f0 :: fs1), st1) := by
        rw [show sideHashes H hok (f0 :: fs1) = hb H hok f0.sib :: sideHashes H hok fs1 from rfl]
        simp only [deleteR, hg0, hof0]
        rw [if_neg]
        rw [hsib]; simp [(nodeOf_node_facts H hok _ a b).1]
      have htree : plugC .empty (f0 :: fs1) = plug .empty (f0 :: fs1) := by
        simp only [plugC, plug]
        rw [plugC1_empty_node f0 a b hsib]
        exact plugC_node fs1 _ (plug1_isNode f0 _)
      rw [htree] at hcn hUn ⊢
      refine ⟨_, delete_finish H S _ _ _ _ st1 hst1 _ _ _ _ hR _ _
        (mergeSides_plug H hok S false (f0 :: fs1) c0 .empty 0 st1 (sibNe_of_canon H hok _ c0 0 hcan hU0)), ?_⟩
      exact ⟨hcn, rfl, stored_mergeStore H hok S laws false (f0 :: fs1) c0 .empty 0 st1 hUn
        (spineH_fresh H hok hcn hUn) (fun e => by cases e) trivial hsibs1, hUn⟩
    | leaf k2 v2 =>
      -- the sibling is a leaf: it is orphaned and moves up past every placeholder sibling
      obtain ⟨zs, rest, hsplit, hzs, hrest⟩ := split_empty_prefix fs1
      have hskip : iterFind (fun s => s != zeroSum) (sideHashes H hok fs1) =
          iterFind (fun s => s != zeroSum) (sideHashes H hok rest) := by
        rw [hsplit, show sideHashes H hok (zs ++ rest) = sideHashes H hok zs ++ sideHashes H hok rest by
          simp [sideHashes]]
        apply iterFind_skip
        intro a ha
        obtain ⟨z, hz, e⟩ := List.mem_map.mp ha
        rw [← e]
        exact zero_bne H hok _ (hzs z hz)
      have hleafT : plugC .empty (f0 :: fs1) = plugC (.leaf k2 v2) rest := by
        simp only [plugC]
        rw [plugC1_empty_leaf f0 k2 v2 hsib, hsplit]
        exact plugC_leaf_skip k2 v2 zs rest hzs
      have hfirst : (nodeOf H hok (0 + fs1.length + 1) f0.sib).isLeaf = true := by
        rw [hsib]; simp [nodeOf, Node.isLeaf, Node.pfx]
      have hstleaf : Stored H hok S st1 0 (.leaf k2 v2) := by
        have := hsibs1.1; rw [hsib] at this; exact this
      rcases hrest with e | ⟨g, fs2, e, hgne⟩
      · -- only placeholders above: the orphan becomes the root
        subst e
        have hR : deleteR H S st1 (sideHashes H hok (f0 :: fs1)) (pnodes H hok 0 c0 (f0 :: fs1)) =
            .ok (nodeOf H hok (0 + fs1.length + 1) f0.sib, [], pnodes H hok 0 c0 (f0 :: fs1), st1) := by
          rw [show sideHashes H hok (f0 :: fs1) = hb H hok f0.sib :: sideHashes H hok fs1 from rfl]
          simp only [deleteR, hg0, hof0, hfirst, ↓reduceIte, hskip]
          rfl
        rw [hleafT] at hUn ⊢
        refine ⟨_, delete_finish H S _ _ _ _ st1 hst1 _ _ _ _ hR _ _ rfl, ?_⟩
        rw [hsib]
        exact ⟨trivial, rfl, hstleaf, hUn⟩
      · -- re-attach the orphan below the first non-placeholder sibling `g`
        subst e
        have hfs : f0 :: fs1 = (f0 :: zs) ++ (g :: fs2) := by rw [hsplit]; rfl
        have hUg : U g.sib := by
          apply hU0
          rw [hfs]
          exact isSub_plug_sib ((f0 :: zs) ++ (g :: fs2)) c0 g.sib g
            (List.mem_append_right _ List.mem_cons_self) (IsSub.refl hgne)
        have hcan2 : Canon bit32 width 0 (plug (plug c0 (f0 :: zs)) (g :: fs2)) := by
          rw [← plug_append, ← hfs]; exact hcan
        have hside : iterFind (fun s => s != zeroSum) (sideHashes H hok (g :: fs2)) =
            (some (hb H hok g.sib), sideHashes H hok fs2) :=
          iterFind_hit _ _ _ (nonzero_bne H hok _ hUg hgne)
        have hpn : pnodes H hok 0 c0 (f0 :: fs1) =
            pnodes H hok (0 + (g :: fs2).length) c0 (f0 :: zs) ++
              (nodeOf H hok (0 + fs2.length) (g.plug (plug c0 (f0 :: zs))) ::
                pnodes H hok 0 (g.plug (plug c0 (f0 :: zs))) fs2) := by
          rw [hfs, pnodes_append]; rfl
        have hnomatch : ∀ nd ∈ pnodes H hok (0 + (g :: fs2).length) c0 (f0 :: zs),
            (nd.bytesLo == hb H hok g.sib || nd.bytesHi == hb H hok g.sib) = false := by
          intro nd hnd
          obtain ⟨a, b, ha, hb', hsa, hsb⟩ := pnodes_children H hok _ _ _ nd hnd
          have key : ∀ x : T, (x = .empty ∨ IsSub x (plug c0 (f0 :: zs))) → hb H hok x ≠ hb H hok g.sib := by
            intro x hx e
            rcases hx with e2 | hx
            · subst e2; exact hb_ne_zero H hok hUg hgne e.symm
            · have e3 := hb_injective H hok (hU0 x (by rw [hfs, plug_append]; exact isSub_plug _ _ _ hx)) hUg e
              subst e3
              exact sub_not_in_sib (g :: fs2) _ 0 hcan2 _ hx g List.mem_cons_self (IsSub.refl hgne)
          rw [ha, hb']
          simp [key a hsa, key b hsb]
        have hmatch : ((nodeOf H hok (0 + fs2.length) (g.plug (plug c0 (f0 :: zs)))).bytesLo == hb H hok g.sib ||
            (nodeOf H hok (0 + fs2.length) (g.plug (plug c0 (f0 :: zs)))).bytesHi == hb H hok g.sib) = true := by
          cases g with
          | mk right sib =>
            cases right <;> simp [Frame.plug, nodeOf, Node.bytesLo, Node.bytesHi]
        have hfind : iterFind (fun (parent : Node) =>
              parent.bytesLo == hb H hok g.sib || parent.bytesHi == hb H hok g.sib)
              (pnodes H hok 0 c0 (f0 :: fs1)) =
            (some (nodeOf H hok (0 + fs2.length) (g.plug (plug c0 (f0 :: zs)))),
              pnodes H hok 0 (g.plug (plug c0 (f0 :: zs))) fs2) := by
          rw [hpn, iterFind_skip _ _ _ hnomatch]
          exact iterFind_hit _ _ _ hmatch
        have hsne := (sibNe_of_canon H hok (g :: fs2) _ 0 hcan2 (by rw [← plug_append, ← hfs]; exact hU0))
        have hstep := merge_step_node H hok g (plug c0 (f0 :: zs)) (.leaf k2 v2) (0 + fs2.length)
          (0 + fs1.length + 1) hsne.1
        have hR : deleteR H S st1 (sideHashes H hok (f0 :: fs1)) (pnodes H hok 0 c0 (f0 :: fs1)) =
            .ok (nodeOf H hok (0 + fs2.length) (g.plug (.leaf k2 v2)), sideHashes H hok fs2,
              pnodes H hok 0 (g.plug (plug c0 (f0 :: zs))) fs2,
              putNode S st1 (nodeOf H hok (0 + fs2.length) (g.plug (.leaf k2 v2)))) := by
          rw [show sideHashes H hok (f0 :: fs1) = hb H hok f0.sib :: sideHashes H hok fs1 from rfl]
          simp only [deleteR, hg0, hof0, hfirst, ↓reduceIte, hskip, hside, hfind]
          rw [hsib, hstep]
        have htree : plugC (.leaf k2 v2) (g :: fs2) = plug (.leaf k2 v2) (g :: fs2) := by
          simp only [plugC, plug]
          rw [plugC1_leaf_nonempty g k2 v2 hgne]
          exact plugC_node fs2 _ (plug1_isNode g _)
        rw [hleafT, htree] at hcn hUn ⊢
        refine ⟨_, delete_finish H S _ _ _ _ st1 hst1 _ _ _ _ hR _ _
          (mergeSides_plug H hok S false fs2 (g.plug (plug c0 (f0 :: zs))) (g.plug (.leaf k2 v2)) 0 _ hsne.2), ?_⟩
        have hsibs2 : SibsStored H hok S st1 0 (g :: fs2) := by
          have := hsibs1; rw [hfs] at this
          exact sibsStored_suffix H hok S _ _ this
        exact ⟨hcn, rfl, stored_mergeStore H hok S laws false (g :: fs2) (plug c0 (f0 :: zs)) (.leaf k2 v2) 0 st1 hUn
          (spineH_fresh H hok hcn hUn) (fun e => by cases e) hstleaf hsibs2, hUn⟩

/-- **`MerkleTree::delete` refines the structural `delete`**: on a state representing the canonical tree `t` it
succeeds and leaves a state representing `delete k t` -/
theorem delete_rep {s : SMT σ} {t : T} (hr : Rep H hok S s t) (k : Key32)
    (hUn : ∀ u, IsSub u (Smt.delete bit32 0 k t) → U u) :
    ∃ s', SmtStore.delete H S s k.val = (s', .ok ()) ∧ Rep H hok S s' (Smt.delete bit32 0 k t) := by
  obtain ⟨root, st⟩ := s
  have hr0 := hr
  obtain ⟨hcan, hroot, hst, hU0⟩ := hr
  simp only at hroot hst
  subst hroot
  unfold SmtStore.delete
  simp only [SMT.rootHash, nodeOf_hash]
  by_cases ht : t = .empty
  · subst ht
    exact ⟨_, by rw [if_pos (hb_empty H hok)], hr0⟩
  · rw [if_neg (hb_ne_zero H hok (hU0 t (IsSub.refl ht)) ht), pathSet_zipper H hok S hr0 k]
    simp only
    have hop := onPath_frames k t 0
    have hterm := term_cases k t 0
    have hplug := plug_frames k t 0
    generalize frames k 0 t = fs at hop hplug ⊢
    generalize term k 0 t = c0 at hterm hplug ⊢
    subst hplug
    have hcn := canon_delete bit32 width k 0 _ hcan
    rw [delete_plug k fs c0 0 hop] at hcn hUn ⊢
    rcases hterm with e | ⟨k', v', e⟩
    · subst e
      have hd : Smt.delete bit32 (0 + fs.length) k (.empty : T) = .empty := rfl
      rw [hd] at hcn hUn ⊢
      have hlk : (nodeOf H hok (0 + fs.length) (.empty : T)).leafKey = zeroSum := rfl
      rw [hlk]
      by_cases hk : zeroSum = k.val
      · rw [if_pos hk]
        exact deletePath_rep H hok S laws fs .empty st hcan hcn hU0 hUn hst (.inl rfl)
      · rw [if_neg hk, plugC_canon_noop hcan (.inl rfl)]
        exact ⟨_, rfl, hr0⟩
    · subst e
      have hlk : (nodeOf H hok (0 + fs.length) (.leaf k' v')).leafKey = k'.val := rfl
      rw [hlk]
      by_cases hk : k'.val = k.val
      · have hk' : k' = k := Subtype.ext hk
        subst hk'
        have hd : Smt.delete bit32 (0 + fs.length) k' (.leaf k' v') = .empty := by simp [Smt.delete]
        rw [hd] at hcn hUn ⊢
        rw [if_pos hk]
        exact deletePath_rep H hok S laws fs (.leaf k' v') st hcan hcn hU0 hUn hst (.inr ⟨k', v', rfl⟩)
      · have hk' : k' ≠ k := fun e => hk (by rw [e])
        have hd : Smt.delete bit32 (0 + fs.length) k (.leaf k' v') = .leaf k' v' := by
          simp [Smt.delete, hk']
        rw [hd, if_neg hk, plugC_canon_noop hcan (.inr ⟨k', v', rfl⟩)]
        exact ⟨_, rfl, hr0⟩

end FuelVerif.SmtRefine
