/-
Lemmas about `pathSet` / `generateProof` and the verifiers' fold on the structural sparse Merkle tree.
-/
import FuelVerif.Lemmas.SparseTree
namespace FuelVerif.Smt
open Tree
set_option linter.unusedSectionVars false

variable {K V Hh : Type} [DecidableEq K] (bit : K → Nat → Bool) (n : Nat)

/-- the hash functions never collide on the values that occur in a tree: leaf and node hashes are
injective, differ from each other (domain separation by the prefix byte) and from the zero sum -/
structure CollisionFree (P : Hashes K V Hh) : Prop where
  leaf_inj : ∀ k v k' v', P.leafH k v = P.leafH k' v' → k = k' ∧ v = v'
  node_inj : ∀ a b a' b', P.nodeH a b = P.nodeH a' b' → a = a' ∧ b = b'
  leaf_ne_node : ∀ k v a b, P.leafH k v ≠ P.nodeH a b
  leaf_ne_zero : ∀ k v, P.leafH k v ≠ P.zero
  node_ne_zero : ∀ a b, P.nodeH a b ≠ P.zero

variable (P : Hashes K V Hh)

/-- one verifier step at key-bit index `i` -/
def stepUp (k : K) (i : Nat) (side cur : Hh) : Hh :=
  if bit k i then P.nodeH side cur else P.nodeH cur side

theorem foldUp_append (d : Nat) (k : K) (x : Hh) :
    ∀ (s : List Hh) (cur : Hh),
      foldUp bit P d k (s ++ [x]) cur = stepUp bit P k d x (foldUp bit P (d + 1) k s cur)
  | [], cur => by simp [foldUp, stepUp]
  | y :: s, cur => by
    have ih := foldUp_append d k x s
    simp only [List.cons_append, foldUp, List.length_append, List.length_cons, List.length_nil]
    rw [ih]
    have : d + (s.length + (0 + 1)) = d + 1 + s.length := by omega
    rw [this]

/-- **completeness of the path set**: folding the side hashes of `pathSet` from the terminal node's hash
reproduces the subtree's hash -/
theorem pathSet_fold (k : K) :
    ∀ (d : Nat) (t : Tree K V),
      foldUp bit P d k (pathSet bit P d k t).1 ((pathSet bit P d k t).2.hash P) = t.hash P
  | _, .empty => by simp [pathSet, foldUp]
  | _, .leaf _ _ => by simp [pathSet, foldUp]
  | d, .node l r => by
    unfold pathSet
    split
    · next hb =>
      simp only
      rw [foldUp_append, pathSet_fold k (d + 1) r]
      simp [stepUp, hb, Tree.hash]
    · next hb =>
      simp only
      rw [foldUp_append, pathSet_fold k (d + 1) l]
      simp [stepUp, hb, Tree.hash]

theorem pathSet_length (k : K) :
    ∀ (d : Nat) (t : Tree K V), d ≤ n → Canon bit n d t → (pathSet bit P d k t).1.length ≤ n - d
  | _, .empty, _, _ => by simp [pathSet]
  | _, .leaf _ _, _, _ => by simp [pathSet]
  | d, .node l r, hd, hc => by
    obtain ⟨hdn, _, _, _, hcl, hcr⟩ := hc
    unfold pathSet
    split
    · have := pathSet_length k (d + 1) r (by omega) hcr
      simp only [List.length_append, List.length_cons, List.length_nil]; omega
    · have := pathSet_length k (d + 1) l (by omega) hcl
      simp only [List.length_append, List.length_cons, List.length_nil]; omega

/-- the node the path ends at decides `get` -/
theorem pathSet_terminal (k : K) :
    ∀ (d : Nat) (t : Tree K V),
      ((pathSet bit P d k t).2 = .empty ∧ get bit d k t = none) ∨
      (∃ k' v', (pathSet bit P d k t).2 = .leaf k' v' ∧
        get bit d k t = if k' = k then some v' else none)
  | _, .empty => by simp [pathSet, get]
  | _, .leaf k' v' => .inr ⟨k', v', by simp [pathSet], by simp [get]⟩
  | d, .node l r => by
    unfold pathSet get
    split
    · exact pathSet_terminal k (d + 1) r
    · exact pathSet_terminal k (d + 1) l

theorem list_nil_or_concat {α : Type} : ∀ (l : List α), l = [] ∨ ∃ init x, l = init ++ [x]
  | [] => .inl rfl
  | a :: l => by
    cases list_nil_or_concat l with
    | inl h => subst h; exact .inr ⟨[], a, rfl⟩
    | inr h => obtain ⟨init, x, h⟩ := h; subst h; exact .inr ⟨a :: init, x, rfl⟩

/-- **soundness of the fold**: under collision freedom, a fold that reaches the hash of a tree has
walked down that tree along the key's bits; the start value is the hash of the subtree reached and `get`
is decided there -/
theorem foldUp_sound (hcf : CollisionFree P) (k : K) (start : Hh) :
    ∀ (m : Nat) (sides : List Hh), sides.length = m → ∀ (d : Nat) (t : Tree K V),
      foldUp bit P d k sides start = t.hash P →
      ∃ t' : Tree K V, start = t'.hash P ∧ get bit d k t = get bit (d + sides.length) k t'
  | 0, sides, hm, d, t, h => by
    have : sides = [] := List.length_eq_zero_iff.mp hm
    subst this
    exact ⟨t, by simpa [foldUp] using h, by simp⟩
  | m + 1, sides, hm, d, t, h => by
    cases list_nil_or_concat sides with
    | inl e => subst e; simp at hm
    | inr e =>
      obtain ⟨init, x, e⟩ := e
      subst e
      have hlen : init.length = m := by simp at hm; omega
      rw [foldUp_append] at h
      unfold stepUp at h
      cases t with
      | empty =>
        exfalso
        simp only [Tree.hash] at h
        split at h <;> exact hcf.node_ne_zero _ _ h
      | leaf k' v' =>
        exfalso
        simp only [Tree.hash] at h
        split at h <;> exact hcf.leaf_ne_node _ _ _ _ h.symm
      | node l r =>
        simp only [Tree.hash] at h
        by_cases hb : bit k d = true
        · simp only [hb, ↓reduceIte] at h
          obtain ⟨_, h2⟩ := hcf.node_inj _ _ _ _ h
          obtain ⟨t', ht', hg⟩ := foldUp_sound hcf k start m init hlen (d + 1) r h2
          refine ⟨t', ht', ?_⟩
          simp only [get, hb, ↓reduceIte, List.length_append, List.length_cons, List.length_nil]
          rw [hg]
          congr 1
          omega
        · simp only [hb, Bool.false_eq_true, ↓reduceIte] at h
          obtain ⟨h1, _⟩ := hcf.node_inj _ _ _ _ h
          obtain ⟨t', ht', hg⟩ := foldUp_sound hcf k start m init hlen (d + 1) l h1
          refine ⟨t', ht', ?_⟩
          simp only [get, hb, Bool.false_eq_true, ↓reduceIte, List.length_append, List.length_cons,
            List.length_nil]
          rw [hg]
          congr 1
          omega

/-- under collision freedom a tree is determined by its hash -/
theorem hash_leaf_inv (hcf : CollisionFree P) {k : K} {v : V} :
    ∀ {t : Tree K V}, P.leafH k v = t.hash P → t = .leaf k v
  | .empty, h => absurd h (hcf.leaf_ne_zero _ _)
  | .leaf k' v', h => by
    obtain ⟨h1, h2⟩ := hcf.leaf_inj _ _ _ _ h
    subst h1 h2; rfl
  | .node _ _, h => absurd h (hcf.leaf_ne_node _ _ _ _)

theorem hash_zero_inv (hcf : CollisionFree P) :
    ∀ {t : Tree K V}, P.zero = t.hash P → t = .empty
  | .empty, _ => rfl
  | .leaf _ _, h => absurd h.symm (hcf.leaf_ne_zero _ _)
  | .node _ _, h => absurd h.symm (hcf.node_ne_zero _ _)

theorem hash_injective (hcf : CollisionFree P) :
    ∀ (t t' : Tree K V), t.hash P = t'.hash P → t = t'
  | .empty, t', h => (hash_zero_inv P hcf h).symm
  | .leaf k v, t', h => (hash_leaf_inv P hcf h).symm
  | .node l r, .empty, h => absurd h (hcf.node_ne_zero _ _)
  | .node l r, .leaf _ _, h => absurd h.symm (hcf.leaf_ne_node _ _ _ _)
  | .node l r, .node l' r', h => by
    obtain ⟨h1, h2⟩ := hcf.node_inj _ _ _ _ h
    rw [hash_injective hcf l l' h1, hash_injective hcf r r' h2]

end FuelVerif.Smt
