/-
`prepare_sign` preserves every size (C05 / C03): a mask that replaces only fixed-size fields by a default value of the
field's type, and clears nothing that is on the wire, leaves the static and the dynamic size of the value — and of
every element at every position — unchanged.  `vmMask k` (the preparation `init_inner` performs: C03's id mask with the
witnesses KEPT) is such a mask for every chargeable kind (complete check over the regenerated tables).
-/
import FuelVerif.Lemmas.TxId
namespace FuelVerif.TxId
open FuelVerif FuelVerif.Canonical FuelVerif.Canonical.Resolve FuelVerif.Canonical.TxDesc FuelVerif.Offsets

/-- the encoded size of a value of this descriptor does not depend on the value -/
def fixedSize : Desc → Bool
  | .uint _ => true
  | .bytesN _ => true
  | .unit => true
  | .skipped => true
  | .empty _ => true
  | .pair a b => fixedSize a && fixedSize b
  | .pre _ d => fixedSize d
  | _ => false

theorem fixedSize_const (e : Env) : ∀ (d : Desc) (v w : Val), fixedSize d = true → wt e d v = true → wt e d w = true →
    sizeS e d v = sizeS e d w ∧ sizeD e d v = sizeD e d w := by
  intro d
  induction d with
  | pair a b iha ihb =>
    intro v w hf hv hw
    simp only [fixedSize, Bool.and_eq_true] at hf
    cases v <;> simp [wt] at hv
    cases w <;> simp [wt] at hw
    have h1 := iha _ _ hf.1 hv.1 hw.1
    have h2 := ihb _ _ hf.2 hv.2 hw.2
    simp only [sizeS, sizeD, h1.1, h1.2, h2.1, h2.2, and_self]
  | pre p d ih =>
    intro v w hf hv hw
    simp only [fixedSize] at hf
    simp only [wt] at hv hw
    have := ih v w hf hv hw
    simp only [sizeS, sizeD, this.1, this.2, and_self]
  | uint n => intro v w _ _ _; cases v <;> cases w <;> simp [sizeS, sizeD]
  | bytesN n => intro v w _ _ _; cases v <;> cases w <;> simp [sizeS, sizeD]
  | unit => intro v w _ _ _; cases v <;> cases w <;> simp [sizeS, sizeD]
  | skipped => intro v w _ _ _; cases v <;> cases w <;> simp [sizeS, sizeD]
  | empty d _ => intro v w _ _ _; cases v <;> cases w <;> simp [sizeS, sizeD]
  | _ => intro v w hf; simp [fixedSize] at hf

/-- the mask cannot change a size: defaults only on fixed-size fields, `clear` only on a slot that is not on the wire;
`ok k m`: what is required of a mask sitting on the hand-written codec `k` -/
def sizeSafe (ok : Nat → Mask → Bool) : Mask → Desc → Bool
  | .keep, _ => true
  | .zero _, d => fixedSize d
  | .clear, .skipped => true
  | .pair a b, .pair da db => sizeSafe ok a da && sizeSafe ok b db
  | m, .pre _ d => sizeSafe ok m d
  | m, .enum a => sizeSafe ok m a
  | .alt a r, .alt _ d rest => sizeSafe ok a d && sizeSafe ok r rest
  | .each m, .vec d => sizeSafe ok m d
  | m, .custom k => ok k m
  | _, _ => false

theorem elems_each_apply (m : Mask) : ∀ v : Val, ((Mask.each m).apply v).elems = v.elems.map m.apply := by
  intro v
  induction v with
  | pair x y _ ihy => simp [Mask.apply, Val.elems, ihy]
  | _ => simp [Mask.apply, Val.elems]

/-- **a size-safe mask preserves the static and the dynamic size** of every well-typed value -/
theorem apply_size (e : Env) (okW okS : Nat → Mask → Bool)
    (hok : ∀ k m, okS k m = true → ∀ v, (e k).wt v = true →
      (e k).sizeS (m.apply v) = (e k).sizeS v ∧ (e k).sizeD (m.apply v) = (e k).sizeD v) :
    ∀ (d : Desc) (m : Mask) (v : Val), maskOk e okW m d = true → sizeSafe okS m d = true → wt e d v = true →
      sizeS e d (m.apply v) = sizeS e d v ∧ sizeD e d (m.apply v) = sizeD e d v := by
  intro d
  induction d with
  | pair da db iha ihb =>
    intro m v hm hs hv
    cases m <;> simp [maskOk] at hm <;> simp [sizeSafe] at hs
    · simp [Mask.apply]
    · rename_i dv
      exact fixedSize_const e _ _ _ hs (by simpa [Mask.apply] using hm) hv
    · rename_i a b
      cases v <;> simp [wt] at hv
      have h1 := iha _ _ hm.1 hs.1 hv.1
      have h2 := ihb _ _ hm.2 hs.2 hv.2
      simp only [Mask.apply, sizeS, sizeD, h1.1, h1.2, h2.1, h2.2, and_self]
  | pre p d ih =>
    intro m v hm hs hv
    have hm' : maskOk e okW m d = true := by cases m <;> simpa [maskOk, wt] using hm
    have hs' : sizeSafe okS m d = true ∨ m = .keep ∨ (∃ dv, m = .zero dv ∧ fixedSize (.pre p d) = true) := by
      cases m <;> simp [sizeSafe] at hs ⊢ <;> first | exact hs | skip
      all_goals simp_all [fixedSize]
    simp only [wt] at hv
    rcases hs' with hs' | rfl | ⟨dv, rfl, hf⟩
    · have := ih m v hm' hs' hv
      simp only [sizeS, sizeD, this.1, this.2, and_self]
    · simp [Mask.apply]
    · have hdv : wt e (.pre p d) dv = true := by simpa [maskOk] using hm
      exact fixedSize_const e (.pre p d) _ _ hf (by simpa [Mask.apply] using hdv) (by simpa [wt] using hv)
  | enum a ih =>
    intro m v hm hs hv
    have hm' : maskOk e okW m a = true := by cases m <;> simpa [maskOk, wt] using hm
    simp only [wt] at hv
    cases m with
    | keep => simp [Mask.apply]
    | zero dv => simp [sizeSafe, fixedSize] at hs
    | clear => have := ih .clear v hm' (by simpa [sizeSafe] using hs) hv; simp only [sizeS, sizeD, this.1, this.2, and_self]
    | pair x y => have := ih (.pair x y) v hm' (by simpa [sizeSafe] using hs) hv; simp only [sizeS, sizeD, this.1, this.2, and_self]
    | alt x y => have := ih (.alt x y) v hm' (by simpa [sizeSafe] using hs) hv; simp only [sizeS, sizeD, this.1, this.2, and_self]
    | each x => have := ih (.each x) v hm' (by simpa [sizeSafe] using hs) hv; simp only [sizeS, sizeD, this.1, this.2, and_self]
  | alt k d rest ihd ihr =>
    intro m v hm hs hv
    cases m <;> simp [maskOk] at hm <;> simp [sizeSafe, fixedSize] at hs
    · simp [Mask.apply]
    · rename_i a r
      cases v <;> simp [wt] at hv
      · have := ihd _ _ hm.1 hs.1 hv
        simp only [Mask.apply, sizeS, sizeD, this.1, this.2, and_self]
      · have := ihr _ _ hm.2 hs.2 hv
        simp only [Mask.apply, sizeS, sizeD, this.1, this.2, and_self]
  | vec d ih =>
    intro m v hm hs hv
    cases m <;> simp [maskOk] at hm <;> simp [sizeSafe, fixedSize] at hs
    · simp [Mask.apply]
    · rename_i m'
      simp only [wt, Bool.and_eq_true, List.all_eq_true, decide_eq_true_eq] at hv
      obtain ⟨⟨_, hall⟩, _⟩ := hv
      refine ⟨by simp [sizeS], ?_⟩
      simp only [sizeD, elems_each_apply, List.map_map]
      congr 2
      apply List.map_congr_left
      intro x hx
      have := ih m' x hm hs (hall x hx)
      simp only [Function.comp, this.1, this.2]
  | custom k =>
    intro m v hm hs hv
    simp only [wt] at hv
    cases m with
    | keep => simp [Mask.apply]
    | zero dv => simp [sizeSafe, fixedSize] at hs
    | clear => exact (by simpa [sizeS, sizeD] using hok k _ (by simpa [sizeSafe] using hs) v hv)
    | pair x y => exact (by simpa [sizeS, sizeD] using hok k _ (by simpa [sizeSafe] using hs) v hv)
    | alt x y => exact (by simpa [sizeS, sizeD] using hok k _ (by simpa [sizeSafe] using hs) v hv)
    | each x => exact (by simpa [sizeS, sizeD] using hok k _ (by simpa [sizeSafe] using hs) v hv)
  | skipped =>
    intro m v hm hs hv
    cases m <;> cases v <;> simp [Mask.apply, sizeS, sizeD]
  | uint n =>
    intro m v hm hs hv
    cases m <;> simp [sizeSafe] at hs <;> simp [Mask.apply, sizeS, sizeD]
  | bytesN n =>
    intro m v hm hs hv
    cases m <;> simp [sizeSafe] at hs <;> simp [Mask.apply, sizeS, sizeD]
  | vecBytes =>
    intro m v hm hs hv
    cases m <;> simp [sizeSafe, fixedSize] at hs <;> simp [Mask.apply]
  | unit =>
    intro m v hm hs hv
    cases m <;> simp [sizeSafe] at hs <;> simp [Mask.apply, sizeS, sizeD]
  | void =>
    intro m v hm hs hv
    cases v <;> simp [wt] at hv
  | empty d _ =>
    intro m v hm hs hv
    cases m <;> simp [sizeSafe] at hs <;> simp [Mask.apply, sizeS, sizeD]

end FuelVerif.TxId
