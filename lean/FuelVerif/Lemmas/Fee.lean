/-
Helper lemmas for C18: panic-free ("T" = total) versions of the fee functions, the bridge
`f … = .ok (fT …)` under the no-panic guards, and the arithmetic of saturating ops / ceiling division.
-/
import FuelVerif.Model.Fee
namespace FuelVerif.Fee

/-! ### guards under which nothing panics -/

/-- a `LightOperation` must not have `units_per_gas = 0` (gas.rs `expect("units_per_gas cannot be zero")`) -/
def DepCost.Ok : DepCost → Prop
  | .light _ upg => upg ≠ 0
  | .heavy _ _ => True

instance : DecidablePred DepCost.Ok := fun c => by
  cases c <;> simp only [DepCost.Ok] <;> infer_instance

/-- all four dependent costs read by the fee code are well formed -/
structure GasCosts.Ok (gc : GasCosts) : Prop where
  s256 : gc.s256.Ok
  contractRoot : gc.contractRoot.Ok
  stateRoot : gc.stateRoot.Ok
  vmInitialization : gc.vmInitialization.Ok

instance (gc : GasCosts) : Decidable gc.Ok :=
  if h : gc.s256.Ok ∧ gc.contractRoot.Ok ∧ gc.stateRoot.Ok ∧ gc.vmInitialization.Ok
  then isTrue ⟨h.1, h.2.1, h.2.2.1, h.2.2.2⟩
  else isFalse (fun k => h ⟨k.1, k.2, k.3, k.4⟩)

/-! ### total versions -/

def resolveT : DepCost → Nat → Nat
  | .light b upg, u => satAdd b (u / upg)
  | .heavy b gpu, u => satAdd b (satMul u gpu)

def inputGasT (gc : GasCosts) (size : Nat) : FeeInput → Nat
  | .signed _ => gc.eck1
  | .predicate len used => satAdd (satAdd (resolveT gc.contractRoot len) used) (resolveT gc.vmInitialization size)
  | .other => 0

def gasUsedByInputsAuxT (gc : GasCosts) (size : Nat) : List Nat → Nat → List FeeInput → Nat
  | _, acc, [] => acc
  | seen, acc, .signed w :: rest =>
    if seen.contains w then gasUsedByInputsAuxT gc size seen acc rest
    else gasUsedByInputsAuxT gc size (w :: seen) (satAdd acc (inputGasT gc size (.signed w))) rest
  | seen, acc, .predicate l u :: rest =>
    gasUsedByInputsAuxT gc size seen (satAdd acc (inputGasT gc size (.predicate l u))) rest
  | seen, acc, .other :: rest => gasUsedByInputsAuxT gc size seen acc rest

def gasUsedByMetadataT (gc : GasCosts) (v : TxView) : Nat :=
  match v.kind with
  | .script _ => resolveT gc.s256 v.size
  | .create contractLen slots =>
    satAdd (satAdd (satAdd (resolveT gc.contractRoot contractLen) (resolveT gc.stateRoot slots))
      (resolveT gc.s256 (4 + 32 + 32 + 32))) (resolveT gc.s256 v.size)
  | .upgradeConsensus len => satAdd (resolveT gc.s256 v.size) (resolveT gc.s256 len)
  | .upgradeState => satAdd (resolveT gc.s256 v.size) 0
  | .upload bytecodeLen subsections =>
    satAdd (satAdd (resolveT gc.s256 v.size) (resolveT gc.s256 bytecodeLen)) (resolveT gc.stateRoot subsections)
  | .blob blobLen => satAdd (resolveT gc.s256 v.size) (resolveT gc.s256 blobLen)

def minGasBaseT (gc : GasCosts) (fp : FeeParams) (v : TxView) : Nat :=
  satAdd (satAdd (satAdd (gasUsedByInputsAuxT gc v.size [] 0 v.inputs) (gasUsedByMetadataT gc v))
    (satMul fp.gasPerByte v.size)) (resolveT gc.vmInitialization v.size)

def minGasT (gc : GasCosts) (fp : FeeParams) (v : TxView) : Nat :=
  match v.kind with
  | .upload bytecodeLen _ => satAdd (minGasBaseT gc fp v) (satMul gc.newStoragePerByte bytecodeLen)
  | _ => minGasBaseT gc fp v

def maxGasT (gc : GasCosts) (fp : FeeParams) (v : TxView) : Nat :=
  match v.kind with
  | .script gasLimit => satAdd (satAdd (minGasT gc fp v) (remainingWitnessGas fp v)) gasLimit
  | _ => satAdd (minGasT gc fp v) (remainingWitnessGas fp v)

/-- `⌈t / f⌉` in the shape of `u128::div_ceil` -/
def divCeil (t f : Nat) : Nat := if t % f > 0 then t / f + 1 else t / f

/-- the fee the refund computation considers used: `⌈sat(minGas + used)·price / factor⌉ + tip` -/
def usedFeeT (gc : GasCosts) (fp : FeeParams) (v : TxView) (usedGas gasPrice : Nat) : Nat :=
  divCeil (satAdd (minGasT gc fp v) usedGas * gasPrice) fp.gasPriceFactor + v.tip.getD 0

/-! ### saturating arithmetic -/

theorem satAdd_le (a b : Nat) : satAdd a b ≤ u64Max := by simp only [satAdd, u64Max]; omega
theorem satMul_le (a b : Nat) : satMul a b ≤ u64Max := by simp only [satMul, u64Max]; omega
theorem le_satAdd {a b : Nat} (h : a ≤ u64Max) : a ≤ satAdd a b := by
  simp only [satAdd, u64Max] at *; omega
theorem satAdd_mono_right {a b c : Nat} (h : b ≤ c) : satAdd a b ≤ satAdd a c := by
  simp only [satAdd]; omega
theorem satAdd_mono_left {a b c : Nat} (h : a ≤ b) : satAdd a c ≤ satAdd b c := by
  simp only [satAdd]; omega
theorem satAdd_eq_of_le {a b : Nat} (h : a + b ≤ u64Max) : satAdd a b = a + b := by
  simp only [satAdd, u64Max] at *; omega

theorem resolveT_le (c : DepCost) (u : Nat) : resolveT c u ≤ u64Max := by
  cases c <;> exact satAdd_le _ _

/-! ### ceiling division -/

theorem divCeil_eq {t f : Nat} (hf : 0 < f) : divCeil t f = (t + f - 1) / f := by
  unfold divCeil
  have hdm := Nat.div_add_mod t f
  have hr := Nat.mod_lt t hf
  generalize hq : t / f = q at *
  generalize hrr : t % f = r at *
  split
  · -- r > 0 : t + f - 1 = f * (q + 1) + (r - 1)
    symm
    apply Nat.div_eq_of_lt_le
    · rw [Nat.add_mul, Nat.one_mul, Nat.mul_comm q f]; omega
    · rw [Nat.add_mul, Nat.add_mul, Nat.one_mul, Nat.mul_comm q f]; omega
  · symm
    apply Nat.div_eq_of_lt_le
    · rw [Nat.mul_comm q f]; omega
    · rw [Nat.add_mul, Nat.one_mul, Nat.mul_comm q f]; omega

/-- `divCeil t f` is an upper bound: `t ≤ ⌈t/f⌉ · f` -/
theorem le_divCeil_mul {t f : Nat} (hf : 0 < f) : t ≤ divCeil t f * f := by
  unfold divCeil
  have hdm := Nat.div_add_mod t f
  have hr := Nat.mod_lt t hf
  split
  · rw [Nat.add_mul, Nat.one_mul, Nat.mul_comm]; omega
  · rw [Nat.mul_comm]; omega

/-- … and the least one: any `c` with `t ≤ c · f` is at least `⌈t/f⌉` -/
theorem divCeil_le_of_le_mul {t f c : Nat} (hf : 0 < f) (h : t ≤ c * f) : divCeil t f ≤ c := by
  rw [divCeil_eq hf]
  have h1 : (t + f - 1) / f ≤ (c * f + f - 1) / f := Nat.div_le_div_right (by omega)
  have h2 : (c * f + f - 1) / f = c := by
    apply Nat.div_eq_of_lt_le
    · omega
    · rw [Nat.add_mul, Nat.one_mul]; omega
  omega

theorem divCeil_mono {t t' f : Nat} (hf : 0 < f) (h : t ≤ t') : divCeil t f ≤ divCeil t' f := by
  rw [divCeil_eq hf, divCeil_eq hf]
  exact Nat.div_le_div_right (by omega)

theorem divCeil_le_self {t f : Nat} (hf : 0 < f) : divCeil t f ≤ t := by
  apply divCeil_le_of_le_mul hf
  exact Nat.le_mul_of_pos_right t hf

/-- the product of two `u64` fits `u128` (the `expect` in `gas_to_fee` cannot fire) -/
theorem mul_u64_le {g p : Nat} (hg : g ≤ u64Max) (hp : p ≤ u64Max) :
    g * p ≤ 340282366920938463426481119284349108225 := by
  have := Nat.mul_le_mul hg hp
  simpa [u64Max] using this

/-! ### the bridge: under the guards each model function returns `.ok` of its total version -/

theorem resolve_ok {c : DepCost} (h : c.Ok) (u : Nat) : resolve c u = .ok (resolveT c u) := by
  cases c with
  | light b upg =>
    simp only [DepCost.Ok] at h
    simp [resolve, resolveWithoutBase, resolveT, DepCost.base, h, bind, Except.bind, pure, Except.pure]
  | heavy b gpu =>
    simp [resolve, resolveWithoutBase, resolveT, DepCost.base, bind, Except.bind, pure, Except.pure]

theorem resolve_light_zero (b u : Nat) : resolve (.light b 0) u = .error .unitsPerGasZero := by
  simp [resolve, resolveWithoutBase, bind, Except.bind]

theorem inputGas_ok {gc : GasCosts} (h : gc.Ok) (size : Nat) (i : FeeInput) :
    inputGas gc size i = .ok (inputGasT gc size i) := by
  cases i <;>
    simp [inputGas, inputGasT, resolve_ok h.vmInitialization, resolve_ok h.contractRoot,
      bind, Except.bind, pure, Except.pure]

theorem gasUsedByInputsAux_ok {gc : GasCosts} (h : gc.Ok) (size : Nat) (seen : List Nat) (acc : Nat)
    (is : List FeeInput) :
    gasUsedByInputsAux gc size seen acc is = .ok (gasUsedByInputsAuxT gc size seen acc is) := by
  induction is generalizing seen acc with
  | nil => simp [gasUsedByInputsAux, gasUsedByInputsAuxT, pure, Except.pure]
  | cons i rest ih =>
    cases i with
    | signed w =>
      simp only [gasUsedByInputsAux, gasUsedByInputsAuxT, inputGas_ok h, bind, Except.bind]
      split <;> exact ih _ _
    | predicate l u =>
      simp only [gasUsedByInputsAux, gasUsedByInputsAuxT, inputGas_ok h, bind, Except.bind]
      exact ih _ _
    | other =>
      simp only [gasUsedByInputsAux, gasUsedByInputsAuxT]
      exact ih _ _

theorem gasUsedByMetadata_ok {gc : GasCosts} (h : gc.Ok) (v : TxView) :
    gasUsedByMetadata gc v = .ok (gasUsedByMetadataT gc v) := by
  unfold gasUsedByMetadata gasUsedByMetadataT
  cases v.kind <;>
    simp [resolve_ok h.s256, resolve_ok h.contractRoot, resolve_ok h.stateRoot,
      bind, Except.bind, pure, Except.pure]

theorem minGasBase_ok {gc : GasCosts} (h : gc.Ok) (fp : FeeParams) (v : TxView) :
    minGasBase gc fp v = .ok (minGasBaseT gc fp v) := by
  simp [minGasBase, minGasBaseT, gasUsedByInputs, resolve_ok h.vmInitialization,
    gasUsedByInputsAux_ok h, gasUsedByMetadata_ok h, bind, Except.bind, pure, Except.pure]

theorem minGas_ok {gc : GasCosts} (h : gc.Ok) (fp : FeeParams) (v : TxView) :
    minGas gc fp v = .ok (minGasT gc fp v) := by
  unfold minGas minGasT
  cases v.kind <;> simp [minGasBase_ok h, bind, Except.bind, pure, Except.pure]

theorem maxGas_ok {gc : GasCosts} (h : gc.Ok) (fp : FeeParams) (v : TxView) :
    maxGas gc fp v = .ok (maxGasT gc fp v) := by
  unfold maxGas maxGasT
  cases hk : v.kind <;> simp [minGas_ok h, bind, Except.bind, pure, Except.pure]

theorem gasToFee_ok {g p f : Nat} (hg : g ≤ u64Max) (hp : p ≤ u64Max) (hf : f ≠ 0) :
    gasToFee g p f = .ok (divCeil (g * p) f) := by
  have := mul_u64_le hg hp
  unfold gasToFee divCeil
  simp only
  rw [if_neg (by omega), if_neg hf]

theorem gasToFee_zero_factor {g p : Nat} (hg : g ≤ u64Max) (hp : p ≤ u64Max) :
    gasToFee g p 0 = .error .divByZero := by
  have := mul_u64_le hg hp
  unfold gasToFee
  simp only
  rw [if_neg (by omega)]
  simp

/-! ### bounds -/

theorem minGasBaseT_le (gc : GasCosts) (fp : FeeParams) (v : TxView) : minGasBaseT gc fp v ≤ u64Max :=
  satAdd_le _ _

theorem minGasT_le (gc : GasCosts) (fp : FeeParams) (v : TxView) : minGasT gc fp v ≤ u64Max := by
  unfold minGasT
  split
  · exact satAdd_le _ _
  · exact minGasBaseT_le _ _ _

theorem maxGasT_le (gc : GasCosts) (fp : FeeParams) (v : TxView) : maxGasT gc fp v ≤ u64Max := by
  unfold maxGasT
  split <;> exact satAdd_le _ _

theorem minGasT_le_maxGasT (gc : GasCosts) (fp : FeeParams) (v : TxView) :
    minGasT gc fp v ≤ maxGasT gc fp v := by
  have h := minGasT_le gc fp v
  unfold maxGasT
  split
  · exact Nat.le_trans (le_satAdd h) (le_satAdd (satAdd_le _ _))
  · exact le_satAdd h

/-- `gas_fee.saturating_add(tip as u128)` never saturates -/
theorem satAdd128_fee {g p f tip : Nat} (hg : g ≤ u64Max) (hp : p ≤ u64Max) (hf : 0 < f) (ht : tip ≤ u64Max) :
    satAdd128 (divCeil (g * p) f) tip = divCeil (g * p) f + tip := by
  have h1 := mul_u64_le hg hp
  have h2 := @divCeil_le_self (g * p) f hf
  simp only [satAdd128, u64Max] at *
  omega

/-! ### fees and refund, total versions and bridge -/

def minFeeT (gc : GasCosts) (fp : FeeParams) (v : TxView) (p : Nat) : Nat :=
  divCeil (minGasT gc fp v * p) fp.gasPriceFactor + v.tip.getD 0

def maxFeeT (gc : GasCosts) (fp : FeeParams) (v : TxView) (p : Nat) : Nat :=
  divCeil (maxGasT gc fp v * p) fp.gasPriceFactor + v.tip.getD 0

/-- `refund_fee` without the panic layer -/
def refundT (gc : GasCosts) (fp : FeeParams) (v : TxView) (u p : Nat) : Option Nat :=
  if usedFeeT gc fp v u p ≤ u64Max then
    (if usedFeeT gc fp v u p ≤ v.maxFee.getD 0 then some (v.maxFee.getD 0 - usedFeeT gc fp v u p) else none)
  else none

theorem minFee_ok {gc : GasCosts} (h : gc.Ok) {fp : FeeParams} (hf : fp.gasPriceFactor ≠ 0) (v : TxView)
    {p : Nat} (hp : p ≤ u64Max) (ht : v.tip.getD 0 ≤ u64Max) :
    minFee gc fp v p = .ok (minFeeT gc fp v p) := by
  simp only [minFee, minFeeT, minGas_ok h, gasToFee_ok (minGasT_le gc fp v) hp hf, bind, Except.bind, pure,
    Except.pure, satAdd128_fee (minGasT_le gc fp v) hp (Nat.pos_of_ne_zero hf) ht]

theorem maxFee_ok {gc : GasCosts} (h : gc.Ok) {fp : FeeParams} (hf : fp.gasPriceFactor ≠ 0) (v : TxView)
    {p : Nat} (hp : p ≤ u64Max) (ht : v.tip.getD 0 ≤ u64Max) :
    maxFee gc fp v p = .ok (maxFeeT gc fp v p) := by
  simp only [maxFee, maxFeeT, maxGas_ok h, gasToFee_ok (maxGasT_le gc fp v) hp hf, bind, Except.bind, pure,
    Except.pure, satAdd128_fee (maxGasT_le gc fp v) hp (Nat.pos_of_ne_zero hf) ht]

theorem refundFee_ok {gc : GasCosts} (h : gc.Ok) {fp : FeeParams} (hf : fp.gasPriceFactor ≠ 0) (v : TxView)
    (u : Nat) {p : Nat} (hp : p ≤ u64Max) (ht : v.tip.getD 0 ≤ u64Max) :
    refundFee gc fp v u p = .ok (refundT gc fp v u p) := by
  have hs : satAdd (minGasT gc fp v) u ≤ u64Max := satAdd_le _ _
  simp only [refundFee, refundT, usedFeeT, minGas_ok h, gasToFee_ok hs hp hf, bind, Except.bind, pure,
    Except.pure, satAdd128_fee hs hp (Nat.pos_of_ne_zero hf) ht, toU64?, checkedSub, u64Max]
  by_cases h1 : divCeil (satAdd (minGasT gc fp v) u * p) fp.gasPriceFactor + v.tip.getD 0 ≤ 18446744073709551615
  · by_cases h2 : divCeil (satAdd (minGasT gc fp v) u * p) fp.gasPriceFactor + v.tip.getD 0 ≤ v.maxFee.getD 0 <;>
      simp [h1, h2]
  · simp [h1]

theorem minFeeT_le_maxFeeT (gc : GasCosts) {fp : FeeParams} (hf : fp.gasPriceFactor ≠ 0) (v : TxView) (p : Nat) :
    minFeeT gc fp v p ≤ maxFeeT gc fp v p := by
  unfold minFeeT maxFeeT
  have := divCeil_mono (Nat.pos_of_ne_zero hf) (Nat.mul_le_mul_right p (minGasT_le_maxGasT gc fp v))
  omega

theorem usedFeeT_mono (gc : GasCosts) {fp : FeeParams} (hf : fp.gasPriceFactor ≠ 0) (v : TxView) (p : Nat)
    {u u' : Nat} (h : u ≤ u') : usedFeeT gc fp v u p ≤ usedFeeT gc fp v u' p := by
  unfold usedFeeT
  have := divCeil_mono (Nat.pos_of_ne_zero hf) (Nat.mul_le_mul_right p (satAdd_mono_right (a := minGasT gc fp v) h))
  omega

/-- `checked_from_tx` without the panic layer -/
def checkedFromTxT (gc : GasCosts) (fp : FeeParams) (v : TxView) (p : Nat) : Option TransactionFee :=
  if maxFeeT gc fp v p ≤ u64Max then some ⟨minFeeT gc fp v p, maxFeeT gc fp v p, minGasT gc fp v, maxGasT gc fp v⟩
  else none

theorem checkedFromTx_ok {gc : GasCosts} (h : gc.Ok) {fp : FeeParams} (hf : fp.gasPriceFactor ≠ 0) (v : TxView)
    {p : Nat} (hp : p ≤ u64Max) (ht : v.tip.getD 0 ≤ u64Max) :
    checkedFromTx gc fp v p = .ok (checkedFromTxT gc fp v p) := by
  have hle := minFeeT_le_maxFeeT gc hf v p
  simp only [checkedFromTx, checkedFromTxT, minGas_ok h, maxGas_ok h, minFee_ok h hf v hp ht,
    maxFee_ok h hf v hp ht, bind, Except.bind, pure, Except.pure, toU64?, u64Max] at *
  by_cases h1 : maxFeeT gc fp v p ≤ 18446744073709551615
  · have h2 : minFeeT gc fp v p ≤ 18446744073709551615 := by omega
    have h3 : ¬ minFeeT gc fp v p > maxFeeT gc fp v p := by omega
    simp [h1, h2, h3]
  · by_cases h2 : minFeeT gc fp v p ≤ 18446744073709551615 <;> simp [h1, h2]

def intoReadyT (gc : GasCosts) (fp : FeeParams) (v : TxView) (p : Nat) : ReadyVerdict :=
  if maxFeeT gc fp v p ≤ u64Max then
    (if maxFeeT gc fp v p > v.maxFee.getD 0 then .insufficientMaxFee else .ready)
  else .balanceOverflow

theorem intoReady_ok {gc : GasCosts} (h : gc.Ok) {fp : FeeParams} (hf : fp.gasPriceFactor ≠ 0) (v : TxView)
    {p : Nat} (hp : p ≤ u64Max) (ht : v.tip.getD 0 ≤ u64Max) :
    intoReady gc fp v p = .ok (intoReadyT gc fp v p) := by
  simp only [intoReady, intoReadyT, checkedFromTx_ok h hf v hp ht, checkedFromTxT, bind, Except.bind, pure, Except.pure]
  by_cases h1 : maxFeeT gc fp v p ≤ u64Max
  · simp only [h1, if_true]
    split <;> rfl
  · simp [h1]

end FuelVerif.Fee
