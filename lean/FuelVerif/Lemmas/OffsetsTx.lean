import FuelVerif.Lemmas.OffsetsOutput
namespace FuelVerif.Offsets
open FuelVerif FuelVerif.Canonical
open FuelVerif.Canonical.TxDesc (env envLaws)
open FuelVerif.Canonical.InputLaws (wt_pair wt_unit)

/-! ### the chargeable transaction struct -/

/-- `ChargeableTransaction<Body, _>` around body descriptor `b` -/
def chargeable (b : Desc) : Desc :=
  .pair b (.pair TxDesc.policies (.pair (.vec TxDesc.input) (.pair (.vec TxDesc.output) (.pair (.vec TxDesc.witness) (.pair .skipped .unit)))))

/-- the body descriptor of a kind (first field of its struct) -/
def Kind.body (k : Kind) : Desc := match k.desc with | .pair b _ => b | _ => .void

def Kind.chargeable : Kind → Bool
  | .mint => false
  | _ => true

theorem kind_descs : Kind.all.all (fun k => !k.chargeable || (k.desc == chargeable k.body && k.body.wf && k.desc.wf)) = true := by decide +kernel

theorem kind_desc (k : Kind) (h : k.chargeable = true) : k.desc = chargeable k.body ∧ k.body.wf = true ∧ k.desc.wf = true := by
  have := kind_descs
  simp only [List.all_eq_true] at this
  have := this k (by cases k <;> simp [Kind.all])
  simp only [h, Bool.not_true, Bool.false_or, Bool.and_eq_true, beq_iff_eq] at this
  exact ⟨this.1.1, this.1.2, this.2⟩

theorem chargeable_idx : Resolve.fieldIndex "ChargeableTransaction" "body" = some 0 ∧ Resolve.fieldIndex "ChargeableTransaction" "policies" = some 1 ∧
    Resolve.fieldIndex "ChargeableTransaction" "inputs" = some 2 ∧ Resolve.fieldIndex "ChargeableTransaction" "outputs" = some 3 ∧
    Resolve.fieldIndex "ChargeableTransaction" "witnesses" = some 4 := by decide +kernel

/-- concatenated encodings of the elements of a vector -/
def flat (d : Desc) (l : List Val) : Bytes := l.flatMap (fun e => encode env d e)

theorem sumSizes_eq (l : List Nat) : sumSizes l = l.sum := by
  have : ∀ (l : List Nat) (a : Nat), l.foldl satAdd a = a + l.sum := by
    intro l
    induction l with
    | nil => intro a; simp
    | cons x l ih => intro a; simp [List.foldl, ih, satAdd]; omega
  simp [sumSizes, this]

theorem wt_vec {d : Desc} {v : Val} (h : wt env (.vec d) v = true) : ∀ e ∈ v.elems, wt env d e = true := by
  simp only [wt, Bool.and_eq_true, List.all_eq_true, decide_eq_true_eq] at h
  exact h.1.2

/-- **layout of a chargeable transaction**: static part (body's static part, policy bits word, three
count words), then the dynamic parts of body and policies, then every input, output, witness in order -/
theorem chargeable_layout (b : Desc) (kind : Kind) (v : Val) (hv : wt env (chargeable b) v = true) (hb : b.wf = true) :
    let t : Tx := { kind := kind, val := v, metadata := none }
    wt env b t.body = true ∧ wt env TxDesc.policies t.policies = true ∧
    (∀ i ∈ t.inputs, wt env TxDesc.input i = true) ∧ (∀ o ∈ t.outputs, wt env TxDesc.output o = true) ∧
    (∀ w ∈ t.witnesses, wt env TxDesc.witness w = true) ∧
    ∃ S : Bytes, S.length = sizeS env b t.body + 32 ∧
      encode env (chargeable b) v = S ++ encD env b t.body ++ encD env TxDesc.policies t.policies ++
        flat TxDesc.input t.inputs ++ flat TxDesc.output t.outputs ++ flat TxDesc.witness t.witnesses := by
  intro t
  obtain ⟨vb, r, rfl, hvb, h⟩ := wt_pair hv
  obtain ⟨pol, r, rfl, hpol, h⟩ := wt_pair h
  obtain ⟨ins, r, rfl, hins, h⟩ := wt_pair h
  obtain ⟨outs, r, rfl, houts, h⟩ := wt_pair h
  obtain ⟨wits, r, rfl, hwits, h⟩ := wt_pair h
  obtain ⟨m, r, rfl, _, h⟩ := wt_pair h
  rw [wt_unit h]
  obtain ⟨i0, i1, i2, i3, i4⟩ := chargeable_idx
  have e0 : t.body = vb := by simp [t, Tx.body, fieldOf, i0, Val.field, Val.elems]
  have e1 : t.policies = pol := by simp [t, Tx.policies, fieldOf, i1, Val.field, Val.elems]
  have e2 : t.inputs = ins.elems := by simp [t, Tx.inputs, fieldOf, i2, Val.field, Val.elems]
  have e3 : t.outputs = outs.elems := by simp [t, Tx.outputs, fieldOf, i3, Val.field, Val.elems]
  have e4 : t.witnesses = wits.elems := by simp [t, Tx.witnesses, fieldOf, i4, Val.field, Val.elems]
  rw [e0, e1, e2, e3, e4]
  refine ⟨hvb, hpol, wt_vec hins, wt_vec houts, wt_vec hwits,
    encS env b vb ++ encS env TxDesc.policies pol ++ encU64 ins.elems.length ++ encU64 outs.elems.length ++ encU64 wits.elems.length, ?_, ?_⟩
  · have h1 := ((enc_length_aux env envLaws b).1 hb vb hvb).1
    have h2 : (encS env TxDesc.policies pol).length = 8 := by
      rw [((enc_length_aux env envLaws TxDesc.policies).1 (by decide) pol hpol).1]
      simp [TxDesc.policies, sizeS, TxDesc.env, Resolve.customPolicies, Policies.codec, Policies.sizeS]
      decide
    simp [h1, h2, encU64_length]
  · simp [chargeable, encode, encS, encD, flat]


theorem flat_length (d : Desc) (hd : d.wf = true) (l : List Val) (hl : ∀ e ∈ l, wt env d e = true) :
    (flat d l).length = (l.map (size env d)).sum := by
  induction l with
  | nil => simp [flat]
  | cons a l ih =>
    have h1 := enc_length env envLaws d hd a (hl a (by simp))
    have h2 := ih (fun e he => hl e (by simp [he]))
    simp only [flat, List.flatMap_cons, List.length_append, List.map_cons, List.sum_cons] at h2 ⊢
    rw [h1, h2]

theorem flat_at (d : Desc) (hd : d.wf = true) (l : List Val) (hl : ∀ e ∈ l, wt env d e = true) (i : Nat) (x : Val)
    (hx : l[i]? = some x) : At (flat d l) (((l.take i).map (size env d)).sum) (encode env d x) := by
  have := At.flatMap (fun e => encode env d e) l i x hx
  have hlen : (l.take i).map (fun e => (encode env d e).length) = (l.take i).map (size env d) := by
    apply List.map_congr_left
    intro e he
    exact enc_length env envLaws d hd e (hl e (List.mem_of_mem_take he))
  rw [hlen] at this
  exact this

/-- what C04 claims about the offsets every chargeable transaction reports (`bytes` = its canonical encoding) -/
structure ChargeableOffsets (t : Tx) (bytes : Bytes) : Prop where
  policies : At bytes t.policiesOffset (encD env TxDesc.policies t.policies)
  inputs : At bytes t.inputsOffset (flat TxDesc.input t.inputs)
  outputs : At bytes t.outputsOffset (flat TxDesc.output t.outputs)
  witnesses : At bytes t.witnessesOffset (flat TxDesc.witness t.witnesses)
  inputNone : ∀ i, t.inputsOffsetAt i = none ↔ t.inputs.length ≤ i
  outputNone : ∀ i, t.outputsOffsetAt i = none ↔ t.outputs.length ≤ i
  witnessNone : ∀ i, t.witnessesOffsetAt i = none ↔ t.witnesses.length ≤ i
  inputAt : ∀ i o x, t.inputsOffsetAt i = some o → t.inputs[i]? = some x → At bytes o (encode env TxDesc.input x)
  outputAt : ∀ i o x, t.outputsOffsetAt i = some o → t.outputs[i]? = some x → At bytes o (encode env TxDesc.output x)
  witnessAt : ∀ i o x, t.witnessesOffsetAt i = some o → t.witnesses[i]? = some x → At bytes o (encode env TxDesc.witness x)

theorem descs_wf : TxDesc.input.wf = true ∧ TxDesc.output.wf = true ∧ TxDesc.witness.wf = true ∧ TxDesc.policies.wf = true := by decide +kernel

theorem chargeable_offsets_aux (b : Desc) (kind : Kind) (v : Val) (hv : wt env (chargeable b) v = true) (hb : b.wf = true)
    (t : Tx) (ht : t = { kind := kind, val := v, metadata := none })
    (hEnd : t.bodyOffsetEnd = sizeS env b t.body + 32 + sizeD env b t.body) :
    ChargeableOffsets t (encode env (chargeable b) v) := by
  subst ht
  obtain ⟨hvb, hpol, hins, houts, hwits, S, hS, henc⟩ := chargeable_layout b kind v hv hb
  obtain ⟨wi, wo, ww, wp⟩ := descs_wf
  generalize hT : ({ kind := kind, val := v, metadata := none } : Tx) = t at *
  have hmeta : t.metadata = none := by rw [← hT]
  have lDb := ((enc_length_aux env envLaws b).1 hb _ hvb).2
  have lDp := ((enc_length_aux env envLaws TxDesc.policies).1 wp _ hpol).2
  have lI := flat_length TxDesc.input wi t.inputs hins
  have lO := flat_length TxDesc.output wo t.outputs houts
  have ePol : t.policiesOffset = (S ++ encD env b t.body).length := by
    simp [Tx.policiesOffset, hEnd, hS, lDb]
  have eIn : t.inputsOffset = (S ++ encD env b t.body ++ encD env TxDesc.policies t.policies).length := by
    simp only [Tx.inputsOffset, hmeta, satAdd, ePol]
    rw [List.length_append (as := S ++ encD env b t.body), lDp]
  have eOut : t.outputsOffset = (S ++ encD env b t.body ++ encD env TxDesc.policies t.policies ++ flat TxDesc.input t.inputs).length := by
    simp only [Tx.outputsOffset, hmeta, satAdd, eIn, sumSizes_eq]
    rw [List.length_append (bs := flat TxDesc.input t.inputs), lI]; rfl
  have eWit : t.witnessesOffset = (S ++ encD env b t.body ++ encD env TxDesc.policies t.policies ++ flat TxDesc.input t.inputs ++
      flat TxDesc.output t.outputs).length := by
    simp only [Tx.witnessesOffset, hmeta, satAdd, eOut, sumSizes_eq]
    rw [List.length_append (bs := flat TxDesc.output t.outputs), lO]; rfl
  rw [henc]
  refine ⟨?_, ?_, ?_, ?_, ?_, ?_, ?_, ?_, ?_, ?_⟩
  · rw [ePol]; simpa using At.append_right _ (At.append_right _ (At.append_right _ (At.suffix (S ++ encD env b t.body) _)))
  · rw [eIn]; simpa using At.append_right _ (At.append_right _ (At.suffix (S ++ encD env b t.body ++ encD env TxDesc.policies t.policies) _))
  · rw [eOut]; simpa using At.append_right _ (At.suffix (S ++ encD env b t.body ++ encD env TxDesc.policies t.policies ++ flat TxDesc.input t.inputs) _)
  · rw [eWit]; simpa using At.suffix (S ++ encD env b t.body ++ encD env TxDesc.policies t.policies ++ flat TxDesc.input t.inputs ++ flat TxDesc.output t.outputs) _
  · intro i; simp only [Tx.inputsOffsetAt, hmeta]; split <;> simp <;> omega
  · intro i; simp only [Tx.outputsOffsetAt, hmeta]; split <;> simp <;> omega
  · intro i; simp only [Tx.witnessesOffsetAt, hmeta]; split <;> simp <;> omega
  · intro i o x ho hx
    simp only [Tx.inputsOffsetAt, hmeta] at ho
    split at ho
    · simp only [Option.some.injEq] at ho; subst ho
      rw [eIn, satAdd, sumSizes_eq]
      have := At.append_left (S ++ encD env b t.body ++ encD env TxDesc.policies t.policies) (flat_at TxDesc.input wi t.inputs hins i x hx)
      simpa [show Tx.inputSize = size env TxDesc.input from rfl, List.map_take] using At.append_right _ (At.append_right _ this)
    · cases ho
  · intro i o x ho hx
    simp only [Tx.outputsOffsetAt, hmeta] at ho
    split at ho
    · simp only [Option.some.injEq] at ho; subst ho
      rw [eOut, satAdd, sumSizes_eq]
      have := At.append_left (S ++ encD env b t.body ++ encD env TxDesc.policies t.policies ++ flat TxDesc.input t.inputs) (flat_at TxDesc.output wo t.outputs houts i x hx)
      simpa [show Tx.outputSize = size env TxDesc.output from rfl, List.map_take] using At.append_right _ this
    · cases ho
  · intro i o x ho hx
    simp only [Tx.witnessesOffsetAt, hmeta] at ho
    split at ho
    · simp only [Option.some.injEq] at ho; subst ho
      rw [eWit, satAdd, sumSizes_eq]
      have := At.append_left (S ++ encD env b t.body ++ encD env TxDesc.policies t.policies ++ flat TxDesc.input t.inputs ++ flat TxDesc.output t.outputs) (flat_at TxDesc.witness ww t.witnesses hwits i x hx)
      simpa [show Tx.witnessSize = size env TxDesc.witness from rfl, List.map_take] using this
    · cases ho

end FuelVerif.Offsets
