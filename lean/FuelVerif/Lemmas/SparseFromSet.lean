/-
`MerkleTree::from_set` (`Model/SparseStore.lean`: `fromSet`, `scanLeaves`, `mergeWhile`, `mergeBranches`,
`mergeStack`, `placeholderChain`) computes the canonical compact tree of the set: for every node store
(`StoreOps σ`, the algorithm only writes to it) and every hash function, the root node is the encoding
`enc 0 t` of a structural tree `t` (`Model/SparseTree.lean`) that is canonical (`Canon`) and lists exactly
the sorted, de-duplicated set. Together with `Smt.spec_of_agree` (uniqueness of the canonical tree) this
gives C12's `FromSetStatement` (`Props/C12FromSet.lean`).

Proof: the stack of `from_set` holds subtrees `t_i` at depths `c_i` (`Ent`), their first keys `b_i` strictly
increasing from the top, the stored proximities `p_i = cpc b_i b_{i+1}` strictly decreasing from the top and
smaller than the depths of both neighbours (`StackInv`). Merging the two topmost entries keeps the invariant
(ultrametric step `cpc_ultra`); pushing the next smaller leaf keeps it because of two ordered keys the smaller
has 0 at the first differing bit (`bytesLt_bit`).
-/
import FuelVerif.Lemmas.SparseFromSetBits
import FuelVerif.Lemmas.SparseTree
import FuelVerif.Lemmas.SparseBytes
namespace FuelVerif.SmtFromSet
open FuelVerif FuelVerif.SmtStore FuelVerif.Gen.Sparse FuelVerif.Smt FuelVerif.SmtBytes

/-- structural trees over byte-string keys and value hashes -/
abbrev T := Smt.Tree Bytes Bytes

theorem maxHeight_eq : maxHeight = 256 := by decide
theorem keyBytes_eq : keyBytes = 32 := by decide

variable (H : Bytes → Bytes)

/-! ### encoding of a structural tree as a `Node` (top node at depth `d`, i.e. height `256 - d`) -/

def enc : Nat → T → Node
  | _, .empty => .placeholder
  | _, .leaf k v => .node (calculateLeafHash H k v) 0 .leaf k v
  | d, .node l r => Node.createNode H (enc (d + 1) l) (enc (d + 1) r) (maxHeight - d)

theorem enc_hash : ∀ (d : Nat) (t : T), (enc H d t).hash = t.hash (hashes H)
  | _, .empty => rfl
  | _, .leaf _ _ => rfl
  | d, .node l r => by
    show calculateNodeHash H (enc H (d + 1) l).hash (enc H (d + 1) r).hash =
      calculateNodeHash H (l.hash (hashes H)) (r.hash (hashes H))
    rw [enc_hash (d + 1) l, enc_hash (d + 1) r]

def IsNode (t : T) : Prop := ∃ l r, t = .node l r

theorem enc_leaf_irrel (d d' : Nat) (k v : Bytes) : enc H d (.leaf k v) = enc H d' (.leaf k v) := rfl

theorem createLeaf_enc (d : Nat) (k data : Bytes) : Node.createLeaf H k data = enc H d (.leaf k (H data)) := rfl

theorem enc_node_isLeaf {d : Nat} {t : T} (h : IsNode t) : (enc H d t).isLeaf = false := by
  obtain ⟨l, r, rfl⟩ := h
  simp [enc, Node.createNode, Node.isLeaf, Node.pfx, Node.isPlaceholder]

theorem enc_node_isNode {d : Nat} {t : T} (h : IsNode t) : (enc H d t).isNode = true := by
  obtain ⟨l, r, rfl⟩ := h
  simp [enc, Node.createNode, Node.isNode, Node.pfx]

theorem enc_node_height {d : Nat} {t : T} (h : IsNode t) : (enc H d t).height = maxHeight - d := by
  obtain ⟨l, r, rfl⟩ := h
  simp [enc, Node.createNode, Node.height]

theorem enc_leaf_isLeaf (d : Nat) (k v : Bytes) : (enc H d (.leaf k v)).isLeaf = true := by
  simp [enc, Node.isLeaf, Node.pfx]

theorem enc_leaf_isNode (d : Nat) (k v : Bytes) : (enc H d (.leaf k v)).isNode = false := by
  simp [enc, Node.isNode, Node.pfx]

/-! ### placeholder chains -/

/-- `count` single-child levels above the subtree `t` whose top is at depth `c`, along the path `bits` -/
def padT (bits : Bytes) : Nat → Nat → T → T
  | 0, _, t => t
  | n + 1, c, t => padT bits n (c - 1) (if bitOf bits (c - 1) then .node .empty t else .node t .empty)

theorem padT_isNode (bits : Bytes) : ∀ (n c : Nat) (t : T), IsNode t → IsNode (padT bits n c t)
  | 0, _, _, h => h
  | n + 1, c, t, _ => by
    unfold padT
    apply padT_isNode bits n
    split <;> exact ⟨_, _, rfl⟩

theorem padT_all (bits : Bytes) (p : Bytes → Prop) : ∀ (n c : Nat) (t : T), (padT bits n c t).All p ↔ t.All p
  | 0, _, _ => Iff.rfl
  | n + 1, c, t => by
    unfold padT
    rw [padT_all bits p n]
    split <;> simp [Tree.All]

theorem padT_toList (bits : Bytes) : ∀ (n c : Nat) (t : T), (padT bits n c t).toList = t.toList
  | 0, _, _ => rfl
  | n + 1, c, t => by
    unfold padT
    rw [padT_toList bits n]
    split <;> simp [Tree.toList]

theorem padT_size (bits : Bytes) : ∀ (n c : Nat) (t : T), (padT bits n c t).size = t.size
  | 0, _, _ => rfl
  | n + 1, c, t => by
    unfold padT
    rw [padT_size bits n]
    split <;> simp [Tree.size]

/-- a chain keeps the tree canonical: every key of `t` follows `bits` above `t` -/
theorem padT_canon (bits : Bytes) : ∀ (n c : Nat) (t : T), IsNode t → n ≤ c → c ≤ maxHeight →
    Canon bitOf maxHeight c t → t.All (AgreeBelow bitOf c bits) →
    Canon bitOf maxHeight (c - n) (padT bits n c t)
  | 0, _, _, _, _, _, hc, _ => hc
  | n + 1, c, t, hn, hle, hmax, hc, hag => by
    unfold padT
    have hc1 : c - 1 + 1 = c := by omega
    have hsz : 2 ≤ t.size := by
      obtain ⟨l, r, rfl⟩ := hn
      exact canon_node_size bitOf maxHeight hc
    have hbit : t.All (fun k => bitOf k (c - 1) = bitOf bits (c - 1)) :=
      All.imp (fun k hk => hk (c - 1) (by omega)) hag
    have e : c - (n + 1) = c - 1 - n := by omega
    rw [e]
    apply padT_canon bits n (c - 1)
    · split <;> exact ⟨_, _, rfl⟩
    · omega
    · omega
    · cases hb : bitOf bits (c - 1) with
      | true =>
        simp only [↓reduceIte]
        refine ⟨by omega, trivial, ?_, by simp only [Tree.size]; omega, trivial, by rw [hc1]; exact hc⟩
        exact All.imp (fun k hk => by rw [hk, hb]) hbit
      | false =>
        simp only [Bool.false_eq_true, ↓reduceIte]
        refine ⟨by omega, ?_, trivial, by simp only [Tree.size]; omega, by rw [hc1]; exact hc, trivial⟩
        exact All.imp (fun k hk => by rw [hk, hb]) hbit
    · have : t.All (AgreeBelow bitOf (c - 1) bits) :=
        All.imp (fun k hk i hi => hk i (by omega)) hag
      split <;> simp [Tree.All, this]

variable {σ : Type} (S : StoreOps σ)

/-- **`placeholderChain` on an encoded internal node builds the encoded chain** (never panics) -/
theorem placeholderChain_enc (bits : Bytes) (hb : bits.length = keyBytes) :
    ∀ (n c : Nat) (t : T) (st : σ), IsNode t → n ≤ c → c ≤ maxHeight →
      ∃ st', placeholderChain H S bits n (enc H c t) st = .ok (enc H (c - n) (padT bits n c t), st')
  | 0, c, t, st, _, _, _ => ⟨st, rfl⟩
  | n + 1, c, t, st, hn, hle, hmax => by
    have hmh := maxHeight_eq
    have hkb := keyBytes_eq
    unfold placeholderChain
    have hleaf := enc_node_isLeaf H (d := c) hn
    have hh := enc_node_height H (d := c) hn
    have hinstr : getInstruction bits (maxHeight - (maxHeight - c + 1)) = some (bitOf bits (c - 1)) := by
      have e : maxHeight - (maxHeight - c + 1) = c - 1 := by omega
      rw [e]
      exact getInstruction_some bits (c - 1) (by rw [hb]; omega)
    have hstep : Node.createNodeOnPath H bits (enc H c t) .placeholder =
        .ok (enc H (c - 1) (if bitOf bits (c - 1) then .node .empty t else .node t .empty)) := by
      unfold Node.createNodeOnPath
      have hp : Node.height Node.placeholder = 0 := rfl
      simp only [hleaf, Bool.false_and, Bool.false_eq_true, ↓reduceIte]
      rw [hh, hp, Nat.max_zero, if_neg (by omega), hinstr]
      have e1 : c - 1 + 1 = c := by omega
      have e2 : maxHeight - (c - 1) = maxHeight - c + 1 := by omega
      cases hbit : bitOf bits (c - 1) with
      | true => simp only [↓reduceIte, enc, e1, e2]
      | false => simp only [Bool.false_eq_true, ↓reduceIte, enc, e1, e2]
    rw [hstep]
    simp only
    have e : c - (n + 1) = c - 1 - n := by omega
    rw [e]
    unfold padT
    exact placeholderChain_enc bits hb n (c - 1) _ _ (by split <;> exact ⟨_, _, rfl⟩) (by omega) (by omega)

/-! ### stack entries -/

/-- the subtree `t` lifted to depth `a + 1`: an internal node at depth `c` gets a placeholder chain, a leaf is
not expanded -/
def liftT (bits : Bytes) (a c : Nat) : T → T
  | .node l r => padT bits (c - (a + 1)) c (.node l r)
  | t => t

/-- a stack entry: the branch's node encodes the tree `t` whose top is at depth `c` (a bare leaf has
`c = 256`), `bits` is a 32-byte key, every key of `t` has the first `c` bits of `bits` -/
structure Ent (b : Branch) (c : Nat) (t : T) : Prop where
  node : b.node = enc H c t
  len : b.bits.length = keyBytes
  shape : (∃ v, t = .leaf b.bits v ∧ c = maxHeight) ∨ (IsNode t ∧ c < maxHeight)
  canon : Canon bitOf maxHeight c t
  agree : t.All (AgreeBelow bitOf c b.bits)

theorem Ent.size_pos {b : Branch} {c : Nat} {t : T} (h : Ent H b c t) : 1 ≤ t.size := by
  rcases h.shape with ⟨v, rfl, _⟩ | ⟨⟨l, r, rfl⟩, _⟩
  · simp [Tree.size]
  · have := canon_node_size bitOf maxHeight h.canon
    omega

theorem Ent.c_le {b : Branch} {c : Nat} {t : T} (h : Ent H b c t) : c ≤ maxHeight := by
  rcases h.shape with ⟨v, _, hc⟩ | ⟨_, hc⟩ <;> omega

theorem liftT_toList (bits : Bytes) (a c : Nat) (t : T) : (liftT bits a c t).toList = t.toList := by
  cases t <;> simp [liftT, padT_toList]

theorem liftT_size (bits : Bytes) (a c : Nat) (t : T) : (liftT bits a c t).size = t.size := by
  cases t <;> simp [liftT, padT_size]

theorem liftT_all (bits : Bytes) (a c : Nat) (p : Bytes → Prop) (t : T) : (liftT bits a c t).All p ↔ t.All p := by
  cases t <;> simp [liftT, padT_all]

/-- the lifted subtree is canonical at depth `a + 1` -/
theorem liftT_canon {b : Branch} {c : Nat} {t : T} (h : Ent H b c t) (a : Nat) (ha : a < c) :
    Canon bitOf maxHeight (a + 1) (liftT b.bits a c t) := by
  rcases h.shape with ⟨v, rfl, _⟩ | ⟨⟨l, r, rfl⟩, hc⟩
  · trivial
  · simp only [liftT]
    have := padT_canon b.bits (c - (a + 1)) c (.node l r) ⟨l, r, rfl⟩ (by omega) (by omega) h.canon h.agree
    have e : c - (c - (a + 1)) = a + 1 := by omega
    rw [e] at this
    exact this

/-- what the `pad` closure of `merge_branches` does on an entry (stated without `match`, so that it can be
rewritten into the unfolded `mergeBranches`): an internal node gets the placeholder chain up to depth `a + 1`,
a leaf is left alone -/
theorem pad_cases {b : Branch} {c : Nat} {t : T} (h : Ent H b c t) (a : Nat) (ha : a < c) (st : σ) :
    (b.node.isNode = true ∧ ¬ (b.node.height + 1 > maxHeight - a) ∧
      ∃ st', placeholderChain H S b.bits (maxHeight - a - (b.node.height + 1)) b.node st =
        .ok (enc H (a + 1) (liftT b.bits a c t), st')) ∨
    (b.node.isNode = false ∧ b.node = enc H (a + 1) (liftT b.bits a c t)) := by
  have hmh := maxHeight_eq
  rcases h.shape with ⟨v, ht, hc⟩ | ⟨hn, hc⟩
  · subst ht
    right
    rw [h.node, enc_leaf_isNode]
    exact ⟨rfl, rfl⟩
  · left
    rw [h.node, enc_node_isNode H hn, enc_node_height H hn]
    refine ⟨rfl, by omega, ?_⟩
    have e1 : maxHeight - a - (maxHeight - c + 1) = c - (a + 1) := by omega
    rw [e1]
    obtain ⟨st', hst⟩ := placeholderChain_enc H S b.bits h.len (c - (a + 1)) c t st hn (by omega) (by omega)
    refine ⟨st', ?_⟩
    rw [hst]
    obtain ⟨l, r, rfl⟩ := hn
    have e2 : c - (c - (a + 1)) = a + 1 := by omega
    simp only [liftT, e2]

/-- **`merge_branches` of two adjacent entries** whose first keys are ordered and first differ at a bit above
both subtrees: the encoded parent at that depth, again an entry (with the left entry's key) -/
theorem mergeBranches_ent (st : σ) {L R : Branch} {cL cR : Nat} {tL tR : T}
    (hL : Ent H L cL tL) (hR : Ent H R cR tR) (hlt : bytesLt L.bits R.bits = true)
    (h1 : commonPrefixCount L.bits R.bits < cL) (h2 : commonPrefixCount L.bits R.bits < cR) :
    ∃ st', mergeBranches H S st L R =
        .ok (⟨L.bits, enc H (commonPrefixCount L.bits R.bits)
          (.node (liftT L.bits (commonPrefixCount L.bits R.bits) cL tL)
                 (liftT R.bits (commonPrefixCount L.bits R.bits) cR tR))⟩, st') ∧
      Ent H ⟨L.bits, enc H (commonPrefixCount L.bits R.bits)
          (.node (liftT L.bits (commonPrefixCount L.bits R.bits) cL tL)
                 (liftT R.bits (commonPrefixCount L.bits R.bits) cR tR))⟩
        (commonPrefixCount L.bits R.bits)
        (.node (liftT L.bits (commonPrefixCount L.bits R.bits) cL tL)
               (liftT R.bits (commonPrefixCount L.bits R.bits) cR tR)) := by
  have hmh := maxHeight_eq
  have hlen : L.bits.length = R.bits.length := by rw [hL.len, hR.len]
  have hne : L.bits ≠ R.bits := bytesLt_ne hlt
  obtain ⟨ha, hbelow, _⟩ := cpc_spec L.bits R.bits hlen hne
  obtain ⟨hb0, hb1⟩ := bytesLt_bit L.bits R.bits hlen hlt
  generalize hadef : commonPrefixCount L.bits R.bits = a at *
  have haL := hL.c_le
  -- the entry property of the result
  have hent : Ent H ⟨L.bits, enc H a (.node (liftT L.bits a cL tL) (liftT R.bits a cR tR))⟩ a
      (.node (liftT L.bits a cL tL) (liftT R.bits a cR tR)) := by
    refine ⟨rfl, hL.len, Or.inr ⟨⟨_, _, rfl⟩, by omega⟩, ?_, ?_⟩
    · refine ⟨by omega, ?_, ?_, ?_, liftT_canon H hL a h1, liftT_canon H hR a h2⟩
      · rw [liftT_all]
        exact All.imp (fun k hk => by rw [hk a h1]; exact hb0) hL.agree
      · rw [liftT_all]
        exact All.imp (fun k hk => by rw [hk a h2]; exact hb1) hR.agree
      · rw [liftT_size, liftT_size]
        have := hL.size_pos
        have := hR.size_pos
        omega
    · simp only [Tree.All]
      constructor
      · rw [liftT_all]
        exact All.imp (fun k hk i hi => hk i (by omega)) hL.agree
      · rw [liftT_all]
        exact All.imp (fun k hk i hi => by
          show bitOf k i = bitOf L.bits i
          rw [hk i (by omega)]; exact (hbelow i hi).symm) hR.agree
  suffices hs : ∃ st', mergeBranches H S st L R =
      .ok (⟨L.bits, enc H a (.node (liftT L.bits a cL tL) (liftT R.bits a cR tR))⟩, st') by
    obtain ⟨st', h⟩ := hs
    exact ⟨st', h, hent⟩
  unfold mergeBranches
  by_cases hboth : (L.node.isLeaf && R.node.isLeaf) = true
  · -- two bare leaves
    rw [if_pos hboth]
    rcases hL.shape with ⟨vL, htL, hcL⟩ | ⟨hnL, _⟩
    · rcases hR.shape with ⟨vR, htR, hcR⟩ | ⟨hnR, _⟩
      · subst htL; subst htR
        have hcpl : Node.commonPathLength L.node R.node = a := by
          rw [hL.node, hR.node]
          simp only [Node.commonPathLength, enc, Node.isPlaceholder, Node.leafKey, Node.bytesLo]
          simp [hadef]
        simp only [hcpl]
        rw [if_neg (by omega)]
        refine ⟨putNode S st (Node.createNode H L.node R.node (maxHeight - a)), ?_⟩
        simp only [liftT, enc]
        rw [hL.node, hR.node]
        rfl
      · rw [hR.node, enc_node_isLeaf H hnR] at hboth; simp at hboth
    · rw [hL.node, enc_node_isLeaf H hnL] at hboth; simp at hboth
  · rw [if_neg hboth]
    simp only [hadef]
    rw [if_neg (by omega)]
    rcases pad_cases H S hR a h2 st with ⟨r1, r2, st1, r3⟩ | ⟨r1, r2⟩
    · simp only [r1, ↓reduceIte]
      rw [if_neg r2, r3]
      simp only
      rcases pad_cases H S hL a h1 st1 with ⟨l1, l2, st2, l3⟩ | ⟨l1, l2⟩
      · simp only [l1, ↓reduceIte]
        rw [if_neg l2, l3]
        exact ⟨_, rfl⟩
      · simp only [l1, Bool.false_eq_true, ↓reduceIte]
        rw [l2]
        exact ⟨_, rfl⟩
    · simp only [r1, Bool.false_eq_true, ↓reduceIte]
      rcases pad_cases H S hL a h1 st with ⟨l1, l2, st2, l3⟩ | ⟨l1, l2⟩
      · simp only [l1, ↓reduceIte]
        rw [if_neg l2, l3]
        simp only [r2]
        exact ⟨_, rfl⟩
      · simp only [l1, Bool.false_eq_true, ↓reduceIte]
        rw [l2, r2]
        exact ⟨_, rfl⟩

/-! ### the stack invariant -/

/-- a stack entry with its ghost data: the depth `c` of the subtree's top node and the structural tree `t` -/
structure GE where
  b : Branch
  c : Nat
  t : T

/-- the key-value pairs held by a stack, top first (= ascending keys) -/
def flat (es : List GE) : List (Bytes × Bytes) := es.flatMap (fun e => e.t.toList)

/-- the invariant of `from_set`'s two stacks (`nodes`, top first, and `proximities`, top first) -/
def StackInv : List GE → List Nat → Prop
  | [e], [] => Ent H e.b e.c e.t
  | e :: e' :: es, p :: ps =>
    Ent H e.b e.c e.t ∧ p = commonPrefixCount e.b.bits e'.b.bits ∧ p < e.c ∧ p < e'.c ∧
      bytesLt e.b.bits e'.b.bits = true ∧ (∀ p', ps.head? = some p' → p' < p) ∧ StackInv (e' :: es) ps
  | _, _ => False

theorem StackInv.head_ent {e : GE} {es : List GE} {ps : List Nat} (h : StackInv H (e :: es) ps) :
    Ent H e.b e.c e.t := by
  cases es with
  | nil => cases ps with
    | nil => exact h
    | cons _ _ => exact h.elim
  | cons e' es => cases ps with
    | nil => exact h.elim
    | cons p ps => exact h.1

/-- the entry `merge_branches` produces from two adjacent entries -/
def mergedGE (e0 e1 : GE) : GE :=
  ⟨⟨e0.b.bits, enc H (commonPrefixCount e0.b.bits e1.b.bits)
      (.node (liftT e0.b.bits (commonPrefixCount e0.b.bits e1.b.bits) e0.c e0.t)
             (liftT e1.b.bits (commonPrefixCount e0.b.bits e1.b.bits) e1.c e1.t))⟩,
    commonPrefixCount e0.b.bits e1.b.bits,
    .node (liftT e0.b.bits (commonPrefixCount e0.b.bits e1.b.bits) e0.c e0.t)
          (liftT e1.b.bits (commonPrefixCount e0.b.bits e1.b.bits) e1.c e1.t)⟩

/-- merging the two topmost entries keeps the invariant -/
theorem merge_top (st : σ) {e0 e1 : GE} {es : List GE} {p0 : Nat} {ps : List Nat}
    (h : StackInv H (e0 :: e1 :: es) (p0 :: ps)) :
    ∃ (st' : σ) (M : GE), mergeBranches H S st e0.b e1.b = .ok (M.b, st') ∧ StackInv H (M :: es) ps ∧
      M.b.bits = e0.b.bits ∧ M.c = p0 ∧ M.t.toList = e0.t.toList ++ e1.t.toList ∧ IsNode M.t := by
  obtain ⟨he0, hp, hc0, hc1, hlt, hdec, hrest⟩ := h
  have he1 : Ent H e1.b e1.c e1.t := StackInv.head_ent H hrest
  subst hp
  obtain ⟨st', hm, hent⟩ := mergeBranches_ent H S st he0 he1 hlt hc0 hc1
  refine ⟨st', mergedGE H e0 e1, hm, ?_, rfl, rfl, ?_, ⟨_, _, rfl⟩⟩
  · cases es with
    | nil =>
      cases ps with
      | nil => exact hent
      | cons _ _ => exact hrest.elim
    | cons e2 es' =>
      cases ps with
      | nil => exact hrest.elim
      | cons p1 ps' =>
        obtain ⟨_, hp1, hc1', hc2, hlt12, hdec', hrest'⟩ := hrest
        have hlt1 : p1 < commonPrefixCount e0.b.bits e1.b.bits := hdec p1 rfl
        have he2 : Ent H e2.b e2.c e2.t := StackInv.head_ent H hrest'
        have hu : commonPrefixCount e0.b.bits e2.b.bits = commonPrefixCount e1.b.bits e2.b.bits :=
          cpc_ultra e0.b.bits e1.b.bits e2.b.bits (by rw [he0.len, he1.len]) (by rw [he1.len, he2.len])
            (bytesLt_ne hlt) (bytesLt_ne hlt12) (by rw [← hp1]; exact hlt1)
        refine ⟨hent, ?_, hlt1, hc2, bytesLt_trans _ _ _ hlt hlt12, hdec', hrest'⟩
        show p1 = commonPrefixCount e0.b.bits e2.b.bits
        rw [hu]; exact hp1
  · simp only [mergedGE, Tree.toList, liftT_toList]

/-- **the inner `while` of `from_set`** merges while the stored proximity exceeds the new leaf's, keeping the
invariant; afterwards the topmost stored proximity is at most `lp` and the top subtree starts below `lp` -/
theorem mergeWhile_inv (lp : Nat) : ∀ (ps : List Nat) (e0 : GE) (rest : List GE) (st : σ),
    StackInv H (e0 :: rest) ps → lp < e0.c →
    ∃ (e0' : GE) (rest' : List GE) (ps' : List Nat) (st' : σ),
      mergeWhile H S lp ps ((e0 :: rest).map GE.b) st = .ok ((e0' :: rest').map GE.b, ps', st') ∧
      StackInv H (e0' :: rest') ps' ∧ e0'.b.bits = e0.b.bits ∧ lp < e0'.c ∧
      (∀ p', ps'.head? = some p' → p' ≤ lp) ∧ flat (e0' :: rest') = flat (e0 :: rest)
  | [], e0, rest, st, h, hc => ⟨e0, rest, [], st, rfl, h, rfl, hc, (fun _ hp => by simp at hp), rfl⟩
  | p :: ps, e0, rest, st, h, hc => by
    cases rest with
    | nil => exact h.elim
    | cons e1 es =>
      unfold mergeWhile
      by_cases hgt : p > lp
      · rw [if_pos hgt]
        obtain ⟨st1, M, hm, hinv, hbits, hMc, hlist, _⟩ := merge_top H S st h
        simp only [List.map_cons, hm]
        obtain ⟨e0', rest', ps', st', hrun, hinv', hb', hc', hle, hflat⟩ :=
          mergeWhile_inv lp ps M es st1 hinv (by rw [hMc]; exact hgt)
        refine ⟨e0', rest', ps', st', ?_, hinv', by rw [hb', hbits], hc', hle, ?_⟩
        · simpa only [List.map_cons] using hrun
        · rw [hflat]
          simp only [flat, List.flatMap_cons, hlist, List.append_assoc]
      · rw [if_neg hgt]
        exact ⟨e0, e1 :: es, p :: ps, st, rfl, h, rfl, hc,
          fun p' hp' => by simp only [List.head?_cons, Option.some.injEq] at hp'; omega, rfl⟩

/-- the branch `from_set` creates for a key-value pair -/
def mkBranch (kv : Bytes × Bytes) : Branch :=
  ⟨(Node.createLeaf H kv.1 kv.2).leafKey, Node.createLeaf H kv.1 kv.2⟩

/-- ... and its ghost entry -/
def leafGE (kv : Bytes × Bytes) : GE := ⟨mkBranch H kv, maxHeight, .leaf kv.1 (H kv.2)⟩

theorem leafGE_ent (kv : Bytes × Bytes) (hk : kv.1.length = keyBytes) :
    Ent H (leafGE H kv).b (leafGE H kv).c (leafGE H kv).t :=
  ⟨rfl, hk, Or.inl ⟨H kv.2, rfl, rfl⟩, trivial, fun _ _ => rfl⟩

/-- the pair as it appears in the structural tree: the value hashed -/
def kvH (kv : Bytes × Bytes) : Bytes × Bytes := (kv.1, H kv.2)

/-- **the outer loop of `from_set`** over the remaining leaves (descending keys, all below the top leaf) -/
theorem scanLeaves_inv : ∀ (ls : List (Bytes × Bytes)) (k0 : Bytes × Bytes) (rest : List GE) (ps : List Nat) (st : σ),
    StackInv H (leafGE H k0 :: rest) ps → k0.1.length = keyBytes →
    (∀ kv ∈ ls, kv.1.length = keyBytes) →
    List.Pairwise (fun x y : Bytes × Bytes => bytesLt y.1 x.1 = true) (k0 :: ls) →
    ∃ (es' : List GE) (ps' : List Nat) (st' : σ),
      scanLeaves H S (ls.map (mkBranch H)) ((leafGE H k0 :: rest).map GE.b) ps st = .ok (es'.map GE.b, st') ∧
      StackInv H es' ps' ∧ es' ≠ [] ∧
      flat es' = (ls.reverse.map (kvH H)) ++ flat (leafGE H k0 :: rest)
  | [], k0, rest, ps, st, h, _, _, _ => ⟨leafGE H k0 :: rest, ps, st, rfl, h, by simp, by simp⟩
  | kv :: ls, k0, rest, ps, st, h, hk0, hlen, hpw => by
    have hmh := maxHeight_eq
    have hkb := keyBytes_eq
    have hkv : kv.1.length = keyBytes := hlen kv (List.mem_cons_self ..)
    have hlt : bytesLt kv.1 k0.1 = true := (List.pairwise_cons.mp hpw).1 kv (List.mem_cons_self ..)
    have hne : k0.1 ≠ kv.1 := fun e => bytesLt_ne hlt e.symm
    obtain ⟨hlpl, _, _⟩ := cpc_spec k0.1 kv.1 (by rw [hk0, hkv]) hne
    unfold scanLeaves
    simp only [List.map_cons]
    have hprox : Node.commonPathLength (leafGE H k0).b.node (mkBranch H kv).node = commonPrefixCount k0.1 kv.1 := by
      simp [leafGE, mkBranch, Node.commonPathLength, Node.createLeaf, Node.isPlaceholder, Node.leafKey, Node.bytesLo]
    rw [hprox]
    obtain ⟨e0', rest', ps', st1, hrun, hinv, hbits, hc', hle, hflat⟩ :=
      mergeWhile_inv H S (commonPrefixCount k0.1 kv.1) ps (leafGE H k0) rest st h
        (by show commonPrefixCount k0.1 kv.1 < maxHeight; rw [hk0] at hlpl; omega)
    have hrun' : mergeWhile H S (commonPrefixCount k0.1 kv.1) ps ((leafGE H k0).b :: rest.map GE.b) st =
        .ok ((e0' :: rest').map GE.b, ps', st1) := by simpa only [List.map_cons] using hrun
    rw [hrun']
    simp only
    have hbits' : e0'.b.bits = k0.1 := hbits
    -- the invariant after pushing the new leaf
    have hpush : StackInv H (leafGE H kv :: e0' :: rest') (commonPrefixCount k0.1 kv.1 :: ps') := by
      refine ⟨leafGE_ent H kv hkv, ?_, ?_, hc', ?_, ?_, hinv⟩
      · show commonPrefixCount k0.1 kv.1 = commonPrefixCount kv.1 e0'.b.bits
        rw [hbits', cpc_comm]
      · show commonPrefixCount k0.1 kv.1 < maxHeight
        rw [hk0] at hlpl; omega
      · show bytesLt kv.1 e0'.b.bits = true
        rw [hbits']; exact hlt
      · intro p' hp'
        have hle' := hle p' hp'
        -- strictness: `e0'.bits` has 1 at `lp` (it is above `kv`) and 0 at `p'` (it is below its right neighbour)
        cases ps' with
        | nil => cases hp'
        | cons q ps'' =>
          simp only [List.head?_cons, Option.some.injEq] at hp'
          subst hp'
          cases rest' with
          | nil => exact hinv.elim
          | cons e1' rest'' =>
            obtain ⟨he0', hq, _, _, hlt01, _, hr⟩ := hinv
            have he1' : Ent H e1'.b e1'.c e1'.t := StackInv.head_ent H hr
            have b0 := (bytesLt_bit e0'.b.bits e1'.b.bits (by rw [he0'.len, he1'.len]) hlt01).1
            have b1 := (bytesLt_bit kv.1 k0.1 (by rw [hkv, hk0]) hlt).2
            rw [← hq, hbits'] at b0
            rw [cpc_comm] at b1
            have : q ≠ commonPrefixCount k0.1 kv.1 := by
              intro e; rw [e] at b0; rw [b0] at b1; cases b1
            omega
    have hpw' : List.Pairwise (fun x y : Bytes × Bytes => bytesLt y.1 x.1 = true) (kv :: ls) :=
      (List.pairwise_cons.mp hpw).2
    obtain ⟨es', ps'', st', hrun2, hinv2, hne2, hflat2⟩ :=
      scanLeaves_inv ls kv (e0' :: rest') (commonPrefixCount k0.1 kv.1 :: ps') st1 hpush hkv
        (fun x hx => hlen x (List.mem_cons_of_mem _ hx)) hpw'
    refine ⟨es', ps'', st', ?_, hinv2, hne2, ?_⟩
    · have : (leafGE H kv).b = mkBranch H kv := rfl
      simpa only [List.map_cons, this] using hrun2
    · rw [hflat2]
      simp only [flat, List.flatMap_cons, List.reverse_cons, List.map_append, List.map_cons, List.map_nil,
        List.append_assoc] at hflat ⊢
      rw [hflat]
      simp [leafGE, kvH, Tree.toList]

/-- **the final `while let Some(next) = nodes.pop()`**: everything left on the stack is merged into one entry -/
theorem mergeStack_inv : ∀ (rest : List GE) (e0 : GE) (ps : List Nat) (st : σ), StackInv H (e0 :: rest) ps →
    ∃ (M : GE) (st' : σ), mergeStack H S e0.b (rest.map GE.b) st = .ok (M.b, st') ∧ Ent H M.b M.c M.t ∧
      M.t.toList = flat (e0 :: rest) ∧ (rest ≠ [] → IsNode M.t)
  | [], e0, ps, st, h => ⟨e0, st, rfl, StackInv.head_ent H h, by simp [flat], fun h => absurd rfl h⟩
  | e1 :: es, e0, ps, st, h => by
    cases ps with
    | nil => exact h.elim
    | cons p0 ps =>
      obtain ⟨st1, M, hm, hinv, _, _, hlist, hnode⟩ := merge_top H S st h
      obtain ⟨M', st', hrun, hent, hl, hn⟩ := mergeStack_inv es M ps st1 hinv
      refine ⟨M', st', ?_, hent, ?_, fun _ => ?_⟩
      · simp only [List.map_cons, mergeStack, hm]
        exact hrun
      · rw [hl]
        simp only [flat, List.flatMap_cons, hlist, List.append_assoc]
      · cases es with
        | nil =>
          simp only [List.map_nil, mergeStack, Except.ok.injEq, Prod.mk.injEq] at hrun
          have : M'.t.toList = M.t.toList := by rw [hl]; simp [flat]
          -- with nothing left to merge the result IS `M`; its tree is read off the encoded node
          rcases hent.shape with ⟨v, ht, hc⟩ | ⟨hn', _⟩
          · exfalso
            have h1 := hent.node
            rw [← hrun.1] at h1
            have h2 := (StackInv.head_ent H hinv).node
            rw [h2] at h1
            obtain ⟨l, r, hM⟩ := hnode
            rw [hM, ht] at h1
            simp [enc, Node.createNode] at h1
          · exact hn'
        | cons e2 es' => exact hn (by simp)

/-! ### `BTreeMap` collection: sorted, de-duplicated, later value wins -/

theorem mem_btreeInsert (k v : Bytes) : ∀ (L : List (Bytes × Bytes)) (x : Bytes × Bytes),
    x ∈ btreeInsert k v L → x = (k, v) ∨ x ∈ L
  | [], x, h => by simp only [btreeInsert, List.mem_singleton] at h; exact Or.inl h
  | (k', v') :: rest, x, h => by
    unfold btreeInsert at h
    by_cases e : k = k'
    · rw [if_pos e] at h
      rcases List.mem_cons.mp h with h | h
      · exact Or.inl h
      · exact Or.inr (List.mem_cons_of_mem _ h)
    · rw [if_neg e] at h
      by_cases l : bytesLt k k' = true
      · rw [if_pos l] at h
        rcases List.mem_cons.mp h with h | h
        · exact Or.inl h
        · exact Or.inr h
      · rw [if_neg l] at h
        rcases List.mem_cons.mp h with h | h
        · exact Or.inr (h ▸ List.mem_cons_self ..)
        · rcases mem_btreeInsert k v rest x h with h | h
          · exact Or.inl h
          · exact Or.inr (List.mem_cons_of_mem _ h)

/-- strictly ascending keys -/
def Asc (L : List (Bytes × Bytes)) : Prop := L.Pairwise (fun x y => bytesLt x.1 y.1 = true)

theorem btreeInsert_asc (k v : Bytes) (hk : k.length = keyBytes) : ∀ (L : List (Bytes × Bytes)),
    (∀ x ∈ L, x.1.length = keyBytes) → Asc L → Asc (btreeInsert k v L)
  | [], _, _ => by simp [btreeInsert, Asc]
  | (k', v') :: rest, hl, ha => by
    have ha' := List.pairwise_cons.mp ha
    unfold btreeInsert
    by_cases e : k = k'
    · rw [if_pos e]
      subst e
      exact List.pairwise_cons.mpr ⟨ha'.1, ha'.2⟩
    · rw [if_neg e]
      by_cases l : bytesLt k k' = true
      · rw [if_pos l]
        refine List.pairwise_cons.mpr ⟨?_, ha⟩
        intro y hy
        rcases List.mem_cons.mp hy with rfl | hy
        · exact l
        · exact bytesLt_trans _ _ _ l (ha'.1 y hy)
      · rw [if_neg l]
        have hk' : k'.length = keyBytes := hl (k', v') (List.mem_cons_self ..)
        have hgt : bytesLt k' k = true := by
          rcases bytesLt_total k k' (by rw [hk, hk']) e with h | h
          · exact absurd h l
          · exact h
        refine List.pairwise_cons.mpr ⟨?_, btreeInsert_asc k v hk rest
          (fun x hx => hl x (List.mem_cons_of_mem _ hx)) ha'.2⟩
        intro y hy
        rcases mem_btreeInsert k v rest y hy with rfl | hy
        · exact hgt
        · exact ha'.1 y hy

theorem btreeCollect_spec : ∀ (set acc : List (Bytes × Bytes)),
    (∀ x ∈ set, x.1.length = keyBytes) → (∀ x ∈ acc, x.1.length = keyBytes) → Asc acc →
    (∀ x ∈ set.foldl (fun m kv => btreeInsert kv.1 kv.2 m) acc, x.1.length = keyBytes) ∧
      Asc (set.foldl (fun m kv => btreeInsert kv.1 kv.2 m) acc)
  | [], acc, _, ha, hs => ⟨ha, hs⟩
  | kv :: set, acc, hset, ha, hs => by
    simp only [List.foldl_cons]
    have hkv := hset kv (List.mem_cons_self ..)
    apply btreeCollect_spec set _ (fun x hx => hset x (List.mem_cons_of_mem _ hx))
    · intro x hx
      rcases mem_btreeInsert kv.1 kv.2 acc x hx with rfl | hx
      · exact hkv
      · exact ha x hx
    · exact btreeInsert_asc kv.1 kv.2 hkv acc ha hs

theorem lookup_btreeInsert (k v q : Bytes) : ∀ (L : List (Bytes × Bytes)),
    lookup q (btreeInsert k v L) = if k = q then some v else lookup q L
  | [] => by simp [btreeInsert, lookup]
  | (k', v') :: rest => by
    unfold btreeInsert
    by_cases e : k = k'
    · subst e
      by_cases eq : k = q <;> simp [lookup, eq]
    · rw [if_neg e]
      by_cases l : bytesLt k k' = true
      · rw [if_pos l]
        by_cases eq : k = q <;> simp [lookup, eq]
      · rw [if_neg l]
        simp only [lookup]
        rw [lookup_btreeInsert k v q rest]
        by_cases eq : k = q
        · subst eq
          have : ¬ k' = k := fun h => e h.symm
          simp [this]
        · simp [eq]

theorem lookup_alInsert (k v q : Bytes) (L : List (Bytes × Bytes)) :
    lookup q (alInsert k v L) = if k = q then some v else lookup q L := by
  simp only [alInsert, lookup, lookup_alErase]
  by_cases e : k = q <;> simp [e]

theorem lookup_map_val (f : Bytes → Bytes) (q : Bytes) : ∀ (L : List (Bytes × Bytes)),
    lookup q (L.map (fun kv => (kv.1, f kv.2))) = (lookup q L).map f
  | [] => rfl
  | (k, v) :: rest => by
    simp only [List.map_cons, lookup]
    by_cases e : k = q
    · simp [e]
    · simp only [e, ↓reduceIte]; exact lookup_map_val f q rest

/-- the map C12's statement folds from the set agrees with the `BTreeMap` collection, value hashed -/
theorem fold_agree : ∀ (set accB accM : List (Bytes × Bytes)),
    (∀ q, lookup q accM = (lookup q accB).map H) →
    ∀ q, lookup q (set.foldl (fun m kv => alInsert kv.1 (H kv.2) m) accM) =
      (lookup q (set.foldl (fun m kv => btreeInsert kv.1 kv.2 m) accB)).map H
  | [], _, _, h => h
  | kv :: set, accB, accM, h => by
    simp only [List.foldl_cons]
    apply fold_agree set
    intro q
    rw [lookup_alInsert, lookup_btreeInsert, h q]
    by_cases e : kv.1 = q <;> simp [e]

theorem fold_nodup : ∀ (set accM : List (Bytes × Bytes)), KeysNodup accM →
    KeysNodup (set.foldl (fun m kv => alInsert kv.1 (H kv.2) m) accM)
  | [], _, h => h
  | kv :: set, accM, h => by
    simp only [List.foldl_cons]
    exact fold_nodup set _ (keysNodup_alInsert _ _ _ h)

/-! ### `get` on a canonical tree is the lookup in its leaf list -/

theorem lookup_append (q : Bytes) : ∀ (A B : List (Bytes × Bytes)),
    lookup q (A ++ B) = (match lookup q A with
      | some v => some v
      | none => lookup q B)
  | [], _ => rfl
  | (k, v) :: A, B => by
    simp only [List.cons_append, lookup]
    by_cases e : k = q
    · simp [e]
    · simp only [e, ↓reduceIte]; exact lookup_append q A B

theorem lookup_none_of_all {p : Bytes → Prop} {q : Bytes} (hq : ¬ p q) : ∀ (t : T), t.All p →
    lookup q t.toList = none
  | .empty, _ => rfl
  | .leaf k v, h => by
    have : k ≠ q := fun e => hq (e ▸ h)
    simp [Tree.toList, lookup, this]
  | .node l r, h => by
    simp only [Tree.toList]
    rw [lookup_append, lookup_none_of_all hq l h.1, lookup_none_of_all hq r h.2]

theorem get_eq_lookup (q : Bytes) : ∀ (t : T) (d : Nat), Canon bitOf maxHeight d t →
    Smt.get bitOf d q t = lookup q t.toList
  | .empty, _, _ => rfl
  | .leaf k v, _, _ => by simp [Smt.get, Tree.toList, lookup]
  | .node l r, d, hc => by
    obtain ⟨_, hl, hr, _, hcl, hcr⟩ := hc
    simp only [Smt.get, Tree.toList]
    rw [lookup_append]
    cases hb : bitOf q d with
    | true =>
      simp only [↓reduceIte]
      rw [lookup_none_of_all (p := fun k => bitOf k d = false) (by simp [hb]) l hl]
      exact get_eq_lookup q r (d + 1) hcr
    | false =>
      simp only [Bool.false_eq_true, ↓reduceIte]
      rw [get_eq_lookup q l (d + 1) hcl]
      cases hlk : lookup q l.toList with
      | some v => rfl
      | none =>
        simp only
        exact (lookup_none_of_all (p := fun k => bitOf k d = true) (by simp [hb]) r hr).symm

/-! ### `from_set` -/

/-- **`MerkleTree::from_set`**, on any node store: it never fails, and its root node encodes a canonical
structural tree whose leaves are the sorted, de-duplicated set (values hashed) -/
theorem fromSet_spec (st : σ) (set : List (Bytes × Bytes)) (hk : ∀ kv ∈ set, kv.1.length = keyBytes) :
    ∃ (t : T) (st' : σ), fromSet H S st set = .ok ⟨enc H 0 t, st'⟩ ∧ Canon bitOf maxHeight 0 t ∧
      t.toList = (btreeCollect set).map (kvH H) := by
  have hmh := maxHeight_eq
  obtain ⟨hlen, hasc⟩ := btreeCollect_spec set [] hk (by simp) (by simp [Asc])
  unfold fromSet
  simp only
  generalize hsorted : btreeCollect set = sorted at *
  have hlen' : ∀ x ∈ sorted, x.1.length = keyBytes := by rw [← hsorted]; exact hlen
  have hasc' : Asc sorted := by rw [← hsorted]; exact hasc
  match sorted, hlen', hasc' with
  | [], _, _ => exact ⟨.empty, _, rfl, trivial, rfl⟩
  | [kv], _, _ => exact ⟨.leaf kv.1 (H kv.2), _, rfl, trivial, rfl⟩
  | kv1 :: kv2 :: more, hl, ha =>
    -- the leaves are scanned from the largest key down
    have hrev : ∃ kN ls, (kv1 :: kv2 :: more).reverse = kN :: ls ∧ ls ≠ [] := by
      cases hr : (kv1 :: kv2 :: more).reverse with
      | nil => simp at hr
      | cons kN ls =>
        refine ⟨kN, ls, rfl, ?_⟩
        intro e; subst e
        have := congrArg List.length hr
        simp at this
    obtain ⟨kN, ls, hr, hlsne⟩ := hrev
    have hmem : ∀ x, x ∈ kN :: ls ↔ x ∈ kv1 :: kv2 :: more := by
      intro x; rw [← hr, List.mem_reverse]
    have hpw : List.Pairwise (fun x y : Bytes × Bytes => bytesLt y.1 x.1 = true) (kN :: ls) := by
      rw [← hr, List.pairwise_reverse]; exact ha
    have hkN : kN.1.length = keyBytes := hl kN ((hmem kN).mp (List.mem_cons_self ..))
    have hmapr : (List.map (fun kv => (⟨(Node.createLeaf H kv.1 kv.2).leafKey, Node.createLeaf H kv.1 kv.2⟩ : Branch))
        (kv1 :: kv2 :: more)).reverse = mkBranch H kN :: ls.map (mkBranch H) := by
      rw [← List.map_reverse, hr]; rfl
    simp only [List.map_cons] at hmapr ⊢
    rw [hmapr]
    -- first leaf: pushed on the empty stack
    unfold scanLeaves
    obtain ⟨es', ps', st1, hscan, hinv, hne, hflat⟩ := scanLeaves_inv H S ls kN [] [] _
      (leafGE_ent H kN hkN) hkN (fun x hx => hl x ((hmem x).mp (List.mem_cons_of_mem _ hx))) hpw
    have hscan' := hscan
    simp only [List.map_cons, List.map_nil] at hscan'
    have : (leafGE H kN).b = mkBranch H kN := rfl
    rw [this] at hscan'
    rw [hscan']
    simp only
    cases es' with
    | nil => exact absurd rfl hne
    | cons e0 rest =>
      simp only [List.map_cons]
      obtain ⟨M, st2, hms, hent, hlist, hnode⟩ := mergeStack_inv H S rest e0 ps' st1 hinv
      rw [hms]
      simp only
      -- at least two leaves, so the merged entry is an internal node
      have hlen2 : 2 ≤ M.t.toList.length := by
        rw [hlist, hflat]
        cases ls with
        | nil => exact absurd rfl hlsne
        | cons x xs =>
          simp only [flat, List.flatMap_cons, List.flatMap_nil, List.append_nil, List.reverse_cons,
            List.map_append, List.map_cons, List.map_nil, List.length_append, List.length_map,
            List.length_reverse, List.length_cons, List.length_nil, leafGE, Tree.toList]
          omega
      have hn : IsNode M.t := by
        rcases hent.shape with ⟨v, ht, _⟩ | ⟨hn, _⟩
        · rw [ht] at hlen2; simp [Tree.toList] at hlen2
        · exact hn
      have hh := enc_node_height H (d := M.c) hn
      rw [hent.node, hh]
      rw [if_neg (by omega)]
      have e1 : maxHeight - (maxHeight - M.c) = M.c := by have := hent.c_le; omega
      rw [e1]
      obtain ⟨st3, hch⟩ := placeholderChain_enc H S M.b.bits hent.len M.c M.c M.t st2 hn (Nat.le_refl _) hent.c_le
      rw [hch]
      simp only [Nat.sub_self]
      refine ⟨padT M.b.bits M.c M.c M.t, st3, rfl, ?_, ?_⟩
      · have := padT_canon M.b.bits M.c M.c M.t hn (Nat.le_refl _) hent.c_le hent.canon hent.agree
        rw [Nat.sub_self] at this
        exact this
      · rw [padT_toList, hlist, hflat]
        simp only [flat, List.flatMap_cons, List.flatMap_nil, List.append_nil, leafGE, Tree.toList]
        have : (kv1 :: kv2 :: more) = (kN :: ls).reverse := by rw [← hr, List.reverse_reverse]
        show _ = List.map (kvH H) (kv1 :: kv2 :: more)
        rw [this, List.reverse_cons, List.map_append]
        rfl

end FuelVerif.SmtFromSet
