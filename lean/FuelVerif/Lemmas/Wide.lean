/- Helper lemmas for C22: big-endian encoding, memory write/read-back, closed forms of the access checks. -/
import FuelVerif.Model.Wide
import FuelVerif.Lemmas.Jump
namespace FuelVerif.Alu
open FuelVerif FuelVerif.Gen.AluArgs

/-! ### big-endian bytes ↔ naturals -/

theorem beNat_append_one (bs : Bytes) (b : UInt8) : beNat (bs ++ [b]) = beNat bs * 256 + b.toNat := by
  simp [beNat, List.foldl_append]

theorem natBE_length (n v : Nat) : (natBE n v).length = n := by
  induction n generalizing v with
  | zero => rfl
  | succ k ih => simp [natBE, ih]

/-- writing `v` in `n` big-endian bytes and reading it back gives `v mod 256^n` -/
theorem be_roundtrip (n v : Nat) : beNat (natBE n v) = v % 256 ^ n := by
  induction n generalizing v with
  | zero => simp [natBE, beNat, Nat.mod_one]
  | succ k ih =>
    have hb : (UInt8.ofNat (v % 256)).toNat = v % 256 := by
      rw [UInt8.toNat_ofNat']; omega
    rw [natBE, beNat_append_one, ih, hb, Nat.pow_succ, Nat.mul_comm (256 ^ k) 256, Nat.mod_mul]
    generalize v / 256 % 256 ^ k = X
    omega

theorem foldl_be_lt (bs : Bytes) (acc : Nat) :
    bs.foldl (fun a b => a * 256 + b.toNat) acc + 1 ≤ (acc + 1) * 256 ^ bs.length := by
  induction bs generalizing acc with
  | nil => simp
  | cons b bs ih =>
    simp only [List.foldl_cons, List.length_cons, Nat.pow_succ]
    have h1 := ih (acc * 256 + b.toNat)
    have h2 : acc * 256 + b.toNat + 1 ≤ (acc + 1) * 256 := by
      have := b.toNat_lt_size
      simp only [UInt8.size] at this
      omega
    calc _ ≤ (acc * 256 + b.toNat + 1) * 256 ^ bs.length := h1
      _ ≤ (acc + 1) * 256 * 256 ^ bs.length := Nat.mul_le_mul_right _ h2
      _ = (acc + 1) * (256 ^ bs.length * 256) := by rw [Nat.mul_assoc, Nat.mul_comm 256]

theorem beNat_lt (bs : Bytes) : beNat bs < 256 ^ bs.length := by
  have := foldl_be_lt bs 0
  simp only [Nat.zero_add, Nat.one_mul] at this
  exact this

theorem pow256 (n : Nat) : 256 ^ n = 2 ^ (8 * n) := by
  rw [show (256 : Nat) = 2 ^ 8 by rfl, ← Nat.pow_mul]

/-! ### memory access in closed form -/

/-- the readability condition of `verify` for an `n`-byte access at `a` -/
def Mem.accessible (m : Mem) (a n : Nat) : Prop := a + n ≤ m.stackLen ∨ m.hp ≤ a

instance (m : Mem) (a n : Nat) : Decidable (m.accessible a n) := by unfold Mem.accessible; exact inferInstance

theorem readWide_eq (m : Mem) (a n : Nat) (hn : n ≤ memSize) :
    readWide m a n =
      if a + n ≤ memSize then
        (if m.accessible a n then .ok (beNat ((List.range n).map (fun i => m.bytes (a + i)))) else .error .UninitalizedMemoryAccess)
      else .error .MemoryOverflow := by
  unfold readWide Mem.readBytes Mem.accessible
  rw [verify_eq m a n hn]
  by_cases h1 : a + n ≤ memSize
  · by_cases h2 : a + n ≤ m.stackLen ∨ m.hp ≤ a
    · simp [h1, h2]
    · simp [h1, h2]
  · simp [h1]

/-- the operand read as a number is below `2^(8n)` -/
theorem readWide_lt (m : Mem) (a n v : Nat) (h : readWide m a n = .ok v) : v < 2 ^ (8 * n) := by
  unfold readWide at h
  cases hr : m.readBytes a n with
  | error p => rw [hr] at h; cases h
  | ok bs =>
    rw [hr] at h
    simp only [Except.ok.injEq] at h
    subst h
    unfold Mem.readBytes at hr
    cases hv : m.verify a n with
    | error p => rw [hv] at hr; cases hr
    | ok se =>
      rw [hv] at hr
      simp only [Except.ok.injEq] at hr
      subst hr
      have := beNat_lt ((List.range n).map (fun i => m.bytes (se.1 + i)))
      simpa [pow256] using this

/-- `write_bytes` in closed form: bounds, allocation, ownership — in this order — then the copy -/
theorem writeBytes_eq (m : Mem) (o : Owner) (a : Nat) (data : List UInt8) (hn : data.length ≤ memSize) :
    m.writeBytes o a data =
      if a + data.length ≤ memSize then
        (if m.accessible a data.length then
          (if o.hasStack a (a + data.length) || o.hasHeap a (a + data.length) then .ok (m.store a data)
           else .error .MemoryOwnership)
         else .error .UninitalizedMemoryAccess)
      else .error .MemoryOverflow := by
  unfold Mem.writeBytes Mem.accessible Owner.verify
  rw [verify_eq m a _ hn]
  by_cases h1 : a + data.length ≤ memSize
  · by_cases h2 : a + data.length ≤ m.stackLen ∨ m.hp ≤ a
    · by_cases h3 : (o.hasStack a (a + data.length) || o.hasHeap a (a + data.length)) = true
      · have : a + data.length - a = data.length := by omega
        simp [h1, h2, h3, this, verify_eq m a _ hn]
      · simp [h1, h2, h3]
    · simp [h1, h2]
  · simp [h1]

theorem store_bounds (m : Mem) (a : Nat) (d : List UInt8) : (m.store a d).stackLen = m.stackLen ∧ (m.store a d).hp = m.hp := ⟨rfl, rfl⟩

/-- **memory frame**: the copy changes only `[a, a + len)` -/
theorem store_other (m : Mem) (a : Nat) (d : List UInt8) (x : Nat) (h : x < a ∨ a + d.length ≤ x) :
    (m.store a d).bytes x = m.bytes x := by
  simp only [Mem.store]
  rw [if_neg (by omega)]

theorem store_read (m : Mem) (a : Nat) (d : List UInt8) :
    (List.range d.length).map (fun i => (m.store a d).bytes (a + i)) = d := by
  apply List.ext_getElem
  · simp
  · intro i h1 h2
    simp only [List.getElem_map, List.getElem_range, Mem.store]
    rw [if_pos (by simp at h1; omega)]
    have : a + i - a = i := by omega
    rw [this]
    simp at h1
    simp [List.getD_eq_getElem?_getD, h2]

/-- **read-back**: after a successful write of `v` in `n` bytes at `a`, the big-endian read at `a` gives `v mod 2^(8n)` -/
theorem store_readWide (m : Mem) (a n v : Nat) (hn : n ≤ memSize) (h1 : a + n ≤ memSize) (h2 : m.accessible a n) :
    readWide (m.store a (natBE n v)) a n = .ok (v % 2 ^ (8 * n)) := by
  rw [readWide_eq _ _ _ hn, if_pos h1]
  have h2' : (m.store a (natBE n v)).accessible a n := h2
  rw [if_pos h2']
  have := store_read m a (natBE n v)
  rw [natBE_length] at this
  rw [this, be_roundtrip, pow256]

end FuelVerif.Alu
