import FuelVerif.Lemmas.OffsetsBody
namespace FuelVerif.Offsets
open FuelVerif FuelVerif.Canonical

/-! ### cached = uncached -/

theorem offsetsLoop_ok (err : Nat → Tx.TooLarge) : ∀ (sizes : List Nat) (off idx : Nat) (l : List Nat),
    Tx.offsetsLoop err sizes off idx = .ok l →
    ∀ i, l[i]? = if i < sizes.length then some (off + (sizes.take i).sum) else none := by
  intro sizes
  induction sizes with
  | nil => intro off idx l h i; simp [Tx.offsetsLoop] at h; subst h; simp
  | cons s rest ih =>
    intro off idx l h i
    simp only [Tx.offsetsLoop, checkedAdd] at h
    split at h
    · cases h
    · rename_i o' ho'
      split at ho'
      · cases ho'
        split at h
        · cases h
        · rename_i is his
          cases h
          cases i with
          | zero => simp
          | succ i =>
            have := ih _ _ _ his i
            simp only [List.getElem?_cons_succ, this, List.length_cons, List.take_succ_cons, List.sum_cons]
            split <;> split <;> first | omega | (simp; omega) | rfl
      · cases ho'

theorem offsetsLoop_succeeds (err : Nat → Tx.TooLarge) : ∀ (sizes : List Nat) (off idx : Nat), off + sizes.sum ≤ USIZE_MAX →
    ∃ l, Tx.offsetsLoop err sizes off idx = .ok l := by
  intro sizes
  induction sizes with
  | nil => intro off idx _; exact ⟨[], rfl⟩
  | cons s rest ih =>
    intro off idx h
    simp only [List.sum_cons] at h
    obtain ⟨l, hl⟩ := ih (off + s) (idx + 1) (by omega)
    exact ⟨off :: l, by simp [Tx.offsetsLoop, checkedAdd, show off + s ≤ USIZE_MAX by omega, hl]⟩

/-- **offsets computed from cached metadata equal offsets computed without it**: after a successful
`precompute`, every offset function answers from the cache exactly what it answers on the same transaction
without cache -/
theorem cached_eq_uncached_canon (id : Bytes) (t t' : Tx) (h : Tx.precomputeCanon id t = .ok t') :
    let t0 : Tx := { t with metadata := none }
    t'.val = t.val ∧ t'.kind = t.kind ∧ t'.metadata.isSome = true ∧
    t'.inputsOffset = t0.inputsOffset ∧ t'.outputsOffset = t0.outputsOffset ∧ t'.witnessesOffset = t0.witnessesOffset ∧
    (∀ i, t'.inputsOffsetAt i = t0.inputsOffsetAt i) ∧ (∀ i, t'.outputsOffsetAt i = t0.outputsOffsetAt i) ∧
    (∀ i, t'.witnessesOffsetAt i = t0.witnessesOffsetAt i) ∧ (∀ i, t'.inputsPredicateOffsetAt i = t0.inputsPredicateOffsetAt i) ∧
    (t.kind = .script → t'.scriptDataOffset = t0.scriptDataOffset ∧ t'.bodyOffsetEnd = t0.bodyOffsetEnd) := by
  intro t0
  simp only [Tx.precomputeCanon] at h
  split at h
  · cases h
  · rename_i common hc
    cases h
    simp only [Tx.computeCommon] at hc
    split at hc
    · cases hc
    · rename_i ia hia
      split at hc
      · cases hc
      · rename_i oa hoa
        split at hc
        · cases hc
        · rename_i wa hwa
          cases hc
          have e1 := offsetsLoop_ok _ _ _ _ _ hia
          have e2 := offsetsLoop_ok _ _ _ _ _ hoa
          have e3 := offsetsLoop_ok _ _ _ _ _ hwa
          refine ⟨rfl, rfl, rfl, rfl, rfl, rfl, ?_, ?_, ?_, ?_, ?_⟩
          · intro i
            simp only [Tx.inputsOffsetAt, e1, List.length_map, satAdd, sumSizes_eq, List.map_take]
            rfl
          · intro i
            simp only [Tx.outputsOffsetAt, e2, List.length_map, satAdd, sumSizes_eq, List.map_take]
            rfl
          · intro i
            simp only [Tx.witnessesOffsetAt, e3, List.length_map, satAdd, sumSizes_eq, List.map_take]
            rfl
          · intro i
            show ((List.map (fun i => t0.inputsPredicateOffsetAt i) (List.range t0.inputs.length))[i]?).getD none = t0.inputsPredicateOffsetAt i
            by_cases hi : i < t0.inputs.length
            · simp [hi]
            · have : t0.inputs[i]? = none := by simp; omega
              simp [hi, Tx.inputsPredicateOffsetAt, t0, this]
          · intro hk
            have hk0 : t0.kind = .script := hk
            refine ⟨by simp [Tx.scriptDataOffset, hk]; rfl, ?_⟩
            simp only [Tx.bodyOffsetEnd, hk, hk0, Tx.scriptDataOffset, if_true]
            rfl

/-- `precompute` succeeds whenever the encoding's size fits a `usize` -/
theorem precompute_succeeds_canon (id : Bytes) (t : Tx)
    (hfit : ({ t with metadata := none } : Tx).witnessesOffset + sumSizes (t.witnesses.map Tx.witnessSize) ≤ USIZE_MAX) :
    ∃ t', Tx.precomputeCanon id t = .ok t' := by
  generalize ht0 : ({ t with metadata := none } : Tx) = t0 at hfit
  have hw : t0.witnesses = t.witnesses := by rw [← ht0]; rfl
  have hm : t0.metadata = none := by rw [← ht0]
  rw [sumSizes_eq] at hfit
  have h3 : t0.witnessesOffset = t0.outputsOffset + (t0.outputs.map Tx.outputSize).sum := by simp [Tx.witnessesOffset, hm, sumSizes_eq]
  have h2 : t0.outputsOffset = t0.inputsOffset + (t0.inputs.map Tx.inputSize).sum := by simp [Tx.outputsOffset, hm, sumSizes_eq]
  obtain ⟨l1, hl1⟩ := offsetsLoop_succeeds .input (t0.inputs.map Tx.inputSize) t0.inputsOffset 0 (by omega)
  obtain ⟨l2, hl2⟩ := offsetsLoop_succeeds .output (t0.outputs.map Tx.outputSize) t0.outputsOffset 0 (by omega)
  obtain ⟨l3, hl3⟩ := offsetsLoop_succeeds .witness (t0.witnesses.map Tx.witnessSize) t0.witnessesOffset 0 (by rw [hw]; omega)
  simp only [Tx.precomputeCanon, ht0, Tx.computeCommon, hl1, hl2, hl3]
  exact ⟨_, rfl⟩


/-! ### the order of effects of the real `precompute` bodies -/

/-- **obligation on the regenerated order**: every chargeable kind resets the metadata BEFORE anything reads the object, and
stores last (Script reads `script_data_offset` after the common metadata; Create / Upgrade compute their body metadata; Upload /
Blob have none). A read hoisted above the reset, or a dropped reset, changes the table and this no longer holds. -/
theorem precompute_order : Tx.stepsOf .script = [.reset, .common, .script, .store] ∧ Tx.stepsOf .create = [.reset, .common, .other, .store] ∧
    Tx.stepsOf .upgrade = [.reset, .common, .other, .store] ∧ Tx.stepsOf .upload = [.reset, .common, .store] ∧
    Tx.stepsOf .blob = [.reset, .common, .store] := by decide +kernel

/-- with that order, `precompute` is reset-then-compute, whatever cache the object carried before -/
theorem precompute_eq_canon (idOf : Tx → Bytes) (t : Tx) (hk : t.kind.chargeable = true) :
    Tx.precompute idOf t = Tx.precomputeCanon (idOf { t with metadata := none }) t := by
  obtain ⟨o1, o2, o3, o4, o5⟩ := precompute_order
  obtain ⟨k, v, m⟩ := t
  simp only [Tx.precompute, Tx.precomputeCanon]
  cases k
  case mint => simp [Kind.chargeable] at hk
  all_goals
    simp only [o1, o2, o3, o4, o5, Tx.runSteps]
    split <;> simp_all [Tx.runSteps]

/-- **offsets computed from cached metadata equal offsets computed without it**, whatever (possibly stale) cache the object
carried when `precompute` was called -/
theorem cached_eq_uncached (idOf : Tx → Bytes) (t t' : Tx) (hk : t.kind.chargeable = true) (h : Tx.precompute idOf t = .ok t') :
    let t0 : Tx := { t with metadata := none }
    t'.val = t.val ∧ t'.kind = t.kind ∧ t'.metadata.isSome = true ∧
    t'.inputsOffset = t0.inputsOffset ∧ t'.outputsOffset = t0.outputsOffset ∧ t'.witnessesOffset = t0.witnessesOffset ∧
    (∀ i, t'.inputsOffsetAt i = t0.inputsOffsetAt i) ∧ (∀ i, t'.outputsOffsetAt i = t0.outputsOffsetAt i) ∧
    (∀ i, t'.witnessesOffsetAt i = t0.witnessesOffsetAt i) ∧ (∀ i, t'.inputsPredicateOffsetAt i = t0.inputsPredicateOffsetAt i) ∧
    (t.kind = .script → t'.scriptDataOffset = t0.scriptDataOffset ∧ t'.bodyOffsetEnd = t0.bodyOffsetEnd) := by
  rw [precompute_eq_canon idOf t hk] at h
  exact cached_eq_uncached_canon _ t t' h

theorem precompute_succeeds (idOf : Tx → Bytes) (t : Tx) (hk : t.kind.chargeable = true)
    (hfit : ({ t with metadata := none } : Tx).witnessesOffset + sumSizes (t.witnesses.map Tx.witnessSize) ≤ USIZE_MAX) :
    ∃ t', Tx.precompute idOf t = .ok t' := by
  rw [precompute_eq_canon idOf t hk]
  exact precompute_succeeds_canon _ t hfit

/-! ### any history of edits and precomputes -/

/-- what a client can do to a transaction object: edit it through the public mutators (the cache is NOT touched), or precompute -/
inductive Op
  | edit (v : Val)
  | precompute
  deriving Repr, Inhabited

def applyOp (idOf : Tx → Bytes) (t : Tx) : Op → Except Tx.TooLarge Tx
  | .edit v => .ok { t with val := v }
  | .precompute => Tx.precompute idOf t

def runOps (idOf : Tx → Bytes) : Tx → List Op → Except Tx.TooLarge Tx
  | t, [] => .ok t
  | t, op :: rest =>
    match applyOp idOf t op with
    | .error e => .error e
    | .ok t' => runOps idOf t' rest

theorem runOps_append (idOf : Tx → Bytes) : ∀ (ops : List Op) (t t' : Tx) (op : Op), runOps idOf t (ops ++ [op]) = .ok t' →
    ∃ t1, runOps idOf t ops = .ok t1 ∧ applyOp idOf t1 op = .ok t' := by
  intro ops
  induction ops with
  | nil =>
    intro t t' op h
    simp only [List.nil_append, runOps] at h
    cases ha : applyOp idOf t op with
    | error e => simp [ha] at h
    | ok t1 => simp only [ha, Except.ok.injEq] at h; exact ⟨t, rfl, by rw [ha, h]⟩
  | cons o ops ih =>
    intro t t' op h
    simp only [List.cons_append, runOps] at h ⊢
    cases ha : applyOp idOf t o with
    | error e => simp [ha] at h
    | ok t1 => simp only [ha] at h ⊢; exact ih t1 t' op h

theorem applyOp_kind (idOf : Tx → Bytes) (t t' : Tx) (hk : t.kind.chargeable = true) (op : Op) (h : applyOp idOf t op = .ok t') : t'.kind = t.kind := by
  cases op with
  | edit v => simp only [applyOp, Except.ok.injEq] at h; subst h; rfl
  | precompute => exact (cached_eq_uncached idOf t t' hk h).2.1

theorem runOps_kind (idOf : Tx → Bytes) : ∀ (ops : List Op) (t t' : Tx), t.kind.chargeable = true → runOps idOf t ops = .ok t' → t'.kind = t.kind := by
  intro ops
  induction ops with
  | nil => intro t t' _ h; simp only [runOps, Except.ok.injEq] at h; subst h; rfl
  | cons o ops ih =>
    intro t t' hk h
    simp only [runOps] at h
    cases ha : applyOp idOf t o with
    | error e => simp [ha] at h
    | ok t1 =>
      simp only [ha] at h
      have k1 := applyOp_kind idOf t t1 hk o ha
      rw [← k1]; exact ih t1 t' (by rw [k1]; exact hk) h

/-- **after ANY sequence of edits and precomputes that ends with a precompute, every cached offset is the offset of the
current content** (computed without cache) -/
theorem cached_offsets_after_history (idOf : Tx → Bytes) (ops : List Op) (t t' : Tx) (hk : t.kind.chargeable = true)
    (h : runOps idOf t (ops ++ [.precompute]) = .ok t') :
    let t0 : Tx := { kind := t'.kind, val := t'.val, metadata := none }
    t'.metadata.isSome = true ∧
    t'.inputsOffset = t0.inputsOffset ∧ t'.outputsOffset = t0.outputsOffset ∧ t'.witnessesOffset = t0.witnessesOffset ∧
    (∀ i, t'.inputsOffsetAt i = t0.inputsOffsetAt i) ∧ (∀ i, t'.outputsOffsetAt i = t0.outputsOffsetAt i) ∧
    (∀ i, t'.witnessesOffsetAt i = t0.witnessesOffsetAt i) ∧ (∀ i, t'.inputsPredicateOffsetAt i = t0.inputsPredicateOffsetAt i) ∧
    (t'.kind = .script → t'.scriptDataOffset = t0.scriptDataOffset ∧ t'.bodyOffsetEnd = t0.bodyOffsetEnd) := by
  obtain ⟨t1, h1, h2⟩ := runOps_append idOf ops t t' .precompute h
  have k1 := runOps_kind idOf ops t t1 hk h1
  have hk1 : t1.kind.chargeable = true := by rw [k1]; exact hk
  obtain ⟨e1, e2, e3, r⟩ := cached_eq_uncached idOf t1 t' hk1 h2
  simp only [e1, e2]
  exact ⟨e3, r⟩

end FuelVerif.Offsets
