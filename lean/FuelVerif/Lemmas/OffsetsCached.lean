import FuelVerif.Lemmas.OffsetsBody
namespace FuelVerif.Offsets
open FuelVerif FuelVerif.Canonical

/-! ### cached = uncached -/

theorem offsetsLoop_ok (err : Nat → Tx.TooLarge) : ∀ (sizes : List Nat) (off idx : Nat) (l : List Nat),
    Tx.offsetsLoop err sizes off idx = .ok l →
    ∀ i, l[i]? = if i < sizes.length then some (off + (sizes.take i).sum) else none := by
  intro sizes
  induction sizes with
  | nil => intro off idx l h i; simp [Tx.offsetsLoop] at h; subst h; simp
  | cons s rest ih =>
    intro off idx l h i
    simp only [Tx.offsetsLoop, checkedAdd] at h
    split at h
    · cases h
    · rename_i o' ho'
      split at ho'
      · cases ho'
        split at h
        · cases h
        · rename_i is his
          cases h
          cases i with
          | zero => simp
          | succ i =>
            have := ih _ _ _ his i
            simp only [List.getElem?_cons_succ, this, List.length_cons, List.take_succ_cons, List.sum_cons]
            split <;> split <;> first | omega | (simp; omega) | rfl
      · cases ho'

theorem offsetsLoop_succeeds (err : Nat → Tx.TooLarge) : ∀ (sizes : List Nat) (off idx : Nat), off + sizes.sum ≤ USIZE_MAX →
    ∃ l, Tx.offsetsLoop err sizes off idx = .ok l := by
  intro sizes
  induction sizes with
  | nil => intro off idx _; exact ⟨[], rfl⟩
  | cons s rest ih =>
    intro off idx h
    simp only [List.sum_cons] at h
    obtain ⟨l, hl⟩ := ih (off + s) (idx + 1) (by omega)
    exact ⟨off :: l, by simp [Tx.offsetsLoop, checkedAdd, show off + s ≤ USIZE_MAX by omega, hl]⟩

/-- **offsets computed from cached metadata equal offsets computed without it**: after a successful
`precompute`, every offset function answers from the cache exactly what it answers on the same transaction
without cache -/
theorem cached_eq_uncached (id : Bytes) (t t' : Tx) (h : Tx.precompute id t = .ok t') :
    let t0 : Tx := { t with metadata := none }
    t'.val = t.val ∧ t'.kind = t.kind ∧ t'.metadata.isSome = true ∧
    t'.inputsOffset = t0.inputsOffset ∧ t'.outputsOffset = t0.outputsOffset ∧ t'.witnessesOffset = t0.witnessesOffset ∧
    (∀ i, t'.inputsOffsetAt i = t0.inputsOffsetAt i) ∧ (∀ i, t'.outputsOffsetAt i = t0.outputsOffsetAt i) ∧
    (∀ i, t'.witnessesOffsetAt i = t0.witnessesOffsetAt i) ∧ (∀ i, t'.inputsPredicateOffsetAt i = t0.inputsPredicateOffsetAt i) ∧
    (t.kind = .script → t'.scriptDataOffset = t0.scriptDataOffset ∧ t'.bodyOffsetEnd = t0.bodyOffsetEnd) := by
  intro t0
  simp only [Tx.precompute] at h
  split at h
  · cases h
  · rename_i common hc
    cases h
    simp only [Tx.computeCommon] at hc
    split at hc
    · cases hc
    · rename_i ia hia
      split at hc
      · cases hc
      · rename_i oa hoa
        split at hc
        · cases hc
        · rename_i wa hwa
          cases hc
          have e1 := offsetsLoop_ok _ _ _ _ _ hia
          have e2 := offsetsLoop_ok _ _ _ _ _ hoa
          have e3 := offsetsLoop_ok _ _ _ _ _ hwa
          refine ⟨rfl, rfl, rfl, rfl, rfl, rfl, ?_, ?_, ?_, ?_, ?_⟩
          · intro i
            simp only [Tx.inputsOffsetAt, e1, List.length_map, satAdd, sumSizes_eq, List.map_take]
            rfl
          · intro i
            simp only [Tx.outputsOffsetAt, e2, List.length_map, satAdd, sumSizes_eq, List.map_take]
            rfl
          · intro i
            simp only [Tx.witnessesOffsetAt, e3, List.length_map, satAdd, sumSizes_eq, List.map_take]
            rfl
          · intro i
            show ((List.map (fun i => t0.inputsPredicateOffsetAt i) (List.range t0.inputs.length))[i]?).getD none = t0.inputsPredicateOffsetAt i
            by_cases hi : i < t0.inputs.length
            · simp [hi]
            · have : t0.inputs[i]? = none := by simp; omega
              simp [hi, Tx.inputsPredicateOffsetAt, t0, this]
          · intro hk
            have hk0 : t0.kind = .script := hk
            refine ⟨by simp [Tx.scriptDataOffset, hk]; rfl, ?_⟩
            simp only [Tx.bodyOffsetEnd, hk, hk0, Tx.scriptDataOffset, if_true]
            rfl

/-- `precompute` succeeds whenever the encoding's size fits a `usize` -/
theorem precompute_succeeds (id : Bytes) (t : Tx)
    (hfit : ({ t with metadata := none } : Tx).witnessesOffset + sumSizes (t.witnesses.map Tx.witnessSize) ≤ USIZE_MAX) :
    ∃ t', Tx.precompute id t = .ok t' := by
  generalize ht0 : ({ t with metadata := none } : Tx) = t0 at hfit
  have hw : t0.witnesses = t.witnesses := by rw [← ht0]; rfl
  have hm : t0.metadata = none := by rw [← ht0]
  rw [sumSizes_eq] at hfit
  have h3 : t0.witnessesOffset = t0.outputsOffset + (t0.outputs.map Tx.outputSize).sum := by simp [Tx.witnessesOffset, hm, sumSizes_eq]
  have h2 : t0.outputsOffset = t0.inputsOffset + (t0.inputs.map Tx.inputSize).sum := by simp [Tx.outputsOffset, hm, sumSizes_eq]
  obtain ⟨l1, hl1⟩ := offsetsLoop_succeeds .input (t0.inputs.map Tx.inputSize) t0.inputsOffset 0 (by omega)
  obtain ⟨l2, hl2⟩ := offsetsLoop_succeeds .output (t0.outputs.map Tx.outputSize) t0.outputsOffset 0 (by omega)
  obtain ⟨l3, hl3⟩ := offsetsLoop_succeeds .witness (t0.witnesses.map Tx.witnessSize) t0.witnessesOffset 0 (by rw [hw]; omega)
  simp only [Tx.precompute, ht0, Tx.computeCommon, hl1, hl2, hl3]
  exact ⟨_, rfl⟩

end FuelVerif.Offsets
