/-
A lawful curve for the non-vacuity examples of C16/C17: the curve  y² = x³ + 7  over F₄₃, which has
prime order 31 (31 ≤ 43 < 62), with base point G = (2, 12).  Points are represented by their discrete
logarithm (`Pt = ZMod 31`, `k ↦ k·G`), the coordinates by the table of the 30 multiples of G, so the
group laws hold by construction and the coordinate / decompression laws are checked by evaluation over
the complete finite tables.  `toy_laws : CurveLaws toy` shows the hypotheses of the theorems are
satisfiable, and lets the `example`s run the model functions on concrete keys and messages.
-/
import FuelVerif.Lemmas.EcdsaLaws
namespace FuelVerif.Ecdsa.Toy
open FuelVerif FuelVerif.Ecdsa

/-- `k·G` for `k = 0..30` (entry 0 unused: the identity has no affine coordinates) -/
def table : List (Nat × Nat) :=
  [(0, 0), (2, 12), (7, 7), (35, 21), (21, 18), (12, 12), (29, 31), (25, 18), (32, 40), (20, 40), (42, 7),
   (40, 25), (37, 36), (13, 21), (34, 40), (38, 21), (38, 22), (34, 3), (13, 22), (37, 7), (40, 18), (42, 36),
   (20, 3), (32, 3), (25, 25), (29, 12), (12, 31), (21, 25), (35, 22), (7, 36), (2, 31)]

def coords (k : ZMod 31) : Nat × Nat := table.getD k.val (0, 0)

/-- the non-identity point with the given coordinates, if any -/
def find (x y : Nat) : Option (ZMod 31) :=
  ((List.range 31).find? (fun k => k != 0 && table.getD k (0, 0) == (x, y))).map (Nat.cast : Nat → ZMod 31)

/-- the non-identity point with the given x-coordinate and y parity, if any -/
def lift (x : Nat) (odd : Bool) : Option (ZMod 31) :=
  ((List.range 31).find? (fun k => k != 0 && (table.getD k (0, 0)).1 == x &&
      ((table.getD k (0, 0)).2 % 2 == 1) == odd)).map (Nat.cast : Nat → ZMod 31)

@[reducible] def toy : Curve where
  Pt := ZMod 31
  p := 43
  n := 31
  isZero := fun P => P == 0
  liftX := lift
  lincomb := fun u1 u2 P => (u1 : ZMod 31) + (u2 : ZMod 31) * P
  ofXY := find
  toXY := coords
  mulG := fun k => (k : ZMod 31)
  decEq := inferInstanceAs (DecidableEq (ZMod 31))

instance : AddCommGroup toy.Pt := inferInstanceAs (AddCommGroup (ZMod 31))
instance : Module (ZMod toy.n) toy.Pt := inferInstanceAs (Module (ZMod 31) (ZMod 31))

theorem prime31 : Nat.Prime 31 := by decide

/-- every x-coordinate in the table is below 43 -/
theorem table_x_lt : ∀ k : Fin 31, (table.getD k.val (0, 0)).1 < 43 ∧ (table.getD k.val (0, 0)).2 < 43 := by
  decide +kernel

theorem toy_laws : CurveLaws toy where
  prime := prime31
  n_ne_two := by decide
  n_le_p := by decide
  p_lt := by decide
  isZero_iff := by
    intro P
    show (P == 0) = true ↔ P = 0
    simp
  g_ne := by decide
  mulG_eq := by
    intro k
    show (k : ZMod 31) = (k : ZMod 31) • ((1 : Nat) : ZMod 31)
    simp
  lincomb_eq := by
    intro u1 u2 P
    show (u1 : ZMod 31) + (u2 : ZMod 31) * P = (u1 : ZMod 31) • ((1 : Nat) : ZMod 31) + (u2 : ZMod 31) • P
    simp
  lift_some := by
    intro x odd P h
    replace h : lift x odd = some P := h
    unfold lift at h
    obtain ⟨k, hk, hP⟩ := Option.map_eq_some_iff.mp h
    have hmem := List.find?_some hk
    have hk31 : k < 31 := List.mem_range.mp (List.mem_of_find?_eq_some hk)
    simp only [Bool.and_eq_true, beq_iff_eq, bne_iff_ne, ne_eq] at hmem
    obtain ⟨⟨hk0, hx⟩, hy⟩ := hmem
    subst hP
    have hval : ((k : ZMod 31)).val = k := ZMod.val_cast_of_lt hk31
    refine ⟨?_, ?_, ?_⟩
    · intro h0
      have := congrArg ZMod.val h0
      rw [hval] at this
      exact hk0 this
    · show (table.getD ((k : ZMod 31)).val (0, 0)).1 = x
      rw [hval]; exact hx
    · show ((table.getD ((k : ZMod 31)).val (0, 0)).2 % 2 == 1) = odd
      rw [hval]; exact hy
  lift_self := by
    show ∀ P : ZMod 31, P ≠ 0 → toy.liftX (toy.toXY P).1 (yOdd toy P) = some P
    decide +kernel
  neg_xy := by
    show ∀ P : ZMod 31, P ≠ 0 → (toy.toXY (-P)).1 = (toy.toXY P).1 ∧ yOdd toy (-P) = !yOdd toy P
    decide +kernel
  toXY_lt := by
    show ∀ P : ZMod 31, P ≠ 0 → (toy.toXY P).1 < 43 ∧ (toy.toXY P).2 < 43
    decide +kernel
  ofXY_toXY := by
    show ∀ P : ZMod 31, P ≠ 0 → toy.ofXY (toy.toXY P).1 (toy.toXY P).2 = some P
    decide +kernel
  ofXY_some := by
    intro x y P h
    replace h : find x y = some P := h
    unfold find at h
    obtain ⟨k, hk, hP⟩ := Option.map_eq_some_iff.mp h
    have hmem := List.find?_some hk
    have hk31 : k < 31 := List.mem_range.mp (List.mem_of_find?_eq_some hk)
    simp only [Bool.and_eq_true, beq_iff_eq, bne_iff_ne, ne_eq] at hmem
    obtain ⟨hk0, hxy⟩ := hmem
    subst hP
    have hval : ((k : ZMod 31)).val = k := ZMod.val_cast_of_lt hk31
    refine ⟨?_, ?_⟩
    · intro h0
      have := congrArg ZMod.val h0
      rw [hval] at this
      exact hk0 this
    · show table.getD ((k : ZMod 31)).val (0, 0) = (x, y)
      rw [hval]; exact hxy

end FuelVerif.Ecdsa.Toy
