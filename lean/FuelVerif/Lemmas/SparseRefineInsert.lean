/-
Refinement, part 4: `MerkleTree::insert` / `update_with_path_set` of the storage-level transcription keep the
state a representation (`Rep`) of the structural tree, and implement the structural `insert`.

Pieces: `create_node_on_path` on two leaves + the placeholder loop build the structural `join`
(`createNodeOnPath_leaves`, `placeholderChain_frames`, `join_frames`); the merge-side-nodes loop rebuilds the
path (`mergeSides_plug`); the store holds the new tree (`stored_mergeStore`), the hash-disjointness facts coming
from canonical form and from the discriminating subtree `leaf k v` (absent from the old tree, present in every
new path node).
-/
import FuelVerif.Lemmas.SparseRefineStore
import FuelVerif.Lemmas.SparseBits
namespace FuelVerif.SmtRefine
open FuelVerif FuelVerif.SmtStore FuelVerif.SmtBytes FuelVerif.Gen.Sparse FuelVerif.Smt

variable (H : Bytes → Bytes) {U : T → Prop} (hok : HashOn H U) {σ : Type} (S : StoreOps σ)

/-! ### terminals and their nodes -/

theorem term_cases (k : Key32) : ∀ (t : T) (d : Nat),
    term k d t = .empty ∨ ∃ k' v', term k d t = .leaf k' v'
  | .empty, _ => .inl rfl
  | .leaf k' v', _ => .inr ⟨k', v', rfl⟩
  | .node l r, d => by
    unfold term
    split
    · exact term_cases k r (d + 1)
    · exact term_cases k l (d + 1)

theorem nodeOf_leaf_inj {d d' : Nat} {k k' : Key32} {v v' : Hash32}
    (h : nodeOf H hok d (.leaf k v) = nodeOf H hok d' (.leaf k' v')) : k = k' ∧ v = v' := by
  simp only [nodeOf] at h
  injection h with _ _ _ h4 h5
  exact ⟨Subtype.ext h4, Subtype.ext h5⟩

theorem mem_hashesOf_ne_zero {h : Bytes} {t : T} (ht : ∀ u, IsSub u t → U u)
    (hm : h ∈ hashesOf H hok t) : h ≠ zeroSum := by
  obtain ⟨u, hu, e⟩ := mem_hashesOf H hok hm
  rw [← e]
  exact hb_ne_zero H hok (ht u hu) (IsSub.ne_empty hu)

theorem width_le : width = maxHeight := rfl

theorem bits_lt {i : Nat} (k : Key32) (h : i < maxHeight) : i < 8 * k.val.length := by
  rw [k.property]; have : maxHeight = 8 * keyBytes := by decide
  omega

/-- every key below a path of `k` agrees with `k` on the bits of the path -/
theorem focus_agrees (k : Key32) : ∀ (fs : List Frame) (c : T) (d0 : Nat), OnPath k d0 fs →
    Canon bit32 width d0 (plug c fs) →
    c.All (fun k' => ∀ i, d0 ≤ i → i < d0 + fs.length → bit32 k' i = bit32 k i)
  | [], c, d0, _, _ => All.of_forall (fun _ i h1 h2 => by simp at h2; omega) c
  | f :: fs, c, d0, hp, hc => by
    have ih := focus_agrees k fs (f.plug c) d0 hp.2 hc
    obtain ⟨_, hcA, _, _, _, _⟩ := canon_frame (canon_plug_cons hc)
    have ih' : c.All (fun k' => ∀ i, d0 ≤ i → i < d0 + fs.length → bit32 k' i = bit32 k i) := by
      cases f with
      | mk right sib =>
        cases right with
        | true => exact ih.2
        | false => exact ih.1
    refine All.imp ?_ (All.and ih' hcA)
    intro k' hk' i hi1 hi2
    by_cases e : i = d0 + fs.length
    · subst e; rw [hk'.2, hp.1]
    · exact hk'.1 i hi1 (by simp only [List.length_cons] at hi2; omega)

/-! ### the placeholder loop builds a chain of single-child nodes -/

/-- `n` frames with placeholder siblings along `k`, the top one at depth `d` (bottom first) -/
def emptyFrames (k : Key32) (d : Nat) : Nat → List Frame
  | 0 => []
  | n + 1 => ⟨bit32 k (d + n), .empty⟩ :: emptyFrames k d n

theorem emptyFrames_length (k : Key32) (d : Nat) : ∀ n, (emptyFrames k d n).length = n
  | 0 => rfl
  | n + 1 => by simp [emptyFrames, emptyFrames_length k d n]

theorem emptyFrames_sib (k : Key32) (d : Nat) : ∀ n, ∀ g ∈ emptyFrames k d n, g.sib = .empty
  | 0, _, h => by cases h
  | n + 1, g, h => by
    rcases List.mem_cons.mp h with e | h'
    · rw [e]
    · exact emptyFrames_sib k d n g h'

theorem emptyFrames_succ_top (k : Key32) (d : Nat) : ∀ n,
    emptyFrames k d (n + 1) = emptyFrames k (d + 1) n ++ [⟨bit32 k d, .empty⟩]
  | 0 => rfl
  | n + 1 => by
    have e : d + 1 + n = d + (n + 1) := by omega
    rw [emptyFrames, emptyFrames_succ_top k d n, emptyFrames, e]
    rfl

theorem onPath_emptyFrames (k : Key32) (d : Nat) : ∀ n, OnPath k d (emptyFrames k d n)
  | 0 => trivial
  | n + 1 => ⟨by simp [emptyFrames_length], onPath_emptyFrames k d n⟩

omit hok in
theorem nodeOf_node_facts (hok : HashOn H U) (e : Nat) (l r : T) :
    (nodeOf H hok e (.node l r)).isLeaf = false ∧ (nodeOf H hok e (.node l r)).height = maxHeight - e ∧
      (nodeOf H hok e (.node l r)).isPlaceholder = false := by
  simp [nodeOf, Node.isLeaf, Node.pfx, Node.isPlaceholder, Node.height]

/-- **the `for placeholder in placeholders` loop**: from the node of an internal subtree `t` at depth `d + n`
it builds the chain of `n` single-child ancestors along `k` up to depth `d`, writing each of them -/
theorem placeholderChain_frames (k : Key32) (d : Nat) : ∀ (n : Nat) (t : T) (st : σ),
    (∃ l r, t = .node l r) → d + n ≤ maxHeight →
    placeholderChain H S k.val n (nodeOf H hok (d + n) t) st =
      .ok (nodeOf H hok d (plug t (emptyFrames k d n)),
        mergeStore H hok S false d t t (emptyFrames k d n) st)
  | 0, _, _, _, _ => rfl
  | n + 1, t, st, ⟨l, r, e⟩, hle => by
    subst e
    obtain ⟨h1, h2, _⟩ := nodeOf_node_facts H hok (d + (n + 1)) l r
    have hstep : Node.createNodeOnPath H k.val (nodeOf H hok (d + (n + 1)) (.node l r)) .placeholder =
        .ok (nodeOf H hok (d + n) ((⟨bit32 k (d + n), .empty⟩ : Frame).plug (.node l r))) := by
      unfold Node.createNodeOnPath
      have hp : Node.height Node.placeholder = 0 := rfl
      have e1 : maxHeight - (d + (n + 1)) + 1 = maxHeight - (d + n) := by omega
      have e2 : maxHeight - (maxHeight - (d + n)) = d + n := by omega
      simp only [h1, Bool.false_and, Bool.false_eq_true, ↓reduceIte, h2, hp, Nat.max_zero, e1, e2]
      rw [if_neg (by omega), getInstruction_some k.val (d + n) (bits_lt k (by omega))]
      cases hb' : bitOf k.val (d + n) with
      | true =>
        have hb2 : bit32 k (d + n) = true := hb'
        simp only [hb2, Frame.plug, ↓reduceIte, nodeOf, Node.createNode, Node.hash, hb_empty]
        rfl
      | false =>
        have hb2 : bit32 k (d + n) = false := hb'
        simp only [hb2, Frame.plug, Bool.false_eq_true, ↓reduceIte, nodeOf, Node.createNode, Node.hash,
          hb_empty]
        rfl
    rw [placeholderChain, hstep]
    simp only
    rw [placeholderChain_frames k d n _ _ (plug1_isNode _ _) (by omega)]
    simp only [emptyFrames, plug, mergeStore, emptyFrames_length, Bool.false_eq_true, ↓reduceIte]

omit hok in
/-- the loop that never removes does not look at the old focus -/
theorem mergeStore_false_irrel (hok : HashOn H U) (d0 : Nat) : ∀ (fs : List Frame) (a b c : T) (st : σ),
    mergeStore H hok S false d0 a c fs st = mergeStore H hok S false d0 b c fs st
  | [], _, _, _, _ => rfl
  | f :: fs, a, b, c, st => by
    simp only [mergeStore, Bool.false_eq_true, ↓reduceIte]
    exact mergeStore_false_irrel hok d0 fs (f.plug a) (f.plug b) (f.plug c) _

/-! ### `create_node_on_path` on two leaves, and the structural `join` -/

/-- **`Node::create_node_on_path` on two leaves** creates their parent at the depth of the first differing
key bit, the leaf of `k` on the side of its bit -/
theorem createNodeOnPath_leaves (k k' : Key32) (v v' : Hash32) (d d' : Nat) (hne : k ≠ k') :
    Node.createNodeOnPath H k.val (nodeOf H hok d (.leaf k v)) (nodeOf H hok d' (.leaf k' v')) =
      .ok (nodeOf H hok (commonPrefixCount k.val k'.val)
        ((⟨bit32 k (commonPrefixCount k.val k'.val), .leaf k' v'⟩ : Frame).plug (.leaf k v))) := by
  have hne' : k.val ≠ k'.val := fun e => hne (Subtype.ext e)
  obtain ⟨h1, _, _⟩ := cpc_spec k.val k'.val (by rw [k.property, k'.property]) hne'
  have hm : commonPrefixCount k.val k'.val < maxHeight := by
    rw [k.property] at h1; have : maxHeight = 8 * keyBytes := by decide
    omega
  unfold Node.createNodeOnPath
  have hl1 : (nodeOf H hok d (.leaf k v)).isLeaf = true := by simp [nodeOf, Node.isLeaf, Node.pfx]
  have hl2 : (nodeOf H hok d' (.leaf k' v')).isLeaf = true := by simp [nodeOf, Node.isLeaf, Node.pfx]
  have hcp : Node.commonPathLength (nodeOf H hok d (.leaf k v)) (nodeOf H hok d' (.leaf k' v')) =
      commonPrefixCount k.val k'.val := by
    simp [Node.commonPathLength, nodeOf, Node.isPlaceholder, Node.leafKey, Node.bytesLo]
  simp only [hl1, hl2, Bool.and_self, ↓reduceIte, hcp]
  rw [if_neg (by omega), getInstruction_some k.val _ (bits_lt k hm)]
  cases hb' : bitOf k.val (commonPrefixCount k.val k'.val) with
  | true =>
    have hb2 : bit32 k (commonPrefixCount k.val k'.val) = true := hb'
    simp only [hb2, Frame.plug, ↓reduceIte, nodeOf, Node.createNode, Node.hash]
    rfl
  | false =>
    have hb2 : bit32 k (commonPrefixCount k.val k'.val) = false := hb'
    simp only [hb2, Frame.plug, Bool.false_eq_true, ↓reduceIte, nodeOf, Node.createNode, Node.hash]
    rfl

/-- **the structural `join` as a zipper**: the two leaves under their parent at the first differing bit `m`,
below a chain of single-child nodes from depth `d` -/
theorem join_frames (k k' : Key32) (v v' : Hash32) (m : Nat) (hdiff : bit32 k m ≠ bit32 k' m) :
    ∀ (n d f : Nat), d + n = m → n < f → (∀ i, d ≤ i → i < m → bit32 k i = bit32 k' i) →
      join bit32 f d k v k' v' =
        plug (.leaf k v) (⟨bit32 k m, .leaf k' v'⟩ :: emptyFrames k d n)
  | 0, d, f, hd, hf, _ => by
    have e : d = m := by omega
    subst e
    obtain ⟨f', rfl⟩ : ∃ f', f = f' + 1 := ⟨f - 1, by omega⟩
    cases h1 : bit32 k d <;> cases h2 : bit32 k' d
    · rw [h1, h2] at hdiff; exact absurd rfl hdiff
    · simp [join, h1, h2, emptyFrames, plug, Frame.plug]
    · simp [join, h1, h2, emptyFrames, plug, Frame.plug]
    · rw [h1, h2] at hdiff; exact absurd rfl hdiff
  | n + 1, d, f, hd, hf, hag => by
    obtain ⟨f', rfl⟩ : ∃ f', f = f' + 1 := ⟨f - 1, by omega⟩
    have hbd := hag d (Nat.le_refl d) (by omega)
    have ih := join_frames k k' v v' m hdiff n (d + 1) f' (by omega) (by omega)
      (fun i h1 h2 => hag i (by omega) h2)
    rw [emptyFrames_succ_top, ← List.cons_append, plug_append, ← ih]
    cases h1 : bit32 k d
    · have h2 : bit32 k' d = false := by rw [← hbd, h1]
      simp [join, h1, h2, plug, Frame.plug]
    · have h2 : bit32 k' d = true := by rw [← hbd, h1]
      simp [join, h1, h2, plug, Frame.plug]

omit hok in
theorem leaf_sub_join (k k' : Key32) (v v' : Hash32) : ∀ (f d : Nat),
    IsSub (.leaf k v) (join bit32 f d k v k' v')
  | 0, _ => rfl
  | f + 1, d => by
    have ih := leaf_sub_join k k' v v' f (d + 1)
    unfold join
    split
    · exact .inr (.inl rfl)
    · exact .inr (.inr rfl)
    · exact .inr (.inl ih)
    · exact .inr (.inr ih)

omit hok in
/-- the inserted leaf is a subtree of the tree after the insert -/
theorem leaf_sub_insert (k : Key32) (v : Hash32) : ∀ (t : T) (d : Nat),
    IsSub (.leaf k v) (Smt.insert bit32 width d k v t)
  | .empty, _ => rfl
  | .leaf k' v', d => by
    unfold Smt.insert
    split
    · rfl
    · exact leaf_sub_join k k' v v' _ _
  | .node l r, d => by
    unfold Smt.insert
    split
    · exact .inr (.inr (leaf_sub_insert k v r (d + 1)))
    · exact .inr (.inl (leaf_sub_insert k v l (d + 1)))

/-! ### `update_with_path_set` -/

omit hok in
/-- the part of `update_with_path_set` before the merge-side-nodes loop ("merge leaves", "merge placeholders",
or the removal of the overwritten leaf): the node to continue from and the store -/
def updateR (t : SMT σ) (requested actual : Node) (sideNodes : List Bytes) : Except Err (Node × σ) :=
  if requested.leafKey ≠ actual.leafKey then
    let r1 : Except Err (Node × σ) :=
      if !actual.isPlaceholder then
        match Node.createNodeOnPath H requested.leafKey requested actual with
        | .error e => .error e
        | .ok c => .ok (c, putNode S t.storage c)
      else .ok (requested, t.storage)
    match r1 with
    | .error e => .error e
    | .ok (cur, st) =>
      placeholderChain H S requested.leafKey
        (Node.commonPathLength requested actual - sideNodes.length) cur st
  else .ok (requested, S.remove t.storage actual.hash)

omit hok in
theorem updateWithPathSet_unfold (t : SMT σ) (requested actual : Node) (parents : List Node)
    (sideNodes : List Bytes) (hne : requested ≠ actual) :
    updateWithPathSet H S t requested (actual :: parents) sideNodes =
      match updateR H S t requested actual sideNodes with
      | .error e => (t, .error e)
      | .ok (cur, st) =>
        (⟨(mergeSides H S true sideNodes parents cur st).1, (mergeSides H S true sideNodes parents cur st).2⟩,
          .ok ()) := by
  simp only [updateWithPathSet, if_neg hne]
  rfl

omit hok in
theorem update_finish (s : SMT σ) (req act : Node) (parents : List Node) (sides : List Bytes)
    (hne : req ≠ act) (cur : Node) (st' : σ) (hR : updateR H S s req act sides = .ok (cur, st'))
    (X : Node) (Y : σ) (hm : mergeSides H S true sides parents cur st' = (X, Y)) :
    updateWithPathSet H S s req (act :: parents) sides = (⟨X, Y⟩, .ok ()) := by
  rw [updateWithPathSet_unfold H S s req act parents sides hne, hR]
  simp only [hm]

omit hok in
theorem update_same (s : SMT σ) (req : Node) (parents : List Node) (sides : List Bytes) :
    updateWithPathSet H S s req (req :: parents) sides = (s, .ok ()) := by
  simp [updateWithPathSet]

theorem spineH_append (A B : List Frame) (c : T) :
    spineH H hok c (A ++ B) = spineH H hok c A ++ spineH H hok (plug c A) B := by
  simp [spineH, spineT_append]

theorem sibsStored_empty (st : σ) (d0 : Nat) : ∀ (fs : List Frame), (∀ g ∈ fs, g.sib = .empty) →
    SibsStored H hok S st d0 fs
  | [], _ => trivial
  | f :: fs, h => by
    refine ⟨?_, sibsStored_empty st d0 fs (fun g hg => h g (List.mem_cons_of_mem _ hg))⟩
    rw [h f List.mem_cons_self]
    trivial

variable (laws : StoreLaws S)
include laws

/-- writing a leaf node keeps every stored tree stored (a leaf's node does not depend on its depth) -/
theorem stored_put_leaf (k : Key32) (v : Hash32) (e : Nat) (hUl : U (.leaf k v)) {st : σ} : ∀ {t : T} {d : Nat},
    (∀ u, IsSub u t → U u) →
    Stored H hok S st d t → Stored H hok S (putNode S st (nodeOf H hok e (.leaf k v))) d t
  | .empty, _, _, _ => trivial
  | .leaf k' v', d, hU, hs => by
    show S.get _ (hb H hok (.leaf k' v')) = some (nodeOf H hok d (.leaf k' v')).toPrim
    rw [get_putNode S laws, nodeOf_hash]
    by_cases e1 : hb H hok (.leaf k v) = hb H hok (.leaf k' v')
    · rw [if_pos e1]
      have := hb_injective H hok hUl (hU _ rfl) e1
      cases this
      rfl
    · rw [if_neg e1]; exact hs
  | .node l r, d, hU, hs => by
    refine ⟨?_, stored_put_leaf k v e hUl (fun u hu => hU u (.inr (.inl hu))) hs.2.1,
      stored_put_leaf k v e hUl (fun u hu => hU u (.inr (.inr hu))) hs.2.2⟩
    rw [get_putNode S laws, nodeOf_hash, if_neg]
    · exact hs.1
    · intro e1
      have := hb_injective H hok hUl (hU _ (.inl rfl)) e1
      cases this

omit laws in
/-- `path_set` on a represented tree, in zipper form -/
theorem pathSet_zipper {s : SMT σ} {t : T} (hr : Rep H hok S s t) (k : Key32) :
    SmtStore.pathSet H S s k.val =
      .ok (nodeOf H hok (0 + (frames k 0 t).length) (term k 0 t) ::
          pnodes H hok 0 (term k 0 t) (frames k 0 t), sideHashes H hok (frames k 0 t)) := by
  rw [pathSet_rep H hok S hr k, upNodes_eq, upParents_frames, upSides_frames, termDepth_frames]

/-- the state after the merge-side-nodes loop of `update_with_path_set` represents the re-plugged tree -/
theorem rep_mergeStore_true (fs : List Frame) (c0 c : T) (st' : σ)
    (hc0 : Canon bit32 width 0 (plug c0 fs)) (hcn : Canon bit32 width 0 (plug c fs))
    (hU0 : ∀ u, IsSub u (plug c0 fs) → U u) (hU : ∀ u, IsSub u (plug c fs) → U u)
    (x : T) (hx : IsSub x c) (hnx : ¬ IsSub x (plug c0 fs))
    (hcsub : ∀ u, IsSub u c → (∃ k v, u = .leaf k v) ∨ IsSub x u)
    (hc : Stored H hok S st' (0 + fs.length) c) (hs : SibsStored H hok S st' 0 fs) :
    Rep H hok S ⟨nodeOf H hok 0 (plug c fs), mergeStore H hok S true 0 c0 c fs st'⟩ (plug c fs) :=
  ⟨hcn, rfl, stored_mergeStore H hok S laws true fs c0 c 0 st' hU (spineH_fresh H hok hcn hU)
    (fun _ => old_spine_fresh H hok hc0 hU0 hU x hx hnx hcsub) hc hs, hU⟩

/-- common end of the three cases of `update_with_path_set` -/
theorem update_rep_finish (k : Key32) (v : Hash32) (fs : List Frame) (c0 c : T) (st1 st' : σ)
    (hc0 : Canon bit32 width 0 (plug c0 fs)) (hcn : Canon bit32 width 0 (plug c fs))
    (hU0 : ∀ u, IsSub u (plug c0 fs) → U u) (hU : ∀ u, IsSub u (plug c fs) → U u)
    (hne : nodeOf H hok 0 (.leaf k v) ≠ nodeOf H hok (0 + fs.length) c0)
    (hR : updateR H S ⟨nodeOf H hok 0 (plug c0 fs), st1⟩ (nodeOf H hok 0 (.leaf k v))
      (nodeOf H hok (0 + fs.length) c0) (sideHashes H hok fs) = .ok (nodeOf H hok (0 + fs.length) c, st'))
    (hx : IsSub (.leaf k v) c) (hnx : ¬ IsSub (.leaf k v) (plug c0 fs))
    (hcsub : ∀ u, IsSub u c → (∃ k' v', u = .leaf k' v') ∨ IsSub (.leaf k v) u)
    (hc : Stored H hok S st' (0 + fs.length) c) (hs : SibsStored H hok S st' 0 fs) :
    ∃ s', updateWithPathSet H S ⟨nodeOf H hok 0 (plug c0 fs), st1⟩ (nodeOf H hok 0 (.leaf k v))
        (nodeOf H hok (0 + fs.length) c0 :: pnodes H hok 0 c0 fs) (sideHashes H hok fs) = (s', .ok ()) ∧
      Rep H hok S s' (plug c fs) :=
  ⟨_, update_finish H S _ _ _ _ _ hne _ _ hR _ _
      (mergeSides_plug H hok S true fs c0 c 0 st' (sibNe_of_canon H hok fs c0 0 hc0 hU0)),
    rep_mergeStore_true H hok S laws fs c0 c st' hc0 hcn hU0 hU (.leaf k v) hx hnx hcsub hc hs⟩

/-- "merge leaves / merge placeholders" with a placeholder at the end of the path: nothing is built, the
store is unchanged except possibly at the zero sum (the all-zero key takes the overwrite branch) -/
theorem updateR_placeholder (s : SMT σ) (req : Node) (sides : List Bytes) :
    ∃ st', updateR H S s req .placeholder sides = .ok (req, st') ∧
      ∀ h, h ≠ zeroSum → S.get st' h = S.get s.storage h := by
  by_cases hk : req.leafKey = Node.leafKey .placeholder
  · refine ⟨S.remove s.storage zeroSum, by simp [updateR, hk]; rfl, fun h hh => ?_⟩
    rw [laws.get_remove, if_neg (Ne.symm hh)]
  · exact ⟨s.storage, by simp [updateR, hk, Node.isPlaceholder, Node.commonPathLength, placeholderChain],
      fun _ _ => rfl⟩

/-- **`update_with_path_set` on a represented tree implements the structural `insert`** (the new leaf is
already in the store, as `MerkleTree::insert` writes it first) -/
theorem update_rep (k : Key32) (v : Hash32) {t : T} {st1 : σ}
    (hr : Rep H hok S ⟨nodeOf H hok 0 t, st1⟩ t)
    (hUn : ∀ u, IsSub u (Smt.insert bit32 width 0 k v t) → U u)
    (hleaf : S.get st1 (hb H hok (.leaf k v)) = some (nodeOf H hok 0 (.leaf k v)).toPrim) :
    ∃ s', updateWithPathSet H S ⟨nodeOf H hok 0 t, st1⟩ (nodeOf H hok 0 (.leaf k v))
        (nodeOf H hok (0 + (frames k 0 t).length) (term k 0 t) ::
          pnodes H hok 0 (term k 0 t) (frames k 0 t)) (sideHashes H hok (frames k 0 t)) = (s', .ok ()) ∧
      Rep H hok S s' (Smt.insert bit32 width 0 k v t) := by
  have hop := onPath_frames k t 0
  have hterm := term_cases k t 0
  have hplug := plug_frames k t 0
  generalize frames k 0 t = fs at hop hplug ⊢
  generalize term k 0 t = c0 at hterm hplug ⊢
  subst hplug
  obtain ⟨hcan, _, hst, hU0⟩ := hr
  simp only at hst
  have hall : (plug c0 fs).All (AgreeBelow bit32 0 k) :=
    All.of_forall (fun _ i hi => absurd hi (Nat.not_lt_zero i)) _
  have hcan' := (canon_insert bit32 width keyExt_bytes v 0 (plug c0 fs) (Nat.zero_le _) hcan hall).1
  rw [insert_plug k v fs c0 0 hop] at hcan' hUn ⊢
  obtain ⟨hstc, _, hsts⟩ := (stored_plug H hok S fs c0 0).mp hst
  by_cases hne : nodeOf H hok 0 (.leaf k v) = nodeOf H hok (0 + fs.length) c0
  · -- the very same leaf is already there
    have hc0 : c0 = .leaf k v := by
      rcases hterm with e | ⟨k', v', e⟩
      · subst e; simp [nodeOf] at hne
      · subst e
        obtain ⟨e1, e2⟩ := nodeOf_leaf_inj H hok hne
        rw [e1, e2]
    subst hc0
    refine ⟨_, by rw [← hne]; exact update_same H S _ _ _ _, ?_⟩
    have : Smt.insert bit32 width (0 + fs.length) k v (.leaf k v) = .leaf k v := by simp [Smt.insert]
    rw [this]
    exact ⟨hcan, rfl, hst, hU0⟩
  · have hnx : ¬ IsSub (.leaf k v) (plug c0 fs) := by
      intro h
      have h2 := leaf_on_path k v fs c0 0 hop hcan h
      rcases hterm with e | ⟨k', v', e⟩
      · subst e; exact h2
      · subst e
        have h3 : Tree.leaf k v = Tree.leaf k' v' := h2
        cases h3
        exact hne rfl
    rcases hterm with e | ⟨k', v', e⟩
    · -- the path ends at a placeholder
      subst e
      have hins : Smt.insert bit32 width (0 + fs.length) k v (.empty : T) = .leaf k v := rfl
      rw [hins] at hcan' hUn ⊢
      obtain ⟨st', hR, hfr⟩ := updateR_placeholder H S laws ⟨nodeOf H hok 0 (plug .empty fs), st1⟩
        (nodeOf H hok 0 (.leaf k v)) (sideHashes H hok fs)
      refine update_rep_finish H hok S laws k v fs .empty (.leaf k v) st1 st' hcan hcan' hU0 hUn hne hR rfl hnx
        (fun u hu => .inl ⟨k, v, hu⟩) ?_ ?_
      · show S.get st' (hb H hok (.leaf k v)) = _
        rw [hfr _ (hb_ne_zero H hok (hUn _ (isSub_plug fs _ _ rfl)) (by intro h; cases h))]
        exact hleaf
      · exact sibsStored_congr H hok S fs hsts
          (fun g hg h hm => hfr h (mem_hashesOf_ne_zero H hok
            (fun x hx => hU0 x (isSub_plug_sib fs _ x g hg hx)) hm))
    · subst e
      by_cases hk : k' = k
      · -- overwrite
        subst hk
        have hv : v' ≠ v := fun e => hne (by subst e; rfl)
        have hins : Smt.insert bit32 width (0 + fs.length) k' v (.leaf k' v') = .leaf k' v := by
          simp [Smt.insert]
        rw [hins] at hcan' hUn ⊢
        have hR : updateR H S ⟨nodeOf H hok 0 (plug (.leaf k' v') fs), st1⟩ (nodeOf H hok 0 (.leaf k' v))
            (nodeOf H hok (0 + fs.length) (.leaf k' v')) (sideHashes H hok fs) =
            .ok (nodeOf H hok (0 + fs.length) (.leaf k' v), S.remove st1 (hb H hok (.leaf k' v'))) := by
          simp [updateR, nodeOf, Node.leafKey, Node.bytesLo, Node.hash, hb_leaf]
        have hhne : hb H hok (.leaf k' v') ≠ hb H hok (.leaf k' v) := by
          intro e
          have := hb_injective H hok (hU0 _ (isSub_plug fs _ _ rfl)) (hUn _ (isSub_plug fs _ _ rfl)) e
          cases this
          exact hv rfl
        refine update_rep_finish H hok S laws k' v fs (.leaf k' v') (.leaf k' v) st1 _ hcan hcan' hU0 hUn hne hR rfl hnx
          (fun u hu => .inl ⟨k', v, hu⟩) ?_ ?_
        · show S.get _ (hb H hok (.leaf k' v)) = _
          rw [laws.get_remove, if_neg hhne]
          exact hleaf
        · refine sibsStored_congr H hok S fs hsts (fun g hg h hm => ?_)
          rw [laws.get_remove, if_neg]
          intro e
          rw [← e] at hm
          exact focus_fresh H hok hcan hU0 (by intro h; cases h) g hg hm
      · -- a different leaf: merge leaves, merge placeholders
        have hkv : k.val ≠ k'.val := fun e => hk (Subtype.ext e).symm
        obtain ⟨hm1, hm2, hm3⟩ := cpc_spec k.val k'.val (by rw [k.property, k'.property]) hkv
        have hmlt : commonPrefixCount k.val k'.val < maxHeight := by
          rw [k.property] at hm1; have : maxHeight = 8 * keyBytes := by decide
          omega
        have hagree := focus_agrees k fs (.leaf k' v') 0 hop hcan
        have hDm : 0 + fs.length ≤ commonPrefixCount k.val k'.val := by
          apply Nat.le_of_not_lt
          intro hlt
          exact hm3 (hagree _ (Nat.zero_le _) hlt).symm
        generalize hmdef : commonPrefixCount k.val k'.val = m at hm1 hm2 hm3 hmlt hDm
        obtain ⟨n, hn⟩ : ∃ n, m = 0 + fs.length + n := ⟨m - (0 + fs.length), by omega⟩
        let bf : Frame := ⟨bit32 k m, .leaf k' v'⟩
        have hins : Smt.insert bit32 width (0 + fs.length) k v (.leaf k' v') =
            plug (.leaf k v) (bf :: emptyFrames k (0 + fs.length) n) := by
          simp only [Smt.insert, if_neg hk]
          exact join_frames k k' v v' m hm3 n (0 + fs.length) _ hn.symm
            (by rw [width_le]; omega) (fun i _ h2 => hm2 i h2)
        rw [hins] at hcan' hUn ⊢
        have hcA := canon_plug fs _ 0 hcan'
        have hR : updateR H S ⟨nodeOf H hok 0 (plug (.leaf k' v') fs), st1⟩ (nodeOf H hok 0 (.leaf k v))
            (nodeOf H hok (0 + fs.length) (.leaf k' v')) (sideHashes H hok fs) =
            .ok (nodeOf H hok (0 + fs.length) (plug (.leaf k v) (bf :: emptyFrames k (0 + fs.length) n)),
              mergeStore H hok S false (0 + fs.length) (.leaf k' v') (.leaf k v)
                (bf :: emptyFrames k (0 + fs.length) n) st1) := by
          have hlk : (nodeOf H hok 0 (.leaf k v)).leafKey ≠ (nodeOf H hok (0 + fs.length) (.leaf k' v')).leafKey := hkv
          have hph : (nodeOf H hok (0 + fs.length) (.leaf k' v')).isPlaceholder = false := by
            simp [nodeOf, Node.isPlaceholder]
          have hcp : Node.commonPathLength (nodeOf H hok 0 (.leaf k v))
              (nodeOf H hok (0 + fs.length) (.leaf k' v')) = m := by
            rw [← hmdef]
            simp [Node.commonPathLength, nodeOf, Node.isPlaceholder, Node.leafKey, Node.bytesLo]
          have hlen : (sideHashes H hok fs).length = fs.length := by simp [sideHashes]
          have hkey : (nodeOf H hok 0 (.leaf k v)).leafKey = k.val := rfl
          unfold updateR
          rw [if_pos hlk, hph, hkey, createNodeOnPath_leaves H hok k k' v v' 0 (0 + fs.length) (fun e => hk e.symm),
            hcp, hlen, hmdef]
          simp only [Bool.not_false, ↓reduceIte]
          have e1 : m - fs.length = n := by omega
          rw [e1, hn, placeholderChain_frames H hok S k (0 + fs.length) n _ _ (plug1_isNode _ _) (by omega)]
          simp only [plug, mergeStore, Bool.false_eq_true, ↓reduceIte, emptyFrames_length, ← hn]
          rw [mergeStore_false_irrel H S hok (0 + fs.length) _ (bf.plug (.leaf k v)) (bf.plug (.leaf k' v'))]
        have hSt1leaf : Stored H hok S st1 (0 + fs.length + (bf :: emptyFrames k (0 + fs.length) n).length)
            (.leaf k v) := hleaf
        have hsibs1 : SibsStored H hok S st1 (0 + fs.length) (bf :: emptyFrames k (0 + fs.length) n) :=
          ⟨hstc, sibsStored_empty H hok S st1 _ _ (emptyFrames_sib k _ n)⟩
        have hfull : Canon bit32 width 0
            (plug (.leaf k v) ((bf :: emptyFrames k (0 + fs.length) n) ++ fs)) := by
          rw [plug_append]; exact hcan'
        refine update_rep_finish H hok S laws k v fs (.leaf k' v') _ st1 _ hcan hcan' hU0 hUn hne hR
          (isSub_plug _ _ _ rfl) hnx ?_ ?_ ?_
        · intro u hu
          rcases isSub_plug_cases _ _ _ hu with h1 | h1 | ⟨g, hg, h1⟩
          · exact .inl ⟨k, v, h1⟩
          · exact .inr ((spineT_spec _ _ _ h1).2.2.1 _ rfl)
          · rcases List.mem_cons.mp hg with e | hg'
            · subst e; exact .inl ⟨k', v', h1⟩
            · rw [emptyFrames_sib k _ n g hg'] at h1; exact absurd h1 id
        · have hUA : ∀ u, IsSub u (plug (.leaf k v) (bf :: emptyFrames k (0 + fs.length) n)) → U u :=
            fun u hu => hUn u (isSub_plug fs _ u hu)
          exact stored_mergeStore H hok S laws false _ (.leaf k' v') (.leaf k v) (0 + fs.length) st1 hUA
            (spineH_fresh H hok hcA hUA) (fun e => by cases e) hSt1leaf hsibs1
        · refine sibsStored_congr H hok S fs hsts (fun g hg h hm => ?_)
          apply mergeStore_frame H hok S laws false
          · intro hin
            have hin2 : h ∈ spineH H hok (.leaf k v) ((bf :: emptyFrames k (0 + fs.length) n) ++ fs) := by
              rw [spineH_append]; exact List.mem_append_left _ hin
            exact (spineH_fresh H hok hfull (by rw [plug_append]; exact hUn) h hin2).2 g
              (List.mem_append_right _ hg) hm
          · intro e; cases e

omit laws in
theorem nodeOf_isPlaceholder {d : Nat} {t : T} (h : t ≠ .empty) : (nodeOf H hok d t).isPlaceholder = false := by
  cases t with
  | empty => exact absurd rfl h
  | leaf _ _ => simp [nodeOf, Node.isPlaceholder]
  | node _ _ => simp [nodeOf, Node.isPlaceholder]

/-- **`MerkleTree::insert` refines the structural `insert`**: on a state representing the canonical tree `t`
it succeeds and leaves a state representing `insert k (H data) t` -/
theorem insert_rep {s : SMT σ} {t : T} (hr : Rep H hok S s t) (k : Key32) (data : Bytes) (v : Hash32)
    (hv : v.val = H data) (hUn : ∀ u, IsSub u (Smt.insert bit32 width 0 k v t) → U u) :
    ∃ s', SmtStore.insert H S s k.val data = (s', .ok ()) ∧
      Rep H hok S s' (Smt.insert bit32 width 0 k v t) := by
  obtain ⟨root, st⟩ := s
  obtain ⟨hcan, hroot, hst, hU0⟩ := hr
  simp only at hroot hst
  subst hroot
  have hUl : U (.leaf k v) := hUn _ (leaf_sub_insert k v t 0)
  have hleafnode : Node.createLeaf H k.val data = nodeOf H hok 0 (.leaf k v) := by
    simp [Node.createLeaf, nodeOf, hv]
  have hst1 : Stored H hok S (putNode S st (nodeOf H hok 0 (.leaf k v))) 0 t :=
    stored_put_leaf H hok S laws k v 0 hUl hU0 hst
  have hleaf : S.get (putNode S st (nodeOf H hok 0 (.leaf k v))) (hb H hok (.leaf k v)) =
      some (nodeOf H hok 0 (.leaf k v)).toPrim := by
    rw [get_putNode S laws, nodeOf_hash, if_pos rfl]
  unfold SmtStore.insert
  simp only [hleafnode]
  by_cases ht : t = .empty
  · subst ht
    refine ⟨⟨nodeOf H hok 0 (.leaf k v), putNode S st (nodeOf H hok 0 (.leaf k v))⟩, ?_, trivial, rfl, hleaf, hUn⟩
    simp [nodeOf, Node.isPlaceholder]
  · have hrep1 : Rep H hok S ⟨nodeOf H hok 0 t, putNode S st (nodeOf H hok 0 (.leaf k v))⟩ t :=
      ⟨hcan, rfl, hst1, hU0⟩
    rw [if_neg (by simp [nodeOf_isPlaceholder H hok ht]), pathSet_zipper H hok S hrep1 k]
    exact update_rep H hok S laws k v hrep1 hUn hleaf

end FuelVerif.SmtRefine
