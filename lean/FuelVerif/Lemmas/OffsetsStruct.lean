import FuelVerif.Lemmas.OffsetsGeneric
namespace FuelVerif.Offsets
open FuelVerif FuelVerif.Canonical

/-! ### a struct's dynamic part is the concatenation of its fields' dynamic parts -/

/-- field descriptors of a struct (through the prefix word) -/
def fieldsOf : Desc → List Desc
  | .pair a b => a :: fieldsOf b
  | .pre _ d => fieldsOf d
  | _ => []

/-- a field list ending in `unit`, possibly behind one prefix -/
def isFields : Desc → Bool
  | .pair _ b => isFields b
  | .unit => true
  | _ => false
def isStruct : Desc → Bool
  | .pre _ d => isFields d
  | d => isFields d

theorem fields_wt (env : Env) : ∀ (d : Desc), isFields d = true → d.wf = true → ∀ v, wt env d v = true →
    v.elems.length = (fieldsOf d).length ∧ v = Val.ofList v.elems ∧
    (∀ (j : Nat) (fd : Desc) (fv : Val), (fieldsOf d)[j]? = some fd → v.elems[j]? = some fv → wt env fd fv = true ∧ fd.wf = true) ∧
    encS env d v = (List.zip (fieldsOf d) v.elems).flatMap (fun p => encS env p.1 p.2) ∧
    encD env d v = (List.zip (fieldsOf d) v.elems).flatMap (fun p => encD env p.1 p.2) ∧
    sizeS env d v = ((List.zip (fieldsOf d) v.elems).map (fun p => sizeS env p.1 p.2)).sum ∧
    sizeD env d v = ((List.zip (fieldsOf d) v.elems).map (fun p => sizeD env p.1 p.2)).sum := by
  intro d
  induction d with
  | pair a b _ ihb =>
    intro hs hw v hv
    simp only [isFields] at hs
    simp only [Desc.wf, Bool.and_eq_true] at hw
    cases v <;> simp [wt] at hv
    rename_i va vb
    obtain ⟨h1, h2, h3, h4, h5, h6, h7⟩ := ihb hs hw.2 vb hv.2
    refine ⟨by simp [Val.elems, fieldsOf, h1], by simp only [Val.elems, Val.ofList]; rw [← h2], ?_, ?_, ?_, ?_, ?_⟩
    · intro j fd fv hj hx
      cases j with
      | zero => simp [fieldsOf, Val.elems] at hj hx; subst hj; subst hx; exact ⟨hv.1, hw.1⟩
      | succ j => simp [fieldsOf, Val.elems] at hj hx; exact h3 j fd fv hj hx
    · simp [encS, fieldsOf, Val.elems, h4]
    · simp [encD, fieldsOf, Val.elems, h5]
    · simp [sizeS, fieldsOf, Val.elems, h6]
    · simp [sizeD, fieldsOf, Val.elems, h7]
  | unit =>
    intro _ _ v hv
    cases v <;> simp [wt] at hv
    simp [Val.elems, fieldsOf, Val.ofList, encS, encD, sizeS, sizeD]
  | _ => intro hs; simp [isFields] at hs

/-- the same through an optional prefix -/
theorem struct_wt (env : Env) (d : Desc) (hs : isStruct d = true) (hw : d.wf = true) (v : Val) (hv : wt env d v = true) :
    v.elems.length = (fieldsOf d).length ∧ v = Val.ofList v.elems ∧
    (∀ (j : Nat) (fd : Desc) (fv : Val), (fieldsOf d)[j]? = some fd → v.elems[j]? = some fv → wt env fd fv = true ∧ fd.wf = true) ∧
    encD env d v = (List.zip (fieldsOf d) v.elems).flatMap (fun p => encD env p.1 p.2) ∧
    sizeD env d v = ((List.zip (fieldsOf d) v.elems).map (fun p => sizeD env p.1 p.2)).sum := by
  cases d with
  | pre p d =>
    simp only [isStruct] at hs
    simp only [Desc.wf, Bool.and_eq_true] at hw
    simp only [wt] at hv
    obtain ⟨h1, h2, h3, _, h5, _, h7⟩ := fields_wt env d hs hw.2 v hv
    exact ⟨by simpa [fieldsOf] using h1, h2, by simpa [fieldsOf] using h3, by simpa [fieldsOf, encD] using h5, by simpa [fieldsOf, sizeD] using h7⟩
  | pair a b =>
    obtain ⟨h1, h2, h3, _, h5, _, h7⟩ := fields_wt env _ (by simpa [isStruct] using hs) hw v hv
    exact ⟨h1, h2, h3, h5, h7⟩
  | unit =>
    obtain ⟨h1, h2, h3, _, h5, _, h7⟩ := fields_wt env _ (by simp [isFields]) hw v hv
    exact ⟨h1, h2, h3, h5, h7⟩
  | _ => simp [isStruct, isFields] at hs

/-- field `j`'s dynamic part sits after the dynamic parts of the fields before it -/
theorem struct_dyn_at (env : Env) (L : EnvLaws env) (d : Desc) (hs : isStruct d = true) (hw : d.wf = true) (v : Val) (hv : wt env d v = true)
    (j : Nat) (fd : Desc) (fv : Val) (hj : (fieldsOf d)[j]? = some fd) (hx : v.elems[j]? = some fv) :
    At (encD env d v) ((((List.zip (fieldsOf d) v.elems).take j).map (fun p => sizeD env p.1 p.2)).sum) (encD env fd fv) := by
  obtain ⟨_, _, h3, h5, _⟩ := struct_wt env d hs hw v hv
  rw [h5]
  have hz : (List.zip (fieldsOf d) v.elems)[j]? = some (fd, fv) := by
    simp [List.getElem?_zip_eq_some, hj, hx]
  have := At.flatMap (fun p : Desc × Val => encD env p.1 p.2) _ j (fd, fv) hz
  have hlen : ((List.zip (fieldsOf d) v.elems).take j).map (fun e => (encD env e.1 e.2).length) =
      ((List.zip (fieldsOf d) v.elems).take j).map (fun p => sizeD env p.1 p.2) := by
    apply List.map_congr_left
    intro p hp
    have hp' := List.mem_of_mem_take hp
    obtain ⟨n, hn⟩ := List.getElem?_of_mem hp'
    have := List.getElem?_zip_eq_some.mp hn
    obtain ⟨w1, w2⟩ := h3 n p.1 p.2 this.1 this.2
    exact ((enc_length_aux env L p.1).1 w2 p.2 w1).2
  rw [hlen] at this
  exact this

/-- types without a dynamic part -/
def noDyn : Desc → Bool
  | .uint _ => true
  | .bytesN _ => true
  | .unit => true
  | .pair a b => noDyn a && noDyn b
  | .pre _ d => noDyn d
  | .skipped => true
  | .empty _ => true
  | _ => false

theorem sizeD_noDyn (env : Env) : ∀ d : Desc, noDyn d = true → ∀ v, sizeD env d v = 0 ∧ encD env d v = [] := by
  intro d
  induction d with
  | pair a b iha ihb =>
    intro h v
    simp only [noDyn, Bool.and_eq_true] at h
    cases v <;> simp [sizeD, encD, iha h.1, ihb h.2]
  | pre p d ih => intro h v; simp only [noDyn] at h; simp [sizeD, encD, ih h]
  | uint n => intro _ v; cases v <;> simp [sizeD, encD]
  | bytesN n => intro _ v; cases v <;> simp [sizeD, encD]
  | unit => intro _ v; cases v <;> simp [sizeD, encD]
  | skipped => intro _ v; cases v <;> simp [sizeD, encD]
  | empty d _ => intro _ v; cases v <;> simp [sizeD, encD]
  | _ => intro h; simp [noDyn] at h

end FuelVerif.Offsets
