/- C23: one step of a history on the instance refines one step on the flat specification. -/
import FuelVerif.Lemmas.MemoryRollback
namespace FuelVerif.Memory

/-- the concrete history state represents the abstract one: current memories and all snapshots pairwise -/
structure SimH (M : Nat) (cs : HState) (ab : AState) : Prop where
  cur : Sim M cs.cur ab.cur
  len : cs.snaps.length = ab.snaps.length
  snaps : ∀ (k : Nat) (ms : Mem) (fs : Flat), cs.snaps[k]? = some ms → ab.snaps[k]? = some fs → Sim M ms fs

theorem simH_init (M : Nat) : SimH M (HState.init M) (AState.init M) :=
  ⟨sim_new M, rfl, by intro k ms fs h; simp [HState.init] at h⟩

theorem refRes_cases {M : Nat} {r : Except Err Mem} {q : Except Err Flat} (h : RefRes M r q) :
    (∃ m f, r = .ok m ∧ q = .ok f ∧ Sim M m f) ∨ (∃ e, r = .error e ∧ q = .error e) := by
  cases r <;> cases q <;> simp_all [RefRes]

theorem step_refines {M minCap : Nat} (hM : M ≤ 2 ^ 64) (hcap : minCap ≤ M) {cs : HState} {ab : AState}
    (h : SimH M cs ab) (op : Op) :
    (stepC M minCap cs op).2 = (stepA M ab op).2 ∧ SimH M (stepC M minCap cs op).1 (stepA M ab op).1 := by
  obtain ⟨hcur, hlen, hsn⟩ := h
  cases op with
  | reset => exact ⟨by first | rfl | trivial, reset_refines hcur, hlen, hsn⟩
  | growStack n =>
    simp only [stepC, stepA]
    rcases refRes_cases (growStack_refines hcur n) with ⟨m, f, h1, h2, h3⟩ | ⟨e, h1, h2⟩
    · rw [h1, h2]; exact ⟨by first | rfl | trivial, h3, hlen, hsn⟩
    · rw [h1, h2]; exact ⟨by first | rfl | trivial, hcur, hlen, hsn⟩
  | growHeap sp a =>
    simp only [stepC, stepA]
    rcases refRes_cases (growHeapBy_refines hM hcap hcur sp a) with ⟨m, f, h1, h2, h3⟩ | ⟨e, h1, h2⟩
    · rw [h1, h2]; exact ⟨by simp [h3.hp], h3, hlen, hsn⟩
    · rw [h1, h2]; exact ⟨by first | rfl | trivial, hcur, hlen, hsn⟩
  | verify a c =>
    simp only [stepC, stepA]
    rw [verify_refines hcur a c]
    cases f : ab.cur.verify M a c with
    | error e => exact ⟨by first | rfl | trivial, hcur, hlen, hsn⟩
    | ok r => obtain ⟨x, y⟩ := r; exact ⟨by first | rfl | trivial, hcur, hlen, hsn⟩
  | read a c =>
    simp only [stepC, stepA]
    rw [read_refines hcur a c]
    cases f : ab.cur.read M a c with
    | error e => exact ⟨by first | rfl | trivial, hcur, hlen, hsn⟩
    | ok r => exact ⟨by first | rfl | trivial, hcur, hlen, hsn⟩
  | write a data =>
    simp only [stepC, stepA]
    have hv : (fun j => data.toArray.getD j 0) = (fun j => data.getD j (0 : UInt8)) := by
      funext j; simp [Array.getD, List.getD]
      split <;> simp_all
    rw [hv]
    rcases refRes_cases (writeNoOwnerChecks_refines hcur a data.length (fun j => data.getD j 0)) with ⟨m, f, h1, h2, h3⟩ | ⟨e, h1, h2⟩
    · rw [h1, h2]; exact ⟨by first | rfl | trivial, h3, hlen, hsn⟩
    · rw [h1, h2]; exact ⟨by first | rfl | trivial, hcur, hlen, hsn⟩
  | memcopy d sr l o =>
    simp only [stepC, stepA]
    rcases refRes_cases (memcopy_refines hcur d sr l o) with ⟨m, f, h1, h2, h3⟩ | ⟨e, h1, h2⟩
    · rw [h1, h2]; exact ⟨by first | rfl | trivial, h3, hlen, hsn⟩
    · rw [h1, h2]; exact ⟨by first | rfl | trivial, hcur, hlen, hsn⟩
  | snapshot =>
    simp only [stepC, stepA]
    refine ⟨by first | rfl | trivial, hcur, by simp [hlen], ?_⟩
    intro k ms fs h1 h2
    dsimp only at h1 h2
    by_cases hk : k < cs.snaps.length
    · rw [List.getElem?_append_left hk] at h1
      rw [List.getElem?_append_left (by omega)] at h2
      exact hsn k ms fs h1 h2
    · rw [List.getElem?_append_right (by omega)] at h1
      rw [List.getElem?_append_right (by omega)] at h2
      rw [hlen] at h1
      cases hz : k - ab.snaps.length with
      | zero =>
        rw [hz] at h1 h2
        simp only [List.getElem?_cons_zero, Option.some.injEq] at h1 h2
        subst h1 h2
        exact hcur
      | succ z =>
        rw [hz] at h1
        simp at h1
  | rollback k =>
    simp only [stepC, stepA]
    cases hc : cs.snaps[k]? with
    | none =>
      have : ab.snaps[k]? = none := by
        rw [List.getElem?_eq_none_iff] at hc ⊢
        omega
      rw [this]
      exact ⟨by first | rfl | trivial, hcur, hlen, hsn⟩
    | some snap =>
      have hk : k < ab.snaps.length := by
        have := (List.getElem?_eq_some_iff.mp hc).1
        omega
      have ha : ab.snaps[k]? = some ab.snaps[k] := List.getElem?_eq_getElem hk
      rw [ha]
      have hss := hsn k snap _ hc ha
      have hr := rollback_refines hcur hss
      dsimp only
      cases hcoll : cs.cur.collectRollbackData M snap with
      | error e =>
        rw [hcoll] at hr
        obtain ⟨he, hne, hrefuse⟩ := hr
        subst he
        simp only [hne, hrefuse, if_true, if_false]
        exact ⟨by first | rfl | trivial, hcur, hlen, hsn⟩
      | ok od =>
        cases od with
        | none =>
          rw [hcoll] at hr
          simp only [hr, if_true]
          exact ⟨by first | rfl | trivial, hcur, hlen, hsn⟩
        | some d =>
          rw [hcoll] at hr
          obtain ⟨hne, hnr, m', hm', hsim⟩ := hr
          simp only [hne, hnr, if_false, hm']
          refine ⟨by first | rfl | trivial, hsim, by simp [List.length_take, hlen], ?_⟩
          intro j ms fs h1 h2
          dsimp only at h1 h2
          rw [List.getElem?_take] at h1 h2
          by_cases hj : j < k + 1
          · rw [if_pos hj] at h1 h2
            exact hsn j ms fs h1 h2
          · rw [if_neg hj] at h1
            cases h1

/-- all histories: same outputs, related final states -/
theorem run_refines {M minCap : Nat} (hM : M ≤ 2 ^ 64) (hcap : minCap ≤ M) :
    ∀ (ops : List Op) {cs : HState} {ab : AState}, SimH M cs ab →
      (runC M minCap cs ops).2 = (runA M ab ops).2 ∧ SimH M (runC M minCap cs ops).1 (runA M ab ops).1
  | [], _, _, h => ⟨rfl, h⟩
  | op :: ops, cs, ab, h => by
    obtain ⟨h1, h2⟩ := step_refines hM hcap h op
    obtain ⟨h3, h4⟩ := run_refines hM hcap ops h2
    simp only [runC, runA]
    exact ⟨by rw [h1, h3], h4⟩

/-- errors a flat operation can answer -/
def Err.isPanicReason : Err → Bool
  | .Unreachable => false
  | .RustPanic => false
  | _ => true

theorem Flat.verify_err {M : Nat} {f : Flat} {a c : Nat} {e : Err} (h : f.verify M a c = .error e) : e.isPanicReason = true := by
  unfold Flat.verify at h
  split at h
  · cases h; rfl
  · split at h
    · cases h
    · cases h; rfl

theorem Flat.growStack_err {M : Nat} {f : Flat} {n : Nat} {e : Err} (h : f.growStack M n = .error e) : e.isPanicReason = true := by
  unfold Flat.growStack at h
  split at h
  · cases h; rfl
  · split at h
    · cases h
    · split at h
      · cases h; rfl
      · cases h

theorem Flat.growHeap_err {f : Flat} {sp a : Nat} {e : Err} (h : f.growHeap sp a = .error e) : e.isPanicReason = true := by
  unfold Flat.growHeap at h
  split at h
  · cases h; rfl
  · split at h
    · cases h; rfl
    · cases h

theorem Flat.memcopy_err {M : Nat} {f : Flat} {d sr l : Nat} {o : Ownership} {e : Err}
    (h : f.memcopy M d sr l o = .error e) : e.isPanicReason = true := by
  unfold Flat.memcopy at h
  cases h1 : f.verify M d l with
  | error e1 => rw [h1] at h; cases h; exact Flat.verify_err h1
  | ok r =>
    rw [h1] at h
    cases h2 : f.verify M sr l with
    | error e2 => rw [h2] at h; cases h; exact Flat.verify_err h2
    | ok r2 =>
      rw [h2] at h
      dsimp only at h
      split at h
      · cases h; rfl
      · split at h
        · cases h
        · cases h; rfl

theorem stepA_out (M : Nat) (s : AState) (op : Op) :
    (stepA M s op).2 ≠ .err .Unreachable ∧ ((stepA M s op).2 = .err .RustPanic → ∃ k, op = .rollback k) := by
  cases op with
  | reset => simp [stepA]
  | growStack n =>
    simp only [stepA]
    cases h : s.cur.growStack M n with
    | ok r => simp
    | error e => have := Flat.growStack_err h; cases e <;> simp_all [Err.isPanicReason]
  | growHeap sp a =>
    simp only [stepA]
    cases h : s.cur.growHeap sp a with
    | ok r => simp
    | error e => have := Flat.growHeap_err h; cases e <;> simp_all [Err.isPanicReason]
  | verify a c =>
    simp only [stepA]
    cases h : s.cur.verify M a c with
    | ok r => simp
    | error e => have := Flat.verify_err h; cases e <;> simp_all [Err.isPanicReason]
  | read a c =>
    simp only [stepA]
    unfold Flat.read
    cases h : s.cur.verify M a c with
    | ok r => simp
    | error e => have := Flat.verify_err h; cases e <;> simp_all [Err.isPanicReason]
  | write a data =>
    simp only [stepA]
    unfold Flat.write
    cases h : s.cur.verify M a data.length with
    | ok r => simp
    | error e => have := Flat.verify_err h; cases e <;> simp_all [Err.isPanicReason]
  | memcopy d sr l o =>
    simp only [stepA]
    cases h : s.cur.memcopy M d sr l o with
    | ok r => simp
    | error e => have := Flat.memcopy_err h; cases e <;> simp_all [Err.isPanicReason]
  | snapshot => simp [stepA]
  | rollback k =>
    simp only [stepA]
    repeat' split
    all_goals simp_all


theorem runA_out (M : Nat) : ∀ (ops : List Op) (s : AState) (i : Nat) (o : Out), (runA M s ops).2[i]? = some o →
    o ≠ .err .Unreachable ∧ (o = .err .RustPanic → ∃ k, ops[i]? = some (.rollback k))
  | [], s, i, o, h => by simp [runA] at h
  | op :: ops, s, i, o, h => by
    simp only [runA] at h
    cases i with
    | zero =>
      simp only [List.getElem?_cons_zero, Option.some.injEq] at h
      subst h
      obtain ⟨h1, h2⟩ := stepA_out M s op
      refine ⟨h1, fun hp => ?_⟩
      obtain ⟨k, hk⟩ := h2 hp
      exact ⟨k, by simp [hk]⟩
    | succ j =>
      simp only [List.getElem?_cons_succ] at h
      have := runA_out M ops _ j o h
      simpa using this

/-- within one transaction (no reset) the retained snapshots are ancestors: their heap pointers are ordered and
none is below the current one -/
structure HpOrdered (s : AState) : Prop where
  sorted : s.snaps.Pairwise (fun a b => a.hp ≥ b.hp)
  above : ∀ f ∈ s.snaps, f.hp ≥ s.cur.hp

theorem Flat.growStack_hp {M : Nat} {f f' : Flat} {n : Nat} (h : f.growStack M n = .ok f') : f'.hp = f.hp := by
  unfold Flat.growStack at h
  split at h
  · cases h
  · split at h
    · cases h; rfl
    · split at h
      · cases h
      · cases h; rfl

theorem Flat.growHeap_hp {f f' : Flat} {sp a : Nat} (h : f.growHeap sp a = .ok f') : f'.hp ≤ f.hp := by
  unfold Flat.growHeap at h
  split at h
  · cases h
  · split at h
    · cases h
    · cases h; simp

theorem Flat.write_hp {M : Nat} {f f' : Flat} {a l : Nat} {v : Nat → UInt8} (h : f.write M a l v = .ok f') : f'.hp = f.hp := by
  unfold Flat.write at h
  split at h
  · cases h
  · cases h; rfl

theorem Flat.memcopy_hp {M : Nat} {f f' : Flat} {d sr l : Nat} {o : Ownership} (h : f.memcopy M d sr l o = .ok f') : f'.hp = f.hp := by
  unfold Flat.memcopy at h
  split at h
  · cases h
  · split at h
    · cases h
    · split at h
      · cases h
      · split at h
        · cases h; rfl
        · cases h

theorem hpOrdered_step (M : Nat) {s : AState} (h : HpOrdered s) (op : Op) (hop : op ≠ .reset) :
    HpOrdered (stepA M s op).1 := by
  obtain ⟨hs, ha⟩ := h
  cases op with
  | reset => exact absurd rfl hop
  | growStack n =>
    simp only [stepA]
    cases hg : s.cur.growStack M n with
    | error e => exact ⟨hs, ha⟩
    | ok f => exact ⟨hs, fun x hx => by have := Flat.growStack_hp hg; have := ha x hx; simp only; omega⟩
  | growHeap sp a =>
    simp only [stepA]
    cases hg : s.cur.growHeap sp a with
    | error e => exact ⟨hs, ha⟩
    | ok f => exact ⟨hs, fun x hx => by have := Flat.growHeap_hp hg; have := ha x hx; simp only; omega⟩
  | verify a c =>
    simp only [stepA]
    cases hg : s.cur.verify M a c with
    | error e => exact ⟨hs, ha⟩
    | ok r => exact ⟨hs, ha⟩
  | read a c =>
    simp only [stepA]
    cases hg : s.cur.read M a c with
    | error e => exact ⟨hs, ha⟩
    | ok r => exact ⟨hs, ha⟩
  | write a data =>
    simp only [stepA]
    cases hg : s.cur.write M a data.length (fun j => data.getD j 0) with
    | error e => exact ⟨hs, ha⟩
    | ok f => exact ⟨hs, fun x hx => by have := Flat.write_hp hg; have := ha x hx; simp only; omega⟩
  | memcopy d sr l o =>
    simp only [stepA]
    cases hg : s.cur.memcopy M d sr l o with
    | error e => exact ⟨hs, ha⟩
    | ok f => exact ⟨hs, fun x hx => by have := Flat.memcopy_hp hg; have := ha x hx; simp only; omega⟩
  | snapshot =>
    simp only [stepA]
    refine ⟨?_, ?_⟩
    · rw [List.pairwise_append]
      refine ⟨hs, List.pairwise_singleton _ _, ?_⟩
      intro a hm b hb
      simp only [List.mem_singleton] at hb
      subst hb
      exact ha a hm
    · intro f hf
      simp only [List.mem_append, List.mem_singleton] at hf
      rcases hf with hf | hf
      · exact ha f hf
      · subst hf; exact Nat.le_refl _
  | rollback k =>
    simp only [stepA]
    cases hk : s.snaps[k]? with
    | none => exact ⟨hs, ha⟩
    | some snap =>
      dsimp only
      split
      · exact ⟨hs, ha⟩
      · split
        · exact ⟨hs, ha⟩
        · refine ⟨hs.sublist (List.take_sublist _ _), ?_⟩
          intro f hf
          dsimp only at hf ⊢
          -- f is among the first k+1 snapshots, snap is the k-th: ordered
          obtain ⟨i, hi, rfl⟩ := List.mem_iff_getElem.mp hf
          rw [List.length_take] at hi
          rw [List.getElem_take]
          obtain ⟨hk', hsn⟩ := List.getElem?_eq_some_iff.mp hk
          subst hsn
          by_cases hik : i = k
          · subst hik; exact Nat.le_refl _
          · exact List.pairwise_iff_getElem.mp hs i k (by omega) hk' (by omega)


theorem hpOrdered_init (M : Nat) : HpOrdered (AState.init M) :=
  ⟨by simp [AState.init], by intro f hf; simp [AState.init] at hf⟩

theorem hpOrdered_run (M : Nat) : ∀ (ops : List Op) (s : AState), HpOrdered s → (∀ op ∈ ops, op ≠ .reset) →
    HpOrdered (runA M s ops).1
  | [], _, h, _ => h
  | op :: ops, s, h, hn => by
    simp only [runA]
    exact hpOrdered_run M ops _ (hpOrdered_step M h op (hn op List.mem_cons_self))
      (fun o ho => hn o (List.mem_cons_of_mem _ ho))

end FuelVerif.Memory
