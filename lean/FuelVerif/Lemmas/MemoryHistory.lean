/- C23: one step of a history on the instance refines one step on the flat specification. -/
import FuelVerif.Lemmas.MemoryRollback
namespace FuelVerif.Memory

/-- the concrete history state represents the abstract one: current memories and all snapshots pairwise -/
structure SimH (M : Nat) (cs : HState) (ab : AState) : Prop where
  cur : Sim M cs.cur ab.cur
  len : cs.snaps.length = ab.snaps.length
  snaps : ∀ (k : Nat) (ms : Mem) (fs : Flat), cs.snaps[k]? = some ms → ab.snaps[k]? = some fs → Sim M ms fs

theorem simH_init (M : Nat) : SimH M (HState.init M) (AState.init M) :=
  ⟨sim_new M, rfl, by intro k ms fs h; simp [HState.init] at h⟩

theorem refRes_cases {M : Nat} {r : Except Err Mem} {q : Except Err Flat} (h : RefRes M r q) :
    (∃ m f, r = .ok m ∧ q = .ok f ∧ Sim M m f) ∨ (∃ e, r = .error e ∧ q = .error e) := by
  cases r <;> cases q <;> simp_all [RefRes]

theorem step_refines {M minCap : Nat} (hM : M ≤ 2 ^ 64) (hcap : minCap ≤ M) {cs : HState} {ab : AState}
    (h : SimH M cs ab) (op : Op) :
    (stepC M minCap cs op).2 = (stepA M ab op).2 ∧ SimH M (stepC M minCap cs op).1 (stepA M ab op).1 := by
  obtain ⟨hcur, hlen, hsn⟩ := h
  cases op with
  | reset => exact ⟨by first | rfl | trivial, reset_refines hcur, hlen, hsn⟩
  | growStack n =>
    simp only [stepC, stepA]
    rcases refRes_cases (growStack_refines hcur n) with ⟨m, f, h1, h2, h3⟩ | ⟨e, h1, h2⟩
    · rw [h1, h2]; exact ⟨by first | rfl | trivial, h3, hlen, hsn⟩
    · rw [h1, h2]; exact ⟨by first | rfl | trivial, hcur, hlen, hsn⟩
  | growHeap sp a =>
    simp only [stepC, stepA]
    rcases refRes_cases (growHeapBy_refines hM hcap hcur sp a) with ⟨m, f, h1, h2, h3⟩ | ⟨e, h1, h2⟩
    · rw [h1, h2]; exact ⟨by simp [h3.hp], h3, hlen, hsn⟩
    · rw [h1, h2]; exact ⟨by first | rfl | trivial, hcur, hlen, hsn⟩
  | verify a c =>
    simp only [stepC, stepA]
    rw [verify_refines hcur a c]
    cases f : ab.cur.verify M a c with
    | error e => exact ⟨by first | rfl | trivial, hcur, hlen, hsn⟩
    | ok r => obtain ⟨x, y⟩ := r; exact ⟨by first | rfl | trivial, hcur, hlen, hsn⟩
  | read a c =>
    simp only [stepC, stepA]
    rw [read_refines hcur a c]
    cases f : ab.cur.read M a c with
    | error e => exact ⟨by first | rfl | trivial, hcur, hlen, hsn⟩
    | ok r => exact ⟨by first | rfl | trivial, hcur, hlen, hsn⟩
  | write a data =>
    simp only [stepC, stepA]
    have hv : (fun j => data.toArray.getD j 0) = (fun j => data.getD j (0 : UInt8)) := by
      funext j; simp [Array.getD, List.getD]
      split <;> simp_all
    rw [hv]
    rcases refRes_cases (writeNoOwnerChecks_refines hcur a data.length (fun j => data.getD j 0)) with ⟨m, f, h1, h2, h3⟩ | ⟨e, h1, h2⟩
    · rw [h1, h2]; exact ⟨by first | rfl | trivial, h3, hlen, hsn⟩
    · rw [h1, h2]; exact ⟨by first | rfl | trivial, hcur, hlen, hsn⟩
  | memcopy d sr l o =>
    simp only [stepC, stepA]
    rcases refRes_cases (memcopy_refines hcur d sr l o) with ⟨m, f, h1, h2, h3⟩ | ⟨e, h1, h2⟩
    · rw [h1, h2]; exact ⟨by first | rfl | trivial, h3, hlen, hsn⟩
    · rw [h1, h2]; exact ⟨by first | rfl | trivial, hcur, hlen, hsn⟩
  | snapshot =>
    simp only [stepC, stepA]
    refine ⟨by first | rfl | trivial, hcur, by simp [hlen], ?_⟩
    intro k ms fs h1 h2
    dsimp only at h1 h2
    by_cases hk : k < cs.snaps.length
    · rw [List.getElem?_append_left hk] at h1
      rw [List.getElem?_append_left (by omega)] at h2
      exact hsn k ms fs h1 h2
    · rw [List.getElem?_append_right (by omega)] at h1
      rw [List.getElem?_append_right (by omega)] at h2
      rw [hlen] at h1
      cases hz : k - ab.snaps.length with
      | zero =>
        rw [hz] at h1 h2
        simp only [List.getElem?_cons_zero, Option.some.injEq] at h1 h2
        subst h1 h2
        exact hcur
      | succ z =>
        rw [hz] at h1
        simp at h1
  | rollback k =>
    simp only [stepC, stepA]
    cases hc : cs.snaps[k]? with
    | none =>
      have : ab.snaps[k]? = none := by
        rw [List.getElem?_eq_none_iff] at hc ⊢
        omega
      rw [this]
      exact ⟨by first | rfl | trivial, hcur, hlen, hsn⟩
    | some snap =>
      have hk : k < ab.snaps.length := by
        have := (List.getElem?_eq_some_iff.mp hc).1
        omega
      have ha : ab.snaps[k]? = some ab.snaps[k] := List.getElem?_eq_getElem hk
      rw [ha]
      have hss := hsn k snap _ hc ha
      have hr := rollback_refines hcur hss
      dsimp only
      cases hcoll : cs.cur.collectRollbackData M snap with
      | error e =>
        rw [hcoll] at hr
        obtain ⟨he, hne, hrefuse⟩ := hr
        subst he
        simp only [hne, hrefuse, if_true, if_false]
        exact ⟨by first | rfl | trivial, hcur, hlen, hsn⟩
      | ok od =>
        cases od with
        | none =>
          rw [hcoll] at hr
          simp only [hr, if_true]
          exact ⟨by first | rfl | trivial, hcur, hlen, hsn⟩
        | some d =>
          rw [hcoll] at hr
          obtain ⟨hne, hnr, m', hm', hsim⟩ := hr
          simp only [hne, hnr, if_false, hm']
          refine ⟨by first | rfl | trivial, hsim, by simp [List.length_take, hlen], ?_⟩
          intro j ms fs h1 h2
          dsimp only at h1 h2
          rw [List.getElem?_take] at h1 h2
          by_cases hj : j < k + 1
          · rw [if_pos hj] at h1 h2
            exact hsn j ms fs h1 h2
          · rw [if_neg hj] at h1
            cases h1

/-- all histories: same outputs, related final states -/
theorem run_refines {M minCap : Nat} (hM : M ≤ 2 ^ 64) (hcap : minCap ≤ M) :
    ∀ (ops : List Op) {cs : HState} {ab : AState}, SimH M cs ab →
      (runC M minCap cs ops).2 = (runA M ab ops).2 ∧ SimH M (runC M minCap cs ops).1 (runA M ab ops).1
  | [], _, _, h => ⟨rfl, h⟩
  | op :: ops, cs, ab, h => by
    obtain ⟨h1, h2⟩ := step_refines hM hcap h op
    obtain ⟨h3, h4⟩ := run_refines hM hcap ops h2
    simp only [runC, runA]
    exact ⟨by rw [h1, h3], h4⟩

end FuelVerif.Memory
