/- Helper lemmas for the Policies serde model (C06). -/
import FuelVerif.Model.PoliciesSerde
namespace FuelVerif.PoliciesSerde
open FuelVerif.Serde FuelVerif.Gen.Policies

theorem u64s_map (xs : List Nat) : u64s (xs.map Tree.u64) = some xs := by
  induction xs with
  | nil => rfl
  | cons x xs ih => simp [u64s, ih]

theorem scatter_gather (bits : Nat) (rest : List Nat) :
    ∀ (vals fb : List Nat), UnsetZero bits vals fb →
      scatter bits fb (gather bits vals fb ++ rest) = .ok (vals, rest)
  | [], [], _ => by simp [scatter, gather]
  | [], _ :: _, h => by simp [UnsetZero] at h
  | _ :: _, [], h => by simp [UnsetZero] at h
  | v :: vs, b :: bs, h => by
    simp only [UnsetZero] at h
    have ih := scatter_gather bits rest vs bs h.2
    by_cases hb : bits.testBit b = true
    · simp [scatter, gather, hb, ih]
    · have hb' : bits.testBit b = false := by simpa using hb
      have hv := h.1 hb'
      subst hv
      simp [scatter, gather, hb', ih]

/-- the image of `scatter` is canonical -/
theorem scatter_unsetZero (bits : Nat) :
    ∀ (fb dec vals r : List Nat), scatter bits fb dec = .ok (vals, r) → UnsetZero bits vals fb
  | [], dec, vals, r, h => by
    simp only [scatter, Except.ok.injEq, Prod.mk.injEq] at h; rw [← h.1]; trivial
  | b :: bs, dec, vals, r, h => by
    unfold scatter at h
    by_cases hb : bits.testBit b = true
    · simp only [hb, if_true] at h
      cases dec with
      | nil => simp at h
      | cons v rest =>
        simp only at h
        cases hs : scatter bits bs rest with
        | error e => simp [hs] at h
        | ok pr =>
          obtain ⟨vals', r'⟩ := pr
          simp only [hs, Except.ok.injEq, Prod.mk.injEq] at h
          rw [← h.1]
          exact ⟨by simp [hb], scatter_unsetZero bits bs rest vals' r' hs⟩
    · have hb' : bits.testBit b = false := by simpa using hb
      simp only [hb', Bool.false_eq_true, if_false] at h
      cases hs : scatter bits bs dec with
      | error e => simp [hs] at h
      | ok pr =>
        obtain ⟨vals', r'⟩ := pr
        simp only [hs, Except.ok.injEq, Prod.mk.injEq] at h
        rw [← h.1]
        exact ⟨fun _ => rfl, scatter_unsetZero bits bs dec vals' r' hs⟩

end FuelVerif.PoliciesSerde
