import FuelVerif.Lemmas.Gtf
namespace FuelVerif.Gtf
open FuelVerif FuelVerif.Canonical FuelVerif.Offsets FuelVerif.TxId
open FuelVerif.Canonical.TxDesc (env envLaws)
open FuelVerif.Canonical.InputCodec (env0 encDesc)

theorem descs_eq : Kind.script.desc = chargeable scriptBodyLit ∧ Kind.create.desc = chargeable createBodyLit ∧ Kind.upload.desc = chargeable uploadBodyLit := by
  have := body_lits
  exact ⟨by rw [(kind_desc .script rfl).1, this.1], by rw [(kind_desc .create rfl).1, this.2.1], by rw [(kind_desc .upload rfl).1, this.2.2.2.1]⟩

/-- **`Script` / `ScriptData`**: the padded script / script data are at the returned addresses; for another kind the panic is
`InvalidMetadataIdentifier` -/
theorem script_ptr_sound {vm : Vm} (h : VmOk vm) (b : Nat) :
    (vm.tx.kind ≠ .script → evalSpec vm b .script = .error .invalidMetadataIdentifier ∧ evalSpec vm b .scriptData = .error .invalidMetadataIdentifier) ∧
    (vm.tx.kind = .script → ∃ p q, evalSpec vm b .script = .ok p ∧ evalSpec vm b .scriptData = .ok q ∧
      At vm.mem p (padded (bytesOf (fieldOf "ScriptBody" "script" vm.tx.body))) ∧
      At vm.mem q (padded (bytesOf (fieldOf "ScriptBody" "script_data" vm.tx.body)))) := by
  refine ⟨fun hk => by simp [evalSpec, hk], fun hk => ?_⟩
  have hv := h.wt
  rw [hk, descs_eq.1] at hv
  have := script_offsets vm.tx.val hv
  have he : vm.tx = { kind := .script, val := vm.tx.val, metadata := none } := by rw [← hk]; exact h.tx_eta
  rw [← he] at this
  refine ⟨satAdd vm.txOffset Gen.Offsets.Script.script_offset_static, satAdd vm.txOffset vm.tx.scriptDataOffset, by simp [evalSpec, hk], by simp [evalSpec, hk], ?_, ?_⟩
  · exact h.lift (by rw [hk, descs_eq.1]; exact this.1)
  · exact h.lift (by rw [hk, descs_eq.1]; exact this.2)

/-- **`CreateStorageSlotAtIndex`** -/
theorem storage_slot_ptr_sound {vm : Vm} (h : VmOk vm) (hk : vm.tx.kind = .create) (b : Nat) :
    (∀ p, evalSpec vm b .createStorageSlotAt = .ok p → ∃ x, vm.tx.storageSlots[b]? = some x ∧ At vm.mem p (encode env dSlot x)) ∧
    (evalSpec vm b .createStorageSlotAt = .error .storageSlotsNotFound ↔ vm.tx.storageSlots.length ≤ b) := by
  have hv := h.wt
  rw [hk, descs_eq.2.1] at hv
  have := create_slot_offsets vm.tx.val hv
  have he : vm.tx = { kind := .create, val := vm.tx.val, metadata := none } := by rw [← hk]; exact h.tx_eta
  rw [← he] at this
  obtain ⟨n1, n2⟩ := this
  simp only [evalSpec, hk, if_true]
  cases ho : vm.tx.storageSlotsOffsetAt b with
  | none => have := (n1 b).mp ho; simp [okOr, Except.map, this]
  | some o =>
    have hlt : ¬ vm.tx.storageSlots.length ≤ b := by intro hc; have := (n1 b).mpr hc; rw [ho] at this; cases this
    have hx : ∃ x, vm.tx.storageSlots[b]? = some x := ⟨vm.tx.storageSlots[b]'(by omega), by simp [List.getElem?_eq_getElem (show b < vm.tx.storageSlots.length by omega)]⟩
    obtain ⟨x, hx⟩ := hx
    simp only [okOr, Except.map, satAdd, hlt, iff_false, reduceCtorEq, not_false_eq_true, and_true]
    intro p hp
    simp only [Except.ok.injEq] at hp; subst hp
    exact ⟨x, hx, h.lift (by rw [hk, descs_eq.2.1]; exact n2 b o x ho hx)⟩

/-- **`UploadProofSetAtIndex`** -/
theorem proof_ptr_sound {vm : Vm} (h : VmOk vm) (hk : vm.tx.kind = .upload) (b : Nat) :
    (∀ p, evalSpec vm b .uploadProofSetAt = .ok p → ∃ x, vm.tx.proofSet[b]? = some x ∧ At vm.mem p (encode env InputLaws.dB32 x)) ∧
    (evalSpec vm b .uploadProofSetAt = .error .proofInUploadNotFound ↔ vm.tx.proofSet.length ≤ b) := by
  have hv := h.wt
  rw [hk, descs_eq.2.2] at hv
  have := upload_proof_offsets vm.tx.val hv
  have he : vm.tx = { kind := .upload, val := vm.tx.val, metadata := none } := by rw [← hk]; exact h.tx_eta
  rw [← he] at this
  obtain ⟨n1, n2⟩ := this
  simp only [evalSpec, hk, if_true]
  cases ho : vm.tx.proofSetOffsetAt b with
  | none => have := (n1 b).mp ho; simp [okOr, Except.map, this]
  | some o =>
    have hlt : ¬ vm.tx.proofSet.length ≤ b := by intro hc; have := (n1 b).mpr hc; rw [ho] at this; cases this
    have hx : ∃ x, vm.tx.proofSet[b]? = some x := ⟨vm.tx.proofSet[b]'(by omega), by simp [List.getElem?_eq_getElem (show b < vm.tx.proofSet.length by omega)]⟩
    obtain ⟨x, hx⟩ := hx
    simp only [okOr, Except.map, satAdd, hlt, iff_false, reduceCtorEq, not_false_eq_true, and_true]
    intro p hp
    simp only [Except.ok.injEq] at hp; subst hp
    exact ⟨x, hx, h.lift (by rw [hk, descs_eq.2.2]; exact n2 b o x ho hx)⟩

/-- the constant-offset pointer arms and the row of C04's `staticMeaning` each one is an instance of -/
def constPtrRows : List (Spec × Kind × String × List String) := [
  (.createSalt, .create, "salt_offset_static", ["body", "salt"]), (.blobId, .blob, "blob_id_offset_static", ["body", "id"]),
  (.uploadRoot, .upload, "bytecode_root_offset_static", ["body", "root"]), (.upgradePurpose, .upgrade, "upgrade_purpose_offset_static", ["body", "purpose"])]

theorem constPtrRows_ok : constPtrRows.all (fun r => staticMeaning.contains (r.2.1, r.2.2.1, r.2.2.2)) = true := by decide +kernel

/-- **`CreateSalt`, `BlobId`, `UploadRoot`, `UpgradePurpose`**: on a transaction of the selector's kind the address holds the
field's canonical bytes; on another kind the panic is `InvalidMetadataIdentifier` -/
theorem const_ptr_sound {vm : Vm} (h : VmOk vm) (b : Nat) (r : Spec × Kind × String × List String) (hr : r ∈ constPtrRows) :
    (vm.tx.kind ≠ r.2.1 → evalSpec vm b r.1 = .error .invalidMetadataIdentifier) ∧
    (vm.tx.kind = r.2.1 → ∃ off path fd fv, evalSpec vm b r.1 = .ok (vm.txOffset + off) ∧ staticOffsetOf r.2.1 r.2.2.1 = some off ∧
      staticPath r.2.1 r.2.2.2 = some path ∧ valPath vm.tx.val path = some fv ∧ At vm.mem (vm.txOffset + off) (encS env fd fv)) := by
  have hmem : (r.2.1, r.2.2.1, r.2.2.2) ∈ staticMeaning := by
    have := constPtrRows_ok
    simp only [List.all_eq_true] at this
    simpa using this r hr
  simp only [constPtrRows, List.mem_cons, List.not_mem_nil, or_false] at hr
  refine ⟨fun hk => ?_, fun hk => ?_⟩
  · rcases hr with rfl | rfl | rfl | rfl <;> simp [evalSpec, hk]
  · have hv := h.wt
    rw [hk] at hv
    obtain ⟨off, path, fd, fv, h1, h2, h3, _, h5⟩ := static_offset (r.2.1, r.2.2.1, r.2.2.2) hmem vm.tx.val hv
    refine ⟨off, path, fd, fv, ?_, h1, h2, h3, h.lift (by rw [hk]; exact h5)⟩
    have facts : staticOffsetOf .create "salt_offset_static" = some Gen.Offsets.Create.salt_offset_static ∧
        staticOffsetOf .blob "blob_id_offset_static" = some Gen.Offsets.Blob.blob_id_offset_static ∧
        staticOffsetOf .upload "bytecode_root_offset_static" = some Gen.Offsets.Upload.bytecode_root_offset_static ∧
        staticOffsetOf .upgrade "upgrade_purpose_offset_static" = some Gen.Offsets.Upgrade.upgrade_purpose_offset_static := by decide +kernel
    rcases hr with rfl | rfl | rfl | rfl
    · rw [facts.1] at h1; cases h1; simp [evalSpec, hk, satAdd]
    · rw [facts.2.1] at h1; cases h1; simp [evalSpec, hk, satAdd]
    · rw [facts.2.2.1] at h1; cases h1; simp [evalSpec, hk, satAdd]
    · rw [facts.2.2.2] at h1; cases h1; simp [evalSpec, hk, satAdd]

/-! ### GM -/

theorem gm_table : Gen.Gtf.gmArgs.map (·.1) = ["IsCallerExternal", "GetCaller", "GetVerifyingPredicate", "GetChainId", "TxStart", "BaseAssetId", "GetGasPrice", "GetOwner"] ∧
    (Gen.Gtf.gmArgs.map (·.2)).Nodup := by decide +kernel

def gmImm (name : String) : Nat := ((Gen.Gtf.gmArgs.find? (fun r => r.1 == name)).map (·.2)).getD 0

/-- **the metadata queries**: chain id, base asset (address 32, where the base asset id is), transaction start (where the
transaction's bytes are), gas price (script context; the specified panic in a predicate), owner (`owner_ptr`), the predicate
index; the two caller queries panic outside a call -/
theorem gm_values (vm : Vm) :
    gm vm (gmImm "GetChainId") = .ok vm.chainId ∧ gm vm (gmImm "BaseAssetId") = .ok 32 ∧ gm vm (gmImm "TxStart") = .ok vm.txOffset ∧
    gm vm (gmImm "GetGasPrice") = (match vm.context with | .script => .ok vm.gasPrice | .predicate _ => .error .canNotGetGasPriceInPredicate) ∧
    gm vm (gmImm "GetOwner") = (match vm.ownerPtr with | some p => .ok p | none => .error .ownerIsUnknown) ∧
    gm vm (gmImm "GetVerifyingPredicate") = (match vm.context with | .script => .error .transactionValidity | .predicate i => .ok i) ∧
    gm vm (gmImm "GetCaller") = .error .expectedInternalContext ∧ gm vm (gmImm "IsCallerExternal") = .error .expectedInternalContext := by
  have e : gmImm "GetChainId" = 4 ∧ gmImm "BaseAssetId" = 6 ∧ gmImm "TxStart" = 5 ∧ gmImm "GetGasPrice" = 7 ∧ gmImm "GetOwner" = 8 ∧
      gmImm "GetVerifyingPredicate" = 3 ∧ gmImm "GetCaller" = 2 ∧ gmImm "IsCallerExternal" = 1 := by decide +kernel
  obtain ⟨e1, e2, e3, e4, e5, e6, e7, e8⟩ := e
  have f : ∀ n, n ∈ [1, 2, 3, 4, 5, 6, 7, 8] → (Gen.Gtf.gmArgs.find? (fun r => r.2 == n)).map (·.1) =
      (["IsCallerExternal", "GetCaller", "GetVerifyingPredicate", "GetChainId", "TxStart", "BaseAssetId", "GetGasPrice", "GetOwner"])[n - 1]? := by decide +kernel
  rw [e1, e2, e3, e4, e5, e6, e7, e8]
  refine ⟨?_, ?_, ?_, ?_, ?_, ?_, ?_, ?_⟩
  · simp [gm, f 4 (by decide)]
  · simp [gm, f 6 (by decide)]; decide
  · simp [gm, f 5 (by decide)]
  · simp only [gm, f 7 (by decide)]; cases vm.context <;> rfl
  · simp only [gm, f 8 (by decide)]; cases vm.ownerPtr <;> rfl
  · simp only [gm, f 3 (by decide)]; cases vm.context <;> rfl
  · simp [gm, f 2 (by decide)]
  · simp [gm, f 1 (by decide)]

/-- **the owner pointer** computed by `init_inner` points at the owner address (coin owner / message recipient) of the owning input -/
theorem owner_ptr_sound {vm : Vm} (h : VmOk vm) (idx p : Nat) (hp : ownerPtrOf vm.tx vm.txOffset idx = some p) :
    ∃ k i, vm.tx.inputs[idx]? = some i ∧ inputKind i = some k ∧ inputHasOwner k = true ∧
      At vm.mem p (encS env0 (k.fieldDesc (if k.isCoin then "owner" else "recipient")) (inputField k (if k.isCoin then "owner" else "recipient") i)) := by
  simp only [ownerPtrOf] at hp
  cases hi : vm.tx.inputs[idx]? with
  | none => simp [hi] at hp
  | some i =>
    simp only [hi, Option.bind_some] at hp
    cases hk : inputKind i with
    | none => simp [hk] at hp
    | some k =>
      simp only [hk, Option.bind_some] at hp
      cases hofs : (InputRepr.fromInput k).offset "owner_offset" with
      | none => simp [hofs] at hp
      | some ofs =>
        simp only [hofs, Option.bind_some] at hp
        cases ho : vm.tx.inputsOffsetAt idx with
        | none => simp [ho] at hp
        | some o =>
          simp only [ho, Option.map_some, Option.some.injEq] at hp
          subst hp
          have hwi := inputs_wt h i (List.mem_of_getElem? hi)
          have hAt := h.offsets.inputAt idx o i ho hi
          have rows : ("owner_offset", InputRepr.coin, "owner") ∈ inputStaticMeaning ∧ ("owner_offset", InputRepr.message, "recipient") ∈ inputStaticMeaning := by decide
          cases k
          case contract =>
            have : (InputRepr.fromInput InputKind.contract).offset "owner_offset" = none := by decide +kernel
            rw [this] at hofs; cases hofs
          all_goals first
            | (obtain ⟨off, h1, _, h3⟩ := input_static_offset _ rows.1 i hwi _ hk rfl
               rw [show InputRepr.fromInput _ = InputRepr.coin from rfl] at hofs
               simp only at h1; rw [hofs] at h1; cases h1
               exact ⟨_, i, rfl, hk, rfl, h.lift (At.trans hAt h3)⟩)
            | (obtain ⟨off, h1, _, h3⟩ := input_static_offset _ rows.2 i hwi _ hk rfl
               rw [show InputRepr.fromInput _ = InputRepr.message from rfl] at hofs
               simp only at h1; rw [hofs] at h1; cases h1
               exact ⟨_, i, rfl, hk, rfl, h.lift (At.trans hAt h3)⟩)

end FuelVerif.Gtf
