/- Helper lemmas for C26 (gas machine invariant). -/
import FuelVerif.Model.Gas
namespace FuelVerif.Gas

/-- the bookkeeping invariant: context gas plus every caller's saved context gas never exceeds global gas -/
def Inv (s : GasState) : Prop := s.cgas + s.saved.sum ≤ s.ggas

instance (s : GasState) : Decidable (Inv s) := by unfold Inv; infer_instance

theorem inv_init (limit : Nat) : Inv (GasState.init limit) := by
  simp [Inv, GasState.init]

theorem gasCharge_inv {s : GasState} (g : Nat) (h : Inv s) : Inv (gasCharge s g).1 := by
  unfold Inv at *
  unfold gasCharge
  split
  · simp only; omega
  · split
    · exact h
    · simp only; omega

theorem gasCharge_ggas_le (s : GasState) (g : Nat) : (gasCharge s g).1.ggas ≤ s.ggas := by
  unfold gasCharge
  split
  · simp only; omega
  · split
    · exact Nat.le_refl _
    · simp only; omega

theorem gasCharge_saved (s : GasState) (g : Nat) : (gasCharge s g).1.saved = s.saved := by
  unfold gasCharge
  split
  · rfl
  · split <;> rfl

theorem gasCharge_err {s : GasState} (g : Nat) (h : Inv s) :
    (gasCharge s g).2 = none ∨ (gasCharge s g).2 = some .outOfGas := by
  unfold Inv at h
  unfold gasCharge
  split
  · right; rfl
  · split
    · omega
    · left; rfl

theorem forwardGas_inv {s : GasState} (f : Nat) (h : Inv s) : Inv (forwardGas s f).1 := by
  unfold Inv at *
  unfold forwardGas
  simp only
  split
  · exact h
  · simp only [List.sum_cons]
    have : min s.cgas f ≤ s.cgas := Nat.min_le_left _ _
    omega

theorem forwardGas_err (s : GasState) (f : Nat) : (forwardGas s f).2 = none := by
  unfold forwardGas
  simp only
  have : min s.cgas f ≤ s.cgas := Nat.min_le_left _ _
  split
  · omega
  · rfl

theorem forwardAbort_inv {s : GasState} (f : Nat) (h : Inv s) : Inv (forwardAbort s f) := by
  unfold Inv at *
  unfold forwardAbort
  simp only
  omega

theorem returnGas_inv {s : GasState} (h : Inv s) : Inv (returnGas s).1 := by
  unfold Inv at *
  unfold returnGas
  split
  · exact h
  · rename_i sv rest hs
    rw [hs] at h
    simp only [List.sum_cons] at h
    split
    · simp only; omega
    · simp only; omega

theorem returnGas_err {s : GasState} (h : Inv s) (hb : s.ggas ≤ wordMax) : (returnGas s).2 = none := by
  unfold Inv at h
  unfold returnGas
  split
  · rfl
  · rename_i sv rest hs
    rw [hs] at h
    simp only [List.sum_cons] at h
    split
    · omega
    · rfl

theorem returnGas_ggas (s : GasState) : (returnGas s).1.ggas = s.ggas := by
  unfold returnGas
  split
  · rfl
  · split <;> rfl

theorem forwardGas_ggas (s : GasState) (f : Nat) : (forwardGas s f).1.ggas = s.ggas := by
  unfold forwardGas
  simp only
  split <;> rfl

theorem applyOp_inv {s : GasState} (op : GasOp) (h : Inv s) : Inv (applyOp s op).1 := by
  cases op with
  | charge g => exact gasCharge_inv g h
  | forward f => exact forwardGas_inv f h
  | forwardAbort f => exact forwardAbort_inv f h
  | ret => exact returnGas_inv h

theorem applyOp_ggas_le (s : GasState) (op : GasOp) : (applyOp s op).1.ggas ≤ s.ggas := by
  cases op with
  | charge g => exact gasCharge_ggas_le s g
  | forward f => simp [applyOp, forwardGas_ggas]
  | forwardAbort f => simp [applyOp, forwardAbort]
  | ret => simp [applyOp, returnGas_ggas]

theorem chargeAll_inv {s : GasState} (gs : List Nat) (h : Inv s) : Inv (chargeAll s gs).1 := by
  induction gs generalizing s with
  | nil => exact h
  | cons g gs ih =>
    unfold chargeAll
    have := gasCharge_inv g h
    split
    · rename_i s' heq
      rw [heq] at this
      exact ih this
    · exact this

theorem chargeAll_ggas_le (s : GasState) (gs : List Nat) : (chargeAll s gs).1.ggas ≤ s.ggas := by
  induction gs generalizing s with
  | nil => exact Nat.le_refl _
  | cons g gs ih =>
    unfold chargeAll
    have := gasCharge_ggas_le s g
    split
    · rename_i s' heq
      rw [heq] at this
      exact Nat.le_trans (ih s') this
    · exact this

theorem chargeAll_saved (s : GasState) (gs : List Nat) : (chargeAll s gs).1.saved = s.saved := by
  induction gs generalizing s with
  | nil => rfl
  | cons g gs ih =>
    unfold chargeAll
    have := gasCharge_saved s g
    split
    · rename_i s' heq
      rw [heq] at this
      rw [ih s', this]
    · exact this

/-- all charges fit: both registers drop by exactly the total -/
theorem chargeAll_ok {s : GasState} (gs : List Nat) (h : Inv s) (hfit : gs.sum ≤ s.cgas) :
    chargeAll s gs = ({ s with cgas := s.cgas - gs.sum, ggas := s.ggas - gs.sum }, none) := by
  induction gs generalizing s with
  | nil => simp [chargeAll]
  | cons g gs ih =>
    simp only [List.sum_cons] at hfit
    unfold Inv at h
    have h1 : gasCharge s g = ({ s with ggas := s.ggas - g, cgas := s.cgas - g }, none) := by
      unfold gasCharge
      rw [if_neg (by omega), if_neg (by omega)]
    unfold chargeAll
    rw [h1]
    simp only
    have hinv' : Inv { s with ggas := s.ggas - g, cgas := s.cgas - g } := by
      unfold Inv; simp only; omega
    rw [ih hinv' (by simp only; omega)]
    simp only [List.sum_cons, Prod.mk.injEq, and_true]
    congr 1 <;> omega

/-- the total exceeds `$cgas`: OutOfGas, `$cgas = 0`, `$ggas` loses exactly the former `$cgas` -/
theorem chargeAll_oog {s : GasState} (gs : List Nat) (h : Inv s) (hbig : gs.sum > s.cgas) :
    (chargeAll s gs).2 = some .outOfGas ∧ (chargeAll s gs).1.cgas = 0 ∧
      (chargeAll s gs).1.ggas = s.ggas - s.cgas := by
  induction gs generalizing s with
  | nil => simp at hbig
  | cons g gs ih =>
    simp only [List.sum_cons] at hbig
    unfold Inv at h
    unfold chargeAll
    by_cases hg : g > s.cgas
    · have h1 : gasCharge s g = ({ s with ggas := s.ggas - s.cgas, cgas := 0 }, some .outOfGas) := by
        unfold gasCharge; rw [if_pos hg]
      rw [h1]
      simp
    · have h1 : gasCharge s g = ({ s with ggas := s.ggas - g, cgas := s.cgas - g }, none) := by
        unfold gasCharge
        rw [if_neg hg, if_neg (by omega)]
      rw [h1]
      simp only
      have hinv' : Inv { s with ggas := s.ggas - g, cgas := s.cgas - g } := by
        unfold Inv; simp only; omega
      obtain ⟨e1, e2, e3⟩ := ih hinv' (by simp only; omega)
      refine ⟨e1, e2, ?_⟩
      rw [e3]; simp only; omega

theorem prefixStates_inv {s : GasState} (gs : List Nat) (h : Inv s) :
    ∀ t ∈ prefixStates s gs, Inv t ∧ t.ggas ≤ s.ggas ∧ t.saved = s.saved := by
  induction gs generalizing s with
  | nil => intro t ht; simp [prefixStates] at ht; subst ht; exact ⟨h, Nat.le_refl _, rfl⟩
  | cons g gs ih =>
    intro t ht
    unfold prefixStates at ht
    have hi := gasCharge_inv g h
    have hg := gasCharge_ggas_le s g
    have hs := gasCharge_saved s g
    split at ht
    · rename_i s' heq
      rw [heq] at hi hg hs
      simp only [List.mem_cons] at ht
      rcases ht with rfl | ht
      · exact ⟨h, Nat.le_refl _, rfl⟩
      · obtain ⟨a, b, c⟩ := ih hi t ht
        exact ⟨a, Nat.le_trans b hg, by rw [c, hs]⟩
    · simp at ht; subst ht; exact ⟨h, Nat.le_refl _, rfl⟩

/-! ### charge plans: nothing but ECAL's `none` charge site makes a plan inexact -/

theorem Plan.add_exact (p : Plan) (c : Except GasErr Nat) : (p.add c).exact = p.exact := by
  unfold Plan.add
  split
  · split <;> rfl
  · rfl

theorem Plan.halt_exact (p : Plan) : p.halt.exact = p.exact := by
  unfold Plan.halt; split <;> rfl

theorem Plan.addNewEntry_exact (p : Plan) (sch : Schedule) (f : Nat) : (p.addNewEntry sch f).exact = p.exact := by
  unfold Plan.addNewEntry; split
  · rfl
  · exact Plan.add_exact _ _

theorem Plan.baseThen_exact (p : Plan) (sch : Schedule) (g : String) (u : Option Nat) :
    (p.baseThen sch g u).exact = p.exact := by
  unfold Plan.baseThen
  cases u with
  | none => simp only [Plan.halt_exact, Plan.add_exact]
  | some u => simp only [Plan.add_exact]

theorem slotStep_exact (sch : Schedule) (args : List Nat) (hot len : Nat) (p : Plan) (st : SStep) :
    (slotStep sch args hot len p st).exact = p.exact := by
  cases st with
  | read => exact Plan.add_exact _ _
  | write l =>
    simp only [slotStep]
    split
    · exact Plan.halt_exact _
    · rw [Plan.add_exact, Plan.add_exact]
  | clear r => exact Plan.add_exact _ _

theorem foldl_exact {α : Type} (f : Plan → α → Plan) (h : ∀ p a, (f p a).exact = p.exact) (l : List α) (p : Plan) :
    (l.foldl f p).exact = p.exact := by
  induction l generalizing p with
  | nil => rfl
  | cons a l ih => simp only [List.foldl_cons]; rw [ih, h]

theorem slotSteps_exact (sch : Schedule) (args : List Nat) (steps : List SStep) (p : Plan) (slot : Nat × Nat) :
    (slotSteps sch args steps p slot).exact = p.exact :=
  foldl_exact _ (fun p st => slotStep_exact sch args slot.1 slot.2 p st) steps p

theorem storagePlan_exact (sch : Schedule) (op : StorageOp) (args sizes : List Nat) (p : Plan) :
    (storagePlan sch op args sizes p).exact = p.exact := by
  unfold storagePlan
  simp only
  split
  · split
    · rw [Plan.halt_exact]
      exact foldl_exact _ (fun p s => slotSteps_exact sch args _ p s) _ p
    · rw [slotSteps_exact]
      exact foldl_exact _ (fun p s => slotSteps_exact sch args _ p s) _ p
  · split
    · exact slotSteps_exact _ _ _ _ _
    · split
      · exact slotSteps_exact _ _ _ _ _
      · exact Plan.halt_exact _

end FuelVerif.Gas
