/-
Local arguments for the class-(b) sites of Model/BugSites.lean (C29): each lemma is a small model of the guard that
precedes an `expect` / `unwrap` / `unreachable!` / unchecked-arithmetic site in fuel-vm and shows that, under the
guard, the site cannot fire.  Machine words are `Nat` below `2^64`, `usize` = 64 bit, a `[T; N]` / slice is a `List`
with its length.  The Rust expression each lemma is about is quoted in its comment; the generated site list
(Gen/BugSites.lean) carries the same text as `guard`.  Core Lean only.
-/
import FuelVerif.Gen.BugSites
import FuelVerif.Gen.MemConsts
namespace FuelVerif.BugSites
open FuelVerif.Gen

/-- error.rs `impl From<Infallible> for RuntimeError / InterpreterError { fn from(_) { unreachable!() } }`:
`core::convert::Infallible` is an enum without variants, the function has no argument to be called with -/
theorem infallible_has_no_value (P : Prop) (x : Empty) : P := nomatch x

/-- alu.rs `u64::try_from(result & Word::MAX as u128).expect("We already truncated the result")` -/
theorem and_word_mask_fits (result : Nat) : result &&& (2 ^ 64 - 1) < 2 ^ 64 := by
  have := @Nat.and_le_right result (2 ^ 64 - 1)
  omega

/-- muldiv.rs `(lhs as u128).checked_mul(rhs as u128).expect("Cannot overflow as we have enough bits")` -/
theorem mul_words_fit_u128 (lhs rhs : Nat) (hl : lhs < 2 ^ 64) (hr : rhs < 2 ^ 64) : lhs * rhs < 2 ^ 128 := by
  have h : lhs * rhs < 2 ^ 64 * 2 ^ 64 := Nat.mul_lt_mul'' hl hr
  have e : (2 : Nat) ^ 64 * 2 ^ 64 = 2 ^ 128 := by rw [← Nat.pow_add]
  omega

/-- narrowint.rs, the raw `lhs + rhs` and `lhs * rhs` under `#[allow(clippy::arithmetic_side_effects)]`: both operands
were truncated (`value & MAX_OF_WIDTH`) to the width 8, 16 or 32 before -/
theorem narrow_add_mul_fit (w : Nat) (hw : w = 8 ∨ w = 16 ∨ w = 32) (lhs rhs : Nat) :
    (lhs &&& (2 ^ w - 1)) + (rhs &&& (2 ^ w - 1)) < 2 ^ 64 ∧ (lhs &&& (2 ^ w - 1)) * (rhs &&& (2 ^ w - 1)) < 2 ^ 64 := by
  have h1 := @Nat.and_le_right lhs (2 ^ w - 1)
  have h2 := @Nat.and_le_right rhs (2 ^ w - 1)
  have hb : 2 ^ w - 1 < 2 ^ 32 := by rcases hw with rfl | rfl | rfl <;> decide
  generalize lhs &&& (2 ^ w - 1) = a at *
  generalize rhs &&& (2 ^ w - 1) = b at *
  generalize 2 ^ w - 1 = m at *
  refine ⟨by omega, ?_⟩
  have h : a * b < 2 ^ 32 * 2 ^ 32 := Nat.mul_lt_mul'' (by omega) (by omega)
  have e : (2 : Nat) ^ 32 * 2 ^ 32 = 2 ^ 64 := by rw [← Nat.pow_add]
  omega

/-- wideint.rs `buffer[..S].try_into().unwrap_or_else(|_| unreachable!())` and `buffer[S..]…` with
`buffer = [0u8; 2 * S]`; crypto.rs `to_big_endian(&mut output[..32]).unwrap()` / `output[32..]` with `output = [0u8; 64]`
(`to_big_endian` fails only on a slice whose length is not 32): both halves have exactly the length asked for -/
theorem halves_have_length {α : Type} (S : Nat) (buffer : List α) (h : buffer.length = 2 * S) :
    (buffer.take S).length = S ∧ (buffer.drop S).length = S := by
  constructor
  · rw [List.length_take]; omega
  · rw [List.length_drop]; omega

/-- wideint.rs `lhs.checked_add(rhs).expect("Cannot overflow as we're using wider types")`: the operands come from the
`N`-bit type and are added in the `2N`-bit type (`N` = 128, 256) -/
theorem wider_add_fits (N lhs rhs : Nat) (hN : 1 ≤ N) (hl : lhs < 2 ^ N) (hr : rhs < 2 ^ N) : lhs + rhs < 2 ^ (2 * N) := by
  have h1 : (2 : Nat) ^ (N + 1) ≤ 2 ^ (2 * N) := Nat.pow_le_pow_right (by omega) (by omega)
  have h2 : (2 : Nat) ^ (N + 1) = 2 ^ N * 2 := Nat.pow_succ ..
  omega

/-- wideint.rs `product >> (S * 8)` (`product` has `2 * S * 8` bits; the lint fires because `>>` panics when the shift
amount reaches the bit width) -/
theorem half_shift_lt_width (S : Nat) (hS : 0 < S) : S * 8 < 2 * S * 8 := by omega

/-- balances.rs `vm.registers[SSP].checked_add(len).expect(..)` with `len = max_inputs (u16) * BALANCE_ENTRY_SIZE` -/
theorem balances_area_add_fits (ssp maxInputs : Nat) (hs : ssp ≤ memSize) (hm : maxInputs ≤ 65535) :
    ssp + maxInputs * BugSites.balanceEntrySize < 2 ^ 64 := by
  simp only [memSize, fuelMaxMemoryMiB, BugSites.balanceEntrySize] at *
  omega

/-- balances.rs `vm.memory_mut().grow_stack(new_ssp).expect(..)`: `init_inner` has just reset the memory (`hp = MEM_SIZE`,
empty stack) and pushed the id and the base asset id (`$ssp = 64 = VM_MEMORY_BALANCES_OFFSET`); `grow_stack(n)` refuses
only `n > VM_MAX_RAM` or `n > hp` -/
theorem balances_area_fits_memory (maxInputs : Nat) (hm : maxInputs ≤ 65535) :
    BugSites.balancesOffset + maxInputs * BugSites.balanceEntrySize ≤ memSize := by
  simp only [memSize, fuelMaxMemoryMiB, BugSites.balanceEntrySize, BugSites.balancesOffset] at *
  omega

/-! #### balances.rs `to_vm`: `write_bytes_noownerchecks(ofs, ..).expect("Checked above")` — REACHABLE

The area reserved is `max_inputs * 40` bytes from offset 64 (grown stack = `64 + max_inputs * 40`); entry `i` of the asset
table is written at `64 + i * 40` (32 bytes asset id, then 8 bytes balance).  The table has one entry per asset of the
initial free balances: every coin-input asset and — because `deduct_max_fee_from_base_asset` does `.entry(base).or_default()` —
the base asset, even when no input carries it.  Nothing compares the number of entries with `max_inputs`. -/

/-- all writes of an `n`-entry table stay inside the area of a VM with `maxInputs` exactly when `n ≤ maxInputs` -/
theorem to_vm_writes_fit_iff (n maxInputs : Nat) :
    (∀ i, i < n → BugSites.balancesOffset + i * BugSites.balanceEntrySize + BugSites.balanceEntrySize
        ≤ BugSites.balancesOffset + maxInputs * BugSites.balanceEntrySize) ↔ n ≤ maxInputs := by
  simp only [BugSites.balanceEntrySize, BugSites.balancesOffset]
  constructor
  · intro h
    cases n with
    | zero => omega
    | succ k => have := h k (by omega); omega
  · intro h i hi; omega

/-- `BTreeMap::entry(a).or_default()` on the key set (up to order) -/
def addAsset (t : List Nat) (a : Nat) : List Nat := if a ∈ t then t else t ++ [a]

/-- the asset table of the initial free balances, in the order of effects of `initial_free_balances`:
`add_up_input_balances` enters every coin-input asset, then `deduct_max_fee_from_base_asset` enters the base asset when
the fee deduction creates its entry (generated fact) -/
def assetTable (coinAssets : List Nat) (base : Nat) : List Nat :=
  let t := coinAssets.foldl addAsset []
  if BugSites.feeDeductionCreatesBaseEntry then addAsset t base else t

theorem foldl_addAsset_length (l t : List Nat) : (l.foldl addAsset t).length ≤ t.length + l.length := by
  induction l generalizing t with
  | nil => simp
  | cons a l ih =>
    simp only [List.foldl_cons, List.length_cons]
    have := ih (addAsset t a)
    have h2 : (addAsset t a).length ≤ t.length + 1 := by unfold addAsset; split <;> simp
    omega

theorem mem_foldl_addAsset (l t : List Nat) (x : Nat) (h : x ∈ t ∨ x ∈ l) : x ∈ l.foldl addAsset t := by
  induction l generalizing t with
  | nil => simpa using h
  | cons a l ih =>
    simp only [List.foldl_cons]
    apply ih
    rcases h with h | h
    · left; unfold addAsset; split <;> simp [h]
    · rcases List.mem_cons.1 h with rfl | h
      · left; unfold addAsset; split <;> simp [*]
      · right; exact h

/-- positive part: a transaction with a base-asset coin among at most `maxInputs` coin inputs has at most `maxInputs` entries -/
theorem assetTable_le_of_base_present (coinAssets : List Nat) (base maxInputs : Nat) (hb : base ∈ coinAssets)
    (hn : coinAssets.length ≤ maxInputs) : (assetTable coinAssets base).length ≤ maxInputs := by
  unfold assetTable
  have h1 := foldl_addAsset_length coinAssets []
  have h2 := mem_foldl_addAsset coinAssets [] base (Or.inr hb)
  simp only [List.length_nil] at h1
  have h3 : addAsset (coinAssets.foldl addAsset []) base = coinAssets.foldl addAsset [] := by
    unfold addAsset; exact if_pos h2
  show (if BugSites.feeDeductionCreatesBaseEntry then addAsset (coinAssets.foldl addAsset []) base
        else coinAssets.foldl addAsset []).length ≤ maxInputs
  rw [h3]
  split <;> omega

/-- **the `expect` is reachable** (finding, replayed on the real code by stream c29 `balances_area`): with
`max_inputs = 1`, one coin input of a non-base asset (and a zero fee limit) gives a two-entry table, and the second entry
does not fit the area; likewise 255 pairwise different non-base assets under the default `max_inputs = 255` -/
theorem to_vm_expect_reachable :
    BugSites.entriesCheckedAgainstMaxInputs = false ∧
    (assetTable [1] 0).length = 2 ∧
    ¬ (∀ i, i < (assetTable [1] 0).length → BugSites.balancesOffset + i * BugSites.balanceEntrySize + BugSites.balanceEntrySize
        ≤ BugSites.balancesOffset + 1 * BugSites.balanceEntrySize) ∧
    (assetTable ((List.range 255).map (· + 1)) 0).length = 256 := by
  refine ⟨rfl, by decide, ?_, by decide +kernel⟩
  rw [to_vm_writes_fit_iff]
  decide

/-- instruction.rs `u32::try_from(nth_root).expect("Never loses bits, checked above")` after
`if nth_root >= target || nth_root > 64 { return Some(1) }` -/
theorem nth_root_fits_u32 (nthRoot target : Nat) (h : ¬ (nthRoot ≥ target ∨ nthRoot > 64)) : nthRoot < 2 ^ 32 := by omega

/-- opcodes_impl.rs SWWQ `num_previously_unset += 1` inside `for (i, key) in key_range(key, range).enumerate()`:
the counter is at most the iteration index, which is below `range : usize` -/
theorem counter_below_iterations (num i range : Nat) (h1 : num ≤ i) (h2 : i < range) (h3 : range < 2 ^ 64) :
    num + 1 < 2 ^ 64 := by omega

/-- flow.rs `*receipt.digest().expect("Receipt is created above and `digest` should exist")` with
`receipt = Receipt::return_data(..)`: `digest()` is `Some` for `ReturnData` (generated arm list) -/
theorem digest_some_for_return_data : BugSites.receiptDigestArms.contains "ReturnData" = true := by decide

/-- flow.rs `let code_start = fp + CallFrame::serialized_size()` (`fp = old_sp`), after
`new_sp = old_sp.saturating_add(total_size_in_stack); memory.grow_stack(new_sp)?` succeeded (`new_sp ≤ VM_MAX_RAM`) and
`total_size_in_stack = serialized_size + code_size_padded` -/
theorem frame_code_start_fits (oldSp total ser : Nat) (hser : ser ≤ total)
    (hgrow : min (oldSp + total) (2 ^ 64 - 1) ≤ memSize) : oldSp + ser < 2 ^ 64 := by
  simp only [memSize, fuelMaxMemoryMiB] at hgrow
  omega

/-- initialization.rs `push_stack!`: `old_ssp.checked_add(data.len() as Word).expect(..)`; `$ssp ≤ VM_MAX_RAM` (it was the
argument of a successful `grow_stack`, or 0) and a slice is at most `isize::MAX` bytes long -/
theorem init_push_add_fits (oldSsp len : Nat) (h1 : oldSsp ≤ memSize) (h2 : len < 2 ^ 63) : oldSsp + len < 2 ^ 64 := by
  simp only [memSize, fuelMaxMemoryMiB] at h1
  omega

/-- internal.rs `update_memory_output`: `tx.outputs().get(idx).expect("Invalid output index; checked above")` after
`absolute_output_mem_range(tx, tx_offset, idx)` returned `Some` — that function does `tx.outputs().get(idx)?.size()` -/
theorem get_after_get {α : Type} (outputs : List α) (idx : Nat) (offset : Option Nat) (size : α → Nat) (r : Nat × Nat)
    (h : (do let o ← offset; let out ← outputs[idx]?; pure (o, o + size out)) = some r) : (outputs[idx]?).isSome = true := by
  cases offset with
  | none => simp at h
  | some o =>
    cases hg : outputs[idx]? with
    | none => simp [hg] at h
    | some x => rfl

/-- `bitmask.count_ones()` of a 32-bit value -/
def popcount (x : Nat) : Nat := (List.range 32).countP (fun i => x.testBit i)

/-- memory.rs `count.checked_mul(WORD_SIZE as u64).expect("Bitmask size times 8 can never oveflow")` -/
theorem popcount_times_8_fits (bitmask : Nat) : popcount bitmask * 8 < 2 ^ 64 := by
  have : popcount bitmask ≤ 32 := by
    unfold popcount
    have := @List.countP_le_length _ (fun i => bitmask.testBit i) (List.range 32)
    simpa using this
  omega

/-- memory.rs push/pop_selected_registers: the buffer has `count_ones(bitmask)` chunks and the loop takes one chunk for every
set bit among the 24 registers of the segment (`it.next().expect(..)`): it never runs out of chunks -/
theorem chunks_suffice (bitmask : Nat) : (List.range 24).countP (fun i => bitmask.testBit i) ≤ popcount bitmask := by
  unfold popcount
  have e : List.range 32 = List.range 24 ++ [24, 25, 26, 27, 28, 29, 30, 31] := by decide
  rw [e, List.countP_append]
  omega

/-- memory.rs `u64::from(offset /* Imm12 */).checked_mul(size_of::<$t>() as u64).expect("u12 * size_of cannot overflow a Word")` -/
theorem imm12_times_size_fits (offset sz : Nat) (h1 : offset < 2 ^ 12) (h2 : sz ≤ 8) : offset * sz < 2 ^ 64 := by
  have : offset * sz ≤ 2 ^ 12 * 8 := Nat.mul_le_mul (by omega) h2
  omega

/-- blockchain.rs `only_allow_stack_write(new_sp, ssp, hp)` after `new_sp = ssp.saturating_add(length); grow_stack(new_sp)?`:
`debug_assert!(sp <= VM_MAX_RAM)` is `grow_stack`'s own first test, and `debug_assert!(ssp <= sp)` holds by saturation -/
theorem grown_sp_bounds (ssp length : Nat) (hs : ssp < 2 ^ 64) (hgrow : min (ssp + length) (2 ^ 64 - 1) ≤ memSize) :
    min (ssp + length) (2 ^ 64 - 1) ≤ memSize ∧ ssp ≤ min (ssp + length) (2 ^ 64 - 1) := by
  refine ⟨hgrow, ?_⟩
  omega

/-- storage.rs `U256::from(range - 1)` under `if range > 1` -/
theorem pred_of_gt_one (range : Nat) (h : range > 1) : 1 ≤ range := by omega

/-- fuel-vm/src/storage.rs `double_key!`: `(&self.0[0..first_end()]).try_into().expect(..)`,
`(&self.0[first_end()..second_end()]).try_into().expect(..)` and the two `try_into().unwrap()` of `From<$i> for (F, S)`:
the array has `F::LEN + S::LEN` bytes, the slices have exactly `F::LEN` and `S::LEN` -/
theorem double_key_slices_fit {α : Type} (F S : Nat) (arr : List α) (h : arr.length = F + S) :
    (arr.take F).length = F ∧ ((arr.take (F + S)).drop F).length = S := by
  constructor
  · rw [List.length_take]; omega
  · rw [List.length_drop, List.length_take]; omega

end FuelVerif.BugSites
