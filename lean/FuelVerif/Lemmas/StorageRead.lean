/- Helper lemmas for C36 (storage read contract). -/
import FuelVerif.Model.StorageRead
namespace FuelVerif.StorageRead
open FuelVerif FuelVerif.Gen.StoreRead

/-! ### lists -/

theorem specZeroFill_length (data : Bytes) (off n : Nat) : (specZeroFill data off n).length = n := by
  simp [specZeroFill]

theorem specZeroFill_getElem (data : Bytes) (off n i : Nat) (h : i < (specZeroFill data off n).length) :
    (specZeroFill data off n)[i] = (data[off + i]?).getD 0 := by
  simp [specZeroFill]

/-- what the two-part copy of `read_zerofill` builds is the pointwise specification -/
theorem take_drop_zeros_eq_spec (data : Bytes) (off n : Nat) :
    (data.drop off).take (min (data.drop off).length n) ++
      List.replicate (n - min (data.drop off).length n) (0 : UInt8) = specZeroFill data off n := by
  apply List.ext_getElem
  · simp [specZeroFill_length]; omega
  · intro i h1 h2
    rw [specZeroFill_getElem]
    simp only [List.length_drop] at *
    by_cases hi : i < min (data.length - off) n
    · rw [List.getElem_append_left (by simp; omega)]
      simp only [List.getElem_take, List.getElem_drop]
      have : off + i < data.length := by omega
      simp [this]
    · rw [List.getElem_append_right (by simp; omega)]
      simp only [List.getElem_replicate]
      have hn : i < n := by simpa [specZeroFill_length] using h2
      have : ¬ off + i < data.length := by omega
      simp [this]

theorem specZeroFill_all_zero (data : Bytes) (off n : Nat) (h : data.length ≤ off) :
    specZeroFill data off n = List.replicate n 0 := by
  apply List.ext_getElem
  · simp [specZeroFill_length]
  · intro i h1 h2
    rw [specZeroFill_getElem]
    have : ¬ off + i < data.length := by omega
    simp [this]

/-- inside the value the zero-filling read is the exact slice -/
theorem specZeroFill_inside (data : Bytes) (off n : Nat) (h : off + n ≤ data.length) :
    specZeroFill data off n = (data.drop off).take n := by
  apply List.ext_getElem
  · simp [specZeroFill_length]; omega
  · intro i h1 h2
    rw [specZeroFill_getElem]
    have hn : i < n := by simpa [specZeroFill_length] using h1
    have : off + i < data.length := by omega
    simp [this]

/-! ### memory -/

theorem slice_length (m : Mem) (a n : Nat) : (m.slice a n).length = n := by simp [Mem.slice]

theorem slice_getElem (m : Mem) (a n i : Nat) (h : i < (m.slice a n).length) :
    (m.slice a n)[i] = m.get (a + i) := by simp [Mem.slice]

theorem store_get_inside (m : Mem) (a : Nat) (bs : Bytes) (p : Nat) (h : a ≤ p ∧ p - a < bs.length) :
    (m.store a bs).get p = bs[p - a]'h.2 := by
  simp [Mem.store, h]

theorem store_get_outside (m : Mem) (a : Nat) (bs : Bytes) (p : Nat) (h : p < a ∨ a + bs.length ≤ p) :
    (m.store a bs).get p = m.get p := by
  have : ¬ (a ≤ p ∧ p - a < bs.length) := by omega
  simp [Mem.store, this]

theorem slice_store_same (m : Mem) (a : Nat) (bs : Bytes) : (m.store a bs).slice a bs.length = bs := by
  apply List.ext_getElem
  · simp [slice_length]
  · intro i h1 h2
    rw [slice_getElem]
    rw [store_get_inside m a bs (a + i) (by omega)]
    simp

theorem slice_store_disjoint (m : Mem) (a : Nat) (bs : Bytes) (b n : Nat) (h : b + n ≤ a ∨ a + bs.length ≤ b) :
    (m.store a bs).slice b n = m.slice b n := by
  apply List.ext_getElem
  · simp [slice_length]
  · intro i h1 h2
    have hn : i < n := by simpa [slice_length] using h1
    rw [slice_getElem, slice_getElem, store_get_outside m a bs (b + i) (by omega)]

theorem store_stackLen (m : Mem) (a : Nat) (bs : Bytes) : (m.store a bs).stackLen = m.stackLen := rfl
theorem store_hp (m : Mem) (a : Nat) (bs : Bytes) : (m.store a bs).hp = m.hp := rfl

/-- a successful `verify` returns exactly `[addr, addr + count)`, inside the memory -/
theorem verify_ok {m : Mem} {addr count s e : Nat} (h : m.verify addr count = .ok (s, e)) :
    s = addr ∧ e = addr + count ∧ e ≤ memSize ∧ (e ≤ m.stackLen ∨ m.hp ≤ s) := by
  unfold Mem.verify toAddr at h
  by_cases h1 : addr > memSize
  · simp [h1, bind, Except.bind] at h
  by_cases h2 : count > memSize
  · simp [h1, h2, bind, Except.bind] at h
  simp only [h1, h2, if_false, bind, Except.bind] at h
  have hm : memSize = 67108864 := by decide
  have hsat : satAdd addr count = addr + count := by
    unfold satAdd U64_MAX
    have : ¬ addr + count > 2 ^ 64 - 1 := by omega
    simp [this]
  rw [hsat] at h
  by_cases h3 : addr + count > memSize
  · simp [h3] at h
  simp only [h3, if_false] at h
  by_cases h4 : addr + count ≤ m.stackLen ∨ addr ≥ m.hp
  · simp only [h4, if_true] at h
    cases h
    refine ⟨rfl, rfl, by omega, ?_⟩
    rcases h4 with h4 | h4
    · exact Or.inl h4
    · exact Or.inr h4
  · simp [h4] at h

theorem writeRange_ok {m : Mem} {o : Owner} {addr len s e : Nat} (h : m.writeRange o addr len = .ok (s, e)) :
    m.verify addr len = .ok (s, e) ∧ (o.ownsStack s e || o.ownsHeap s e) = true := by
  unfold Mem.writeRange at h
  cases hv : m.verify addr len with
  | error x => simp [hv, bind, Except.bind] at h
  | ok r =>
    obtain ⟨s', e'⟩ := r
    simp only [hv, bind, Except.bind, Owner.verify] at h
    by_cases ho : (o.ownsStack s' e' || o.ownsHeap s' e') = true
    · simp only [ho, if_true] at h
      cases h
      exact ⟨rfl, ho⟩
    · simp [ho] at h

/-! ### words -/

theorem natBE_length (k n : Nat) : (natBE k n).length = k := by
  induction k generalizing n with
  | zero => simp [natBE]
  | succ k ih => simp [natBE, ih]

theorem beNat_append (xs : Bytes) (b : UInt8) : beNat (xs ++ [b]) = beNat xs * 256 + b.toNat := by
  simp [beNat, List.foldl_append]

theorem beNat_natBE (k n : Nat) : beNat (natBE k n) = n % 256 ^ k := by
  induction k generalizing n with
  | zero => simp [natBE, beNat, Nat.mod_one]
  | succ k ih =>
    simp only [natBE]
    rw [beNat_append, ih]
    have h256 : (UInt8.ofNat (n % 256)).toNat = n % 256 := by
      simp [UInt8.toNat_ofNat']
    rw [h256, Nat.pow_succ]
    have := Nat.div_add_mod n 256
    have h2 := Nat.mod_mul_right_div_self n 256 (256 ^ k)
    -- n % (256 * 256^k) = 256 * ((n/256) % 256^k) + n % 256
    have h3 : n % (256 ^ k * 256) = (n / 256 % 256 ^ k) * 256 + n % 256 := by
      rw [Nat.mul_comm (256 ^ k) 256, Nat.mod_mul]
      omega
    omega

end FuelVerif.StorageRead

namespace FuelVerif.StorageRead
open FuelVerif FuelVerif.Gen.StoreRead

theorem satAdd_le_ram {x y : Nat} (h : satAdd x y ≤ vmMaxRam) : satAdd x y = x + y := by
  unfold satAdd U64_MAX at *
  have : vmMaxRam = 67108864 := by decide
  by_cases h1 : x + y > 2 ^ 64 - 1
  · simp [h1] at h; omega
  · simp [h1]

theorem growStack_ok {m m' : Mem} {n : Nat} (h : m.growStack n = .ok m') :
    n ≤ vmMaxRam ∧ m'.hp = m.hp ∧ m.stackLen ≤ m'.stackLen ∧ n ≤ m'.stackLen ∧
    (∀ p, p < m.stackLen ∨ m'.stackLen ≤ p → m'.get p = m.get p) := by
  unfold Mem.growStack at h
  by_cases h1 : n > vmMaxRam
  · simp [h1] at h
  simp only [h1, if_false] at h
  by_cases h2 : n > m.stackLen
  · simp only [h2, if_true] at h
    by_cases h3 : n > m.hp
    · simp [h3] at h
    · simp only [h3, if_false] at h
      cases h
      refine ⟨by omega, rfl, by simp; omega, by simp, ?_⟩
      intro p hp
      simp only at hp ⊢
      have : ¬ (m.stackLen ≤ p ∧ p < n) := by omega
      simp [this]
  · simp only [h2, if_false] at h
    cases h
    exact ⟨by omega, rfl, by omega, by omega, fun _ _ => rfl⟩

/-- effect of the "update frame code size" tail of LDC -/
theorem bumpCodeSize_ok {v : Vm} {m m' : Mem} {length : Nat} (h : bumpCodeSize v m length = .ok m') :
    (v.isInternal = false ∧ m' = m) ∨
    (v.isInternal = true ∧ ∃ old oldPadded new,
      m.read (satAdd v.fp codeSizeOffset) wordSize = .ok old ∧ paddedLenWord (beWord old) = some oldPadded ∧
      checkedAdd oldPadded length = some new ∧ m' = m.store (satAdd v.fp codeSizeOffset) (wordBE new)) := by
  unfold bumpCodeSize at h
  cases hi : v.isInternal with
  | false => simp [hi] at h; exact Or.inl ⟨rfl, h.symm⟩
  | true =>
    right
    simp only [hi, if_true, bind, Except.bind] at h
    cases hr : m.read (satAdd v.fp codeSizeOffset) wordSize with
    | error x => simp [hr] at h
    | ok old =>
      simp only [hr] at h
      cases hp : paddedLenWord (beWord old) with
      | none => simp [hp] at h
      | some oldPadded =>
        simp only [hp] at h
        cases hc : checkedAdd oldPadded length with
        | none => simp [hc] at h
        | some new =>
          simp only [hc] at h
          cases hv : m.verify (satAdd v.fp codeSizeOffset) wordSize with
          | error x => simp [hv] at h
          | ok r =>
            obtain ⟨s, e⟩ := r
            have hs : s = satAdd v.fp codeSizeOffset := (verify_ok hv).1
            simp only [hv] at h
            rw [hs] at h
            exact ⟨rfl, old, oldPadded, new, rfl, hp, hc, (Except.ok.inj h).symm⟩

theorem wordBE_length (n : Nat) : (wordBE n).length = 8 := natBE_length 8 n

theorem beWord_wordBE (n : Nat) (h : n ≤ U64_MAX) : beWord (wordBE n) = n := by
  unfold beWord wordBE
  rw [beNat_natBE]
  unfold U64_MAX at h
  have : (256 : Nat) ^ 8 = 2 ^ 64 := by simp
  rw [this]
  exact Nat.mod_eq_of_lt (by omega)

theorem checkedAdd_some {a b c : Nat} (h : checkedAdd a b = some c) : c = a + b ∧ c ≤ U64_MAX := by
  unfold checkedAdd at h
  by_cases h1 : a + b > U64_MAX
  · simp [h1] at h
  · simp only [h1, if_false, Option.some.injEq] at h
    omega

end FuelVerif.StorageRead

namespace FuelVerif.StorageRead
open FuelVerif FuelVerif.Gen.StoreRead

theorem growStack_le_hp {m m' : Mem} {n : Nat} (h : m.growStack n = .ok m') (hinv : m.stackLen ≤ m.hp) :
    m'.stackLen ≤ m.hp := by
  unfold Mem.growStack at h
  by_cases h1 : n > vmMaxRam
  · simp [h1] at h
  simp only [h1, if_false] at h
  by_cases h2 : n > m.stackLen
  · simp only [h2, if_true] at h
    by_cases h3 : n > m.hp
    · simp [h3] at h
    · simp only [h3, if_false] at h
      cases h
      simp only; omega
  · simp only [h2, if_false] at h
    cases h; exact hinv

theorem memcopy_ok {m m' : Mem} {dst src len : Nat} {o : Owner} (h : m.memcopy dst src len o = .ok m') :
    m' = m.store dst (m.slice src len) ∧ dst + len ≤ memSize ∧ src + len ≤ memSize := by
  unfold Mem.memcopy at h
  cases hd : m.verify dst len with
  | error x => simp [hd, bind, Except.bind] at h
  | ok r1 =>
    obtain ⟨ds, de⟩ := r1
    cases hs : m.verify src len with
    | error x => simp [hd, hs, bind, Except.bind] at h
    | ok r2 =>
      obtain ⟨ss, se⟩ := r2
      obtain ⟨rfl, rfl, d3, -⟩ := verify_ok hd
      obtain ⟨rfl, rfl, s3, -⟩ := verify_ok hs
      simp only [hd, hs, bind, Except.bind] at h
      split at h
      · cases h
      · cases ho : o.verify ds (ds + len) with
        | error x => simp [ho] at h
        | ok u =>
          simp only [ho] at h
          have : ss + len - ss = len := by omega
          rw [this] at h
          exact ⟨(Except.ok.inj h).symm, d3, s3⟩

theorem slice_congr (m m' : Mem) (a n : Nat) (h : ∀ p, a ≤ p → p < a + n → m'.get p = m.get p) :
    m'.slice a n = m.slice a n := by
  apply List.ext_getElem
  · simp [slice_length]
  · intro i h1 h2
    have : i < n := by simpa [slice_length] using h1
    rw [slice_getElem, slice_getElem]
    exact h _ (by omega) (by omega)

theorem slice_zero (m : Mem) (a : Nat) : m.slice a 0 = [] := by simp [Mem.slice]

end FuelVerif.StorageRead

namespace FuelVerif.StorageRead
open FuelVerif FuelVerif.Gen.StoreRead

/-- the frame code-size update does not touch memory at or above `$ssp` (the frame lies below it) -/
theorem bump_preserves {v : Vm} {m m' : Mem} {len : Nat} (h : bumpCodeSize v m len = .ok m')
    (hframe : v.isInternal = true → satAdd v.fp codeSizeOffset + wordSize ≤ v.ssp) (a n : Nat) (ha : v.ssp ≤ a) :
    m'.slice a n = m.slice a n := by
  rcases bumpCodeSize_ok h with ⟨-, rfl⟩ | ⟨hi, old, oldPadded, new, -, -, -, rfl⟩
  · rfl
  · have := hframe hi
    apply slice_store_disjoint
    right
    rw [wordBE_length]
    have hw : wordSize = 8 := rfl
    omega

end FuelVerif.StorageRead
