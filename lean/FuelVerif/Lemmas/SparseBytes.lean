/-
The structural layer at fuel-merkle's concrete types: 32-byte keys read MSB first, 32-byte hashes.
* the model's hash constructors are literally the ones of the property statement (depends on the
  generated prefix bytes / key width / zero sum);
* 32-byte keys are determined by their 256 bits (`KeyExt`);
* an injective, never-zero hash function on the 65-byte tagged inputs gives `CollisionFree`;
* the byte-level verifiers of `sparse/proof.rs` compute the structural verifiers.
-/
import FuelVerif.Model.SparseBytes
import FuelVerif.Lemmas.SparseProof
import FuelVerif.Lemmas.SparseStore
namespace FuelVerif.SmtBytes
open FuelVerif FuelVerif.SmtStore FuelVerif.Gen.Sparse FuelVerif.Smt

/-- the hash constructors of the model are those of the property statement:
leaf = H(0x00 ‖ key ‖ H(value)), node = H(0x01 ‖ left ‖ right), empty subtree = 32 zero bytes -/
theorem hashes_match_statement (H : Bytes → Bytes) :
    (hashes H).zero = List.replicate 32 (0 : UInt8) ∧
    (∀ k v, (hashes H).leafH k v = H ((0x00 : UInt8) :: (k ++ v))) ∧
    (∀ l r, (hashes H).nodeH l r = H ((0x01 : UInt8) :: (l ++ r))) := by
  refine ⟨show zeroSum = _ by decide, fun k v => ?_, fun l r => ?_⟩
  · show H (Prefix.leaf.byte :: (k ++ v)) = _
    rw [show Prefix.leaf.byte = (0x00 : UInt8) by decide]
  · show H (Prefix.node.byte :: (l ++ r)) = _
    rw [show Prefix.node.byte = (0x01 : UInt8) by decide]

/-- the key width is 256 bits and the verifiers' length bound equals it -/
theorem width_eq : width = 256 := by decide
theorem maxProofLen_eq_width : maxProofLen = width := by decide

/-! ### keys -/

/-- a 32-byte key -/
abbrev Key32 := { k : Bytes // k.length = keyBytes }

/-- bit `i` from the MSB -/
def bit32 (k : Key32) (i : Nat) : Bool := bitOf k.val i

theorem uint8_ext (a b : UInt8) (h : ∀ j, j < 8 → a.toNat.testBit j = b.toNat.testBit j) : a = b := by
  apply UInt8.toNat_inj.mp
  apply Nat.eq_of_testBit_eq
  intro i
  by_cases hi : i < 8
  · exact h i hi
  · have h8 : (2 : Nat) ^ 8 ≤ 2 ^ i := Nat.pow_le_pow_right (by decide) (by omega)
    rw [Nat.testBit_lt_two_pow (Nat.lt_of_lt_of_le a.toNat_lt h8),
      Nat.testBit_lt_two_pow (Nat.lt_of_lt_of_le b.toNat_lt h8)]

theorem bitOf_eq (k : Bytes) (i : Nat) (h : i / 8 < k.length) :
    bitOf k i = (k[i / 8]).toNat.testBit (7 - i % 8) := by
  simp [bitOf, getBitAtIndexFromMsb, List.getElem?_eq_getElem h]

/-- **32-byte keys are determined by their 256 bits** -/
theorem keyExt_bytes : KeyExt bit32 width := by
  intro k k' h
  apply Subtype.ext
  apply List.ext_getElem (by rw [k.property, k'.property])
  intro j h1 h2
  apply uint8_ext
  intro b hb
  have hj : j < keyBytes := by rw [← k.property]; exact h1
  have hw : width = keyBytes * 8 := rfl
  have hi := h (8 * j + (7 - b)) (by rw [hw]; omega)
  have e1 : (8 * j + (7 - b)) / 8 = j := by omega
  have e2 : 7 - (8 * j + (7 - b)) % 8 = b := by omega
  simp only [bit32] at hi
  rw [bitOf_eq k.val _ (by rw [e1]; exact h1), bitOf_eq k'.val _ (by rw [e1]; exact h2)] at hi
  simp only [e1, e2] at hi
  exact hi

/-! ### hashes -/

/-- a 32-byte hash value -/
abbrev Hash32 := { h : Bytes // h.length = keyBytes }

/-- the assumptions on the hash function: 32-byte output, no collision among the 65-byte tagged
inputs, never the zero sum -/
structure HashOK (H : Bytes → Bytes) : Prop where
  len : ∀ x, (H x).length = keyBytes
  inj : ∀ x y, x.length = 1 + 2 * keyBytes → y.length = 1 + 2 * keyBytes → H x = H y → x = y
  nonzero : ∀ x, x.length = 1 + 2 * keyBytes → H x ≠ zeroSum

/-- the hash constructors on 32-byte keys / hashes -/
def hashes32 (H : Bytes → Bytes) (hl : ∀ x, (H x).length = keyBytes) : Hashes Key32 Hash32 Hash32 :=
  ⟨⟨zeroSum, by simp [zeroSum]⟩,
   fun k v => ⟨calculateLeafHash H k.val v.val, hl _⟩,
   fun l r => ⟨calculateNodeHash H l.val r.val, hl _⟩⟩

theorem tagged_inj {p q : Prefix} {a b a' b' : Bytes} (ha : a.length = keyBytes) (ha' : a'.length = keyBytes)
    (h : p.byte :: (a ++ b) = q.byte :: (a' ++ b')) : p = q ∧ a = a' ∧ b = b' := by
  have h1 := List.cons.inj h
  have h2 := List.append_inj h1.2 (by rw [ha, ha'])
  exact ⟨prefix_byte_injective p q h1.1, h2.1, h2.2⟩

/-- **collision freedom of the tree hashes from collision freedom of `H`** (uses that the two generated
prefix bytes differ — domain separation) -/
theorem collisionFree_bytes (H : Bytes → Bytes) (hok : HashOK H) : CollisionFree (hashes32 H hok.len) := by
  have len65 : ∀ (p : Prefix) (a b : Bytes), a.length = keyBytes → b.length = keyBytes →
      (p.byte :: (a ++ b)).length = 1 + 2 * keyBytes := by
    intro p a b ha hb
    simp only [List.length_cons, List.length_append, ha, hb]; omega
  refine ⟨?_, ?_, ?_, ?_, ?_⟩
  · intro k v k' v' h
    have h' := congrArg Subtype.val h
    simp only [hashes32, calculateLeafHash, calculateHash] at h'
    have := hok.inj _ _ (len65 _ _ _ k.property v.property) (len65 _ _ _ k'.property v'.property) h'
    obtain ⟨_, h1, h2⟩ := tagged_inj k.property k'.property this
    exact ⟨Subtype.ext h1, Subtype.ext h2⟩
  · intro a b a' b' h
    have h' := congrArg Subtype.val h
    simp only [hashes32, calculateNodeHash, calculateHash] at h'
    have := hok.inj _ _ (len65 _ _ _ a.property b.property) (len65 _ _ _ a'.property b'.property) h'
    obtain ⟨_, h1, h2⟩ := tagged_inj a.property a'.property this
    exact ⟨Subtype.ext h1, Subtype.ext h2⟩
  · intro k v a b h
    have h' := congrArg Subtype.val h
    simp only [hashes32, calculateLeafHash, calculateNodeHash, calculateHash] at h'
    have := hok.inj _ _ (len65 _ _ _ k.property v.property) (len65 _ _ _ a.property b.property) h'
    have := (tagged_inj k.property a.property this).1
    cases this
  · intro k v h
    have h' := congrArg Subtype.val h
    simp only [hashes32, calculateLeafHash, calculateHash] at h'
    exact hok.nonzero _ (len65 _ _ _ k.property v.property) h'
  · intro a b h
    have h' := congrArg Subtype.val h
    simp only [hashes32, calculateNodeHash, calculateHash] at h'
    exact hok.nonzero _ (len65 _ _ _ a.property b.property) h'

/-! ### the byte-level verifiers are the structural verifiers -/

theorem getInstruction_some (key : Bytes) (i : Nat) (h : i < 8 * key.length) :
    getInstruction key i = some (bitOf key i) := by
  have : i / 8 < key.length := by omega
  simp [getInstruction, bitOf, getBitAtIndexFromMsb, List.getElem?_eq_getElem this]

theorem verifyFold_eq (H : Bytes → Bytes) (key : Bytes) :
    ∀ (sides : List Bytes) (cur : Bytes), sides.length ≤ 8 * key.length →
      verifyFold H key sides cur = .ok (foldUp bitOf (hashes H) 0 key sides cur)
  | [], cur, _ => rfl
  | s :: rest, cur, hl => by
    simp only [List.length_cons] at hl
    unfold verifyFold foldUp
    rw [getInstruction_some key rest.length (by omega)]
    simp only [Nat.zero_add]
    cases hb : bitOf key rest.length with
    | false => simp only [Bool.false_eq_true, ↓reduceIte]; exact verifyFold_eq H key rest _ (by omega)
    | true => simp only [↓reduceIte]; exact verifyFold_eq H key rest _ (by omega)

/-- **`InclusionProof::verify` computes the structural verifier** (never panics) for 32-byte keys -/
theorem verifyInclusion_bytes (H : Bytes → Bytes) (proofSet : List Bytes) (root key value : Bytes)
    (hk : key.length = keyBytes) :
    SmtStore.verifyInclusion H proofSet root key value =
      .ok (Smt.verifyInclusion bitOf (hashes H) maxProofLen root key (H value) proofSet) := by
  unfold SmtStore.verifyInclusion Smt.verifyInclusion
  by_cases hl : proofSet.length > maxProofLen
  · simp [hl]
  · have hb : proofSet.length ≤ 8 * key.length := by
      rw [hk]; have : maxProofLen = 8 * keyBytes := by decide
      omega
    simp only [hl, ↓reduceIte]
    rw [verifyFold_eq H key proofSet _ hb]
    simp only [hashes]
    congr 1
    by_cases e : foldUp bitOf (hashes H) 0 key proofSet (calculateLeafHash H key (H value)) = root
    · simp [hashes] at e; simp [e]
    · simp [hashes] at e; simp [e]

/-- **`ExclusionProof::verify` computes the structural verifier** (never panics) for 32-byte keys -/
theorem verifyExclusion_bytes (H : Bytes → Bytes) (proofSet : List Bytes) (leaf : ExclusionLeaf)
    (root key : Bytes) (hk : key.length = keyBytes) :
    SmtStore.verifyExclusion H proofSet leaf root key =
      .ok (Smt.verifyExclusion bitOf (hashes H) maxProofLen root key proofSet
        (match leaf with
          | .leaf k v => .leaf k v
          | .placeholder => .placeholder)) := by
  have hb : ¬ proofSet.length > maxProofLen → proofSet.length ≤ 8 * key.length := by
    intro hl; rw [hk]; have : maxProofLen = 8 * keyBytes := by decide
    omega
  unfold SmtStore.verifyExclusion Smt.verifyExclusion
  cases leaf with
  | leaf k v =>
    simp only
    by_cases e : k = key
    · simp [e]
    · simp only [beq_iff_eq, e, ↓reduceIte]
      by_cases hl : proofSet.length > maxProofLen
      · simp [hl]
      · simp only [hl, ↓reduceIte]
        rw [verifyFold_eq H key proofSet _ (hb hl)]
        simp only [ExclusionLeaf.hash, hashes]
        congr 1
        by_cases e' : foldUp bitOf (hashes H) 0 key proofSet (calculateLeafHash H k v) = root
        · simp [hashes] at e'; simp [e']
        · simp [hashes] at e'; simp [e']
  | placeholder =>
    simp only [Bool.false_eq_true, ↓reduceIte]
    by_cases hl : proofSet.length > maxProofLen
    · simp [hl]
    · simp only [hl, ↓reduceIte]
      rw [verifyFold_eq H key proofSet _ (hb hl)]
      simp only [ExclusionLeaf.hash, hashes]
      congr 1
      by_cases e' : foldUp bitOf (hashes H) 0 key proofSet zeroSum = root
      · simp [hashes] at e'; simp [e']
      · simp [hashes] at e'; simp [e']

end FuelVerif.SmtBytes
