/- Helper lemmas for C20 (signature cache, permutation invariance of the gas accumulation, estimation loop). -/
import FuelVerif.Model.Auth
namespace FuelVerif.Auth

/-! ### signatures -/

section Sig
variable (recover : Bytes → Bytes → Option Addr) (predOwner : Bytes → Addr)

/-- what a successful `check_signature` establishes about one input -/
def Authorised (txhash : Bytes) (ws : List Bytes) : Input → Prop
  | .signed owner widx => ∃ w, ws[widx]? = some w ∧ recover w txhash = some owner
  | .predicate owner code _ => owner = predOwner code
  | .contract => True

/-- cache invariant: every entry is the recovery of the witness it is keyed by -/
def CacheOk (txhash : Bytes) (ws : List Bytes) (c : Cache) : Prop :=
  ∀ k a, (k, a) ∈ c → ∃ w, ws[k]? = some w ∧ recover w txhash = some a

theorem lookup_mem {c : Cache} {k : Nat} {a : Addr} (h : c.lookup k = some a) : (k, a) ∈ c := by
  induction c with
  | nil => simp [List.lookup] at h
  | cons x xs ih =>
    obtain ⟨k', a'⟩ := x
    simp only [List.lookup] at h
    split at h
    · rename_i heq
      simp at heq h
      subst heq; subst h; simp
    · exact List.mem_cons_of_mem _ (ih h)

theorem recoverAddress_ok_iff {index widx : Nat} {h : Bytes} {ws : List Bytes} {a : Addr} :
    recoverAddress recover index widx h ws = .ok a ↔ ∃ w, ws[widx]? = some w ∧ recover w h = some a := by
  unfold recoverAddress
  cases hw : ws[widx]? with
  | none => simp
  | some w =>
    cases hr : recover w h with
    | none => simp [hr]
    | some b => simp [hr]

/-- without cache: one input passes iff it is authorised -/
theorem checkSignature_none_ok_iff (inp : Input) (index : Nat) (h : Bytes) (ws : List Bytes) :
    checkSignature recover predOwner inp index h ws none = .ok none ↔ Authorised recover predOwner h ws inp := by
  cases inp with
  | contract => simp [checkSignature, Authorised]
  | predicate o c g =>
    simp only [checkSignature, Authorised]
    by_cases ho : o = predOwner c <;> simp [ho]
  | signed o w =>
    simp only [checkSignature, Authorised]
    cases hr : recoverAddress recover index w h ws with
    | error e =>
      simp only []
      constructor
      · intro hx; cases hx
      · rintro ⟨wit, h1, h2⟩
        have := (recoverAddress_ok_iff recover (index := index)).2 ⟨wit, h1, h2⟩
        rw [hr] at this; cases this
    | ok a =>
      simp only []
      have ha := (recoverAddress_ok_iff recover).1 hr
      by_cases hoa : o = a
      · subst hoa; simp; exact ha
      · simp [hoa]
        rintro wit h1 h2
        obtain ⟨w', h1', h2'⟩ := ha
        rw [h1] at h1'; cases h1'
        rw [h2] at h2'; cases h2'
        exact hoa rfl

theorem checkSignature_none_result (inp : Input) (index : Nat) (h : Bytes) (ws : List Bytes) (c' : Option Cache)
    (hx : checkSignature recover predOwner inp index h ws none = .ok c') : c' = none := by
  cases inp with
  | contract => simp [checkSignature] at hx; exact hx.symm
  | predicate o c g =>
    simp only [checkSignature] at hx
    split at hx
    · cases hx
    · cases hx; rfl
  | signed o w =>
    simp only [checkSignature] at hx
    cases hr : recoverAddress recover index w h ws with
    | error e => rw [hr] at hx; cases hx
    | ok a =>
      rw [hr] at hx
      simp only [] at hx
      split at hx
      · cases hx
      · cases hx; rfl

/-- one step: with a sound cache the cached check returns what the uncached one returns, and keeps the cache sound -/
theorem checkSignature_cache (inp : Input) (index : Nat) (h : Bytes) (ws : List Bytes) (c : Cache)
    (hc : CacheOk recover h ws c) :
    (∃ e, checkSignature recover predOwner inp index h ws (some c) = .error e ∧
          checkSignature recover predOwner inp index h ws none = .error e) ∨
    (∃ c', checkSignature recover predOwner inp index h ws (some c) = .ok (some c') ∧
          checkSignature recover predOwner inp index h ws none = .ok none ∧ CacheOk recover h ws c') := by
  cases inp with
  | contract => right; exact ⟨c, by simp [checkSignature], by simp [checkSignature], hc⟩
  | predicate o code g =>
    by_cases ho : o = predOwner code
    · right; exact ⟨c, by simp [checkSignature, ho], by simp [checkSignature, ho], hc⟩
    · left; exact ⟨.InputPredicateOwner index, by simp [checkSignature, ho], by simp [checkSignature, ho]⟩
  | signed o w =>
    cases hl : c.lookup w with
    | some a =>
      obtain ⟨wit, h1, h2⟩ := hc w a (lookup_mem hl)
      have hr : recoverAddress recover index w h ws = .ok a := (recoverAddress_ok_iff recover).2 ⟨wit, h1, h2⟩
      by_cases hoa : o = a
      · right; exact ⟨c, by simp [checkSignature, hl, hoa], by simp [checkSignature, hr, hoa], hc⟩
      · left; exact ⟨.InputInvalidSignature index, by simp [checkSignature, hl, hoa], by simp [checkSignature, hr, hoa]⟩
    | none =>
      cases hr : recoverAddress recover index w h ws with
      | error e => left; exact ⟨e, by simp [checkSignature, hl, hr], by simp [checkSignature, hr]⟩
      | ok a =>
        by_cases hoa : o = a
        · right
          refine ⟨(w, a) :: c, by simp [checkSignature, hl, hr, hoa], by simp [checkSignature, hr, hoa], ?_⟩
          intro k b hm
          rcases List.mem_cons.1 hm with hm | hm
          · cases hm; exact (recoverAddress_ok_iff recover).1 hr
          · exact hc k b hm
        · left; exact ⟨.InputInvalidSignature index, by simp [checkSignature, hl, hr, hoa], by simp [checkSignature, hr, hoa]⟩

/-- the whole loop: same verdict (same error, same index) with and without the cache -/
theorem checkFrom_cache (h : Bytes) (ws : List Bytes) (ins : List Input) (index : Nat) (c : Cache)
    (hc : CacheOk recover h ws c) :
    (∃ e, checkFrom recover predOwner h ws ins index (some c) = .error e ∧
          checkFrom recover predOwner h ws ins index none = .error e) ∨
    (∃ c', checkFrom recover predOwner h ws ins index (some c) = .ok (some c') ∧
          checkFrom recover predOwner h ws ins index none = .ok none) := by
  induction ins generalizing index c with
  | nil => right; exact ⟨c, rfl, rfl⟩
  | cons inp rest ih =>
    rcases checkSignature_cache recover predOwner inp index h ws c hc with ⟨e, h1, h2⟩ | ⟨c', h1, h2, hc'⟩
    · left; exact ⟨e, by simp [checkFrom, h1], by simp [checkFrom, h2]⟩
    · rcases ih (index + 1) c' hc' with ⟨e, g1, g2⟩ | ⟨c'', g1, g2⟩
      · left; exact ⟨e, by simp [checkFrom, h1, g1], by simp [checkFrom, h2, g2]⟩
      · right; exact ⟨c'', by simp [checkFrom, h1, g1], by simp [checkFrom, h2, g2]⟩

/-- uncached loop succeeds iff every input is authorised -/
theorem checkFrom_none_ok_iff (h : Bytes) (ws : List Bytes) (ins : List Input) (index : Nat) :
    checkFrom recover predOwner h ws ins index none = .ok none ↔
      ∀ inp ∈ ins, Authorised recover predOwner h ws inp := by
  induction ins generalizing index with
  | nil => simp [checkFrom]
  | cons inp rest ih =>
    simp only [checkFrom, List.mem_cons, forall_eq_or_imp]
    cases hx : checkSignature recover predOwner inp index h ws none with
    | error e =>
      simp only []
      constructor
      · intro hh; cases hh
      · rintro ⟨ha, _⟩
        have := (checkSignature_none_ok_iff recover predOwner inp index h ws).2 ha
        rw [hx] at this; cases this
    | ok c' =>
      have hc' := checkSignature_none_result recover predOwner inp index h ws c' hx
      subst hc'
      simp only []
      rw [ih (index + 1)]
      have := (checkSignature_none_ok_iff recover predOwner inp index h ws).1 hx
      exact ⟨fun hh => ⟨this, hh⟩, fun hh => hh.2⟩

theorem checkFrom_none_result (h : Bytes) (ws : List Bytes) (ins : List Input) (index : Nat) (c' : Option Cache)
    (hx : checkFrom recover predOwner h ws ins index none = .ok c') : c' = none := by
  induction ins generalizing index with
  | nil => simp [checkFrom] at hx; exact hx.symm
  | cons inp rest ih =>
    simp only [checkFrom] at hx
    cases hy : checkSignature recover predOwner inp index h ws none with
    | error e => rw [hy] at hx; cases hx
    | ok c'' =>
      rw [hy] at hx
      have := checkSignature_none_result recover predOwner inp index h ws c'' hy
      subst this
      exact ih (index + 1) hx

end Sig

/-! ### accumulation is permutation invariant -/

/-- gas carried by one task result (0 for a failed one) -/
def gasOf : Nat × Except PFail Nat → Nat
  | (_, .ok g) => g
  | (_, .error _) => 0

def total (l : Checks) : Nat := (l.map gasOf).sum

def AllOk (l : Checks) : Prop := ∀ x ∈ l, ∃ g, x.2 = .ok g

theorem accumulate_ok_iff (l : Checks) (acc g : Nat) (hacc : acc ≤ wordMax) :
    accumulate l acc = .ok g ↔ AllOk l ∧ acc + total l ≤ wordMax ∧ g = acc + total l := by
  induction l generalizing acc with
  | nil =>
    simp [accumulate, AllOk, total]
    constructor
    · intro h; exact ⟨hacc, h.symm⟩
    · intro h; exact h.2.symm
  | cons x rest ih =>
    obtain ⟨i, r⟩ := x
    cases r with
    | error e =>
      simp [accumulate, AllOk]
    | ok gx =>
      simp only [accumulate]
      by_cases hov : acc + gx > wordMax
      · simp [hov, AllOk, total, gasOf]
        intro _ h2; omega
      · simp only [hov, if_false]
        rw [ih (acc + gx) (by omega)]
        simp [AllOk, total, gasOf]
        intro _
        constructor
        · rintro ⟨h2, h3⟩; exact ⟨by omega, by omega⟩
        · rintro ⟨h2, h3⟩; exact ⟨by omega, by omega⟩

theorem total_perm {l l' : Checks} (h : l.Perm l') : total l = total l' := by
  induction h with
  | nil => rfl
  | cons x _ ih => simp [total] at ih ⊢; omega
  | swap x y l => simp [total]; omega
  | trans _ _ ih1 ih2 => exact ih1.trans ih2

theorem allOk_perm {l l' : Checks} (h : l.Perm l') : AllOk l ↔ AllOk l' := by
  unfold AllOk
  constructor
  · intro hh x hx; exact hh x (h.mem_iff.2 hx)
  · intro hh x hx; exact hh x (h.mem_iff.1 hx)

/-- success and the total do not depend on the order of the task results -/
theorem accumulate_ok_perm {l l' : Checks} (h : l.Perm l') (g : Nat) :
    accumulate l 0 = .ok g ↔ accumulate l' 0 = .ok g := by
  have key : ∀ m : Checks, accumulate m 0 = .ok g ↔ AllOk m ∧ total m ≤ wordMax ∧ g = total m := by
    intro m
    rw [accumulate_ok_iff m 0 g (by simp [wordMax])]
    simp
  rw [key, key, allOk_perm h, total_perm h]

/-! ### verification: sequential loop = task list -/

theorem runLoop_verifying_eq (predOwner : Bytes → Addr) (vm : Vm) (mpp : Nat) (ins : List Input) (index global : Nat) :
    runLoop predOwner vm false mpp ins index global = asyncTasks predOwner vm .verifying ins index := by
  induction ins generalizing index global with
  | nil => rfl
  | cons inp rest ih =>
    cases inp with
    | predicate o c g => simp [runLoop, asyncTasks, ih]
    | signed o w => simp [runLoop, asyncTasks, ih]
    | contract => simp [runLoop, asyncTasks, ih]

theorem stripGas_setGasAt (l : List Input) (i g : Nat) : stripGas (setGasAt l i g) = stripGas l := by
  induction l generalizing i with
  | nil => rfl
  | cons x rest ih =>
    cases i with
    | zero => cases x <;> simp [setGasAt, stripGas]
    | succ n => cases x <;> simp [setGasAt, stripGas, ih]

theorem stripGas_applyEstimates (l : List Input) (cs : Checks) : stripGas (applyEstimates l cs) = stripGas l := by
  induction cs generalizing l with
  | nil => rfl
  | cons x rest ih =>
    obtain ⟨i, r⟩ := x
    cases r with
    | ok g => simp [applyEstimates, ih, stripGas_setGasAt]
    | error e => simp [applyEstimates, ih]

/-! ### estimation followed by verification -/

section Est
variable (predOwner : Bytes → Addr)

/-- the inputs after the estimation pass, computed along the sequential loop -/
def estInputs (vm : Vm) (mpp : Nat) : List Input → Nat → Nat → List Input
  | [], _, _ => []
  | .predicate o c g :: rest, index, global =>
    let r := checkPredicate predOwner vm (.estimating (min global mpp)) index o c g
    (match r.2 with
      | .ok _ => Input.predicate o c r.1
      | .error _ => Input.predicate o c g) :: estInputs vm mpp rest (index + 1) (global - r.1)
  | .signed o w :: rest, index, global => .signed o w :: estInputs vm mpp rest (index + 1) global
  | .contract :: rest, index, global => .contract :: estInputs vm mpp rest (index + 1) global

theorem setGasAt_append (pre : List Input) (o : Addr) (c : Bytes) (g u : Nat) (rest : List Input) :
    setGasAt (pre ++ .predicate o c g :: rest) pre.length u = pre ++ .predicate o c u :: rest := by
  induction pre with
  | nil => simp [setGasAt]
  | cons x xs ih => cases x <;> simp [setGasAt, ih]

theorem applyEstimates_runLoop (vm : Vm) (mpp : Nat) (ins pre : List Input) (global : Nat) :
    applyEstimates (pre ++ ins) (runLoop predOwner vm true mpp ins pre.length global) =
      pre ++ estInputs predOwner vm mpp ins pre.length global := by
  induction ins generalizing pre global with
  | nil => simp [runLoop, applyEstimates, estInputs]
  | cons inp rest ih =>
    cases inp with
    | signed o w =>
      have := ih (pre ++ [.signed o w]) global
      simp only [List.length_append, List.length_cons, List.length_nil, List.append_assoc, List.cons_append,
        List.nil_append, Nat.zero_add] at this
      simp only [runLoop, estInputs]
      exact this
    | contract =>
      have := ih (pre ++ [.contract]) global
      simp only [List.length_append, List.length_cons, List.length_nil, List.append_assoc, List.cons_append,
        List.nil_append, Nat.zero_add] at this
      simp only [runLoop, estInputs]
      exact this
    | predicate o c g =>
      simp only [runLoop, estInputs, if_true]
      generalize hr : checkPredicate predOwner vm (.estimating (min global mpp)) pre.length o c g = r
      obtain ⟨used, res⟩ := r
      cases res with
      | error e =>
        have := ih (pre ++ [.predicate o c g]) (global - used)
        simp only [List.length_append, List.length_cons, List.length_nil, List.append_assoc, List.cons_append,
          List.nil_append, Nat.zero_add] at this
        simp only [Except.map, applyEstimates]
        exact this
      | ok u =>
        have := ih (pre ++ [.predicate o c used]) (global - used)
        simp only [List.length_append, List.length_cons, List.length_nil, List.append_assoc, List.cons_append,
          List.nil_append, Nat.zero_add] at this
        simp only [Except.map, applyEstimates, setGasAt_append]
        exact this

/-- every predicate met by the sequential estimation loop has the right owner and returned true -/
def EstGood (vm : Vm) (mpp : Nat) : List Input → Nat → Nat → Prop
  | [], _, _ => True
  | .predicate o c _ :: rest, index, global =>
    o = predOwner c ∧ ∃ r, vm .estimation index (min global mpp) = .done r .returnOne ∧ r ≤ min global mpp ∧
      EstGood vm mpp rest (index + 1) (global - (min global mpp - r))
  | _ :: rest, index, global => EstGood vm mpp rest (index + 1) global

/-- gas exactness of the VM: a run that returned true leaving `r` of `a` gas returns true leaving nothing when
started with `a - r` (in the verification context) -/
def GasExact (vm : Vm) : Prop :=
  ∀ i a r, vm .estimation i a = .done r .returnOne → r ≤ a → vm .verification i (a - r) = .done 0 .returnOne

theorem verify_after_estimate (vm : Vm) (mpp : Nat) (hx : GasExact vm) (ins : List Input) (index global : Nat)
    (hg : EstGood predOwner vm mpp ins index global) :
    asyncTasks predOwner vm .verifying (estInputs predOwner vm mpp ins index global) index =
      runLoop predOwner vm true mpp ins index global := by
  induction ins generalizing index global with
  | nil => rfl
  | cons inp rest ih =>
    cases inp with
    | signed o w => simp only [estInputs, asyncTasks, runLoop]; exact ih _ _ hg
    | contract => simp only [estInputs, asyncTasks, runLoop]; exact ih _ _ hg
    | predicate o c g =>
      obtain ⟨ho, r, hvm, hr, hrest⟩ := hg
      have hest : checkPredicate predOwner vm (.estimating (min global mpp)) index o c g =
          (min global mpp - r, .ok ()) := by
        simp [checkPredicate, hvm, Nat.not_lt.2 hr]
      have hver : checkPredicate predOwner vm .verifying index o c (min global mpp - r) =
          (min global mpp - r, .ok ()) := by
        simp [checkPredicate, ho, hx index _ r hvm hr]
      simp only [estInputs, runLoop, if_true, hest, asyncTasks, hver, Except.map]
      rw [ih _ _ hrest]

end Est

/-! ### parallel estimation followed by verification -/

theorem setGasAt_comm (l : List Input) (i j g h : Nat) (hij : i ≠ j) :
    setGasAt (setGasAt l i g) j h = setGasAt (setGasAt l j h) i g := by
  induction l generalizing i j with
  | nil => rfl
  | cons x rest ih =>
    cases i with
    | zero =>
      cases j with
      | zero => exact absurd rfl hij
      | succ j' => cases x <;> simp [setGasAt]
    | succ i' =>
      cases j with
      | zero => cases x <;> simp [setGasAt]
      | succ j' =>
        have := ih i' j' (by omega)
        cases x <;> simp [setGasAt, this]

/-- one step of `applyEstimates` -/
def applyOne (inputs : List Input) (x : Nat × Except PFail Nat) : List Input :=
  match x with
  | (i, .ok g) => setGasAt inputs i g
  | (_, .error _) => inputs

theorem applyEstimates_cons (inputs : List Input) (x : Nat × Except PFail Nat) (rest : Checks) :
    applyEstimates inputs (x :: rest) = applyEstimates (applyOne inputs x) rest := by
  obtain ⟨i, r⟩ := x
  cases r <;> rfl

theorem applyOne_comm (inputs : List Input) (x y : Nat × Except PFail Nat) (h : x.1 ≠ y.1) :
    applyOne (applyOne inputs x) y = applyOne (applyOne inputs y) x := by
  obtain ⟨i, r⟩ := x
  obtain ⟨j, q⟩ := y
  cases r <;> cases q <;> simp [applyOne]
  exact setGasAt_comm inputs i j _ _ h

/-- writing the estimates back does not depend on the completion order (task indices are distinct) -/
theorem applyEstimates_perm {l1 l2 : Checks} (hp : l1.Perm l2) :
    (l1.map (·.1)).Nodup → ∀ inputs, applyEstimates inputs l1 = applyEstimates inputs l2 := by
  induction hp with
  | nil => intro _ _; rfl
  | cons x _ ih =>
    intro hn inputs
    simp only [List.map_cons, List.nodup_cons] at hn
    rw [applyEstimates_cons, applyEstimates_cons]
    exact ih hn.2 _
  | swap x y l =>
    intro hn inputs
    simp only [List.map_cons, List.nodup_cons, List.mem_cons, not_or] at hn
    rw [applyEstimates_cons, applyEstimates_cons, applyEstimates_cons, applyEstimates_cons]
    rw [applyOne_comm inputs y x (fun e => hn.1.1 e)]
  | trans h1 _ ih1 ih2 =>
    intro hn inputs
    rw [ih1 hn inputs]
    exact ih2 ((h1.map _).nodup_iff.1 hn) inputs

section EstA
variable (predOwner : Bytes → Addr)

theorem asyncTasks_index_ge (vm : Vm) (a : Action) (ins : List Input) (index : Nat) :
    ∀ x ∈ asyncTasks predOwner vm a ins index, index ≤ x.1 := by
  induction ins generalizing index with
  | nil => intro x hx; simp [asyncTasks] at hx
  | cons inp rest ih =>
    intro x hx
    cases inp with
    | predicate o c g =>
      simp only [asyncTasks] at hx
      rcases List.mem_cons.1 hx with he | he
      · subst he; exact Nat.le_refl _
      · have := ih (index + 1) x he; omega
    | signed o w => simp only [asyncTasks] at hx; have := ih (index + 1) x hx; omega
    | contract => simp only [asyncTasks] at hx; have := ih (index + 1) x hx; omega

theorem asyncTasks_nodup (vm : Vm) (a : Action) (ins : List Input) (index : Nat) :
    ((asyncTasks predOwner vm a ins index).map (·.1)).Nodup := by
  induction ins generalizing index with
  | nil => simp [asyncTasks]
  | cons inp rest ih =>
    cases inp with
    | predicate o c g =>
      simp only [asyncTasks, List.map_cons, List.nodup_cons]
      refine ⟨?_, ih (index + 1)⟩
      intro hm
      obtain ⟨x, hx, he⟩ := List.mem_map.1 hm
      have := asyncTasks_index_ge predOwner vm a rest (index + 1) x hx
      omega
    | signed o w => simpa [asyncTasks] using ih (index + 1)
    | contract => simpa [asyncTasks] using ih (index + 1)

/-- the inputs after a parallel estimation pass (every predicate gets the same available gas `A`) -/
def estInputsA (vm : Vm) (A : Nat) : List Input → Nat → List Input
  | [], _ => []
  | .predicate o c g :: rest, index =>
    let r := checkPredicate predOwner vm (.estimating A) index o c g
    (match r.2 with
      | .ok _ => Input.predicate o c r.1
      | .error _ => Input.predicate o c g) :: estInputsA vm A rest (index + 1)
  | .signed o w :: rest, index => .signed o w :: estInputsA vm A rest (index + 1)
  | .contract :: rest, index => .contract :: estInputsA vm A rest (index + 1)

theorem applyEstimates_asyncTasks (vm : Vm) (A : Nat) (ins pre : List Input) :
    applyEstimates (pre ++ ins) (asyncTasks predOwner vm (.estimating A) ins pre.length) =
      pre ++ estInputsA predOwner vm A ins pre.length := by
  induction ins generalizing pre with
  | nil => simp [asyncTasks, applyEstimates, estInputsA]
  | cons inp rest ih =>
    cases inp with
    | signed o w =>
      have := ih (pre ++ [.signed o w])
      simp only [List.length_append, List.length_cons, List.length_nil, List.append_assoc, List.cons_append,
        List.nil_append, Nat.zero_add] at this
      simp only [asyncTasks, estInputsA]
      exact this
    | contract =>
      have := ih (pre ++ [.contract])
      simp only [List.length_append, List.length_cons, List.length_nil, List.append_assoc, List.cons_append,
        List.nil_append, Nat.zero_add] at this
      simp only [asyncTasks, estInputsA]
      exact this
    | predicate o c g =>
      simp only [asyncTasks, estInputsA]
      generalize hr : checkPredicate predOwner vm (.estimating A) pre.length o c g = r
      obtain ⟨used, res⟩ := r
      cases res with
      | error e =>
        have := ih (pre ++ [.predicate o c g])
        simp only [List.length_append, List.length_cons, List.length_nil, List.append_assoc, List.cons_append,
          List.nil_append, Nat.zero_add] at this
        simp only [Except.map, applyEstimates]
        exact this
      | ok u =>
        have := ih (pre ++ [.predicate o c used])
        simp only [List.length_append, List.length_cons, List.length_nil, List.append_assoc, List.cons_append,
          List.nil_append, Nat.zero_add] at this
        simp only [Except.map, applyEstimates, setGasAt_append]
        exact this

/-- every predicate has the right owner and returned true when estimated with `A` gas -/
def EstGoodA (vm : Vm) (A : Nat) : List Input → Nat → Prop
  | [], _ => True
  | .predicate o c _ :: rest, index =>
    o = predOwner c ∧ ∃ r, vm .estimation index A = .done r .returnOne ∧ r ≤ A ∧ EstGoodA vm A rest (index + 1)
  | _ :: rest, index => EstGoodA vm A rest (index + 1)

theorem verify_after_estimateA (vm : Vm) (A : Nat) (hx : GasExact vm) (ins : List Input) (index : Nat)
    (hg : EstGoodA predOwner vm A ins index) :
    asyncTasks predOwner vm .verifying (estInputsA predOwner vm A ins index) index =
      asyncTasks predOwner vm (.estimating A) ins index := by
  induction ins generalizing index with
  | nil => rfl
  | cons inp rest ih =>
    cases inp with
    | signed o w => simp only [estInputsA, asyncTasks]; exact ih _ hg
    | contract => simp only [estInputsA, asyncTasks]; exact ih _ hg
    | predicate o c g =>
      obtain ⟨ho, r, hvm, hr, hrest⟩ := hg
      have hest : checkPredicate predOwner vm (.estimating A) index o c g = (A - r, .ok ()) := by
        simp [checkPredicate, hvm, Nat.not_lt.2 hr]
      have hver : checkPredicate predOwner vm .verifying index o c (A - r) = (A - r, .ok ()) := by
        simp [checkPredicate, ho, hx index _ r hvm hr]
      simp only [estInputsA, hest, asyncTasks, hver, Except.map]
      rw [ih _ hrest]

end EstA

end FuelVerif.Auth
