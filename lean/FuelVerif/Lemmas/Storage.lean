/- Helper lemmas for C33: the cache-coherence invariant and the simulation between the cached
implementation and the cache-less reference (`cacheOn = false`). -/
import FuelVerif.Model.Storage
namespace FuelVerif.Storage
open FuelVerif

/-- every cached entry equals the persistent value of its slot -/
def Coherent (s : St) : Prop := ∀ k v, s.cache k = some v → s.store k = v

/-- `s` (any cache, coherent) and `t` (cache disabled) hold the same persistent and committed tables -/
def Rel (s t : St) : Prop :=
  Coherent s ∧ s.store = t.store ∧ s.committed = t.committed ∧ t.cacheOn = false

/-- same observable result, related states -/
def Sim {α : Type} (x y : St × α) : Prop := x.2 = y.2 ∧ Rel x.1 y.1

theorem Sim.elim {α : Type} {x y : St × α} (h : Sim x y) :
    ∃ s1 t1 r, x = (s1, r) ∧ y = (t1, r) ∧ Rel s1 t1 := by
  obtain ⟨s1, r1⟩ := x
  obtain ⟨t1, r2⟩ := y
  obtain ⟨e, h⟩ := h
  simp only at e h
  subst e
  exact ⟨s1, t1, r1, rfl, rfl, h⟩

theorem upd_same {α : Type} (f : Slot → α) (k : Slot) (v : α) : upd f k v k = v := by simp [upd]
theorem upd_other {α : Type} (f : Slot → α) (k k' : Slot) (v : α) (h : k' ≠ k) : upd f k v k' = f k' := by simp [upd, h]

theorem cacheGet_off {t : St} (h : t.cacheOn = false) (k : Slot) : t.cacheGet k = none := by simp [St.cacheGet, h]

theorem coherent_insert_read {s : St} (h : Coherent s) (k : Slot) :
    Coherent { s with cache := upd s.cache k (some (s.store k)) } := by
  intro k' v hv
  by_cases e : k' = k
  · subst e; simp only [upd_same] at hv; cases hv; rfl
  · simp only [upd_other _ _ _ _ e] at hv; exact h k' v hv

theorem readSlot_sim {s t : St} (h : Rel s t) (k : Slot) : Sim (readSlot s k) (readSlot t k) := by
  obtain ⟨hc, hs, hm, ht⟩ := h
  unfold readSlot
  rw [cacheGet_off ht]
  simp only
  cases hg : s.cacheGet k with
  | none =>
    simp only
    refine ⟨by rw [hs], coherent_insert_read hc k, hs, hm, ht⟩
  | some v =>
    simp only
    have hv : s.cache k = some v := by
      unfold St.cacheGet at hg
      by_cases on : s.cacheOn = true
      · simpa [on] using hg
      · simp [on] at hg
    refine ⟨?_, hc, hs, hm, ht⟩
    rw [← hs]; exact (hc k v hv).symm

/-- reference semantics of a read: the persistent value, table unchanged -/
theorem readSlot_plain {t : St} (ht : t.cacheOn = false) (k : Slot) :
    (readSlot t k).2 = t.store k ∧ (readSlot t k).1.store = t.store ∧ (readSlot t k).1.committed = t.committed := by
  unfold readSlot
  rw [cacheGet_off ht]
  exact ⟨rfl, rfl, rfl⟩

theorem slotLenNoGas_sim {s t : St} (h : Rel s t) (k : Slot) : Sim (slotLenNoGas s k) (slotLenNoGas t k) := by
  obtain ⟨hc, hs, hm, ht⟩ := h
  unfold slotLenNoGas
  rw [cacheGet_off ht]
  simp only
  cases hg : s.cacheGet k with
  | none =>
    simp only
    refine ⟨by rw [hs], coherent_insert_read hc k, hs, hm, ht⟩
  | some v =>
    simp only
    have hv : s.cache k = some v := by
      unfold St.cacheGet at hg
      by_cases on : s.cacheOn = true
      · simpa [on] using hg
      · simp [on] at hg
    refine ⟨?_, hc, hs, hm, ht⟩
    rw [← hs, hc k v hv]

theorem coherent_write {s : St} (h : Coherent s) (k : Slot) (v : Bytes) :
    Coherent { s with store := upd s.store k (some v), cache := upd s.cache k (some (some v)) } := by
  intro k' w hw
  by_cases e : k' = k
  · subst e; simp only [upd_same] at hw ⊢; cases hw; rfl
  · simp only [upd_other _ _ _ _ e] at hw ⊢; exact h k' w hw

theorem writeSlot_sim (maxLen : Nat) {s t : St} (h : Rel s t) (k : Slot) (v : Bytes) :
    Sim (writeSlot maxLen s k v) (writeSlot maxLen t k v) := by
  obtain ⟨s1, t1, r, e1, e2, h1⟩ := (slotLenNoGas_sim h k).elim
  unfold writeSlot
  rw [e1, e2]
  simp only
  obtain ⟨hc, hs, hm, ht⟩ := h1
  by_cases hl : v.length > maxLen
  · simp only [hl, if_true]
    exact ⟨rfl, hc, hs, hm, ht⟩
  · simp only [hl, if_false]
    exact ⟨rfl, coherent_write hc k v, by simp only [hs], hm, ht⟩

/-- reference semantics of a write: exactly slot `k` becomes `v`, or `StorageOutOfBounds` and nothing changes -/
theorem writeSlot_plain (maxLen : Nat) {t : St} (ht : t.cacheOn = false) (k : Slot) (v : Bytes) :
    (v.length ≤ maxLen → (writeSlot maxLen t k v).2 = .ok () ∧ (writeSlot maxLen t k v).1.store = upd t.store k (some v)) ∧
    (maxLen < v.length → (writeSlot maxLen t k v).2 = .error .StorageOutOfBounds ∧ (writeSlot maxLen t k v).1.store = t.store) := by
  unfold writeSlot slotLenNoGas
  rw [cacheGet_off ht]
  simp only
  constructor
  · intro h
    have : ¬ v.length > maxLen := by omega
    simp [this]
  · intro h
    simp [h]

/-! ### range clear -/

theorem removeRange_spec (store : Slot → Option Bytes) (cid : Bytes) (key n : Nat) (k' : Slot) :
    removeRange store cid key n k' = if k'.1 = cid ∧ key ≤ k'.2 ∧ k'.2 < key + n then none else store k' := by
  induction n with
  | zero =>
    have : ¬ (k'.1 = cid ∧ key ≤ k'.2 ∧ k'.2 < key + 0) := by omega
    rw [if_neg this]; rfl
  | succ n ih =>
    simp only [removeRange]
    by_cases e : k' = (cid, key + n)
    · subst e
      simp [upd_same]
    · rw [upd_other _ _ _ _ e, ih]
      have hne : ¬ (k'.1 = cid ∧ k'.2 = key + n) := by
        intro ⟨a, b⟩; apply e; exact Prod.ext a b
      by_cases c1 : k'.1 = cid ∧ key ≤ k'.2 ∧ k'.2 < key + n
      · have : k'.1 = cid ∧ key ≤ k'.2 ∧ k'.2 < key + (n + 1) := ⟨c1.1, c1.2.1, by omega⟩
        simp [c1, this]
      · have : ¬ (k'.1 = cid ∧ key ≤ k'.2 ∧ k'.2 < key + (n + 1)) := by
          intro ⟨a, b, c⟩
          by_cases d : k'.2 = key + n
          · exact hne ⟨a, d⟩
          · exact c1 ⟨a, b, by omega⟩
        simp [c1, this]

/-- keys `key + i` for `i` in `[a, a + n)` -/
def keysFrom (key a : Nat) : Nat → List (Option Nat)
  | 0 => []
  | n + 1 => (if key + a < U256 then some (key + a) else none) :: keysFrom key (a + 1) n

theorem range_map_shift (f : Nat → Option Nat) (n : Nat) :
    (List.range (n + 1)).map f = f 0 :: (List.range n).map (fun i => f (i + 1)) := by
  rw [List.range_succ_eq_map]
  simp [List.map_map, Function.comp_def]

theorem keyRange_eq_keysFrom_aux (key a n : Nat) :
    (List.range n).map (fun i => if key + (a + i) < U256 then some (key + (a + i)) else none) = keysFrom key a n := by
  induction n generalizing a with
  | zero => simp [keysFrom]
  | succ n ih =>
    rw [range_map_shift]
    simp only [keysFrom, Nat.add_zero]
    congr 1
    have := ih (a + 1)
    rw [← this]
    apply List.map_congr_left
    intro i _
    have : a + (i + 1) = a + 1 + i := by omega
    rw [this]

theorem keyRange_eq_keysFrom (key n : Nat) : keyRange key n = keysFrom key 0 n := by
  have := keyRange_eq_keysFrom_aux key 0 n
  simpa [keyRange] using this

/-- when the whole range fits below 2^256 the cache loop succeeds and marks exactly the range as absent -/
theorem cacheClear_keysFrom (cache : Slot → Option (Option Bytes)) (cid : Bytes) (key a n : Nat)
    (hfit : n = 0 ∨ key + a + n - 1 < U256) :
    ∃ c, cacheClear cache cid (keysFrom key a n) = .ok c ∧
      ∀ k', c k' = if k'.1 = cid ∧ key + a ≤ k'.2 ∧ k'.2 < key + a + n then some none else cache k' := by
  induction n generalizing a cache with
  | zero =>
    refine ⟨cache, rfl, ?_⟩
    intro k'
    have : ¬ (k'.1 = cid ∧ key + a ≤ k'.2 ∧ k'.2 < key + a + 0) := by omega
    rw [if_neg this]
  | succ n ih =>
    have hlt : key + a < U256 := by rcases hfit with h | h <;> omega
    simp only [keysFrom, hlt, if_true, cacheClear]
    obtain ⟨c, hc, hspec⟩ := ih (upd cache (cid, key + a) (some none)) (a + 1) (by rcases hfit with h | h <;> omega)
    refine ⟨c, hc, ?_⟩
    intro k'
    rw [hspec k']
    by_cases e : k' = (cid, key + a)
    · subst e
      have h1 : ¬ (cid = cid ∧ key + (a + 1) ≤ key + a ∧ key + a < key + (a + 1) + n) := by omega
      have h2 : cid = cid ∧ key + a ≤ key + a ∧ key + a < key + a + (n + 1) := ⟨rfl, by omega, by omega⟩
      rw [if_neg h1, if_pos h2, upd_same]
    · rw [upd_other _ _ _ _ e]
      have hne : ¬ (k'.1 = cid ∧ k'.2 = key + a) := by
        intro ⟨x, y⟩; apply e; exact Prod.ext x y
      by_cases c1 : k'.1 = cid ∧ key + (a + 1) ≤ k'.2 ∧ k'.2 < key + (a + 1) + n
      · have : k'.1 = cid ∧ key + a ≤ k'.2 ∧ k'.2 < key + a + (n + 1) := ⟨c1.1, by omega, by omega⟩
        simp [c1, this]
      · have : ¬ (k'.1 = cid ∧ key + a ≤ k'.2 ∧ k'.2 < key + a + (n + 1)) := by
          intro ⟨x, y, z⟩
          by_cases d : k'.2 = key + a
          · exact hne ⟨x, d⟩
          · exact c1 ⟨x, by omega, by omega⟩
        simp [c1, this]

/-- `storage_clear_slot_range`, closed form: fails with `TooManySlots` exactly when `range > 1` and the last key
is beyond 2^256 - 1 … -/
theorem clearRange_err (s : St) (cid : Bytes) (key range : Nat) (h : range > 1 ∧ key + (range - 1) ≥ U256) :
    clearRange s cid key range = (s, .error .TooManySlots) := by
  unfold clearRange
  simp [h]

/-- … and otherwise (for a start key below 2^256) removes exactly the slots `(cid, key .. key+range-1)` and
records them as absent in the cache -/
theorem clearRange_ok (s : St) (cid : Bytes) (key range : Nat) (hk : key < U256)
    (h : ¬ (range > 1 ∧ key + (range - 1) ≥ U256)) :
    ∃ s', clearRange s cid key range = (s', .ok ()) ∧
      (∀ k', s'.store k' = if k'.1 = cid ∧ key ≤ k'.2 ∧ k'.2 < key + range then none else s.store k') ∧
      (∀ k', s'.cache k' = if k'.1 = cid ∧ key ≤ k'.2 ∧ k'.2 < key + range then some none else s.cache k') ∧
      s'.cacheOn = s.cacheOn ∧ s'.committed = s.committed := by
  unfold clearRange
  simp only [h, if_false]
  rw [keyRange_eq_keysFrom]
  obtain ⟨c, hc, hspec⟩ := cacheClear_keysFrom s.cache cid key 0 range (by
    by_cases r0 : range = 0
    · exact Or.inl r0
    · right
      by_cases r1 : range = 1
      · subst r1; omega
      · have : range > 1 := by omega
        have := fun x => h ⟨this, x⟩
        omega)
  simp only [hc]
  refine ⟨_, rfl, ?_, ?_, rfl, rfl⟩
  · intro k'; exact removeRange_spec s.store cid key range k'
  · intro k'; simpa using hspec k'

theorem clearRange_sim {s t : St} (h : Rel s t) (cid : Bytes) (key range : Nat) (hk : key < U256) :
    Sim (clearRange s cid key range) (clearRange t cid key range) := by
  by_cases hov : range > 1 ∧ key + (range - 1) ≥ U256
  · rw [clearRange_err s cid key range hov, clearRange_err t cid key range hov]
    exact ⟨rfl, h⟩
  · obtain ⟨s', es, hs1, hs2, hs3, hs4⟩ := clearRange_ok s cid key range hk hov
    obtain ⟨t', et, ht1, ht2, ht3, ht4⟩ := clearRange_ok t cid key range hk hov
    rw [es, et]
    obtain ⟨hc, hst, hm, hto⟩ := h
    refine ⟨rfl, ?_, ?_, by rw [hs4, ht4, hm], by rw [ht3, hto]⟩
    · intro k' v hv
      rw [hs2 k'] at hv
      rw [hs1 k']
      by_cases c : k'.1 = cid ∧ key ≤ k'.2 ∧ k'.2 < key + range
      · simp only [c, and_self, if_true] at hv ⊢
        cases hv; rfl
      · simp only [c, if_false] at hv ⊢
        exact hc k' v hv
    · funext k'
      rw [hs1 k', ht1 k', hst]

end FuelVerif.Storage
