/- Lemmas for `execWide_spec` (C22): each helper of `Model/Wide.lean` equals the specification body of `Model/WideSpec.lean`. -/
import FuelVerif.Lemmas.Wide
import FuelVerif.Model.WideSpec
namespace FuelVerif.Alu
open FuelVerif FuelVerif.Gen FuelVerif.Gen.AluArgs FuelVerif.Instr

/-! ### reads and the write as "first failing check, else value" -/

theorem readWide_as (m : Mem) (a n : Nat) (hn : n ≤ memSize) :
    readWide m a n = (match accessFail m a n with
      | some e => .error e
      | none => .ok (operandVal m true a n)) := by
  rw [readWide_eq m a n hn]
  unfold accessFail Mem.accessible operandVal
  by_cases h1 : a + n ≤ memSize <;> by_cases h2 : a + n ≤ m.stackLen ∨ m.hp ≤ a <;> simp [h1, h2]

theorem readOperand_as (m : Mem) (ind : Bool) (v n : Nat) (hn : n ≤ memSize) :
    readOperand m ind v n = (match operandFail m ind v n with
      | some e => .error e
      | none => .ok (operandVal m ind v n)) := by
  cases ind
  · simp [readOperand, operandFail, operandVal]
  · simp only [readOperand, operandFail, if_true]
    exact readWide_as m v n hn

theorem writeResult_as (s : VmSt) (regs' : Regs) (dest n res : Nat) (hn : n ≤ memSize) :
    writeResult s regs' dest n res = (match writeFail s dest n with
      | some e => ({ s with regs := regs' }, some e)
      | none => ({ s with regs := incPc regs', mem := s.mem.store dest (natBE n res) }, none)) := by
  unfold writeResult
  rw [writeBytes_eq _ _ _ _ (by rw [natBE_length]; exact hn), natBE_length]
  unfold writeFail accessFail ownsRange Mem.accessible
  by_cases h1 : dest + n ≤ memSize
  · by_cases h2 : dest + n ≤ s.mem.stackLen ∨ s.mem.hp ≤ dest
    · by_cases h3 : (s.owner.hasStack dest (dest + n) || s.owner.hasHeap dest (dest + n)) = true
      · simp [h1, h2, h3, firstSome]
      · simp [h1, h2, h3, firstSome]
    · simp [h1, h2, firstSome]
  · simp [h1, firstSome]

theorem operandVal_lt (m : Mem) (ind : Bool) (v n : Nat) (h64 : 64 ≤ 8 * n) (hv : v < 2 ^ 64) :
    operandVal m ind v n < 2 ^ (8 * n) := by
  cases ind
  · simp only [operandVal, Bool.false_eq_true, if_false]
    exact Nat.lt_of_lt_of_le hv (Nat.pow_le_pow_right (by decide) h64)
  · simp only [operandVal, if_true]
    have := beNat_lt ((List.range n).map (fun i => m.bytes (v + i)))
    simpa [pow256] using this

theorem setErrOf_eq (r : Regs) (e o : Nat) : (r.set regERR e).set regOF o = setOfErr r o e := by
  funext j
  simp only [setOfErr, Regs.set, regERR, regOF]
  by_cases h1 : j = 2 <;> by_cases h2 : j = 8 <;> simp [h1, h2]

/-! ### the eight operations: implementation form = mathematical form on `W`-bit numbers -/

theorem wideOpOverflowing_eq (W l r : Nat) (hW : W ≤ 2 ^ 32) (hl : l < 2 ^ W) (hr : r < 2 ^ W) (op : WMathOp) :
    wideOpOverflowing W l r op = mathOpSpec W l r op := by
  cases op
  case ADD => simp [wideOpOverflowing, mathOpSpec]
  case SUB =>
    simp only [wideOpOverflowing, mathOpSpec, Prod.mk.injEq, and_true]
    split
    · rw [show l + 2 ^ W - r = (l - r) + 2 ^ W by omega, Nat.add_mod_right]
      exact Nat.mod_eq_of_lt (by omega)
    · exact Nat.mod_eq_of_lt (by omega)
  case NOT => rfl
  case OR => rfl
  case XOR => rfl
  case AND => rfl
  case SHL =>
    simp only [wideOpOverflowing, mathOpSpec, Prod.mk.injEq, and_true]
    by_cases h : r < W
    · rw [if_pos (by omega), if_pos h, Nat.shiftLeft_eq]
    · have hz : l * 2 ^ r % 2 ^ W = 0 := by
        have : r = W + (r - W) := by omega
        rw [this, Nat.pow_add, ← Nat.mul_assoc, Nat.mul_comm l, Nat.mul_assoc]
        exact Nat.mul_mod_right _ _
      rw [hz]; split <;> simp [h]
  case SHR =>
    simp only [wideOpOverflowing, mathOpSpec, Prod.mk.injEq, and_true]
    by_cases h : r < W
    · rw [if_pos (by omega), if_pos h, Nat.shiftRight_eq_div_pow]
    · have hz : l / 2 ^ r = 0 := Nat.div_eq_of_lt (Nat.lt_of_lt_of_le hl (Nat.pow_le_pow_right (by decide) (by omega)))
      rw [hz]; split <;> simp [h]

theorem wideCmpVal_eq (W l r : Nat) (mode : CmpMode) : wideCmpVal W l r mode = cmpMath W l r mode := by
  cases mode <;> simp [wideCmpVal, wideCmpVal.boolWord', cmpMath]

/-! ### the common tails -/

/-- `wideErrTail` = the `divLike` outcome followed by the write -/
theorem wideErrTail_as (n : Nat) (s : VmSt) (a z v : Nat) (hn : n ≤ memSize) (ov : Option Nat)
    (hov : ov = if z = 0 then none else some v) :
    wideErrTail n s (s.regs a) ov =
      (match divLike z (isUnsafeMath (s.regs regFLAG)) v with
       | .error e => (s, some e)
       | .ok w =>
         match writeFail s (s.regs a) n with
         | some e => ({ s with regs := setOfErr s.regs w.ofv w.errv }, some e)
         | none => ({ s with regs := incPc (setOfErr s.regs w.ofv w.errv), mem := s.mem.store (s.regs a) (natBE n w.res) }, none)) := by
  subst hov
  unfold wideErrTail divLike
  by_cases hz : z = 0
  · simp only [hz, if_true]
    by_cases hu : isUnsafeMath (s.regs regFLAG) = true
    · simp only [hu, if_true, setErrOf_eq, writeResult_as _ _ _ _ _ hn]
    · simp only [hu, Bool.false_eq_true, if_false]
  · simp only [hz, if_false, setErrOf_eq, writeResult_as _ _ _ _ _ hn]

/-- `readWide` is the indirect operand read -/
theorem readWide_as' (m : Mem) (a n : Nat) (hn : n ≤ memSize) :
    readWide m a n = (match operandFail m true a n with
      | some e => .error e
      | none => .ok (operandVal m true a n)) := by
  rw [readWide_as m a n hn]; rfl

theorem muldiv_arith (M l r d : Nat) (hM : 0 < M) (hl : l < M) (hr : r < M) :
    ((checkedDiv (l * r) d).getD (l * r / M)) % M = (if d = 0 then l * r / M else l * r / d % M) ∧
    ((((checkedDiv (l * r) d).getD (l * r / M)) / M % M ≠ 0) ↔ (d ≠ 0 ∧ M ≤ l * r / d)) := by
  have hprod : l * r < M * M := Nat.mul_lt_mul'' hl hr
  unfold checkedDiv
  by_cases h : d = 0
  · have hq : l * r / M < M := (Nat.div_lt_iff_lt_mul hM).mpr hprod
    simp [h, Nat.mod_eq_of_lt hq, Nat.div_eq_of_lt hq]
  · have hq : l * r / d < M * M := Nat.lt_of_le_of_lt (Nat.div_le_self _ _) hprod
    simp only [h, if_false, Option.getD_some, ne_eq, not_false_eq_true, true_and]
    generalize l * r / d = Q at *
    have hqq : Q / M < M := (Nat.div_lt_iff_lt_mul hM).mpr hq
    rw [Nat.mod_eq_of_lt hqq]
    constructor
    · intro hne
      by_cases hlt : Q < M
      · exact absurd (Nat.div_eq_of_lt hlt) hne
      · omega
    · intro hle h0
      have := Nat.div_eq_zero_iff.mp h0
      omega

/-! ### each helper = the specification body -/

theorem wideCmp_body (n : Nat) (s : VmSt) (ra bv cv dv : Nat) (mode : CmpMode) (ind : Bool) (hn : n ≤ memSize) :
    wideCmp n s ra bv cv mode ind = wideSpecBody n s ⟨.cmp mode, true, ind, false⟩ ra bv cv dv := by
  unfold wideCmp wideSpecBody
  by_cases ha : ra < 16
  · simp [writeRegKey_err ha, WideKind.isCmp, ha]
  · have ha' : 16 ≤ ra := by omega
    rw [writeRegKey_ok ha', readWide_as' _ _ _ hn, readOperand_as _ _ _ _ hn]
    cases h1 : operandFail s.mem true bv n with
    | some e => simp [firstSome, WideKind.isCmp, ha]
    | none =>
      cases h2 : operandFail s.mem ind cv n with
      | some e => simp [firstSome, WideKind.isCmp, ha]
      | none => simp [firstSome, WideKind.isCmp, ha, operandFail, wideMath, setOfErr, wideCmpVal_eq]

theorem operandVal_lt_ind (m : Mem) (v n : Nat) : operandVal m true v n < 2 ^ (8 * n) := by
  simp only [operandVal, if_true]
  have := beNat_lt ((List.range n).map (fun i => m.bytes (v + i)))
  simpa [pow256] using this

theorem wideOp_body (n : Nat) (s : VmSt) (a bv cv dv : Nat) (mop : WMathOp) (ind : Bool) (hn : n ≤ memSize)
    (hW : 8 * n ≤ 2 ^ 32) (h64 : 64 ≤ 8 * n) (hc : cv < 2 ^ 64) :
    wideOp n s (s.regs a) bv cv mop ind = wideSpecBody n s ⟨.math mop, true, ind, false⟩ a bv cv dv := by
  unfold wideOp wideSpecBody
  rw [readWide_as' _ _ _ hn, readOperand_as _ _ _ _ hn]
  cases h1 : operandFail s.mem true bv n with
  | some e => simp [firstSome, WideKind.isCmp]
  | none =>
    cases h2 : operandFail s.mem ind cv n with
    | some e => simp [firstSome, WideKind.isCmp]
    | none =>
      have hl : operandVal s.mem true bv n < 2 ^ (8 * n) := operandVal_lt_ind s.mem bv n
      have hr : operandVal s.mem ind cv n < 2 ^ (8 * n) := operandVal_lt s.mem ind cv n h64 hc
      simp only [firstSome, operandFail, Bool.false_eq_true, if_false, WideKind.isCmp, false_and, wideMath]
      rw [wideOpOverflowing_eq _ _ _ hW hl hr]
      generalize mathOpSpec (8 * n) (operandVal s.mem true bv n) (operandVal s.mem ind cv n) mop = R
      obtain ⟨v, ov⟩ := R
      simp only [Bool.not_eq_true]
      by_cases hov : ov = true ∧ isWrapping (s.regs regFLAG) = false
      · simp only [hov, and_self, if_true]
      · simp only [hov, if_false]
        rw [writeResult_as _ _ _ _ _ hn]
        cases writeFail s (s.regs a) n <;> simp [setOfErr]

theorem wideMul_body (n : Nat) (s : VmSt) (a bv cv dv : Nat) (il ir : Bool) (hn : n ≤ memSize) :
    wideMul n s (s.regs a) bv cv il ir = wideSpecBody n s ⟨.mul, il, ir, false⟩ a bv cv dv := by
  unfold wideMul wideSpecBody
  rw [readOperand_as _ _ _ _ hn, readOperand_as _ _ _ _ hn]
  cases h1 : operandFail s.mem il bv n with
  | some e => simp [firstSome, WideKind.isCmp]
  | none =>
    cases h2 : operandFail s.mem ir cv n with
    | some e => simp [firstSome, WideKind.isCmp]
    | none =>
      simp only [firstSome, operandFail, Bool.false_eq_true, if_false, WideKind.isCmp, false_and, wideMath,
        ge_iff_le, decide_eq_true_eq, Bool.not_eq_true]
      generalize operandVal s.mem il bv n * operandVal s.mem ir cv n = P
      by_cases hov : 2 ^ (8 * n) ≤ P ∧ isWrapping (s.regs regFLAG) = false
      · simp only [hov, and_self, if_true]
      · simp only [hov, if_false]
        rw [writeResult_as _ _ _ _ _ hn]
        cases writeFail s (s.regs a) n <;> simp [setOfErr]

theorem wideDiv_body (n : Nat) (s : VmSt) (a bv cv dv : Nat) (ir : Bool) (hn : n ≤ memSize) :
    wideDiv n s (s.regs a) bv cv ir = wideSpecBody n s ⟨.div, true, ir, false⟩ a bv cv dv := by
  unfold wideDiv wideSpecBody
  rw [readWide_as' _ _ _ hn, readOperand_as _ _ _ _ hn]
  cases h1 : operandFail s.mem true bv n with
  | some e => simp [firstSome, WideKind.isCmp]
  | none =>
    cases h2 : operandFail s.mem ir cv n with
    | some e => simp [firstSome, WideKind.isCmp]
    | none =>
      simp only [firstSome, operandFail, Bool.false_eq_true, if_false, WideKind.isCmp, false_and, wideMath]
      rw [wideErrTail_as n s a (operandVal s.mem ir cv n) (operandVal s.mem true bv n / operandVal s.mem ir cv n) hn
        (checkedDiv (operandVal s.mem true bv n) (operandVal s.mem ir cv n)) rfl]
      cases divLike (operandVal s.mem ir cv n) (isUnsafeMath (s.regs regFLAG))
        (operandVal s.mem true bv n / operandVal s.mem ir cv n) <;> rfl

/-- the three-operand forms share their reads -/
theorem read3_as (n : Nat) (s : VmSt) (bv cv dv : Nat) (hn : n ≤ memSize) :
    read3 n s bv cv dv =
      (match firstSome [operandFail s.mem true bv n, operandFail s.mem true cv n, operandFail s.mem true dv n] with
       | some e => .error e
       | none => .ok (operandVal s.mem true bv n, operandVal s.mem true cv n, operandVal s.mem true dv n)) := by
  unfold read3
  rw [readWide_as' _ _ _ hn, readWide_as' _ _ _ hn, readWide_as' _ _ _ hn]
  cases operandFail s.mem true bv n <;> cases operandFail s.mem true cv n <;> cases operandFail s.mem true dv n <;>
    simp [firstSome]

theorem wideAddmod_body (n : Nat) (s : VmSt) (a bv cv dv : Nat) (hn : n ≤ memSize) :
    wideAddmod n s (s.regs a) bv cv dv = wideSpecBody n s ⟨.addmod, true, true, true⟩ a bv cv dv := by
  unfold wideAddmod wideSpecBody
  rw [read3_as _ _ _ _ _ hn]
  cases h : firstSome [operandFail s.mem true bv n, operandFail s.mem true cv n, operandFail s.mem true dv n] with
  | some e => simp [WideKind.isCmp]
  | none =>
    have ht := operandVal_lt_ind s.mem dv n
    simp only [WideKind.isCmp, Bool.false_eq_true, false_and, if_false, wideMath]
    generalize operandVal s.mem true bv n = l at *
    generalize operandVal s.mem true cv n = r at *
    generalize operandVal s.mem true dv n = t at *
    rw [wideErrTail_as n s a t ((l + r) % t) hn _ (by
      unfold checkedRem
      by_cases h0 : t = 0
      · simp [h0]
      · have : (l + r) % t % 2 ^ (8 * n) = (l + r) % t := Nat.mod_eq_of_lt (Nat.lt_trans (Nat.mod_lt _ (by omega)) ht)
        simp [h0, this])]
    cases divLike t (isUnsafeMath (s.regs regFLAG)) ((l + r) % t) <;> rfl

theorem wideMulmod_body (n : Nat) (s : VmSt) (a bv cv dv : Nat) (hn : n ≤ memSize) :
    wideMulmod n s (s.regs a) bv cv dv = wideSpecBody n s ⟨.mulmod, true, true, true⟩ a bv cv dv := by
  unfold wideMulmod wideSpecBody
  rw [read3_as _ _ _ _ _ hn]
  cases h : firstSome [operandFail s.mem true bv n, operandFail s.mem true cv n, operandFail s.mem true dv n] with
  | some e => simp [WideKind.isCmp]
  | none =>
    have ht := operandVal_lt_ind s.mem dv n
    simp only [WideKind.isCmp, Bool.false_eq_true, false_and, if_false, wideMath]
    generalize operandVal s.mem true bv n = l at *
    generalize operandVal s.mem true cv n = r at *
    generalize operandVal s.mem true dv n = t at *
    rw [wideErrTail_as n s a t (l * r % t) hn _ (by
      unfold checkedRem
      by_cases h0 : t = 0
      · simp [h0]
      · have : l * r % t % 2 ^ (8 * n) = l * r % t := Nat.mod_eq_of_lt (Nat.lt_trans (Nat.mod_lt _ (by omega)) ht)
        simp [h0, this])]
    cases divLike t (isUnsafeMath (s.regs regFLAG)) (l * r % t) <;> rfl

theorem wideMuldiv_body (n : Nat) (s : VmSt) (a bv cv dv : Nat) (hn : n ≤ memSize) :
    wideMuldiv n s (s.regs a) bv cv dv = wideSpecBody n s ⟨.muldiv, true, true, true⟩ a bv cv dv := by
  unfold wideMuldiv wideSpecBody
  rw [read3_as _ _ _ _ _ hn]
  cases h : firstSome [operandFail s.mem true bv n, operandFail s.mem true cv n, operandFail s.mem true dv n] with
  | some e => simp [WideKind.isCmp]
  | none =>
    have hl := operandVal_lt_ind s.mem bv n
    have hr := operandVal_lt_ind s.mem cv n
    simp only [WideKind.isCmp, Bool.false_eq_true, false_and, if_false, wideMath, decide_eq_true_eq, Bool.not_eq_true]
    generalize operandVal s.mem true bv n = l at *
    generalize operandVal s.mem true cv n = r at *
    generalize operandVal s.mem true dv n = t at *
    obtain ⟨e1, e2⟩ := muldiv_arith (2 ^ (8 * n)) l r t (Nat.two_pow_pos _) hl hr
    rw [e1]
    simp only [e2]
    by_cases h0 : t = 0
    · simp only [h0, ne_eq, not_true_eq_false, false_and, if_false, if_true]
      rw [writeResult_as _ _ _ _ _ hn]
      cases writeFail s (s.regs a) n <;> simp [setOfErr]
    · simp only [h0, ne_eq, not_false_eq_true, true_and, if_false]
      by_cases hov : 2 ^ (8 * n) ≤ l * r / t ∧ isWrapping (s.regs regFLAG) = false
      · simp only [hov, and_self, if_true]
      · simp only [hov, if_false]
        rw [writeResult_as _ _ _ _ _ hn]
        cases writeFail s (s.regs a) n <;> simp [setOfErr]

/-! ### decoding: the table-driven `from_imm` decoders = the closed-form `widePlan` (all 64 immediates) -/

theorem imm_table_all :
    (List.range 64).all (fun imm =>
      (compareFromImm imm == if imm / 8 % 4 = 0 ∧ imm % 8 ≤ 6 then some (cmpModeOfNat (imm % 8), decide (imm / 32 = 1)) else none) &&
      (mathFromImm imm == if imm % 32 ≤ 7 then some (wMathOpOfNat (imm % 32), decide (imm / 32 = 1)) else none) &&
      (mulFromImm imm == if imm % 16 = 0 then some (decide (imm / 16 % 2 = 1), decide (imm / 32 = 1)) else none) &&
      (divFromImm imm == if imm % 32 = 0 then some (decide (imm / 32 = 1)) else none)) = true := by
  decide +kernel

theorem imm_table (imm : Nat) (h : imm < 64) :
    compareFromImm imm = (if imm / 8 % 4 = 0 ∧ imm % 8 ≤ 6 then some (cmpModeOfNat (imm % 8), decide (imm / 32 = 1)) else none) ∧
    mathFromImm imm = (if imm % 32 ≤ 7 then some (wMathOpOfNat (imm % 32), decide (imm / 32 = 1)) else none) ∧
    mulFromImm imm = (if imm % 16 = 0 then some (decide (imm / 16 % 2 = 1), decide (imm / 32 = 1)) else none) ∧
    divFromImm imm = (if imm % 32 = 0 then some (decide (imm / 32 = 1)) else none) := by
  have := imm_table_all
  rw [List.all_eq_true] at this
  have h1 := this imm (List.mem_range.mpr h)
  simp only [Bool.and_eq_true, beq_iff_eq] at h1
  exact ⟨h1.1.1.1, h1.1.1.2, h1.1.2, h1.2⟩

end FuelVerif.Alu
