/- Helper lemmas for C28 (receipt context bounds, tree/list synchronisation). -/
import FuelVerif.Model.Outcome
namespace FuelVerif.Outcome
open FuelVerif

def IsProg (r : Rcpt) : Prop := r.kind ≠ .scriptResult ∧ r.kind ≠ .panic

theorem Rcpt.quiet.prog {r : Rcpt} (h : r.quiet) : IsProg r := ⟨h.1, h.2.1⟩

/-- loop invariant of `run_program`: only program receipts so far, and the two tail slots are still free -/
def Good (rc : RCtx) : Prop := rc.n ≤ maxReceipts - 2 ∧ (∀ r ∈ rc.receipts, r.quiet) ∧ rc.n = rc.receipts.length

/-- the incremental tree is the calculator fed with the encodings of exactly the receipts in the list, in order -/
def Sync (H : Bytes → Bytes) (rc : RCtx) : Prop :=
  rc.tree = (rc.receipts.map (·.enc)).foldl (calcPush H) []

theorem good_empty : Good RCtx.empty := by
  refine ⟨by simp [RCtx.empty], ?_, by simp [RCtx.empty, RCtx.receipts]⟩
  intro r hr; simp [RCtx.empty, RCtx.receipts] at hr

theorem sync_empty (H : Bytes → Bytes) : Sync H RCtx.empty := by simp [Sync, RCtx.empty, RCtx.receipts]

theorem push_shape {H : Bytes → Bytes} {rc rc' : RCtx} {r : Rcpt} (h : rc.push H r = .ok rc') :
    rc'.receipts = rc.receipts ++ [r] ∧ rc'.tree = calcPush H rc.tree r.enc ∧ rc'.n = rc.n + 1 := by
  unfold RCtx.push at h
  split at h
  · cases h
  · split at h
    · cases h
    · cases h; exact ⟨by simp [RCtx.receipts], rfl, rfl⟩

theorem push_sync {H : Bytes → Bytes} {rc rc' : RCtx} {r : Rcpt} (hs : Sync H rc) (h : rc.push H r = .ok rc') :
    Sync H rc' := by
  obtain ⟨h1, h2, _⟩ := push_shape h
  unfold Sync at *
  rw [h1, h2, hs]
  simp [List.foldl_append]

theorem push_prog_ok {H : Bytes → Bytes} {rc rc' : RCtx} {r : Rcpt} (hg : Good rc) (hq : r.quiet)
    (h : rc.push H r = .ok rc') : Good rc' := by
  have hr : IsProg r := hq.prog
  obtain ⟨h1, _, h3⟩ := push_shape h
  unfold RCtx.push at h
  split at h
  · cases h
  · split at h
    · cases h
    · rename_i hn hc
      refine ⟨?_, ?_, ?_⟩
      · rw [h3]
        have := hg.1
        have h2 : ¬ (rc.n = maxReceipts - 2) := by
          intro e; exact hc (Or.inr ⟨e, hr.1, hr.2⟩)
        omega
      · intro x hx
        rw [h1] at hx
        simp only [List.mem_append, List.mem_cons, List.mem_nil_iff, or_false] at hx
        rcases hx with hx | rfl
        · exact hg.2.1 x hx
        · exact hq
      · rw [h3, h1, hg.2.2]; simp

theorem push_prog_len {H : Bytes → Bytes} {rc rc' : RCtx} {r : Rcpt} (hg : Good rc) (hr : IsProg r)
    (h : rc.push H r = .ok rc') : rc'.n ≤ maxReceipts - 2 ∧ rc'.n = rc'.receipts.length := by
  obtain ⟨h1, _, h3⟩ := push_shape h
  unfold RCtx.push at h
  split at h
  · cases h
  · split at h
    · cases h
    · rename_i hn hc
      refine ⟨?_, by rw [h3, h1, hg.2.2]; simp⟩
      rw [h3]
      have := hg.1
      have h2 : ¬ (rc.n = maxReceipts - 2) := by
        intro e; exact hc (Or.inr ⟨e, hr.1, hr.2⟩)
      omega

theorem push_prog_err {H : Bytes → Bytes} {rc : RCtx} {r : Rcpt} {e : PushErr} (hg : Good rc)
    (h : rc.push H r = .error e) : e = .tooManyReceipts := by
  unfold RCtx.push at h
  have := hg.1
  split at h
  · rename_i hn; simp [maxReceipts] at *; omega
  · split at h
    · cases h; rfl
    · cases h

theorem push_panic_ok {H : Bytes → Bytes} {rc : RCtx} {p : Rcpt} (hg : Good rc) (hp : p.kind = .panic) :
    ∃ rc', rc.push H p = .ok rc' := by
  unfold RCtx.push
  have := hg.1
  rw [if_neg (by simp [maxReceipts] at *; omega)]
  rw [if_neg]
  · exact ⟨_, rfl⟩
  · intro hc
    rcases hc with ⟨hn, _⟩ | ⟨_, _, hk⟩
    · simp [maxReceipts] at *; omega
    · exact hk hp

theorem push_sr_ok {H : Bytes → Bytes} {rc : RCtx} {s : Rcpt} (hl : rc.n ≤ maxReceipts - 1)
    (hk : s.kind = .scriptResult) : ∃ rc', rc.push H s = .ok rc' := by
  unfold RCtx.push
  rw [if_neg (by simp [maxReceipts] at *; omega)]
  rw [if_neg]
  · exact ⟨_, rfl⟩
  · intro hc
    rcases hc with ⟨_, hk'⟩ | ⟨_, hk', _⟩ <;> exact hk' hk

end FuelVerif.Outcome
