/-
`common/msb.rs` at the bit level: `common_prefix_count` of two distinct equal-length byte strings is the
index of their first differing bit (MSB first).
-/
import FuelVerif.Model.SparseBytes
namespace FuelVerif.SmtBytes
open FuelVerif FuelVerif.SmtStore

theorem log2_facts {x : Nat} (hx : x ≠ 0) (h8 : x < 256) :
    x.log2 < 8 ∧ x.testBit x.log2 = true ∧ ∀ j, x.log2 < j → x.testBit j = false := by
  refine ⟨(Nat.log2_lt hx).mpr h8, ?_, ?_⟩
  · rw [Nat.testBit_eq_decide_div_mod_eq]
    have h1 := Nat.log2_self_le hx
    have h2 := @Nat.lt_log2_self x
    have : x / 2 ^ x.log2 = 1 := by
      apply Nat.div_eq_of_lt_le
      · simpa using h1
      · rw [Nat.pow_succ] at h2; omega
    simp [this]
  · intro j hj
    apply Nat.testBit_lt_two_pow
    exact Nat.lt_of_lt_of_le (@Nat.lt_log2_self x) (Nat.pow_le_pow_right (by decide) hj)

theorem xor_ne_zero {a b : UInt8} (h : a ≠ b) : (a ^^^ b).toNat ≠ 0 := by
  intro e
  apply h
  apply UInt8.toNat_inj.mp
  apply Nat.eq_of_testBit_eq
  intro i
  have : (a.toNat ^^^ b.toNat).testBit i = false := by
    rw [← UInt8.toNat_xor, e]; simp
  rw [Nat.testBit_xor] at this
  cases ha : a.toNat.testBit i <;> cases hb : b.toNat.testBit i <;> simp [ha, hb] at this ⊢

/-- within one byte: `leading_zeros(a ^ b)` is the first differing bit from the MSB -/
theorem lz_spec {a b : UInt8} (h : a ≠ b) :
    leadingZeros8 (a ^^^ b) < 8 ∧
    (∀ j, j < leadingZeros8 (a ^^^ b) → a.toNat.testBit (7 - j) = b.toNat.testBit (7 - j)) ∧
    a.toNat.testBit (7 - leadingZeros8 (a ^^^ b)) ≠ b.toNat.testBit (7 - leadingZeros8 (a ^^^ b)) := by
  have hx := xor_ne_zero h
  have h8 : (a ^^^ b).toNat < 256 := (a ^^^ b).toNat_lt
  obtain ⟨hl, ht, hf⟩ := log2_facts hx h8
  have hlz : leadingZeros8 (a ^^^ b) = 7 - (a ^^^ b).toNat.log2 := by
    unfold leadingZeros8; rw [if_neg hx]
  rw [hlz]
  refine ⟨by omega, ?_, ?_⟩
  · intro j hj
    have := hf (7 - j) (by omega)
    rw [UInt8.toNat_xor, Nat.testBit_xor] at this
    cases ha : a.toNat.testBit (7 - j) <;> cases hb : b.toNat.testBit (7 - j) <;> simp [ha, hb] at this ⊢
  · have e : 7 - (7 - (a ^^^ b).toNat.log2) = (a ^^^ b).toNat.log2 := by omega
    rw [e]
    rw [UInt8.toNat_xor] at ht
    rw [Nat.testBit_xor] at ht
    intro heq
    rw [UInt8.toNat_xor] at heq
    rw [heq] at ht
    simp at ht

theorem bitOf_cons_lt (x : UInt8) (as : Bytes) (i : Nat) (h : i < 8) :
    bitOf (x :: as) i = x.toNat.testBit (7 - i) := by
  have : i / 8 = 0 := by omega
  have h2 : i % 8 = i := by omega
  simp [bitOf, getBitAtIndexFromMsb, this, h2]

theorem bitOf_cons_ge (x : UInt8) (as : Bytes) (i : Nat) (h : 8 ≤ i) :
    bitOf (x :: as) i = bitOf as (i - 8) := by
  have h1 : i / 8 = (i - 8) / 8 + 1 := by omega
  have h2 : i % 8 = (i - 8) % 8 := by omega
  simp [bitOf, getBitAtIndexFromMsb, h1, h2]

/-- **`common_prefix_count` is the index of the first differing bit** -/
theorem cpc_spec : ∀ (a b : Bytes), a.length = b.length → a ≠ b →
    commonPrefixCount a b < 8 * a.length ∧
    (∀ i, i < commonPrefixCount a b → bitOf a i = bitOf b i) ∧
    bitOf a (commonPrefixCount a b) ≠ bitOf b (commonPrefixCount a b)
  | [], [], _, hne => absurd rfl hne
  | [], _ :: _, hl, _ => by simp at hl
  | _ :: _, [], hl, _ => by simp at hl
  | x :: as, y :: bs, hl, hne => by
    unfold commonPrefixCount
    by_cases e : x = y
    · subst e
      have hne' : as ≠ bs := fun h => hne (by rw [h])
      obtain ⟨h1, h2, h3⟩ := cpc_spec as bs (by simpa using hl) hne'
      simp only [↓reduceIte, List.length_cons]
      refine ⟨by omega, ?_, ?_⟩
      · intro i hi
        by_cases h8 : i < 8
        · rw [bitOf_cons_lt _ _ _ h8, bitOf_cons_lt _ _ _ h8]
        · rw [bitOf_cons_ge _ _ _ (by omega), bitOf_cons_ge _ _ _ (by omega)]
          exact h2 _ (by omega)
      · rw [bitOf_cons_ge _ _ _ (by omega), bitOf_cons_ge _ _ _ (by omega)]
        have : 8 + commonPrefixCount as bs - 8 = commonPrefixCount as bs := by omega
        rw [this]; exact h3
    · obtain ⟨h1, h2, h3⟩ := lz_spec e
      simp only [e, ↓reduceIte, List.length_cons]
      refine ⟨by omega, ?_, ?_⟩
      · intro i hi
        rw [bitOf_cons_lt _ _ _ (by omega), bitOf_cons_lt _ _ _ (by omega)]
        exact h2 i hi
      · rw [bitOf_cons_lt _ _ _ h1, bitOf_cons_lt _ _ _ h1]
        exact h3

end FuelVerif.SmtBytes
