/-
Soundness of the sparse Merkle verifiers WITHOUT a global collision-freedom assumption: if a proof set is
accepted against the root of a tree and the key's status is not what the proof claims, then there is a collision
among the explicit finite list of inputs hashed by the verifier (`foldInputs`, the leaf input) and by the tree
(`treeInputs`). Stated as: `NoCollisionOn H (that list)` ⇒ the claim is true.
-/
import FuelVerif.Lemmas.SparseCollision
namespace FuelVerif.SmtRefine
open FuelVerif FuelVerif.SmtStore FuelVerif.SmtBytes FuelVerif.Gen.Sparse FuelVerif.Smt

variable (H : Bytes → Bytes) (hl : ∀ x, (H x).length = keyBytes)

/-- the tagged input of an internal node with children hashes `a`, `b` -/
def nodeIn (a b : Hash32) : Bytes := Prefix.node.byte :: (a.val ++ b.val)

/-- the tagged input of a leaf -/
def leafIn (k : Key32) (v : Hash32) : Bytes := Prefix.leaf.byte :: (k.val ++ v.val)

/-- the input hashed by one verifier step at key-bit index `i` -/
def stepIn (k : Key32) (i : Nat) (side cur : Hash32) : Bytes :=
  if bit32 k i then nodeIn side cur else nodeIn cur side

/-- **the inputs the verifier's loop hashes**, in order (leaf side first) -/
def foldInputs (d : Nat) (k : Key32) : List Hash32 → Hash32 → List Bytes
  | [], _ => []
  | s :: rest, cur =>
    stepIn k (d + rest.length) s cur ::
      foldInputs d k rest ⟨H (stepIn k (d + rest.length) s cur), hl _⟩

theorem stepUp_val (k : Key32) (i : Nat) (side cur : Hash32) :
    stepUp bit32 (hashes32 H hl) k i side cur = ⟨H (stepIn k i side cur), hl _⟩ := by
  by_cases hb : bit32 k i = true <;> simp only [stepUp, stepIn, hb, Bool.false_eq_true, ↓reduceIte] <;> try rfl

theorem foldUp_cons (d : Nat) (k : Key32) (s : Hash32) (rest : List Hash32) (cur : Hash32) :
    foldUp bit32 (hashes32 H hl) d k (s :: rest) cur =
      foldUp bit32 (hashes32 H hl) d k rest ⟨H (stepIn k (d + rest.length) s cur), hl _⟩ := by
  rw [← stepUp_val]
  rfl

theorem foldInputs_append (d : Nat) (k : Key32) (x : Hash32) : ∀ (s : List Hash32) (cur : Hash32),
    foldInputs H hl d k (s ++ [x]) cur =
      foldInputs H hl (d + 1) k s cur ++
        [stepIn k d x (foldUp bit32 (hashes32 H hl) (d + 1) k s cur)]
  | [], cur => by simp [foldInputs, foldUp]
  | y :: s, cur => by
    have e : d + (s ++ [x]).length = d + 1 + s.length := by simp; omega
    simp only [List.cons_append, foldInputs, e, foldUp_cons]
    rw [foldInputs_append d k x s]

/-- **soundness of the fold, collision-extraction form**: if the fold reaches the hash of `t` and `H` does not
collide on the inputs hashed by the fold and by `t`, the fold has walked down `t` along the key's bits: the
start value is the hash of a subtree `t'` (or of a placeholder) and `get` is decided there -/
theorem foldUp_sound_rel (k : Key32) (start : Hash32) :
    ∀ (m : Nat) (sides : List Hash32), sides.length = m → ∀ (d : Nat) (t : T),
      NoCollisionOn H (foldInputs H hl d k sides start ++ treeInputs H hl t) →
      foldUp bit32 (hashes32 H hl) d k sides start = t.hash (hashes32 H hl) →
      ∃ t' : T, start = t'.hash (hashes32 H hl) ∧ (t' = .empty ∨ IsSub t' t) ∧
        Smt.get bit32 d k t = Smt.get bit32 (d + sides.length) k t'
  | 0, sides, hm, d, t, _, h => by
    have : sides = [] := List.length_eq_zero_iff.mp hm
    subst this
    refine ⟨t, by simpa [foldUp] using h, ?_, by simp⟩
    by_cases e : t = .empty
    · exact .inl e
    · exact .inr (IsSub.refl e)
  | m + 1, sides, hm, d, t, hnc, h => by
    cases list_nil_or_concat sides with
    | inl e => subst e; simp at hm
    | inr e =>
      obtain ⟨init, x, e⟩ := e
      subst e
      have hlen : init.length = m := by simp at hm; omega
      rw [foldUp_append, stepUp_val] at h
      rw [foldInputs_append] at hnc
      generalize hin : foldUp bit32 (hashes32 H hl) (d + 1) k init start = inner at h hnc
      have htop : stepIn k d x inner ∈
          (foldInputs H hl (d + 1) k init start ++ [stepIn k d x inner]) ++ treeInputs H hl t := by simp
      have hval : H (stepIn k d x inner) = (t.hash (hashes32 H hl)).val := congrArg Subtype.val h
      cases t with
      | empty => exact absurd hval (hnc.2 _ htop)
      | leaf k' v' =>
        exfalso
        have hm2 : inputOf H hl (.leaf k' v') ∈
            (foldInputs H hl (d + 1) k init start ++ [stepIn k d x inner]) ++ treeInputs H hl (.leaf k' v') :=
          List.mem_append_right _ (mem_treeInputs H hl rfl)
        have e := hnc.1 _ htop _ hm2 hval
        unfold stepIn at e
        split at e
        · have := (tagged_inj x.property k'.property e).1; cases this
        · have := (tagged_inj inner.property k'.property e).1; cases this
      | node l r =>
        have hm2 : inputOf H hl (.node l r) ∈
            (foldInputs H hl (d + 1) k init start ++ [stepIn k d x inner]) ++ treeInputs H hl (.node l r) :=
          List.mem_append_right _ (mem_treeInputs H hl (.inl rfl))
        have e := hnc.1 _ htop _ hm2 hval
        have hsubl : ∀ y ∈ treeInputs H hl l, y ∈ treeInputs H hl (.node l r) := by
          intro y hy
          obtain ⟨u, hu, e2⟩ := List.mem_map.mp hy
          rw [← e2]; exact mem_treeInputs H hl (.inr (.inl (mem_subtrees.mp hu)))
        have hsubr : ∀ y ∈ treeInputs H hl r, y ∈ treeInputs H hl (.node l r) := by
          intro y hy
          obtain ⟨u, hu, e2⟩ := List.mem_map.mp hy
          rw [← e2]; exact mem_treeInputs H hl (.inr (.inr (mem_subtrees.mp hu)))
        unfold stepIn at e
        by_cases hb' : bit32 k d = true
        · simp only [hb', ↓reduceIte] at e
          obtain ⟨_, _, e2⟩ := tagged_inj x.property (l.hash (hashes32 H hl)).property e
          have hinner : foldUp bit32 (hashes32 H hl) (d + 1) k init start = r.hash (hashes32 H hl) := by
            rw [hin]; exact Subtype.ext e2
          have hnc' : NoCollisionOn H (foldInputs H hl (d + 1) k init start ++ treeInputs H hl r) := by
            refine NoCollisionOn.mono ?_ hnc
            intro y hy
            rcases List.mem_append.mp hy with hy | hy
            · exact List.mem_append_left _ (List.mem_append_left _ hy)
            · exact List.mem_append_right _ (hsubr y hy)
          obtain ⟨t', ht', hs', hg⟩ := foldUp_sound_rel k start m init hlen (d + 1) r hnc' hinner
          refine ⟨t', ht', ?_, ?_⟩
          · rcases hs' with hs' | hs'
            · exact .inl hs'
            · exact .inr (.inr (.inr hs'))
          · simp only [Smt.get, hb', ↓reduceIte, List.length_append, List.length_cons, List.length_nil]
            rw [hg]; congr 1; omega
        · simp only [hb', Bool.false_eq_true, ↓reduceIte] at e
          obtain ⟨_, e1, _⟩ := tagged_inj inner.property (l.hash (hashes32 H hl)).property e
          have hinner : foldUp bit32 (hashes32 H hl) (d + 1) k init start = l.hash (hashes32 H hl) := by
            rw [hin]; exact Subtype.ext e1
          have hnc' : NoCollisionOn H (foldInputs H hl (d + 1) k init start ++ treeInputs H hl l) := by
            refine NoCollisionOn.mono ?_ hnc
            intro y hy
            rcases List.mem_append.mp hy with hy | hy
            · exact List.mem_append_left _ (List.mem_append_left _ hy)
            · exact List.mem_append_right _ (hsubl y hy)
          obtain ⟨t', ht', hs', hg⟩ := foldUp_sound_rel k start m init hlen (d + 1) l hnc' hinner
          refine ⟨t', ht', ?_, ?_⟩
          · rcases hs' with hs' | hs'
            · exact .inl hs'
            · exact .inr (.inr (.inl hs'))
          · simp only [Smt.get, hb', Bool.false_eq_true, ↓reduceIte, List.length_append, List.length_cons,
              List.length_nil]
            rw [hg]; congr 1; omega

/-- the inputs `InclusionProof::verify` hashes for key `k`, value hash `v` and proof set `s` -/
def inclusionInputs (k : Key32) (v : Hash32) (s : List Hash32) : List Bytes :=
  leafIn k v :: foldInputs H hl 0 k s ((hashes32 H hl).leafH k v)

/-- the inputs `ExclusionProof::verify` hashes -/
def exclusionInputs (k : Key32) (s : List Hash32) : ExLeaf Key32 Hash32 → List Bytes
  | .leaf k' v' => leafIn k' v' :: foldInputs H hl 0 k s ((hashes32 H hl).leafH k' v')
  | .placeholder => foldInputs H hl 0 k s (hashes32 H hl).zero

/-- a start value that is a leaf hash identifies the leaf -/
theorem leaf_start_inv (k' : Key32) (v' : Hash32) (t t' : T) (L : List Bytes)
    (hnc : NoCollisionOn H (leafIn k' v' :: L ++ treeInputs H hl t))
    (ht' : (hashes32 H hl).leafH k' v' = t'.hash (hashes32 H hl)) (hs : t' = .empty ∨ IsSub t' t) :
    t' = .leaf k' v' := by
  have hval : H (leafIn k' v') = (t'.hash (hashes32 H hl)).val := congrArg Subtype.val ht'
  have hm1 : leafIn k' v' ∈ leafIn k' v' :: L ++ treeInputs H hl t := by simp
  rcases hs with hs | hs
  · subst hs; exact absurd hval (hnc.2 _ hm1)
  · have hm2 : inputOf H hl t' ∈ leafIn k' v' :: L ++ treeInputs H hl t :=
      List.mem_append_right _ (mem_treeInputs H hl hs)
    rw [hash_eq_input H hl (IsSub.ne_empty hs)] at hval
    have e := hnc.1 _ hm1 _ hm2 hval
    cases t' with
    | empty => exact absurd rfl (IsSub.ne_empty hs)
    | leaf k'' v'' =>
      obtain ⟨_, e1, e2⟩ := tagged_inj k'.property k''.property e
      rw [Subtype.ext e1, Subtype.ext e2]
    | node l r =>
      have := (tagged_inj k'.property (l.hash (hashes32 H hl)).property e).1
      cases this

/-- **inclusion soundness, collision-extraction form**: an accepted inclusion proof for `k` with value hash `v`
against the root of `t` implies `t` stores `v` at `k`, unless `H` collides on the inputs hashed by the verifier
and by the tree -/
theorem inclusion_sound_rel (n : Nat) (k : Key32) (v : Hash32) (t : T) (s : List Hash32)
    (hnc : NoCollisionOn H (inclusionInputs H hl k v s ++ treeInputs H hl t))
    (h : Smt.verifyInclusion bit32 (hashes32 H hl) n (t.hash (hashes32 H hl)) k v s = true) :
    Smt.get bit32 0 k t = some v := by
  unfold Smt.verifyInclusion at h
  split at h
  · cases h
  · have h' := of_decide_eq_true h
    have hnc' : NoCollisionOn H (foldInputs H hl 0 k s ((hashes32 H hl).leafH k v) ++ treeInputs H hl t) :=
      NoCollisionOn.mono (fun y hy => by
        rcases List.mem_append.mp hy with hy | hy
        · exact List.mem_append_left _ (List.mem_cons_of_mem _ hy)
        · exact List.mem_append_right _ hy) hnc
    obtain ⟨t', ht', hs', hg⟩ := foldUp_sound_rel H hl k _ s.length s rfl 0 t hnc' h'
    have := leaf_start_inv H hl k v t t' _ hnc ht' hs'
    rw [hg, this]
    simp [Smt.get]

/-- **exclusion soundness, collision-extraction form** -/
theorem exclusion_sound_rel (n : Nat) (k : Key32) (t : T) (s : List Hash32) (leaf : ExLeaf Key32 Hash32)
    (hnc : NoCollisionOn H (exclusionInputs H hl k s leaf ++ treeInputs H hl t))
    (h : Smt.verifyExclusion bit32 (hashes32 H hl) n (t.hash (hashes32 H hl)) k s leaf = true) :
    Smt.get bit32 0 k t = none := by
  unfold Smt.verifyExclusion at h
  cases leaf with
  | leaf k' v' =>
    simp only at h
    split at h
    · cases h
    · next hne =>
      split at h
      · cases h
      · have h' := of_decide_eq_true h
        have hnc' : NoCollisionOn H
            (foldInputs H hl 0 k s ((hashes32 H hl).leafH k' v') ++ treeInputs H hl t) :=
          NoCollisionOn.mono (fun y hy => by
            rcases List.mem_append.mp hy with hy | hy
            · exact List.mem_append_left _ (List.mem_cons_of_mem _ hy)
            · exact List.mem_append_right _ hy) hnc
        obtain ⟨t', ht', hs', hg⟩ := foldUp_sound_rel H hl k _ s.length s rfl 0 t hnc' h'
        have := leaf_start_inv H hl k' v' t t' _ hnc ht' hs'
        rw [hg, this]
        simp [Smt.get, hne]
  | placeholder =>
    simp only at h
    split at h
    · cases h
    · have h' := of_decide_eq_true h
      obtain ⟨t', ht', hs', hg⟩ := foldUp_sound_rel H hl k _ s.length s rfl 0 t hnc h'
      have he : t' = .empty := by
        rcases hs' with hs' | hs'
        · exact hs'
        · exfalso
          have hval : zeroSum = (t'.hash (hashes32 H hl)).val := congrArg Subtype.val ht'
          rw [hash_eq_input H hl (IsSub.ne_empty hs')] at hval
          exact hnc.2 _ (List.mem_append_right _ (mem_treeInputs H hl hs')) hval.symm
      rw [hg, he]
      simp [Smt.get]

end FuelVerif.SmtRefine
