import FuelVerif.Lemmas.OffsetsTx
namespace FuelVerif.Offsets
open FuelVerif FuelVerif.Canonical
open FuelVerif.Canonical.TxDesc (env envLaws)
open FuelVerif.Canonical.InputCodec (env0 encDesc)

theorem input_wt0 {x : Val} (h : wt env TxDesc.input x = true) : wt env0 encDesc x = true := by
  simp only [TxDesc.input, wt, TxDesc.env, Resolve.customInput, Resolve.customPolicies] at h
  simp only [show (1 : Nat) ≠ 0 by decide, if_false, if_true, InputCodec.codec, InputCodec.wt, Bool.and_eq_true] at h
  exact h.1

/-- **`inputs_predicate_offset_at`**: `Some` exactly for inputs that carry a predicate; the pair is where the
padded predicate is in the transaction's encoding, and its padded length -/
theorem predicate_at (t : Tx) (bytes : Bytes) (hmeta : t.metadata = none) (C : ChargeableOffsets t bytes)
    (hins : ∀ i ∈ t.inputs, wt env TxDesc.input i = true) (i : Nat) :
    (∀ o l, t.inputsPredicateOffsetAt i = some (o, l) → ∃ x k, t.inputs[i]? = some x ∧ inputKind x = some k ∧ k.hasPredicate = true ∧
      l = (padded (bytesOf (inputField k "predicate" x))).length ∧ At bytes o (padded (bytesOf (inputField k "predicate" x)))) ∧
    (t.inputsPredicateOffsetAt i = none ↔ ∀ x k, t.inputs[i]? = some x → inputKind x = some k → k.hasPredicate = false) := by
  simp only [Tx.inputsPredicateOffsetAt, hmeta]
  cases hx : t.inputs[i]? with
  | none => simp
  | some x =>
    have hwx := input_wt0 (hins x (List.mem_of_getElem? hx))
    obtain ⟨k, p, _, hk, _⟩ := input_cases hwx
    obtain ⟨p1, p2⟩ := predicate_offset_at hwx k hk
    obtain ⟨q1, q2⟩ := predicate_len_eq hwx k hk
    have hi : i < t.inputs.length := (List.getElem?_eq_some_iff.mp hx).1
    have hoi : ∃ oi, t.inputsOffsetAt i = some oi := by
      cases h : t.inputsOffsetAt i with
      | none => have := (C.inputNone i).mp h; omega
      | some oi => exact ⟨oi, rfl⟩
    obtain ⟨oi, hoi⟩ := hoi
    have hAt := C.inputAt i oi x hoi hx
    simp only [Option.bind_some, hoi, Option.map_some]
    cases hpo : predicateOffset x with
    | none =>
      rw [hpo] at p1
      simp only [Option.isSome] at p1
      simp only [Option.bind_none]
      refine ⟨(by intro o l h; cases h), ?_⟩
      simp only [true_iff]
      intro x' k' hx' hk'
      cases hx'; rw [hk] at hk'; cases hk'; exact p1.symm
    | some po =>
      rw [hpo] at p1
      simp only [Option.isSome] at p1
      have hnc : k ≠ .contract := by intro h; subst h; simp [InputKind.hasPredicate] at p1
      rw [q1, if_neg hnc] at q2 ⊢
      have := q2 _ rfl
      simp only [Option.bind_some, this]
      refine ⟨?_, ?_⟩
      · intro o l h
        simp only [Option.some.injEq, Prod.mk.injEq] at h
        obtain ⟨rfl, rfl⟩ := h
        exact ⟨x, k, rfl, hk, p1.symm, rfl, At.trans hAt (p2 po hpo)⟩
      · simp only [reduceCtorEq, false_iff]
        intro h
        have := h x k rfl hk
        rw [this] at p1; cases p1


/-! ### the static body fields of the five chargeable kinds and of Mint -/

/-- which field each constant offset function is for: (kind, function of `Gen.Offsets.staticOffsets`, path of field names from the
transaction struct; `[]` for Mint's own fields is the struct itself) -/
def staticMeaning : List (Kind × String × List String) := [
  (.script, "script_gas_limit_offset_static", ["body", "script_gas_limit"]), (.script, "receipts_root_offset_static", ["body", "receipts_root"]),
  (.create, "bytecode_witness_index_offset_static", ["body", "bytecode_witness_index"]), (.create, "salt_offset_static", ["body", "salt"]),
  (.upload, "bytecode_root_offset_static", ["body", "root"]), (.upload, "bytecode_witness_index_offset_static", ["body", "witness_index"]),
  (.upload, "subsection_index_offset_static", ["body", "subsection_index"]), (.upload, "subsections_number_offset_static", ["body", "subsections_number"]),
  (.blob, "blob_id_offset_static", ["body", "id"]), (.blob, "bytecode_witness_index_offset_static", ["body", "witness_index"]),
  (.upgrade, "upgrade_purpose_offset_static", ["body", "purpose"]),
  (.mint, "tx_pointer_static", ["tx_pointer"]), (.mint, "input_contract_offset", ["input_contract"])]

def staticOffsetOf (k : Kind) (fn : String) : Option Nat :=
  (Gen.Offsets.staticOffsets.find? (fun r => r.1 == k.name && r.2.1 == fn)).map (·.2.2)

def txStructName (k : Kind) : String := if k = .mint then "Mint" else "ChargeableTransaction"

def staticPath (k : Kind) : List String → Option (List Nat)
  | [f] => (Resolve.fieldIndex (txStructName k) f).map (fun j => [j])
  | [f, g] =>
    match Resolve.fieldIndex (txStructName k) f, Resolve.fieldIndex k.bodyStruct g with
    | some j, some j' => some [j, j']
    | _, _ => none
  | _ => none

def staticRowOk' (e : Kind × String × List String) : Bool :=
  match staticPath e.1 e.2.2, staticOffsetOf e.1 e.2.1 with
  | some path, some off =>
    match pathS0 cs0 e.1.desc path with
    | some (o, _) => o == off
    | none => false
  | _, _ => false

theorem static_body_rows_ok : staticMeaning.all staticRowOk' = true ∧ Kind.all.all (fun k => k.desc.wf) = true := by decide +kernel

/-- **constant offsets** (`script_gas_limit_offset`, `receipts_root_offset`, `salt_offset`, `bytecode_root_offset`, `blob_id_offset`,
`upgrade_purpose_offset`, Mint's `tx_pointer_offset` / `input_contract_offset`, ..): the field's encoding is there -/
theorem static_offset (e : Kind × String × List String) (he : e ∈ staticMeaning) (v : Val) (hv : wt env e.1.desc v = true) :
    ∃ off path fd fv, staticOffsetOf e.1 e.2.1 = some off ∧ staticPath e.1 e.2.2 = some path ∧ valPath v path = some fv ∧
      wt env fd fv = true ∧ At (encode env e.1.desc v) off (encS env fd fv) := by
  have := static_body_rows_ok.1
  simp only [List.all_eq_true] at this
  have hrow := this e he
  simp only [staticRowOk'] at hrow
  split at hrow
  · rename_i path off hpath hoff
    split at hrow
    · rename_i o fd hf
      simp only [beq_iff_eq] at hrow; subst hrow
      have hwf : e.1.desc.wf = true := by
        have := static_body_rows_ok.2
        simp only [List.all_eq_true] at this
        exact this e.1 (by cases e.1 <;> simp [Kind.all])
      obtain ⟨fv, h1, h2, _, h4⟩ := pathS0_at env envLaws cs0 cs0_ok_env path _ o fd hf hwf v hv
      exact ⟨o, path, fd, fv, hoff, hpath, h1, h2, At.append_right _ h4⟩
    · cases hrow
  · cases hrow


/-! ### Mint -/

theorem size_const (d : Desc) (n : Nat) (h0 : sizeS0 cs0 d = some n) (hn : noDyn d = true) (v : Val) (hv : wt env d v = true) :
    size env d v = n := by
  simp [size, sizeS0_eq env cs0 cs0_ok_env d n h0 v hv, (sizeD_noDyn env d hn v).1]

def mintFieldOk (f : String) (d : Desc) (off : Nat) : Bool :=
  match Resolve.fieldIndex "Mint" f with
  | some j => fieldS0 cs0 Kind.mint.desc j == some (off, d)
  | none => false

theorem mint_rows_ok : (mintFieldOk "input_contract" InputCodec.contract 24 && mintFieldOk "output_contract" (InputCodec.orVoid (Resolve.named "OutputContract")) 176 &&
    mintFieldOk "mint_amount" (.uint 8) 248 && mintFieldOk "mint_asset_id" InputLaws.dB32 256 && mintFieldOk "gas_price" (.uint 8) 288 &&
    sizeS0 cs0 InputCodec.contract == some 152 && noDyn InputCodec.contract &&
    sizeS0 cs0 (InputCodec.orVoid (Resolve.named "OutputContract")) == some 72 && noDyn (InputCodec.orVoid (Resolve.named "OutputContract")) &&
    Kind.mint.desc.wf && noDyn Kind.mint.desc) = true := by decide +kernel

theorem mint_field (f : String) (d : Desc) (off : Nat) (h : mintFieldOk f d off = true) (v : Val) (hv : wt env Kind.mint.desc v = true) :
    wt env d (fieldOf "Mint" f v) = true ∧ At (encode env Kind.mint.desc v) off (encS env d (fieldOf "Mint" f v)) := by
  simp only [mintFieldOk] at h
  split at h
  · rename_i j hj
    simp only [beq_iff_eq] at h
    have hw : Kind.mint.desc.wf = true := by have := mint_rows_ok; simp only [Bool.and_eq_true] at this; exact this.1.2
    obtain ⟨fv, h1, h2, _, h4⟩ := fieldS0_at env envLaws cs0 cs0_ok_env _ j off d h hw v hv
    have : fieldOf "Mint" f v = fv := by simp [fieldOf, hj, h1]
    rw [this]
    exact ⟨h2, At.append_right _ h4⟩
  · cases h

/-- **Mint**: `input_contract_offset`, `output_contract_offset`, `mint_amount_offset`, `mint_asset_id_offset`, `gas_price_offset`
(the last four computed from the sizes of the fields before them) point at the encodings of these fields -/
theorem mint_offsets (v : Val) (hv : wt env Kind.mint.desc v = true) :
    At (encode env Kind.mint.desc v) Mint.inputContractOffset (encS env InputCodec.contract (fieldOf "Mint" "input_contract" v)) ∧
    At (encode env Kind.mint.desc v) (Mint.outputContractOffset v) (encS env (InputCodec.orVoid (Resolve.named "OutputContract")) (fieldOf "Mint" "output_contract" v)) ∧
    At (encode env Kind.mint.desc v) (Mint.mintAmountOffset v) (encS env (.uint 8) (fieldOf "Mint" "mint_amount" v)) ∧
    At (encode env Kind.mint.desc v) (Mint.mintAssetIdOffset v) (encS env InputLaws.dB32 (fieldOf "Mint" "mint_asset_id" v)) ∧
    At (encode env Kind.mint.desc v) (Mint.gasPriceOffset v) (encS env (.uint 8) (fieldOf "Mint" "gas_price" v)) := by
  have := mint_rows_ok
  simp only [Bool.and_eq_true, beq_iff_eq] at this
  obtain ⟨⟨⟨⟨⟨⟨⟨⟨⟨⟨r1, r2⟩, r3⟩, r4⟩, r5⟩, s1⟩, n1⟩, s2⟩, n2⟩, _⟩, _⟩ := this
  obtain ⟨w1, a1⟩ := mint_field _ _ _ r1 v hv
  obtain ⟨w2, a2⟩ := mint_field _ _ _ r2 v hv
  obtain ⟨_, a3⟩ := mint_field _ _ _ r3 v hv
  obtain ⟨_, a4⟩ := mint_field _ _ _ r4 v hv
  obtain ⟨_, a5⟩ := mint_field _ _ _ r5 v hv
  have e1 : Mint.inputContractOffset = 24 := by decide
  have e2 : Mint.outputContractOffset v = 176 := by
    simp [Mint.outputContractOffset, e1, size_const _ _ s1 n1 _ w1]
  have e3 : Mint.mintAmountOffset v = 248 := by
    simp [Mint.mintAmountOffset, e2, size_const _ _ s2 n2 _ w2]
  have e4 : Mint.mintAssetIdOffset v = 256 := by simp [Mint.mintAssetIdOffset, e3]; decide
  have e5 : Mint.gasPriceOffset v = 288 := by simp [Mint.gasPriceOffset, e4]; decide
  rw [e1, e2, e3, e4, e5]
  exact ⟨a1, a2, a3, a4, a5⟩


/-! ### the bodies: `body_offset_end` and the dynamic body fields -/

open InputLaws (dB32 dBytes dCode wt_dBytes wt_dCode wt_uint wt_pair wt_unit)

def dSlot : Desc := .pair dB32 (.pair dB32 .unit)
def scriptBodyLit : Desc := .pre 0 (.pair (.uint 8) (.pair dB32 (.pair dCode (.pair dBytes .unit))))
def createBodyLit : Desc := .pre 1 (.pair (.uint 2) (.pair dB32 (.pair (.vec dSlot) .unit)))
def upgradeBodyLit : Desc := .pre 3 (.pair TxDesc.upgradePurpose .unit)
def uploadBodyLit : Desc := .pre 4 (.pair dB32 (.pair (.uint 2) (.pair (.uint 2) (.pair (.uint 2) (.pair (.vec dB32) .unit)))))
def blobBodyLit : Desc := .pre 5 (.pair dB32 (.pair (.uint 2) .unit))

theorem body_lits : Kind.body .script = scriptBodyLit ∧ Kind.body .create = createBodyLit ∧ Kind.body .upgrade = upgradeBodyLit ∧
    Kind.body .upload = uploadBodyLit ∧ Kind.body .blob = blobBodyLit ∧ TxDesc.storageSlot = dSlot ∧ TxDesc.bytes32 = dB32 := by decide +kernel

theorem body_idx : Resolve.fieldIndex "ScriptBody" "script" = some 2 ∧ Resolve.fieldIndex "ScriptBody" "script_data" = some 3 ∧
    Resolve.fieldIndex "CreateBody" "storage_slots" = some 2 ∧ Resolve.fieldIndex "UploadBody" "proof_set" = some 4 ∧
    Resolve.fieldIndex "UpgradeBody" "purpose" = some 0 := by decide +kernel

/-- the parts of a body the offsets talk about: static size, dynamic part -/
theorem script_body (vb : Val) (h : wt env scriptBodyLit vb = true) :
    ∃ s sd, bytesOf (fieldOf "ScriptBody" "script" vb) = s ∧ bytesOf (fieldOf "ScriptBody" "script_data" vb) = sd ∧
      s.length ≤ VEC_DECODE_LIMIT ∧ sd.length ≤ VEC_DECODE_LIMIT ∧
      sizeS env scriptBodyLit vb = 64 ∧ encD env scriptBodyLit vb = padded s ++ padded sd := by
  have h0 := h
  simp only [scriptBodyLit, wt] at h
  obtain ⟨g, r, rfl, hg, h⟩ := wt_pair h
  obtain ⟨rr, r, rfl, hrr, h⟩ := wt_pair h
  obtain ⟨sc, r, rfl, hsc, h⟩ := wt_pair h
  obtain ⟨sd, r, rfl, hsd, h⟩ := wt_pair h
  have hu := wt_unit h
  subst hu
  obtain ⟨s, rfl, hs⟩ := wt_dCode hsc
  obtain ⟨d, rfl, hd⟩ := wt_dBytes hsd
  refine ⟨s, d, ?_, ?_, hs, hd, ?_, ?_⟩
  · simp [fieldOf, body_idx.1, Val.field, Val.elems, bytesOf]
  · simp [fieldOf, body_idx.2.1, Val.field, Val.elems, bytesOf]
  · exact sizeS0_eq env cs0 cs0_ok_env scriptBodyLit 64 (by decide) _ h0
  · simp only [scriptBodyLit, encD]
    simp only [(sizeD_noDyn env dB32 (by decide) rr).2, (sizeD_noDyn env (.uint 8) (by decide) g).2]
    simp [dCode, dBytes, encD, padded]

theorem slot_size (e : Val) (h : wt env dSlot e = true) : size env dSlot e = 64 := size_const dSlot 64 (by decide) (by decide) e h
theorem b32_size (e : Val) (h : wt env dB32 e = true) : size env dB32 e = 32 := size_const dB32 32 (by decide) (by decide) e h

theorem sum_const (l : List Val) (f : Val → Nat) (c : Nat) (h : ∀ e ∈ l, f e = c) : (l.map f).sum = l.length * c := by
  induction l with
  | nil => simp
  | cons a l ih =>
    simp only [List.map_cons, List.sum_cons, List.length_cons]
    rw [h a (by simp), ih (fun e he => h e (by simp [he])), Nat.succ_mul]; omega

theorem create_body (vb : Val) (h : wt env createBodyLit vb = true) :
    ∃ slots : List Val, (fieldOf "CreateBody" "storage_slots" vb).elems = slots ∧ (∀ e ∈ slots, wt env dSlot e = true) ∧
      slots.length ≤ VEC_DECODE_LIMIT ∧ sizeS env createBodyLit vb = 56 ∧ encD env createBodyLit vb = flat dSlot slots := by
  have h0 := h
  simp only [createBodyLit, wt] at h
  obtain ⟨g, r, rfl, hg, h⟩ := wt_pair h
  obtain ⟨rr, r, rfl, hrr, h⟩ := wt_pair h
  obtain ⟨sl, r, rfl, hsl, h⟩ := wt_pair h
  rw [wt_unit h] at h0 ⊢
  refine ⟨sl.elems, ?_, wt_vec hsl, ?_, ?_, ?_⟩
  · simp [fieldOf, body_idx.2.2.1, Val.field, Val.elems]
  · simp only [wt, Bool.and_eq_true, decide_eq_true_eq] at hsl; exact hsl.2
  · exact sizeS0_eq env cs0 cs0_ok_env createBodyLit 56 (by decide) _ h0
  · simp only [createBodyLit, encD]
    simp only [(sizeD_noDyn env dB32 (by decide) rr).2, (sizeD_noDyn env (.uint 2) (by decide) g).2]
    simp [encD, flat, encode]

theorem upload_body (vb : Val) (h : wt env uploadBodyLit vb = true) :
    ∃ proofs : List Val, (fieldOf "UploadBody" "proof_set" vb).elems = proofs ∧ (∀ e ∈ proofs, wt env dB32 e = true) ∧
      proofs.length ≤ VEC_DECODE_LIMIT ∧ sizeS env uploadBodyLit vb = 72 ∧ encD env uploadBodyLit vb = flat dB32 proofs := by
  have h0 := h
  simp only [uploadBodyLit, wt] at h
  obtain ⟨f0, r, rfl, h0', h⟩ := wt_pair h
  obtain ⟨f1, r, rfl, h1, h⟩ := wt_pair h
  obtain ⟨f2, r, rfl, h2, h⟩ := wt_pair h
  obtain ⟨f3, r, rfl, h3, h⟩ := wt_pair h
  obtain ⟨ps, r, rfl, hps, h⟩ := wt_pair h
  rw [wt_unit h] at h0 ⊢
  refine ⟨ps.elems, ?_, wt_vec hps, ?_, ?_, ?_⟩
  · simp [fieldOf, body_idx.2.2.2.1, Val.field, Val.elems]
  · simp only [wt, Bool.and_eq_true, decide_eq_true_eq] at hps; exact hps.2
  · exact sizeS0_eq env cs0 cs0_ok_env uploadBodyLit 72 (by decide) _ h0
  · simp only [uploadBodyLit, encD]
    simp only [(sizeD_noDyn env dB32 (by decide) f0).2, (sizeD_noDyn env (.uint 2) (by decide) _).2]
    simp [encD, flat, encode]

theorem upgrade_body (vb : Val) (h : wt env upgradeBodyLit vb = true) :
    sizeS env upgradeBodyLit vb + sizeD env upgradeBodyLit vb = 8 + size env TxDesc.upgradePurpose (fieldOf "UpgradeBody" "purpose" vb) := by
  simp only [upgradeBodyLit, wt] at h
  obtain ⟨pv, r, rfl, _, h⟩ := wt_pair h
  rw [wt_unit h]
  simp [upgradeBodyLit, sizeS, sizeD, size, fieldOf, body_idx.2.2.2.2, Val.field, Val.elems]
  omega

theorem blob_body (vb : Val) (h : wt env blobBodyLit vb = true) : sizeS env blobBodyLit vb = 48 ∧ sizeD env blobBodyLit vb = 0 :=
  ⟨sizeS0_eq env cs0 cs0_ok_env blobBodyLit 48 (by decide) vb h, (sizeD_noDyn env blobBodyLit (by decide) vb).1⟩

/-- **`body_offset_end`** of every chargeable kind is the size of the static part of the transaction plus the
dynamic part of the body — where the policy values start -/
theorem body_offset_end_eq (k : Kind) (hk : k.chargeable = true) (v : Val) (hv : wt env (chargeable k.body) v = true) :
    let t : Tx := { kind := k, val := v, metadata := none }
    t.bodyOffsetEnd = sizeS env k.body t.body + 32 + sizeD env k.body t.body := by
  intro t
  obtain ⟨hb, _⟩ := chargeable_layout k.body k v hv (kind_desc k hk).2.1
  obtain ⟨l0, l1, l2, l3, l4, _, _⟩ := body_lits
  cases k
  · -- script
    rw [l0] at hb ⊢
    obtain ⟨s, sd, e1, e2, b1, b2, hs, hd⟩ := script_body _ hb
    have hd' := ((enc_length_aux env envLaws scriptBodyLit).1 (by decide) _ hb).2
    rw [hd] at hd'
    simp only [Tx.bodyOffsetEnd, Tx.scriptDataOffset, t, satAdd] at *
    rw [e1, e2, paddedLen_eq _ b1, paddedLen_eq _ b2, hs, ← hd']
    have c : Gen.Offsets.Script.script_offset_static = 96 := by decide
    rw [c, List.length_append]; omega
  · -- create
    rw [l1] at hb ⊢
    obtain ⟨slots, e1, hw, _, hs, hd⟩ := create_body _ hb
    have hd' := ((enc_length_aux env envLaws createBodyLit).1 (by decide) _ hb).2
    rw [hd, flat_length dSlot (by decide) slots hw, sum_const slots _ 64 (fun e he => slot_size e (hw e he))] at hd'
    simp only [Tx.bodyOffsetEnd, Tx.storageSlots, t, satAdd, satMul] at *
    rw [e1, hs, ← hd']
    have c : Gen.Offsets.Create.storage_slots_offset_static = 88 ∧ Gen.Offsets.StorageSlot_SLOT_SIZE = 64 := by decide
    rw [c.1, c.2]
  · simp [Kind.chargeable] at hk
  · -- upgrade
    rw [l2] at hb ⊢
    have := upgrade_body _ hb
    simp only [Tx.bodyOffsetEnd, t, satAdd] at *
    have c : Gen.Offsets.Upgrade.upgrade_purpose_offset_static = 8 ∧ Gen.Offsets.WORD_SIZE = 8 := by decide
    rw [c.1, c.2]; omega
  · -- upload
    rw [l3] at hb ⊢
    obtain ⟨proofs, e1, hw, _, hs, hd⟩ := upload_body _ hb
    have hd' := ((enc_length_aux env envLaws uploadBodyLit).1 (by decide) _ hb).2
    rw [hd, flat_length dB32 (by decide) proofs hw, sum_const proofs _ 32 (fun e he => b32_size e (hw e he))] at hd'
    simp only [Tx.bodyOffsetEnd, Tx.proofSet, t, satAdd, satMul] at *
    rw [e1, hs, ← hd']
    have c : Gen.Offsets.Upload.proof_set_offset_static = 104 ∧ Gen.Offsets.Bytes32_LEN = 32 := by decide
    rw [c.1, c.2]
  · -- blob
    rw [l4] at hb ⊢
    obtain ⟨hs, hd⟩ := blob_body _ hb
    simp only [Tx.bodyOffsetEnd, t]
    rw [hs, hd]; decide


/-- **Script**: `script_offset` holds the padded script, `script_data_offset` the padded script data -/
theorem script_offsets (v : Val) (hv : wt env (chargeable scriptBodyLit) v = true) :
    let t : Tx := { kind := .script, val := v, metadata := none }
    At (encode env (chargeable scriptBodyLit) v) Gen.Offsets.Script.script_offset_static (padded (bytesOf (fieldOf "ScriptBody" "script" t.body))) ∧
    At (encode env (chargeable scriptBodyLit) v) t.scriptDataOffset (padded (bytesOf (fieldOf "ScriptBody" "script_data" t.body))) := by
  intro t
  obtain ⟨hb, _, _, _, _, S, hS, henc⟩ := chargeable_layout scriptBodyLit .script v hv (by decide)
  obtain ⟨s, sd, e1, e2, b1, _, hs, hd⟩ := script_body _ hb
  have c : Gen.Offsets.Script.script_offset_static = S.length := by rw [hS, hs]; decide
  rw [henc, hd]
  simp only [Tx.scriptDataOffset, t, satAdd] at *
  rw [e1, e2, paddedLen_eq _ b1, c]
  refine ⟨?_, ?_⟩
  · simpa using At.append_right _ (At.append_right _ (At.append_right _ (At.append_right _ (At.append_right _ (At.suffix S (padded s))))))
  · rw [← List.length_append]
    simpa using At.append_right _ (At.append_right _ (At.append_right _ (At.append_right _ (At.suffix (S ++ padded s) (padded sd)))))

theorem limit_mul : VEC_DECODE_LIMIT * 64 + 104 ≤ USIZE_MAX := by decide

/-- **Create**: `storage_slots_offset_at(i)` is `None` exactly past the end, else the slot's encoding is there -/
theorem create_slot_offsets (v : Val) (hv : wt env (chargeable createBodyLit) v = true) :
    let t : Tx := { kind := .create, val := v, metadata := none }
    (∀ i, t.storageSlotsOffsetAt i = none ↔ t.storageSlots.length ≤ i) ∧
    ∀ i o x, t.storageSlotsOffsetAt i = some o → t.storageSlots[i]? = some x → At (encode env (chargeable createBodyLit) v) o (encode env dSlot x) := by
  intro t
  obtain ⟨hb, _, _, _, _, S, hS, henc⟩ := chargeable_layout createBodyLit .create v hv (by decide)
  obtain ⟨slots, e1, hw, hlim, hs, hd⟩ := create_body _ hb
  have c : Gen.Offsets.Create.storage_slots_offset_static = S.length ∧ Gen.Offsets.StorageSlot_SLOT_SIZE = 64 := by rw [hS, hs]; decide
  have hS' : S.length = 88 := by rw [hS, hs]
  have hmul := limit_mul
  have key : ∀ i, t.storageSlotsOffsetAt i = if i < slots.length then some (S.length + i * 64) else none := by
    intro i
    simp only [Tx.storageSlotsOffsetAt, Tx.storageSlots, t, e1, c.1, c.2, checkedMul, checkedAdd]
    split
    · rename_i hi
      have h1 : i * 64 ≤ USIZE_MAX := by have : i * 64 ≤ VEC_DECODE_LIMIT * 64 := Nat.mul_le_mul_right _ (by omega); omega
      have h2 : S.length + i * 64 ≤ USIZE_MAX := by have : i * 64 ≤ VEC_DECODE_LIMIT * 64 := Nat.mul_le_mul_right _ (by omega); omega
      simp [h1, h2]
    · rfl
  refine ⟨?_, ?_⟩
  · intro i; rw [key]; simp only [Tx.storageSlots, t, e1]; split <;> simp <;> omega
  · intro i o x ho hx
    simp only [Tx.storageSlots, t, e1] at hx
    rw [key] at ho
    split at ho
    · cases ho
      have h1 := flat_at dSlot (by decide) slots hw i x hx
      rw [sum_const (slots.take i) _ 64 (fun e he => slot_size e (hw e (List.mem_of_mem_take he))), List.length_take, Nat.min_eq_left (by omega)] at h1
      rw [henc, hd]
      simpa using At.append_right _ (At.append_right _ (At.append_right _ (At.append_right _ (At.append_left S h1))))
    · cases ho

/-- **Upload**: `proof_set_offset_at(i)` is `None` exactly past the end, else the proof entry is there -/
theorem upload_proof_offsets (v : Val) (hv : wt env (chargeable uploadBodyLit) v = true) :
    let t : Tx := { kind := .upload, val := v, metadata := none }
    (∀ i, t.proofSetOffsetAt i = none ↔ t.proofSet.length ≤ i) ∧
    ∀ i o x, t.proofSetOffsetAt i = some o → t.proofSet[i]? = some x → At (encode env (chargeable uploadBodyLit) v) o (encode env dB32 x) := by
  intro t
  obtain ⟨hb, _, _, _, _, S, hS, henc⟩ := chargeable_layout uploadBodyLit .upload v hv (by decide)
  obtain ⟨proofs, e1, hw, hlim, hs, hd⟩ := upload_body _ hb
  have c : Gen.Offsets.Upload.proof_set_offset_static = S.length ∧ Gen.Offsets.Bytes32_LEN = 32 := by rw [hS, hs]; decide
  have hS' : S.length = 104 := by rw [hS, hs]
  have hmul := limit_mul
  have key : ∀ i, t.proofSetOffsetAt i = if i < proofs.length then some (S.length + i * 32) else none := by
    intro i
    simp only [Tx.proofSetOffsetAt, Tx.proofSet, t, e1, c.1, c.2, checkedMul, checkedAdd]
    split
    · rename_i hi
      have h1 : i * 32 ≤ USIZE_MAX := by have : i * 32 ≤ VEC_DECODE_LIMIT * 32 := Nat.mul_le_mul_right _ (by omega); omega
      have h2 : S.length + i * 32 ≤ USIZE_MAX := by have : i * 32 ≤ VEC_DECODE_LIMIT * 32 := Nat.mul_le_mul_right _ (by omega); omega
      simp [h1, h2]
    · rfl
  refine ⟨?_, ?_⟩
  · intro i; rw [key]; simp only [Tx.proofSet, t, e1]; split <;> simp <;> omega
  · intro i o x ho hx
    simp only [Tx.proofSet, t, e1] at hx
    rw [key] at ho
    split at ho
    · cases ho
      have h1 := flat_at dB32 (by decide) proofs hw i x hx
      rw [sum_const (proofs.take i) _ 32 (fun e he => b32_size e (hw e (List.mem_of_mem_take he))), List.length_take, Nat.min_eq_left (by omega)] at h1
      rw [henc, hd]
      simpa using At.append_right _ (At.append_right _ (At.append_right _ (At.append_right _ (At.append_left S h1))))
    · cases ho

/-- **every chargeable kind**: policies / inputs / outputs / witnesses offsets (see `ChargeableOffsets`) -/
theorem chargeable_offsets (k : Kind) (hk : k.chargeable = true) (v : Val) (hv : wt env k.desc v = true) :
    ChargeableOffsets { kind := k, val := v, metadata := none } (encode env k.desc v) := by
  obtain ⟨hd, hb, _⟩ := kind_desc k hk
  rw [hd] at hv ⊢
  exact chargeable_offsets_aux k.body k v hv hb _ rfl (body_offset_end_eq k hk v hv)

end FuelVerif.Offsets
