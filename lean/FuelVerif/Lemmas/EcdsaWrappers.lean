/-
From the library-level algebra to the byte-level wrappers: what a successful `secpSign` / `r1Sign`
returns, and how `secpRecover` / `secpVerify` / `r1Recover` read it back.
-/
import FuelVerif.Lemmas.EcdsaSign
import FuelVerif.Lemmas.SigFormat
namespace FuelVerif.Ecdsa
open FuelVerif

variable {E : Curve} [AddCommGroup E.Pt] [Module (ZMod E.n) E.Pt]

/-- the three components of a produced signature -/
structure Signed (E : Curve) (d k : Nat) (msg sig : Bytes) : Prop where
  /-- `r` = x-coordinate of `k·G`, below `n`, non-zero -/
  hx : (E.toXY (E.mulG k)).1 < E.n
  hr0 : (E.toXY (E.mulG k)).1 ≠ 0
  /-- the unnormalised `s` is non-zero -/
  hs0 : sVal E.n d k (msgScalar E.n msg) (E.toXY (E.mulG k)).1 ≠ 0
  /-- the bytes are `encode_signature(r ‖ sNorm s, parity ⊕ high)` -/
  henc : encodeSignature
      (compact (E.toXY (E.mulG k)).1 (sNorm E.n (sVal E.n d k (msgScalar E.n msg) (E.toXY (E.mulG k)).1)))
      (yOdd E (E.mulG k) ^^ isHigh E.n (sVal E.n d k (msgScalar E.n msg) (E.toXY (E.mulG k)).1)) = .ok sig

namespace CurveLaws
variable (L : CurveLaws E)
include L

omit [AddCommGroup E.Pt] [Module (ZMod E.n) E.Pt] L in
/-- when the x-coordinate of `k·G` is not below `n`, libsecp256k1 reports a recovery id ≥ 2 -/
theorem scSigSign_overflow (d k z : Nat) (hx : E.n ≤ (E.toXY (E.mulG k)).1) :
    ∀ r s recid, scSigSign E d k z = some (r, s, recid) → recid ≠ 0 ∧ recid ≠ 1 := by
  intro r s recid h
  unfold scSigSign at h
  simp only [hx, decide_true, if_true] at h
  generalize invN E.n k * (((E.toXY (E.mulG k)).1 % E.n * d % E.n + z) % E.n) % E.n = s0 at h
  cases hy : yOdd E (E.mulG k) <;> cases hh : isHigh E.n s0 <;>
    simp only [hy, hh, if_true, if_false, Bool.false_eq_true] at h <;>
    (split at h
     · exact absurd h (by simp)
     · have := Option.some.inj h
       simp only [Prod.mk.injEq] at this
       obtain ⟨_, _, rfl⟩ := this
       decide)

/-- libsecp256k1 only returns low `s` -/
theorem scSigSign_s_low (d k z : Nat) :
    ∀ r s recid, scSigSign E d k z = some (r, s, recid) → s ≤ E.n / 2 := by
  intro r s recid h
  unfold scSigSign at h
  simp only at h
  generalize hs0 : invN E.n k * (((E.toXY (E.mulG k)).1 % E.n * d % E.n + z) % E.n) % E.n = s0 at h
  have hlt : s0 < E.n := by rw [← hs0]; exact Nat.mod_lt _ L.n_pos
  cases hh : isHigh E.n s0
  · simp only [hh, if_false, Bool.false_eq_true] at h
    split at h
    · exact absurd h (by simp)
    · have := Option.some.inj h
      simp only [Prod.mk.injEq] at this
      obtain ⟨_, rfl, _⟩ := this
      unfold isHigh at hh; simpa using hh
  · simp only [hh, if_true] at h
    split at h
    · exact absurd h (by simp)
    · have := Option.some.inj h
      simp only [Prod.mk.injEq] at this
      obtain ⟨_, rfl, _⟩ := this
      have := negN_not_high L.n_odd hlt hh
      unfold isHigh at this; simpa using this

omit [AddCommGroup E.Pt] [Module (ZMod E.n) E.Pt] L in
/-- a successful `secp256k1::sign` is `encode_signature(r ‖ sNorm s, parity ⊕ high)` with `r = x(k·G) < n` -/
theorem secpSign_ok (d k : Nat) (msg sig : Bytes) (hk0 : k ≠ 0)
    (h : secpSign E d k msg = .ok sig) : Signed E d k msg sig := by
  unfold secpSign at h
  rw [if_neg hk0] at h
  by_cases hx : (E.toXY (E.mulG k)).1 < E.n
  · rw [CurveLaws.scSigSign_eq d k _ hx] at h
    by_cases hc : (E.toXY (E.mulG k)).1 = 0 ∨
        sNorm E.n (sVal E.n d k (msgScalar E.n msg) (E.toXY (E.mulG k)).1) = 0
    · rw [if_pos hc] at h; exact absurd h (by simp)
    · rw [if_neg hc] at h
      have hr0 : (E.toXY (E.mulG k)).1 ≠ 0 := fun e => hc (Or.inl e)
      have hs0 : sVal E.n d k (msgScalar E.n msg) (E.toXY (E.mulG k)).1 ≠ 0 := by
        intro e
        apply hc; right
        rw [e]; unfold sNorm isHigh; simp
      refine ⟨hx, hr0, hs0, ?_⟩
      cases hv : (yOdd E (E.mulG k) ^^ isHigh E.n (sVal E.n d k (msgScalar E.n msg) (E.toXY (E.mulG k)).1))
      · simp only [hv] at h; simpa using h
      · simp only [hv] at h; simpa using h
  · exfalso
    have hx' : E.n ≤ (E.toXY (E.mulG k)).1 := Nat.le_of_not_lt hx
    cases hs : scSigSign E d k (msgScalar E.n msg) with
    | none => rw [hs] at h; exact absurd h (by simp)
    | some t =>
      obtain ⟨r, s, recid⟩ := t
      rw [hs] at h
      obtain ⟨h0, h1⟩ := CurveLaws.scSigSign_overflow d k _ hx' r s recid hs
      simp only [if_neg h0, if_neg h1] at h
      exact absurd h (by simp)

/-- decoding a produced signature gives back `r ‖ sNorm s` and the parity bit; both scalars parse -/
theorem signed_decode {d k : Nat} {msg sig : Bytes} (hn : E.n ≤ 2 ^ 256) (S : Signed E d k msg sig) :
    decodeSignature sig =
      (compact (E.toXY (E.mulG k)).1 (sNorm E.n (sVal E.n d k (msgScalar E.n msg) (E.toXY (E.mulG k)).1)),
       yOdd E (E.mulG k) ^^ isHigh E.n (sVal E.n d k (msgScalar E.n msg) (E.toXY (E.mulG k)).1)) ∧
    sigR (compact (E.toXY (E.mulG k)).1 (sNorm E.n (sVal E.n d k (msgScalar E.n msg) (E.toXY (E.mulG k)).1)))
      = (E.toXY (E.mulG k)).1 ∧
    sigS (compact (E.toXY (E.mulG k)).1 (sNorm E.n (sVal E.n d k (msgScalar E.n msg) (E.toXY (E.mulG k)).1)))
      = sNorm E.n (sVal E.n d k (msgScalar E.n msg) (E.toXY (E.mulG k)).1) := by
  refine ⟨decode_encode _ _ _ (by rw [compact_length]; decide) S.henc, ?_, ?_⟩
  · rw [sigR_compact, Nat.mod_eq_of_lt (Nat.lt_of_lt_of_le S.hx hn)]
  · rw [sigS_compact, Nat.mod_eq_of_lt (Nat.lt_of_lt_of_le (sNorm_lt (L.sVal_lt _ _ _ _)) hn)]

/-- **recover ∘ sign** for the std-backend wrappers -/
theorem secpRecover_signed {d k : Nat} {msg sig : Bytes} (hk0 : k ≠ 0) (hk : k < E.n) (hd0 : d ≠ 0) (hd : d < E.n)
    (hn : E.n ≤ 2 ^ 256) (S : Signed E d k msg sig) : secpRecover E sig msg = .ok (publicKey E d) := by
  obtain ⟨hdec, hR, hS⟩ := L.signed_decode hn S
  unfold secpRecover scParse
  rw [hdec]
  simp only [hR, hS]
  rw [if_pos ⟨S.hx, sNorm_lt (L.sVal_lt _ _ _ _)⟩]
  simp only [L.scSigRecover_sign_norm d k _ hk0 hk hd0 hd S.hx S.hr0 S.hs0]
  rfl

/-- a recovered key is never the identity -/
theorem scSigRecover_ne_zero (z r s : Nat) (v : Bool) (Q : E.Pt) (h : scSigRecover E z r s v = some Q) : Q ≠ 0 := by
  unfold scSigRecover at h
  split at h
  · exact absurd h (by simp)
  · split at h
    · exact absurd h (by simp)
    · simp only at h
      split at h
      · exact absurd h (by simp)
      · rename_i hz
        have := Option.some.inj h
        subst this
        exact L.isZero_false.mp (by simpa using hz)

/-- two points with the same 64-byte encoding are equal -/
theorem pubBytes_injective (hp : E.p ≤ 2 ^ 256) {P Q : E.Pt} (hP : P ≠ 0) (hQ : Q ≠ 0)
    (h : pubBytes E P = pubBytes E Q) : P = Q := by
  have hx : (E.toXY P).1 = (E.toXY Q).1 := by
    have := congrArg sigR h
    unfold pubBytes at this
    rw [show natBE 32 (E.toXY P).1 ++ natBE 32 (E.toXY P).2 = compact (E.toXY P).1 (E.toXY P).2 from rfl,
        show natBE 32 (E.toXY Q).1 ++ natBE 32 (E.toXY Q).2 = compact (E.toXY Q).1 (E.toXY Q).2 from rfl,
        sigR_compact, sigR_compact,
        Nat.mod_eq_of_lt (Nat.lt_of_lt_of_le (L.toXY_lt P hP).1 hp),
        Nat.mod_eq_of_lt (Nat.lt_of_lt_of_le (L.toXY_lt Q hQ).1 hp)] at this
    exact this
  have hy : (E.toXY P).2 = (E.toXY Q).2 := by
    have := congrArg sigS h
    unfold pubBytes at this
    rw [show natBE 32 (E.toXY P).1 ++ natBE 32 (E.toXY P).2 = compact (E.toXY P).1 (E.toXY P).2 from rfl,
        show natBE 32 (E.toXY Q).1 ++ natBE 32 (E.toXY Q).2 = compact (E.toXY Q).1 (E.toXY Q).2 from rfl,
        sigS_compact, sigS_compact,
        Nat.mod_eq_of_lt (Nat.lt_of_lt_of_le (L.toXY_lt P hP).2 hp),
        Nat.mod_eq_of_lt (Nat.lt_of_lt_of_le (L.toXY_lt Q hQ).2 hp)] at this
    exact this
  have h1 := L.ofXY_toXY P hP
  have h2 := L.ofXY_toXY Q hQ
  rw [hx, hy, h2] at h1
  exact (Option.some.inj h1).symm

/-- **no other digest recovers the signer's key** -/
theorem secpRecover_other_digest {d k : Nat} {msg msg' sig : Bytes} (hk0 : k ≠ 0) (hk : k < E.n)
    (hd0 : d ≠ 0) (hd : d < E.n) (hn : E.n ≤ 2 ^ 256) (hp : E.p ≤ 2 ^ 256) (S : Signed E d k msg sig)
    (hz : msgScalar E.n msg' ≠ msgScalar E.n msg) : secpRecover E sig msg' ≠ .ok (publicKey E d) := by
  obtain ⟨hdec, hR, hS⟩ := L.signed_decode hn S
  have hgood := L.scSigRecover_sign_norm d k _ hk0 hk hd0 hd S.hx S.hr0 S.hs0
  have hs'0 := sNorm_ne_zero S.hs0 (L.sVal_lt d k (msgScalar E.n msg) (E.toXY (E.mulG k)).1)
  have hbad := L.scSigRecover_other_digest _ (msgScalar E.n msg') _ _ _ _ S.hr0 S.hx hs'0
    (by unfold msgScalar; rw [Nat.mod_mod, Nat.mod_mod]; exact hz) hgood
  unfold secpRecover scParse
  rw [hdec]
  simp only [hR, hS]
  rw [if_pos ⟨S.hx, sNorm_lt (L.sVal_lt _ _ _ _)⟩]
  simp only
  cases hrec : scSigRecover E (msgScalar E.n msg') (E.toXY (E.mulG k)).1
      (sNorm E.n (sVal E.n d k (msgScalar E.n msg) (E.toXY (E.mulG k)).1))
      (yOdd E (E.mulG k) ^^ isHigh E.n (sVal E.n d k (msgScalar E.n msg) (E.toXY (E.mulG k)).1)) with
  | none => simp
  | some Q =>
    simp only
    intro h
    have hQ0 : Q ≠ 0 := L.scSigRecover_ne_zero _ _ _ _ _ hrec
    have : Q = E.mulG d :=
      L.pubBytes_injective hp hQ0 (L.mulG_ne_zero d hd0 hd) (Except.ok.inj h)
    rw [this] at hrec
    exact hbad hrec

/-- a key that `scSigRecover` returns satisfies the verification equation of both libraries -/
theorem scVerify_of_recovered (z r s : Nat) (v : Bool) (Q : E.Pt)
    (hr0 : r ≠ 0) (hr : r < E.n) (hs0 : s ≠ 0) (hs : s < E.n) (hlow : isHigh E.n s = false)
    (h : scSigRecover E z r s v = some Q) : scVerify E Q z r s = true := by
  rw [← L.rcVerify_eq_scVerify Q z r s hr0 hr hs0]
  unfold rcVerify
  rw [hlow]
  simp only [Bool.and_false, Bool.false_eq_true, if_false]
  rw [L.scSigRecover_eq z r s v hr0 hr hs0] at h
  cases hl : E.liftX r v with
  | none => rw [hl] at h; exact absurd h (by simp)
  | some R =>
    rw [hl] at h
    simp only at h
    split at h
    · exact absurd h (by simp)
    · have := Option.some.inj h
      rw [← this]
      exact L.rcVerifyPrehashed_recovered z r s v R hl hr0 hr hs0 hs

/-- the 64-byte public key parses back to the point -/
theorem ofXY_pubBytes (hp : E.p ≤ 2 ^ 256) {P : E.Pt} (hP : P ≠ 0) :
    E.ofXY (beNat ((pubBytes E P).take 32)) (beNat (((pubBytes E P).drop 32).take 32)) = some P := by
  have h1 : beNat ((pubBytes E P).take 32) = (E.toXY P).1 := by
    have := sigR_compact (E.toXY P).1 (E.toXY P).2
    rw [Nat.mod_eq_of_lt (Nat.lt_of_lt_of_le (L.toXY_lt P hP).1 hp)] at this
    exact this
  have h2 : beNat (((pubBytes E P).drop 32).take 32) = (E.toXY P).2 := by
    have := sigS_compact (E.toXY P).1 (E.toXY P).2
    rw [Nat.mod_eq_of_lt (Nat.lt_of_lt_of_le (L.toXY_lt P hP).2 hp)] at this
    exact this
  rw [h1, h2]
  exact L.ofXY_toXY P hP

/-- **verify ∘ sign** for the std-backend wrappers -/
theorem secpVerify_signed {d k : Nat} {msg sig : Bytes} (hk0 : k ≠ 0) (hk : k < E.n) (hd0 : d ≠ 0) (hd : d < E.n)
    (hn : E.n ≤ 2 ^ 256) (hp : E.p ≤ 2 ^ 256) (S : Signed E d k msg sig) :
    secpVerify E sig (publicKey E d) msg = .ok () := by
  obtain ⟨hdec, hR, hS⟩ := L.signed_decode hn S
  have hgood := L.scSigRecover_sign_norm d k _ hk0 hk hd0 hd S.hx S.hr0 S.hs0
  have hs'0 := sNorm_ne_zero S.hs0 (L.sVal_lt d k (msgScalar E.n msg) (E.toXY (E.mulG k)).1)
  have hs'lt := sNorm_lt (L.sVal_lt d k (msgScalar E.n msg) (E.toXY (E.mulG k)).1)
  have hlow := sNorm_low L.n_odd (L.sVal_lt d k (msgScalar E.n msg) (E.toXY (E.mulG k)).1)
  have hv := L.scVerify_of_recovered _ _ _ _ _ S.hr0 S.hx hs'0 hs'lt hlow hgood
  unfold secpVerify scParse
  rw [hdec]
  simp only [hR, hS]
  rw [if_pos ⟨S.hx, hs'lt⟩]
  simp only
  unfold publicKey
  rw [L.ofXY_pubBytes hp (L.mulG_ne_zero d hd0 hd)]
  simp only [hv, if_true]

/-- a successful `p256::sign_prehashed` has the same three components (x-coordinate of `k·G` below `n`) -/
theorem r1Sign_ok (d k : Nat) (msg sig : Bytes) (hk0 : k ≠ 0) (hk : k < E.n) (hd0 : d ≠ 0) (hd : d < E.n)
    (hx : (E.toXY (E.mulG k)).1 < E.n) (h : r1Sign E d k msg = .ok sig) : Signed E d k msg sig := by
  unfold r1Sign at h
  simp only at h
  rw [L.rcSignPrehashed_eq d k _ hk0 hk hx] at h
  by_cases hc : (E.toXY (E.mulG k)).1 = 0 ∨ sVal E.n d k (msgScalar E.n msg) (E.toXY (E.mulG k)).1 = 0
  · rw [if_pos hc] at h; exact absurd h (by simp)
  · rw [if_neg hc] at h
    have hr0 : (E.toXY (E.mulG k)).1 ≠ 0 := fun e => hc (Or.inl e)
    have hs0 : sVal E.n d k (msgScalar E.n msg) (E.toXY (E.mulG k)).1 ≠ 0 := fun e => hc (Or.inr e)
    have hn : (normalizeS E (sVal E.n d k (msgScalar E.n msg) (E.toXY (E.mulG k)).1)).getD
        (sVal E.n d k (msgScalar E.n msg) (E.toXY (E.mulG k)).1)
          = sNorm E.n (sVal E.n d k (msgScalar E.n msg) (E.toXY (E.mulG k)).1) := by
      unfold normalizeS sNorm; split <;> rfl
    simp only [hn, L.findRecid_sign false d k _ hk0 hk hd0 hd hx hr0 hs0] at h
    exact ⟨hx, hr0, hs0, h⟩

/-- **recover ∘ sign** for secp256r1 -/
theorem r1Recover_signed {d k : Nat} {msg sig : Bytes} (hk0 : k ≠ 0) (hk : k < E.n) (hd0 : d ≠ 0) (hd : d < E.n)
    (hn : E.n ≤ 2 ^ 256) (S : Signed E d k msg sig) : r1Recover E sig msg = .ok (publicKey E d) := by
  obtain ⟨hdec, hR, hS⟩ := L.signed_decode hn S
  have hs'0 := sNorm_ne_zero S.hs0 (L.sVal_lt d k (msgScalar E.n msg) (E.toXY (E.mulG k)).1)
  have hs'lt := sNorm_lt (L.sVal_lt d k (msgScalar E.n msg) (E.toXY (E.mulG k)).1)
  unfold r1Recover rcParse
  rw [hdec]
  simp only [hR, hS]
  rw [if_pos ⟨S.hx, hs'lt⟩, if_neg (by simp [S.hr0, hs'0])]
  simp only [L.rcRecover_eq false _ _ _ _ S.hr0 S.hx hs'0 hs'lt, Bool.false_and, Bool.false_eq_true, if_false,
    L.scSigRecover_sign_norm d k _ hk0 hk hd0 hd S.hx S.hr0 S.hs0]
  rfl

/-- `hazmat::sign_prehashed` in closed form, without assuming that the x-coordinate of `k·G` is below `n` -/
theorem rcSignPrehashed_eq' (d k z : Nat) (hk0 : k ≠ 0) (hk : k < E.n) :
    rcSignPrehashed E d k z =
      if (E.toXY (E.mulG k)).1 % E.n = 0 ∨ sVal E.n d k z ((E.toXY (E.mulG k)).1 % E.n) = 0 then none
      else some ((E.toXY (E.mulG k)).1 % E.n, sVal E.n d k z ((E.toXY (E.mulG k)).1 % E.n), yOdd E (E.mulG k),
        decide ((E.toXY (E.mulG k)).1 % E.n ≠ (E.toXY (E.mulG k)).1)) := by
  have hz : E.isZero (E.mulG k) = false := L.isZero_false.mpr (L.mulG_ne_zero k hk0 hk)
  unfold rcSignPrehashed
  simp only [if_neg hk0, affX, hz, Bool.false_eq_true, if_false]
  rfl

/-- when the x-coordinate of `R = k·G` is not below `n`, no recovery id with `x = r` recovers the signer's key:
the trial recovery of the RustCrypto wrappers ends in `unreachable!("Invalid signature generated")` -/
theorem recover_reduced_ne (lowS : Bool) (d k z : Nat) (v : Bool) (hk0 : k ≠ 0) (hk : k < E.n)
    (hx : E.n ≤ (E.toXY (E.mulG k)).1) (hr0 : (E.toXY (E.mulG k)).1 % E.n ≠ 0)
    (hs0 : sVal E.n d k z ((E.toXY (E.mulG k)).1 % E.n) ≠ 0) :
    rcRecover E lowS z ((E.toXY (E.mulG k)).1 % E.n) (sNorm E.n (sVal E.n d k z ((E.toXY (E.mulG k)).1 % E.n))) v
      ≠ some (E.mulG d) := by
  have := L.fact_prime
  have : NeZero E.n := ⟨L.n_pos.ne'⟩
  set r := (E.toXY (E.mulG k)).1 % E.n with hr
  have hrlt : r < E.n := Nat.mod_lt _ L.n_pos
  have hs'0 := sNorm_ne_zero hs0 (L.sVal_lt d k z r)
  have hs'lt := sNorm_lt (L.sVal_lt d k z r)
  have hlow := sNorm_low L.n_odd (L.sVal_lt d k z r)
  have hrz : (r : ZMod E.n) ≠ 0 := cast_ne_zero_of_lt hr0 hrlt
  have hkz : (k : ZMod E.n) ≠ 0 := cast_ne_zero_of_lt hk0 hk
  have hsz : ((sVal E.n d k z r : Nat) : ZMod E.n) ≠ 0 := cast_ne_zero_of_lt hs0 (L.sVal_lt d k z r)
  rw [L.rcRecover_eq lowS _ _ _ _ hr0 hrlt hs'0 hs'lt, hlow]
  simp only [Bool.and_false, Bool.false_eq_true, if_false]
  rw [L.scSigRecover_eq _ _ _ _ hr0 hrlt hs'0]
  cases hl : E.liftX r v with
  | none => simp
  | some R'' =>
    simp only
    obtain ⟨hR0, hxR, _⟩ := L.lift_some _ _ _ hl
    split
    · simp
    · intro h
      have e : recPt E z r (sNorm E.n (sVal E.n d k z r)) R'' = E.mulG d := Option.some.inj h
      -- s'•R'' = (z + r d)•g = s•R
      have e1 : ((sNorm E.n (sVal E.n d k z r) : Nat) : ZMod E.n) • R'' =
          ((sVal E.n d k z r : Nat) : ZMod E.n) • E.mulG k := by
        unfold recPt at e
        have e' := congrArg (fun P => (r : ZMod E.n) • P) e
        simp only [smul_smul, mul_inv_cancel₀ hrz, one_smul] at e'
        rw [L.mulG_eq d, smul_smul] at e'
        rw [L.sVal_cast d k z r hk0 hk, L.mulG_eq k, smul_smul]
        have : (k : ZMod E.n)⁻¹ * ((z : ZMod E.n) + (r : ZMod E.n) * d) * k = (z : ZMod E.n) + (r : ZMod E.n) * d := by
          field_simp
        rw [this, add_smul, ← e']
        abel
      -- hence R'' = ± R, so it has the same x-coordinate
      have hxx : (E.toXY R'').1 = (E.toXY (E.mulG k)).1 := by
        have hRk : E.mulG k ≠ 0 := L.mulG_ne_zero k hk0 hk
        unfold sNorm at e1
        split at e1
        · rw [negN_cast, neg_smul, ← smul_neg] at e1
          have h2 : -R'' = E.mulG k := by
            have := congrArg (fun P => (((sVal E.n d k z r : Nat) : ZMod E.n))⁻¹ • P) e1
            simpa only [smul_smul, inv_mul_cancel₀ hsz, one_smul] using this
          have : R'' = -(E.mulG k) := by rw [← h2, neg_neg]
          rw [this, (L.neg_xy _ hRk).1]
        · have : R'' = E.mulG k := by
            have := congrArg (fun P => (((sVal E.n d k z r : Nat) : ZMod E.n))⁻¹ • P) e1
            simpa only [smul_smul, inv_mul_cancel₀ hsz, one_smul] using this
          rw [this]
      rw [hxR] at hxx
      have := Nat.mod_lt (E.toXY (E.mulG k)).1 L.n_pos
      omega
/-- in the reduced-x case `k256::sign` panics (`SignFailed` or `unreachable!("Invalid signature generated")`) -/
theorem k256Sign_reduced (d k : Nat) (msg : Bytes) (hk0 : k ≠ 0) (hk : k < E.n)
    (hx : E.n ≤ (E.toXY (E.mulG k)).1) : ∃ e, k256Sign E d k msg = .error e := by
  unfold k256Sign k256SignPrim
  simp only
  generalize msgScalar E.n msg = z
  rw [L.rcSignPrehashed_eq' d k z hk0 hk]
  by_cases hc : (E.toXY (E.mulG k)).1 % E.n = 0 ∨ sVal E.n d k z ((E.toXY (E.mulG k)).1 % E.n) = 0
  · rw [if_pos hc]; exact ⟨_, rfl⟩
  · rw [if_neg hc]
    have hr0 : (E.toXY (E.mulG k)).1 % E.n ≠ 0 := fun e => hc (Or.inl e)
    have hs0 : sVal E.n d k z ((E.toXY (E.mulG k)).1 % E.n) ≠ 0 := fun e => hc (Or.inr e)
    have hn : (normalizeS E (sVal E.n d k z ((E.toXY (E.mulG k)).1 % E.n))).getD
        (sVal E.n d k z ((E.toXY (E.mulG k)).1 % E.n))
          = sNorm E.n (sVal E.n d k z ((E.toXY (E.mulG k)).1 % E.n)) := by
      unfold normalizeS sNorm; split <;> rfl
    have h1 := L.recover_reduced_ne true d k z false hk0 hk hx hr0 hs0
    have h2 := L.recover_reduced_ne true d k z true hk0 hk hx hr0 hs0
    simp only [hn]
    have hf : findRecid E true (E.mulG d) z ((E.toXY (E.mulG k)).1 % E.n)
        (sNorm E.n (sVal E.n d k z ((E.toXY (E.mulG k)).1 % E.n))) = .error .InvalidSignatureGenerated := by
      unfold findRecid
      simp [h1, h2]
    rw [hf]
    exact ⟨_, rfl⟩

end CurveLaws
end FuelVerif.Ecdsa
