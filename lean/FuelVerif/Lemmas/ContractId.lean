/-
Helper lemmas for C15: `chunks` / `leafToPush` / `pushChunks` of `Model/ContractId.lean` against the
statement's leaf list `specLeavesWith`, and the association-list facts used by the deploy theorems.
-/
import FuelVerif.Model.ContractId
import FuelVerif.Lemmas.BinaryMerkle
namespace FuelVerif.Ids
open FuelVerif

/-! ### chunks -/

/-- the chunk list in closed form: the `len / L` full chunks, then the non-empty remainder -/
def rawChunks (L : Nat) (bs : Bytes) : List Bytes :=
  (List.range (bs.length / L)).map (fun i => (bs.drop (L * i)).take L) ++
    (if bs.drop (L * (bs.length / L)) = [] then [] else [bs.drop (L * (bs.length / L))])

theorem chunksAux_eq (L : Nat) (hL : 0 < L) :
    ∀ (fuel : Nat) (bs : Bytes), bs.length ≤ fuel → chunksAux L fuel bs = rawChunks L bs := by
  intro fuel
  induction fuel with
  | zero =>
    intro bs h
    have : bs = [] := List.eq_nil_of_length_eq_zero (by omega)
    subst this
    simp [chunksAux, rawChunks]
  | succ fuel ih =>
    intro bs h
    unfold chunksAux
    by_cases hb : bs = []
    · subst hb; simp [rawChunks]
    · rw [if_neg hb]
      have hpos : 0 < bs.length := List.length_pos_iff.mpr hb
      rw [ih (bs.drop L) (by simp only [List.length_drop]; omega)]
      by_cases hlt : bs.length < L
      · -- a single partial chunk
        have hd : bs.drop L = [] := List.drop_eq_nil_of_le (by omega)
        have hq : bs.length / L = 0 := Nat.div_eq_of_lt hlt
        have ht : bs.take L = bs := List.take_of_length_le (by omega)
        simp [rawChunks, hd, hq, ht, hb]
      · have hge : L ≤ bs.length := by omega
        have hq : bs.length / L = (bs.length - L) / L + 1 := by
          rw [← Nat.div_eq_sub_div hL hge]
        have hdl : (bs.drop L).length = bs.length - L := by simp
        simp only [rawChunks, hdl, hq, List.range_succ_eq_map, List.map_cons, List.map_map,
          List.cons_append, Nat.mul_zero, List.drop_zero, List.drop_drop]
        congr 1
        have e1 : ∀ i, L + L * i = L * (i + 1) := by intro i; rw [Nat.mul_add, Nat.mul_one, Nat.add_comm]
        congr 1
        · apply List.map_congr_left
          intro i _
          simp only [Function.comp, Nat.succ_eq_add_one, e1]
        · simp only [e1]

theorem chunks_eq (L : Nat) (hL : 0 < L) (bs : Bytes) : chunks L bs = .ok (rawChunks L bs) := by
  unfold chunks
  rw [if_neg (by omega), chunksAux_eq L hL bs.length bs (Nat.le_refl _)]

/-- the remainder after the full chunks has `len % L` bytes -/
theorem rem_length (L : Nat) (bs : Bytes) : (bs.drop (L * (bs.length / L))).length = bs.length % L := by
  simp only [List.length_drop]
  have := Nat.div_add_mod bs.length L
  omega

/-- every chunk has at most `L` bytes -/
theorem rawChunks_length_le (L : Nat) (hL : 0 < L) (bs : Bytes) : ∀ c ∈ rawChunks L bs, c.length ≤ L := by
  intro c hc
  simp only [rawChunks, List.mem_append, List.mem_map, List.mem_range] at hc
  rcases hc with ⟨i, _, rfl⟩ | hc
  · simp only [List.length_take]; omega
  · split at hc
    · cases hc
    · simp only [List.mem_singleton] at hc
      subst hc
      rw [rem_length]
      exact Nat.le_of_lt (Nat.mod_lt _ hL)

/-! ### the closure body -/

/-- zero-padding (with `pad`) to the next multiple of `M` -/
def padTo (M : Nat) (pad : UInt8) (leaf : Bytes) : Bytes :=
  leaf ++ List.replicate ((M - leaf.length % M) % M) pad

theorem padTo_of_dvd (M : Nat) (pad : UInt8) (leaf : Bytes) (h : leaf.length % M = 0) :
    padTo M pad leaf = leaf := by
  simp [padTo, h]

/-- **the closure of `root_from_code` pads exactly to the next multiple of `M`** and never panics, for
every chunk of at most `L` bytes when `M > 0` divides `L` -/
theorem leafToPush_eq (L M : Nat) (pad : UInt8) (hM : 0 < M) (hdvd : M ∣ L) (leaf : Bytes)
    (hle : leaf.length ≤ L) : leafToPush L M pad leaf = .ok (padTo M pad leaf) := by
  unfold leafToPush
  simp only
  by_cases h1 : leaf.length = L
  · rw [if_pos h1, padTo_of_dvd]
    rw [h1]; exact Nat.mod_eq_zero_of_dvd hdvd
  · rw [if_neg h1, if_neg (by omega)]
    by_cases h2 : leaf.length % M = 0
    · rw [if_pos h2, padTo_of_dvd _ _ _ h2]
    · rw [if_neg h2]
      simp only [nextMultipleOf, if_neg (show ¬ M = 0 by omega), if_neg h2]
      rw [if_neg (by omega)]
      obtain ⟨k, hk⟩ := hdvd
      have hlt : leaf.length < L := by omega
      have hmod : leaf.length % M < M := Nat.mod_lt _ hM
      have hdiv : leaf.length / M < k := by
        apply Nat.div_lt_of_lt_mul
        rw [← hk]; exact hlt
      have hle2 : leaf.length + (M - leaf.length % M) ≤ L := by
        have e : leaf.length + (M - leaf.length % M) = M * (leaf.length / M + 1) := by
          have := Nat.div_add_mod leaf.length M
          rw [Nat.mul_add, Nat.mul_one]; omega
        rw [e, hk]
        exact Nat.mul_le_mul_left M hdiv
      rw [if_neg (by omega)]
      have hp : (M - leaf.length % M) % M = M - leaf.length % M := Nat.mod_eq_of_lt (by omega)
      simp only [padTo, hp]
      rw [List.take_append, List.take_of_length_le (by omega), List.take_replicate]
      congr 3
      omega

/-! ### the `for_each` loop is the streaming calculator over the padded chunks -/

theorem pushChunks_eq (L M : Nat) (pad : UInt8) (H : Bytes → Bytes) (f : Bytes → Bytes) :
    ∀ (cs : List Bytes) (st : List BMT.Node), (∀ c ∈ cs, leafToPush L M pad c = .ok (f c)) →
      pushChunks L M pad H st cs =
        (match BMT.calcPushAll H st (cs.map f) with
          | .error e => .error (.merkle e)
          | .ok st' =>
            match BMT.calcRoot H st' with
            | .error e => .error (.merkle e)
            | .ok r => .ok r)
  | [], st, _ => by
    simp only [pushChunks, List.map_nil, BMT.calcPushAll]
    cases BMT.calcRoot H st <;> rfl
  | c :: cs, st, h => by
    have hc := h c (List.mem_cons_self ..)
    simp only [pushChunks, hc, List.map_cons, BMT.calcPushAll]
    cases hp : BMT.calcPush H st (f c) with
    | error e => rfl
    | ok st' =>
      simp only
      exact pushChunks_eq L M pad H f cs st' (fun c' hc' => h c' (List.mem_cons_of_mem _ hc'))

/-! ### the statement's leaf list is the padded chunk list -/

theorem specLeavesWith_eq_map (L M : Nat) (pad : UInt8) (hdvd : M ∣ L) (code : Bytes) :
    specLeavesWith L M pad code = (rawChunks L code).map (padTo M pad) := by
  unfold specLeavesWith rawChunks
  simp only [List.map_append, List.map_map]
  have hfull : ∀ i ∈ List.range (code.length / L),
      padTo M pad ((code.drop (L * i)).take L) = (code.drop (L * i)).take L := by
    intro i hi
    apply padTo_of_dvd
    have hi' : i < code.length / L := List.mem_range.mp hi
    have : L * (i + 1) ≤ code.length := by
      calc L * (i + 1) ≤ L * (code.length / L) := Nat.mul_le_mul_left L hi'
        _ ≤ code.length := Nat.mul_div_le _ _
    have hl : ((code.drop (L * i)).take L).length = L := by
      simp only [List.length_take, List.length_drop]
      rw [Nat.mul_add, Nat.mul_one] at this
      omega
    rw [hl]; exact Nat.mod_eq_zero_of_dvd hdvd
  have e : (List.range (code.length / L)).map (padTo M pad ∘ fun i => (code.drop (L * i)).take L) =
      (List.range (code.length / L)).map (fun i => (code.drop (L * i)).take L) :=
    List.map_congr_left (fun i hi => hfull i hi)
  rw [e]
  by_cases hr : code.drop (L * (code.length / L)) = []
  · simp [hr]
  · simp [hr, padTo]

/-- number of leaves: `⌈len / L⌉` -/
theorem specLeavesWith_length (L M : Nat) (pad : UInt8) (code : Bytes) :
    (specLeavesWith L M pad code).length = code.length / L + (if code.length % L = 0 then 0 else 1) := by
  unfold specLeavesWith
  have hr : (code.drop (L * (code.length / L)) = []) ↔ code.length % L = 0 := by
    rw [← List.length_eq_zero_iff, rem_length]
  by_cases h : code.length % L = 0
  · simp [hr.mpr h, h]
  · have : ¬ code.drop (L * (code.length / L)) = [] := fun x => h (hr.mp x)
    simp [this, h]

/-! ### association lists -/

theorem alGet_cons_self {α β : Type} [DecidableEq α] (k : α) (v : β) (l : List (α × β)) :
    alGet k ((k, v) :: l) = some v := by simp [alGet]

theorem alGet_cons_ne {α β : Type} [DecidableEq α] (k k' : α) (v : β) (l : List (α × β)) (h : k' ≠ k) :
    alGet k ((k', v) :: l) = alGet k l := by simp [alGet, h]

/-- the slot loop of `deploy_contract_with_id` leaves the code table alone -/
theorem deploy_slots_contracts (id : Bytes) : ∀ (slots : List Slot) (s : Storage),
    (slots.foldl (fun (st : Storage) sl => { st with state := ((id, sl.1), sl.2) :: st.state }) s).contracts
      = s.contracts
  | [], _ => rfl
  | sl :: rest, s => by
    simp only [List.foldl_cons]
    rw [deploy_slots_contracts id rest]

/-- value of `key` after the slot loop: the LAST slot with that key, else what was there before -/
def lastSlot (key : Bytes) : List Slot → Option Bytes
  | [] => none
  | sl :: rest => match lastSlot key rest with
    | some v => some v
    | none => if sl.1 = key then some sl.2 else none

theorem deploy_slots_state (id key : Bytes) : ∀ (slots : List Slot) (s : Storage),
    alGet (id, key)
      (slots.foldl (fun (st : Storage) sl => { st with state := ((id, sl.1), sl.2) :: st.state }) s).state
      = (match lastSlot key slots with
          | some v => some v
          | none => alGet (id, key) s.state)
  | [], _ => rfl
  | sl :: rest, s => by
    simp only [List.foldl_cons]
    rw [deploy_slots_state id key rest]
    simp only [lastSlot]
    cases hl : lastSlot key rest with
    | some v => rfl
    | none =>
      simp only
      by_cases hk : sl.1 = key
      · subst hk; simp [alGet]
      · have : (id, sl.1) ≠ (id, key) := fun h => hk (Prod.mk.inj h).2
        simp [alGet, this, hk]

/-- other contracts' state is untouched by the slot loop -/
theorem deploy_slots_state_other (id id' key : Bytes) (hne : id' ≠ id) : ∀ (slots : List Slot) (s : Storage),
    alGet (id', key)
      (slots.foldl (fun (st : Storage) sl => { st with state := ((id, sl.1), sl.2) :: st.state }) s).state
      = alGet (id', key) s.state
  | [], _ => rfl
  | sl :: rest, s => by
    simp only [List.foldl_cons]
    rw [deploy_slots_state_other id id' key hne rest]
    have : (id, sl.1) ≠ (id', key) := fun h => hne (Prod.mk.inj h).1.symm
    simp [alGet, this]

end FuelVerif.Ids
