/- C04: generic location lemmas over the canonical codec model: `At` (a byte string occurs at an offset),
static / dynamic position of a struct field. -/
import FuelVerif.Lemmas.TxLaws
import FuelVerif.Model.Offsets
namespace FuelVerif.Offsets
open FuelVerif FuelVerif.Canonical

/-- `x` occurs in `bs` at byte offset `off` -/
def At (bs : Bytes) (off : Nat) (x : Bytes) : Prop := ∃ pre post, bs = pre ++ x ++ post ∧ pre.length = off

theorem At.slice {bs x : Bytes} {off : Nat} (h : At bs off x) : (bs.drop off).take x.length = x := by
  obtain ⟨pre, post, rfl, rfl⟩ := h
  simp

theorem At.le {bs x : Bytes} {off : Nat} (h : At bs off x) : off + x.length ≤ bs.length := by
  obtain ⟨pre, post, rfl, rfl⟩ := h
  simp

theorem At.refl (x : Bytes) : At x 0 x := ⟨[], [], by simp, rfl⟩

theorem At.trans {bs x y : Bytes} {o o' : Nat} (h : At bs o x) (h' : At x o' y) : At bs (o + o') y := by
  obtain ⟨p, q, rfl, rfl⟩ := h
  obtain ⟨p', q', rfl, rfl⟩ := h'
  exact ⟨p ++ p', q' ++ q, by simp, by simp⟩

theorem At.append_left (a : Bytes) {b x : Bytes} {o : Nat} (h : At b o x) : At (a ++ b) (a.length + o) x := by
  obtain ⟨p, q, rfl, rfl⟩ := h
  exact ⟨a ++ p, q, by simp, by simp⟩

theorem At.append_right {a x : Bytes} (b : Bytes) {o : Nat} (h : At a o x) : At (a ++ b) o x := by
  obtain ⟨p, q, rfl, rfl⟩ := h
  exact ⟨p, q ++ b, by simp, rfl⟩

theorem At.prefix (x post : Bytes) : At (x ++ post) 0 x := ⟨[], post, by simp, rfl⟩
theorem At.mid (pre x post : Bytes) : At (pre ++ x ++ post) pre.length x := ⟨pre, post, rfl, rfl⟩
theorem At.suffix (pre x : Bytes) : At (pre ++ x) pre.length x := ⟨pre, [], by simp, rfl⟩

/-- element `i` of a concatenation sits after the elements before it -/
theorem At.flatMap {α : Type} (g : α → Bytes) : ∀ (l : List α) (i : Nat) (a : α), l[i]? = some a →
    At (l.flatMap g) (((l.take i).map (fun e => (g e).length)).sum) (g a) := by
  intro l
  induction l with
  | nil => intro i a h; simp at h
  | cons b l ih =>
    intro i a h
    cases i with
    | zero => simp at h; subst h; simpa using At.prefix (g b) (l.flatMap g)
    | succ i =>
      simp at h
      have := At.append_left (g b) (ih i a h)
      simpa [List.flatMap_cons] using this


open FuelVerif FuelVerif.Canonical

/-! ### static sizes that do not depend on the value -/

/-- `size_static` of a type none of whose fields is an enum / hand-written codec: a constant.
`cs k`: the constant static size of hand-written codec `k`, if it has one. -/
def sizeS0 (cs : Nat → Option Nat) : Desc → Option Nat
  | .uint n => some (alignedSize n)
  | .bytesN n => some (alignedSize n)
  | .vecBytes => some 8
  | .vec _ => some 8
  | .unit => some 0
  | .pair a b => match sizeS0 cs a, sizeS0 cs b with | some x, some y => some (x + y) | _, _ => none
  | .pre _ d => (sizeS0 cs d).map (8 + ·)
  | .skipped => some 0
  | .empty d => if d.simple then sizeS0 cs d else none
  | .custom k => cs k
  | _ => none

def CsOk (env : Env) (cs : Nat → Option Nat) : Prop := ∀ k n, cs k = some n → ∀ v, (env k).wt v = true → (env k).sizeS v = n

theorem sizeS0_eq (env : Env) (cs : Nat → Option Nat) (hcs : CsOk env cs) : ∀ (d : Desc) (n : Nat), sizeS0 cs d = some n →
    ∀ v, wt env d v = true → sizeS env d v = n := by
  intro d
  induction d with
  | uint k => intro n h v hv; cases v <;> simp [wt] at hv; simp [sizeS0] at h; simp [sizeS, h]
  | bytesN k => intro n h v hv; cases v <;> simp [wt] at hv; simp [sizeS0] at h; simp [sizeS, h]
  | vecBytes => intro n h v hv; cases v <;> simp [wt] at hv; simp [sizeS0] at h; simp [sizeS, h]
  | vec d _ => intro n h v hv; simp [sizeS0] at h; simp [sizeS, h]
  | unit => intro n h v hv; cases v <;> simp [wt] at hv; simp [sizeS0] at h; simp [sizeS, h]
  | pair a b iha ihb =>
    intro n h v hv
    cases v <;> simp [wt] at hv
    rename_i va vb
    simp only [sizeS0] at h
    split at h
    · rename_i x y hx hy
      simp at h; subst h
      simp [sizeS, iha x hx va hv.1, ihb y hy vb hv.2]
    · cases h
  | pre p d ih =>
    intro n h v hv
    simp only [wt] at hv
    simp only [sizeS0, Option.map_eq_some_iff] at h
    obtain ⟨m, hm, rfl⟩ := h
    simp [sizeS, ih m hm v hv]
  | skipped => intro n h v hv; simp [sizeS0] at h; simp [sizeS, h]
  | empty d ih =>
    intro n h v hv
    simp only [sizeS0] at h
    split at h
    · rename_i hs
      simp only [sizeS]
      exact ih n h _ (wt_dflt env d hs)
    · cases h
  | custom k => intro n h v hv; simp only [wt] at hv; simp only [sizeS0] at h; simp only [sizeS]; exact hcs k n h v hv
  | _ => intro n h; simp [sizeS0] at h

/-! ### fields of a struct -/

/-- offset inside the struct's static part, and descriptor, of field `i` of a field list (behind an
optional prefix word), when the fields before it have constant static sizes -/
def fieldS0 (cs : Nat → Option Nat) : Desc → Nat → Option (Nat × Desc)
  | .pair a _, 0 => some (0, a)
  | .pair a b, i + 1 =>
    match sizeS0 cs a, fieldS0 cs b i with
    | some n, some (o, d) => some (n + o, d)
    | _, _ => none
  | .pre _ d, i => (fieldS0 cs d i).map (fun p => (8 + p.1, p.2))
  | _, _ => none

theorem fieldS0_at (env : Env) (L : EnvLaws env) (cs : Nat → Option Nat) (hcs : CsOk env cs) : ∀ (d : Desc) (i o : Nat) (fd : Desc),
    fieldS0 cs d i = some (o, fd) → d.wf = true → ∀ v, wt env d v = true →
    ∃ fv, v.field i = some fv ∧ wt env fd fv = true ∧ fd.wf = true ∧ At (encS env d v) o (encS env fd fv) := by
  intro d
  induction d with
  | pair a b iha ihb =>
    intro i o fd h hw v hv
    simp only [Desc.wf, Bool.and_eq_true] at hw
    cases v <;> simp [wt] at hv
    rename_i va vb
    cases i with
    | zero =>
      simp [fieldS0] at h
      obtain ⟨rfl, rfl⟩ := h
      exact ⟨va, by simp [Val.field, Val.elems], hv.1, hw.1, by simpa [encS] using At.prefix _ _⟩
    | succ i =>
      simp only [fieldS0] at h
      split at h
      · rename_i n o' d' hn hf
        simp at h
        obtain ⟨rfl, rfl⟩ := h
        obtain ⟨fv, h1, h2, h3, h4⟩ := ihb i o' d' hf hw.2 vb hv.2
        refine ⟨fv, by simpa [Val.field, Val.elems] using h1, h2, h3, ?_⟩
        have hlen : (encS env a va).length = n := by
          rw [((enc_length_aux env L a).1 hw.1 va hv.1).1]; exact sizeS0_eq env cs hcs a n hn va hv.1
        have := At.append_left (encS env a va) h4
        rw [hlen] at this
        simpa [encS] using this
      · cases h
  | pre p d ih =>
    intro i o fd h hw v hv
    simp only [Desc.wf, Bool.and_eq_true] at hw
    simp only [wt] at hv
    simp only [fieldS0, Option.map_eq_some_iff] at h
    obtain ⟨⟨o', d'⟩, hf, he⟩ := h
    simp at he
    obtain ⟨rfl, rfl⟩ := he
    obtain ⟨fv, h1, h2, h3, h4⟩ := ih i o' d' hf hw.2 v hv
    refine ⟨fv, h1, h2, h3, ?_⟩
    have := At.append_left (encU64 p) h4
    rw [encU64_length] at this
    simpa [encS] using this
  | _ => intro i o fd h; simp [fieldS0] at h

/-- offset inside the struct's dynamic part, descriptor and value of field `i` -/
def fieldD (env : Env) : Desc → Val → Nat → Option (Nat × Desc × Val)
  | .pair a _, .pair va _, 0 => some (0, a, va)
  | .pair a b, .pair va vb, i + 1 => (fieldD env b vb i).map (fun p => (sizeD env a va + p.1, p.2))
  | .pre _ d, v, i => fieldD env d v i
  | _, _, _ => none

theorem fieldD_at (env : Env) (L : EnvLaws env) : ∀ (d : Desc) (v : Val) (i o : Nat) (fd : Desc) (fv : Val),
    fieldD env d v i = some (o, fd, fv) → d.wf = true → wt env d v = true →
    v.field i = some fv ∧ wt env fd fv = true ∧ fd.wf = true ∧ At (encD env d v) o (encD env fd fv) := by
  intro d
  induction d with
  | pair a b iha ihb =>
    intro v i o fd fv h hw hv
    simp only [Desc.wf, Bool.and_eq_true] at hw
    cases v <;> simp [wt] at hv
    rename_i va vb
    cases i with
    | zero =>
      simp [fieldD] at h
      obtain ⟨rfl, rfl, rfl⟩ := h
      exact ⟨by simp [Val.field, Val.elems], hv.1, hw.1, by simpa [encD] using At.prefix _ _⟩
    | succ i =>
      simp only [fieldD, Option.map_eq_some_iff] at h
      obtain ⟨⟨o', d', x⟩, hf, he⟩ := h
      simp at he
      obtain ⟨rfl, rfl, rfl⟩ := he
      obtain ⟨h1, h2, h3, h4⟩ := ihb vb i o' d' x hf hw.2 hv.2
      refine ⟨by simpa [Val.field, Val.elems] using h1, h2, h3, ?_⟩
      have := At.append_left (encD env a va) h4
      rw [((enc_length_aux env L a).1 hw.1 va hv.1).2] at this
      simpa [encD] using this
  | pre p d ih =>
    intro v i o fd fv h hw hv
    simp only [Desc.wf, Bool.and_eq_true] at hw
    simp only [wt] at hv
    simp only [fieldD] at h
    obtain ⟨h1, h2, h3, h4⟩ := ih v i o fd fv h hw.2 hv
    exact ⟨h1, h2, h3, by simpa [encD] using h4⟩
  | _ => intro v i o fd fv h; simp [fieldD] at h

end FuelVerif.Offsets
