/-
Signing algebra over a lawful curve: the signature scalar `s = k⁻¹ (z + r d)` with `R = k·G`
recovers `d·G`; the other parity and any other digest do not.
-/
import FuelVerif.Lemmas.EcdsaRecover
namespace FuelVerif.Ecdsa
open FuelVerif

/-- the signature scalar both libraries compute: `k⁻¹ (z + r d) mod n` -/
def sVal (n d k z r : Nat) : Nat := invN n k * ((z + r * d % n) % n) % n

/-- `s` after low-s normalisation -/
def sNorm (n s : Nat) : Nat := if isHigh n s then negN n s else s

theorem sNorm_ne_zero {n s : Nat} (hs0 : s ≠ 0) (hs : s < n) : sNorm n s ≠ 0 := by
  unfold sNorm; split
  · exact negN_ne_zero hs0 hs
  · exact hs0

theorem sNorm_lt {n s : Nat} (hs : s < n) : sNorm n s < n := by
  unfold sNorm; split
  · exact negN_lt (by omega)
  · exact hs

theorem sNorm_low {n s : Nat} (hodd : n % 2 = 1) (hs : s < n) : isHigh n (sNorm n s) = false := by
  unfold sNorm
  by_cases hh : isHigh n s = true
  · rw [if_pos hh]; exact negN_not_high hodd hs hh
  · rw [if_neg hh]; simpa using hh

variable {E : Curve} [AddCommGroup E.Pt] [Module (ZMod E.n) E.Pt]

namespace CurveLaws
variable (L : CurveLaws E)
include L

theorem sVal_lt (d k z r : Nat) : sVal E.n d k z r < E.n := Nat.mod_lt _ L.n_pos

theorem sVal_cast (d k z r : Nat) (hk0 : k ≠ 0) (hk : k < E.n) :
    ((sVal E.n d k z r : Nat) : ZMod E.n) = (k : ZMod E.n)⁻¹ * ((z : ZMod E.n) + (r : ZMod E.n) * d) := by
  have := L.fact_prime
  unfold sVal
  rw [cast_mulmod, cast_addmod, cast_mulmod, invN_cast k (cast_ne_zero_of_lt hk0 hk)]

/-- the point recovered from `(r, s = k⁻¹(z + r d), R = k·G)` is `d·G` -/
theorem recPt_sign (d k z r : Nat) (hk0 : k ≠ 0) (hk : k < E.n) (hr0 : r ≠ 0) (hr : r < E.n) :
    recPt E z r (sVal E.n d k z r) (E.mulG k) = E.mulG d := by
  have := L.fact_prime
  have hkz : (k : ZMod E.n) ≠ 0 := cast_ne_zero_of_lt hk0 hk
  have hrz : (r : ZMod E.n) ≠ 0 := cast_ne_zero_of_lt hr0 hr
  unfold recPt
  rw [L.sVal_cast d k z r hk0 hk, L.mulG_eq k, L.mulG_eq d, smul_smul, ← sub_smul, smul_smul]
  congr 1
  field_simp
  ring

theorem mulG_ne_zero (d : Nat) (hd0 : d ≠ 0) (hd : d < E.n) : E.mulG d ≠ 0 := by
  rw [L.mulG_eq]
  intro h
  exact cast_ne_zero_of_lt hd0 hd (L.smul_g_eq_zero.mp h)

/-- **recover ∘ sign** at the library level, before normalisation -/
theorem scSigRecover_sign (d k z : Nat) (hk0 : k ≠ 0) (hk : k < E.n) (hd0 : d ≠ 0) (hd : d < E.n)
    (hx : (E.toXY (E.mulG k)).1 < E.n) (hr0 : (E.toXY (E.mulG k)).1 ≠ 0)
    (hs0 : sVal E.n d k z (E.toXY (E.mulG k)).1 ≠ 0) :
    scSigRecover E z (E.toXY (E.mulG k)).1 (sVal E.n d k z (E.toXY (E.mulG k)).1) (yOdd E (E.mulG k))
      = some (E.mulG d) := by
  rw [L.scSigRecover_eq _ _ _ _ hr0 hx hs0, L.lift_self _ (L.mulG_ne_zero k hk0 hk)]
  simp only [L.recPt_sign d k z _ hk0 hk hr0 hx]
  rw [if_neg]
  rw [L.isZero_iff]
  exact L.mulG_ne_zero d hd0 hd

/-- **recover ∘ sign** with low-s normalisation and the parity flip -/
theorem scSigRecover_sign_norm (d k z : Nat) (hk0 : k ≠ 0) (hk : k < E.n) (hd0 : d ≠ 0) (hd : d < E.n)
    (hx : (E.toXY (E.mulG k)).1 < E.n) (hr0 : (E.toXY (E.mulG k)).1 ≠ 0)
    (hs0 : sVal E.n d k z (E.toXY (E.mulG k)).1 ≠ 0) :
    scSigRecover E z (E.toXY (E.mulG k)).1 (sNorm E.n (sVal E.n d k z (E.toXY (E.mulG k)).1))
      (yOdd E (E.mulG k) ^^ isHigh E.n (sVal E.n d k z (E.toXY (E.mulG k)).1))
      = some (E.mulG d) := by
  have h := L.scSigRecover_sign d k z hk0 hk hd0 hd hx hr0 hs0
  unfold sNorm
  by_cases hh : isHigh E.n (sVal E.n d k z (E.toXY (E.mulG k)).1) = true
  · rw [if_pos hh, hh, Bool.xor_true, L.scSigRecover_neg _ _ _ _ hr0 hx hs0 (L.sVal_lt _ _ _ _)]
    exact h
  · have hh' : isHigh E.n (sVal E.n d k z (E.toXY (E.mulG k)).1) = false := by simpa using hh
    rw [if_neg hh, hh', Bool.xor_false]
    exact h

theorem two_ne_zero' : (2 : ZMod E.n) ≠ 0 := by
  intro h
  have h2 : ((2 : Nat) : ZMod E.n) = 0 := by exact_mod_cast h
  rw [ZMod.natCast_eq_zero_iff] at h2
  have := (Nat.prime_dvd_prime_iff_eq L.prime Nat.prime_two).mp h2
  exact L.n_ne_two this

/-- the other parity never recovers the same key -/
theorem scSigRecover_other_parity (z r s : Nat) (v : Bool) (Q : E.Pt)
    (hr0 : r ≠ 0) (hr : r < E.n) (hs0 : s ≠ 0) (hs : s < E.n)
    (h : scSigRecover E z r s v = some Q) : scSigRecover E z r s (!v) ≠ some Q := by
  have := L.fact_prime
  have hrz : (r : ZMod E.n) ≠ 0 := cast_ne_zero_of_lt hr0 hr
  have hsz : (s : ZMod E.n) ≠ 0 := cast_ne_zero_of_lt hs0 hs
  rw [L.scSigRecover_eq _ _ _ _ hr0 hr hs0] at h ⊢
  cases hl : E.liftX r v with
  | none => rw [hl] at h; exact absurd h (by simp)
  | some R =>
    rw [hl] at h
    rw [L.lift_neg hl]
    simp only at h ⊢
    obtain ⟨hR0, _, _⟩ := L.lift_some _ _ _ hl
    split at h
    · exact absurd h (by simp)
    · split
      · simp
      · intro h'
        have e : recPt E z r s (-R) = recPt E z r s R := by
          rw [Option.some.inj h', Option.some.inj h]
        unfold recPt at e
        have e2 := L.smul_eq_zero' (inv_ne_zero hrz) (by rw [smul_sub]; exact sub_eq_zero.mpr e)
        have e3 : ((2 : ZMod E.n) * s) • R = 0 := by
          have : (s : ZMod E.n) • -R - (z : ZMod E.n) • E.mulG 1 - ((s : ZMod E.n) • R - (z : ZMod E.n) • E.mulG 1)
              = -(((2 : ZMod E.n) * s) • R) := by
            rw [mul_smul, two_smul, smul_neg]; abel
          rw [this] at e2
          exact neg_eq_zero.mp e2
        exact hR0 (L.smul_eq_zero' (mul_ne_zero L.two_ne_zero' hsz) e3)

/-- a digest that differs modulo `n` never recovers the same key -/
theorem scSigRecover_other_digest (z z' r s : Nat) (v : Bool) (Q : E.Pt)
    (hr0 : r ≠ 0) (hr : r < E.n) (hs0 : s ≠ 0) (hz : z' % E.n ≠ z % E.n)
    (h : scSigRecover E z r s v = some Q) : scSigRecover E z' r s v ≠ some Q := by
  have := L.fact_prime
  have hrz : (r : ZMod E.n) ≠ 0 := cast_ne_zero_of_lt hr0 hr
  rw [L.scSigRecover_eq _ _ _ _ hr0 hr hs0] at h ⊢
  cases hl : E.liftX r v with
  | none => rw [hl] at h; exact absurd h (by simp)
  | some R =>
    rw [hl] at h
    simp only at h ⊢
    split at h
    · exact absurd h (by simp)
    · split
      · simp
      · intro h'
        have e : recPt E z' r s R = recPt E z r s R := by
          rw [Option.some.inj h', Option.some.inj h]
        unfold recPt at e
        have e2 := L.smul_eq_zero' (inv_ne_zero hrz) (by rw [smul_sub]; exact sub_eq_zero.mpr e)
        have e3 : ((z : ZMod E.n) - z') • E.mulG 1 = 0 := by
          rw [sub_smul, ← e2]; abel
        have e4 := sub_eq_zero.mp (L.smul_g_eq_zero.mp e3)
        apply hz
        have := (ZMod.natCast_eq_natCast_iff' z z' E.n).mp e4
        exact this.symm

/-- the recovery-id search of the RustCrypto wrappers finds the parity that libsecp256k1 reports -/
theorem findRecid_sign (lowS : Bool) (d k z : Nat) (hk0 : k ≠ 0) (hk : k < E.n) (hd0 : d ≠ 0) (hd : d < E.n)
    (hx : (E.toXY (E.mulG k)).1 < E.n) (hr0 : (E.toXY (E.mulG k)).1 ≠ 0)
    (hs0 : sVal E.n d k z (E.toXY (E.mulG k)).1 ≠ 0) :
    findRecid E lowS (E.mulG d) z (E.toXY (E.mulG k)).1 (sNorm E.n (sVal E.n d k z (E.toXY (E.mulG k)).1))
      = .ok (yOdd E (E.mulG k) ^^ isHigh E.n (sVal E.n d k z (E.toXY (E.mulG k)).1)) := by
  have hs'0 := sNorm_ne_zero hs0 (L.sVal_lt d k z (E.toXY (E.mulG k)).1)
  have hs'lt := sNorm_lt (L.sVal_lt d k z (E.toXY (E.mulG k)).1)
  have hlow := sNorm_low L.n_odd (L.sVal_lt d k z (E.toXY (E.mulG k)).1)
  have hgood := L.scSigRecover_sign_norm d k z hk0 hk hd0 hd hx hr0 hs0
  have hbad := L.scSigRecover_other_parity _ _ _ _ _ hr0 hx hs'0 hs'lt hgood
  unfold findRecid
  simp only [L.rcRecover_eq lowS _ _ _ _ hr0 hx hs'0 hs'lt, hlow, Bool.and_false, Bool.false_eq_true, if_false]
  generalize (yOdd E (E.mulG k) ^^ isHigh E.n (sVal E.n d k z (E.toXY (E.mulG k)).1)) = v at hgood hbad
  cases v with
  | false =>
    rw [hgood]; simp
  | true =>
    simp only [Bool.not_true] at hbad
    rw [hgood]
    simp [hbad]

/-- `hazmat::sign_prehashed` in closed form (nonce in range, x-coordinate of `k·G` below `n`) -/
theorem rcSignPrehashed_eq (d k z : Nat) (hk0 : k ≠ 0) (hk : k < E.n) (hx : (E.toXY (E.mulG k)).1 < E.n) :
    rcSignPrehashed E d k z =
      if (E.toXY (E.mulG k)).1 = 0 ∨ sVal E.n d k z (E.toXY (E.mulG k)).1 = 0 then none
      else some ((E.toXY (E.mulG k)).1, sVal E.n d k z (E.toXY (E.mulG k)).1, yOdd E (E.mulG k), false) := by
  have hz : E.isZero (E.mulG k) = false := L.isZero_false.mpr (L.mulG_ne_zero k hk0 hk)
  unfold rcSignPrehashed
  simp only [if_neg hk0, affX, hz, Bool.false_eq_true, if_false, Nat.mod_eq_of_lt hx, ne_eq,
    not_true_eq_false, decide_false]
  rfl

omit [AddCommGroup E.Pt] [Module (ZMod E.n) E.Pt] L in
/-- `secp256k1_ecdsa_sig_sign` in closed form -/
theorem scSigSign_eq (d k z : Nat) (hx : (E.toXY (E.mulG k)).1 < E.n) :
    scSigSign E d k z =
      if (E.toXY (E.mulG k)).1 = 0 ∨ sNorm E.n (sVal E.n d k z (E.toXY (E.mulG k)).1) = 0 then none
      else some ((E.toXY (E.mulG k)).1, sNorm E.n (sVal E.n d k z (E.toXY (E.mulG k)).1),
        if (yOdd E (E.mulG k) ^^ isHigh E.n (sVal E.n d k z (E.toXY (E.mulG k)).1)) then 1 else 0) := by
  unfold scSigSign
  simp only [Nat.mod_eq_of_lt hx, Nat.not_le.mpr hx, decide_false, Bool.false_eq_true, if_false]
  have e : invN E.n k * (((E.toXY (E.mulG k)).1 * d % E.n + z) % E.n) % E.n = sVal E.n d k z (E.toXY (E.mulG k)).1 := by
    unfold sVal; rw [Nat.add_comm]
  rw [e]
  unfold sNorm
  cases hy : yOdd E (E.mulG k) <;> cases hh : isHigh E.n (sVal E.n d k z (E.toXY (E.mulG k)).1) <;> simp

end CurveLaws
end FuelVerif.Ecdsa
