import FuelVerif.Lemmas.OffsetsStruct
namespace FuelVerif.Offsets
open FuelVerif FuelVerif.Canonical
open FuelVerif.Canonical.InputCodec (env0 encDesc unVariant)
open FuelVerif.Canonical.InputLaws

/-! ### enum values -/

/-- discriminant and payload descriptor of the `i`-th variant -/
def altAt : Desc → Nat → Option (Nat × Desc)
  | .alt k d _, 0 => some (k, d)
  | .alt _ _ rest, i + 1 => altAt rest i
  | _, _ => none

theorem variant_enc (env : Env) : ∀ (i : Nat) (a : Desc) (disc : Nat) (pd : Desc), altAt a i = some (disc, pd) → ∀ x,
    encS env a (Val.variant i x) = encU64 disc ++ encS env pd x ∧ encD env a (Val.variant i x) = encD env pd x ∧
    sizeS env a (Val.variant i x) = sizeS env pd x ∧ sizeD env a (Val.variant i x) = sizeD env pd x ∧
    wt env a (Val.variant i x) = wt env pd x := by
  intro i
  induction i with
  | zero =>
    intro a disc pd h x
    cases a <;> simp [altAt] at h
    obtain ⟨rfl, rfl⟩ := h
    simp [Val.variant, encS, encD, sizeS, sizeD, wt]
  | succ i ih =>
    intro a disc pd h x
    cases a <;> simp [altAt] at h
    rename_i k d rest
    obtain ⟨h1, h2, h3, h4, h5⟩ := ih rest disc pd h x
    simp [Val.variant, encS, encD, sizeS, sizeD, wt, h1, h2, h3, h4, h5]

theorem unVariant_variant : ∀ (i : Nat) (x : Val), unVariant (Val.variant i x) = some (i, x) := by
  intro i
  induction i with
  | zero => intro x; simp [Val.variant, unVariant]
  | succ i ih => intro x; simp [Val.variant, unVariant, ih]

/-- a well-typed value of a variant list is one of its variants around a well-typed payload -/
theorem wt_alts_cases (env : Env) : ∀ (a : Desc) (v : Val), wt env a v = true → a.wfAlts = true →
    ∃ i disc pd x, v = Val.variant i x ∧ altAt a i = some (disc, pd) ∧ wt env pd x = true ∧ pd.wf = true := by
  intro a
  induction a with
  | alt k d rest _ ihr =>
    intro v hv hw
    simp only [Desc.wfAlts, Bool.and_eq_true] at hw
    cases v <;> simp [wt] at hv
    · exact ⟨0, k, d, _, rfl, by simp [altAt], hv, hw.1.2⟩
    · obtain ⟨i, disc, pd, x, rfl, h1, h2, h3⟩ := ihr _ hv hw.2
      exact ⟨i + 1, disc, pd, x, rfl, by simpa [altAt] using h1, h2, h3⟩
  | void => intro v hv; cases v <;> simp [wt] at hv
  | _ => intro v _ hw; simp [Desc.wfAlts] at hw


theorem altAt_lt : ∀ (a : Desc) (i : Nat) (r : Nat × Desc), altAt a i = some r → i < a.discs.length := by
  intro a
  induction a with
  | alt k d rest _ ih =>
    intro i r h
    cases i with
    | zero => simp [Desc.discs]
    | succ i => simp only [altAt] at h; have := ih i r h; simp [Desc.discs]; omega
  | _ => intro i r h; simp [altAt] at h

/-! ### inputs -/

open FuelVerif.Canonical.TxDesc (env)

/-- the variant list behind `Input`'s encoder -/
def inputAlts : Desc := match encDesc with | .enum a => a | _ => .void

def InputKind.idx : InputKind → Nat
  | .coinSigned => 0 | .coinPredicate => 1 | .contract => 2 | .messageCoinSigned => 3
  | .messageCoinPredicate => 4 | .messageDataSigned => 5 | .messageDataPredicate => 6

/-- descriptor of the variant's struct (`Coin<Signed>`, ..), from the regenerated tables -/
def InputKind.payload (k : InputKind) : Desc := ((altAt inputAlts k.idx).map (·.2)).getD .void
def InputKind.disc (k : InputKind) : Nat := ((altAt inputAlts k.idx).map (·.1)).getD 0

theorem encDesc_enum : encDesc = .enum inputAlts := by decide +kernel
theorem inputAlts_wf : inputAlts.wfAlts = true ∧ inputAlts.discs.length = 7 := by decide +kernel
theorem kinds_ok : InputKind.all.all (fun k => altAt inputAlts k.idx == some (k.disc, k.payload) && InputKind.all[k.idx]? == some k &&
    k.payload.wf && isStruct k.payload) = true := by decide +kernel

theorem kind_ok (k : InputKind) : altAt inputAlts k.idx = some (k.disc, k.payload) ∧ InputKind.all[k.idx]? = some k ∧
    k.payload.wf = true ∧ isStruct k.payload = true := by
  have := kinds_ok
  simp only [List.all_eq_true, Bool.and_eq_true, beq_iff_eq] at this
  have hk : k ∈ InputKind.all := by cases k <;> simp [InputKind.all]
  obtain ⟨⟨⟨a, b⟩, c⟩, d⟩ := this k hk
  exact ⟨a, b, c, d⟩

theorem input_enc_eq (i : Val) : encode env TxDesc.input i = encode env0 encDesc i ∧ size env TxDesc.input i = size env0 encDesc i := by
  simp [encode, size, TxDesc.input, encS, encD, sizeS, sizeD, TxDesc.env, Resolve.customInput, Resolve.customPolicies, InputCodec.codec]

/-- every value of type `Input` is one of the seven variants around a value of the variant's struct, and
its encoding is the `InputRepr` discriminant word, the struct's static part, the struct's dynamic part -/
theorem input_cases {i : Val} (h : wt env0 encDesc i = true) :
    ∃ k p, i = Val.variant k.idx p ∧ inputKind i = some k ∧ inputPayload i = p ∧ wt env0 k.payload p = true ∧
      encode env TxDesc.input i = encU64 k.disc ++ encS env0 k.payload p ++ encD env0 k.payload p ∧
      size env TxDesc.input i = 8 + sizeS env0 k.payload p + sizeD env0 k.payload p := by
  rw [encDesc_enum] at h
  simp only [wt] at h
  obtain ⟨n, disc, pd, x, rfl, ha, hx, _⟩ := wt_alts_cases env0 inputAlts i h inputAlts_wf.1
  have hn := altAt_lt _ _ _ ha
  rw [inputAlts_wf.2] at hn
  have hk : ∃ k : InputKind, k.idx = n := by
    have : n = 0 ∨ n = 1 ∨ n = 2 ∨ n = 3 ∨ n = 4 ∨ n = 5 ∨ n = 6 := by omega
    rcases this with rfl | rfl | rfl | rfl | rfl | rfl | rfl
    · exact ⟨.coinSigned, rfl⟩
    · exact ⟨.coinPredicate, rfl⟩
    · exact ⟨.contract, rfl⟩
    · exact ⟨.messageCoinSigned, rfl⟩
    · exact ⟨.messageCoinPredicate, rfl⟩
    · exact ⟨.messageDataSigned, rfl⟩
    · exact ⟨.messageDataPredicate, rfl⟩
  obtain ⟨k, rfl⟩ := hk
  obtain ⟨k1, k2, _, _⟩ := kind_ok k
  rw [k1] at ha
  simp only [Option.some.injEq, Prod.mk.injEq] at ha
  obtain ⟨rfl, rfl⟩ := ha
  obtain ⟨e1, e2, e3, e4, _⟩ := variant_enc env0 k.idx inputAlts k.disc k.payload k1 x
  refine ⟨k, x, rfl, ?_, ?_, hx, ?_, ?_⟩
  · simp [inputKind, unVariant_variant, k2]
  · simp [inputPayload, unVariant_variant]
  · rw [(input_enc_eq _).1, encDesc_enum]; simp [encode, encS, encD, e1, e2]
  · rw [(input_enc_eq _).2, encDesc_enum]; simp [size, sizeS, sizeD, e3, e4]


/-- no hand-written codec inside the input structs -/
def cs0 : Nat → Option Nat := fun _ => none
theorem cs0_ok : CsOk env0 cs0 := by intro k n h; simp [cs0] at h

/-- what each `InputRepr::x_offset()` is for: the field of the variant's struct it points at
(static fields; `data_offset` / `coin_predicate_offset` point into the dynamic part, see below) -/
def inputStaticMeaning : List (String × InputRepr × String) := [
  ("utxo_id_offset", .coin, "utxo_id"), ("utxo_id_offset", .contract, "utxo_id"),
  ("owner_offset", .coin, "owner"), ("owner_offset", .message, "recipient"),
  ("asset_id_offset", .coin, "asset_id"),
  ("contract_balance_root_offset", .contract, "balance_root"), ("contract_state_root_offset", .contract, "state_root"),
  ("contract_id_offset", .contract, "contract_id"),
  ("message_sender_offset", .message, "sender"), ("message_recipient_offset", .message, "recipient"),
  ("message_nonce_offset", .message, "nonce"),
  ("tx_pointer_offset", .coin, "tx_pointer"), ("tx_pointer_offset", .contract, "tx_pointer")]

/-- descriptor of field `f` of the variant's struct -/
def InputKind.fieldDesc (k : InputKind) (f : String) : Desc :=
  match Resolve.fieldIndex k.struct f with
  | some j => ((fieldS0 cs0 k.payload j).map (·.2)).getD .void
  | none => .void

def staticRowOk (e : String × InputRepr × String) (k : InputKind) : Bool :=
  InputRepr.fromInput k != e.2.1 ||
  match Resolve.fieldIndex k.struct e.2.2 with
  | some j =>
    match fieldS0 cs0 k.payload j with
    | some (o, _) => e.2.1.offset e.1 == some (8 + o)
    | none => false
  | none => false

theorem static_rows_ok : inputStaticMeaning.all (fun e => InputKind.all.all (staticRowOk e)) = true := by decide +kernel

/-- the table has `Some` exactly for the (method, repr) pairs that have a meaning (static or dynamic) -/
theorem table_none_iff : Gen.Offsets.inputReprOffsets.all (fun row => [InputRepr.coin, .contract, .message].all (fun r =>
    (r.offset row.1).isSome == (inputStaticMeaning.any (fun e => e.1 == row.1 && e.2.1 == r) ||
      (row.1 == "data_offset" && r == .message) || (row.1 == "coin_predicate_offset" && r == .coin)))) = true := by decide +kernel

/-- **static input fields**: the offset `InputRepr` reports for a field is where the input's encoding holds
the encoding of that field -/
theorem input_static_offset (e : String × InputRepr × String) (he : e ∈ inputStaticMeaning) (i : Val)
    (hi : wt env0 encDesc i = true) (k : InputKind) (hk : inputKind i = some k) (hr : InputRepr.fromInput k = e.2.1) :
    ∃ off, e.2.1.offset e.1 = some off ∧ wt env0 (k.fieldDesc e.2.2) (inputField k e.2.2 i) = true ∧
      At (encode env TxDesc.input i) off (encS env0 (k.fieldDesc e.2.2) (inputField k e.2.2 i)) := by
  obtain ⟨k', p, rfl, hk', hp, hwp, henc, _⟩ := input_cases hi
  rw [hk'] at hk; cases hk
  have := static_rows_ok
  simp only [List.all_eq_true] at this
  have hrow := this e he k (by cases k <;> simp [InputKind.all])
  simp only [staticRowOk, hr, bne_self_eq_false, Bool.false_or] at hrow
  split at hrow
  · rename_i j hj
    split at hrow
    · rename_i o fd hf
      simp only [beq_iff_eq] at hrow
      obtain ⟨_, _, hwf, _⟩ := kind_ok k
      obtain ⟨fv, h1, h2, _, h4⟩ := fieldS0_at env0 InputLaws.L0 cs0 cs0_ok k.payload j o fd hf hwf p hwp
      have hfield : inputField k e.2.2 (Val.variant k.idx p) = fv := by
        simp [inputField, fieldOf, hj, hp, h1]
      have hdesc : k.fieldDesc e.2.2 = fd := by simp [InputKind.fieldDesc, hj, hf]
      refine ⟨8 + o, hrow, by rw [hfield, hdesc]; exact h2, ?_⟩
      rw [hfield, hdesc, henc]
      have := At.append_right (encD env0 k.payload p) (At.append_left (encU64 k.disc) h4)
      rw [encU64_length] at this
      simpa using this
    · cases hrow
  · cases hrow


/-! ### the dynamic part of an input: data, predicate, predicate data -/

/-- a byte vector's dynamic encoding: the bytes and the zero padding to the word boundary -/
def padded (b : Bytes) : Bytes := b ++ zeros (alignmentBytes b.length)

theorem padded_length (b : Bytes) : (padded b).length = alignedSize b.length := by
  simp [padded, alignedSize, length_zeros]

theorem limit_small : VEC_DECODE_LIMIT + 8 ≤ USIZE_MAX := by decide

theorem paddedLenUsize_eq (n : Nat) (h : n ≤ VEC_DECODE_LIMIT) : paddedLenUsize n = some (alignedSize n) := by
  have := limit_small
  simp only [paddedLenUsize, Gen.Offsets.WORD_SIZE, alignedSize, alignmentBytes, ALIGN, Gen.Canonical.ALIGN, checkedAdd]
  by_cases h8 : n % 8 = 0
  · simp [h8]
  · have h9 : n + (8 - n % 8) ≤ USIZE_MAX := by omega
    simp [h8, h9]

theorem paddedLen_eq (b : Bytes) (h : b.length ≤ VEC_DECODE_LIMIT) : paddedLen b = (padded b).length := by
  simp [paddedLen, paddedLenUsize_eq _ h, padded_length]

open InputLaws in
theorem payload_lits : InputKind.payload .coinSigned = dCoinSigned ∧ InputKind.payload .coinPredicate = dCoinPredicate ∧
    InputKind.payload .contract = dContract ∧ InputKind.payload .messageCoinSigned = dMsgCoinSigned ∧
    InputKind.payload .messageCoinPredicate = dMsgCoinPredicate ∧ InputKind.payload .messageDataSigned = dMsgDataSigned ∧
    InputKind.payload .messageDataPredicate = dMsgDataPredicate := by decide +kernel

theorem noDyn_payloads : noDyn (InputKind.payload .coinSigned) = true ∧ noDyn (InputKind.payload .contract) = true ∧
    noDyn (InputKind.payload .messageCoinSigned) = true := by decide +kernel

theorem payload_sizeS0 : InputKind.all.map (fun k => sizeS0 cs0 k.payload) =
    [some 160, some 160, some 152, some 144, some 144, some 144, some 144] := by decide +kernel

theorem payload_sizeS (k : InputKind) (p : Val) (h : wt env0 k.payload p = true) :
    sizeS env0 k.payload p = (match InputRepr.fromInput k with | .coin => 160 | .contract => 152 | .message => 144) := by
  have := payload_sizeS0
  simp only [InputKind.all, List.map_cons, List.map_nil, List.cons.injEq, and_true] at this
  obtain ⟨a0, a1, a2, a3, a4, a5, a6⟩ := this
  cases k
  · exact sizeS0_eq env0 cs0 cs0_ok _ _ a0 p h
  · exact sizeS0_eq env0 cs0 cs0_ok _ _ a1 p h
  · exact sizeS0_eq env0 cs0 cs0_ok _ _ a2 p h
  · exact sizeS0_eq env0 cs0 cs0_ok _ _ a3 p h
  · exact sizeS0_eq env0 cs0 cs0_ok _ _ a4 p h
  · exact sizeS0_eq env0 cs0 cs0_ok _ _ a5 p h
  · exact sizeS0_eq env0 cs0 cs0_ok _ _ a6 p h

theorem payload_encS_length (k : InputKind) (p : Val) (h : wt env0 k.payload p = true) :
    (encS env0 k.payload p).length = (match InputRepr.fromInput k with | .coin => 160 | .contract => 152 | .message => 144) := by
  rw [((enc_length_aux env0 InputLaws.L0 k.payload).1 (kind_ok k).2.2.1 p h).1]
  exact payload_sizeS k p h

theorem idx_fields : Resolve.fieldIndex "Coin" "predicate" = some 7 ∧ Resolve.fieldIndex "Coin" "predicate_data" = some 8 ∧
    Resolve.fieldIndex "Message" "data" = some 6 ∧ Resolve.fieldIndex "Message" "predicate" = some 7 ∧
    Resolve.fieldIndex "Message" "predicate_data" = some 8 := by decide +kernel

theorem l9_fields (a b c d e f g h i : Val) : (InputLaws.l9 a b c d e f g h i).field 6 = some g ∧
    (InputLaws.l9 a b c d e f g h i).field 7 = some h ∧ (InputLaws.l9 a b c d e f g h i).field 8 = some i := by
  simp [InputLaws.l9, Val.field, Val.elems]

/-- the variants that carry a predicate / message data -/
def InputKind.hasPredicate : InputKind → Bool
  | .coinPredicate | .messageCoinPredicate | .messageDataPredicate => true
  | _ => false
def InputKind.hasData : InputKind → Bool
  | .messageDataSigned | .messageDataPredicate => true
  | _ => false

/-- dynamic part of the variant's struct: data, predicate, predicate data, each padded (absent ones: `Empty`, `unit`, no bytes) -/
def dynOf (k : InputKind) (p : Val) : Bytes × Bytes × Bytes :=
  match InputRepr.fromInput k with
  | .coin => ([], bytesOf (fieldOf "Coin" "predicate" p), bytesOf (fieldOf "Coin" "predicate_data" p))
  | .contract => ([], [], [])
  | .message => (bytesOf (fieldOf "Message" "data" p), bytesOf (fieldOf "Message" "predicate" p), bytesOf (fieldOf "Message" "predicate_data" p))

theorem padded_nil : padded [] = [] := by decide
theorem zeros_ab0 : zeros (alignmentBytes 0) = [] := by decide

open InputLaws in
/-- the dynamic part of every input struct is `padded data ++ padded predicate ++ padded predicate_data`,
and these byte vectors are within the decode limit -/
theorem payload_encD (k : InputKind) (p : Val) (h : wt env0 k.payload p = true) :
    encD env0 k.payload p = padded (dynOf k p).1 ++ padded (dynOf k p).2.1 ++ padded (dynOf k p).2.2 ∧
    (dynOf k p).1.length ≤ VEC_DECODE_LIMIT ∧ (dynOf k p).2.1.length ≤ VEC_DECODE_LIMIT ∧ (dynOf k p).2.2.length ≤ VEC_DECODE_LIMIT ∧
    (k.hasData = false → (dynOf k p).1 = []) ∧ (k.hasPredicate = false → (dynOf k p).2.1 = [] ∧ (dynOf k p).2.2 = []) := by
  obtain ⟨l0, l1, l2, l3, l4, l5, l6⟩ := payload_lits
  obtain ⟨i0, i1, i2, i3, i4⟩ := idx_fields
  have nd : ∀ (d : Desc), noDyn d = true → ∀ v, encD env0 d v = [] := fun d hd v => (sizeD_noDyn env0 d hd v).2
  cases k
  · -- coin signed
    rw [l0] at h ⊢
    obtain ⟨f0, f1, f2, f3, f4, fw, fg, fp, fd, rfl, _, _, _, _, _, _, _, hp, hd⟩ := wt_coinOf h
    rw [wt_empty hp, wt_empty hd]
    refine ⟨?_, ?_⟩
    · rw [nd _ (by decide)]
      simp [dynOf, InputRepr.fromInput, fieldOf, i0, i1, l9_fields, bytesOf, padded_nil]
    · simp [dynOf, InputRepr.fromInput, fieldOf, i0, i1, l9_fields, bytesOf, InputKind.hasData, InputKind.hasPredicate]
  · -- coin predicate
    rw [l1] at h ⊢
    obtain ⟨f0, f1, f2, f3, f4, fw, fg, fp, fd, rfl, _, _, _, _, _, _, _, hp, hd⟩ := wt_coinOf h
    obtain ⟨pb, rfl, hpb⟩ := wt_dCode hp
    obtain ⟨db, rfl, hdb⟩ := wt_dBytes hd
    refine ⟨?_, ?_⟩
    · simp only [dCoinPredicate, coinOf, l9, encD]
      simp only [nd dUtxo (by decide), nd dB32 (by decide), nd dTxPtr (by decide)]
      simp [dCode, dBytes, encD, dynOf, InputRepr.fromInput, fieldOf, i0, i1, Val.field, Val.elems, bytesOf, padded, zeros_ab0]
    · simp [dynOf, InputRepr.fromInput, fieldOf, i0, i1, l9_fields, bytesOf, hpb, hdb, InputKind.hasData, InputKind.hasPredicate]
  · -- contract
    refine ⟨?_, ?_⟩
    · rw [nd _ noDyn_payloads.2.1]; simp [dynOf, InputRepr.fromInput, padded_nil]
    · simp [dynOf, InputRepr.fromInput, InputKind.hasData, InputKind.hasPredicate]
  · -- message coin signed
    rw [l3] at h ⊢
    obtain ⟨f0, f1, f2, f3, fw, fg, fx, fp, fd, rfl, _, _, _, _, _, _, hx, hp, hd⟩ := wt_msgOf h
    rw [wt_empty hx, wt_empty hp, wt_empty hd]
    refine ⟨?_, ?_⟩
    · rw [nd _ (by decide)]
      simp [dynOf, InputRepr.fromInput, fieldOf, i2, i3, i4, l9_fields, bytesOf, padded_nil]
    · simp [dynOf, InputRepr.fromInput, fieldOf, i2, i3, i4, l9_fields, bytesOf, InputKind.hasData, InputKind.hasPredicate]
  · -- message coin predicate
    rw [l4] at h ⊢
    obtain ⟨f0, f1, f2, f3, fw, fg, fx, fp, fd, rfl, _, _, _, _, _, _, hx, hp, hd⟩ := wt_msgOf h
    obtain ⟨pb, rfl, hpb⟩ := wt_dCode hp
    obtain ⟨db, rfl, hdb⟩ := wt_dBytes hd
    rw [wt_empty hx]
    refine ⟨?_, ?_⟩
    · simp only [dMsgCoinPredicate, msgOf, l9, encD]
      simp only [nd dB32 (by decide)]
      simp [dCode, dBytes, encD, dynOf, InputRepr.fromInput, fieldOf, i2, i3, i4, Val.field, Val.elems, bytesOf, padded, zeros_ab0]
    · simp [dynOf, InputRepr.fromInput, fieldOf, i2, i3, i4, l9_fields, bytesOf, hpb, hdb, InputKind.hasData, InputKind.hasPredicate]
  · -- message data signed
    rw [l5] at h ⊢
    obtain ⟨f0, f1, f2, f3, fw, fg, fx, fp, fd, rfl, _, _, _, _, _, _, hx, hp, hd⟩ := wt_msgOf h
    obtain ⟨xb, rfl, hxb⟩ := wt_dBytes hx
    rw [wt_empty hp, wt_empty hd]
    refine ⟨?_, ?_⟩
    · simp only [dMsgDataSigned, msgOf, l9, encD]
      simp only [nd dB32 (by decide)]
      simp [dBytes, encD, dynOf, InputRepr.fromInput, fieldOf, i2, i3, i4, Val.field, Val.elems, bytesOf, padded, zeros_ab0]
    · simp [dynOf, InputRepr.fromInput, fieldOf, i2, i3, i4, l9_fields, bytesOf, hxb, InputKind.hasData, InputKind.hasPredicate]
  · -- message data predicate
    rw [l6] at h ⊢
    obtain ⟨f0, f1, f2, f3, fw, fg, fx, fp, fd, rfl, _, _, _, _, _, _, hx, hp, hd⟩ := wt_msgOf h
    obtain ⟨xb, rfl, hxb⟩ := wt_dBytes hx
    obtain ⟨pb, rfl, hpb⟩ := wt_dCode hp
    obtain ⟨db, rfl, hdb⟩ := wt_dBytes hd
    refine ⟨?_, ?_⟩
    · simp only [dMsgDataPredicate, msgOf, l9, encD]
      simp only [nd dB32 (by decide)]
      simp [dCode, dBytes, encD, dynOf, InputRepr.fromInput, fieldOf, i2, i3, i4, Val.field, Val.elems, bytesOf, padded, zeros_ab0]
    · simp [dynOf, InputRepr.fromInput, fieldOf, i2, i3, i4, l9_fields, bytesOf, hxb, hpb, hdb, InputKind.hasData, InputKind.hasPredicate]


/-- size of the fixed part of an input: discriminant word + static part of the variant's struct -/
def fixedSize (k : InputKind) : Nat := match InputRepr.fromInput k with | .coin => 168 | .contract => 160 | .message => 152

/-- **layout of an input**: fixed part, then data, predicate, predicate data (each padded; absent ones empty) -/
theorem input_layout {i : Val} (hi : wt env0 encDesc i = true) :
    ∃ k p S, inputKind i = some k ∧ inputPayload i = p ∧ wt env0 k.payload p = true ∧ S.length = fixedSize k ∧
      encode env TxDesc.input i = S ++ padded (dynOf k p).1 ++ padded (dynOf k p).2.1 ++ padded (dynOf k p).2.2 ∧
      (dynOf k p).1.length ≤ VEC_DECODE_LIMIT ∧ (dynOf k p).2.1.length ≤ VEC_DECODE_LIMIT ∧ (dynOf k p).2.2.length ≤ VEC_DECODE_LIMIT ∧
      (k.hasData = false → (dynOf k p).1 = []) ∧ (k.hasPredicate = false → (dynOf k p).2.1 = [] ∧ (dynOf k p).2.2 = []) := by
  obtain ⟨k, p, _, hk, hp, hwp, henc, _⟩ := input_cases hi
  obtain ⟨hd, b1, b2, b3, b4, b5⟩ := payload_encD k p hwp
  refine ⟨k, p, encU64 k.disc ++ encS env0 k.payload p, hk, hp, hwp, ?_, ?_, b1, b2, b3, b4, b5⟩
  · rw [List.length_append, encU64_length, payload_encS_length k p hwp]
    cases k <;> rfl
  · rw [henc, hd]; simp

theorem repr_dyn_offsets : InputRepr.coin.offset "coin_predicate_offset" = some 168 ∧ InputRepr.message.offset "data_offset" = some 152 := by
  decide +kernel

/-- **`InputRepr::data_offset`** (message inputs): the padded message data is there -/
theorem input_data_offset {i : Val} (hi : wt env0 encDesc i = true) (k : InputKind) (hk : inputKind i = some k)
    (hr : InputRepr.fromInput k = .message) :
    ∃ o, InputRepr.message.offset "data_offset" = some o ∧
      At (encode env TxDesc.input i) o (padded (bytesOf (inputField k "data" i))) := by
  obtain ⟨k', p, S, hk', hp, _, hS, henc, _⟩ := input_layout hi
  rw [hk] at hk'; cases hk'
  refine ⟨152, repr_dyn_offsets.2, ?_⟩
  have hs : k.struct = "Message" := by simp [InputKind.struct, hr]
  have : fixedSize k = 152 := by simp [fixedSize, hr]
  rw [henc, inputField, hp, hs]
  simp only [dynOf, hr]
  rw [← this, ← hS]
  simpa using At.append_right _ (At.append_right _ (At.suffix S _))

/-- **`InputRepr::coin_predicate_offset`** (coin inputs): the padded predicate is there (no bytes for a signed coin) -/
theorem input_coin_predicate_offset {i : Val} (hi : wt env0 encDesc i = true) (k : InputKind) (hk : inputKind i = some k)
    (hr : InputRepr.fromInput k = .coin) :
    ∃ o, InputRepr.coin.offset "coin_predicate_offset" = some o ∧
      At (encode env TxDesc.input i) o (padded (bytesOf (inputField k "predicate" i))) := by
  obtain ⟨k', p, S, hk', hp, _, hS, henc, _⟩ := input_layout hi
  rw [hk] at hk'; cases hk'
  refine ⟨168, repr_dyn_offsets.1, ?_⟩
  have hs : k.struct = "Coin" := by simp [InputKind.struct, hr]
  have : fixedSize k = 168 := by simp [fixedSize, hr]
  rw [henc, inputField, hp, hs]
  simp only [dynOf, hr, padded_nil, List.append_nil]
  rw [← this, ← hS]
  simpa using At.append_right _ (At.suffix S _)

/-- **`Input::predicate_offset`**: `Some` exactly for the predicate variants, and the padded predicate is there -/
theorem predicate_offset_at {i : Val} (hi : wt env0 encDesc i = true) (k : InputKind) (hk : inputKind i = some k) :
    (predicateOffset i).isSome = k.hasPredicate ∧
    ∀ o, predicateOffset i = some o → At (encode env TxDesc.input i) o (padded (bytesOf (inputField k "predicate" i))) := by
  obtain ⟨k', p, S, hk', hp, _, hS, henc, b1, _, _, b4, _⟩ := input_layout hi
  rw [hk] at hk'; cases hk'
  obtain ⟨r1, r2⟩ := repr_dyn_offsets
  cases k <;> simp only [predicateOffset, hk, r1, r2, InputKind.hasPredicate, Option.isSome, Option.map, true_and, reduceCtorEq, false_implies, implies_true, and_self]
  all_goals intro o ho; cases ho; rw [henc]; simp only [inputField, hp, InputKind.struct, InputRepr.fromInput]
  · have : S.length = 168 := hS
    simp only [dynOf, InputRepr.fromInput, padded_nil, List.append_nil]
    rw [← this]; simpa using At.append_right _ (At.suffix S _)
  · have : S.length = 152 := hS
    rw [b4 rfl, padded_nil, List.append_nil]
    simp only [dynOf, InputRepr.fromInput]
    rw [← this]; simpa using At.append_right _ (At.suffix S _)
  · have : S.length = 152 := hS
    simp only [dynOf, InputRepr.fromInput] at b1 ⊢
    rw [paddedLen_eq _ b1, ← this, satAdd, ← List.length_append]
    simpa using At.append_right _ (At.suffix (S ++ padded _) _)

/-- **`Input::predicate_data_offset`**: `Some` exactly for the predicate variants, and the padded predicate data is there -/
theorem predicate_data_offset_at {i : Val} (hi : wt env0 encDesc i = true) (k : InputKind) (hk : inputKind i = some k) :
    (predicateDataOffset i).isSome = k.hasPredicate ∧
    ∀ o, predicateDataOffset i = some o → At (encode env TxDesc.input i) o (padded (bytesOf (inputField k "predicate_data" i))) := by
  obtain ⟨k', p, S, hk', hp, _, hS, henc, b1, b2, _, b4, _⟩ := input_layout hi
  rw [hk] at hk'; cases hk'
  obtain ⟨r1, r2⟩ := repr_dyn_offsets
  cases k <;> simp only [predicateDataOffset, predicateOffset, hk, r1, r2, InputKind.hasPredicate, Option.isSome, Option.map, true_and, reduceCtorEq, false_implies, implies_true, and_self]
  all_goals intro o ho; cases ho; rw [henc]; simp only [inputField, hp, InputKind.struct, InputRepr.fromInput]
  · have : S.length = 168 := hS
    simp only [dynOf, InputRepr.fromInput, padded_nil, List.append_nil] at b2 ⊢
    rw [paddedLen_eq _ b2, ← this, satAdd, ← List.length_append]
    simpa using At.suffix (S ++ padded _) _
  · have : S.length = 152 := hS
    rw [b4 rfl, padded_nil, List.append_nil]
    simp only [dynOf, InputRepr.fromInput] at b2 ⊢
    rw [paddedLen_eq _ b2, ← this, satAdd, ← List.length_append]
    simpa using At.suffix (S ++ padded _) _
  · have : S.length = 152 := hS
    simp only [dynOf, InputRepr.fromInput] at b1 b2 ⊢
    rw [paddedLen_eq _ b1, paddedLen_eq _ b2, ← this, satAdd, satAdd, ← List.length_append, ← List.length_append]
    simpa using At.suffix (S ++ padded _ ++ padded _) _

/-- **`Input::predicate_len`**: the predicate's length (0 for signed variants, `None` for a contract input),
and `padded_len_usize` of it is the length of the padded predicate that `predicate_offset` points at -/
theorem predicate_len_eq {i : Val} (hi : wt env0 encDesc i = true) (k : InputKind) (hk : inputKind i = some k) :
    predicateLen i = (if k = .contract then none else some (bytesOf (inputField k "predicate" i)).length) ∧
    ∀ n, predicateLen i = some n → paddedLenUsize n = some (padded (bytesOf (inputField k "predicate" i))).length := by
  obtain ⟨k', p, S, hk', hp, _, hS, henc, _, b2, _, _, b5⟩ := input_layout hi
  rw [hk] at hk'; cases hk'
  have key : predicateLen i = (if k = .contract then none else some (bytesOf (inputField k "predicate" i)).length) := by
    cases k <;> simp only [predicateLen, hk, reduceCtorEq, if_false, if_true]
    all_goals
      have := (b5 rfl).1
      simp only [dynOf, InputRepr.fromInput] at this
      simp [inputField, hp, InputKind.struct, InputRepr.fromInput, this]
  refine ⟨key, ?_⟩
  intro n hn
  rw [key] at hn
  split at hn
  · cases hn
  · rename_i hc
    cases hn
    have hb : (bytesOf (inputField k "predicate" i)).length ≤ VEC_DECODE_LIMIT := by
      cases k <;> first | exact absurd rfl hc | simpa [dynOf, InputRepr.fromInput, inputField, hp, InputKind.struct] using b2
    rw [paddedLenUsize_eq _ hb, padded_length]

end FuelVerif.Offsets
