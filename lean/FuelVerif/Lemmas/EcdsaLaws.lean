/-
The assumed laws of the curve parameter (`CurveLaws`) and the algebra of ECDSA recovery and
verification over a lawful curve, for the model functions of `Model/Ecdsa.lean`.

A lawful curve is a `Module (ZMod n)` with `n` prime (i.e. a group of prime order `n`) whose
operations are the ones the model calls, plus the decompression / coordinate facts.
-/
import Mathlib.Algebra.Module.Basic
import Mathlib.Tactic.Ring
import Mathlib.Tactic.FieldSimp
import FuelVerif.Lemmas.EcdsaScalar
namespace FuelVerif.Ecdsa
open FuelVerif

/-- What is assumed about the curve parameter (third-party library behaviour + the mathematics of
the curve): a group of prime order `n` acted on by `ZMod n`, whose operations are the ones the model
calls, and the facts about coordinates and decompression. -/
structure CurveLaws (E : Curve) [AddCommGroup E.Pt] [Module (ZMod E.n) E.Pt] : Prop where
  prime : E.n.Prime
  n_ne_two : E.n ≠ 2
  n_le_p : E.n ≤ E.p
  p_lt : E.p < 2 * E.n
  isZero_iff : ∀ P, E.isZero P = true ↔ P = 0
  g_ne : E.mulG 1 ≠ 0
  mulG_eq : ∀ k, E.mulG k = (k : ZMod E.n) • E.mulG 1
  lincomb_eq : ∀ u1 u2 P, E.lincomb u1 u2 P = (u1 : ZMod E.n) • E.mulG 1 + (u2 : ZMod E.n) • P
  lift_some : ∀ x odd P, E.liftX x odd = some P → P ≠ 0 ∧ (E.toXY P).1 = x ∧ yOdd E P = odd
  lift_self : ∀ P, P ≠ 0 → E.liftX (E.toXY P).1 (yOdd E P) = some P
  neg_xy : ∀ P, P ≠ 0 → (E.toXY (-P)).1 = (E.toXY P).1 ∧ yOdd E (-P) = !yOdd E P
  toXY_lt : ∀ P, P ≠ 0 → (E.toXY P).1 < E.p ∧ (E.toXY P).2 < E.p
  ofXY_toXY : ∀ P, P ≠ 0 → E.ofXY (E.toXY P).1 (E.toXY P).2 = some P
  ofXY_some : ∀ x y P, E.ofXY x y = some P → P ≠ 0 ∧ E.toXY P = (x, y)

variable {E : Curve} [AddCommGroup E.Pt] [Module (ZMod E.n) E.Pt]

/-- the key that `(r, s, R)` recovers for digest `z`: `r⁻¹ (s R − z G)` -/
def recPt (E : Curve) [AddCommGroup E.Pt] [Module (ZMod E.n) E.Pt] (z r s : Nat) (R : E.Pt) : E.Pt :=
  ((r : ZMod E.n)⁻¹) • (((s : ZMod E.n)) • R - ((z : ZMod E.n)) • E.mulG 1)

namespace CurveLaws
variable (L : CurveLaws E)
include L

theorem fact_prime : Fact E.n.Prime := ⟨L.prime⟩

theorem n_pos : 0 < E.n := L.prime.pos

theorem n_odd : E.n % 2 = 1 := by
  rcases L.prime.eq_two_or_odd with h | h
  · exact absurd h L.n_ne_two
  · exact h

theorem isZero_false {P : E.Pt} : E.isZero P = false ↔ P ≠ 0 := by
  rw [← Bool.not_eq_true, L.isZero_iff]

/-- `g` has exact order `n` -/
theorem smul_g_eq_zero {a : ZMod E.n} : a • E.mulG 1 = 0 ↔ a = 0 := by
  have := L.fact_prime
  constructor
  · intro h
    by_contra ha
    apply L.g_ne
    have := congrArg (fun P => a⁻¹ • P) h
    simpa [smul_smul, inv_mul_cancel₀ ha] using this
  · rintro rfl; simp

theorem smul_g_injective {a b : ZMod E.n} (h : a • E.mulG 1 = b • E.mulG 1) : a = b := by
  have : (a - b) • E.mulG 1 = 0 := by rw [sub_smul, h, sub_self]
  exact sub_eq_zero.mp (L.smul_g_eq_zero.mp this)

/-- in a module over the field `ZMod n`, a non-zero scalar acts injectively -/
theorem smul_eq_zero' {a : ZMod E.n} {P : E.Pt} (ha : a ≠ 0) (h : a • P = 0) : P = 0 := by
  have := L.fact_prime
  have := congrArg (fun P => a⁻¹ • P) h
  simpa [smul_smul, inv_mul_cancel₀ ha] using this

theorem lift_neg {x : Nat} {odd : Bool} {P : E.Pt} (h : E.liftX x odd = some P) :
    E.liftX x (!odd) = some (-P) := by
  obtain ⟨hP, hx, hy⟩ := L.lift_some _ _ _ h
  have hnP : -P ≠ 0 := neg_ne_zero.mpr hP
  have := L.lift_self (-P) hnP
  rw [(L.neg_xy P hP).1, (L.neg_xy P hP).2, hx, hy] at this
  exact this

theorem lift_none_neg {x : Nat} {odd : Bool} (h : E.liftX x odd = none) : E.liftX x (!odd) = none := by
  cases h' : E.liftX x (!odd) with
  | none => rfl
  | some P =>
    have := L.lift_neg h'
    rw [Bool.not_not, h] at this
    exact absurd this (by simp)


/-- the `lincomb` call of both recovery routines computes `recPt` -/
theorem lincomb_recover (z r s : Nat) (R : E.Pt) (hr0 : r ≠ 0) (hr : r < E.n) :
    E.lincomb (negN E.n (invN E.n r * z % E.n)) (invN E.n r * s % E.n) R = recPt E z r s R := by
  have := L.fact_prime
  have : NeZero E.n := ⟨L.n_pos.ne'⟩
  have hrz : (r : ZMod E.n) ≠ 0 := cast_ne_zero_of_lt hr0 hr
  rw [L.lincomb_eq, negN_cast, cast_mulmod, cast_mulmod, invN_cast r hrz]
  unfold recPt
  rw [smul_sub, smul_smul, smul_smul, neg_smul]
  abel

/-- verification equation on a recovered key gives back `R` -/
theorem verify_recovered (z r s : Nat) (R : E.Pt) (hr0 : r ≠ 0) (hr : r < E.n) (hs0 : s ≠ 0) (hs : s < E.n) :
    ((z : ZMod E.n) * (s : ZMod E.n)⁻¹) • E.mulG 1 + ((r : ZMod E.n) * (s : ZMod E.n)⁻¹) • recPt E z r s R = R := by
  have := L.fact_prime
  have hrz : (r : ZMod E.n) ≠ 0 := cast_ne_zero_of_lt hr0 hr
  have hsz : (s : ZMod E.n) ≠ 0 := cast_ne_zero_of_lt hs0 hs
  unfold recPt
  rw [smul_smul, smul_sub, smul_smul, smul_smul]
  have h1 : (r : ZMod E.n) * (s : ZMod E.n)⁻¹ * (r : ZMod E.n)⁻¹ * s = 1 := by field_simp
  have h2 : (r : ZMod E.n) * (s : ZMod E.n)⁻¹ * (r : ZMod E.n)⁻¹ * z = z * (s : ZMod E.n)⁻¹ := by field_simp
  rw [h1, h2, one_smul]
  abel

end CurveLaws
end FuelVerif.Ecdsa
