import FuelVerif.Lemmas.GtfMore
namespace FuelVerif.Gtf
open FuelVerif FuelVerif.Canonical FuelVerif.Offsets FuelVerif.TxId
open FuelVerif.Canonical.TxDesc (env envLaws)

theorem witness_is_code : TxDesc.witness = InputLaws.dCode := by decide +kernel

/-- a witness is its length word followed by its padded bytes -/
theorem witness_layout (w : Val) (h : wt env TxDesc.witness w = true) : At (encode env TxDesc.witness w) 8 (padded (bytesOf w)) := by
  rw [witness_is_code] at h ⊢
  obtain ⟨bs, rfl, _⟩ := InputLaws.wt_dCode h
  have : encode env InputLaws.dCode (((Val.bytes bs).pair Val.unit).pair Val.unit) = encU64 bs.length ++ padded bs := by
    simp [encode, encS, encD, InputLaws.dCode, InputLaws.dBytes, padded]
  rw [this]
  have := At.suffix (encU64 bs.length) (padded bs)
  rw [encU64_length] at this
  simpa [bytesOf] using this

theorem witnesses_wt {vm : Vm} (h : VmOk vm) : ∀ w ∈ vm.tx.witnesses, wt env TxDesc.witness w = true := by
  obtain ⟨hd, hb, _⟩ := kind_desc vm.tx.kind h.chargeable
  have hv := h.wt
  rw [hd] at hv
  have := (chargeable_layout vm.tx.kind.body vm.tx.kind vm.tx.val hv hb).2.2.2.2.1
  rw [← h.tx_eta] at this
  exact this

/-- **`WitnessData`**: the address holds the witness's padded bytes; `WitnessNotFound` exactly past the end -/
theorem witness_data_sound {vm : Vm} (h : VmOk vm) (b : Nat) :
    (∀ p, evalSpec vm b .witnessData = .ok p → ∃ w, vm.tx.witnesses[b]? = some w ∧ At vm.mem p (padded (bytesOf w))) ∧
    (evalSpec vm b .witnessData = .error .witnessNotFound ↔ vm.tx.witnesses.length ≤ b) := by
  have C := h.offsets
  simp only [evalSpec]
  cases ho : vm.tx.witnessesOffsetAt b with
  | none => have := (C.witnessNone b).mp ho; simp [okOr, this]
  | some o =>
    have hlt : ¬ vm.tx.witnesses.length ≤ b := by intro hc; have := (C.witnessNone b).mpr hc; rw [ho] at this; cases this
    have hx : ∃ x, vm.tx.witnesses[b]? = some x := ⟨vm.tx.witnesses[b]'(by omega), by simp [List.getElem?_eq_getElem (show b < vm.tx.witnesses.length by omega)]⟩
    obtain ⟨w, hw⟩ := hx
    simp only [okOr, Option.map_some, satAdd, hlt, iff_false, reduceCtorEq, not_false_eq_true, and_true]
    intro p hp
    simp only [Except.ok.injEq] at hp; subst hp
    have := h.lift (At.trans (C.witnessAt b o w ho hw) (witness_layout w (witnesses_wt h w (List.mem_of_getElem? hw))))
    have e : Gen.Offsets.WORD_SIZE = 8 := rfl
    rw [e, Nat.add_assoc]
    exact ⟨w, hw, this⟩

/-- `TxLength` is the number of bytes placed at `tx_offset`; the counts are the lengths of the three vectors; `Type` the kind -/
theorem value_arms {vm : Vm} (h : VmOk vm) (b : Nat) :
    evalSpec vm b .txLength = .ok (encode env vm.tx.kind.desc vm.tx.val).length ∧
    evalSpec vm b .inputsCount = .ok vm.tx.inputs.length ∧ evalSpec vm b .outputsCount = .ok vm.tx.outputs.length ∧
    evalSpec vm b .witnessesCount = .ok vm.tx.witnesses.length ∧ evalSpec vm b .txType = .ok vm.tx.kind.idx := by
  refine ⟨?_, rfl, rfl, rfl, rfl⟩
  simp only [evalSpec]
  rw [enc_length env envLaws _ (kind_desc vm.tx.kind h.chargeable).2.2 _ h.wt]

theorem okOr_err {α : Type} {o : Option α} {p e : Panic} (h : okOr o p = .error e) : e = p := by
  cases o <;> simp [okOr] at h; exact h.symm

theorem map_err {f : Nat → Nat} {r : Except Panic Nat} {e : Panic} (h : r.map f = .error e) : r = .error e := by
  cases r with
  | error e' => simp [Except.map] at h; rw [h]
  | ok q => simp [Except.map] at h

/-- the only panic of an input arm is `InputNotFound`, of an output pointer arm `OutputNotFound` -/
theorem input_arm_panic (vm : Vm) (b : Nat) (f : InFilter) (e : Panic) :
    (∀ m, evalSpec vm b (.inputReprPtr f m) = .error e → e = .inputNotFound) ∧
    (∀ d, evalSpec vm b (.inputPredPtr f d) = .error e → e = .inputNotFound) ∧
    (∀ w, evalSpec vm b (.inputVal f w) = .error e → e = .inputNotFound) ∧
    (∀ c m, evalSpec vm b (.outputReprPtr c m) = .error e → e = .outputNotFound) :=
  ⟨fun _ h => okOr_err (map_err h), fun _ h => okOr_err (map_err h), fun _ h => okOr_err h, fun _ _ h => okOr_err (map_err h)⟩

end FuelVerif.Gtf
