/- The hand-written `Input` codec (Model/InputCodec.lean) satisfies `CodecLaws`. -/
import FuelVerif.Lemmas.Canonical
import FuelVerif.Model.InputCodec
namespace FuelVerif.Canonical.InputLaws
open FuelVerif FuelVerif.Canonical
open FuelVerif.Canonical.InputCodec (env0 coinFull messageFull contract encDesc fieldNames reprDisc variantIdx getField capOf keepFields matchesP capNonzero unVariant)

theorem L0 : EnvLaws env0 := fun _ => CodecLaws.none

/-! the descriptors behind `Input`, spelled out (and proved equal to what is resolved from the generated
tables, so a change of the Rust structs breaks these equalities rather than silently changing the proof) -/
def dB32 : Desc := .pair (.bytesN 32) .unit
def dUtxo : Desc := .pair dB32 (.pair (.uint 2) .unit)
def dTxPtr : Desc := .pair (.pair (.uint 4) .unit) (.pair (.uint 2) .unit)
def dBytes : Desc := .pair .vecBytes .unit
def dCode : Desc := .pair dBytes .unit
/-- `Coin<_>` with the four specification-dependent field types -/
def coinOf (w g p d : Desc) : Desc :=
  .pair dUtxo (.pair dB32 (.pair (.uint 8) (.pair dB32 (.pair dTxPtr (.pair w (.pair g (.pair p (.pair d .unit))))))))
/-- `Message<_>` with the five specification-dependent field types -/
def msgOf (w g x p d : Desc) : Desc :=
  .pair dB32 (.pair dB32 (.pair (.uint 8) (.pair dB32 (.pair w (.pair g (.pair x (.pair p (.pair d .unit))))))))
def dContract : Desc := .pair dUtxo (.pair dB32 (.pair dB32 (.pair dTxPtr (.pair dB32 .unit))))

def dCoinSigned := coinOf (.uint 2) (.empty (.uint 8)) (.empty dCode) (.empty dBytes)
def dCoinPredicate := coinOf (.empty (.uint 2)) (.uint 8) dCode dBytes
def dCoinFull := coinOf (.uint 2) (.uint 8) dCode dBytes
def dMsgCoinSigned := msgOf (.uint 2) (.empty (.uint 8)) (.empty dBytes) (.empty dCode) (.empty dBytes)
def dMsgCoinPredicate := msgOf (.empty (.uint 2)) (.uint 8) (.empty dBytes) dCode dBytes
def dMsgDataSigned := msgOf (.uint 2) (.empty (.uint 8)) dBytes (.empty dCode) (.empty dBytes)
def dMsgDataPredicate := msgOf (.empty (.uint 2)) (.uint 8) dBytes dCode dBytes
def dMsgFull := msgOf (.uint 2) (.uint 8) dBytes dCode dBytes

theorem coinFull_eq : coinFull = dCoinFull := by decide +kernel
theorem messageFull_eq : messageFull = dMsgFull := by decide +kernel
theorem contract_eq : contract = dContract := by decide +kernel
theorem encDesc_eq : encDesc = .enum (.alt 0 dCoinSigned (.alt 0 dCoinPredicate (.alt 1 dContract
    (.alt 2 dMsgCoinSigned (.alt 2 dMsgCoinPredicate (.alt 2 dMsgDataSigned (.alt 2 dMsgDataPredicate .void))))))) := by
  decide +kernel
theorem fieldNames_coin : fieldNames "Coin" =
    ["utxo_id", "owner", "amount", "asset_id", "tx_pointer", "witness_index", "predicate_gas_used", "predicate", "predicate_data"] := by
  decide +kernel
theorem fieldNames_message : fieldNames "Message" =
    ["sender", "recipient", "amount", "nonce", "witness_index", "predicate_gas_used", "data", "predicate", "predicate_data"] := by
  decide +kernel
theorem reprDisc_coin : reprDisc "Coin" = 0 := by decide +kernel
theorem reprDisc_contract : reprDisc "Contract" = 1 := by decide +kernel
theorem reprDisc_message : reprDisc "Message" = 2 := by decide +kernel
theorem variantIdx_all : variantIdx "CoinSigned" = 0 ∧ variantIdx "CoinPredicate" = 1 ∧ variantIdx "Contract" = 2 ∧
    variantIdx "MessageCoinSigned" = 3 ∧ variantIdx "MessageCoinPredicate" = 4 ∧ variantIdx "MessageDataSigned" = 5 ∧
    variantIdx "MessageDataPredicate" = 6 := by decide +kernel
theorem inputVariants_specs : Gen.Canonical.inputVariants.map (fun r => (r.2.2.1, r.2.2.2)) =
    [("Coin", "Signed"), ("Coin", "Predicate"), ("InputContract", ""), ("Message", "MessageCoin<Signed>"),
     ("Message", "MessageCoin<Predicate>"), ("Message", "MessageData<Signed>"), ("Message", "MessageData<Predicate>")] := by
  decide +kernel

/-! destructuring well-typed values along the spine of a field list -/

theorem wt_pair {env : Env} {a b : Desc} {v : Val} (h : wt env (.pair a b) v = true) :
    ∃ x y, v = .pair x y ∧ wt env a x = true ∧ wt env b y = true := by
  cases v <;> simp [wt] at h
  exact ⟨_, _, rfl, h.1, h.2⟩
theorem wt_unit {env : Env} {v : Val} (h : wt env .unit v = true) : v = .unit := by
  cases v <;> simp [wt] at h; rfl
theorem wt_empty {env : Env} {d : Desc} {v : Val} (h : wt env (.empty d) v = true) : v = .unit := by
  cases v <;> simp [wt] at h; rfl
theorem wt_uint {env : Env} {n : Nat} {v : Val} (h : wt env (.uint n) v = true) : ∃ x, v = .int x ∧ x < 256 ^ n := by
  cases v <;> simp [wt] at h; exact ⟨_, rfl, h⟩
theorem wt_vecBytes {env : Env} {v : Val} (h : wt env .vecBytes v = true) : ∃ bs, v = .bytes bs ∧ bs.length ≤ VEC_DECODE_LIMIT := by
  cases v <;> simp [wt] at h; exact ⟨_, rfl, h⟩
theorem wt_dBytes {env : Env} {v : Val} (h : wt env dBytes v = true) :
    ∃ bs, v = .pair (.bytes bs) .unit ∧ bs.length ≤ VEC_DECODE_LIMIT := by
  obtain ⟨x, y, rfl, hx, hy⟩ := wt_pair h
  obtain ⟨bs, rfl, hb⟩ := wt_vecBytes hx
  rw [wt_unit hy]; exact ⟨bs, rfl, hb⟩
theorem wt_dCode {env : Env} {v : Val} (h : wt env dCode v = true) :
    ∃ bs, v = .pair (.pair (.bytes bs) .unit) .unit ∧ bs.length ≤ VEC_DECODE_LIMIT := by
  obtain ⟨x, y, rfl, hx, hy⟩ := wt_pair h
  obtain ⟨bs, rfl, hb⟩ := wt_dBytes hx
  rw [wt_unit hy]; exact ⟨bs, rfl, hb⟩

theorem pwt_pair {env : Env} {a b : Desc} {v : Val} (h : pwt env (.pair a b) v = true) :
    ∃ x y, v = .pair x y ∧ pwt env a x = true ∧ pwt env b y = true := by
  cases v <;> simp [pwt] at h
  exact ⟨_, _, rfl, h.1, h.2⟩
theorem pwt_unit {env : Env} {v : Val} (h : pwt env .unit v = true) : v = .unit := by
  cases v <;> simp [pwt] at h; rfl
theorem pwt_uint {env : Env} {n : Nat} {v : Val} (h : pwt env (.uint n) v = true) : ∃ x, v = .int x ∧ x < 256 ^ n := by
  cases v <;> simp [pwt] at h; exact ⟨_, rfl, h⟩
theorem pwt_vecBytes {env : Env} {v : Val} (h : pwt env .vecBytes v = true) : ∃ n, v = .cap n ∧ n ≤ VEC_DECODE_LIMIT := by
  cases v <;> simp [pwt] at h; exact ⟨_, rfl, h⟩
theorem pwt_dBytes {env : Env} {v : Val} (h : pwt env dBytes v = true) :
    ∃ n, v = .pair (.cap n) .unit ∧ n ≤ VEC_DECODE_LIMIT := by
  obtain ⟨x, y, rfl, hx, hy⟩ := pwt_pair h
  obtain ⟨n, rfl, hb⟩ := pwt_vecBytes hx
  rw [pwt_unit hy]; exact ⟨n, rfl, hb⟩
theorem pwt_dCode {env : Env} {v : Val} (h : pwt env dCode v = true) :
    ∃ n, v = .pair (.pair (.cap n) .unit) .unit ∧ n ≤ VEC_DECODE_LIMIT := by
  obtain ⟨x, y, rfl, hx, hy⟩ := pwt_pair h
  obtain ⟨n, rfl, hb⟩ := pwt_dBytes hx
  rw [pwt_unit hy]; exact ⟨n, rfl, hb⟩

/-- a nine-field list -/
def l9 (a b c d e f g h i : Val) : Val :=
  .pair a (.pair b (.pair c (.pair d (.pair e (.pair f (.pair g (.pair h (.pair i .unit))))))))

theorem wt_coinOf {w g p d : Desc} {v : Val} (h : wt env0 (coinOf w g p d) v = true) :
    ∃ f0 f1 f2 f3 f4 fw fg fp fd, v = l9 f0 f1 f2 f3 f4 fw fg fp fd ∧ wt env0 dUtxo f0 = true ∧ wt env0 dB32 f1 = true ∧
      wt env0 (.uint 8) f2 = true ∧ wt env0 dB32 f3 = true ∧ wt env0 dTxPtr f4 = true ∧ wt env0 w fw = true ∧
      wt env0 g fg = true ∧ wt env0 p fp = true ∧ wt env0 d fd = true := by
  obtain ⟨f0, r0, rfl, h0, h⟩ := wt_pair h
  obtain ⟨f1, r1, rfl, h1, h⟩ := wt_pair h
  obtain ⟨f2, r2, rfl, h2, h⟩ := wt_pair h
  obtain ⟨f3, r3, rfl, h3, h⟩ := wt_pair h
  obtain ⟨f4, r4, rfl, h4, h⟩ := wt_pair h
  obtain ⟨f5, r5, rfl, h5, h⟩ := wt_pair h
  obtain ⟨f6, r6, rfl, h6, h⟩ := wt_pair h
  obtain ⟨f7, r7, rfl, h7, h⟩ := wt_pair h
  obtain ⟨f8, r8, rfl, h8, h⟩ := wt_pair h
  rw [wt_unit h]
  exact ⟨f0, f1, f2, f3, f4, f5, f6, f7, f8, rfl, h0, h1, h2, h3, h4, h5, h6, h7, h8⟩

theorem wt_msgOf {w g x p d : Desc} {v : Val} (h : wt env0 (msgOf w g x p d) v = true) :
    ∃ f0 f1 f2 f3 fw fg fx fp fd, v = l9 f0 f1 f2 f3 fw fg fx fp fd ∧ wt env0 dB32 f0 = true ∧ wt env0 dB32 f1 = true ∧
      wt env0 (.uint 8) f2 = true ∧ wt env0 dB32 f3 = true ∧ wt env0 w fw = true ∧
      wt env0 g fg = true ∧ wt env0 x fx = true ∧ wt env0 p fp = true ∧ wt env0 d fd = true := by
  obtain ⟨f0, r0, rfl, h0, h⟩ := wt_pair h
  obtain ⟨f1, r1, rfl, h1, h⟩ := wt_pair h
  obtain ⟨f2, r2, rfl, h2, h⟩ := wt_pair h
  obtain ⟨f3, r3, rfl, h3, h⟩ := wt_pair h
  obtain ⟨f4, r4, rfl, h4, h⟩ := wt_pair h
  obtain ⟨f5, r5, rfl, h5, h⟩ := wt_pair h
  obtain ⟨f6, r6, rfl, h6, h⟩ := wt_pair h
  obtain ⟨f7, r7, rfl, h7, h⟩ := wt_pair h
  obtain ⟨f8, r8, rfl, h8, h⟩ := wt_pair h
  rw [wt_unit h]
  exact ⟨f0, f1, f2, f3, f4, f5, f6, f7, f8, rfl, h0, h1, h2, h3, h4, h5, h6, h7, h8⟩

theorem pwt_coinFull {v : Val} (h : pwt env0 dCoinFull v = true) :
    ∃ f0 f1 f2 f3 f4 w g np nd, v = l9 f0 f1 f2 f3 f4 (.int w) (.int g) (.pair (.pair (.cap np) .unit) .unit) (.pair (.cap nd) .unit) ∧
      pwt env0 dUtxo f0 = true ∧ pwt env0 dB32 f1 = true ∧ pwt env0 (.uint 8) f2 = true ∧ pwt env0 dB32 f3 = true ∧
      pwt env0 dTxPtr f4 = true ∧ w < 256 ^ 2 ∧ g < 256 ^ 8 ∧ np ≤ VEC_DECODE_LIMIT ∧ nd ≤ VEC_DECODE_LIMIT := by
  obtain ⟨f0, r0, rfl, h0, h⟩ := pwt_pair h
  obtain ⟨f1, r1, rfl, h1, h⟩ := pwt_pair h
  obtain ⟨f2, r2, rfl, h2, h⟩ := pwt_pair h
  obtain ⟨f3, r3, rfl, h3, h⟩ := pwt_pair h
  obtain ⟨f4, r4, rfl, h4, h⟩ := pwt_pair h
  obtain ⟨f5, r5, rfl, h5, h⟩ := pwt_pair h
  obtain ⟨f6, r6, rfl, h6, h⟩ := pwt_pair h
  obtain ⟨f7, r7, rfl, h7, h⟩ := pwt_pair h
  obtain ⟨f8, r8, rfl, h8, h⟩ := pwt_pair h
  rw [pwt_unit h]
  obtain ⟨w, rfl, hw⟩ := pwt_uint h5
  obtain ⟨g, rfl, hg⟩ := pwt_uint h6
  obtain ⟨np, rfl, hnp⟩ := pwt_dCode h7
  obtain ⟨nd, rfl, hnd⟩ := pwt_dBytes h8
  exact ⟨f0, f1, f2, f3, f4, w, g, np, nd, rfl, h0, h1, h2, h3, h4, hw, hg, hnp, hnd⟩

theorem pwt_msgFull {v : Val} (h : pwt env0 dMsgFull v = true) :
    ∃ f0 f1 f2 f3 w g nx np nd, v = l9 f0 f1 f2 f3 (.int w) (.int g) (.pair (.cap nx) .unit) (.pair (.pair (.cap np) .unit) .unit) (.pair (.cap nd) .unit) ∧
      pwt env0 dB32 f0 = true ∧ pwt env0 dB32 f1 = true ∧ pwt env0 (.uint 8) f2 = true ∧ pwt env0 dB32 f3 = true ∧
      w < 256 ^ 2 ∧ g < 256 ^ 8 ∧ nx ≤ VEC_DECODE_LIMIT ∧ np ≤ VEC_DECODE_LIMIT ∧ nd ≤ VEC_DECODE_LIMIT := by
  obtain ⟨f0, r0, rfl, h0, h⟩ := pwt_pair h
  obtain ⟨f1, r1, rfl, h1, h⟩ := pwt_pair h
  obtain ⟨f2, r2, rfl, h2, h⟩ := pwt_pair h
  obtain ⟨f3, r3, rfl, h3, h⟩ := pwt_pair h
  obtain ⟨f4, r4, rfl, h4, h⟩ := pwt_pair h
  obtain ⟨f5, r5, rfl, h5, h⟩ := pwt_pair h
  obtain ⟨f6, r6, rfl, h6, h⟩ := pwt_pair h
  obtain ⟨f7, r7, rfl, h7, h⟩ := pwt_pair h
  obtain ⟨f8, r8, rfl, h8, h⟩ := pwt_pair h
  rw [pwt_unit h]
  obtain ⟨w, rfl, hw⟩ := pwt_uint h4
  obtain ⟨g, rfl, hg⟩ := pwt_uint h5
  obtain ⟨nx, rfl, hnx⟩ := pwt_dBytes h6
  obtain ⟨np, rfl, hnp⟩ := pwt_dCode h7
  obtain ⟨nd, rfl, hnd⟩ := pwt_dBytes h8
  exact ⟨f0, f1, f2, f3, w, g, nx, np, nd, rfl, h0, h1, h2, h3, hw, hg, hnx, hnp, hnd⟩


/-! ### facts about the tables, evaluated once -/

theorem wf_all : (dCoinFull.wf && dCoinFull.nodup && dMsgFull.wf && dMsgFull.nodup && dContract.wf && dContract.nodup) = true := by decide
theorem encDesc_wf : (encDesc.wf && encDesc.vecNodup && encDesc.noSkip) = true := by decide +kernel

theorem idx_coin_predicate : (fieldNames "Coin").findIdx? (· == "predicate") = some 7 := by decide +kernel
theorem idx_msg_predicate : (fieldNames "Message").findIdx? (· == "predicate") = some 7 := by decide +kernel
theorem idx_msg_data : (fieldNames "Message").findIdx? (· == "data") = some 6 := by decide +kernel
theorem getField_coin_predicate (q : Val) : getField "Coin" "predicate" q = q.field 7 := by
  simp only [getField, idx_coin_predicate]
theorem getField_msg_predicate (q : Val) : getField "Message" "predicate" q = q.field 7 := by
  simp only [getField, idx_msg_predicate]
theorem getField_msg_data (q : Val) : getField "Message" "data" q = q.field 6 := by
  simp only [getField, idx_msg_data]

theorem m0 (q : Val) : matchesP (.inl q) = true := by
  simp [matchesP, unVariant, Gen.Canonical.inputVariants]
theorem m1 (q : Val) : matchesP (.inr (.inl q)) = capNonzero "Coin" "predicate" q := by
  simp [matchesP, unVariant, Gen.Canonical.inputVariants]
theorem m2 (q : Val) : matchesP (.inr (.inr (.inl q))) = true := by
  simp [matchesP, unVariant, Gen.Canonical.inputVariants]
theorem m3 (q : Val) : matchesP (.inr (.inr (.inr (.inl q)))) = true := by
  simp [matchesP, unVariant, Gen.Canonical.inputVariants]
theorem m4 (q : Val) : matchesP (.inr (.inr (.inr (.inr (.inl q))))) = capNonzero "Message" "predicate" q := by
  simp [matchesP, unVariant, Gen.Canonical.inputVariants]
theorem m5 (q : Val) : matchesP (.inr (.inr (.inr (.inr (.inr (.inl q)))))) = capNonzero "Message" "data" q := by
  simp [matchesP, unVariant, Gen.Canonical.inputVariants]
theorem m6 (q : Val) : matchesP (.inr (.inr (.inr (.inr (.inr (.inr (.inl q))))))) =
    (capNonzero "Message" "predicate" q && capNonzero "Message" "data" q) := by
  simp [matchesP, unVariant, Gen.Canonical.inputVariants]


/-! ### `decode_static` on the static part of an encoding, variant by variant -/

theorem field6 (a b c d e f g h i : Val) : (l9 a b c d e f g h i).field 6 = some g := by
  simp [l9, Val.field, Val.elems]
theorem field7 (a b c d e f g h i : Val) : (l9 a b c d e f g h i).field 7 = some h := by
  simp [l9, Val.field, Val.elems]

theorem wt_dflt_code : wt env0 dCode (dflt dCode) = true := by decide
theorem wt_dflt_bytes : wt env0 dBytes (dflt dBytes) = true := by decide

theorem coinSigned_case (p : Val) (r : Bytes) (h : wt env0 dCoinSigned p = true) :
    InputCodec.decS (encU64 0 ++ encS env0 dCoinSigned p ++ r) = .ok (.inl (partialOf env0 dCoinSigned p), r) := by
  obtain ⟨f0, f1, f2, f3, f4, fw, fg, fp, fd, rfl, h0, h1, h2, h3, h4, hw, hg, hp, hd⟩ := wt_coinOf h
  rw [wt_empty hg, wt_empty hp, wt_empty hd]
  have henc : encS env0 dCoinSigned (l9 f0 f1 f2 f3 f4 fw .unit .unit .unit) =
      encS env0 dCoinFull (l9 f0 f1 f2 f3 f4 fw (.int 0) (dflt dCode) (dflt dBytes)) := by
    simp only [dCoinSigned, dCoinFull, coinOf, l9, encS, dflt]
  have hwt : wt env0 dCoinFull (l9 f0 f1 f2 f3 f4 fw (.int 0) (dflt dCode) (dflt dBytes)) = true := by
    simp [dCoinFull, coinOf, l9, wt, h0, h1, h2, h3, h4, hw, wt_dflt_code, wt_dflt_bytes]
  unfold InputCodec.decS
  rw [List.append_assoc, decU64_encU64 0 _ (by decide)]
  simp only [reprDisc_coin, if_true, coinFull_eq]
  rw [henc, decS_encS env0 L0 dCoinFull (by decide) (by decide) _ r hwt]
  simp only [getField_coin_predicate]
  simp [dCoinFull, dCoinSigned, coinOf, l9, partialOf, dflt, dCode, dBytes, Val.field, Val.elems, capOf, keepFields,
    InputCodec.keptCoinSigned, fieldNames_coin, variantIdx_all.1, Val.variant]

theorem coinPredicate_case (p : Val) (r : Bytes) (h : wt env0 dCoinPredicate p = true)
    (hm : capNonzero "Coin" "predicate" (partialOf env0 dCoinPredicate p) = true) :
    InputCodec.decS (encU64 0 ++ encS env0 dCoinPredicate p ++ r) = .ok (.inr (.inl (partialOf env0 dCoinPredicate p)), r) := by
  obtain ⟨f0, f1, f2, f3, f4, fw, fg, fp, fd, rfl, h0, h1, h2, h3, h4, hw, hg, hp, hd⟩ := wt_coinOf h
  rw [wt_empty hw] at hm ⊢
  obtain ⟨pb, rfl, hpb⟩ := wt_dCode hp
  have hne : pb.length ≠ 0 := by
    simpa [capNonzero, getField_coin_predicate, dCoinPredicate, coinOf, l9, partialOf, Val.field, Val.elems, capOf, dCode, dBytes] using hm
  have henc : encS env0 dCoinPredicate (l9 f0 f1 f2 f3 f4 .unit fg (.pair (.pair (.bytes pb) .unit) .unit) fd) =
      encS env0 dCoinFull (l9 f0 f1 f2 f3 f4 (.int 0) fg (.pair (.pair (.bytes pb) .unit) .unit) fd) := by
    simp only [dCoinPredicate, dCoinFull, coinOf, l9, encS, dflt]
  have hwt : wt env0 dCoinFull (l9 f0 f1 f2 f3 f4 (.int 0) fg (.pair (.pair (.bytes pb) .unit) .unit) fd) = true := by
    simp [dCoinFull, coinOf, l9, wt, h0, h1, h2, h3, h4, hg, hp, hd]
  unfold InputCodec.decS
  rw [List.append_assoc, decU64_encU64 0 _ (by decide)]
  simp only [reprDisc_coin, if_true, coinFull_eq]
  rw [henc, decS_encS env0 L0 dCoinFull (by decide) (by decide) _ r hwt]
  simp only [getField_coin_predicate]
  simp [dCoinFull, dCoinPredicate, coinOf, l9, partialOf, dflt, dCode, dBytes, Val.field, Val.elems, capOf, keepFields,
    InputCodec.keptCoinPredicate, fieldNames_coin, variantIdx_all.2.1, Val.variant, hne]

theorem contract_case (p : Val) (r : Bytes) (h : wt env0 dContract p = true) :
    InputCodec.decS (encU64 1 ++ encS env0 dContract p ++ r) = .ok (.inr (.inr (.inl (partialOf env0 dContract p))), r) := by
  unfold InputCodec.decS
  rw [List.append_assoc, decU64_encU64 1 _ (by decide)]
  simp only [reprDisc_coin, reprDisc_contract, contract_eq]
  rw [decS_encS env0 L0 dContract (by decide) (by decide) _ r h]
  simp [variantIdx_all.2.2.1, Val.variant]


theorem msgCoinSigned_case (p : Val) (r : Bytes) (h : wt env0 dMsgCoinSigned p = true) :
    InputCodec.decS (encU64 2 ++ encS env0 dMsgCoinSigned p ++ r) = .ok (.inr (.inr (.inr (.inl (partialOf env0 dMsgCoinSigned p)))), r) := by
  obtain ⟨f0, f1, f2, f3, fw, fg, fx, fp, fd, rfl, h0, h1, h2, h3, hw, hg, hx, hp, hd⟩ := wt_msgOf h
  rw [wt_empty hg, wt_empty hx, wt_empty hp, wt_empty hd]
  have henc : encS env0 dMsgCoinSigned (l9 f0 f1 f2 f3 fw .unit .unit .unit .unit) =
      encS env0 dMsgFull (l9 f0 f1 f2 f3 fw (.int 0) (dflt dBytes) (dflt dCode) (dflt dBytes)) := by
    simp only [dMsgCoinSigned, dMsgFull, msgOf, l9, encS, dflt]
  have hwt : wt env0 dMsgFull (l9 f0 f1 f2 f3 fw (.int 0) (dflt dBytes) (dflt dCode) (dflt dBytes)) = true := by
    simp [dMsgFull, msgOf, l9, wt, h0, h1, h2, h3, wt_dflt_code, wt_dflt_bytes, hw]
  unfold InputCodec.decS
  rw [List.append_assoc, decU64_encU64 2 _ (by decide)]
  simp only [reprDisc_coin, reprDisc_contract, reprDisc_message, messageFull_eq]
  rw [henc, decS_encS env0 L0 dMsgFull (by decide) (by decide) _ r hwt]
  simp only [getField_msg_predicate, getField_msg_data]
  simp [dMsgFull, dMsgCoinSigned, msgOf, l9, partialOf, dflt, dCode, dBytes, Val.field, Val.elems, capOf, keepFields,
    InputCodec.keptMessageCoinSigned, fieldNames_message, variantIdx_all.2.2.2.1, Val.variant]

theorem msgCoinPredicate_case (p : Val) (r : Bytes) (h : wt env0 dMsgCoinPredicate p = true)
    (hmp : capNonzero "Message" "predicate" (partialOf env0 dMsgCoinPredicate p) = true) :
    InputCodec.decS (encU64 2 ++ encS env0 dMsgCoinPredicate p ++ r) = .ok (.inr (.inr (.inr (.inr (.inl (partialOf env0 dMsgCoinPredicate p))))), r) := by
  obtain ⟨f0, f1, f2, f3, fw, fg, fx, fp, fd, rfl, h0, h1, h2, h3, hw, hg, hx, hp, hd⟩ := wt_msgOf h
  rw [wt_empty hw, wt_empty hx] at hmp ⊢
  obtain ⟨pb, rfl, hpb⟩ := wt_dCode hp
  have hnp : pb.length ≠ 0 := by
    simpa [capNonzero, getField_msg_predicate, dMsgCoinPredicate, msgOf, l9, partialOf, Val.field, Val.elems, capOf, dCode, dBytes] using hmp

  have henc : encS env0 dMsgCoinPredicate (l9 f0 f1 f2 f3 .unit fg .unit (.pair (.pair (.bytes pb) .unit) .unit) fd) =
      encS env0 dMsgFull (l9 f0 f1 f2 f3 (.int 0) fg (dflt dBytes) (.pair (.pair (.bytes pb) .unit) .unit) fd) := by
    simp only [dMsgCoinPredicate, dMsgFull, msgOf, l9, encS, dflt]
  have hwt : wt env0 dMsgFull (l9 f0 f1 f2 f3 (.int 0) fg (dflt dBytes) (.pair (.pair (.bytes pb) .unit) .unit) fd) = true := by
    simp [dMsgFull, msgOf, l9, wt, h0, h1, h2, h3, wt_dflt_code, wt_dflt_bytes, hg, hp, hd]
  unfold InputCodec.decS
  rw [List.append_assoc, decU64_encU64 2 _ (by decide)]
  simp only [reprDisc_coin, reprDisc_contract, reprDisc_message, messageFull_eq]
  rw [henc, decS_encS env0 L0 dMsgFull (by decide) (by decide) _ r hwt]
  simp only [getField_msg_predicate, getField_msg_data]
  simp [dMsgFull, dMsgCoinPredicate, msgOf, l9, partialOf, dflt, dCode, dBytes, Val.field, Val.elems, capOf, keepFields,
    InputCodec.keptMessageCoinPredicate, fieldNames_message, variantIdx_all.2.2.2.2.1, Val.variant, hnp]

theorem msgDataSigned_case (p : Val) (r : Bytes) (h : wt env0 dMsgDataSigned p = true)
    (hmx : capNonzero "Message" "data" (partialOf env0 dMsgDataSigned p) = true) :
    InputCodec.decS (encU64 2 ++ encS env0 dMsgDataSigned p ++ r) = .ok (.inr (.inr (.inr (.inr (.inr (.inl (partialOf env0 dMsgDataSigned p)))))), r) := by
  obtain ⟨f0, f1, f2, f3, fw, fg, fx, fp, fd, rfl, h0, h1, h2, h3, hw, hg, hx, hp, hd⟩ := wt_msgOf h
  rw [wt_empty hg, wt_empty hp, wt_empty hd] at hmx ⊢
  obtain ⟨xb, rfl, hxb⟩ := wt_dBytes hx
  have hnx : xb.length ≠ 0 := by
    simpa [capNonzero, getField_msg_data, dMsgDataSigned, msgOf, l9, partialOf, Val.field, Val.elems, capOf, dCode, dBytes] using hmx

  have henc : encS env0 dMsgDataSigned (l9 f0 f1 f2 f3 fw .unit (.pair (.bytes xb) .unit) .unit .unit) =
      encS env0 dMsgFull (l9 f0 f1 f2 f3 fw (.int 0) (.pair (.bytes xb) .unit) (dflt dCode) (dflt dBytes)) := by
    simp only [dMsgDataSigned, dMsgFull, msgOf, l9, encS, dflt]
  have hwt : wt env0 dMsgFull (l9 f0 f1 f2 f3 fw (.int 0) (.pair (.bytes xb) .unit) (dflt dCode) (dflt dBytes)) = true := by
    simp [dMsgFull, msgOf, l9, wt, h0, h1, h2, h3, wt_dflt_code, wt_dflt_bytes, hw, hx]
  unfold InputCodec.decS
  rw [List.append_assoc, decU64_encU64 2 _ (by decide)]
  simp only [reprDisc_coin, reprDisc_contract, reprDisc_message, messageFull_eq]
  rw [henc, decS_encS env0 L0 dMsgFull (by decide) (by decide) _ r hwt]
  simp only [getField_msg_predicate, getField_msg_data]
  simp [dMsgFull, dMsgDataSigned, msgOf, l9, partialOf, dflt, dCode, dBytes, Val.field, Val.elems, capOf, keepFields,
    InputCodec.keptMessageDataSigned, fieldNames_message, variantIdx_all.2.2.2.2.2.1, Val.variant, hnx]

theorem msgDataPredicate_case (p : Val) (r : Bytes) (h : wt env0 dMsgDataPredicate p = true)
    (hmp : capNonzero "Message" "predicate" (partialOf env0 dMsgDataPredicate p) = true)
    (hmx : capNonzero "Message" "data" (partialOf env0 dMsgDataPredicate p) = true) :
    InputCodec.decS (encU64 2 ++ encS env0 dMsgDataPredicate p ++ r) = .ok (.inr (.inr (.inr (.inr (.inr (.inr (.inl (partialOf env0 dMsgDataPredicate p))))))), r) := by
  obtain ⟨f0, f1, f2, f3, fw, fg, fx, fp, fd, rfl, h0, h1, h2, h3, hw, hg, hx, hp, hd⟩ := wt_msgOf h
  rw [wt_empty hw] at hmp hmx ⊢
  obtain ⟨pb, rfl, hpb⟩ := wt_dCode hp
  obtain ⟨xb, rfl, hxb⟩ := wt_dBytes hx
  have hnp : pb.length ≠ 0 := by
    simpa [capNonzero, getField_msg_predicate, dMsgDataPredicate, msgOf, l9, partialOf, Val.field, Val.elems, capOf, dCode, dBytes] using hmp
  have hnx : xb.length ≠ 0 := by
    simpa [capNonzero, getField_msg_data, dMsgDataPredicate, msgOf, l9, partialOf, Val.field, Val.elems, capOf, dCode, dBytes] using hmx

  have henc : encS env0 dMsgDataPredicate (l9 f0 f1 f2 f3 .unit fg (.pair (.bytes xb) .unit) (.pair (.pair (.bytes pb) .unit) .unit) fd) =
      encS env0 dMsgFull (l9 f0 f1 f2 f3 (.int 0) fg (.pair (.bytes xb) .unit) (.pair (.pair (.bytes pb) .unit) .unit) fd) := by
    simp only [dMsgDataPredicate, dMsgFull, msgOf, l9, encS, dflt]
  have hwt : wt env0 dMsgFull (l9 f0 f1 f2 f3 (.int 0) fg (.pair (.bytes xb) .unit) (.pair (.pair (.bytes pb) .unit) .unit) fd) = true := by
    simp [dMsgFull, msgOf, l9, wt, h0, h1, h2, h3, wt_dflt_code, wt_dflt_bytes, hg, hx, hp, hd]
  unfold InputCodec.decS
  rw [List.append_assoc, decU64_encU64 2 _ (by decide)]
  simp only [reprDisc_coin, reprDisc_contract, reprDisc_message, messageFull_eq]
  rw [henc, decS_encS env0 L0 dMsgFull (by decide) (by decide) _ r hwt]
  simp only [getField_msg_predicate, getField_msg_data]
  simp [dMsgFull, dMsgDataPredicate, msgOf, l9, partialOf, dflt, dCode, dBytes, Val.field, Val.elems, capOf, keepFields,
    InputCodec.keptMessageDataPredicate, fieldNames_message, variantIdx_all.2.2.2.2.2.2, Val.variant, hnp, hnx]


/-- the seven shapes of a well-typed `Input` value -/
theorem wt_encDesc_cases {v : Val} (h : wt env0 encDesc v = true) :
    (∃ p, v = .inl p ∧ wt env0 dCoinSigned p = true) ∨
    (∃ p, v = .inr (.inl p) ∧ wt env0 dCoinPredicate p = true) ∨
    (∃ p, v = .inr (.inr (.inl p)) ∧ wt env0 dContract p = true) ∨
    (∃ p, v = .inr (.inr (.inr (.inl p))) ∧ wt env0 dMsgCoinSigned p = true) ∨
    (∃ p, v = .inr (.inr (.inr (.inr (.inl p)))) ∧ wt env0 dMsgCoinPredicate p = true) ∨
    (∃ p, v = .inr (.inr (.inr (.inr (.inr (.inl p))))) ∧ wt env0 dMsgDataSigned p = true) ∨
    (∃ p, v = .inr (.inr (.inr (.inr (.inr (.inr (.inl p)))))) ∧ wt env0 dMsgDataPredicate p = true) := by
  rw [encDesc_eq] at h
  simp only [wt] at h
  cases v <;> simp [wt] at h
  · exact Or.inl ⟨_, rfl, h⟩
  rename_i v; cases v <;> simp [wt] at h
  · exact Or.inr (Or.inl ⟨_, rfl, h⟩)
  rename_i v; cases v <;> simp [wt] at h
  · exact Or.inr (Or.inr (Or.inl ⟨_, rfl, h⟩))
  rename_i v; cases v <;> simp [wt] at h
  · exact Or.inr (Or.inr (Or.inr (Or.inl ⟨_, rfl, h⟩)))
  rename_i v; cases v <;> simp [wt] at h
  · exact Or.inr (Or.inr (Or.inr (Or.inr (Or.inl ⟨_, rfl, h⟩))))
  rename_i v; cases v <;> simp [wt] at h
  · exact Or.inr (Or.inr (Or.inr (Or.inr (Or.inr (Or.inl ⟨_, rfl, h⟩)))))
  rename_i v; cases v <;> simp [wt] at h
  · exact Or.inr (Or.inr (Or.inr (Or.inr (Or.inr (Or.inr ⟨_, rfl, h⟩)))))

theorem input_decS_encS (v : Val) (r : Bytes) (h : InputCodec.wt v = true) :
    InputCodec.decS (encS env0 encDesc v ++ r) = .ok (partialOf env0 encDesc v, r) := by
  simp only [InputCodec.wt, Bool.and_eq_true] at h
  obtain ⟨hw, hm⟩ := h
  rcases wt_encDesc_cases hw with ⟨p, rfl, hp⟩ | ⟨p, rfl, hp⟩ | ⟨p, rfl, hp⟩ | ⟨p, rfl, hp⟩ | ⟨p, rfl, hp⟩ | ⟨p, rfl, hp⟩ | ⟨p, rfl, hp⟩
  all_goals (rw [encDesc_eq] at hm ⊢; simp only [encS, partialOf] at hm ⊢)
  · exact coinSigned_case p r hp
  · rw [m1] at hm; exact coinPredicate_case p r hp hm
  · exact contract_case p r hp
  · exact msgCoinSigned_case p r hp
  · rw [m4] at hm; exact msgCoinPredicate_case p r hp hm
  · rw [m5] at hm; exact msgDataSigned_case p r hp hm
  · rw [m6, Bool.and_eq_true] at hm; exact msgDataPredicate_case p r hp hm.1 hm.2


/-! ### what `Input::decode_static` consumed, for arbitrary bytes -/

theorem input_decS_sound (bs : Bytes) (p : Val) (r : Bytes) (h : InputCodec.decS bs = .ok (p, r)) :
    ∃ u, bs = u ++ r ∧ u.length = sizeS env0 encDesc p ∧ InputCodec.pwt p = true := by
  unfold InputCodec.decS at h
  split at h
  · cases h
  · rename_i w r1 h1
    obtain ⟨u0, hu0, hl0, _⟩ := decU64_sound h1
    simp only [reprDisc_coin, reprDisc_contract, reprDisc_message, coinFull_eq, contract_eq, messageFull_eq] at h
    split at h
    · -- coin
      split at h
      · cases h
      · rename_i q r2 h2
        obtain ⟨u1, hu1, hl1, hq⟩ := decS_sound env0 L0 dCoinFull (by decide) h2
        obtain ⟨f0, f1, f2, f3, f4, wi, g, np, nd, rfl, h0, h1', h2', h3, h4, hw, hg, hnp, hnd⟩ := pwt_coinFull hq
        simp only [getField_coin_predicate, field7, Option.bind_some, capOf] at h
        by_cases hz : np = 0
        · subst hz
          simp only [if_true, Except.ok.injEq, Prod.mk.injEq] at h
          obtain ⟨rfl, rfl⟩ := h
          refine ⟨u0 ++ u1, by rw [hu0, hu1, List.append_assoc], ?_, ?_⟩
          · rw [encDesc_eq]
            simp [hl0, hl1, dCoinFull, dCoinSigned, coinOf, l9, sizeS, dflt, dCode, dBytes, keepFields, InputCodec.keptCoinSigned,
              fieldNames_coin, variantIdx_all.1, Val.variant]
          · rw [InputCodec.pwt, encDesc_eq]
            simp [dCoinSigned, coinOf, l9, pwt, keepFields, InputCodec.keptCoinSigned, fieldNames_coin, variantIdx_all.1,
              Val.variant, m0, h0, h1', h2', h3, h4, hw]
        · simp only [if_neg hz, Except.ok.injEq, Prod.mk.injEq] at h
          obtain ⟨rfl, rfl⟩ := h
          refine ⟨u0 ++ u1, by rw [hu0, hu1, List.append_assoc], ?_, ?_⟩
          · rw [encDesc_eq]
            simp [hl0, hl1, dCoinFull, dCoinPredicate, coinOf, l9, sizeS, dflt, dCode, dBytes, keepFields, InputCodec.keptCoinPredicate,
              fieldNames_coin, variantIdx_all.2.1, Val.variant]
          · rw [InputCodec.pwt, encDesc_eq]
            simp [dCoinPredicate, coinOf, l9, pwt, keepFields, InputCodec.keptCoinPredicate, fieldNames_coin, variantIdx_all.2.1,
              Val.variant, m1, capNonzero, getField_coin_predicate, Val.field, Val.elems, capOf, dCode, dBytes,
              h0, h1', h2', h3, h4, hg, hnp, hnd, hz]
    · split at h
      · -- contract
        split at h
        · cases h
        · rename_i q r2 h2
          simp only [Except.ok.injEq, Prod.mk.injEq] at h
          obtain ⟨rfl, rfl⟩ := h
          obtain ⟨u1, hu1, hl1, hq⟩ := decS_sound env0 L0 dContract (by decide) h2
          refine ⟨u0 ++ u1, by rw [hu0, hu1, List.append_assoc], ?_, ?_⟩
          · rw [encDesc_eq]; simp [hl0, hl1, sizeS, variantIdx_all.2.2.1, Val.variant]
          · rw [InputCodec.pwt, encDesc_eq]; simp [pwt, variantIdx_all.2.2.1, Val.variant, m2, hq]
      · split at h
        · -- message
          split at h
          · cases h
          · rename_i q r2 h2
            obtain ⟨u1, hu1, hl1, hq⟩ := decS_sound env0 L0 dMsgFull (by decide) h2
            obtain ⟨f0, f1, f2, f3, wi, g, nx, np, nd, rfl, h0, h1', h2', h3, hw, hg, hnx, hnp, hnd⟩ := pwt_msgFull hq
            simp only [getField_msg_predicate, getField_msg_data, field6, field7, Option.bind_some, capOf] at h
            by_cases hx : nx = 0 <;> by_cases hp : np = 0
            all_goals (
              simp only [hx, hp, decide_true, decide_false, Except.ok.injEq, Prod.mk.injEq] at h
              obtain ⟨rfl, rfl⟩ := h
              refine ⟨u0 ++ u1, by rw [hu0, hu1, List.append_assoc], ?_, ?_⟩)
            all_goals first
              | (rw [encDesc_eq]
                 simp [hl0, hl1, dMsgFull, dMsgCoinSigned, dMsgCoinPredicate, dMsgDataSigned, dMsgDataPredicate, msgOf, l9, sizeS, dflt,
                   dCode, dBytes, keepFields, InputCodec.keptMessageCoinSigned, InputCodec.keptMessageCoinPredicate,
                   InputCodec.keptMessageDataSigned, InputCodec.keptMessageDataPredicate, fieldNames_message, variantIdx_all, Val.variant]
                 done)
              | (rw [InputCodec.pwt, encDesc_eq]
                 simp [dMsgCoinSigned, dMsgCoinPredicate, dMsgDataSigned, dMsgDataPredicate, msgOf, l9, pwt, keepFields,
                   InputCodec.keptMessageCoinSigned, InputCodec.keptMessageCoinPredicate,
                   InputCodec.keptMessageDataSigned, InputCodec.keptMessageDataPredicate, fieldNames_message, variantIdx_all,
                   Val.variant, m3, m4, m5, m6, capNonzero, getField_msg_predicate, getField_msg_data, Val.field, Val.elems, capOf,
                   dCode, dBytes, h0, h1', h2', h3, hw, hg, hnx, hnp, hnd, hx, hp])
        · cases h


theorem encDesc_wf' : encDesc.wf = true ∧ encDesc.vecNodup = true ∧ encDesc.noSkip = true := by
  have := encDesc_wf
  simp only [Bool.and_eq_true] at this
  exact ⟨this.1.1, this.1.2, this.2⟩

/-- the hand-written `Input` codec satisfies the laws, for all seven variants and all field values -/
theorem laws : CodecLaws InputCodec.codec where
  sizeS_len := by
    intro v h
    simp only [InputCodec.codec, InputCodec.wt, Bool.and_eq_true] at h ⊢
    exact ((enc_length_aux env0 L0 encDesc).1 encDesc_wf'.1 v h.1).1
  sizeD_len := by
    intro v h
    simp only [InputCodec.codec, InputCodec.wt, Bool.and_eq_true] at h ⊢
    exact ((enc_length_aux env0 L0 encDesc).1 encDesc_wf'.1 v h.1).2
  sizeS_al := by
    intro v h
    simp only [InputCodec.codec, InputCodec.wt, Bool.and_eq_true] at h ⊢
    exact (size_aligned env0 L0 encDesc encDesc_wf'.1 v h.1).1
  sizeD_al := by
    intro v h
    simp only [InputCodec.codec, InputCodec.wt, Bool.and_eq_true] at h ⊢
    exact (size_aligned env0 L0 encDesc encDesc_wf'.1 v h.1).2
  decS_encS := by
    intro v r h
    simp only [InputCodec.codec] at h ⊢
    exact input_decS_encS v r h
  decD_encD := by
    intro v r h
    simp only [InputCodec.codec, InputCodec.wt, Bool.and_eq_true] at h ⊢
    have := decD_encD_aux env0 L0 encDesc (Or.inl encDesc_wf'.1) encDesc_wf'.2.1 v r h.1
    rw [erase_noSkip env0 encDesc encDesc_wf'.2.2 v h.1] at this
    exact this
  decS_sound := by
    intro bs p r h
    simp only [InputCodec.codec] at h ⊢
    exact input_decS_sound bs p r h
  decD_sound := by
    intro p bs v r hp h
    simp only [InputCodec.codec, InputCodec.pwt, InputCodec.decD, Bool.and_eq_true] at hp h ⊢
    obtain ⟨u, hu, hl, hs, hw, _, hpo⟩ := decD_sound_aux env0 L0 encDesc (Or.inl encDesc_wf'.1) p bs v r hp.1 h
    exact ⟨u, hu, hl, hs, by simp [InputCodec.wt, hw, hpo, hp.2], hpo⟩

end FuelVerif.Canonical.InputLaws
