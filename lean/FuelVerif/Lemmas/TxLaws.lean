/- The environment of hand-written codecs used by the protocol descriptors satisfies `EnvLaws`. -/
import FuelVerif.Lemmas.PoliciesLaws
import FuelVerif.Lemmas.InputLaws
import FuelVerif.Model.TxDesc
namespace FuelVerif.Canonical.TxDesc
open FuelVerif FuelVerif.Canonical

theorem envLaws : EnvLaws env := by
  intro k
  unfold env
  split
  · exact Policies.laws
  · split
    · exact InputLaws.laws
    · exact CodecLaws.none


/-! ### the hand-written `Transaction` codec -/

/-- the prefix word a struct's static part starts with -/
def leadPrefix : Desc → Option Nat
  | .pre p _ => some p
  | .pair a _ => leadPrefix a
  | _ => none

theorem encS_leadPrefix (e : Env) : ∀ (d : Desc) (p : Nat), leadPrefix d = some p → ∀ v, wt e d v = true →
    ∃ tail, encS e d v = encU64 p ++ tail := by
  intro d
  induction d with
  | pre q d _ =>
    intro p h v _
    simp only [leadPrefix, Option.some.injEq] at h
    subst h
    exact ⟨encS e d v, by simp [encS]⟩
  | pair a b iha _ =>
    intro p h v hv
    simp only [leadPrefix] at h
    cases v <;> simp [wt] at hv
    rename_i va vb
    obtain ⟨t, ht⟩ := iha p h va hv.1
    exact ⟨t ++ encS e b vb, by simp [encS, ht]⟩
  | _ => intro p h; simp [leadPrefix] at h

theorem onVariant_variant {α : Type} (dflt : α) (f : Desc → Val → α) : ∀ (i : Nat) (ds : List Desc) (d : Desc) (x : Val),
    ds[i]? = some d → onVariant dflt f ds (Val.variant i x) = f d x := by
  intro i
  induction i with
  | zero =>
    intro ds d x h
    cases ds with
    | nil => simp at h
    | cons a ds => simp at h; subst h; simp [Val.variant, onVariant]
  | succ i ih =>
    intro ds d x h
    cases ds with
    | nil => simp at h
    | cons a ds => simp at h; simp [Val.variant, onVariant, ih ds d x h]

theorem go_variant (bs : Bytes) : ∀ (i : Nat) (ds : List Desc) (d : Desc) (p : Val), ds[i]? = some d →
    txDecD.go bs ds (Val.variant i p) =
      match decD env d p bs with
      | .error e => .error e
      | .ok (v, r) => .ok (Val.variant i v, r) := by
  intro i
  induction i with
  | zero =>
    intro ds d p h
    cases ds with
    | nil => simp at h
    | cons a ds =>
      simp at h; subst h; simp only [Val.variant, txDecD.go]
      rcases decD env a p bs with e | ⟨v, r⟩ <;> rfl
  | succ i ih =>
    intro ds d p h
    cases ds with
    | nil => simp at h
    | cons a ds =>
      simp at h
      simp only [Val.variant, txDecD.go, ih ds d p h]
      rcases decD env d p bs with e | ⟨v, r⟩ <;> rfl

theorem txErase_variant : ∀ (i : Nat) (ds : List Desc) (d : Desc) (x : Val), ds[i]? = some d →
    txErase ds (Val.variant i x) = Val.variant i (erase env d x) := by
  intro i
  induction i with
  | zero =>
    intro ds d x h
    cases ds with
    | nil => simp at h
    | cons a ds => simp at h; subst h; simp [Val.variant, txErase]
  | succ i ih =>
    intro ds d x h
    cases ds with
    | nil => simp at h
    | cons a ds => simp at h; simp [Val.variant, txErase, ih ds d x h]

/-- a well-typed transaction value is some variant of `enum Transaction` around a well-typed struct value -/
theorem txWt_cases : ∀ (ds : List Desc) (v : Val), onVariant false (wt env) ds v = true →
    ∃ i d x, v = Val.variant i x ∧ ds[i]? = some d ∧ wt env d x = true := by
  intro ds
  induction ds with
  | nil => intro v h; cases v <;> simp [onVariant] at h
  | cons a ds ih =>
    intro v h
    cases v <;> simp [onVariant] at h
    · exact ⟨0, a, _, rfl, by simp, h⟩
    · obtain ⟨i, d, x, rfl, hi, hx⟩ := ih _ h
      exact ⟨i + 1, d, x, rfl, by simpa using hi, hx⟩

/-- facts about the six transaction structs, evaluated on the regenerated tables: struct `i` is
well-formed, starts with prefix `i`, `TransactionRepr` discriminant `i` is valid and dispatches to it -/
def txRowOk (i : Nat) : Bool :=
  match txDescs[i]? with
  | some d => d.wf && d.nodup && (leadPrefix d == some i) && (txOfDisc i == some (i, d)) &&
      (match decode env transactionRepr (natBE 8 i) with | .ok _ => true | .error _ => false)
  | none => false

theorem tx_rows_ok : (List.range 6).all txRowOk = true ∧ txDescs.length = 6 := by decide +kernel

theorem tx_row {i : Nat} {d : Desc} (h : txDescs[i]? = some d) :
    i < 6 ∧ d.wf = true ∧ d.nodup = true ∧ leadPrefix d = some i ∧ txOfDisc i = some (i, d) ∧
      ∃ x, decode env transactionRepr (natBE 8 i) = .ok x := by
  have hlen := tx_rows_ok.2
  have hi : i < 6 := by
    have := (List.getElem?_eq_some_iff.mp h).1
    omega
  have := tx_rows_ok.1
  simp only [List.all_eq_true, List.mem_range] at this
  have hr := this i hi
  simp only [txRowOk, h, Bool.and_eq_true, beq_iff_eq] at hr
  obtain ⟨⟨⟨⟨h1, h2⟩, h3⟩, h4⟩, h5⟩ := hr
  refine ⟨hi, h1, h2, h3, h4, ?_⟩
  split at h5
  · exact ⟨_, by assumption⟩
  · cases h5

theorem encU64_eq (x : Nat) : encU64 x = natBE 8 x := by
  simp [encU64, encUint, show alignmentBytes 8 = 0 by decide, zeros]

/-- **round trip of `Transaction`** -/
theorem tx_roundtrip (v : Val) (rest : Bytes) (hv : txWt v = true) :
    txDecode (txEncode v ++ rest) = .ok (txErase txDescs v, rest) ∧
    (txEncode v).length = txSize v ∧ 8 ∣ txSize v := by
  obtain ⟨i, d, x, rfl, hi, hx⟩ := txWt_cases txDescs v hv
  obtain ⟨hlt, hwf, hnd, hlead, hdisc, y, hrepr⟩ := tx_row hi
  obtain ⟨tail, htail⟩ := encS_leadPrefix env d i hlead x hx
  have hS : txEncS (Val.variant i x) = encS env d x := onVariant_variant _ _ i txDescs d x hi
  have hD : txEncD (Val.variant i x) = encD env d x := onVariant_variant _ _ i txDescs d x hi
  have hsS : txSizeS (Val.variant i x) = sizeS env d x := onVariant_variant _ _ i txDescs d x hi
  have hsD : txSizeD (Val.variant i x) = sizeD env d x := onVariant_variant _ _ i txDescs d x hi
  obtain ⟨hl1, hl2⟩ := (enc_length_aux env envLaws d).1 hwf x hx
  obtain ⟨ha1, ha2⟩ := size_aligned env envLaws d hwf x hx
  refine ⟨?_, by simp [txEncode, txSize, hS, hD, hsS, hsD, hl1, hl2], by rw [txSize, hsS, hsD]; exact Nat.dvd_add ha1 ha2⟩
  have hpeek : peek 8 (txEncode (Val.variant i x) ++ rest) = .ok (natBE 8 i) := by
    simp only [txEncode, hS, htail, encU64_eq, List.append_assoc, peek]
    simp [length_natBE]
  have hbe : beNat (natBE 8 i) = i := beNat_natBE 8 i (by omega)
  simp only [txDecode, txDecS, hpeek, hrepr, hbe, hdisc]
  simp only [txEncode, hS, hD, List.append_assoc]
  rw [decS_encS env envLaws d hwf hnd x _ hx]
  simp only [txDecD]
  rw [go_variant _ i txDescs d _ hi, decD_encD_aux env envLaws d (Or.inl hwf) (nodup_vecNodup d hnd) x rest hx,
    txErase_variant i txDescs d x hi]

/-- **arbitrary bytes as a `Transaction`**: consumed = size of the returned value; the value is
well-typed; re-encoding and decoding it is the fixed point -/
theorem tx_decode_sound (bs rest : Bytes) (v : Val) (h : txDecode bs = .ok (v, rest)) :
    (∃ used, bs = used ++ rest ∧ used.length = txSize v) ∧ txWt v = true ∧ (txEncode v).length = txSize v ∧
    txDecode (txEncode v) = .ok (v, []) := by
  simp only [txDecode, txDecS] at h
  split at h
  · cases h
  · rename_i p r1 h1
    split at h1
    · cases h1
    · rename_i disc hpk
      split at h1
      · cases h1
      · split at h1
        · cases h1
        · rename_i i d hod
          split at h1
          · cases h1
          · rename_i q r2 hq
            simp only [Except.ok.injEq, Prod.mk.injEq] at h1
            obtain ⟨rfl, rfl⟩ := h1
            have hi : txDescs[i]? = some d := by
              simp only [txOfDisc] at hod
              split at hod
              · rename_i j _
                cases hj : txDescs[j]? with
                | none => simp [hj] at hod
                | some d' =>
                  simp only [hj, Option.map_some, Option.some.injEq, Prod.mk.injEq] at hod
                  obtain ⟨rfl, rfl⟩ := hod
                  exact hj
              · cases hod
            obtain ⟨_, hwf, hnd, _, _, _⟩ := tx_row hi
            simp only [txDecD] at h
            rw [go_variant _ i txDescs d _ hi] at h
            split at h
            · cases h
            · rename_i x r3 hx
              simp only [Except.ok.injEq, Prod.mk.injEq] at h
              obtain ⟨rfl, rfl⟩ := h
              obtain ⟨u1, hu1, hl1, hp⟩ := decS_sound env envLaws d hwf hq
              obtain ⟨u2, hu2, hl2, hs, hw, he, _⟩ := decD_sound_aux env envLaws d (Or.inl hwf) _ _ _ _ hp hx
              have hsS : txSizeS (Val.variant i x) = sizeS env d x := onVariant_variant _ _ i txDescs d x hi
              have hsD : txSizeD (Val.variant i x) = sizeD env d x := onVariant_variant _ _ i txDescs d x hi
              have hwt : txWt (Val.variant i x) = true := by
                rw [txWt, onVariant_variant _ _ i txDescs d x hi]; exact hw
              have hrt := tx_roundtrip (Val.variant i x) [] hwt
              refine ⟨⟨u1 ++ u2, by rw [hu1, hu2, List.append_assoc], by simp [txSize, hsS, hsD, hl1, hl2, hs]⟩, hwt, hrt.2.1, ?_⟩
              have := hrt.1
              rwa [List.append_nil, txErase_variant i txDescs d x hi, he] at this

end FuelVerif.Canonical.TxDesc
