/- Helper lemmas for C34 (Props/C34.lean): inversion of a successful `prepare_call`, memory frame lemmas. -/
import FuelVerif.Model.Call
namespace FuelVerif.Call
open FuelVerif.Gen

theorem bind_ok {ε α β : Type} {x : Except ε α} {f : α → Except ε β} {b : β}
    (h : (x >>= f) = .ok b) : ∃ a, x = .ok a ∧ f a = .ok b := by
  cases x with
  | error e => cases h
  | ok a => exact ⟨a, rfl, h⟩


theorem check_ok {c : Bool} {e : Err} {u : Unit} (h : check c e = .ok u) : c = true := by
  unfold check at h
  split at h
  · assumption
  · cases h

theorem gasCharge_ok {r r' : Regs} {g : Nat} (h : gasCharge r g = .ok r') :
    r' regCgas ≤ r regCgas ∧ ∀ i, i ≠ regCgas → i ≠ regGgas → r' i = r i := by
  unfold gasCharge at h
  split at h
  · cases h
  · cases h
    refine ⟨by simp [setReg], ?_⟩
    intro i h1 h2
    simp [setReg, h1, h2]

/-- everything `prepare_call` established when it succeeded -/
structure CallFacts (d : Nat) (env : CallEnv) (vm : VM) where
  to : Bytes
  asset : Bytes
  ca : Nat
  cb : Nat
  codeSize : Nat
  r2 : Regs
  m0 : Mem
  m1 : Mem
  m2 : Mem
  code : Bytes
  hsize : env.codeSize = .ok codeSize
  hlisted : env.listed = true
  hr2 : ∀ i, i ≠ regCgas → i ≠ regGgas → r2 i = vm.regs i
  hr2c : r2 regCgas ≤ vm.regs regCgas
  hfit : vm.regs regSp + (frameSize + padded codeSize) ≤ vmMaxRam
  hdebit : debit env vm = .ok m0
  hgrow : m0.growStack (vm.regs regSp + (frameSize + padded codeSize)) = .ok m1
  hwrite : m1.writeNoOwner (vm.regs regSp)
      ((⟨to, asset, setReg r2 regCgas (r2 regCgas - min (r2 regCgas) d), padded codeSize, ca, cb⟩ : Frame).toBytes
        ++ code.take codeSize ++ zeros (padded codeSize - codeSize)) = .ok m2
  hto : to.length = 32
  hasset : asset.length = 32

/-- the state `prepare_call` built -/
def CallFacts.result {d : Nat} {env : CallEnv} {vm : VM} (F : CallFacts d env vm) (b : Nat) : VM :=
  buildCallee vm F.to F.asset F.ca F.cb b (min (F.r2 regCgas) d) F.r2 (padded F.codeSize) F.m2

theorem growStack_fit {m m1 : Mem} {x : Nat} (h : m.growStack (min x (2 ^ 64 - 1)) = .ok m1) :
    x ≤ vmMaxRam ∧ m.growStack x = .ok m1 := by
  have hle : min x (2 ^ 64 - 1) ≤ vmMaxRam := by
    unfold Mem.growStack at h
    split at h
    · cases h
    · omega
  have hx : x ≤ vmMaxRam := by
    simp only [vmMaxRam] at hle ⊢
    omega
  have : min x (2 ^ 64 - 1) = x := by simp only [vmMaxRam] at hx; omega
  rw [this] at h
  exact ⟨hx, h⟩

theorem read_length {m : Mem} {s n : Nat} {bs : Bytes} (h : m.read s n = .ok bs) : bs.length = n := by
  unfold Mem.read at h
  split at h
  · cases h
  · cases h; simp

theorem prepareCall_ok {a b c d : Nat} {env : CallEnv} {vm vm' : VM}
    (h : prepareCall a b c d env vm = .ok vm') : ∃ F : CallFacts d env vm, vm' = F.result b := by
  unfold prepareCall at h
  obtain ⟨r0, h0, h⟩ := bind_ok h
  obtain ⟨callBytes, hcb, h⟩ := bind_ok h
  obtain ⟨asset, has, h⟩ := bind_ok h
  obtain ⟨codeSize, hcs, h⟩ := bind_ok h
  obtain ⟨_, _, h⟩ := bind_ok h
  obtain ⟨r1, h1, h⟩ := bind_ok h
  obtain ⟨m0, hdeb, h⟩ := bind_ok h
  obtain ⟨_, hl, h⟩ := bind_ok h
  obtain ⟨created, _, h⟩ := bind_ok h
  obtain ⟨r2, h2, h⟩ := bind_ok h
  obtain ⟨_, _, h⟩ := bind_ok h
  obtain ⟨m1, hg, h⟩ := bind_ok h
  obtain ⟨_, _, h⟩ := bind_ok h
  obtain ⟨code, _, h⟩ := bind_ok h
  obtain ⟨m2, hw, h⟩ := bind_ok h
  have hl' : env.listed = true := check_ok hl
  have g0 := gasCharge_ok h0
  have g1 := gasCharge_ok h1
  have g2 : r2 regCgas ≤ r1 regCgas ∧ ∀ i, i ≠ regCgas → i ≠ regGgas → r2 i = r1 i := by
    cases created
    · cases h2; exact ⟨Nat.le_refl _, fun _ _ _ => rfl⟩
    · exact gasCharge_ok h2
  obtain ⟨hfit, hg'⟩ := growStack_fit hg
  cases h
  exact ⟨{ to := callBytes.take 32, asset := asset, ca := _, cb := _, codeSize := codeSize, r2 := r2, m0 := m0, m1 := m1, m2 := m2, hdebit := hdeb,
           code := code, hsize := hcs, hlisted := hl',
           hr2 := fun i hi hj => by rw [g2.2 i hi hj, g1.2 i hi hj, g0.2 i hi hj],
           hr2c := by omega, hfit := hfit, hgrow := hg', hwrite := hw,
           hto := by
             have := read_length hcb
             simp only [callLen] at this
             simp [this],
           hasset := read_length has }, rfl⟩

theorem growStack_below {m m1 : Mem} {x : Nat} (h : m.growStack x = .ok m1) :
    (∀ a, a < m.stackLen → m1.bytes a = m.bytes a) ∧ m1.hp = m.hp ∧ m.stackLen ≤ m1.stackLen ∧ x ≤ m1.stackLen := by
  unfold Mem.growStack at h
  split at h
  · cases h
  · split at h
    · split at h
      · cases h
      · cases h
        refine ⟨fun a ha => ?_, rfl, by simp; omega, by simp⟩
        simp only
        rw [if_neg (by omega)]
    · cases h
      exact ⟨fun _ _ => rfl, rfl, Nat.le_refl _, by omega⟩

theorem writeNoOwner_bytes {m m2 : Mem} {start : Nat} {data : Bytes} (h : m.writeNoOwner start data = .ok m2) :
    (∀ a, a < start → m2.bytes a = m.bytes a) ∧
    (∀ i, i < data.length → m2.bytes (start + i) = data.getD i 0) ∧
    m2.hp = m.hp ∧ m2.stackLen = m.stackLen := by
  unfold Mem.writeNoOwner at h
  split at h
  · cases h
  · cases h
    refine ⟨fun a ha => ?_, fun i hi => ?_, rfl, rfl⟩
    · simp only; rw [if_neg (by omega)]
    · simp only; rw [if_pos (by omega)]; congr 1; omega

theorem debit_bytes {env : CallEnv} {vm : VM} {m0 : Mem} (h : debit env vm = .ok m0) :
    (∀ x, ¬((debitRange env vm).1 ≤ x ∧ x < (debitRange env vm).1 + (debitRange env vm).2) → m0.bytes x = vm.mem.bytes x) ∧
    m0.hp = vm.mem.hp ∧ m0.stackLen = vm.mem.stackLen := by
  unfold debit at h
  unfold debitRange
  cases hc : vm.ctxIsCall
  · simp only [hc, Bool.false_eq_true, if_false] at h ⊢
    cases hd : env.debitExternal with
    | error e => rw [hd] at h; cases h
    | ok w =>
      rw [hd] at h
      cases w with
      | none => cases h; exact ⟨fun _ _ => rfl, rfl, rfl⟩
      | some p =>
        obtain ⟨off, bs⟩ := p
        simp only at h ⊢
        unfold Mem.writeNoOwner at h
        split at h
        · cases h
        · cases h
          refine ⟨fun x hx => ?_, rfl, rfl⟩
          simp only
          rw [if_neg hx]
  · simp only [hc, if_true] at h ⊢
    cases hd : env.debitInternal with
    | error e => rw [hd] at h; cases h
    | ok u => rw [hd] at h; cases h; exact ⟨fun _ _ => rfl, rfl, rfl⟩

theorem natBE_length (n x : Nat) : (natBE n x).length = n := by
  induction n generalizing x with
  | zero => rfl
  | succ n ih => simp [natBE, ih]

theorem regs_flat_length (r : Regs) (k : Nat) :
    ((List.range k).flatMap (fun i => natBE wordSize (r i))).length = k * wordSize := by
  induction k with
  | zero => simp
  | succ k ih =>
    rw [List.range_succ, List.flatMap_append, List.length_append, ih]
    simp [natBE_length]
    rw [Nat.add_mul]; simp

theorem Frame.toBytes_length (f : Frame) (hto : f.to.length = 32) (has : f.assetId.length = 32) :
    f.toBytes.length = frameSize := by
  unfold Frame.toBytes
  simp only [List.length_append, regs_flat_length, natBE_length, hto, has]
  decide

theorem setRet_other (k : RetKind) (r : Regs) (i : Nat) (h1 : i ≠ regRet) (h2 : i ≠ regRetl) : setRet k r i = r i := by
  cases k <;> simp [setRet, setReg, h1, h2]

theorem restoreRegs_other (r0 : Regs) (f : Frame) (i : Nat) (h : i ∉ retKeptRegs) : restoreRegs r0 f i = f.registers i := by
  simp only [retKeptRegs, List.mem_cons, List.not_mem_nil, or_false, not_or] at h
  simp only [restoreRegs, setReg, regCgas, regGgas, regRet, regRetl, regHp]
  rw [if_neg (by omega), if_neg (by omega), if_neg (by omega), if_neg (by omega), if_neg (by omega)]

/-- replace every generated register id / size constant by its numeral -/
macro "vm_consts" : tactic =>
  `(tactic| simp only [regZero, regOne, regOf, regPc, regSsp, regSp, regFp, regHp, regErr, regGgas, regCgas, regBal,
      regIs, regRet, regRetl, regFlag, regWritable, retKeptRegs, callFrameBaseReg] at *)

/-- what a successful return with a frame on top does, register by register -/
structure RetFacts (k : RetKind) (vm vm' : VM) (frame : Frame) (rest : List Frame) : Prop where
  other : ∀ i, i ∉ regPc :: retKeptRegs → vm'.regs i = frame.registers i
  pc : vm'.regs regPc = min (frame.registers regPc + 4) (2 ^ 64 - 1)
  hp : vm'.regs regHp = vm.regs regHp
  ggas : vm'.regs regGgas = vm.regs regGgas
  cgas : vm'.regs regCgas = vm.regs regCgas + frame.registers regCgas
  ret : vm'.regs regRet = (match k with | .ret a => a | .retData a _ => a)
  retl : vm'.regs regRetl = (match k with | .ret _ => 0 | .retData _ b => b)
  mem : vm'.mem = vm.mem
  frames : vm'.frames = rest
  ctx : vm'.ctxIsCall = true ↔ frame.registers regFp ≠ 0

theorem ret_cons {k : RetKind} {vm vm' : VM} {frame : Frame} {rest : List Frame}
    (hf : vm.frames = frame :: rest) (h : returnFromContext k vm = .ok vm') : RetFacts k vm vm' frame rest := by
  unfold returnFromContext at h
  rw [hf] at h
  simp only at h
  split at h
  · cases h
  · cases h
    simp only [setFramePointer, incPc, restoreRegs]
    refine ⟨fun i hi => ?_, ?_, ?_, ?_, ?_, ?_, ?_, rfl, rfl, ?_⟩
    · vm_consts
      simp only [List.mem_cons, List.not_mem_nil, or_false, not_or] at hi
      obtain ⟨n3, n10, n9, n13, n14, n7⟩ := hi
      simp only [setReg]
      rw [if_neg n3]
      split
      · subst_vars; simp
      · simp [n10, n9, n13, n14, n7]
    · vm_consts; simp [setReg]
    · cases k <;> simp only [setRet] <;> vm_consts <;> simp [setReg]
    · cases k <;> simp only [setRet] <;> vm_consts <;> simp [setReg]
    · cases k <;> simp only [setRet] <;> vm_consts <;> simp [setReg]
    · cases k <;> simp only [setRet] <;> vm_consts <;> simp [setReg]
    · cases k <;> simp only [setRet] <;> vm_consts <;> simp [setReg]
    · vm_consts
      cases vm.ctxIsCall <;> by_cases h0 : frame.registers 6 = 0 <;> simp [setReg, h0]

end FuelVerif.Call
