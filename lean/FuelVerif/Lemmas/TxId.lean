import FuelVerif.Model.TxId
import FuelVerif.Lemmas.OffsetsTx
namespace FuelVerif.TxId
open FuelVerif FuelVerif.Canonical FuelVerif.Offsets

/-- **what the mask forgets is exactly what it zeroes**: two values have the same prepared form iff they are
equal outside the zeroed / cleared positions -/
theorem apply_eq_iff : ∀ (v : Val) (m : Mask) (w : Val), m.apply v = m.apply w ↔ m.agree v w := by
  intro v
  induction v with
  | pair x y ihx ihy =>
    intro m w
    cases m with
    | keep => simp [Mask.apply, Mask.agree]
    | zero dv => simp [Mask.apply, Mask.agree]
    | clear => simp [Mask.apply, Mask.agree]
    | pair a b => cases w <;> simp [Mask.apply, Mask.agree, ihx, ihy]
    | alt a r => cases w <;> simp [Mask.apply, Mask.agree]
    | each m' => cases w <;> simp [Mask.apply, Mask.agree, ihx, ihy]
  | inl x ih =>
    intro m w
    cases m with
    | keep => simp [Mask.apply, Mask.agree]
    | zero dv => simp [Mask.apply, Mask.agree]
    | clear => simp [Mask.apply, Mask.agree]
    | pair a b => cases w <;> simp [Mask.apply, Mask.agree]
    | alt a r => cases w <;> simp [Mask.apply, Mask.agree, ih]
    | each m' => cases w <;> simp [Mask.apply, Mask.agree]
  | inr x ih =>
    intro m w
    cases m with
    | keep => simp [Mask.apply, Mask.agree]
    | zero dv => simp [Mask.apply, Mask.agree]
    | clear => simp [Mask.apply, Mask.agree]
    | pair a b => cases w <;> simp [Mask.apply, Mask.agree]
    | alt a r => cases w <;> simp [Mask.apply, Mask.agree, ih]
    | each m' => cases w <;> simp [Mask.apply, Mask.agree]
  | int n =>
    intro m w
    cases m <;> cases w <;> simp [Mask.apply, Mask.agree]
  | bytes b =>
    intro m w
    cases m <;> cases w <;> simp [Mask.apply, Mask.agree]
  | cap n =>
    intro m w
    cases m <;> cases w <;> simp [Mask.apply, Mask.agree]
  | unit =>
    intro m w
    cases m <;> cases w <;> simp [Mask.apply, Mask.agree]

/-- the defaults a mask writes are themselves fixed by the masks below them (true for the computed masks: a
`zero` sits at a leaf) — preparing twice is preparing once -/
theorem apply_idem : ∀ (v : Val) (m : Mask), m.apply (m.apply v) = m.apply v := by
  intro v
  induction v with
  | pair x y ihx ihy =>
    intro m
    cases m <;> simp [Mask.apply, ihx, ihy]
  | inl x ih => intro m; cases m <;> simp [Mask.apply, ih]
  | inr x ih => intro m; cases m <;> simp [Mask.apply, ih]
  | _ => intro m; cases m <;> simp [Mask.apply]


/-! ### preparation keeps values well-typed -/

/-- the mask fits the descriptor: defaults are values of the field's type, `clear` only on vectors / skipped slots;
`ok k m` : what is required of a mask sitting on hand-written codec `k` -/
def maskOk (e : Env) (ok : Nat → Mask → Bool) : Mask → Desc → Bool
  | .keep, _ => true
  | .zero dv, d => wt e d dv
  | .clear, .vec _ => true
  | .clear, .skipped => true
  | .pair a b, .pair da db => maskOk e ok a da && maskOk e ok b db
  | m, .pre _ d => maskOk e ok m d
  | m, .enum a => maskOk e ok m a
  | .alt a r, .alt _ d rest => maskOk e ok a d && maskOk e ok r rest
  | .each m, .vec d => maskOk e ok m d
  | m, .custom k => ok k m
  | _, _ => false

theorem apply_wt (e : Env) (ok : Nat → Mask → Bool) (hok : ∀ k m, ok k m = true → ∀ v, (e k).wt v = true → (e k).wt (m.apply v) = true) :
    ∀ (d : Desc) (m : Mask) (v : Val), maskOk e ok m d = true → wt e d v = true → wt e d (m.apply v) = true := by
  intro d
  induction d with
  | pair da db iha ihb =>
    intro m v hm hv
    cases m <;> simp [maskOk] at hm <;> try (simpa [Mask.apply] using hv)
    · simpa [Mask.apply] using hm
    · rename_i a b
      cases v <;> simp [wt] at hv
      simp [Mask.apply, wt, iha _ _ hm.1 hv.1, ihb _ _ hm.2 hv.2]
  | pre p d ih =>
    intro m v hm hv
    have hm' : maskOk e ok m d = true := by cases m <;> simpa [maskOk, wt] using hm
    simp only [wt] at hv ⊢
    exact ih m v hm' hv
  | enum a ih =>
    intro m v hm hv
    have hm' : maskOk e ok m a = true := by cases m <;> simpa [maskOk, wt] using hm
    simp only [wt] at hv ⊢
    exact ih m v hm' hv
  | alt k d rest ihd ihr =>
    intro m v hm hv
    cases m <;> simp [maskOk] at hm <;> try (simpa [Mask.apply] using hv)
    · simpa [Mask.apply] using hm
    · rename_i a r
      cases v <;> simp [wt] at hv
      · simp [Mask.apply, wt, ihd _ _ hm.1 hv]
      · simp [Mask.apply, wt, ihr _ _ hm.2 hv]
  | vec d ih =>
    intro m v hm hv
    cases m <;> simp [maskOk] at hm <;> try (simpa [Mask.apply] using hv)
    · simpa [Mask.apply] using hm
    · rename_i m'
      -- every element
      simp only [wt, Bool.and_eq_true, List.all_eq_true, decide_eq_true_eq] at hv
      obtain ⟨⟨hl, hall⟩, hlen⟩ := hv
      have key : ∀ (v : Val), v.isList = true → (∀ x ∈ v.elems, wt e d x = true) →
          ((Mask.each m').apply v).isList = true ∧ (∀ x ∈ ((Mask.each m').apply v).elems, wt e d x = true) ∧
          ((Mask.each m').apply v).elems.length = v.elems.length := by
        intro v
        induction v with
        | pair x y _ ihy =>
          intro hl hall
          simp only [Val.isList] at hl
          simp only [Val.elems, List.mem_cons, forall_eq_or_imp] at hall
          obtain ⟨h1, h2, h3⟩ := ihy hl hall.2
          refine ⟨by simpa [Mask.apply, Val.isList] using h1, ?_, by simp [Mask.apply, Val.elems, h3]⟩
          intro x hx
          simp only [Mask.apply, Val.elems, List.mem_cons] at hx
          rcases hx with rfl | hx
          · exact ih _ _ hm hall.1
          · exact h2 x hx
        | unit => intro _ _; simp [Mask.apply, Val.isList, Val.elems]
        | _ => intro hl; simp [Val.isList] at hl
      obtain ⟨h1, h2, h3⟩ := key v hl hall
      simp only [wt, Bool.and_eq_true, List.all_eq_true, decide_eq_true_eq]
      exact ⟨⟨h1, h2⟩, by omega⟩
    · simp [Mask.apply, wt, Val.isList, Val.elems]
  | skipped =>
    intro m v hm hv
    simp [wt]
  | custom k =>
    intro m v hm hv
    simp only [wt] at hv ⊢
    cases m <;> simp only [maskOk] at hm
    case keep => simpa [Mask.apply] using hv
    case zero dv => simpa [Mask.apply, wt] using hm
    all_goals exact hok k _ hm v hv
  | uint n =>
    intro m v hm hv
    cases m <;> simp [maskOk] at hm <;> first | simpa [Mask.apply] using hv | simpa [Mask.apply] using hm
  | bytesN n =>
    intro m v hm hv
    cases m <;> simp [maskOk] at hm <;> first | simpa [Mask.apply] using hv | simpa [Mask.apply] using hm
  | vecBytes =>
    intro m v hm hv
    cases m <;> simp [maskOk] at hm <;> first | simpa [Mask.apply] using hv | simpa [Mask.apply] using hm
  | unit =>
    intro m v hm hv
    cases m <;> simp [maskOk] at hm <;> first | simpa [Mask.apply] using hv | simpa [Mask.apply] using hm
  | void =>
    intro m v hm hv
    cases v <;> simp [wt] at hv
  | empty d _ =>
    intro m v hm hv
    cases m <;> simp [maskOk] at hm <;> first | simpa [Mask.apply] using hv | simpa [Mask.apply] using hm


/-! ### inputs stay well-formed -/

open FuelVerif.Canonical.InputCodec (env0 encDesc matchesP capNonzero)
open FuelVerif.Canonical.InputLaws

/-- the i-th variant mask of a right-nested mask -/
def altMask : Mask → Nat → Mask
  | .alt a _, 0 => a
  | .alt _ r, i + 1 => altMask r i
  | _, _ => .keep

theorem inputMask_lit : inputMask = .alt (altMask inputMask 0) (.alt (altMask inputMask 1) (.alt (altMask inputMask 2) (.alt (altMask inputMask 3)
    (.alt (altMask inputMask 4) (.alt (altMask inputMask 5) (.alt (altMask inputMask 6) .keep)))))) := by decide +kernel

/-- field `j` of a field-list mask is `keep` -/
def keepsField : Mask → Nat → Bool
  | .pair a _, 0 => a == .keep
  | .pair _ b, j + 1 => keepsField b j
  | .keep, _ => true
  | _, _ => false

theorem keeps_predicate_data : (keepsField (altMask inputMask 1) 7 && keepsField (altMask inputMask 4) 7 && keepsField (altMask inputMask 5) 6 &&
    keepsField (altMask inputMask 6) 6 && keepsField (altMask inputMask 6) 7) = true := by decide +kernel

theorem maskOk_input : maskOk env0 (fun _ _ => false) inputMask encDesc = true := by decide +kernel

theorem field_apply_keep : ∀ (m : Mask) (j : Nat) (v : Val), keepsField m j = true → (m.apply v).field j = v.field j := by
  intro m
  induction m with
  | pair a b _ ihb =>
    intro j v h
    cases j with
    | zero =>
      simp only [keepsField, beq_iff_eq] at h; subst h
      cases v <;> simp [Mask.apply, Val.field, Val.elems]
    | succ j =>
      simp only [keepsField] at h
      cases v <;> simp [Mask.apply, Val.field, Val.elems]
      rename_i x y
      have := ihb j y h
      simpa [Val.field] using this
  | keep => intro j v _; simp [Mask.apply]
  | _ => intro j v h; simp [keepsField] at h

/-- field `j` of the partial value of a field list is the partial value of field `j` -/
theorem field_partialOf (e : Env) : ∀ (d : Desc) (v : Val) (j : Nat), isFields d = true → wt e d v = true →
    (partialOf e d v).field j = match (fieldsOf d)[j]?, v.field j with | some fd, some fv => some (partialOf e fd fv) | _, _ => none := by
  intro d
  induction d with
  | pair a b _ ihb =>
    intro v j hs hv
    simp only [isFields] at hs
    cases v <;> simp [wt] at hv
    rename_i x y
    cases j with
    | zero => simp [partialOf, Val.field, Val.elems, fieldsOf]
    | succ j =>
      have := ihb y j hs hv.2
      simpa [partialOf, Val.field, Val.elems, fieldsOf] using this
  | unit => intro v j _ hv; cases v <;> simp [wt] at hv; simp [partialOf, Val.field, Val.elems, fieldsOf]
  | _ => intro v j hs; simp [isFields] at hs

theorem isFields_payloads : (isFields dCoinPredicate && isFields dMsgCoinPredicate && isFields dMsgDataSigned && isFields dMsgDataPredicate) = true := by decide

/-- the partial value's `predicate` / `data` slot is unchanged by preparation, so the emptiness conditions are too -/
theorem capNonzero_apply (s f : String) (d : Desc) (m : Mask) (j : Nat) (p : Val) (hidx : InputCodec.getField s f = fun q => q.field j)
    (hs : isFields d = true) (hm : maskOk env0 (fun _ _ => false) m d = true) (hk : keepsField m j = true) (hp : wt env0 d p = true) :
    capNonzero s f (partialOf env0 d (m.apply p)) = capNonzero s f (partialOf env0 d p) := by
  have hp' := apply_wt env0 (fun _ _ => false) (by intro k m h; cases h) d m p hm hp
  simp only [capNonzero, hidx, field_partialOf env0 d _ j hs hp', field_partialOf env0 d _ j hs hp, field_apply_keep m j p hk]

theorem maskOk_payloads : (maskOk env0 (fun _ _ => false) (altMask inputMask 1) dCoinPredicate && maskOk env0 (fun _ _ => false) (altMask inputMask 4) dMsgCoinPredicate &&
    maskOk env0 (fun _ _ => false) (altMask inputMask 5) dMsgDataSigned && maskOk env0 (fun _ _ => false) (altMask inputMask 6) dMsgDataPredicate) = true := by decide +kernel

/-- **preparation keeps an input well-formed** (type membership, and the non-emptiness of predicate / data the
decoder relies on: those fields are not malleable) -/
theorem input_apply_wt (v : Val) (h : InputCodec.wt v = true) : InputCodec.wt (inputMask.apply v) = true := by
  simp only [InputCodec.wt, Bool.and_eq_true] at h ⊢
  obtain ⟨h1, h2⟩ := h
  refine ⟨apply_wt env0 (fun _ _ => false) (by intro k m h; cases h) encDesc inputMask v maskOk_input h1, ?_⟩
  have ks := keeps_predicate_data
  have mo := maskOk_payloads
  have fs := isFields_payloads
  simp only [Bool.and_eq_true] at ks mo fs
  have g1 : InputCodec.getField "Coin" "predicate" = fun q => q.field 7 := funext getField_coin_predicate
  have g2 : InputCodec.getField "Message" "predicate" = fun q => q.field 7 := funext getField_msg_predicate
  have g3 : InputCodec.getField "Message" "data" = fun q => q.field 6 := funext getField_msg_data
  rw [inputMask_lit]
  rcases wt_encDesc_cases h1 with ⟨p, rfl, hp⟩ | ⟨p, rfl, hp⟩ | ⟨p, rfl, hp⟩ | ⟨p, rfl, hp⟩ | ⟨p, rfl, hp⟩ | ⟨p, rfl, hp⟩ | ⟨p, rfl, hp⟩
  · simp [Mask.apply, encDesc_eq, partialOf, m0]
  · simp only [Mask.apply, encDesc_eq, partialOf, m1] at h2 ⊢
    rw [capNonzero_apply "Coin" "predicate" _ _ 7 p g1 fs.1.1.1 mo.1.1.1 ks.1.1.1.1 hp]; exact h2
  · simp [Mask.apply, encDesc_eq, partialOf, m2]
  · simp [Mask.apply, encDesc_eq, partialOf, m3]
  · simp only [Mask.apply, encDesc_eq, partialOf, m4] at h2 ⊢
    rw [capNonzero_apply "Message" "predicate" _ _ 7 p g2 fs.1.1.2 mo.1.1.2 ks.1.1.1.2 hp]; exact h2
  · simp only [Mask.apply, encDesc_eq, partialOf, m5] at h2 ⊢
    rw [capNonzero_apply "Message" "data" _ _ 6 p g3 fs.1.2 mo.1.2 ks.1.1.2 hp]; exact h2
  · simp only [Mask.apply, encDesc_eq, partialOf, m6] at h2 ⊢
    rw [capNonzero_apply "Message" "predicate" _ _ 7 p g2 fs.2 mo.2 ks.2 hp, capNonzero_apply "Message" "data" _ _ 6 p g3 fs.2 mo.2 ks.1.2 hp]; exact h2


/-! ### the prepared value has nothing left that the encoding skips -/

open FuelVerif.Canonical.TxDesc (env envLaws)

/-- every `#[canonical(skip)]` slot under the mask is cleared by it (so the encoding determines the prepared value) -/
def eraseOk : Mask → Desc → Bool
  | .clear, .vec _ => true
  | .clear, .skipped => true
  | _, .skipped => false
  | .keep, d => d.noSkip
  | .zero _, d => d.noSkip
  | .pair a b, .pair da db => eraseOk a da && eraseOk b db
  | m, .pre _ d => eraseOk m d
  | m, .enum a => eraseOk m a
  | .alt a r, .alt _ d rest => eraseOk a d && eraseOk r rest
  | .each m, .vec d => eraseOk m d
  | _, .custom _ => true
  | _, _ => false

theorem eraseOk_keep (d : Desc) : eraseOk .keep d = d.noSkip := by cases d <;> simp [eraseOk, Desc.noSkip]
theorem eraseOk_zero (dv : Val) (d : Desc) : eraseOk (.zero dv) d = d.noSkip := by cases d <;> simp [eraseOk, Desc.noSkip]

theorem erase_apply (e : Env) (ok : Nat → Mask → Bool) : ∀ (d : Desc) (m : Mask) (v : Val), maskOk e ok m d = true → eraseOk m d = true →
    wt e d v = true → erase e d (m.apply v) = m.apply v := by
  intro d
  induction d with
  | pair da db iha ihb =>
    intro m v hm he hv
    cases m <;> simp [maskOk] at hm <;> simp [eraseOk] at he
    · simpa [Mask.apply] using erase_noSkip e _ he v hv
    · simpa [Mask.apply] using erase_noSkip e _ he _ hm
    · cases v <;> simp [wt] at hv
      simp [Mask.apply, erase, iha _ _ hm.1 he.1 hv.1, ihb _ _ hm.2 he.2 hv.2]
  | pre p d ih =>
    intro m v hm he hv
    have hm' : maskOk e ok m d = true := by cases m <;> simpa [maskOk, wt] using hm
    have he' : eraseOk m d = true := by cases m <;> simpa [eraseOk, Desc.noSkip, eraseOk_keep, eraseOk_zero] using he
    simp only [wt] at hv
    simp only [erase]
    exact ih m v hm' he' hv
  | enum a ih =>
    intro m v hm he hv
    have hm' : maskOk e ok m a = true := by cases m <;> simpa [maskOk, wt] using hm
    have he' : eraseOk m a = true := by cases m <;> simpa [eraseOk, Desc.noSkip, eraseOk_keep, eraseOk_zero] using he
    simp only [wt] at hv
    simp only [erase]
    exact ih m v hm' he' hv
  | alt k d rest ihd ihr =>
    intro m v hm he hv
    cases m <;> simp [maskOk] at hm <;> simp [eraseOk] at he
    · simpa [Mask.apply] using erase_noSkip e _ he v hv
    · simpa [Mask.apply] using erase_noSkip e _ he _ hm
    · cases v <;> simp [wt] at hv
      · simp [Mask.apply, erase, ihd _ _ hm.1 he.1 hv]
      · simp [Mask.apply, erase, ihr _ _ hm.2 he.2 hv]
  | vec d ih =>
    intro m v hm he hv
    cases m <;> simp [maskOk] at hm <;> simp [eraseOk] at he
    · simpa [Mask.apply] using erase_noSkip e _ he v hv
    · simpa [Mask.apply] using erase_noSkip e _ he _ hm
    · rename_i m'
      simp only [wt, Bool.and_eq_true, List.all_eq_true, decide_eq_true_eq] at hv
      obtain ⟨⟨hl, hall⟩, _⟩ := hv
      have key : ∀ (v : Val), v.isList = true → (∀ x ∈ v.elems, wt e d x = true) →
          Val.ofList (((Mask.each m').apply v).elems.map (fun x => erase e d x)) = (Mask.each m').apply v := by
        intro v
        induction v with
        | pair x y _ ihy =>
          intro hl hall
          simp only [Val.isList] at hl
          simp only [Val.elems, List.mem_cons, forall_eq_or_imp] at hall
          simp [Mask.apply, Val.elems, Val.ofList, ih _ _ hm he hall.1, ihy hl hall.2]
        | unit => intro _ _; simp [Mask.apply, Val.elems, Val.ofList]
        | _ => intro hl; simp [Val.isList] at hl
      simpa [erase] using key v hl hall
    · simp [Mask.apply, erase, Val.elems, Val.ofList]
  | skipped =>
    intro m v hm he hv
    cases m <;> simp [eraseOk, Desc.noSkip] at he
    simp [Mask.apply, erase]
  | _ => intro m v _ _ _; simp [erase]

/-! ### the six kinds -/

/-- the only mask allowed on a hand-written codec: the input mask on `Input` -/
def okCustom (k : Nat) (m : Mask) : Bool := k == Resolve.customInput && m == inputMask

theorem masks_ok : Kind.all.all (fun k => maskOk env okCustom (maskOf k) k.desc && eraseOk (maskOf k) k.desc && k.desc.wf && k.desc.nodup) = true := by
  decide +kernel

theorem okCustom_sound : ∀ k m, okCustom k m = true → ∀ v, (env k).wt v = true → (env k).wt (m.apply v) = true := by
  intro k m h v hv
  simp only [okCustom, Bool.and_eq_true, beq_iff_eq] at h
  obtain ⟨rfl, rfl⟩ := h
  have : (env Resolve.customInput) = InputCodec.codec := by
    simp [TxDesc.env, Resolve.customInput, Resolve.customPolicies]
  rw [this] at hv ⊢
  exact input_apply_wt v hv

theorem kind_mask_ok (k : Kind) : maskOk env okCustom (maskOf k) k.desc = true ∧ eraseOk (maskOf k) k.desc = true ∧ k.desc.wf = true ∧ k.desc.nodup = true := by
  have := masks_ok
  simp only [List.all_eq_true, Bool.and_eq_true] at this
  obtain ⟨⟨⟨a, b⟩, c⟩, d⟩ := this k (by cases k <;> simp [Kind.all])
  exact ⟨a, b, c, d⟩

/-- the prepared clone is a well-typed transaction of the same kind -/
theorem strip_wt (k : Kind) (v : Val) (hv : wt env k.desc v = true) : wt env k.desc (stripTx k v) = true :=
  apply_wt env okCustom okCustom_sound k.desc (maskOf k) v (kind_mask_ok k).1 hv

theorem strip_erase (k : Kind) (v : Val) (hv : wt env k.desc v = true) : erase env k.desc (stripTx k v) = stripTx k v :=
  erase_apply env okCustom k.desc (maskOf k) v (kind_mask_ok k).1 (kind_mask_ok k).2.1 hv

theorem chainBytes_inj (c c' : Nat) (h : c < 2 ^ 64) (h' : c' < 2 ^ 64) (he : chainBytes c = chainBytes c') : c = c' := by
  have h1 := beNat_natBE 8 c (by simpa using h)
  have h2 := beNat_natBE 8 c' (by simpa using h')
  simp only [chainBytes] at he
  rw [he] at h1
  omega

/-- **the bytes hashed determine the chain id and the transaction up to its malleable content** -/
theorem preimage_inj (c c' : Nat) (hc : c < 2 ^ 64) (hc' : c' < 2 ^ 64) (k : Kind) (v w : Val)
    (hv : wt env k.desc v = true) (hw : wt env k.desc w = true) (h : preimage c k v = preimage c' k w) :
    c = c' ∧ (maskOf k).agree v w := by
  simp only [preimage] at h
  have hl : (chainBytes c).length = (chainBytes c').length := by simp [chainBytes, length_natBE]
  obtain ⟨h1, h2⟩ := List.append_inj h hl
  refine ⟨chainBytes_inj c c' hc hc' h1, ?_⟩
  obtain ⟨_, _, hwf, hnd⟩ := kind_mask_ok k
  have := encode_injective env envLaws k.desc hwf hnd _ _ (strip_wt k v hv) (strip_wt k w hw) h2
  rw [strip_erase k v hv, strip_erase k w hw] at this
  exact (apply_eq_iff v (maskOf k) w).mp this

theorem agree_refl (m : Mask) (v : Val) : m.agree v v := (apply_eq_iff v m v).mp rfl

end FuelVerif.TxId
