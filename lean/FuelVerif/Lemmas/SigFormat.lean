/-
Byte-level facts about `signature_format.rs` (`encode_signature` / `decode_signature`) and the compact
`r ‖ s` encoding.  The index, masks and shifts are the literals extracted from the Rust source
(`Gen/SigFormat.lean`); the round trip below is re-proved against them on every run.
-/
import FuelVerif.Model.Ecdsa
namespace FuelVerif.Ecdsa
open FuelVerif FuelVerif.Gen.SigFormat

theorem forall_uint8 {P : UInt8 → Prop} (h : ∀ i : Fin 256, P (UInt8.ofNat i.val)) : ∀ b, P b := by
  intro b
  have := h ⟨b.toNat, b.toNat_lt⟩
  simpa using this

/-- obligation on the generated constants: encoder and decoder address the same byte, inside the signature -/
theorem idx_wf : encIdx = decIdx ∧ decIdx = lenBytes32 ∧ decIdx < lenSignature := by decide

/-- the byte-level round trip of the recovery bit (complete table over the 256 byte values × 2) -/
theorem byte_roundtrip : ∀ b : UInt8, ∀ v : Bool, b >>> UInt8.ofNat encAssertShift = 0 →
    let e := ((if v then (1 : UInt8) else 0) <<< UInt8.ofNat encShift) ||| (b &&& UInt8.ofNat encMask)
    (e &&& UInt8.ofNat decMask = b) ∧ ((e &&& UInt8.ofNat decBit != 0) = v) := by
  apply forall_uint8
  decide +kernel

/-- the assertion of `encode_signature` holds exactly for bytes below 128 -/
theorem byte_free_iff : ∀ b : UInt8, (b >>> UInt8.ofNat encAssertShift == 0) = decide (b.toNat < 128) := by
  apply forall_uint8
  decide +kernel

/-- decoding clears the recovery bit: the `s` byte that comes out is below 128 -/
theorem byte_decoded_lt : ∀ b : UInt8, (b &&& UInt8.ofNat decMask).toNat < 128 := by
  apply forall_uint8
  decide +kernel

theorem natBE_length : ∀ (len n : Nat), (natBE len n).length = len
  | 0, _ => rfl
  | len + 1, n => by simp [natBE, natBE_length len]

theorem beNat_append (xs : Bytes) (b : UInt8) : beNat (xs ++ [b]) = beNat xs * 256 + b.toNat := by
  simp [beNat, List.foldl_append]

theorem beNat_natBE : ∀ (len n : Nat), beNat (natBE len n) = n % 256 ^ len
  | 0, n => by simp [natBE, beNat, Nat.mod_one]
  | len + 1, n => by
    rw [natBE, beNat_append, beNat_natBE len]
    have h256 : (UInt8.ofNat (n % 256)).toNat = n % 256 := by
      simp [UInt8.toNat_ofNat']
    rw [h256, Nat.pow_succ', Nat.mod_mul, Nat.add_comm, Nat.mul_comm]

theorem pow256 : (256 : Nat) ^ 32 = 2 ^ 256 := by
  rw [show (256 : Nat) = 2 ^ 8 from rfl, ← Nat.pow_mul]

theorem compact_length (r s : Nat) : (compact r s).length = 64 := by
  simp [compact, natBE_length]

theorem sigR_compact (r s : Nat) : sigR (compact r s) = r % 2 ^ 256 := by
  unfold sigR compact
  rw [List.take_left' (natBE_length 32 r), beNat_natBE, pow256]

theorem sigS_compact (r s : Nat) : sigS (compact r s) = s % 2 ^ 256 := by
  unfold sigS compact
  rw [List.drop_left' (natBE_length 32 r), List.take_of_length_le (by rw [natBE_length]; exact Nat.le_refl _),
    beNat_natBE, pow256]

theorem natBE_head : ∀ (len n : Nat), (natBE (len + 1) n).getD 0 0 = UInt8.ofNat (n / 256 ^ len % 256)
  | 0, n => by simp [natBE]
  | len + 1, n => by
    have := natBE_head len (n / 256)
    rw [List.getD_eq_getElem?_getD] at this ⊢
    rw [natBE, List.getElem?_append_left (by rw [natBE_length]; omega), this, Nat.div_div_eq_div_mul,
      Nat.pow_succ']

/-- byte 32 of `r ‖ s` is the most significant byte of `s` -/
theorem compact_byte32 (r s : Nat) : (compact r s).getD 32 0 = UInt8.ofNat (s / 2 ^ 248 % 256) := by
  unfold compact
  have := natBE_head 31 s
  rw [List.getD_eq_getElem?_getD] at this ⊢
  rw [List.getElem?_append_right (by rw [natBE_length]; exact Nat.le_refl _), natBE_length, Nat.sub_self,
    this, show (256 : Nat) ^ 31 = 2 ^ 248 by rw [show (256 : Nat) = 2 ^ 8 from rfl, ← Nat.pow_mul]]

/-- **`decode_signature ∘ encode_signature = id`** on signatures whose bit 7 of byte 32 is clear
(and `encode_signature` panics otherwise) -/
theorem decode_encode (sig : Bytes) (v : Bool) (e : Bytes) (hlen : 32 < sig.length)
    (h : encodeSignature sig v = .ok e) : decodeSignature e = (sig, v) := by
  change (if (sig.getD 32 0 >>> UInt8.ofNat encAssertShift == 0) = true then
      Except.ok (sig.set 32 (((if v then (1 : UInt8) else 0) <<< UInt8.ofNat encShift) |||
        (sig.getD 32 0 &&& UInt8.ofNat encMask)))
    else Except.error SignPanic.NonNormalized) = Except.ok e at h
  by_cases hb : (sig.getD 32 0 >>> UInt8.ofNat encAssertShift == 0) = true
  · rw [if_pos hb] at h
    have hb' : sig.getD 32 0 >>> UInt8.ofNat encAssertShift = 0 := by simpa using hb
    obtain ⟨h1, h2⟩ := byte_roundtrip (sig.getD 32 0) v hb'
    have he := Except.ok.inj h
    subst he
    change ((sig.set 32 _).set 32 ((sig.set 32 _).getD 32 0 &&& UInt8.ofNat decMask),
      ((sig.set 32 _).getD 32 0 &&& UInt8.ofNat decBit) != 0) = (sig, v)
    have hget : ∀ x : UInt8, (sig.set 32 x).getD 32 0 = x := by
      intro x
      rw [List.getD_eq_getElem?_getD, List.getElem?_set_self (by exact hlen)]
      rfl
    rw [hget]
    rw [h1, h2, List.set_set]
    congr 1
    rw [List.getD_eq_getElem?_getD, List.getElem?_eq_getElem hlen]
    simp
  · rw [if_neg hb] at h
    exact absurd h (by simp)

/-- `encode_signature` succeeds exactly when byte 32 is below 128 -/
theorem encode_ok_iff (sig : Bytes) (v : Bool) :
    (∃ e, encodeSignature sig v = .ok e) ↔ (sig.getD 32 0).toNat < 128 := by
  have := byte_free_iff (sig.getD 32 0)
  constructor
  · rintro ⟨e, h⟩
    change (if (sig.getD 32 0 >>> UInt8.ofNat encAssertShift == 0) = true then
        Except.ok (sig.set 32 (((if v then (1 : UInt8) else 0) <<< UInt8.ofNat encShift) |||
          (sig.getD 32 0 &&& UInt8.ofNat encMask)))
      else Except.error SignPanic.NonNormalized) = Except.ok e at h
    by_cases hb : (sig.getD 32 0 >>> UInt8.ofNat encAssertShift == 0) = true
    · rw [this] at hb; simpa using hb
    · rw [if_neg hb] at h
      exact absurd h (by simp)
  · intro hlt
    have hb : (sig.getD 32 0 >>> UInt8.ofNat encAssertShift == 0) = true := by rw [this]; simpa using hlt
    refine ⟨sig.set 32 (((if v then (1 : UInt8) else 0) <<< UInt8.ofNat encShift) |||
          (sig.getD 32 0 &&& UInt8.ofNat encMask)), ?_⟩
    change (if (sig.getD 32 0 >>> UInt8.ofNat encAssertShift == 0) = true then _ else _) = _
    rw [if_pos hb]
    rfl

/-- for `s < 2^255` the recovery-bit position of `r ‖ s` is free -/
theorem compact_byte32_lt (r s : Nat) (hs : s < 2 ^ 255) : ((compact r s).getD 32 0).toNat < 128 := by
  rw [compact_byte32]
  have h1 : s / 2 ^ 248 < 128 := by
    rw [Nat.div_lt_iff_lt_mul (by decide)]
    calc s < 2 ^ 255 := hs
      _ = 128 * 2 ^ 248 := by decide
  rw [Nat.mod_eq_of_lt (by omega)]
  simp [UInt8.toNat_ofNat']
  omega

end FuelVerif.Ecdsa
