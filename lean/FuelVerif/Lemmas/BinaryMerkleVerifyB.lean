/-
Lemmas for C10, part B (implementation level): `path_length_from_key` counts the audit-path
directions; the first loop of `verify` walks the largest complete aligned block; the u64 guards.
-/
import FuelVerif.Lemmas.BinaryMerkleVerifyA
namespace FuelVerif.BMT
open FuelVerif

/-! ### `path_length_from_key` = number of audit-path directions -/

theorem plk_pathLength {n : Nat} (hn : 2 ≤ n) :
    (if decide (2 ^ Nat.log2 n = n) = true then Nat.log2 n else Nat.log2 n + 1) = Nat.log2 (n - 1) + 1 := by
  obtain ⟨⟨t, ht⟩, hk, hk2⟩ := splitPoint_spec hn
  have htt : Nat.log2 (n - 1) = t := by
    unfold splitPoint at ht
    exact (Nat.pow_right_inj (by decide)).mp ht
  rw [htt]
  unfold splitPoint at hk hk2
  rw [htt] at hk hk2
  rcases Nat.lt_or_ge n (2 * 2 ^ t) with hlt | hge
  · have hl : Nat.log2 n = t := by
      rw [Nat.log2_eq_iff (by omega), Nat.pow_succ]; omega
    rw [hl]
    have : ¬ (2 ^ t = n) := by omega
    simp [this]
  · have hn2 : n = 2 ^ (t + 1) := by rw [Nat.pow_succ]; omega
    subst hn2
    simp [Nat.log2_two_pow]

theorem dirs_length_pow2 {T m : Nat} (hm : m < 2 ^ T) : (dirs m (2 ^ T)).length = T := by
  rw [dirs_pow2 T m hm]; simp [bitsL]

theorem pathLengthFromKey_eq : ∀ (fuel n m : Nat), n ≤ fuel → 2 ≤ n → m < n →
    pathLengthFromKey fuel m n = some (dirs m n).length
  | 0, n, m, h1, h2, _ => by omega
  | fuel + 1, n, m, h1, h2, hm => by
    obtain ⟨⟨t, ht⟩, hk, hk2⟩ := splitPoint_spec h2
    have hp := Nat.pow_pos (n := t) (show 0 < 2 by decide)
    have htt : Nat.log2 (n - 1) = t := by
      unfold splitPoint at ht
      exact (Nat.pow_right_inj (by decide)).mp ht
    unfold pathLengthFromKey
    simp only [show ¬ n = 0 by omega, if_false, plk_pathLength h2, htt, Nat.add_sub_cancel]
    rw [dirs_unfold h2, ht]
    rw [ht] at hk hk2
    by_cases hmk : m < 2 ^ t
    · simp only [hmk, if_true, List.length_append, List.length_singleton, dirs_length_pow2 hmk]
    · simp only [hmk, if_false, List.length_append, List.length_singleton]
      by_cases hs : 2 ^ t = 1 ∨ n - 2 ^ t ≤ 1
      · simp only [hs, if_true]
        rw [dirs_small (by omega)]; rfl
      · simp only [hs, if_false]
        rw [pathLengthFromKey_eq fuel (n - 2 ^ t) (m - 2 ^ t) (by omega) (by omega) (by omega)]
        rfl

/-! ### the first loop of `verify` -/

def bitsFrom (m par d : Nat) : List Bool := (List.range' par d).map (bitDir m)

theorem bitsFrom_zero (m j : Nat) : bitsFrom m 0 j = bitsL m j := by
  unfold bitsFrom bitsL; rw [List.range_eq_range']

theorem blockIn_mono {m n h : Nat} (hb : blockIn m n (h + 1)) : blockIn m n h := by
  unfold blockIn at *
  have hp := Nat.pow_pos (n := h) (show 0 < 2 by decide)
  have e : m / 2 ^ (h + 1) = m / 2 ^ h / 2 := by rw [Nat.pow_succ, Nat.div_div_eq_div_mul]
  rw [e, Nat.pow_succ] at hb
  generalize m / 2 ^ h = y at *
  generalize 2 ^ h = x at *
  have h1 : y / 2 * (x * 2) = (y / 2 * 2) * x := by grind
  have h2 : y / 2 * 2 ≤ y := Nat.div_mul_le_self y 2
  have h3 : y / 2 * 2 + 1 ≥ y := by omega
  have h4 : y * x ≤ (y / 2 * 2 + 1) * x := Nat.mul_le_mul_right x h3
  have h5 : (y / 2 * 2 + 1) * x = (y / 2 * 2) * x + x := by grind
  omega

theorem blockIn_le {m n h j : Nat} (hle : h ≤ j) (hb : blockIn m n j) : blockIn m n h := by
  induction j with
  | zero => have : h = 0 := by omega
            subst this; exact hb
  | succ j ih =>
    rcases Nat.lt_or_ge h (j + 1) with h1 | h1
    · exact ih (by omega) (blockIn_mono hb)
    · have : h = j + 1 := by omega
      subst this; exact hb

/-- `proof_index - subtree_start_index < (1 << parent)` tests bit `parent` of the index -/
theorem bit_test (m p : Nat) : (m - m / 2 ^ (p + 1) * 2 ^ (p + 1) < 2 ^ p) ↔ (m / 2 ^ p) % 2 = 0 := by
  have hp := Nat.pow_pos (n := p) (show 0 < 2 by decide)
  have e : m / 2 ^ (p + 1) = m / 2 ^ p / 2 := by rw [Nat.pow_succ, Nat.div_div_eq_div_mul]
  rw [e, Nat.pow_succ]
  have hm := Nat.div_add_mod m (2 ^ p)
  have hr := Nat.mod_lt m hp
  generalize m / 2 ^ p = y at *
  generalize m % 2 ^ p = r at *
  generalize 2 ^ p = x at *
  have h1 : y / 2 * (x * 2) = x * (y / 2 * 2) := by grind
  rw [h1]
  rcases Nat.mod_two_eq_zero_or_one y with hy | hy
  · have : y / 2 * 2 = y := by omega
    rw [this]; omega
  · have : y = y / 2 * 2 + 1 := by omega
    have h2 : x * y = x * (y / 2 * 2) + x := by rw [this]; grind
    omega

theorem blockIn_pow_le {m n j : Nat} (hb : blockIn m n j) : 2 ^ j ≤ n := by unfold blockIn at hb; omega

theorem lt_64_of_pow_le {j n : Nat} (h1 : 2 ^ j ≤ n) (h2 : n < 2 ^ 64) : j < 64 := by
  rcases Nat.lt_or_ge j 64 with h | h
  · exact h
  · have : 2 ^ 64 ≤ 2 ^ j := Nat.pow_le_pow_right (by decide) h
    omega

/-- side condition under which the loop's u64 arithmetic is the mathematical one: either both guards
are in the source, or the count is below 2^63 -/
def LoopSafe (shl esf : Bool) (n : Nat) : Prop := (shl = true ∧ esf = true ∧ n < 2 ^ 64) ∨ n < 2 ^ 63

/-- end index of the aligned block of `2^h` leaves containing `m` -/
def blockEnd (m h : Nat) : Nat := m / 2 ^ h * 2 ^ h + 2 ^ h - 1

theorem leftLoop_eq_fold (H : HashFn) : ∀ (l : List Bytes) (acc : Bytes) (c : Nat), l.length ≤ c →
    foldUp H acc ((List.replicate c false).zip l) = leftLoop H acc l
  | [], acc, c, _ => by simp [foldUp, leftLoop]
  | x :: l, acc, c + 1, h => by
    simp only [List.length_cons] at h
    rw [List.replicate_succ, List.zip_cons_cons, leftLoop]
    have := leftLoop_eq_fold H l (nodeSum H x acc) c (by omega)
    simpa [foldUp, stepUp] using this
  | x :: l, acc, 0, h => by simp at h

/-- the first loop of `verify` performs exactly the `j` steps inside the largest complete aligned
block around `m` that fits below `n`, combining by the bits of `m`, and breaks there -/
theorem stableLoop_run (shl esf : Bool) (H : HashFn) (proof : List Bytes) (m n j : Nat)
    (hsafe : LoopSafe shl esf n) (hm : m < n) (hj : blockIn m n j) (hnj : ¬ blockIn m n (j + 1))
    (hlen : j ≤ proof.length) :
    ∀ (d par : Nat) (sum : Bytes), par + d = j →
      stableLoop shl esf H proof m n (64 - par) par (blockEnd m par) sum =
        .ok (.brk j (blockEnd m j) (foldUp H sum ((bitsFrom m par d).zip (proof.drop par)))) := by
  have hn64 : n < 2 ^ 64 := by
    rcases hsafe with ⟨_, _, h⟩ | h
    · exact h
    · exact Nat.lt_trans h (by decide)
  have hj64 : j < 64 := lt_64_of_pow_le (blockIn_pow_le hj) hn64
  intro d
  induction d with
  | zero =>
    intro par sum hpar
    have hpj : par = j := by omega
    subst hpj
    obtain ⟨f, hf⟩ : ∃ f, 64 - par = f + 1 := ⟨63 - par, by omega⟩
    rw [hf]
    unfold stableLoop
    simp only [bitsFrom, List.range'_zero, List.map_nil, List.zip_nil_left, foldUp, List.foldl_nil]
    by_cases h64 : par + 1 ≥ 64
    · -- only reachable when both guards are present (n ≥ 2^63)
      have hpar63 : par = 63 := by omega
      rcases hsafe with ⟨h1, _, _⟩ | h
      · simp only [h64, if_true, h1]
      · exfalso
        have := blockIn_pow_le hj
        rw [hpar63] at this
        omega
    · simp only [h64, if_false]
      have hnb : ¬ (m / 2 ^ (par + 1) * 2 ^ (par + 1) + 2 ^ (par + 1) ≤ n) := hnj
      have hpp := Nat.pow_pos (n := par + 1) (show 0 < 2 by decide)
      have hov : (!esf && decide (m / 2 ^ (par + 1) * 2 ^ (par + 1) + 2 ^ (par + 1) ≥ 2 ^ 64)) = false := by
        rcases hsafe with ⟨_, h2, _⟩ | h
        · simp [h2]
        · have h1 : m / 2 ^ (par + 1) * 2 ^ (par + 1) ≤ m := Nat.div_mul_le_self _ _
          have h2 : 2 ^ (par + 1) ≤ 2 ^ 63 := Nat.pow_le_pow_right (by decide) (by omega)
          have : ¬ (m / 2 ^ (par + 1) * 2 ^ (par + 1) + 2 ^ (par + 1) ≥ 2 ^ 64) := by omega
          simp [this]
      simp only [hov, Bool.false_eq_true, if_false]
      rw [if_pos (by omega)]
  | succ d ih =>
    intro par sum hpar
    obtain ⟨f, hf⟩ : ∃ f, 64 - par = f + 1 := ⟨63 - par, by omega⟩
    have hf' : f = 64 - (par + 1) := by omega
    rw [hf]
    unfold stableLoop
    have h64 : ¬ (par + 1 ≥ 64) := by omega
    simp only [h64, if_false]
    have hb : m / 2 ^ (par + 1) * 2 ^ (par + 1) + 2 ^ (par + 1) ≤ n := blockIn_le (show par + 1 ≤ j by omega) hj
    have hpp := Nat.pow_pos (n := par + 1) (show 0 < 2 by decide)
    have hov : (!esf && decide (m / 2 ^ (par + 1) * 2 ^ (par + 1) + 2 ^ (par + 1) ≥ 2 ^ 64)) = false := by
      have : ¬ (m / 2 ^ (par + 1) * 2 ^ (par + 1) + 2 ^ (par + 1) ≥ 2 ^ 64) := by omega
      simp [this]
    simp only [hov, Bool.false_eq_true, if_false]
    rw [if_neg (by omega), if_neg (by omega)]
    have hpl : par < proof.length := by omega
    have hat : proofAt proof par = .ok proof[par] := by
      unfold proofAt; rw [List.getElem?_eq_getElem hpl]
    simp only [hat]
    have := ih (par + 1) (if m - m / 2 ^ (par + 1) * 2 ^ (par + 1) < 2 ^ par then nodeSum H sum proof[par] else nodeSum H proof[par] sum) (by omega)
    rw [← hf'] at this
    have hbe : m / 2 ^ (par + 1) * 2 ^ (par + 1) + 2 ^ (par + 1) - 1 = blockEnd m (par + 1) := rfl
    rw [hbe, this]
    congr 2
    have e1 : bitsFrom m par (d + 1) = bitDir m par :: bitsFrom m (par + 1) d := by
      unfold bitsFrom; rw [List.range'_succ, List.map_cons]
    rw [e1, List.drop_eq_getElem_cons hpl, List.zip_cons_cons]
    simp only [foldUp, List.foldl_cons, stepUp, bitDir]
    congr 1
    by_cases hbit : (m / 2 ^ par) % 2 = 0
    · rw [if_pos ((bit_test m par).mpr hbit)]; simp [hbit]
    · rw [if_neg (fun h => hbit ((bit_test m par).mp h))]; simp [hbit]

/-! ### assembly -/

theorem zip_append_drop {α β : Type} : ∀ (l1 l2 : List α) (p : List β),
    (l1 ++ l2).zip p = l1.zip p ++ l2.zip (p.drop l1.length)
  | [], l2, p => by simp
  | a :: l1, l2, [] => by simp
  | a :: l1, l2, b :: p => by
    simp only [List.cons_append, List.zip_cons_cons, List.length_cons, List.drop_succ_cons]
    rw [zip_append_drop l1 l2 p]

theorem foldUp_append (H : HashFn) (lh : Bytes) (a b : List (Bool × Bytes)) :
    foldUp H lh (a ++ b) = foldUp H (foldUp H lh a) b := by
  simp [foldUp, List.foldl_append]

theorem blockEnd_zero (m : Nat) : blockEnd m 0 = m := by simp [blockEnd]

/-- `verify` (with the guards the flags describe) decides exactly the RFC 6962 audit-path recomputation -/
theorem verifyWith_eq (shl esf : Bool) (H : HashFn) (root data : Bytes) (proof : List Bytes) (index n : Nat)
    (hsafe : LoopSafe shl esf n) :
    verifyWith shl esf H root data proof index n =
      .ok (decide (index < n ∧ rootFromPath H index n (leafSum H data) proof = some root)) := by
  unfold verifyWith
  by_cases h1 : n ≤ 1 ∧ proof ≠ []
  · rw [if_pos h1]
    congr 1
    symm
    rw [decide_eq_false_iff_not]
    rintro ⟨hi, hr⟩
    have hn1 : n = 1 := by omega
    subst hn1
    have hi0 : index = 0 := by omega
    subst hi0
    rw [rootFromPath, rootFromPathRev_small H _ _ _ _ (Nat.le_refl 1)] at hr
    have : proof.reverse ≠ [] := by simpa using h1.2
    simp [this] at hr
  · rw [if_neg h1]
    by_cases h2 : 1 < n ∧ some proof.length ≠ pathLengthFromKey n index n
    · rw [if_pos h2]
      congr 1
      symm
      rw [decide_eq_false_iff_not]
      rintro ⟨hi, hr⟩
      rw [pathLengthFromKey_eq n n index (Nat.le_refl _) (by omega) hi] at h2
      rw [rootFromPath_eq_fold H _ n index proof hi] at hr
      have : proof.length ≠ (dirs index n).length := fun h => h2.2 (by rw [h])
      simp [this] at hr
    · rw [if_neg h2]
      by_cases h3 : index ≥ n
      · rw [if_pos h3]
        congr 1
        symm
        rw [decide_eq_false_iff_not]
        rintro ⟨hi, _⟩
        omega
      · rw [if_neg h3]
        have hi : index < n := by omega
        simp only
        by_cases h4 : proof = []
        · subst h4
          rw [if_pos rfl]
          congr 1
          rcases Nat.lt_or_ge n 2 with hn | hn
          · have hn1 : n = 1 := by omega
            subst hn1
            have hi0 : index = 0 := by omega
            subst hi0
            rw [rootFromPath, List.reverse_nil, rootFromPathRev_small H _ _ _ _ (Nat.le_refl 1)]
            simp only [true_and, if_true, Option.some.injEq]
            by_cases hr : root = leafSum H data
            · simp [hr]
            · have : ¬ (leafSum H data = root) := fun h => hr h.symm
              simp [hr, this]
          · rw [rootFromPath, List.reverse_nil, rootFromPathRev_nil H _ _ _ hn]
            have : ¬ n = 1 := by omega
            simp [this]
        · rw [if_neg h4]
          have hn : 2 ≤ n := by
            rcases Nat.lt_or_ge n 2 with hn | hn
            · exact absurd ⟨by omega, h4⟩ h1
            · exact hn
          have hlen : proof.length = (dirs index n).length := by
            have hp := pathLengthFromKey_eq n n index (Nat.le_refl _) hn hi
            rw [hp] at h2
            rcases Nat.decEq proof.length (dirs index n).length with hne | heq
            · exact absurd ⟨by omega, fun h => hne (Option.some.inj h)⟩ h2
            · exact heq
          obtain ⟨j, c, hd, hin, hnin⟩ := dirs_shape n index hi
          rw [rootFromPath_eq_fold H _ n index proof hi, if_pos hlen]
          have hbl : (bitsL index j).length = j := by simp [bitsL]
          by_cases hb : index / 2 ^ j * 2 ^ j + 2 ^ j = n
          · -- the complete block ends the tree: no phase-2 step
            rw [if_pos hb, List.append_nil] at hd
            have hlj : j ≤ proof.length := by
              rw [hlen, hd, List.length_append, hbl]; omega
            have hrun := stableLoop_run shl esf H proof index n j hsafe hi hin hnin hlj j 0 (leafSum H data) (by omega)
            rw [blockEnd_zero, bitsFrom_zero] at hrun
            simp only [Nat.sub_zero, List.drop_zero] at hrun
            rw [hrun]
            simp only
            have hp := Nat.pow_pos (n := j) (show 0 < 2 by decide)
            have hse : ¬ (blockEnd index j ≠ n - 1) := by unfold blockEnd; omega
            rw [if_neg hse]
            congr 1
            rw [hd, zip_append_drop, foldUp_append, hbl]
            have hc : (proof.drop j).length ≤ c := by
              rw [List.length_drop, hlen, hd, List.length_append, hbl, List.length_replicate]; omega
            rw [leftLoop_eq_fold H _ _ c hc]
            simp only [hi, true_and, Option.some.injEq]
          · rw [if_neg hb] at hd
            have hlj : j + 1 + c = proof.length := by
              rw [hlen, hd]; simp [hbl]; omega
            have hrun := stableLoop_run shl esf H proof index n j hsafe hi hin hnin (by omega) j 0 (leafSum H data) (by omega)
            rw [blockEnd_zero, bitsFrom_zero] at hrun
            simp only [Nat.sub_zero, List.drop_zero] at hrun
            rw [hrun]
            simp only
            have hp := Nat.pow_pos (n := j) (show 0 < 2 by decide)
            have hse : blockEnd index j ≠ n - 1 := by unfold blockEnd; omega
            rw [if_pos hse, if_neg (by omega)]
            have hjl : j < proof.length := by omega
            have hat : proofAt proof j = .ok proof[j] := by
              unfold proofAt; rw [List.getElem?_eq_getElem hjl]
            simp only [hat]
            congr 1
            rw [hd, List.append_assoc, zip_append_drop, foldUp_append, hbl, List.drop_eq_getElem_cons hjl]
            simp only [List.singleton_append, List.zip_cons_cons, foldUp, List.foldl_cons, stepUp, if_true]
            have hc : (proof.drop (j + 1)).length ≤ c := by rw [List.length_drop]; omega
            have := leftLoop_eq_fold H (proof.drop (j + 1)) (nodeSum H (List.foldl (stepUp H) (leafSum H data) ((bitsL index j).zip proof)) proof[j]) c hc
            simp only [foldUp] at this
            rw [this]
            simp only [hi, true_and, Option.some.injEq]
            exact decide_eq_decide.mpr Iff.rfl

end FuelVerif.BMT
