/-
C05: the transaction the VM holds is the PREPARED one (`init_inner` calls `tx.prepare_sign()`), but the metadata cache it
carries (offsets) was computed by `precompute` BEFORE the preparation. This file proves that this makes no difference:
`prepare_sign` as `init_inner` performs it (`vmMask`: C03's id mask with the witnesses kept) preserves the static and
dynamic size of the transaction, of every input, output and witness, the predicate offsets / lengths of every input and
every body quantity an offset is computed from — hence every offset accessor answers the same from the stale cache of
the real object as from the prepared value without a cache (which is what Model/Gtf.lean reads).
-/
import FuelVerif.Lemmas.Gtf
import FuelVerif.Lemmas.TxIdSize
namespace FuelVerif.Gtf
open FuelVerif FuelVerif.Canonical FuelVerif.Offsets FuelVerif.TxId
open FuelVerif.Canonical.TxDesc (env envLaws)
open FuelVerif.Canonical.InputCodec (env0 encDesc)

/-! ### sizes -/

theorem sizeSafe_input : sizeSafe (fun _ _ => false) inputMask encDesc = true := by decide +kernel

/-- `Input::prepare_sign` preserves the size of an input -/
theorem input_apply_size (v : Val) (h : InputCodec.wt v = true) :
    sizeS env0 encDesc (inputMask.apply v) = sizeS env0 encDesc v ∧ sizeD env0 encDesc (inputMask.apply v) = sizeD env0 encDesc v := by
  simp only [InputCodec.wt, Bool.and_eq_true] at h
  exact apply_size env0 (fun _ _ => false) (fun _ _ => false) (fun _ _ hf => by cases hf) encDesc inputMask v maskOk_input sizeSafe_input h.1

theorem okCustom_size : ∀ k m, okCustom k m = true → ∀ v, (env k).wt v = true →
    (env k).sizeS (m.apply v) = (env k).sizeS v ∧ (env k).sizeD (m.apply v) = (env k).sizeD v := by
  intro k m h v hv
  simp only [okCustom, Bool.and_eq_true, beq_iff_eq] at h
  obtain ⟨rfl, rfl⟩ := h
  have : (env Resolve.customInput) = InputCodec.codec := by
    simp [TxDesc.env, Resolve.customInput, Resolve.customPolicies]
  rw [this] at hv ⊢
  exact input_apply_size v hv

/-- complete check over the regenerated tables: for every chargeable kind the preparation of `init_inner` assigns defaults
only to fixed-size fields (`receipts_root`, `tx_pointer`, `predicate_gas_used`, `utxo_id`, `balance_root`, `state_root`,
`amount`, `to`, `asset_id`, …) and clears only the skipped metadata slot — the witnesses are kept -/
theorem vmMasks_sizeSafe : Kind.all.all (fun k => !k.chargeable || sizeSafe okCustom (vmMask k) k.desc) = true := by decide +kernel

/-- the id mask itself (which clears the witnesses) is NOT size-safe: keeping the witnesses in `init_inner` matters -/
theorem idMask_not_sizeSafe : sizeSafe okCustom (maskOf .script) Kind.script.desc = false := by decide +kernel

/-- **`prepare_sign` preserves the size of the transaction** (static, dynamic, total) -/
theorem prepare_sign_preserves_size (k : Kind) (hk : k.chargeable = true) (v : Val) (hv : wt env k.desc v = true) :
    sizeS env k.desc ((vmMask k).apply v) = sizeS env k.desc v ∧ sizeD env k.desc ((vmMask k).apply v) = sizeD env k.desc v ∧
    size env k.desc ((vmMask k).apply v) = size env k.desc v := by
  have h1 := vmMasks_ok
  have h2 := vmMasks_sizeSafe
  simp only [List.all_eq_true] at h1 h2
  have hm := h1 k (by cases k <;> simp [Kind.all])
  have hs := h2 k (by cases k <;> simp [Kind.all])
  simp only [hk, Bool.not_true, Bool.false_or] at hm hs
  have := apply_size env okCustom okCustom okCustom_size k.desc (vmMask k) v hm hs hv
  exact ⟨this.1, this.2, by simp only [size, this.1, this.2]⟩

/-! ### the fields of the prepared transaction -/

open FuelVerif.Canonical.InputLaws (wt_pair wt_unit)

/-- the preparation of `init_inner`, spelled out: the body struct's `prepare_sign`, every input's, every output's; policies
and witnesses untouched; the skipped metadata slot normalised -/
theorem vmMask_eq (k : Kind) (hk : k.chargeable = true) :
    vmMask k = .pair (structMask k.bodyStruct k.body) (.pair .keep (.pair (.each inputMask) (.pair (.each outputMask) (.pair .keep (.pair .clear .keep))))) := by
  have hd := (kind_desc k hk).1
  unfold vmMask chargeableMask
  rw [hd]
  simp only [chargeable]

theorem prepared_fields (k : Kind) (hk : k.chargeable = true) (v : Val) (hv : wt env k.desc v = true) :
    let tO : Tx := { kind := k, val := v, metadata := none }
    let tP : Tx := { kind := k, val := (vmMask k).apply v, metadata := none }
    tP.body = (structMask k.bodyStruct k.body).apply tO.body ∧ tP.policies = tO.policies ∧
    tP.inputs = tO.inputs.map inputMask.apply ∧ tP.outputs = tO.outputs.map outputMask.apply ∧ tP.witnesses = tO.witnesses := by
  intro tO tP
  rw [(kind_desc k hk).1] at hv
  obtain ⟨vb, r, rfl, hvb, h⟩ := wt_pair hv
  obtain ⟨pol, r, rfl, hpol, h⟩ := wt_pair h
  obtain ⟨ins, r, rfl, hins, h⟩ := wt_pair h
  obtain ⟨outs, r, rfl, houts, h⟩ := wt_pair h
  obtain ⟨wits, r, rfl, hwits, h⟩ := wt_pair h
  obtain ⟨m, r, rfl, _, h⟩ := wt_pair h
  have hr := wt_unit h
  subst hr
  obtain ⟨i0, i1, i2, i3, i4⟩ := chargeable_idx
  simp only [tO, tP, vmMask_eq k hk, Mask.apply, Tx.body, Tx.policies, Tx.inputs, Tx.outputs, Tx.witnesses, fieldOf, i0, i1, i2, i3, i4,
    Val.field, Val.elems, List.getElem?_cons_zero, List.getElem?_cons_succ, Option.getD_some, elems_each_apply, and_self]

/-! ### inputs, outputs -/

theorem okCustom_input : okCustom Resolve.customInput inputMask = true := by decide +kernel

theorem inputSize_apply (i : Val) (h : wt env TxDesc.input i = true) : Tx.inputSize (inputMask.apply i) = Tx.inputSize i := by
  have := okCustom_size Resolve.customInput inputMask okCustom_input i (by simpa [TxDesc.input, wt] using h)
  simp only [Tx.inputSize, size, TxDesc.input, sizeS, sizeD, this.1, this.2]

theorem outputMask_ok : (maskOk env okCustom outputMask TxDesc.output && sizeSafe okCustom outputMask TxDesc.output) = true := by decide +kernel

theorem outputSize_apply (o : Val) (h : wt env TxDesc.output o = true) : Tx.outputSize (outputMask.apply o) = Tx.outputSize o := by
  have hm := outputMask_ok
  simp only [Bool.and_eq_true] at hm
  have := apply_size env okCustom okCustom okCustom_size TxDesc.output outputMask o hm.1 hm.2 h
  simp only [Tx.outputSize, size, this.1, this.2]

/-- an enum mask: one mask per variant, nothing else -/
def altChain : Mask → Bool
  | .alt _ r => altChain r
  | .keep => true
  | _ => false

/-- an enum mask keeps the variant and prepares its payload -/
theorem unVariant_apply : ∀ (m : Mask), altChain m = true → ∀ i : Val,
    InputCodec.unVariant (m.apply i) = (InputCodec.unVariant i).map (fun p => (p.1, (altMask m p.1).apply p.2)) := by
  intro m
  induction m with
  | alt a r _ ihr =>
    intro h i
    simp only [altChain] at h
    cases i with
    | inl x => simp [Mask.apply, InputCodec.unVariant, altMask]
    | inr x =>
      simp only [Mask.apply, InputCodec.unVariant, ihr h x, Option.map_map]
      congr 1
    | _ => simp [Mask.apply, InputCodec.unVariant]
  | keep => intro _ i; cases h : InputCodec.unVariant i <;> simp [Mask.apply, altMask, h]
  | _ => intro h; simp [altChain] at h

theorem inputMask_chain : altChain inputMask = true := by decide +kernel

theorem inputKind_apply (i : Val) : inputKind (inputMask.apply i) = inputKind i := by
  simp only [inputKind, unVariant_apply inputMask inputMask_chain i]
  cases InputCodec.unVariant i <;> simp

theorem inputPayload_apply (i : Val) (n : Nat) (p : Val) (h : InputCodec.unVariant i = some (n, p)) :
    inputPayload (inputMask.apply i) = (altMask inputMask n).apply p ∧ inputPayload i = p := by
  simp only [inputPayload, unVariant_apply inputMask inputMask_chain i, h, Option.map_some, Option.getD_some, and_self]

def isPredicateKind : InputKind → Bool
  | .coinPredicate | .messageCoinPredicate | .messageDataPredicate => true
  | _ => false

/-- the fields the predicate offsets / lengths read (`predicate`, `data`) are kept by the preparation of the three predicate
variants (complete check over the tables: variant index, struct, field position, the variant's mask) -/
theorem predicate_fields_kept : ∀ n : Fin 7, ∀ f ∈ ["predicate", "data"],
    (match InputKind.all[n.val]? with
     | some k => !isPredicateKind k || (match Resolve.fieldIndex k.struct f with
        | some j => keepsField (altMask inputMask n.val) j
        | none => true)
     | none => false) = true := by decide +kernel

theorem inputField_apply (i : Val) (k : InputKind) (f : String) (hk : inputKind i = some k) (hp : isPredicateKind k = true)
    (hf : f ∈ ["predicate", "data"]) : inputField k f (inputMask.apply i) = inputField k f i := by
  unfold inputKind at hk
  cases hu : InputCodec.unVariant i with
  | none => rw [hu] at hk; cases hk
  | some np =>
    obtain ⟨n, p⟩ := np
    rw [hu] at hk
    simp only [Option.bind_some] at hk
    have hn : n < 7 := by
      have := (List.getElem?_eq_some_iff.mp hk).1
      simpa [InputKind.all] using this
    have hkept := predicate_fields_kept ⟨n, hn⟩ f hf
    simp only [hk, hp, Bool.not_true, Bool.false_or] at hkept
    obtain ⟨h1, h2⟩ := inputPayload_apply i n p hu
    unfold inputField fieldOf
    rw [h1, h2]
    cases hj : Resolve.fieldIndex k.struct f with
    | none => rfl
    | some j =>
      rw [hj] at hkept
      simp only at hkept ⊢
      rw [field_apply_keep _ j p hkept]

theorem predicateLen_apply (i : Val) : predicateLen (inputMask.apply i) = predicateLen i := by
  unfold predicateLen
  rw [inputKind_apply]
  cases hk : inputKind i with
  | none => rfl
  | some k =>
    cases k <;> simp only
    · rw [inputField_apply i _ "predicate" hk rfl (by simp)]
    · rw [inputField_apply i _ "predicate" hk rfl (by simp)]
    · rw [inputField_apply i _ "predicate" hk rfl (by simp)]

theorem predicateOffset_apply (i : Val) : predicateOffset (inputMask.apply i) = predicateOffset i := by
  unfold predicateOffset
  rw [inputKind_apply]
  cases hk : inputKind i with
  | none => rfl
  | some k =>
    cases k <;> simp only
    · rw [inputField_apply i _ "data" hk rfl (by simp)]

/-! ### the body -/

/-- the body fields the offset functions read, per kind -/
def bodyFieldsRead : Kind → List (String × String)
  | .script => [("ScriptBody", "script"), ("ScriptBody", "script_data")]
  | .create => [("CreateBody", "storage_slots")]
  | .upload => [("UploadBody", "proof_set")]
  | .upgrade => [("UpgradeBody", "purpose")]
  | _ => []

/-- none of them is touched by the body struct's `prepare_sign` (complete check) -/
theorem body_fields_kept : Kind.all.all (fun k => (bodyFieldsRead k).all fun r =>
    match Resolve.fieldIndex r.1 r.2 with
    | some j => keepsField (structMask k.bodyStruct k.body) j
    | none => true) = true := by decide +kernel

theorem fieldOf_body_apply (k : Kind) (s f : String) (h : (s, f) ∈ bodyFieldsRead k) (vb : Val) :
    fieldOf s f ((structMask k.bodyStruct k.body).apply vb) = fieldOf s f vb := by
  have := body_fields_kept
  simp only [List.all_eq_true] at this
  have := this k (by cases k <;> simp [Kind.all]) (s, f) h
  unfold fieldOf
  cases hj : Resolve.fieldIndex s f with
  | none => rfl
  | some j =>
    simp only [hj] at this
    simp only
    rw [field_apply_keep _ j vb this]

/-! ### every offset -/

theorem map_take_congr {α : Type} (f : α → α) (g : α → Nat) (l : List α) (h : ∀ x ∈ l, g (f x) = g x) (n : Nat) :
    ((l.map f).take n).map g = (l.take n).map g := by
  rw [← List.map_take, List.map_map]
  apply List.map_congr_left
  intro x hx
  exact h x (List.mem_of_mem_take hx)

/-- two cache-less transactions of the same kind whose policies and witnesses agree, whose inputs / outputs agree up to
their (size-preserving) preparation and whose body agrees on the fields the offset functions read, have the same offsets -/
theorem offsets_eq_of_fields (tO tP : Tx) (k : Kind) (hkO : tO.kind = k) (hkP : tP.kind = k)
    (hmO : tO.metadata = none) (hmP : tP.metadata = none)
    (fp : tP.policies = tO.policies) (fi : tP.inputs = tO.inputs.map inputMask.apply)
    (fo : tP.outputs = tO.outputs.map outputMask.apply) (fw : tP.witnesses = tO.witnesses)
    (hin : ∀ i ∈ tO.inputs, wt env TxDesc.input i = true) (hout : ∀ o ∈ tO.outputs, wt env TxDesc.output o = true)
    (hbf : ∀ s f, (s, f) ∈ bodyFieldsRead k → fieldOf s f tP.body = fieldOf s f tO.body) :
    (k = .script → tP.scriptDataOffset = tO.scriptDataOffset) ∧ tP.bodyOffsetEnd = tO.bodyOffsetEnd ∧
    (k = .create → ∀ i, tP.storageSlotsOffsetAt i = tO.storageSlotsOffsetAt i) ∧
    (k = .upload → ∀ i, tP.proofSetOffsetAt i = tO.proofSetOffsetAt i) ∧
    tP.inputsOffset = tO.inputsOffset ∧ tP.outputsOffset = tO.outputsOffset ∧ tP.witnessesOffset = tO.witnessesOffset ∧
    (∀ i, tP.inputsOffsetAt i = tO.inputsOffsetAt i) ∧ (∀ i, tP.outputsOffsetAt i = tO.outputsOffsetAt i) ∧
    (∀ i, tP.witnessesOffsetAt i = tO.witnessesOffsetAt i) ∧ (∀ i, tP.inputsPredicateOffsetAt i = tO.inputsPredicateOffsetAt i) := by
  have hsd : k = .script → tP.scriptDataOffset = tO.scriptDataOffset := by
    intro hs
    unfold Tx.scriptDataOffset
    rw [hmP, hmO, hbf "ScriptBody" "script" (by simp [hs, bodyFieldsRead])]
  have hslots : k = .create → tP.storageSlots = tO.storageSlots := by
    intro hs; unfold Tx.storageSlots; rw [hbf "CreateBody" "storage_slots" (by simp [hs, bodyFieldsRead])]
  have hproof : k = .upload → tP.proofSet = tO.proofSet := by
    intro hs; unfold Tx.proofSet; rw [hbf "UploadBody" "proof_set" (by simp [hs, bodyFieldsRead])]
  have hbe : tP.bodyOffsetEnd = tO.bodyOffsetEnd := by
    unfold Tx.bodyOffsetEnd
    rw [hkP, hkO]
    cases k with
    | script => simp only; rw [hsd rfl, hbf "ScriptBody" "script_data" (by simp [bodyFieldsRead])]
    | create => simp only; rw [hslots rfl]
    | upload => simp only; rw [hproof rfl]
    | upgrade => simp only; rw [hbf "UpgradeBody" "purpose" (by simp [bodyFieldsRead])]
    | blob => rfl
    | mint => rfl
  have hio : tP.inputsOffset = tO.inputsOffset := by
    unfold Tx.inputsOffset Tx.policiesOffset
    rw [hmP, hmO, hbe, fp]
  have hsz : ∀ n, ((tP.inputs.take n).map Tx.inputSize) = ((tO.inputs.take n).map Tx.inputSize) := by
    intro n; rw [fi]; exact map_take_congr _ _ _ (fun x hx => inputSize_apply x (hin x hx)) n
  have hsz' : tP.inputs.map Tx.inputSize = tO.inputs.map Tx.inputSize := by
    rw [fi, List.map_map]; exact List.map_congr_left (fun x hx => inputSize_apply x (hin x hx))
  have hoo : tP.outputsOffset = tO.outputsOffset := by
    unfold Tx.outputsOffset
    rw [hmP, hmO, hio, hsz']
  have hso : ∀ n, ((tP.outputs.take n).map Tx.outputSize) = ((tO.outputs.take n).map Tx.outputSize) := by
    intro n; rw [fo]; exact map_take_congr _ _ _ (fun x hx => outputSize_apply x (hout x hx)) n
  have hso' : tP.outputs.map Tx.outputSize = tO.outputs.map Tx.outputSize := by
    rw [fo, List.map_map]; exact List.map_congr_left (fun x hx => outputSize_apply x (hout x hx))
  have hwo : tP.witnessesOffset = tO.witnessesOffset := by
    unfold Tx.witnessesOffset
    rw [hmP, hmO, hoo, hso']
  have hia : ∀ i, tP.inputsOffsetAt i = tO.inputsOffsetAt i := by
    intro i
    unfold Tx.inputsOffsetAt
    rw [hmP, hmO, hio, hsz i, fi, List.length_map]
  refine ⟨hsd, hbe, ?_, ?_, hio, hoo, hwo, hia, ?_, ?_, ?_⟩
  · intro hs i; unfold Tx.storageSlotsOffsetAt; rw [hslots hs]
  · intro hs i; unfold Tx.proofSetOffsetAt; rw [hproof hs]
  · intro i
    unfold Tx.outputsOffsetAt
    rw [hmP, hmO, hoo, hso i, fo, List.length_map]
  · intro i
    unfold Tx.witnessesOffsetAt
    rw [hmP, hmO, hwo, fw]
  · intro i
    unfold Tx.inputsPredicateOffsetAt
    rw [hmP, hmO, hia i, fi, List.getElem?_map]
    cases hi : tO.inputs[i]? with
    | none => rfl
    | some x => simp only [Option.map_some, Option.bind_some, predicateOffset_apply, predicateLen_apply]

/-- **the uncached offsets of the prepared transaction are the uncached offsets of the original one** -/
theorem prepared_offsets_eq (k : Kind) (hk : k.chargeable = true) (v : Val) (hv : wt env k.desc v = true) :
    let tO : Tx := { kind := k, val := v, metadata := none }
    let tP : Tx := { kind := k, val := (vmMask k).apply v, metadata := none }
    (k = .script → tP.scriptDataOffset = tO.scriptDataOffset) ∧ tP.bodyOffsetEnd = tO.bodyOffsetEnd ∧
    (k = .create → ∀ i, tP.storageSlotsOffsetAt i = tO.storageSlotsOffsetAt i) ∧
    (k = .upload → ∀ i, tP.proofSetOffsetAt i = tO.proofSetOffsetAt i) ∧
    tP.inputsOffset = tO.inputsOffset ∧ tP.outputsOffset = tO.outputsOffset ∧ tP.witnessesOffset = tO.witnessesOffset ∧
    (∀ i, tP.inputsOffsetAt i = tO.inputsOffsetAt i) ∧ (∀ i, tP.outputsOffsetAt i = tO.outputsOffsetAt i) ∧
    (∀ i, tP.witnessesOffsetAt i = tO.witnessesOffsetAt i) ∧ (∀ i, tP.inputsPredicateOffsetAt i = tO.inputsPredicateOffsetAt i) := by
  intro tO tP
  obtain ⟨fb, fp, fi, fo, fw⟩ := prepared_fields k hk v hv
  have hv' := hv
  rw [(kind_desc k hk).1] at hv'
  obtain ⟨_, _, hin, hout, _, _⟩ := chargeable_layout k.body k v hv' (kind_desc k hk).2.1
  exact offsets_eq_of_fields tO tP k rfl rfl rfl rfl fp fi fo fw hin hout
    (fun s f h => by rw [show tP.body = _ from fb]; exact fieldOf_body_apply k s f h _)

/-! ### the object the real VM holds: stale cache + prepared value -/

/-- `init_inner` on a transaction that went through `precompute` (every `Checked` transaction did): `tx.prepare_sign()`
changes the value and leaves the metadata cache, which was computed from the value BEFORE the preparation. Every offset
accessor answers on that object exactly what it answers on the prepared value without a cache — the object of
Model/Gtf.lean. `m0` is whatever cache the transaction carried before `precompute` (none, or a stale one). -/
theorem real_vm_tx_offsets_eq_model (idOf : Tx → Bytes) (k : Kind) (hk : k.chargeable = true) (v : Val) (hv : wt env k.desc v = true)
    (m0 : Option Metadata) (t' : Tx) (h : Tx.precompute idOf { kind := k, val := v, metadata := m0 } = .ok t') :
    let tReal : Tx := { t' with val := (vmMask k).apply t'.val }
    let tModel : Tx := { kind := k, val := (vmMask k).apply v, metadata := none }
    tReal.kind = tModel.kind ∧ tReal.val = tModel.val ∧ tReal.metadata.isSome = true ∧
    (k = .script → tReal.scriptDataOffset = tModel.scriptDataOffset) ∧ tReal.bodyOffsetEnd = tModel.bodyOffsetEnd ∧
    (∀ i, tReal.storageSlotsOffsetAt i = tModel.storageSlotsOffsetAt i) ∧ (∀ i, tReal.proofSetOffsetAt i = tModel.proofSetOffsetAt i) ∧
    tReal.inputsOffset = tModel.inputsOffset ∧ tReal.outputsOffset = tModel.outputsOffset ∧ tReal.witnessesOffset = tModel.witnessesOffset ∧
    (∀ i, tReal.inputsOffsetAt i = tModel.inputsOffsetAt i) ∧ (∀ i, tReal.outputsOffsetAt i = tModel.outputsOffsetAt i) ∧
    (∀ i, tReal.witnessesOffsetAt i = tModel.witnessesOffsetAt i) ∧
    (∀ i, tReal.inputsPredicateOffsetAt i = tModel.inputsPredicateOffsetAt i) := by
  intro tReal tModel
  obtain ⟨c1, c2, c3, c4, c5, c6, c7, c8, c9, c10, c11⟩ := cached_eq_uncached idOf _ t' hk h
  simp only at c1 c2 c4 c5 c6 c7 c8 c9 c10 c11
  obtain ⟨p1, p2, p3, p4, p5, p6, p7, p8, p9, p10, p11⟩ := prepared_offsets_eq k hk v hv
  have hval : tReal.val = tModel.val := by simp only [tReal, tModel, c1]
  have hkind : tReal.kind = k := c2
  have hbody : tReal.body = tModel.body := by simp only [Tx.body, hval]
  have hmeta : tReal.metadata = t'.metadata := rfl
  -- accessors that read the cache only
  have a1 : tReal.inputsOffset = t'.inputsOffset := by simp only [Tx.inputsOffset, hmeta]; cases hm : t'.metadata <;> simp_all
  have a2 : tReal.outputsOffset = t'.outputsOffset := by simp only [Tx.outputsOffset, hmeta]; cases hm : t'.metadata <;> simp_all
  have a3 : tReal.witnessesOffset = t'.witnessesOffset := by simp only [Tx.witnessesOffset, hmeta]; cases hm : t'.metadata <;> simp_all
  have a4 : ∀ i, tReal.inputsOffsetAt i = t'.inputsOffsetAt i := by intro i; simp only [Tx.inputsOffsetAt, hmeta]; cases hm : t'.metadata <;> simp_all
  have a5 : ∀ i, tReal.outputsOffsetAt i = t'.outputsOffsetAt i := by intro i; simp only [Tx.outputsOffsetAt, hmeta]; cases hm : t'.metadata <;> simp_all
  have a6 : ∀ i, tReal.witnessesOffsetAt i = t'.witnessesOffsetAt i := by intro i; simp only [Tx.witnessesOffsetAt, hmeta]; cases hm : t'.metadata <;> simp_all
  have a7 : ∀ i, tReal.inputsPredicateOffsetAt i = t'.inputsPredicateOffsetAt i := by
    intro i; simp only [Tx.inputsPredicateOffsetAt, hmeta]; cases hm : t'.metadata <;> simp_all
  have a8 : tReal.scriptDataOffset = t'.scriptDataOffset := by simp only [Tx.scriptDataOffset, hmeta]; cases hm : t'.metadata <;> simp_all
  have hsd : k = .script → tReal.scriptDataOffset = tModel.scriptDataOffset := by
    intro hs; rw [a8, (c11 hs).1]; exact (p1 hs).symm
  have hsdO : tReal.storageSlots = tModel.storageSlots := by unfold Tx.storageSlots; rw [hbody]
  have hprO : tReal.proofSet = tModel.proofSet := by unfold Tx.proofSet; rw [hbody]
  refine ⟨c2, hval, c3, hsd, ?_, ?_, ?_, by rw [a1, c4]; exact p5.symm, by rw [a2, c5]; exact p6.symm, by rw [a3, c6]; exact p7.symm,
    fun i => by rw [a4, c7]; exact (p8 i).symm, fun i => by rw [a5, c8]; exact (p9 i).symm, fun i => by rw [a6, c9]; exact (p10 i).symm,
    fun i => by rw [a7, c10]; exact (p11 i).symm⟩
  · -- body_offset_end: Script adds the prepared script data to the cached script-data offset; the other kinds read the value only
    unfold Tx.bodyOffsetEnd
    rw [hkind, show tModel.kind = k from rfl]
    cases k with
    | script => simp only; rw [hsd rfl, hbody]
    | create => simp only; rw [hsdO]
    | upload => simp only; rw [hprO]
    | upgrade => simp only; rw [hbody]
    | blob => rfl
    | mint => rfl
  · intro i; unfold Tx.storageSlotsOffsetAt; rw [hsdO]
  · intro i; unfold Tx.proofSetOffsetAt; rw [hprO]

end FuelVerif.Gtf
