/-
Scalar-field facts used by C16/C17: the model's `Nat` arithmetic mod `n` (`powMod`, `invN`, `negN`)
read in `ZMod n`.
-/
import Mathlib.Data.ZMod.Basic
import Mathlib.FieldTheory.Finite.Basic
import FuelVerif.Model.Ecdsa
namespace FuelVerif.Ecdsa
open FuelVerif

theorem powModAux_modEq (m : Nat) : ∀ (fuel b e acc : Nat), e < 2 ^ fuel →
    Ecc.powModAux m fuel b e acc % m = acc * b ^ e % m := by
  intro fuel
  induction fuel with
  | zero =>
    intro b e acc h
    have : e = 0 := by omega
    subst this
    simp [Ecc.powModAux]
  | succ f ih =>
    intro b e acc h
    unfold Ecc.powModAux
    by_cases he : e = 0
    · subst he; simp
    · rw [if_neg he]
      have h2 : e / 2 < 2 ^ f := by
        rw [Nat.div_lt_iff_lt_mul (by decide)]; rw [Nat.pow_succ] at h; exact h
      rw [ih _ _ _ h2]
      have hsplit : b ^ e = (b * b) ^ (e / 2) * b ^ (e % 2) := by
        conv_lhs => rw [← Nat.div_add_mod e 2]
        rw [Nat.pow_add, Nat.pow_mul, Nat.pow_two]
      rw [hsplit]
      have hb : (b * b % m) ^ (e / 2) ≡ (b * b) ^ (e / 2) [MOD m] := (Nat.mod_modEq _ _).pow _
      rcases Nat.mod_two_eq_zero_or_one e with h0 | h1
      · rw [h0]
        simp only [Nat.zero_ne_one, if_false, Nat.pow_zero, Nat.mul_one]
        exact (Nat.ModEq.refl acc).mul hb
      · rw [h1]
        simp only [if_true, Nat.pow_one]
        have : acc * b % m * (b * b % m) ^ (e / 2) ≡ acc * b * (b * b) ^ (e / 2) [MOD m] :=
          (Nat.mod_modEq _ _).mul hb
        refine this.trans ?_
        rw [Nat.mul_assoc, Nat.mul_comm b]

theorem powModAux_lt (m : Nat) : ∀ (fuel b e acc : Nat), acc < m → Ecc.powModAux m fuel b e acc < m := by
  intro fuel
  induction fuel with
  | zero => intro b e acc h; simpa [Ecc.powModAux] using h
  | succ f ih =>
    intro b e acc h
    unfold Ecc.powModAux
    split
    · exact h
    · apply ih
      split
      · exact Nat.mod_lt _ (by omega)
      · exact h

theorem powMod_eq (b e m : Nat) (hm : 1 < m) : Ecc.powMod b e m = b ^ e % m := by
  unfold Ecc.powMod
  have hlt : e < 2 ^ (e.log2 + 1) := Nat.lt_log2_self
  have h1 := powModAux_modEq m _ (b % m) e (1 % m) hlt
  have h2 := powModAux_lt m (e.log2 + 1) (b % m) e (1 % m) (Nat.mod_lt _ (by omega))
  rw [Nat.mod_eq_of_lt h2] at h1
  rw [h1, Nat.mod_eq_of_lt hm, Nat.one_mul, ← Nat.pow_mod]

variable {n : Nat}

theorem invN_cast [Fact n.Prime] (x : Nat) (hx : (x : ZMod n) ≠ 0) :
    ((invN n x : Nat) : ZMod n) = (x : ZMod n)⁻¹ := by
  have hp : n.Prime := Fact.out
  unfold invN
  rw [powMod_eq _ _ _ hp.one_lt, ZMod.natCast_mod, Nat.cast_pow]
  apply eq_inv_of_mul_eq_one_left
  rw [← pow_succ]
  have : n - 2 + 1 = n - 1 := by have := hp.two_le; omega
  rw [this]
  exact ZMod.pow_card_sub_one_eq_one hx

theorem negN_cast [NeZero n] (x : Nat) : ((negN n x : Nat) : ZMod n) = -(x : ZMod n) := by
  unfold negN
  have hn : 0 < n := Nat.pos_of_ne_zero (NeZero.ne n)
  rw [ZMod.natCast_mod, Nat.cast_sub (Nat.mod_lt _ hn).le, ZMod.natCast_self, ZMod.natCast_mod, zero_sub]

theorem cast_mulmod (a b : Nat) : ((a * b % n : Nat) : ZMod n) = (a : ZMod n) * b := by
  rw [ZMod.natCast_mod, Nat.cast_mul]

theorem cast_addmod (a b : Nat) : (((a + b) % n : Nat) : ZMod n) = (a : ZMod n) + b := by
  rw [ZMod.natCast_mod, Nat.cast_add]

/-- a scalar in `(0, n)` is non-zero in `ZMod n` -/
theorem cast_ne_zero_of_lt {r : Nat} (h0 : r ≠ 0) (hlt : r < n) : (r : ZMod n) ≠ 0 := by
  intro h
  rw [ZMod.natCast_eq_zero_iff] at h
  exact h0 (Nat.eq_zero_of_dvd_of_lt h hlt)

end FuelVerif.Ecdsa
