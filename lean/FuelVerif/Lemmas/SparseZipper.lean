/-
Zipper view of the structural sparse Merkle tree along a key's path.

`path_set` of `merkle_tree.rs` returns the path bottom-up: the terminal node, then its ancestors, and the side
hashes in the same order. `update_with_path_set` / `delete_with_path_set` rebuild the tree bottom-up from a
new terminal over (a suffix of) those lists. The structural counterpart is a zipper: a terminal subtree `c`
and a list of `Frame`s (direction taken + sibling left behind), bottom frame first; `plug c fs` is the tree.

This file is purely structural (no hash function, no store): decomposition of a tree along a key
(`frames`, `plug_frames`), canonical form through a zipper (`canon_plug`, `canon_frame`), the structural
`insert` / `delete` through a zipper (`insert_plug`, `delete_plug`, `plugC_*`), and the positional lemmas that
make all hash-disjointness arguments of the refinement work: a non-empty subtree of the focus, and every node on
the path above it, never occurs inside a sibling hanging off the path (`sub_not_in_sib`,
`spine_not_in_sib`).
-/
import FuelVerif.Lemmas.SparseRefineUpdate
namespace FuelVerif.SmtRefine
open FuelVerif FuelVerif.SmtStore FuelVerif.SmtBytes FuelVerif.Gen.Sparse FuelVerif.Smt

/-- one level of a path: the direction taken (`right` = the path continues in the right child) and the
sibling left behind -/
structure Frame where
  right : Bool
  sib : T

/-- put the subtree `c` back under the parent described by the frame -/
def Frame.plug (f : Frame) (c : T) : T := if f.right then .node f.sib c else .node c f.sib

/-- rebuild the tree from the focus `c` through the frames (bottom frame first) -/
def plug (c : T) : List Frame → T
  | [] => c
  | f :: fs => plug (f.plug c) fs

theorem plug_append : ∀ (fs gs : List Frame) (c : T), plug c (fs ++ gs) = plug (plug c fs) gs
  | [], _, _ => rfl
  | f :: fs, gs, c => by
    simp only [List.cons_append, plug]
    exact plug_append fs gs (f.plug c)

theorem plug1_isNode (f : Frame) (c : T) : ∃ l r, f.plug c = .node l r := by
  cases f with
  | mk right sib =>
    cases right with
    | true => exact ⟨sib, c, rfl⟩
    | false => exact ⟨c, sib, rfl⟩

theorem plug1_ne_empty (f : Frame) (c : T) : f.plug c ≠ .empty := by
  obtain ⟨l, r, e⟩ := plug1_isNode f c
  rw [e]; exact fun h => nomatch h

theorem nodes_plug1 (f : Frame) (c : T) : nodes (f.plug c) = nodes c + nodes f.sib + 1 := by
  cases f with
  | mk right sib =>
    cases right with
    | true => simp only [Frame.plug, ↓reduceIte, nodes]; omega
    | false => simp only [Frame.plug, Bool.false_eq_true, ↓reduceIte, nodes]

/-- the frames of the path of `k` through `t` from depth `d`, bottom frame first -/
def frames (k : Key32) : Nat → T → List Frame
  | d, .node l r =>
    if bit32 k d then frames k (d + 1) r ++ [⟨true, l⟩] else frames k (d + 1) l ++ [⟨false, r⟩]
  | _, _ => []

/-- a tree is its terminal plugged into its frames -/
theorem plug_frames (k : Key32) : ∀ (t : T) (d : Nat), plug (term k d t) (frames k d t) = t
  | .empty, _ => rfl
  | .leaf _ _, _ => rfl
  | .node l r, d => by
    unfold term frames
    by_cases hb' : bit32 k d = true
    · simp only [hb', ↓reduceIte]
      rw [plug_append, plug_frames k r (d + 1)]
      simp [plug, Frame.plug]
    · simp only [hb', Bool.false_eq_true, ↓reduceIte]
      rw [plug_append, plug_frames k l (d + 1)]
      simp [plug, Frame.plug]

/-- the directions of the frames are the bits of `k` (the top frame at depth `d0`) -/
def OnPath (k : Key32) (d0 : Nat) : List Frame → Prop
  | [] => True
  | f :: fs => f.right = bit32 k (d0 + fs.length) ∧ OnPath k d0 fs

theorem onPath_append (k : Key32) (d0 : Nat) : ∀ (A B : List Frame),
    OnPath k d0 (A ++ B) ↔ OnPath k (d0 + B.length) A ∧ OnPath k d0 B
  | [], B => by simp [OnPath]
  | f :: A, B => by
    have e : d0 + (A ++ B).length = d0 + B.length + A.length := by
      simp only [List.length_append]; omega
    simp only [List.cons_append, OnPath, e, onPath_append k d0 A B, and_assoc]

theorem onPath_frames (k : Key32) : ∀ (t : T) (d : Nat), OnPath k d (frames k d t)
  | .empty, _ => trivial
  | .leaf _ _, _ => trivial
  | .node l r, d => by
    unfold frames
    by_cases hb' : bit32 k d = true
    · simp only [hb', ↓reduceIte]
      rw [onPath_append]
      exact ⟨onPath_frames k r (d + 1), by simp [OnPath, hb']⟩
    · simp only [hb', Bool.false_eq_true, ↓reduceIte]
      rw [onPath_append]
      exact ⟨onPath_frames k l (d + 1), by simp [OnPath, hb']⟩

theorem onPath_suffix {k : Key32} {d0 : Nat} {A B : List Frame} (h : OnPath k d0 (A ++ B)) :
    OnPath k d0 B := ((onPath_append k d0 A B).mp h).2

/-! ### canonical form through a zipper -/

theorem canon_frame {f : Frame} {c : T} {e : Nat} (h : Canon bit32 width e (f.plug c)) :
    e < width ∧ c.All (fun k => bit32 k e = f.right) ∧ f.sib.All (fun k => bit32 k e = !f.right) ∧
      2 ≤ c.size + f.sib.size ∧ Canon bit32 width (e + 1) c ∧ Canon bit32 width (e + 1) f.sib := by
  cases f with
  | mk right sib =>
    cases right with
    | true =>
      obtain ⟨h1, h2, h3, h4, h5, h6⟩ := (h : Canon bit32 width e (.node sib c))
      exact ⟨h1, h3, h2, by omega, h6, h5⟩
    | false =>
      obtain ⟨h1, h2, h3, h4, h5, h6⟩ := (h : Canon bit32 width e (.node c sib))
      exact ⟨h1, h2, h3, h4, h5, h6⟩

theorem canon_plug : ∀ (fs : List Frame) (c : T) (d0 : Nat),
    Canon bit32 width d0 (plug c fs) → Canon bit32 width (d0 + fs.length) c
  | [], _, _, h => h
  | f :: fs, c, d0, h => (canon_frame (canon_plug fs (f.plug c) d0 h)).2.2.2.2.1

/-- the subtree just above the bottom frame is canonical at its depth -/
theorem canon_plug_cons {f : Frame} {fs : List Frame} {c : T} {d0 : Nat}
    (h : Canon bit32 width d0 (plug c (f :: fs))) : Canon bit32 width (d0 + fs.length) (f.plug c) :=
  canon_plug fs (f.plug c) d0 h

/-! ### subtrees of a plugged tree -/

theorem isSub_plug1 {f : Frame} {c x : T} (h : IsSub x c) : IsSub x (f.plug c) := by
  cases f with
  | mk right sib =>
    cases right with
    | true => exact .inr (.inr h)
    | false => exact .inr (.inl h)

theorem isSub_plug1_sib {f : Frame} {c x : T} (h : IsSub x f.sib) : IsSub x (f.plug c) := by
  cases f with
  | mk right sib =>
    cases right with
    | true => exact .inr (.inl h)
    | false => exact .inr (.inr h)

theorem isSub_plug : ∀ (fs : List Frame) (c x : T), IsSub x c → IsSub x (plug c fs)
  | [], _, _, h => h
  | f :: fs, c, x, h => isSub_plug fs (f.plug c) x (isSub_plug1 h)

theorem isSub_plug_sib : ∀ (fs : List Frame) (c x : T) (g : Frame), g ∈ fs → IsSub x g.sib →
    IsSub x (plug c fs)
  | [], _, _, _, hg, _ => by cases hg
  | f :: fs, c, x, g, hg, h => by
    rcases List.mem_cons.mp hg with e | hg'
    · subst e
      exact isSub_plug fs (g.plug c) x (isSub_plug1_sib h)
    · exact isSub_plug_sib fs (f.plug c) x g hg' h

/-- the subtrees on the path above the focus, bottom first -/
def spineT : T → List Frame → List T
  | _, [] => []
  | c, f :: fs => f.plug c :: spineT (f.plug c) fs

theorem spineT_append : ∀ (A B : List Frame) (c : T),
    spineT c (A ++ B) = spineT c A ++ spineT (plug c A) B
  | [], _, _ => rfl
  | f :: A, B, c => by
    simp only [List.cons_append, spineT, plug]
    rw [spineT_append A B (f.plug c)]

/-- a path node is a subtree of the whole, is an internal node strictly bigger than the focus, and contains
everything the focus contains -/
theorem spineT_spec : ∀ (fs : List Frame) (c u : T), u ∈ spineT c fs →
    IsSub u (plug c fs) ∧ nodes c < nodes u ∧ (∀ x, IsSub x c → IsSub x u) ∧ (∃ l r, u = .node l r)
  | [], _, _, h => by cases h
  | f :: fs, c, u, h => by
    rcases List.mem_cons.mp h with e | h'
    · subst e
      refine ⟨isSub_plug fs _ _ (IsSub.refl (plug1_ne_empty f c)), ?_, fun x hx => isSub_plug1 hx,
        plug1_isNode f c⟩
      rw [nodes_plug1]; omega
    · obtain ⟨h1, h2, h3, h4⟩ := spineT_spec fs (f.plug c) u h'
      refine ⟨h1, ?_, fun x hx => h3 x (isSub_plug1 hx), h4⟩
      rw [nodes_plug1] at h2; omega

theorem spineT_not_sub_focus {fs : List Frame} {c u : T} (h : u ∈ spineT c fs) : ¬ IsSub u c := by
  intro hs
  have := IsSub.nodes_le hs
  have := (spineT_spec fs c u h).2.1
  omega

/-- the path nodes are pairwise different trees (they are strictly nested) -/
theorem spineT_head_not_mem (f : Frame) (fs : List Frame) (c : T) : f.plug c ∉ spineT (f.plug c) fs := by
  intro h
  have := (spineT_spec fs (f.plug c) _ h).2.1
  omega

/-- every non-empty subtree of a plugged tree is a subtree of the focus, a path node, or a subtree of a
sibling -/
theorem isSub_plug_cases : ∀ (fs : List Frame) (c x : T), IsSub x (plug c fs) →
    IsSub x c ∨ x ∈ spineT c fs ∨ ∃ g ∈ fs, IsSub x g.sib
  | [], _, _, h => .inl h
  | f :: fs, c, x, h => by
    rcases isSub_plug_cases fs (f.plug c) x h with h1 | h1 | ⟨g, hg, h1⟩
    · cases f with
      | mk right sib =>
        cases right with
        | true =>
          rcases (h1 : IsSub x (.node sib c)) with e | e | e
          · exact .inr (.inl (by rw [e]; exact List.mem_cons_self))
          · exact .inr (.inr ⟨_, List.mem_cons_self, e⟩)
          · exact .inl e
        | false =>
          rcases (h1 : IsSub x (.node c sib)) with e | e | e
          · exact .inr (.inl (by rw [e]; exact List.mem_cons_self))
          · exact .inl e
          · exact .inr (.inr ⟨_, List.mem_cons_self, e⟩)
    · exact .inr (.inl (List.mem_cons_of_mem _ h1))
    · exact .inr (.inr ⟨g, List.mem_cons_of_mem _ hg, h1⟩)

/-! ### positional lemmas -/

/-- **a non-empty subtree of the focus never occurs inside a sibling hanging off the path** (its keys
continue on the path's side of that sibling's parent) -/
theorem sub_not_in_sib : ∀ (fs : List Frame) (c : T) (d0 : Nat), Canon bit32 width d0 (plug c fs) →
    ∀ u, IsSub u c → ∀ g ∈ fs, ¬ IsSub u g.sib
  | [], _, _, _, _, _, _, hg => by cases hg
  | f :: fs, c, d0, hc, u, hu, g, hg => by
    rcases List.mem_cons.mp hg with e | hg'
    · subst e
      obtain ⟨_, hcA, hsA, _, hcc, _⟩ := canon_frame (canon_plug_cons hc)
      intro hs
      have h1 := IsSub.all hu hcA
      have h2 := IsSub.all hs hsA
      have hsz := IsSub.size_pos hu hcc
      obtain ⟨k, e1, e2⟩ := exists_of_all hsz h1 h2
      rw [e1] at e2
      cases hr : g.right <;> simp [hr] at e2
    · exact sub_not_in_sib fs (f.plug c) d0 hc u (isSub_plug1 hu) g hg'

/-- **a node on the path never occurs inside a sibling hanging off the path** -/
theorem spine_not_in_sib : ∀ (fs : List Frame) (c : T) (d0 : Nat), Canon bit32 width d0 (plug c fs) →
    ∀ u ∈ spineT c fs, ∀ g ∈ fs, ¬ IsSub u g.sib
  | [], _, _, _, _, hu, _, _ => by cases hu
  | f :: fs, c, d0, hc, u, hu, g, hg => by
    rcases List.mem_cons.mp hu with e | hu'
    · subst e
      rcases List.mem_cons.mp hg with e | hg'
      · subst e
        intro hs
        have := IsSub.nodes_le hs
        have := nodes_plug1 g c
        omega
      · exact sub_not_in_sib fs (f.plug c) d0 hc _ (IsSub.refl (plug1_ne_empty f c)) g hg'
    · rcases List.mem_cons.mp hg with e | hg'
      · subst e
        intro hs
        have := IsSub.nodes_le hs
        have := nodes_plug1 g c
        have := (spineT_spec fs (g.plug c) u hu').2.1
        omega
      · exact spine_not_in_sib fs (f.plug c) d0 hc u hu' g hg'

/-- in a canonical tree the on-path child and the sibling of every frame differ -/
theorem canon_frame_ne {f : Frame} {c : T} {e : Nat} (h : Canon bit32 width e (f.plug c)) : c ≠ f.sib := by
  intro heq
  obtain ⟨_, hcA, hsA, hsz, _, _⟩ := canon_frame h
  rw [← heq] at hsA hsz
  obtain ⟨k, e1, e2⟩ := exists_of_all (t := c) (by omega) hcA hsA
  rw [e1] at e2
  cases hr : f.right <;> simp [hr] at e2

/-- a leaf with key `k` below a path of `k` sits in the focus -/
theorem leaf_on_path (k : Key32) (v : Hash32) : ∀ (fs : List Frame) (c : T) (d0 : Nat), OnPath k d0 fs →
    Canon bit32 width d0 (plug c fs) → IsSub (.leaf k v) (plug c fs) → IsSub (.leaf k v) c
  | [], _, _, _, _, h => h
  | f :: fs, c, d0, hp, hc, h => by
    have h1 := leaf_on_path k v fs (f.plug c) d0 hp.2 hc h
    obtain ⟨_, _, hsA, _, _, _⟩ := canon_frame (canon_plug_cons hc)
    have hr := hp.1
    have hns : ¬ IsSub (.leaf k v) f.sib := by
      intro hs
      have h2 : bit32 k (d0 + fs.length) = !f.right := IsSub.all hs hsA
      rw [hr] at h2
      cases hb : bit32 k (d0 + fs.length) <;> simp [hb] at h2
    cases f with
    | mk right sib =>
      cases right with
      | true =>
        rcases (h1 : IsSub (.leaf k v) (.node sib c)) with e | e | e
        · cases e
        · exact absurd e hns
        · exact e
      | false =>
        rcases (h1 : IsSub (.leaf k v) (.node c sib)) with e | e | e
        · cases e
        · exact e
        · exact absurd e hns

/-! ### the structural operations through a zipper -/

theorem insert_plug (k : Key32) (v : Hash32) : ∀ (fs : List Frame) (c : T) (d0 : Nat), OnPath k d0 fs →
    Smt.insert bit32 width d0 k v (plug c fs) = plug (Smt.insert bit32 width (d0 + fs.length) k v c) fs
  | [], _, _, _ => rfl
  | f :: fs, c, d0, h => by
    have hstep : Smt.insert bit32 width (d0 + fs.length) k v (f.plug c) =
        f.plug (Smt.insert bit32 width (d0 + (f :: fs).length) k v c) := by
      have hr := h.1
      have e : d0 + (f :: fs).length = d0 + fs.length + 1 := by simp only [List.length_cons]; omega
      rw [e]
      cases f with
      | mk right sib =>
        simp only at hr
        cases right with
        | true => simp only [Frame.plug, ↓reduceIte, Smt.insert, ← hr]
        | false => simp only [Frame.plug, Bool.false_eq_true, ↓reduceIte, Smt.insert, ← hr]
    simp only [plug]
    rw [insert_plug k v fs (f.plug c) d0 h.2, hstep]

/-- `Frame.plug` with the orphan-leaf collapse of `delete_with_path_set` -/
def Frame.plugC (f : Frame) (c : T) : T := if f.right then collapse f.sib c else collapse c f.sib

def plugC (c : T) : List Frame → T
  | [] => c
  | f :: fs => plugC (f.plugC c) fs

theorem delete_plug (k : Key32) : ∀ (fs : List Frame) (c : T) (d0 : Nat), OnPath k d0 fs →
    Smt.delete bit32 d0 k (plug c fs) = plugC (Smt.delete bit32 (d0 + fs.length) k c) fs
  | [], _, _, _ => rfl
  | f :: fs, c, d0, h => by
    have hstep : Smt.delete bit32 (d0 + fs.length) k (f.plug c) =
        f.plugC (Smt.delete bit32 (d0 + (f :: fs).length) k c) := by
      have hr := h.1
      have e : d0 + (f :: fs).length = d0 + fs.length + 1 := by simp only [List.length_cons]; omega
      rw [e]
      cases f with
      | mk right sib =>
        simp only at hr
        cases right with
        | true => simp only [Frame.plug, Frame.plugC, ↓reduceIte, Smt.delete, ← hr]
        | false => simp only [Frame.plug, Frame.plugC, Bool.false_eq_true, ↓reduceIte, Smt.delete, ← hr]
    simp only [plug, plugC]
    rw [delete_plug k fs (f.plug c) d0 h.2, hstep]

theorem collapse_node_left (a b x : T) : collapse (.node a b) x = .node (.node a b) x := by
  cases x <;> rfl

theorem collapse_node_right (a b x : T) : collapse x (.node a b) = .node x (.node a b) := by
  cases x <;> rfl

theorem plugC1_node (f : Frame) (a b : T) : f.plugC (.node a b) = f.plug (.node a b) := by
  cases f with
  | mk right sib =>
    cases right with
    | true => simp only [Frame.plugC, Frame.plug, ↓reduceIte, collapse_node_right]
    | false => simp only [Frame.plugC, Frame.plug, Bool.false_eq_true, ↓reduceIte, collapse_node_left]

/-- once the rebuilt subtree is an internal node nothing collapses any more -/
theorem plugC_node : ∀ (fs : List Frame) (c : T), (∃ l r, c = .node l r) → plugC c fs = plug c fs
  | [], _, _ => rfl
  | f :: fs, c, ⟨l, r, e⟩ => by
    subst e
    simp only [plugC, plug, plugC1_node]
    exact plugC_node fs _ (plug1_isNode f _)

/-- a sibling that is an internal node stops the collapse at once -/
theorem plugC1_empty_node (f : Frame) (a b : T) (h : f.sib = .node a b) : f.plugC .empty = f.plug .empty := by
  cases f with
  | mk right sib =>
    simp only at h
    subst h
    cases right <;> rfl

/-- a leaf sibling of the deleted terminal is orphaned and moves up -/
theorem plugC1_empty_leaf (f : Frame) (k2 : Key32) (v2 : Hash32) (h : f.sib = .leaf k2 v2) :
    f.plugC .empty = .leaf k2 v2 := by
  cases f with
  | mk right sib =>
    simp only at h
    subst h
    cases right <;> rfl

/-- the orphan passes every level whose sibling is a placeholder -/
theorem plugC1_leaf_empty (f : Frame) (k2 : Key32) (v2 : Hash32) (h : f.sib = .empty) :
    f.plugC (.leaf k2 v2) = .leaf k2 v2 := by
  cases f with
  | mk right sib =>
    simp only at h
    subst h
    cases right <;> rfl

/-- and is re-attached below the first non-placeholder sibling -/
theorem plugC1_leaf_nonempty (f : Frame) (k2 : Key32) (v2 : Hash32) (h : f.sib ≠ .empty) :
    f.plugC (.leaf k2 v2) = f.plug (.leaf k2 v2) := by
  cases f with
  | mk right sib =>
    simp only at h
    cases sib with
    | empty => exact absurd rfl h
    | leaf _ _ => cases right <;> rfl
    | node _ _ => cases right <;> rfl

theorem plugC_leaf_skip (k2 : Key32) (v2 : Hash32) : ∀ (zs rest : List Frame),
    (∀ z ∈ zs, z.sib = .empty) → plugC (.leaf k2 v2) (zs ++ rest) = plugC (.leaf k2 v2) rest
  | [], _, _ => rfl
  | z :: zs, rest, h => by
    simp only [List.cons_append, plugC]
    rw [plugC1_leaf_empty z k2 v2 (h z List.mem_cons_self)]
    exact plugC_leaf_skip k2 v2 zs rest (fun z' hz => h z' (List.mem_cons_of_mem _ hz))

end FuelVerif.SmtRefine
