/- `hasShapeB` decides `HasShape`; every well-formed shape has a tree (`witness`). -/
import FuelVerif.Model.SerdeCheck
namespace FuelVerif.Serde

mutual
theorem hasShapeB_iff : ∀ (t : Tree) (s : Shape), hasShapeB s t = true ↔ HasShape s t
  | .u8 n, s => by cases s <;> simp [hasShapeB, HasShape]
  | .u16 n, s => by cases s <;> simp [hasShapeB, HasShape]
  | .u32 n, s => by cases s <;> simp [hasShapeB, HasShape]
  | .u64 n, s => by cases s <;> simp [hasShapeB, HasShape]
  | .u128 n, s => by cases s <;> simp [hasShapeB, HasShape]
  | .bool b, s => by cases s <;> simp [hasShapeB, HasShape]
  | .bytes bs, s => by cases s <;> simp [hasShapeB, HasShape]
  | .seq xs, s => by
    cases s <;> simp [hasShapeB, HasShape]
    rename_i e
    intro _
    exact allShapeB_iff xs e
  | .tuple xs, s => by
    cases s with
    | tuple fs => simp only [hasShapeB, HasShape]; exact listShapeB_iff xs fs
    | sel al lg a b =>
      rcases xs with _ | ⟨y, _ | ⟨x, _ | ⟨z, zs⟩⟩⟩
      · simp [hasShapeB, HasShape]
      · simp [hasShapeB, HasShape]
      · cases y <;> try (simp [hasShapeB, HasShape]; done)
        rename_i bits
        simp only [hasShapeB, HasShape, Bool.and_eq_true, decide_eq_true_eq]
        by_cases hs : selLegacy al lg bits = true
        · simp only [hs, if_true]
          exact and_congr_right (fun _ => hasShapeB_iff x a)
        · have hs' : selLegacy al lg bits = false := by simpa using hs
          simp only [hs', Bool.false_eq_true, if_false]
          exact and_congr_right (fun _ => hasShapeB_iff x b)
      · simp [hasShapeB, HasShape]
    | _ => simp [hasShapeB, HasShape]
  | .variant idx p, s => by
    cases s <;> simp [hasShapeB, HasShape]
    rename_i vs
    intro _
    exact variantShapeB_iff p vs idx
  | .none, s => by cases s <;> simp [hasShapeB, HasShape]
  | .some t, s => by
    cases s <;> simp [hasShapeB, HasShape]
    rename_i s'
    exact hasShapeB_iff t s'
theorem allShapeB_iff : ∀ (ts : List Tree) (e : Shape), allShapeB e ts = true ↔ AllShape e ts
  | [], e => by simp [allShapeB, AllShape]
  | t :: ts, e => by
    simp only [allShapeB, AllShape, Bool.and_eq_true]
    exact and_congr (hasShapeB_iff t e) (allShapeB_iff ts e)
theorem listShapeB_iff : ∀ (ts : List Tree) (ss : List Shape), listShapeB ss ts = true ↔ ListShape ss ts
  | [], ss => by cases ss <;> simp [listShapeB, ListShape]
  | t :: ts, ss => by
    cases ss with
    | nil => simp [listShapeB, ListShape]
    | cons s ss =>
      simp only [listShapeB, ListShape, Bool.and_eq_true]
      exact and_congr (hasShapeB_iff t s) (listShapeB_iff ts ss)
theorem variantShapeB_iff : ∀ (p : Tree) (vs : List Shape) (k : Nat), variantShapeB vs k p = true ↔ VariantShape vs k p
  | p, [], k => by simp [variantShapeB, VariantShape]
  | p, s :: ss, 0 => by simp only [variantShapeB, VariantShape]; exact hasShapeB_iff p s
  | p, s :: ss, k + 1 => by simp only [variantShapeB, VariantShape]; exact variantShapeB_iff p ss k
end

instance (s : Shape) (t : Tree) : Decidable (HasShape s t) :=
  decidable_of_iff _ (hasShapeB_iff t s)

mutual
theorem witness_hasShape : ∀ (s : Shape), wfB s = true → HasShape s (witness s)
  | .u8, _ => by simp [witness, HasShape]
  | .u16, _ => by simp [witness, HasShape]
  | .u32, _ => by simp [witness, HasShape]
  | .u64, _ => by simp [witness, HasShape]
  | .u128, _ => by simp [witness, HasShape]
  | .bool, _ => by simp [witness, HasShape]
  | .bytes, _ => by simp [witness, HasShape]
  | .seq e, _ => by simp [witness, HasShape, AllShape]
  | .tuple fs, h => by
    simp only [wfB] at h
    simp only [witness, HasShape]
    exact witnessList_shape fs h
  | .enum vs, h => by
    simp only [wfB, Bool.and_eq_true, decide_eq_true_eq] at h
    obtain ⟨⟨hne, _⟩, hl⟩ := h
    cases vs with
    | nil => simp at hne
    | cons v vs =>
      simp only [wfListB, Bool.and_eq_true] at hl
      simp only [witness, witnessHead, HasShape, VariantShape]
      exact ⟨by decide, witness_hasShape v hl.1⟩
  | .option s, _ => by simp [witness, HasShape]
  | .sel al lg a b, h => by
    simp only [wfB, Bool.and_eq_true] at h
    simp only [witness, HasShape]
    refine ⟨by decide, ?_⟩
    by_cases hs : selLegacy al lg 0 = true
    · simp only [hs, if_true]; exact witness_hasShape a h.1
    · have hs' : selLegacy al lg 0 = false := by simpa using hs
      simp only [hs', Bool.false_eq_true, if_false]; exact witness_hasShape b h.2
theorem witnessList_shape : ∀ (fs : List Shape), wfListB fs = true → ListShape fs (witnessList fs)
  | [], _ => by simp [witnessList, ListShape]
  | s :: ss, h => by
    simp only [wfListB, Bool.and_eq_true] at h
    simp only [witnessList, ListShape]
    exact ⟨witness_hasShape s h.1, witnessList_shape ss h.2⟩
end

/-- the validated decoders accept exactly what the shape decoder accepts when the validator agrees -/
theorem pcDecode_eq_of_ok (v : Tree → Bool) (s : Shape) (bs : Bytes) (t : Tree) (r : Bytes)
    (h : pcDec s bs = some (t, r)) (hv : leavesOk v s t = true) : pcDecode v s bs = some (t, r) := by
  simp [pcDecode, h, hv]

theorem bcDecode_eq_of_ok (v : Tree → Bool) (s : Shape) (bs : Bytes) (t : Tree) (r : Bytes)
    (h : bcDec s bs = some (t, r)) (hv : leavesOk v s t = true) : bcDecode v s bs = some (t, r) := by
  simp [bcDecode, h, hv]

end FuelVerif.Serde
