/-
Helper lemmas for the binary Merkle tree properties (C09, C10, C11): arithmetic of in-order
positions, the RFC 6962 split rule, the MMR stack invariant `Stk` and its preservation by the
calculator's merge loop and the two root folds.
-/
import FuelVerif.Model.BinaryMerkle
namespace FuelVerif.BMT
open FuelVerif

/-! ### split rule -/

theorem splitPoint_pow2_add {h b : Nat} (hb0 : 0 < b) (hb : b ≤ 2 ^ h) : splitPoint (2 ^ h + b) = 2 ^ h := by
  unfold splitPoint
  have : Nat.log2 (2 ^ h + b - 1) = h := by
    rw [Nat.log2_eq_iff (by have := Nat.pow_pos (n := h) (show 0 < 2 by decide); omega)]
    rw [Nat.pow_succ]
    omega
  rw [this]

/-- specification of `splitPoint`: the largest power of two strictly below `n` -/
theorem splitPoint_spec {n : Nat} (hn : 2 ≤ n) :
    (∃ t, splitPoint n = 2 ^ t) ∧ splitPoint n < n ∧ n ≤ 2 * splitPoint n := by
  refine ⟨⟨_, rfl⟩, splitPoint_lt hn, ?_⟩
  unfold splitPoint
  have := @Nat.lt_log2_self (n - 1)
  rw [Nat.pow_succ] at this
  omega

theorem mth_unfold (H : HashFn) (D : List Bytes) (h : 2 ≤ D.length) :
    mth H D = nodeSum H (mth H (D.take (splitPoint D.length))) (mth H (D.drop (splitPoint D.length))) := by
  match D, h with
  | d0 :: d1 :: rest, _ => rw [mth]

theorem mthHashes_unfold (H : HashFn) (D : List Bytes) (h : 2 ≤ D.length) :
    mthHashes H D = nodeSum H (mthHashes H (D.take (splitPoint D.length))) (mthHashes H (D.drop (splitPoint D.length))) := by
  match D, h with
  | d0 :: d1 :: rest, _ => rw [mthHashes]

/-- key lemma: a full left subtree of `2^h` leaves followed by at most `2^h` further leaves -/
theorem mth_append_pow2 (H : HashFn) {h : Nat} (A B : List Bytes) (hA : A.length = 2 ^ h)
    (hB0 : 0 < B.length) (hB : B.length ≤ 2 ^ h) :
    mth H (A ++ B) = nodeSum H (mth H A) (mth H B) := by
  have hp := Nat.pow_pos (n := h) (show 0 < 2 by decide)
  rw [mth_unfold H (A ++ B) (by simp only [List.length_append]; omega)]
  have : splitPoint (A ++ B).length = A.length := by
    rw [List.length_append, hA]; exact splitPoint_pow2_add hB0 hB
  rw [this, List.take_left', List.drop_left'] <;> rfl

theorem mthHashes_append_pow2 (H : HashFn) {h : Nat} (A B : List Bytes) (hA : A.length = 2 ^ h)
    (hB0 : 0 < B.length) (hB : B.length ≤ 2 ^ h) :
    mthHashes H (A ++ B) = nodeSum H (mthHashes H A) (mthHashes H B) := by
  have hp := Nat.pow_pos (n := h) (show 0 < 2 by decide)
  rw [mthHashes_unfold H (A ++ B) (by simp only [List.length_append]; omega)]
  have : splitPoint (A ++ B).length = A.length := by
    rw [List.length_append, hA]; exact splitPoint_pow2_add hB0 hB
  rw [this, List.take_left', List.drop_left'] <;> rfl

/-- `mth` is `mthHashes` of the leaf hashes (for a non-empty list) -/
theorem mth_eq_mthHashes (H : HashFn) (D : List Bytes) (h : D ≠ []) :
    mth H D = mthHashes H (D.map (leafSum H)) := by
  induction hn : D.length using Nat.strongRecOn generalizing D with
  | _ n ih =>
    match D, h with
    | [d], _ => rw [mth]; simp only [List.map, mthHashes]
    | d0 :: d1 :: rest, _ =>
      have hl : 2 ≤ (d0 :: d1 :: rest).length := by simp only [List.length_cons]; omega
      rw [mth_unfold H _ hl, mthHashes_unfold H _ (by simp only [List.length_map]; exact hl)]
      simp only [List.length_map, ← List.map_take, ← List.map_drop]
      have h1 := take_split_lt _ hl
      have h2 := drop_split_lt _ hl
      have hk := splitPoint_pos (d0 :: d1 :: rest).length
      have hk2 := splitPoint_lt hl
      rw [ih _ (by omega) _ (by intro hc; have := congrArg List.length hc; simp only [List.length_take, List.length_nil] at this; omega) rfl,
          ih _ (by omega) _ (by intro hc; have := congrArg List.length hc; simp only [List.length_drop, List.length_nil] at this; omega) rfl]

/-! ### in-order positions -/

/-- canonical in-order position of a node of height `h`: `h` trailing one bits, then a zero bit,
then the bits of `q` -/
def canonPos (q h : Nat) : Nat := (2 * q + 1) * 2 ^ h - 1

theorem canonPos_succ (q h : Nat) : canonPos q (h + 1) = 2 * canonPos q h + 1 := by
  unfold canonPos
  have hx := Nat.pow_pos (n := h) (show 0 < 2 by decide)
  rw [Nat.pow_succ, ← Nat.mul_assoc]
  have : 1 ≤ (2 * q + 1) * 2 ^ h := Nat.mul_pos (by omega) hx
  generalize (2 * q + 1) * 2 ^ h = z at *
  omega

theorem canonPos_zero (q : Nat) : canonPos q 0 = 2 * q := by
  unfold canonPos; omega

theorem trailingOnes_canon : ∀ (h f q : Nat), h < f → trailingOnes f (canonPos q h) = h
  | 0, f + 1, q, _ => by
    rw [canonPos_zero, trailingOnes]
    have : 2 * q % 2 ≠ 1 := by omega
    simp only [this, if_false]
  | h + 1, f + 1, q, hf => by
    rw [canonPos_succ, trailingOnes]
    have h1 : (2 * canonPos q h + 1) % 2 = 1 := by omega
    have h2 : (2 * canonPos q h + 1) / 2 = canonPos q h := by omega
    simp only [h1, if_true, h2]
    rw [trailingOnes_canon h f q (by omega)]

theorem height_canon {q h : Nat} (hh : h < 64) : height (canonPos q h) = h :=
  trailingOnes_canon h 64 q hh

theorem canonPos_eq (q h : Nat) : canonPos q h = 2 ^ (h + 1) * q + (2 ^ h - 1) := by
  unfold canonPos
  have hx := Nat.pow_pos (n := h) (show 0 < 2 by decide)
  have : (2 * q + 1) * 2 ^ h = 2 ^ (h + 1) * q + 2 ^ h := by grind
  omega

theorem canonPos_div (q h : Nat) : canonPos q h / 2 ^ (h + 1) = q := by
  rw [canonPos_eq]
  have hx := Nat.pow_pos (n := h) (show 0 < 2 by decide)
  have hy := Nat.pow_pos (n := h + 1) (show 0 < 2 by decide)
  rw [Nat.mul_add_div hy, Nat.div_eq_of_lt, Nat.add_zero]
  rw [Nat.pow_succ]; omega

theorem parent_canon {q h : Nat} (hh : h ≤ 62) (hb : (2 * (q / 2) + 1) * 2 ^ (h + 1) ≤ 2 ^ 64) :
    parent (canonPos q h) = .ok (canonPos (q / 2) (h + 1)) := by
  have hx := Nat.pow_pos (n := h) (show 0 < 2 by decide)
  unfold parent orientation checkedShl1
  rw [height_canon (by omega)]
  simp only [show h < 64 by omega, show h + 1 < 64 by omega, if_true, canonPos_div]
  have e1 : canonPos q h = (2 * q + 1) * 2 ^ h - 1 := rfl
  have e2 : canonPos (q / 2) (h + 1) = (2 * (q / 2) + 1) * 2 ^ (h + 1) - 1 := rfl
  rw [e1, e2]
  rcases Nat.mod_two_eq_zero_or_one q with hq | hq
  · simp only [hq, if_true]
    have hq2 : q = 2 * (q / 2) := by omega
    generalize q / 2 = r at *
    subst hq2
    have e3 : (2 * r + 1) * 2 ^ (h + 1) = (2 * (2 * r) + 1) * 2 ^ h + 2 ^ h := by grind
    rw [e3] at hb ⊢
    have : 1 ≤ (2 * (2 * r) + 1) * 2 ^ h := Nat.mul_pos (by omega) hx
    generalize (2 * (2 * r) + 1) * 2 ^ h = z at *
    rw [if_pos (by omega)]
    congr 1; omega
  · simp only [hq, show (1 : Nat) ≠ 0 by decide, if_false]
    have hq2 : q = 2 * (q / 2) + 1 := by omega
    generalize q / 2 = r at *
    subst hq2
    have e3 : (2 * (2 * r + 1) + 1) * 2 ^ h = (2 * r + 1) * 2 ^ (h + 1) + 2 ^ h := by grind
    rw [e3]
    have : 1 ≤ (2 * r + 1) * 2 ^ (h + 1) := Nat.mul_pos (by omega) (Nat.pow_pos (by decide))
    generalize (2 * r + 1) * 2 ^ (h + 1) = z at *
    rw [if_pos (by omega)]
    congr 1; omega

/-! ### the MMR stack invariant -/

/-- position of the peak of height `h` whose first leaf has index `a` (`2^h ∣ a`), for the tree
(`m = 1`: real in-order positions) and for the root calculator (`m = 0`: every leaf is created at index 0) -/
def peakPos (m a h : Nat) : Nat := canonPos (m * (a / 2 ^ h)) h

/-- `Stk seg m lo L st` (`seg` = `mth H`, or `mthHashes H` when the items are leaf hashes): the stack `st` (top first) holds the MMR peaks of the leaves `L`: heights
strictly increasing from the top, all ≥ `lo`, each peak hashing its aligned segment with `mth` -/
inductive Stk (seg : List Bytes → Bytes) (m : Nat) : Nat → List Bytes → List Node → Prop
  | nil (lo : Nat) : Stk seg m lo [] []
  | cons {lo h : Nat} {L S : List Bytes} {rest : List Node} :
      lo ≤ h → S.length = 2 ^ h → Stk seg m (h + 1) L rest →
      Stk seg m lo (L ++ S) (⟨peakPos m L.length h, seg S⟩ :: rest)

theorem Stk.mono {seg : List Bytes → Bytes} {m lo lo' : Nat} {L : List Bytes} {st : List Node}
    (h : Stk seg m lo L st) (hle : lo' ≤ lo) : Stk seg m lo' L st := by
  cases h with
  | nil => exact .nil _
  | cons h1 h2 h3 => exact .cons (by omega) h2 h3

theorem Stk.dvd {seg : List Bytes → Bytes} {m lo : Nat} {L : List Bytes} {st : List Node}
    (h : Stk seg m lo L st) : 2 ^ lo ∣ L.length := by
  induction h with
  | nil => exact Nat.dvd_zero _
  | @cons lo h L S rest h1 h2 _ ih =>
    rw [List.length_append, h2]
    have a1 : 2 ^ lo ∣ 2 ^ (h + 1) := Nat.pow_dvd_pow 2 (by omega)
    have a2 : 2 ^ lo ∣ 2 ^ h := Nat.pow_dvd_pow 2 h1
    exact Nat.dvd_add (Nat.dvd_trans a1 ih) a2

/-- a non-empty stack holds at least `2^lo` leaves -/
theorem Stk.length_ge {seg : List Bytes → Bytes} {m lo : Nat} {L : List Bytes} {st : List Node}
    (h : Stk seg m lo L st) (hne : st ≠ []) : 2 ^ lo ≤ L.length := by
  cases h with
  | nil => exact absurd rfl hne
  | @cons _ h L S rest h1 h2 _ =>
    rw [List.length_append, h2]
    have : 2 ^ lo ≤ 2 ^ h := Nat.pow_le_pow_right (by decide) h1
    omega

theorem peakPos_parent {m a h : Nat} (hm : m ≤ 1) (hd : 2 ^ (h + 1) ∣ a) (hb : a + 2 ^ h < 2 ^ 63) :
    parent (peakPos m a h) = .ok (peakPos m a (h + 1)) := by
  have hx := Nat.pow_pos (n := h) (show 0 < 2 by decide)
  obtain ⟨c, rfl⟩ := hd
  have hh : h ≤ 62 := by
    rcases Nat.lt_or_ge h 63 with h1 | h1
    · omega
    · have : 2 ^ 63 ≤ 2 ^ h := Nat.pow_le_pow_right (by decide) h1
      omega
  have e1 : 2 ^ (h + 1) * c / 2 ^ h = 2 * c := by
    rw [Nat.pow_succ, Nat.mul_assoc, Nat.mul_div_cancel_left _ hx]
  have e2 : 2 ^ (h + 1) * c / 2 ^ (h + 1) = c := Nat.mul_div_cancel_left _ (Nat.pow_pos (by decide))
  unfold peakPos
  rw [e1, e2]
  have e3 : m * (2 * c) / 2 = m * c := by
    rw [Nat.mul_left_comm, Nat.mul_div_cancel_left _ (by decide : 0 < 2)]
  have hp := @parent_canon (m * (2 * c)) h hh (by
    rw [e3]
    have : m * c ≤ c := by
      rcases Nat.le_one_iff_eq_zero_or_eq_one.mp hm with rfl | rfl <;> omega
    have e4 : (2 * (m * c) + 1) * 2 ^ (h + 1) = 2 * (m * c) * 2 ^ (h + 1) + 2 ^ (h + 1) := by grind
    have e5 : 2 * (m * c) * 2 ^ (h + 1) ≤ 2 * c * 2 ^ (h + 1) := Nat.mul_le_mul_right _ (by omega)
    have e6 : 2 * c * 2 ^ (h + 1) = 2 * (2 ^ (h + 1) * c) := by grind
    have e7 : 2 ^ (h + 1) = 2 * 2 ^ h := by grind
    omega)
  rw [e3] at hp
  exact hp

theorem peakPos_height {m a h : Nat} (hh : h < 64) : height (peakPos m a h) = h := height_canon hh


/-- the segment-hash function composes like RFC 6962 over a full left subtree -/
def SegOk (H : HashFn) (seg : List Bytes → Bytes) : Prop :=
  ∀ (h : Nat) (A B : List Bytes), A.length = 2 ^ h → 0 < B.length → B.length ≤ 2 ^ h →
    seg (A ++ B) = nodeSum H (seg A) (seg B)

theorem segOk_mth (H : HashFn) : SegOk H (mth H) := fun _ A B hA hB0 hB => mth_append_pow2 H A B hA hB0 hB
theorem segOk_mthHashes (H : HashFn) : SegOk H (mthHashes H) := fun _ A B hA hB0 hB => mthHashes_append_pow2 H A B hA hB0 hB

theorem pow_lt_63 {h n : Nat} (h1 : 2 ^ h ≤ n) (h2 : n < 2 ^ 63) : h < 63 := by
  rcases Nat.lt_or_ge h 63 with h3 | h3
  · exact h3
  · have : 2 ^ 63 ≤ 2 ^ h := Nat.pow_le_pow_right (by decide) h3
    omega

/-- the merge loop of `push_with_callback` re-establishes the stack invariant -/
theorem mergeLoop_stk {H : HashFn} {seg : List Bytes → Bytes} (hseg : SegOk H seg) {m : Nat} (hm : m ≤ 1) :
    ∀ (rest : List Node) (h : Nat) (L S : List Bytes),
      Stk seg m h L rest → S.length = 2 ^ h → L.length + S.length < 2 ^ 63 →
      ∃ st created, mergeLoop H ⟨peakPos m L.length h, seg S⟩ rest = .ok (st, created) ∧
        Stk seg m h (L ++ S) st := by
  intro rest
  induction rest with
  | nil =>
    intro h L S hstk hS _
    cases hstk
    exact ⟨_, _, rfl, .cons (Nat.le_refl _) hS (.nil _)⟩
  | cons lhs rest' ih =>
    intro h L S hstk hS hb
    cases hstk with
    | @cons _ h' L' S' _ h1 h2 h3 =>
      have hh : h < 63 := pow_lt_63 (n := (L' ++ S').length + S.length) (by omega) hb
      have hx := Nat.pow_pos (n := h) (show 0 < 2 by decide)
      have hh' : h' < 63 := pow_lt_63 (n := (L' ++ S').length + S.length) (by rw [List.length_append]; omega) hb
      unfold mergeLoop
      simp only [peakPos_height (show h < 64 by omega), peakPos_height (show h' < 64 by omega)]
      by_cases heq : h = h'
      · subst heq
        simp only [ne_eq, not_true_eq_false, if_false]
        rw [List.length_append] at hb
        rw [peakPos_parent hm h3.dvd (by omega)]
        simp only [createNode]
        rw [← hseg h S' S h2 (by omega) (by omega)]
        obtain ⟨st, created, hrun, hst⟩ := ih (h + 1) L' (S' ++ S) h3
          (by rw [List.length_append, h2, hS, Nat.pow_succ]; omega)
          (by rw [List.length_append]; omega)
        rw [hrun]
        refine ⟨st, _, rfl, ?_⟩
        rw [List.append_assoc]
        exact hst.mono (by omega)
      · simp only [ne_eq, heq, not_false_eq_true, if_true]
        exact ⟨_, _, rfl, .cons (Nat.le_refl _) hS (.cons (by omega) h2 h3)⟩

/-- the fold of `MerkleRootCalculator::root` over the peaks left of `right` -/
theorem calcRootLoop_stk {H : HashFn} {seg : List Bytes → Bytes} (hseg : SegOk H seg) {m : Nat} (hm : m ≤ 1) :
    ∀ (lefts : List Node) (lo : Nat) (L R : List Bytes) (pos : Nat),
      Stk seg m lo L lefts → 0 < R.length → R.length ≤ 2 ^ lo → L.length + R.length < 2 ^ 63 →
      ∃ p, calcRootLoop H ⟨pos, seg R⟩ lefts = .ok ⟨p, seg (L ++ R)⟩ := by
  intro lefts
  induction lefts with
  | nil =>
    intro lo L R pos hstk _ _ _
    cases hstk
    exact ⟨pos, rfl⟩
  | cons lhs rest' ih =>
    intro lo L R pos hstk hR0 hR hb
    cases hstk with
    | @cons _ h' L' S' _ h1 h2 h3 =>
      rw [List.length_append] at hb
      have : 2 ^ lo ≤ 2 ^ h' := Nat.pow_le_pow_right (by decide) h1
      unfold calcRootLoop
      simp only
      rw [peakPos_parent hm h3.dvd (by omega)]
      simp only [createNode]
      rw [← hseg h' S' R h2 hR0 (by omega)]
      obtain ⟨p, hp⟩ := ih (h' + 1) L' (S' ++ R) (peakPos m L'.length (h' + 1)) h3
        (by rw [List.length_append]; omega)
        (by rw [List.length_append, h2, Nat.pow_succ]; omega)
        (by rw [List.length_append]; omega)
      rw [List.append_assoc]
      exact ⟨p, hp⟩

/-- the fold of `MerkleTree::root_node` -/
theorem rootNodeLoop_stk {H : HashFn} {seg : List Bytes → Bytes} (hseg : SegOk H seg) {m : Nat} (hm : m ≤ 1) :
    ∀ (lefts : List Node) (lo : Nat) (L R : List Bytes) (pos : Nat) (scratch : Storage),
      Stk seg m lo L lefts → 0 < R.length → R.length ≤ 2 ^ lo → L.length + R.length < 2 ^ 63 →
      ∃ p scratch', rootNodeLoop H ⟨pos, seg R⟩ scratch lefts = .ok (⟨p, seg (L ++ R)⟩, scratch') := by
  intro lefts
  induction lefts with
  | nil =>
    intro lo L R pos scratch hstk _ _ _
    cases hstk
    exact ⟨pos, scratch, rfl⟩
  | cons lhs rest' ih =>
    intro lo L R pos scratch hstk hR0 hR hb
    cases hstk with
    | @cons _ h' L' S' _ h1 h2 h3 =>
      rw [List.length_append] at hb
      have : 2 ^ lo ≤ 2 ^ h' := Nat.pow_le_pow_right (by decide) h1
      unfold rootNodeLoop
      simp only
      rw [peakPos_parent hm h3.dvd (by omega)]
      simp only [createNode]
      rw [← hseg h' S' R h2 hR0 (by omega)]
      obtain ⟨p, sc, hp⟩ := ih (h' + 1) L' (S' ++ R) (peakPos m L'.length (h' + 1)) _ h3
        (by rw [List.length_append]; omega)
        (by rw [List.length_append, h2, Nat.pow_succ]; omega)
        (by rw [List.length_append]; omega)
      rw [List.append_assoc]
      exact ⟨p, sc, hp⟩

/-! ### pushes and roots -/

theorem peakPos_zero_leaf (a : Nat) : peakPos 0 a 0 = 0 := by
  simp [peakPos, canonPos]

theorem peakPos_one_leaf (a : Nat) : peakPos 1 a 0 = 2 * a := by
  simp [peakPos, canonPos_zero]

theorem mth_singleton (H : HashFn) (d : Bytes) : mth H [d] = leafSum H d := by rw [mth]
theorem mthHashes_singleton (H : HashFn) (x : Bytes) : mthHashes H [x] = x := by rw [mthHashes]

/-- one `MerkleRootCalculator::push` -/
theorem calcPush_stk (H : HashFn) {L : List Bytes} {st : List Node} (d : Bytes)
    (hst : Stk (mth H) 0 0 L st) (hb : L.length + 1 < 2 ^ 63) :
    ∃ st', calcPush H st d = .ok st' ∧ Stk (mth H) 0 0 (L ++ [d]) st' := by
  obtain ⟨st', created, hrun, hst'⟩ := mergeLoop_stk (segOk_mth H) (Nat.zero_le 1) st 0 L [d] hst rfl (by simpa using hb)
  refine ⟨st', ?_, hst'⟩
  rw [peakPos_zero_leaf, mth_singleton] at hrun
  simp [calcPush, createLeaf, fromLeafIndex, pushWithCallback, hrun]

theorem calcPushHash_stk (H : HashFn) {L : List Bytes} {st : List Node} (x : Bytes)
    (hst : Stk (mthHashes H) 0 0 L st) (hb : L.length + 1 < 2 ^ 63) :
    ∃ st', calcPushHash H st x = .ok st' ∧ Stk (mthHashes H) 0 0 (L ++ [x]) st' := by
  obtain ⟨st', created, hrun, hst'⟩ := mergeLoop_stk (segOk_mthHashes H) (Nat.zero_le 1) st 0 L [x] hst rfl (by simpa using hb)
  refine ⟨st', ?_, hst'⟩
  rw [peakPos_zero_leaf, mthHashes_singleton] at hrun
  simp [calcPushHash, createLeafWithHash, fromLeafIndex, pushWithCallback, hrun]

theorem calcPushAll_stk (H : HashFn) : ∀ (ds L : List Bytes) (st : List Node),
    Stk (mth H) 0 0 L st → L.length + ds.length < 2 ^ 63 →
    ∃ st', calcPushAll H st ds = .ok st' ∧ Stk (mth H) 0 0 (L ++ ds) st'
  | [], L, st, hst, _ => ⟨st, rfl, by simpa using hst⟩
  | d :: ds, L, st, hst, hb => by
    simp only [List.length_cons] at hb
    obtain ⟨st1, h1, hst1⟩ := calcPush_stk H d hst (by omega)
    obtain ⟨st2, h2, hst2⟩ := calcPushAll_stk H ds (L ++ [d]) st1 hst1 (by simp only [List.length_append, List.length_singleton]; omega)
    refine ⟨st2, ?_, by simpa using hst2⟩
    simp only [calcPushAll, h1, h2]

theorem calcPushAllHashes_stk (H : HashFn) : ∀ (ds L : List Bytes) (st : List Node),
    Stk (mthHashes H) 0 0 L st → L.length + ds.length < 2 ^ 63 →
    ∃ st', calcPushAllHashes H st ds = .ok st' ∧ Stk (mthHashes H) 0 0 (L ++ ds) st'
  | [], L, st, hst, _ => ⟨st, rfl, by simpa using hst⟩
  | d :: ds, L, st, hst, hb => by
    simp only [List.length_cons] at hb
    obtain ⟨st1, h1, hst1⟩ := calcPushHash_stk H d hst (by omega)
    obtain ⟨st2, h2, hst2⟩ := calcPushAllHashes_stk H ds (L ++ [d]) st1 hst1 (by simp only [List.length_append, List.length_singleton]; omega)
    refine ⟨st2, ?_, by simpa using hst2⟩
    simp only [calcPushAllHashes, h1, h2]

/-- `MerkleRootCalculator::root` of a stack satisfying the invariant -/
theorem calcRoot_stk {H : HashFn} {seg : List Bytes → Bytes} (hseg : SegOk H seg) {m : Nat} (hm : m ≤ 1)
    {L : List Bytes} {st : List Node} (hst : Stk seg m 0 L st) (hb : L.length < 2 ^ 63) :
    calcRoot H st = .ok (if L = [] then emptySum else seg L) := by
  cases hst with
  | nil => simp [calcRoot]
  | @cons _ h L' S rest h1 h2 h3 =>
    have hx := Nat.pow_pos (n := h) (show 0 < 2 by decide)
    rw [List.length_append] at hb
    obtain ⟨p, hp⟩ := calcRootLoop_stk hseg hm rest (h + 1) L' S (peakPos m L'.length h) h3 (by omega)
      (by rw [h2, Nat.pow_succ]; omega) hb
    have hne : L' ++ S ≠ [] := by
      intro hc; have := congrArg List.length hc; simp only [List.length_append, List.length_nil] at this; omega
    simp only [calcRoot, hp, hne, if_false]

/-- `MerkleTree::root` of a tree whose stack satisfies the invariant -/
theorem treeRoot_stk {H : HashFn} {seg : List Bytes → Bytes} (hseg : SegOk H seg) {m : Nat} (hm : m ≤ 1)
    {L : List Bytes} {t : Tree} (hst : Stk seg m 0 L t.nodes) (hb : L.length < 2 ^ 63) :
    t.root H = .ok (if L = [] then emptySum else seg L) := by
  unfold Tree.root Tree.rootNode
  generalize hn : t.nodes = nodes at hst
  cases hst with
  | nil => simp
  | @cons _ h L' S rest h1 h2 h3 =>
    have hx := Nat.pow_pos (n := h) (show 0 < 2 by decide)
    rw [List.length_append] at hb
    obtain ⟨p, sc, hp⟩ := rootNodeLoop_stk hseg hm rest (h + 1) L' S (peakPos m L'.length h) [] h3 (by omega)
      (by rw [h2, Nat.pow_succ]; omega) hb
    have hne : L' ++ S ≠ [] := by
      intro hc; have := congrArg List.length hc; simp only [List.length_append, List.length_nil] at this; omega
    simp only [hp, hne, if_false]

/-- one `MerkleTree::push`: stack invariant with real positions, leaf count, storage grows by the created nodes -/
theorem treePush_stk (H : HashFn) {L : List Bytes} {t : Tree} (d : Bytes)
    (hst : Stk (mth H) 1 0 L t.nodes) (hc : t.leavesCount = L.length) (hb : L.length + 1 < 2 ^ 63) :
    ∃ t', t.push H d = .ok t' ∧ Stk (mth H) 1 0 (L ++ [d]) t'.nodes ∧ t'.leavesCount = (L ++ [d]).length := by
  obtain ⟨st', created, hrun, hst'⟩ := mergeLoop_stk (segOk_mth H) (Nat.le_refl 1) t.nodes 0 L [d] hst rfl (by simpa using hb)
  rw [peakPos_one_leaf, mth_singleton] at hrun
  have hlt : 2 * L.length < 2 ^ 64 := by omega
  refine ⟨{ storage := (⟨2 * L.length, leafSum H d⟩ :: created).foldl Storage.insert t.storage, nodes := st',
              leavesCount := t.leavesCount + 1 }, ?_, hst', ?_⟩
  · simp only [Tree.push, createLeaf, fromLeafIndex, hc, hlt, if_true, Option.map_some, pushWithCallback, hrun]
  · simp [hc]

/-- a toy "hash" (identity on non-empty inputs) that satisfies `H [] = emptySum`; used only by the
non-vacuity examples and the kernel-evaluated witnesses -/
def toyHash : HashFn := fun b => if b = [] then emptySum else b

/-- pushing `leaves` one by one into a storage-backed tree (`MerkleTree::push`) -/
def treePushAll (H : HashFn) : Tree → List Bytes → Except Err Tree
  | t, [] => .ok t
  | t, d :: ds =>
    match t.push H d with
    | .error e => .error e
    | .ok t' => treePushAll H t' ds

def fiveLeavesV : List Bytes := [[1], [], [2, 2], [3], [4]]

end FuelVerif.BMT
