/-
Helper lemmas for C19, part 1: the association-list map and the three loops of `initial_free_balances`
(`add_up_input_balances`, `deduct_max_fee_from_base_asset`, `reduce_free_balances_by_coin_outputs`)
characterised by the per-asset sums they compute.
-/
import FuelVerif.Model.Validity
namespace FuelVerif.Validity
open FuelVerif.Fee

/-! ### declarative quantities -/

/-- what an input adds to the free (non-retryable) balance of asset `a` -/
def Input.spend (base a : Nat) : Input → Nat
  | .coinSigned _ _ amt asset _ => if asset = a then amt else 0
  | .coinPredicate _ _ amt asset _ _ _ => if asset = a then amt else 0
  | .messageCoinSigned _ _ amt _ => if base = a then amt else 0
  | .messageCoinPredicate _ _ amt _ _ _ => if base = a then amt else 0
  | _ => 0

/-- Σ spendable input amounts of asset `a` (coins of that asset; message coins count for the base asset) -/
def sumIn (base : Nat) (inputs : List Input) (a : Nat) : Nat := (inputs.map (Input.spend base a)).sum

/-- the retryable amount of an input (message-data inputs) -/
def Input.retry : Input → Nat
  | .messageDataSigned _ _ amt _ _ => amt
  | .messageDataPredicate _ _ amt _ _ _ _ => amt
  | _ => 0

def sumRetry (inputs : List Input) : Nat := (inputs.map Input.retry).sum

/-- the asset whose map entry an input touches (`entry(asset).or_default()`) -/
def Input.entry? (base : Nat) : Input → Option Nat
  | .coinSigned _ _ _ asset _ => some asset
  | .coinPredicate _ _ _ asset _ _ _ => some asset
  | .messageCoinSigned .. => some base
  | .messageCoinPredicate .. => some base
  | _ => none

def Output.coinAmount (a : Nat) : Output → Nat
  | .coin asset amt => if asset = a then amt else 0
  | _ => 0

/-- Σ coin outputs of asset `a` -/
def coinOut (outputs : List Output) (a : Nat) : Nat := (outputs.map (Output.coinAmount a)).sum

def Output.coinAsset? : Output → Option Nat
  | .coin asset _ => some asset
  | _ => none

/-! ### the map -/

theorem mget_mset (m : List (Nat × Nat)) (k x a : Nat) :
    mget (mset m k x) a = if k = a then some x else mget m a := by
  induction m with
  | nil => simp [mset, mget]
  | cons e rest ih =>
    obtain ⟨k', v'⟩ := e
    simp only [mset]
    by_cases h : k' = k
    · subst h
      simp only [if_true, mget]
      by_cases h2 : k' = a <;> simp [h2]
    · simp only [h, if_false, mget, ih]
      by_cases h2 : k' = a
      · subst h2
        have : ¬ k = k' := fun e => h e.symm
        simp [this]
      · simp [h2]

/-! ### `add_up_input_balances` -/

theorem checkedAdd_eq_some {a b s : Nat} : checkedAdd a b = some s ↔ a + b ≤ u64Max ∧ s = a + b := by
  unfold checkedAdd u64Max
  by_cases h : a + b ≤ 18446744073709551615
  · simp only [h, if_true, Option.some.injEq, true_and]; exact eq_comm
  · simp [h]

theorem checkedAdd_eq_none {a b : Nat} : checkedAdd a b = none ↔ ¬ a + b ≤ u64Max := by
  unfold checkedAdd u64Max
  by_cases h : a + b ≤ 18446744073709551615 <;> simp [h]

/-- one step on a map entry: the effect of `entry(k).or_default() += amt` on every asset's balance -/
theorem getD_mset (m : List (Nat × Nat)) (k amt a : Nat) :
    (mget (mset m k ((mget m k).getD 0 + amt)) a).getD 0 = (mget m a).getD 0 + (if k = a then amt else 0) := by
  rw [mget_mset]
  by_cases h : k = a
  · subst h; simp
  · simp [h]

theorem sumIn_cons (base : Nat) (i : Input) (rest : List Input) (a : Nat) :
    sumIn base (i :: rest) a = i.spend base a + sumIn base rest a := by
  simp [sumIn]

theorem sumRetry_cons (i : Input) (rest : List Input) : sumRetry (i :: rest) = i.retry + sumRetry rest := by
  simp [sumRetry]

/-- the step the input loop performs for one input, as a function (none = `checked_add` overflow) -/
def addStep (base : Nat) (i : Input) (m : List (Nat × Nat)) (r : Nat) : Option (List (Nat × Nat) × Nat) :=
  match i with
  | .coinSigned _ _ amt a _ | .coinPredicate _ _ amt a _ _ _ =>
    (checkedAdd ((mget m a).getD 0) amt).map (fun s => (mset m a s, r))
  | .messageCoinSigned _ _ amt _ | .messageCoinPredicate _ _ amt _ _ _ =>
    (checkedAdd ((mget m base).getD 0) amt).map (fun s => (mset m base s, r))
  | .messageDataSigned _ _ amt _ _ | .messageDataPredicate _ _ amt _ _ _ _ =>
    (checkedAdd r amt).map (fun s => (m, s))
  | .contract _ _ => some (m, r)

theorem addUp_cons (base : Nat) (i : Input) (rest : List Input) (m : List (Nat × Nat)) (r : Nat) :
    addUpInputBalances base (i :: rest) m r =
      match addStep base i m r with
      | none => none
      | some (m', r') => addUpInputBalances base rest m' r' := by
  cases i <;> simp only [addUpInputBalances, addStep] <;>
    first
    | rfl
    | (split <;> simp_all)

/-- the effect of one step on every balance -/
theorem addStep_some {base : Nat} {i : Input} {m : List (Nat × Nat)} {r : Nat} {m' : List (Nat × Nat)} {r' : Nat}
    (h : addStep base i m r = some (m', r')) :
    (∀ a, (mget m' a).getD 0 = (mget m a).getD 0 + i.spend base a) ∧ r' = r + i.retry ∧
    (∀ a, mget m' a ≠ none ↔ (mget m a ≠ none ∨ i.entry? base = some a)) := by
  cases i <;>
    simp only [addStep, Option.map_eq_some_iff, checkedAdd_eq_some, Prod.mk.injEq, Option.some.injEq] at h
  case contract => 
    obtain ⟨rfl, rfl⟩ := h
    simp [Input.spend, Input.retry, Input.entry?]
  case messageDataSigned =>
    obtain ⟨s, ⟨_, rfl⟩, rfl, rfl⟩ := h
    simp [Input.spend, Input.retry, Input.entry?]
  case messageDataPredicate =>
    obtain ⟨s, ⟨_, rfl⟩, rfl, rfl⟩ := h
    simp [Input.spend, Input.retry, Input.entry?]
  all_goals
    obtain ⟨s, ⟨_, rfl⟩, rfl, rfl⟩ := h
    refine ⟨fun a => ?_, by simp [Input.retry], fun a => ?_⟩
    · simp only [Input.spend]; exact getD_mset _ _ _ _
    · simp only [Input.entry?, mget_mset, Option.some.injEq]
      split <;> simp_all

theorem step_iff_aux {m : List (Nat × Nat)} {k amt r : Nat}
    (hm : ∀ a, (mget m a).getD 0 ≤ u64Max) (hr : r ≤ u64Max) :
    (checkedAdd ((mget m k).getD 0) amt).isSome = true ↔
      ((∀ a, (mget m a).getD 0 + (if k = a then amt else 0) ≤ u64Max) ∧ r + 0 ≤ u64Max) := by
  rw [Option.isSome_iff_exists]; simp only [checkedAdd_eq_some]
  constructor
  · rintro ⟨s, h, _⟩
    refine ⟨fun a => ?_, by simpa using hr⟩
    split
    · subst_vars; exact h
    · simpa using hm a
  · rintro ⟨h, _⟩
    exact ⟨_, by simpa using h k, rfl⟩

theorem addStep_isSome_iff {base : Nat} {i : Input} {m : List (Nat × Nat)} {r : Nat}
    (hm : ∀ a, (mget m a).getD 0 ≤ u64Max) (hr : r ≤ u64Max) :
    (addStep base i m r).isSome ↔ ((∀ a, (mget m a).getD 0 + i.spend base a ≤ u64Max) ∧ r + i.retry ≤ u64Max) := by
  cases i <;> simp only [addStep, Option.isSome_map, Input.spend, Input.retry]
  case contract => simp; exact ⟨hm, hr⟩
  case messageDataSigned =>
    rw [Option.isSome_iff_exists]; simp only [checkedAdd_eq_some]
    constructor
    · rintro ⟨s, h, _⟩; exact ⟨by simpa using hm, h⟩
    · rintro ⟨_, h⟩; exact ⟨_, h, rfl⟩
  case messageDataPredicate =>
    rw [Option.isSome_iff_exists]; simp only [checkedAdd_eq_some]
    constructor
    · rintro ⟨s, h, _⟩; exact ⟨by simpa using hm, h⟩
    · rintro ⟨_, h⟩; exact ⟨_, h, rfl⟩
  all_goals exact step_iff_aux hm hr

/-- the loop's result: per asset, the old balance plus the spendable inputs of that asset; the retryable sum;
and which assets have an entry -/
theorem addUp_some (base : Nat) (inputs : List Input) :
    ∀ (m : List (Nat × Nat)) (r : Nat) (m' : List (Nat × Nat)) (r' : Nat),
      addUpInputBalances base inputs m r = some (m', r') →
        (∀ a, (mget m' a).getD 0 = (mget m a).getD 0 + sumIn base inputs a) ∧
        r' = r + sumRetry inputs ∧
        (∀ a, mget m' a ≠ none ↔ (mget m a ≠ none ∨ ∃ i ∈ inputs, i.entry? base = some a)) := by
  induction inputs with
  | nil =>
    intro m r m' r' h
    simp only [addUpInputBalances, Option.some.injEq, Prod.mk.injEq] at h
    obtain ⟨rfl, rfl⟩ := h
    simp [sumIn, sumRetry]
  | cons i rest ih =>
    intro m r m' r' h
    rw [addUp_cons] at h
    cases hs : addStep base i m r with
    | none => simp [hs] at h
    | some p =>
      obtain ⟨m1, r1⟩ := p
      simp only [hs] at h
      obtain ⟨h1, h2, h3⟩ := ih m1 r1 m' r' h
      obtain ⟨s1, s2, s3⟩ := addStep_some hs
      refine ⟨fun a => ?_, ?_, fun a => ?_⟩
      · rw [h1 a, s1 a, sumIn_cons]; omega
      · rw [h2, s2, sumRetry_cons]; omega
      · rw [h3 a, s3 a]
        simp only [List.mem_cons, exists_eq_or_imp]
        constructor
        · rintro (⟨h | h⟩ | h)
          · exact Or.inl h
          · exact Or.inr (Or.inl h)
          · exact Or.inr (Or.inr h)
        · rintro (h | h | h)
          · exact Or.inl (Or.inl h)
          · exact Or.inl (Or.inr h)
          · exact Or.inr h

/-- the loop succeeds exactly when every per-asset total and the retryable total fit `u64` -/
theorem addUp_isSome_iff (base : Nat) (inputs : List Input) :
    ∀ (m : List (Nat × Nat)) (r : Nat), (∀ a, (mget m a).getD 0 ≤ u64Max) → r ≤ u64Max →
      ((addUpInputBalances base inputs m r).isSome ↔
        ((∀ a, (mget m a).getD 0 + sumIn base inputs a ≤ u64Max) ∧ r + sumRetry inputs ≤ u64Max)) := by
  induction inputs with
  | nil =>
    intro m r hm hr
    simp only [addUpInputBalances, Option.isSome_some, sumIn, sumRetry, List.map_nil, List.sum_nil, Nat.add_zero, true_iff]
    exact ⟨hm, hr⟩
  | cons i rest ih =>
    intro m r hm hr
    rw [addUp_cons]
    have hstep := addStep_isSome_iff (base := base) (i := i) hm hr
    cases hs : addStep base i m r with
    | none =>
      simp only [Option.isSome_none, Bool.false_eq_true, false_iff]
      rw [hs] at hstep
      simp only [Option.isSome_none, Bool.false_eq_true, false_iff] at hstep
      intro ⟨ha, hb⟩
      apply hstep
      refine ⟨fun a => ?_, ?_⟩
      · have := ha a; rw [sumIn_cons] at this; omega
      · rw [sumRetry_cons] at hb; omega
    | some p =>
      obtain ⟨m1, r1⟩ := p
      rw [hs] at hstep
      simp only [Option.isSome_some, true_iff] at hstep
      obtain ⟨s1, s2, _⟩ := addStep_some hs
      have hm1 : ∀ a, (mget m1 a).getD 0 ≤ u64Max := fun a => by rw [s1 a]; exact hstep.1 a
      have hr1 : r1 ≤ u64Max := by rw [s2]; exact hstep.2
      simp only
      rw [ih m1 r1 hm1 hr1]
      constructor
      · rintro ⟨ha, hb⟩
        refine ⟨fun a => ?_, ?_⟩
        · have := ha a; rw [s1 a] at this; rw [sumIn_cons]; omega
        · rw [s2] at hb; rw [sumRetry_cons]; omega
      · rintro ⟨ha, hb⟩
        refine ⟨fun a => ?_, ?_⟩
        · have := ha a; rw [sumIn_cons] at this; rw [s1 a]; omega
        · rw [sumRetry_cons] at hb; rw [s2]; omega

/-! ### `deduct_max_fee_from_base_asset` -/

theorem deduct_ok_iff {m m' : List (Nat × Nat)} {base fee : Nat} :
    deductMaxFee m base fee = .ok m' ↔
      fee ≤ (mget m base).getD 0 ∧ m' = mset m base ((mget m base).getD 0 - fee) := by
  unfold deductMaxFee
  by_cases h : fee ≤ (mget m base).getD 0
  · simp only [h, if_true, Except.ok.injEq, true_and]; exact eq_comm
  · simp [h]

/-! ### `reduce_free_balances_by_coin_outputs` -/

theorem coinOut_cons (o : Output) (rest : List Output) (a : Nat) :
    coinOut (o :: rest) a = o.coinAmount a + coinOut rest a := by
  simp [coinOut]

/-- a successful run subtracted, per asset, the coin outputs of that asset; no entry is created or removed; and
every coin output found an entry -/
theorem reduce_ok (outs : List Output) :
    ∀ (m m' : List (Nat × Nat)), reduceByCoinOutputs m outs = .ok m' →
      (∀ a, (mget m' a).getD 0 + coinOut outs a = (mget m a).getD 0) ∧
      (∀ a, mget m' a ≠ none ↔ mget m a ≠ none) ∧
      (∀ o ∈ outs, ∀ a, o.coinAsset? = some a → mget m a ≠ none) := by
  induction outs with
  | nil =>
    intro m m' h
    simp only [reduceByCoinOutputs, Except.ok.injEq] at h
    subst h
    simp [coinOut]
  | cons o rest ih =>
    intro m m' h
    cases o with
    | coin asset amt =>
      simp only [reduceByCoinOutputs] at h
      cases hg : mget m asset with
      | none => simp [hg] at h
      | some bal =>
        simp only [hg] at h
        by_cases hle : amt ≤ bal
        · simp only [hle, if_true] at h
          obtain ⟨h1, h2, h3⟩ := ih _ _ h
          refine ⟨fun a => ?_, fun a => ?_, ?_⟩
          · have := h1 a
            rw [mget_mset] at this
            rw [coinOut_cons]
            simp only [Output.coinAmount]
            by_cases e : asset = a
            · subst e; simp only [if_true, Option.getD_some, hg] at this ⊢; omega
            · simp only [e, if_false] at this ⊢; omega
          · rw [h2 a, mget_mset]
            by_cases e : asset = a
            · subst e; simp [hg]
            · simp [e]
          · intro o ho a ha
            simp only [List.mem_cons] at ho
            rcases ho with rfl | ho
            · simp only [Output.coinAsset?, Option.some.injEq] at ha; subst ha; simp [hg]
            · have := h3 o ho a ha
              rw [mget_mset] at this
              by_cases e : asset = a
              · subst e; simp [hg]
              · simpa [e] using this
        · simp [hle] at h
    | contract _ | change _ | «variable» | contractCreated _ =>
      simp only [reduceByCoinOutputs] at h
      obtain ⟨h1, h2, h3⟩ := ih _ _ h
      refine ⟨fun a => ?_, h2, ?_⟩
      · rw [coinOut_cons]; simpa [Output.coinAmount] using h1 a
      · intro o ho a ha
        simp only [List.mem_cons] at ho
        rcases ho with rfl | ho
        · simp [Output.coinAsset?] at ha
        · exact h3 o ho a ha

/-- the run succeeds exactly when, per asset, the coin outputs total at most the balance, and every coin output's
asset has an entry -/
theorem reduce_isOk_iff (outs : List Output) :
    ∀ (m : List (Nat × Nat)), (∃ m', reduceByCoinOutputs m outs = .ok m') ↔
      ((∀ a, coinOut outs a ≤ (mget m a).getD 0) ∧ (∀ o ∈ outs, ∀ a, o.coinAsset? = some a → mget m a ≠ none)) := by
  induction outs with
  | nil => intro m; simp [reduceByCoinOutputs, coinOut]
  | cons o rest ih =>
    intro m
    cases o with
    | coin asset amt =>
      simp only [reduceByCoinOutputs]
      cases hg : mget m asset with
      | none =>
        simp only [reduceCtorEq, exists_false, false_iff, not_and]
        intro _ h
        exact absurd hg (h (.coin asset amt) (List.mem_cons_self ..) asset rfl)
      | some bal =>
        simp only
        by_cases hle : amt ≤ bal
        · simp only [hle, if_true]
          rw [ih]
          have key : ∀ a, (mget (mset m asset (bal - amt)) a).getD 0 + Output.coinAmount a (.coin asset amt) = (mget m a).getD 0 := by
            intro a
            rw [mget_mset]
            simp only [Output.coinAmount]
            by_cases e : asset = a
            · subst e; simp only [if_true, Option.getD_some, hg]; omega
            · simp [e]
          have keys : ∀ a, mget (mset m asset (bal - amt)) a ≠ none ↔ mget m a ≠ none := by
            intro a
            rw [mget_mset]
            by_cases e : asset = a
            · subst e; simp [hg]
            · simp [e]
          constructor
          · rintro ⟨h1, h2⟩
            refine ⟨fun a => ?_, ?_⟩
            · have := h1 a; have := key a; rw [coinOut_cons]; omega
            · intro o ho a ha
              simp only [List.mem_cons] at ho
              rcases ho with rfl | ho
              · simp only [Output.coinAsset?, Option.some.injEq] at ha; subst ha; simp [hg]
              · exact (keys a).mp (h2 o ho a ha)
          · rintro ⟨h1, h2⟩
            refine ⟨fun a => ?_, ?_⟩
            · have := h1 a; have := key a; rw [coinOut_cons] at *; omega
            · intro o ho a ha
              exact (keys a).mpr (h2 o (List.mem_cons_of_mem _ ho) a ha)
        · simp only [hle, if_false, reduceCtorEq, exists_false, false_iff, not_and]
          intro h
          have := h asset
          rw [coinOut_cons] at this
          simp only [Output.coinAmount, if_true, hg, Option.getD_some] at this
          omega
    | contract _ | change _ | «variable» | contractCreated _ =>
      simp only [reduceByCoinOutputs]
      rw [ih]
      constructor
      · rintro ⟨h1, h2⟩
        refine ⟨fun a => ?_, ?_⟩
        · rw [coinOut_cons]; simpa [Output.coinAmount] using h1 a
        · intro o ho a ha
          simp only [List.mem_cons] at ho
          rcases ho with rfl | ho
          · simp [Output.coinAsset?] at ha
          · exact h2 o ho a ha
      · rintro ⟨h1, h2⟩
        refine ⟨fun a => ?_, fun o ho a ha => h2 o (List.mem_cons_of_mem _ ho) a ha⟩
        have := h1 a
        rw [coinOut_cons] at this
        simpa [Output.coinAmount] using this

end FuelVerif.Validity
