/- Helper lemmas for C08 (shape-by-shape bit arithmetic; table lookup). -/
import FuelVerif.Model.Instr
import FuelVerif.Lemmas.Bits
namespace FuelVerif.Instr
open FuelVerif.Gen FuelVerif.Bits

macro "instr_unfold" : tactic => `(tactic|
  simp only [reservedOk, reservedRule, unpackArgs, unpackArgsFrom, unpackArg, regUnpackShift, regMask, immMask,
    immCastBits, List.getD_cons_zero, List.getD_cons_succ, Nat.shiftRight_eq_div_pow, and63, and4095, and262143,
    and16777215, packArgsFrom, packArg, regPackShift, Nat.or_zero, Nat.shiftLeft_eq, specPack, argBits, shapeBits,
    List.map_cons, List.map_nil, List.sum_cons, List.sum_nil, ArgsInRange, Nat.zero_add, Nat.shiftRight_zero,
    Nat.reducePow, Nat.reduceSub, Nat.reduceAdd, Nat.add_zero, Nat.sub_zero, Nat.div_one, Nat.mul_one, and_true, true_and] at *)

theorem mem_supported (s : List ArgKind) (h : s ∈ supportedShapes) :
    s = [] ∨ s = [.reg] ∨ s = [.reg, .reg] ∨ s = [.reg, .reg, .reg] ∨ s = [.reg, .reg, .reg, .reg] ∨
    s = [.reg, .reg, .reg, .imm06] ∨ s = [.reg, .reg, .imm12] ∨ s = [.reg, .imm18] ∨ s = [.imm24] := by
  simpa [supportedShapes] using h

theorem reservedOk_spec (s : List ArgKind) (hs : s ∈ supportedShapes) (u : Nat) (hu : u < 2 ^ 24) :
    ∃ b, reservedOk u s = some b ∧ (b = true ↔ u % 2 ^ (24 - shapeBits s) = 0) := by
  rcases mem_supported s hs with h|h|h|h|h|h|h|h|h <;> subst h <;> instr_unfold <;>
    refine ⟨_, rfl, ?_⟩ <;> simp <;> omega

theorem unpack_spec (s : List ArgKind) (hs : s ∈ supportedShapes) (u : Nat) (hu : u < 2 ^ 24) :
    ArgsInRange s (unpackArgs u s) ∧ specPack 0 s (unpackArgs u s) + u % 2 ^ (24 - shapeBits s) = u := by
  rcases mem_supported s hs with h|h|h|h|h|h|h|h|h <;> subst h <;> instr_unfold <;> omega

theorem pack_spec (s : List ArgKind) (hs : s ∈ supportedShapes) (args : List Nat) (hr : ArgsInRange s args) :
    packArgsFrom 0 s args = specPack 0 s args ∧ specPack 0 s args < 2 ^ 24 ∧
    specPack 0 s args % 2 ^ (24 - shapeBits s) = 0 ∧ unpackArgs (specPack 0 s args) s = args := by
  rcases mem_supported s hs with h|h|h|h|h|h|h|h|h <;> subst h
  all_goals (rcases args with _|⟨a,_|⟨b,_|⟨c,_|⟨d,_|⟨e,t⟩⟩⟩⟩⟩ <;> simp only [ArgsInRange, and_false] at hr)
  all_goals instr_unfold
  all_goals try simp (disch := omega) only [mulor6, mulor12, mulor18, List.cons.injEq, and_true, true_and]
  all_goals omega


/-! ### table lookup -/

theorem find_opcode_some {t : List InstrRow} {op : Nat} {row : InstrRow}
    (h : t.find? (fun r => r.opcode == op) = some row) : row ∈ t ∧ row.opcode = op := by
  refine ⟨List.mem_of_find?_eq_some h, ?_⟩
  have := List.find?_some h
  simpa using this

theorem find_opcode_of_nodup {t : List InstrRow} (hn : (t.map (·.opcode)).Nodup) {row : InstrRow}
    (hm : row ∈ t) : t.find? (fun r => r.opcode == row.opcode) = some row := by
  induction t with
  | nil => cases hm
  | cons x xs ih =>
    simp only [List.map_cons, List.nodup_cons] at hn
    rcases List.mem_cons.mp hm with h | h
    · subst h; simp
    · have hne : x.opcode ≠ row.opcode := by
        intro heq
        exact hn.1 (heq ▸ List.mem_map_of_mem h)
      simp [List.find?_cons, hne, ih hn.2 h]

theorem find_opcode_none {t : List InstrRow} {op : Nat}
    (h : t.find? (fun r => r.opcode == op) = none) : ∀ row ∈ t, row.opcode ≠ op := by
  intro row hm heq
  have := List.find?_eq_none.mp h row hm
  simp [heq] at this

end FuelVerif.Instr
